(* LoopChainProofs.v -- the heap level of LoopChain.v never touches a freed node, frees every node
   and produces the log of the snapshot specification, for every script, every callback
   environment and both chains (chain_safe).  Representation invariant CR: the heap chain is the
   list of numbers of the specification's chain, every listed node is allocated and holds
   exactly that watch, nothing else is allocated, the harness believes live exactly the listed
   watches.  The walk is related to the specification's snapshot walk through the
   decomposition WZ of the heap chain (passed / remaining originals / born during the walk) with
   the cursor at the head of what remains. *)
From Coq Require Import ZArith List Bool Lia.
From Tickit Require Import LoopDefs LoopSpec LoopSigDefs LoopSigProofs LoopSigIO LoopSigSpec LoopSigRefine LoopChain.
Import ListNotations.
Local Open Scope Z_scope.

(* ------------------------------------------------------------------ lists of numbers *)

Fixpoint zrm (a : Z) (q : list Z) : list Z :=
  match q with [] => [] | b :: t => if b =? a then t else b :: zrm a t end.

Lemma zrm_sub : forall a q, subl (zrm a q) q.
Proof.
  induction q as [|b t IH]; [constructor|]. cbn [zrm]. destruct (b =? a); [apply subl_skip; apply subl_refl|apply subl_take; exact IH].
Qed.
Lemma zrm_notin : forall a q, ~ In a q -> zrm a q = q.
Proof.
  induction q as [|b t IH]; intros H; [reflexivity|]. cbn [zrm]. destruct (b =? a) eqn:E.
  - exfalso. apply H. left. apply Z.eqb_eq. exact E.
  - f_equal. apply IH. intros Hin. apply H. right. exact Hin.
Qed.
Lemma zrm_app : forall a x y, zrm a (x ++ y) = if zin a x then zrm a x ++ y else x ++ zrm a y.
Proof.
  induction x as [|b t IH]; intros y; [reflexivity|]. cbn [app zrm zin existsb]. rewrite (Z.eqb_sym a b).
  destruct (b =? a); [reflexivity|]. cbn [orb]. change (existsb (Z.eqb a) t) with (zin a t). rewrite IH.
  destruct (zin a t); reflexivity.
Qed.
Lemma zin_in : forall x l, zin x l = true <-> In x l.
Proof.
  intros x l. unfold zin. rewrite existsb_exists. split.
  - intros [y [Hy E]]. apply Z.eqb_eq in E. subst. exact Hy.
  - intros H. exists x. split; [exact H|apply Z.eqb_refl].
Qed.
Lemma zrm_nodup_notin : forall a q, NoDup q -> ~ In a (zrm a q).
Proof.
  induction q as [|b t IH]; intros Hnd; [intros []|]. inversion Hnd as [|? ? Hb Ht]; subst. cbn [zrm].
  destruct (b =? a) eqn:E; [apply Z.eqb_eq in E; subst; exact Hb|].
  intros [H|H]; [apply Z.eqb_neq in E; contradiction|exact (IH Ht H)].
Qed.
Lemma zrem_in : forall x l y, In y (zrem x l) <-> In y l /\ y <> x.
Proof.
  intros x l y. unfold zrem. rewrite filter_In. split; intros [A B]; (split; [exact A|]).
  - apply negb_true_iff in B. apply Z.eqb_neq. exact B.
  - apply negb_true_iff. apply Z.eqb_neq. exact B.
Qed.

Lemma succ_mid : forall P a T, ~ In a P -> succ_of a (P ++ a :: T) = chead T.
Proof.
  induction P as [|b t IH]; intros a T H; cbn [app succ_of].
  - rewrite Z.eqb_refl. destruct T; reflexivity.
  - destruct (b =? a) eqn:E; [exfalso; apply H; left; apply Z.eqb_eq; exact E|].
    apply IH. intros Hin. apply H. right. exact Hin.
Qed.

(* cancel moves the cursor off the node it frees: the cursor stays the head of what remains *)
Lemma zcursor_remove : forall a P Rm, NoDup (P ++ Rm) -> In a (P ++ Rm) ->
  let c' := match chead Rm with Some cu => if cu =? a then succ_of a (P ++ Rm) else chead Rm | None => None end in
  (In a P /\ c' = chead Rm /\ zrm a (P ++ Rm) = zrm a P ++ Rm) \/
  (~ In a P /\ c' = chead (zrm a Rm) /\ zrm a (P ++ Rm) = P ++ zrm a Rm).
Proof.
  intros a P Rm Hnd Hin c'. rewrite zrm_app. destruct (zin a P) eqn:Ep.
  - apply zin_in in Ep. left. split; [exact Ep|]. split; [|reflexivity]. unfold c'.
    destruct Rm as [|x rm]; [reflexivity|]. cbn [chead]. destruct (x =? a) eqn:E; [|reflexivity].
    exfalso. apply Z.eqb_eq in E. subst x. eapply nodup_app_disjoint; [exact Hnd|exact Ep|left; reflexivity].
  - assert (Hn : ~ In a P) by (intros H; apply zin_in in H; congruence).
    right. split; [exact Hn|]. split; [|reflexivity]. unfold c'.
    destruct Rm as [|x rm]; [reflexivity|]. cbn [chead zrm]. destruct (x =? a) eqn:E; [|reflexivity].
    apply Z.eqb_eq in E. subst x. apply succ_mid. exact Hn.
Qed.

(* ------------------------------------------------------------------ the chain of the specification *)

Lemma cfind_some : forall id l w, cfind id l = Some w -> c_id w = id /\ In w l.
Proof.
  induction l as [|h t IH]; intros w H; [discriminate|]. cbn [cfind] in H. destruct (c_id h =? id) eqn:E.
  - inversion H; subst. split; [apply Z.eqb_eq; exact E|left; reflexivity].
  - destruct (IH w H) as [A B]. split; [exact A|right; exact B].
Qed.
Lemma cfind_none : forall id l, ~ In id (map c_id l) -> cfind id l = None.
Proof.
  induction l as [|h t IH]; intros H; [reflexivity|]. cbn [cfind]. destruct (c_id h =? id) eqn:E.
  - exfalso. apply H. left. apply Z.eqb_eq. exact E.
  - apply IH. intros Hin. apply H. right. exact Hin.
Qed.
Lemma cfind_in : forall l w, NoDup (map c_id l) -> In w l -> cfind (c_id w) l = Some w.
Proof.
  induction l as [|h t IH]; intros w Hnd Hin; [destruct Hin|]. cbn [map] in Hnd. inversion Hnd as [|? ? Hn Ht]; subst.
  cbn [cfind]. destruct Hin as [E|Hin]; [subst; rewrite Z.eqb_refl; reflexivity|].
  destruct (c_id h =? c_id w) eqn:E; [|apply IH; assumption].
  exfalso. apply Hn. apply Z.eqb_eq in E. rewrite E. apply in_map. exact Hin.
Qed.
Lemma cremove_ids : forall id l, map c_id (cremove id l) = zrm id (map c_id l).
Proof.
  induction l as [|h t IH]; [reflexivity|]. cbn [cremove map zrm]. destruct (c_id h =? id); [reflexivity|]. cbn [map]. rewrite IH. reflexivity.
Qed.
Lemma cremove_in : forall id x l, In x (cremove id l) -> In x l.
Proof.
  induction l as [|h t IH]; intros H; [destruct H|]. cbn [cremove] in H. destruct (c_id h =? id); [right; exact H|].
  destruct H as [E|H]; [left; exact E|right; auto].
Qed.
Lemma cremove_keep : forall id x l, In x l -> c_id x <> id -> In x (cremove id l).
Proof.
  induction l as [|h t IH]; intros H Hne; [destruct H|]. cbn [cremove]. destruct (c_id h =? id) eqn:E.
  - destruct H as [H|H]; [subst; apply Z.eqb_eq in E; contradiction|exact H].
  - destruct H as [H|H]; [left; exact H|right; apply IH; assumption].
Qed.

(* ------------------------------------------------------------------ the heap *)

Lemma crd_lt : forall h a w, crd h a = Some w -> 0 <= a < Z.of_nat (length (c_hp h)).
Proof.
  intros h a w H. unfold crd in H. destruct (a <? 0) eqn:E; [discriminate|]. apply Z.ltb_ge in E.
  destruct (nth_error (c_hp h) (Z.to_nat a)) eqn:En; [|discriminate].
  assert (Hl : (Z.to_nat a < length (c_hp h))%nat) by (apply nth_error_Some; rewrite En; discriminate). lia.
Qed.

Lemma nth_error_cupd : forall {A} (l : list A) i j v,
  nth_error (cupd l i v) j = if Nat.eqb i j then (if Nat.ltb i (length l) then Some v else None) else nth_error l j.
Proof.
  induction l as [|h t IH]; intros i j v.
  - cbn [cupd length]. destruct (Nat.eqb i j) eqn:E; [|reflexivity]. destruct j; reflexivity.
  - destruct i as [|i]; destruct j as [|j]; cbn [cupd nth_error Nat.eqb length]; try reflexivity.
    rewrite IH. destruct (Nat.eqb i j); [|reflexivity].
    change (Nat.ltb (S i) (S (length t))) with (Nat.ltb i (length t)). reflexivity.
Qed.
Lemma cupd_length : forall {A} (l : list A) i v, length (cupd l i v) = length l.
Proof. induction l as [|h t IH]; intros i v; [reflexivity|]. destruct i; cbn [cupd length]; [reflexivity|]. rewrite IH. reflexivity. Qed.

Definition hp_of (h : hcs) := c_hp h.

Lemma crd_hp : forall h h', c_hp h' = c_hp h -> forall a, crd h' a = crd h a.
Proof. intros h h' E a. unfold crd. rewrite E. reflexivity. Qed.

Lemma crd_app : forall h h' w a, c_hp h' = c_hp h ++ [CLive w] ->
  crd h' a = if a =? Z.of_nat (length (c_hp h)) then Some w else crd h a.
Proof.
  intros h h' w a E. unfold crd. rewrite E. destruct (a <? 0) eqn:E0.
  - apply Z.ltb_lt in E0. destruct (a =? Z.of_nat (length (c_hp h))) eqn:Ea; [apply Z.eqb_eq in Ea; lia|reflexivity].
  - apply Z.ltb_ge in E0. destruct (a =? Z.of_nat (length (c_hp h))) eqn:Ea.
    + apply Z.eqb_eq in Ea. subst a. rewrite Nat2Z.id, nth_error_app2 by lia. rewrite Nat.sub_diag. reflexivity.
    + apply Z.eqb_neq in Ea. destruct (Nat.lt_ge_cases (Z.to_nat a) (length (c_hp h))) as [Hlt|Hge].
      * rewrite nth_error_app1 by exact Hlt. reflexivity.
      * rewrite nth_error_app2 by lia. destruct (Z.to_nat a - length (c_hp h))%nat as [|k] eqn:Ek; [lia|]. cbn [nth_error].
        assert (E1 : nth_error (c_hp h) (Z.to_nat a) = None) by (apply nth_error_None; lia). rewrite E1. destruct k; reflexivity.
Qed.

Lemma cfree_spec : forall h a w, crd h a = Some w ->
  exists h', cfree h a = Some h' /\ c_chain h' = c_chain h /\ c_cursor h' = c_cursor h /\ c_live h' = c_live h /\
             c_exits h' = c_exits h /\ c_sched h' = c_sched h /\ c_iter h' = c_iter h /\ c_log h' = c_log h /\
             length (c_hp h') = length (c_hp h) /\ forall b, crd h' b = if b =? a then None else crd h b.
Proof.
  intros h a w H. unfold cfree. rewrite H. eexists. split; [reflexivity|]. cbn. repeat split; [apply cupd_length|].
  intros b. unfold crd. cbn [c_hp]. destruct (b <? 0) eqn:E0; [destruct (b =? a); reflexivity|].
  apply Z.ltb_ge in E0. pose proof (crd_lt h a w H) as Ha. rewrite nth_error_cupd. destruct (b =? a) eqn:E.
  - apply Z.eqb_eq in E. subst b. rewrite Nat.eqb_refl.
    assert (Hl : Nat.ltb (Z.to_nat a) (length (c_hp h)) = true) by (apply Nat.ltb_lt; lia). rewrite Hl. reflexivity.
  - apply Z.eqb_neq in E. assert (En : Nat.eqb (Z.to_nat a) (Z.to_nat b) = false) by (apply Nat.eqb_neq; lia). rewrite En. reflexivity.
Qed.

(* ------------------------------------------------------------------ the representation invariant *)

Record CR (h : hcs) (s : lst) : Prop := mkCR {
  cr_chain : c_chain h = map c_id (l_chain s);
  cr_rd : forall w, In w (l_chain s) -> crd h (c_id w) = Some w;
  cr_nd : NoDup (c_chain h);
  cr_only : forall a w, crd h a = Some w -> In a (c_chain h);
  cr_hl : forall a, In a (c_live h) <-> In a (c_chain h);
  cr_len : Z.of_nat (length (c_hp h)) = l_next s;
  cr_ex : c_exits h = l_exits s;
  cr_sc : c_sched h = l_sched s;
  cr_it : c_iter h = l_iter s;
  cr_lg : c_log h = l_log s }.

Lemma cr_lt : forall h s a, CR h s -> In a (c_chain h) -> 0 <= a < l_next s.
Proof.
  intros h s a HR Hin. rewrite (cr_chain h s HR) in Hin. apply in_map_iff in Hin. destruct Hin as [w [E Hw]]. subst a.
  rewrite <- (cr_len h s HR). eapply crd_lt. apply (cr_rd h s HR w Hw).
Qed.

Lemma call_live_chain : forall h s, CR h s -> call_live h (c_chain h) = true.
Proof.
  intros h s HR. unfold call_live. apply forallb_forall. intros a Ha. rewrite (cr_chain h s HR) in Ha.
  apply in_map_iff in Ha. destruct Ha as [w [E Hw]]. subst a. rewrite (cr_rd h s HR w Hw). reflexivity.
Qed.

Lemma c_unlink_ok : forall h q a, (forall b, In b q -> crd h b <> None) ->
  c_unlink h a q = Some (if zin a q then Some (zrm a q) else None).
Proof.
  induction q as [|b t IH]; intros a H; [reflexivity|]. cbn [c_unlink zin existsb zrm].
  destruct (crd h b) eqn:Eb; [|exfalso; apply (H b (or_introl eq_refl)); exact Eb].
  rewrite (Z.eqb_sym a b). destruct (b =? a); [reflexivity|]. cbn [orb]. change (existsb (Z.eqb a) t) with (zin a t).
  rewrite IH by (intros y Hy; apply H; right; exact Hy). destruct (zin a t); reflexivity.
Qed.

Section Sim.
Variable proc : bool.
Variable env : Z -> list cact.

Lemma CR_emit : forall h s w f x, CR h s -> (Z.testbit f 1 || Z.testbit f 2 = true -> ~ In (c_id w) (c_chain h)) ->
  CR (hcemit proc h w f x) (lemit proc s w f x).
Proof.
  intros h s w f x [a b c d e g i j k l] Hf.
  apply mkCR; cbn [c_chain c_hp c_live c_exits c_sched c_iter c_log hcemit lemit l_chain l_next l_exits l_sched l_iter l_log]; try assumption.
  - intros a0. destruct (Z.testbit f 1 || Z.testbit f 2) eqn:Eb; [|apply e]. rewrite zrem_in, e. split; [intros [A _]; exact A|].
    intros Hin. split; [exact Hin|]. intros E. subst a0. exact (Hf eq_refl Hin).
  - rewrite k, l. reflexivity.
Qed.

(* registration *)
Lemma sim_creg : forall h s first key ub ds cb, CR h s ->
  exists h', h_reg proc h first key ub ds cb = Some h' /\ CR h' (l_action proc s (CReg first key ub ds cb)) /\
             c_cursor h' = c_cursor h /\
             c_chain h' = (if first then Z.of_nat (length (c_hp h)) :: c_chain h else c_chain h ++ [Z.of_nat (length (c_hp h))]) /\
             length (c_hp h') = S (length (c_hp h)).
Proof.
  intros h s first key ub ds cb HR. pose proof HR as [a b c d e g i j k l].
  unfold h_reg, l_action. rewrite (call_live_chain h s HR), g, i, j.
  set (n := l_next s).
  destruct (if proc then match reap n (l_exits s) with Some (st, e') => (true, st, e', S (l_sched s)) | None => (false, 0, l_exits s, l_sched s) end
            else (false, 0, l_exits s, l_sched s)) as [[[ex st] exits] sched] eqn:Et.
  set (w := mkCw n (if proc then n else key) ex st ub ds cb).
  assert (Hfresh : ~ In n (c_chain h)) by (intros Hin; pose proof (cr_lt h s n HR Hin); unfold n in *; lia).
  assert (Hnd' : NoDup (if first then n :: c_chain h else c_chain h ++ [n])).
  { destruct first; [constructor; assumption|apply NoDup_app_intro_single; assumption]. }
  assert (Hin' : forall x, In x (if first then n :: c_chain h else c_chain h ++ [n]) <-> x = n \/ In x (c_chain h)).
  { intros x. destruct first; cbn [In]; [intuition|]. rewrite in_app_iff. cbn. intuition. }
  assert (Hl' : forall u, In u (if first then w :: l_chain s else l_chain s ++ [w]) <-> u = w \/ In u (l_chain s)).
  { intros u. destruct first; cbn [In]; [intuition|]. rewrite in_app_iff. cbn. intuition. }
  destruct first.
  - eexists. split; [reflexivity|]. split; [|repeat split; cbn; try reflexivity; rewrite app_length; cbn; lia].
    apply mkCR; cbn.
    + rewrite a. reflexivity.
    + intros u [Hu|Hu]; (erewrite crd_app by reflexivity); rewrite g; fold n.
      * subst u. cbn. rewrite Z.eqb_refl. reflexivity.
      * pose proof (crd_lt h _ _ (b u Hu)). destruct (c_id u =? n) eqn:E; [apply Z.eqb_eq in E; unfold n in E; lia|apply b; exact Hu].
    + exact Hnd'.
    + intros a0 u Hu. erewrite crd_app in Hu by reflexivity. rewrite g in Hu. fold n in Hu. destruct (a0 =? n) eqn:E.
      * left. apply Z.eqb_eq in E. symmetry. exact E.
      * right. apply (d a0 u Hu).
    + intros a0. cbn [In]. rewrite e. reflexivity.
    + rewrite app_length. cbn [length]. unfold n. lia.
    + reflexivity.
    + reflexivity.
    + exact k.
    + exact l.
  - eexists. split; [reflexivity|]. split; [|repeat split; cbn; try reflexivity; rewrite app_length; cbn; lia].
    apply mkCR; cbn.
    + rewrite a, map_app. reflexivity.
    + intros u Hu. apply in_app_or in Hu. (erewrite crd_app by reflexivity); rewrite g; fold n. destruct Hu as [Hu|[Hu|[]]].
      * pose proof (crd_lt h _ _ (b u Hu)). destruct (c_id u =? n) eqn:E; [apply Z.eqb_eq in E; unfold n in E; lia|apply b; exact Hu].
      * subst u. cbn. rewrite Z.eqb_refl. reflexivity.
    + exact Hnd'.
    + intros a0 u Hu. erewrite crd_app in Hu by reflexivity. rewrite g in Hu. fold n in Hu. apply in_or_app. destruct (a0 =? n) eqn:E.
      * right. left. apply Z.eqb_eq in E. symmetry. exact E.
      * left. apply (d a0 u Hu).
    + intros a0. cbn [In]. rewrite in_app_iff, e. cbn. intuition.
    + rewrite app_length. cbn [length]. unfold n. lia.
    + reflexivity.
    + reflexivity.
    + exact k.
    + exact l.
Qed.

(* cancellation of a listed watch *)
Lemma sim_ccancel : forall h s id lv, CR h s -> In id (c_chain h) ->
  let h0 := mkHc (c_hp h) (c_chain h) (c_cursor h) lv (c_exits h) (c_sched h) (c_iter h) (c_log h) in
  (forall a, In a lv <-> In a (c_chain h) /\ a <> id) ->
  exists h', h_ccancel proc h0 id = Some h' /\ CR h' (l_action proc s (CCancel id)) /\
             c_chain h' = zrm id (c_chain h) /\ length (c_hp h') = length (c_hp h) /\
             c_cursor h' = match c_cursor h with Some cu => if cu =? id then succ_of id (c_chain h) else c_cursor h | None => None end.
Proof.
  intros h s id lv HR Hin h0 Hlv. pose proof HR as [a b c d e g i j k l].
  pose proof Hin as Hin2. rewrite a in Hin2. apply in_map_iff in Hin2. destruct Hin2 as [w [Eid Hw]].
  assert (Hf : cfind id (l_chain s) = Some w) by (rewrite <- Eid; apply cfind_in; [rewrite <- a; exact c|exact Hw]).
  unfold h_ccancel, l_action. rewrite Hf.
  assert (Hrd0 : crd h0 id = Some w) by (rewrite <- Eid; exact (b w Hw)). rewrite Hrd0.
  change (c_chain h0) with (c_chain h).
  rewrite c_unlink_ok by (intros x Hx; rewrite a in Hx; apply in_map_iff in Hx; destruct Hx as [u [Eu Hu]]; subst x;
                           change (crd h0 (c_id u)) with (crd h (c_id u)); rewrite (b u Hu); discriminate).
  rewrite (proj2 (zin_in id (c_chain h)) Hin).
  set (cur := match c_cursor h0 with Some cu => if cu =? id then succ_of id (c_chain h) else c_cursor h0 | None => None end).
  set (h1 := mkHc (c_hp h0) (zrm id (c_chain h)) cur (c_live h0) (c_exits h0) (c_sched h0) (c_iter h0) (c_log h0)).
  set (s1 := mkL (cremove id (l_chain s)) (l_exits s) (l_sched s) (l_next s) (l_iter s) (l_log s)).
  assert (Hni : ~ In id (zrm id (c_chain h))) by (apply zrm_nodup_notin; exact c).
  assert (Hsub : forall x, In x (zrm id (c_chain h)) <-> In x (c_chain h) /\ x <> id).
  { intros x. split.
    - intros Hx. split; [eapply subl_in; [apply zrm_sub|exact Hx]|]. intros E. subst x. exact (Hni Hx).
    - intros [Hx Hne]. rewrite a in *. rewrite <- cremove_ids. apply in_map_iff in Hx. destruct Hx as [u [Eu Hu]].
      apply in_map_iff. exists u. split; [exact Eu|]. apply cremove_keep; [exact Hu|congruence]. }
  (* the state between unlinking and free: everything but "only listed nodes are allocated" *)
  set (h2 := if c_unbind w then hcemit proc h1 w EV_UNBIND (idle_x proc w) else h1).
  set (s2 := if c_unbind w then lemit proc s1 w EV_UNBIND (idle_x proc w) else s1).
  assert (Hrd2 : forall x, crd h2 x = crd h x) by (intros x; unfold h2; destruct (c_unbind w); reflexivity).
  assert (F2 : c_chain h2 = zrm id (c_chain h) /\ c_cursor h2 = cur /\ c_exits h2 = l_exits s2 /\ c_sched h2 = l_sched s2 /\
               c_iter h2 = l_iter s2 /\ c_log h2 = l_log s2 /\ (forall x, In x (c_live h2) <-> In x (zrm id (c_chain h))) /\
               l_chain s2 = cremove id (l_chain s) /\ l_next s2 = l_next s /\ length (c_hp h2) = length (c_hp h)).
  { unfold h2, s2. destruct (c_unbind w); cbn; (repeat split; try assumption; try reflexivity; try (rewrite k, l; reflexivity)).
    - intros Hx. apply zrem_in in Hx. destruct Hx as [Hx _]. apply Hsub. apply Hlv. exact Hx.
    - intros Hx. apply zrem_in. apply Hsub in Hx. split; [apply Hlv; exact Hx|]. rewrite Eid. apply Hx.
    - intros Hx. apply Hsub. apply Hlv. exact Hx.
    - intros Hx. apply Hlv. apply Hsub. exact Hx. }
  destruct F2 as [G1 [G2 [G3 [G4 [G5 [G6 [G7 [G8 [G9 G10]]]]]]]]].
  assert (Hrd2i : crd h2 id = Some w) by (rewrite Hrd2, <- Eid; exact (b w Hw)). rewrite Hrd2i.
  destruct (cfree_spec h2 id w Hrd2i) as [h' [Ef [C1 [C2 [C3 [C4 [C5 [C6 [C7 [C8 C9]]]]]]]]]]. rewrite Ef.
  exists h'. split; [reflexivity|]. split; [|split; [rewrite C1; exact G1|split; [rewrite C8; exact G10|rewrite C2; exact G2]]].
  apply mkCR.
  - rewrite C1, G1, G8, cremove_ids, a. reflexivity.
  - intros u Hu. rewrite G8 in Hu. pose proof (cremove_in _ _ _ Hu) as Hu0. rewrite C9, Hrd2.
    destruct (c_id u =? id) eqn:E; [|apply b; exact Hu0]. exfalso. apply Z.eqb_eq in E. apply Hni.
    assert (Hm : In (c_id u) (map c_id (cremove id (l_chain s)))) by (apply in_map; exact Hu).
    rewrite E, cremove_ids, <- a in Hm. exact Hm.
  - rewrite C1, G1. eapply subl_nodup; [apply zrm_sub|exact c].
  - intros x u Hx. rewrite C9 in Hx. destruct (x =? id) eqn:E; [discriminate|]. rewrite Hrd2 in Hx. rewrite C1, G1. apply Hsub.
    split; [apply (d x u Hx)|apply Z.eqb_neq; exact E].
  - intros x. rewrite C3, C1, G1. apply G7.
  - rewrite C8, G10, G9. exact g.
  - rewrite C4. exact G3.
  - rewrite C5. exact G4.
  - rewrite C6. exact G5.
  - rewrite C7. exact G6.
Qed.

(* one action: the invariant, and how the chain and the cursor change *)
Inductive chain_step (h h' : hcs) : Prop :=
| cs_same : c_chain h' = c_chain h -> c_cursor h' = c_cursor h -> length (c_hp h') = length (c_hp h) -> chain_step h h'
| cs_front : c_chain h' = Z.of_nat (length (c_hp h)) :: c_chain h -> c_cursor h' = c_cursor h ->
             length (c_hp h') = S (length (c_hp h)) -> chain_step h h'
| cs_back : c_chain h' = c_chain h ++ [Z.of_nat (length (c_hp h))] -> c_cursor h' = c_cursor h ->
            length (c_hp h') = S (length (c_hp h)) -> chain_step h h'
| cs_rm : forall id, In id (c_chain h) -> c_chain h' = zrm id (c_chain h) -> length (c_hp h') = length (c_hp h) ->
          c_cursor h' = match c_cursor h with Some cu => if cu =? id then succ_of id (c_chain h) else c_cursor h | None => None end ->
          chain_step h h'.

Lemma sim_caction : forall h s a, CR h s ->
  exists h', h_caction proc h a = Some h' /\ CR h' (l_action proc s a) /\ chain_step h h'.
Proof.
  intros h s a HR. destruct a as [first key ub ds cb|id|].
  - destruct (sim_creg h s first key ub ds cb HR) as [h' [E [HR' [C1 [C2 C3]]]]]. exists h'. split; [exact E|]. split; [exact HR'|].
    destruct first; [apply cs_front|apply cs_back]; assumption.
  - cbn [h_caction]. destruct (zin id (c_live h)) eqn:Ez.
    + apply zin_in in Ez. apply (cr_hl h s HR) in Ez.
      destruct (sim_ccancel h s id (zrem id (c_live h)) HR Ez) as [h' [E [HR' [C1 [C2 C3]]]]].
      { intros x. rewrite zrem_in, (cr_hl h s HR). reflexivity. }
      exists h'. split; [exact E|]. split; [exact HR'|]. eapply cs_rm; eassumption.
    + exists h. split; [reflexivity|]. split; [|apply cs_same; reflexivity].
      assert (Hn : ~ In id (map c_id (l_chain s))).
      { rewrite <- (cr_chain h s HR). intros Hin. apply (cr_hl h s HR) in Hin. apply zin_in in Hin. congruence. }
      cbn [l_action]. rewrite (cfind_none id _ Hn). exact HR.
  - exists h. split; [reflexivity|]. split; [exact HR|apply cs_same; reflexivity].
Qed.

(* ------------------------------------------------------------------ the walk *)

Section Walk.
Variable N : Z.

Record WZr (r : list Z) (h : hcs) (this : option Z) (P R Nw : list Z) : Prop := mkWZ {
  wz_dec : c_chain h = P ++ R ++ Nw;
  wz_this : this = chead (R ++ Nw);
  wz_sub : subl R r;
  wz_out : forall i, In i r -> ~ In i P /\ ~ In i Nw /\ i < Z.of_nat (length (c_hp h));
  wz_news : forall a, In a Nw -> N <= a;
  wz_N : N <= Z.of_nat (length (c_hp h));
  wz_orig : forall a, In a R -> a < N }.
Definition WZ (r : list Z) (h : hcs) (this : option Z) : Prop := exists P R Nw, WZr r h this P R Nw.

Lemma WZ_step : forall r h h', NoDup (c_chain h) -> chain_step h h' -> WZ r h (c_cursor h) -> WZ r h' (c_cursor h').
Proof.
  intros r h h' Hnd St [P [R [Nw [A B C D E EN F]]]]. destruct St as [Hc Hu Hl | Hc Hu Hl | Hc Hu Hl | id Hin Hc Hl Hu].
  - exists P, R, Nw.
    apply mkWZ; [rewrite Hc; exact A|rewrite Hu; exact B|exact C|intros i Hi; rewrite Hl; apply D; exact Hi|exact E|rewrite Hl; exact EN|exact F].
  - set (n := Z.of_nat (length (c_hp h))) in *. exists (n :: P), R, Nw. apply mkWZ; try assumption.
    + rewrite Hc, A. reflexivity.
    + rewrite Hu. exact B.
    + intros i Hi. destruct (D i Hi) as [D1 [D2 D3]]. split; [|split; [exact D2|rewrite Hl; lia]].
      intros [H|H]; [fold n in D3; lia|contradiction].
    + rewrite Hl. lia.
  - set (n := Z.of_nat (length (c_hp h))) in *.
    destruct (R ++ Nw) as [|x rm] eqn:Erem.
    + apply app_eq_nil in Erem. destruct Erem; subst R Nw. exists (P ++ [n]), [], []. apply mkWZ; cbn.
      * rewrite Hc, A. rewrite !app_nil_r. reflexivity.
      * rewrite Hu. exact B.
      * exact C.
      * intros i Hi. destruct (D i Hi) as [D1 [D2 D3]]. split; [|split; [intros []|rewrite Hl; lia]].
        intros Hin. apply in_app_or in Hin. destruct Hin as [Hin|[Hin|[]]]; [contradiction|fold n in D3; lia].
      * intros a [].
      * rewrite Hl. lia.
      * intros a [].
    + rewrite <- Erem in A, B. exists P, R, (Nw ++ [n]). apply mkWZ.
      * rewrite Hc, A. rewrite <- !app_assoc. reflexivity.
      * rewrite Hu, B. rewrite app_assoc, Erem. reflexivity.
      * exact C.
      * intros i Hi. destruct (D i Hi) as [D1 [D2 D3]]. split; [exact D1|split; [|rewrite Hl; lia]].
        intros Hin. apply in_app_or in Hin. destruct Hin as [Hin|[Hin|[]]]; [contradiction|fold n in D3; lia].
      * intros a Ha. apply in_app_or in Ha. destruct Ha as [Ha|[Ha|[]]]; [exact (E a Ha)|]. subst a. exact EN.
      * rewrite Hl. lia.
      * exact F.
  - rewrite A in Hnd, Hin.
    destruct (zcursor_remove id P (R ++ Nw) Hnd Hin) as [[Hp [Hcu Hz]]|[Hp [Hcu Hz]]]; cbv zeta in Hcu;
      rewrite <- B in Hcu; rewrite <- A in Hcu; rewrite <- Hu in Hcu.
    + exists (zrm id P), R, Nw. apply mkWZ; try assumption.
      * rewrite Hc, A. exact Hz.
      * rewrite Hcu. exact B.
      * intros i Hi. destruct (D i Hi) as [D1 [D2 D3]]. split; [|split; [exact D2|rewrite Hl; exact D3]].
        intros H. apply D1. eapply subl_in; [apply zrm_sub|exact H].
      * rewrite Hl. exact EN.
    + assert (Ez : zrm id (R ++ Nw) = if zin id R then zrm id R ++ Nw else R ++ zrm id Nw) by apply zrm_app.
      rewrite Ez in Hz, Hcu. clear Ez. destruct (zin id R) eqn:Er.
      * exists P, (zrm id R), Nw. apply mkWZ; try assumption.
        -- rewrite Hc, A. exact Hz.
        -- eapply subl_trans; [apply zrm_sub|exact C].
        -- intros i Hi. destruct (D i Hi) as [D1 [D2 D3]]. repeat split; try assumption. rewrite Hl. exact D3.
        -- rewrite Hl. exact EN.
        -- intros a Ha. apply F. eapply subl_in; [apply zrm_sub|exact Ha].
      * exists P, R, (zrm id Nw). apply mkWZ; try assumption.
        -- rewrite Hc, A. exact Hz.
        -- intros i Hi. destruct (D i Hi) as [D1 [D2 D3]]. split; [exact D1|split; [|rewrite Hl; exact D3]].
           intros H. apply D2. eapply subl_in; [apply zrm_sub|exact H].
        -- intros a Ha. apply E. eapply subl_in; [apply zrm_sub|exact Ha].
        -- rewrite Hl. exact EN.
Qed.

Lemma sim_cactions : forall l r h s, CR h s -> WZ r h (c_cursor h) ->
  exists h', h_cactions proc h l = Some h' /\ CR h' (l_actions proc s l) /\ WZ r h' (c_cursor h').
Proof.
  induction l as [|a t IH]; intros r h s HR HW; [exists h; split; [reflexivity|split; assumption]|].
  unfold h_cactions, l_actions. cbn [fold_left]. destruct (sim_caction h s a HR) as [h1 [E1 [HR1 St]]]. rewrite E1.
  apply IH; [exact HR1|]. eapply WZ_step; [apply (cr_nd h s HR)|exact St|exact HW].
Qed.

Definition kbound (k : wkind) : Z := match k with WSig _ b => b | WChild b => b | WNotify b => b end.

Lemma ltest_born : forall k ex w, kbound k <= c_id w -> ltest k ex w = None.
Proof.
  intros k ex w H. destruct k as [sg b|b|b]; cbn [kbound] in H; cbn [ltest].
  - assert (E : (c_id w <? b) = false) by (apply Z.ltb_ge; exact H). rewrite E, andb_false_r. reflexivity.
  - assert (E : (c_id w <? b) = false) by (apply Z.ltb_ge; exact H). rewrite E. cbn [negb]. rewrite orb_true_r. reflexivity.
  - assert (E : (c_id w <? b) = false) by (apply Z.ltb_ge; exact H). rewrite E, andb_false_r. reflexivity.
Qed.

Variable k : wkind.
Hypothesis kN : kbound k = N.

(* the watches born during the walk: looked at, passed over *)
Lemma c_walk_news : forall nw P h s, CR h s -> c_chain h = P ++ nw -> (forall a, In a nw -> N <= a) ->
  exists h', (CR h' s) /\ forall fuel, (length nw < fuel)%nat -> h_walk proc env fuel k (chead nw) h = Some h'.
Proof.
  induction nw as [|x rm IH]; intros P h s HR Hd Hn.
  - exists h. split; [exact HR|]. intros fuel Hf. destruct fuel; [cbn in Hf; lia|reflexivity].
  - assert (Hx : In x (c_chain h)) by (rewrite Hd; apply in_or_app; right; left; reflexivity).
    pose proof Hx as Hx2. rewrite (cr_chain h s HR) in Hx2. apply in_map_iff in Hx2. destruct Hx2 as [w [Ew Hw]].
    pose proof (cr_rd h s HR w Hw) as Hrd. rewrite Ew in Hrd.
    pose proof (cr_nd h s HR) as Hnd. rewrite Hd in Hnd.
    assert (HnP : ~ In x P) by (intros H; eapply nodup_app_disjoint; [exact Hnd|exact H|left; reflexivity]).
    set (h1 := mkHc (c_hp h) (c_chain h) (succ_of x (c_chain h)) (c_live h) (c_exits h) (c_sched h) (c_iter h) (c_log h)).
    assert (HR1 : CR h1 s) by (destruct HR; apply mkCR; assumption).
    assert (Et : ltest k (c_exits h1) w = None) by (apply ltest_born; rewrite kN, Ew; apply Hn; left; reflexivity).
    destruct (IH (P ++ [x]) h1 s HR1) as [h' [HR' W]].
    + cbn [c_chain h1]. rewrite Hd, <- app_assoc. reflexivity.
    + intros a Ha. apply Hn. right. exact Ha.
    + exists h'. split; [exact HR'|]. intros fuel Hf. destruct fuel as [|f]; [cbn [length] in Hf; lia|].
      cbn [chead h_walk]. rewrite Hrd. fold h1. rewrite Et.
      assert (Ec : c_cursor h1 = chead rm) by (cbn [c_cursor h1]; rewrite Hd; apply succ_mid; exact HnP).
      rewrite Ec. apply W. cbn [length] in Hf. lia.
Qed.

Lemma c_walk_sim : forall r h s this, CR h s -> WZ r h this -> NoDup r ->
  exists h', CR h' (l_walk proc env k r s) /\
  exists f0, forall fuel, (f0 <= fuel)%nat -> h_walk proc env fuel k this h = Some h'.
Proof.
  induction r as [|i r IH]; intros h s this HR HW Hnd.
  - destruct HW as [P [R [Nw [A B C D E EN F]]]]. apply subl_nil_inv in C. subst R. cbn [app] in A, B. subst this.
    destruct (c_walk_news Nw P h s HR A E) as [h' [HR' W]]. exists h'. split; [exact HR'|].
    exists (S (length Nw)). intros fuel Hf. apply W. lia.
  - destruct HW as [P [R [Nw [A B C D E EN F]]]]. inversion Hnd as [|? ? Hir Hndr]; subst.
    destruct (subl_cons_inv _ _ _ C Hnd) as [[R' [Ea Hs']]|[Hni Hs']].
    + (* i is the node the cursor names *)
      subst R. cbn [app chead].
      destruct (D i (or_introl eq_refl)) as [Dp [Dn Dl]].
      assert (Hx : In i (c_chain h)) by (rewrite A; apply in_or_app; right; left; reflexivity).
      pose proof Hx as Hx2. rewrite (cr_chain h s HR) in Hx2. apply in_map_iff in Hx2. destruct Hx2 as [w [Ew Hw]].
      pose proof (cr_rd h s HR w Hw) as Hrd. rewrite Ew in Hrd.
      assert (Hfind : cfind i (l_chain s) = Some w).
      { rewrite <- Ew. apply cfind_in; [rewrite <- (cr_chain h s HR); apply (cr_nd h s HR)|exact Hw]. }
      set (h1 := mkHc (c_hp h) (c_chain h) (succ_of i (c_chain h)) (c_live h) (c_exits h) (c_sched h) (c_iter h) (c_log h)).
      assert (HR1 : CR h1 s) by (destruct HR; apply mkCR; assumption).
      assert (Ec1 : c_cursor h1 = chead (R' ++ Nw)) by (cbn [c_cursor h1]; rewrite A; cbn [app]; apply succ_mid; exact Dp).
      assert (HW1 : WZ r h1 (c_cursor h1)).
      { exists (P ++ [i]), R', Nw. apply mkWZ.
        - cbn [c_chain h1]. rewrite A. cbn [app]. rewrite <- app_assoc. reflexivity.
        - exact Ec1.
        - exact Hs'.
        - intros j Hj. destruct (D j (or_intror Hj)) as [D1 [D2 D3]]. split; [|split; [exact D2|exact D3]].
          intros Hin. apply in_app_or in Hin. destruct Hin as [Hin|[Hin|[]]]; [contradiction|]. subst j. contradiction.
        - exact E.
        - exact EN.
        - intros a Ha. apply F. right. exact Ha. }
      cbn [l_walk]. rewrite Hfind. rewrite <- (cr_ex h s HR). change (c_exits h) with (c_exits h1).
      destruct (ltest k (c_exits h1) w) as [[x ex']|] eqn:Et.
      * (* invoked *)
        set (h1x := mkHc (c_hp h1) (c_chain h1) (c_cursor h1) (c_live h1) ex' (c_sched h1) (c_iter h1) (c_log h1)).
        set (s1x := mkL (l_chain s) ex' (l_sched s) (l_next s) (l_iter s) (l_log s)).
        assert (HR1x : CR h1x s1x) by (destruct HR1; apply mkCR; try assumption; reflexivity).
        assert (HRe : CR (hcemit proc h1x w EV_FIRE x) (lemit proc s1x w EV_FIRE x)) by (apply CR_emit; [exact HR1x|discriminate]).
        assert (HWe : WZ r (hcemit proc h1x w EV_FIRE x) (c_cursor (hcemit proc h1x w EV_FIRE x))).
        { apply (WZ_step r h1); [apply (cr_nd h1 s HR1)|apply cs_same; reflexivity|exact HW1]. }
        destruct (sim_cactions (env (c_cb w)) r _ _ HRe HWe) as [h3 [E3 [HR3 HW3]]].
        set (s3 := l_actions proc (lemit proc s1x w EV_FIRE x) (env (c_cb w))) in *.
        destruct proc eqn:Eproc.
        -- (* a process watch: gone once its callback has returned *)
           set (h3' := mkHc (c_hp h3) (c_chain h3) (c_cursor h3) (zrem i (c_live h3)) (c_exits h3) (c_sched h3) (c_iter h3) (c_log h3)).
           assert (Hul : c_unlink h3' i (c_chain h3') = Some (if zin i (c_chain h3) then Some (zrm i (c_chain h3)) else None)).
           { apply c_unlink_ok. intros b Hb. cbn [c_chain h3'] in Hb. rewrite (cr_chain h3 s3 HR3) in Hb. apply in_map_iff in Hb.
             destruct Hb as [u [Eu Hu]]. subst b. change (crd h3' (c_id u)) with (crd h3 (c_id u)). rewrite (cr_rd h3 s3 HR3 u Hu). discriminate. }
           destruct (zin i (c_chain h3)) eqn:Ein.
           ++ apply zin_in in Ein.
              destruct (sim_ccancel h3 s3 i (zrem i (c_live h3)) HR3 Ein) as [h4 [E4 [HR4 [C1 [C2 C3]]]]].
              { intros y. rewrite zrem_in, (cr_hl h3 s3 HR3). reflexivity. }
              (* the removal is the unlink + free of a cancel without notification and without cursor move *)
              pose proof Ein as Ein2. rewrite (cr_chain h3 s3 HR3) in Ein2. apply in_map_iff in Ein2. destruct Ein2 as [u [Eu Hu]].
              assert (Hrd3 : crd h3 i = Some u) by (rewrite <- Eu; apply (cr_rd h3 s3 HR3 u Hu)).
              set (h3u := mkHc (c_hp h3') (zrm i (c_chain h3)) (c_cursor h3') (c_live h3') (c_exits h3') (c_sched h3') (c_iter h3') (c_log h3')).
              destruct (cfree_spec h3u i u Hrd3) as [h5 [Ef [F1 [F2 [F3 [F4 [F5 [F6 [F7 [F8 F9]]]]]]]]]].
              set (s5 := mkL (cremove i (l_chain s3)) (l_exits s3) (l_sched s3) (l_next s3) (l_iter s3) (l_log s3)).
              assert (Hni : ~ In i (zrm i (c_chain h3))) by (apply zrm_nodup_notin; apply (cr_nd h3 s3 HR3)).
              assert (HR5 : CR h5 s5).
              { pose proof HR3 as [a3 b3 c3 d3 e3 g3 i3 j3 k3 l3]. apply mkCR.
                - rewrite F1. cbn [c_chain h3u l_chain s5]. rewrite cremove_ids, a3. reflexivity.
                - intros v Hv. cbn [l_chain s5] in Hv. pose proof (cremove_in _ _ _ Hv) as Hv0. rewrite F9.
                  destruct (c_id v =? i) eqn:E0; [|apply b3; exact Hv0]. exfalso. apply Z.eqb_eq in E0. apply Hni.
                  assert (Hm : In (c_id v) (map c_id (cremove i (l_chain s3)))) by (apply in_map; exact Hv).
                  rewrite E0, cremove_ids, <- a3 in Hm. exact Hm.
                - rewrite F1. cbn [c_chain h3u]. eapply subl_nodup; [apply zrm_sub|exact c3].
                - intros y v Hy. rewrite F9 in Hy. destruct (y =? i) eqn:E0; [discriminate|]. rewrite F1. cbn [c_chain h3u].
                  change (crd h3u y) with (crd h3 y) in Hy. pose proof (d3 y v Hy) as Hin3.
                  rewrite a3 in *. rewrite <- cremove_ids. apply in_map_iff in Hin3. destruct Hin3 as [v' [Ev' Hv']].
                  apply in_map_iff. exists v'. split; [exact Ev'|]. apply cremove_keep; [exact Hv'|]. apply Z.eqb_neq in E0. congruence.
                - intros y. rewrite F3, F1. cbn [c_live h3u h3' c_chain]. rewrite zrem_in, e3. split.
                  + intros [Hy Hne]. rewrite a3 in *. rewrite <- cremove_ids. apply in_map_iff in Hy. destruct Hy as [v' [Ev' Hv']].
                    apply in_map_iff. exists v'. split; [exact Ev'|]. apply cremove_keep; [exact Hv'|congruence].
                  + intros Hy. split; [eapply subl_in; [apply zrm_sub|exact Hy]|]. intros E0. subst y. exact (Hni Hy).
                - rewrite F8. exact g3.
                - rewrite F4. exact i3.
                - rewrite F5. exact j3.
                - rewrite F6. exact k3.
                - rewrite F7. exact l3. }
              assert (HW5 : WZ r h5 (c_cursor h5)).
              { destruct HW3 as [P3 [R3 [N3 [A3 B3 C3' D3' E3' EN3 F3']]]].
                assert (HiP : In i P3).
                { rewrite A3 in Ein. apply in_app_or in Ein. destruct Ein as [H|H]; [exact H|]. exfalso.
                  apply in_app_or in H. destruct H as [H|H].
                  - apply Hir. eapply subl_in; [exact C3'|exact H].
                  - pose proof (E3' i H). pose proof (F i (or_introl eq_refl)). lia. }
                exists (zrm i P3), R3, N3. apply mkWZ.
                - rewrite F1. cbn [c_chain h3u]. rewrite A3, zrm_app, (proj2 (zin_in i P3) HiP). reflexivity.
                - rewrite F2. exact B3.
                - exact C3'.
                - intros j Hj. destruct (D3' j Hj) as [D1 [D2 D3]]. split; [|split; [exact D2|rewrite F8; exact D3]].
                  intros H. apply D1. eapply subl_in; [apply zrm_sub|exact H].
                - exact E3'.
                - rewrite F8. exact EN3.
                - exact F3'. }
              destruct (IH h5 s5 (c_cursor h5) HR5 HW5 Hndr) as [h' [HR' [f0 Hf0]]].
              exists h'. split; [exact HR'|]. exists (S f0). intros fuel Hf. destruct fuel as [|f]; [lia|].
              cbn [h_walk]. rewrite Hrd. fold h1. rewrite Et. fold h1x. rewrite E3. fold h3'. rewrite Hul. fold h3u. rewrite Ef. apply Hf0. lia.
           ++ (* it cancelled itself in its callback: nothing to remove *)
              assert (Hnin : ~ In i (c_chain h3)) by (intros H; apply zin_in in H; congruence).
              assert (HR3' : CR h3' s3).
              { pose proof HR3 as [a3 b3 c3 d3 e3 g3 i3 j3 k3 l3]. apply mkCR; try assumption.
                intros y. cbn [c_live h3' c_chain]. rewrite zrem_in, e3. split; [intros [H _]; exact H|].
                intros H. split; [exact H|]. intros E0. subst y. exact (Hnin H). }
              assert (Es5 : mkL (cremove i (l_chain s3)) (l_exits s3) (l_sched s3) (l_next s3) (l_iter s3) (l_log s3) = s3).
              { assert (Hn2 : ~ In i (map c_id (l_chain s3))) by (rewrite <- (cr_chain h3 s3 HR3); exact Hnin).
                assert (Er : cremove i (l_chain s3) = l_chain s3).
                { clear - Hn2. induction (l_chain s3) as [|v t IHt]; [reflexivity|]. cbn [cremove]. destruct (c_id v =? i) eqn:E0.
                  - exfalso. apply Hn2. left. apply Z.eqb_eq. exact E0.
                  - f_equal. apply IHt. intros H. apply Hn2. right. exact H. }
                rewrite Er. destruct s3; reflexivity. }
              rewrite Es5.
              assert (HW3' : WZ r h3' (c_cursor h3')).
              { apply (WZ_step r h3); [apply (cr_nd h3 s3 HR3)|apply cs_same; reflexivity|exact HW3]. }
              destruct (IH h3' s3 (c_cursor h3') HR3' HW3' Hndr) as [h' [HR' [f0 Hf0]]].
              exists h'. split; [exact HR'|]. exists (S f0). intros fuel Hf. destruct fuel as [|f]; [lia|].
              cbn [h_walk]. rewrite Hrd. fold h1. rewrite Et. fold h1x. rewrite E3. fold h3'. rewrite Hul. apply Hf0. lia.
        -- (* a signal watch stays *)
           destruct (IH h3 s3 (c_cursor h3) HR3 HW3 Hndr) as [h' [HR' [f0 Hf0]]].
           exists h'. split; [exact HR'|]. exists (S f0). intros fuel Hf. destruct fuel as [|f]; [lia|].
           cbn [h_walk]. rewrite Hrd. fold h1. rewrite Et. fold h1x. rewrite E3. apply Hf0. lia.
      * (* passed over *)
        destruct (IH h1 s (c_cursor h1) HR1 HW1 Hndr) as [h' [HR' [f0 Hf0]]].
        exists h'. split; [exact HR'|]. exists (S f0). intros fuel Hf. destruct fuel as [|f]; [lia|].
        cbn [h_walk]. rewrite Hrd. fold h1. rewrite Et. apply Hf0. lia.
    + (* i was cancelled before its turn *)
      assert (Hdead : cfind i (l_chain s) = None).
      { apply cfind_none. rewrite <- (cr_chain h s HR), A. destruct (D i (or_introl eq_refl)) as [D1 [D2 _]].
        intros Hin. apply in_app_or in Hin. destruct Hin as [Hin|Hin]; [contradiction|].
        apply in_app_or in Hin. destruct Hin as [Hin|Hin]; contradiction. }
      cbn [l_walk]. rewrite Hdead. apply IH; [exact HR| |exact Hndr].
      exists P, R, Nw. apply mkWZ; [exact A|reflexivity|exact Hs'| |exact E|exact EN|exact F]. intros j Hj. apply D. right. exact Hj.
Qed.

End Walk.

(* ------------------------------------------------------------------ dispatch, ticks, scripts *)

Lemma sim_cdispatch : forall k h s, CR h s -> kbound k = l_next s ->
  exists h', CR h' (l_dispatch proc env k s) /\
  exists f0, forall fuel, (f0 <= fuel)%nat -> h_dispatch proc env fuel k h = Some h'.
Proof.
  intros k h s HR Hk. unfold l_dispatch, h_dispatch. rewrite <- (cr_chain h s HR).
  apply (c_walk_sim (l_next s) k Hk); [exact HR| |apply (cr_nd h s HR)].
  exists [], (c_chain h), []. apply mkWZ.
  - cbn [app]. rewrite app_nil_r. reflexivity.
  - rewrite app_nil_r. reflexivity.
  - apply subl_refl.
  - intros i Hi. split; [intros []|split; [intros []|]]. rewrite (cr_len h s HR). apply (cr_lt h s i HR Hi).
  - intros a [].
  - rewrite (cr_len h s HR). lia.
  - intros a Ha. apply (cr_lt h s a HR Ha).
Qed.

Lemma sim_cnotifies : forall n h s, CR h s ->
  exists h', CR h' (l_notifies proc env n s) /\
  exists f0, forall fuel, (f0 <= fuel)%nat -> h_notifies proc env fuel n h = Some h'.
Proof.
  induction n as [|n IH]; intros h s HR.
  - exists h. split; [exact HR|]. exists O. intros fuel _. reflexivity.
  - cbn [l_notifies h_notifies]. rewrite (cr_len h s HR).
    destruct (sim_cdispatch (WNotify (l_next s)) h s HR eq_refl) as [h1 [HR1 [f1 Hf1]]].
    destruct (IH h1 _ HR1) as [h' [HR' [f2 Hf2]]]. exists h'. split; [exact HR'|].
    exists (Nat.max f1 f2). intros fuel Hf. rewrite (Hf1 fuel ltac:(lia)). apply Hf2. lia.
Qed.

Lemma sim_cop : forall h s o, CR h s ->
  exists h', CR h' (l_op proc env s o) /\
  exists f0, forall fuel, (f0 <= fuel)%nat -> h_cop proc env fuel (Some h) o = Some h'.
Proof.
  intros h s o HR. destruct o as [a|arg|key st|]; cbn [l_op h_cop].
  - destruct (sim_caction h s a HR) as [h' [E [HR' _]]]. exists h'. split; [exact HR'|]. exists O. intros fuel _. exact E.
  - rewrite (cr_len h s HR). set (k := if proc then WChild (l_next s) else WSig arg (l_next s)).
    assert (E1 : (if proc then l_dispatch proc env (WChild (l_next s)) s else l_dispatch proc env (WSig arg (l_next s)) s) = l_dispatch proc env k s)
      by (unfold k; destruct proc; reflexivity).
    assert (E2 : forall fuel, (if proc then h_dispatch proc env fuel (WChild (l_next s)) h else h_dispatch proc env fuel (WSig arg (l_next s)) h) =
                              h_dispatch proc env fuel k h) by (intros fuel; unfold k; destruct proc; reflexivity).
    rewrite E1. destruct (sim_cdispatch k h s HR) as [h' [HR' [f0 Hf0]]]; [unfold k; destruct proc; reflexivity|].
    exists h'. split; [exact HR'|]. exists f0. intros fuel Hf. rewrite E2. apply Hf0. exact Hf.
  - eexists. split; [|exists O; intros fuel _; reflexivity]. destruct HR as [a b c d e g i j k l]. apply mkCR; cbn; try assumption.
    rewrite i. reflexivity.
  - rewrite (cr_sc h s HR).
    apply sim_cnotifies. destruct HR as [a b c d e g i j k l].
    apply mkCR; cbn [c_chain c_hp c_live c_exits c_sched c_iter c_log l_chain l_next l_exits l_sched l_iter l_log]; try assumption; try reflexivity;
      [rewrite k; reflexivity|rewrite l; reflexivity].
Qed.

Lemma h_cop_none : forall fuel ops, fold_left (h_cop proc env fuel) ops None = None.
Proof. induction ops as [|o r IH]; [reflexivity|exact IH]. Qed.

Lemma sim_cops : forall ops h s, CR h s ->
  exists h', CR h' (fold_left (l_op proc env) ops s) /\
  exists f0, forall fuel, (f0 <= fuel)%nat -> fold_left (h_cop proc env fuel) ops (Some h) = Some h'.
Proof.
  induction ops as [|o r IH]; intros h s HR.
  - exists h. split; [exact HR|]. exists O. intros fuel _. reflexivity.
  - cbn [fold_left]. destruct (sim_cop h s o HR) as [h1 [HR1 [f1 Hf1]]]. destruct (IH h1 _ HR1) as [h' [HR' [f2 Hf2]]].
    exists h'. split; [exact HR'|]. exists (Nat.max f1 f2). intros fuel Hf. rewrite (Hf1 fuel ltac:(lia)). apply Hf2. lia.
Qed.

(* destroy_watchlist *)
Definition cdfun (oh : option hcs) (a : Z) : option hcs :=
  match oh with
  | None => None
  | Some h => match crd h a with
              | None => None
              | Some w => cfree (if c_unbind w || c_destroy w then hcemit proc h w (EV_UNBIND + EV_DESTROY) (idle_x proc w) else h) a
              end
  end.

Lemma cdestroy_fold : forall l h s,
  (forall w, In w l -> crd h (c_id w) = Some w) -> NoDup (map c_id l) -> c_log h = l_log s -> c_iter h = l_iter s ->
  (forall a w, crd h a = Some w -> In a (map c_id l)) ->
  exists h', fold_left cdfun (map c_id l) (Some h) = Some h' /\
    c_log h' = l_log (fold_left (fun s w => if c_unbind w || c_destroy w then lemit proc s w (EV_UNBIND + EV_DESTROY) (idle_x proc w) else s) l s) /\
    (forall a, crd h' a = None).
Proof.
  induction l as [|w r IH]; intros h s Hrd Hnd Hlg Hit Honly.
  - exists h. split; [reflexivity|]. split; [exact Hlg|].
    intros a. destruct (crd h a) eqn:E; [destruct (Honly a c E)|reflexivity].
  - cbn [map fold_left cdfun]. rewrite (Hrd w (or_introl eq_refl)).
    cbn [map] in Hnd. inversion Hnd as [|? ? Hn Ht]; subst.
    set (h1 := if c_unbind w || c_destroy w then hcemit proc h w (EV_UNBIND + EV_DESTROY) (idle_x proc w) else h).
    set (s1 := if c_unbind w || c_destroy w then lemit proc s w (EV_UNBIND + EV_DESTROY) (idle_x proc w) else s).
    assert (Hrd1 : forall x, crd h1 x = crd h x) by (intros x; unfold h1; destruct (c_unbind w || c_destroy w); reflexivity).
    assert (Hrdw : crd h1 (c_id w) = Some w) by (rewrite Hrd1; apply Hrd; left; reflexivity).
    destruct (cfree_spec h1 (c_id w) w Hrdw) as [h2 [Ef [_ [_ [_ [_ [_ [F6 [F7 [_ F9]]]]]]]]]]. rewrite Ef.
    destruct (IH h2 s1) as [h' [E' [L' N']]].
    + intros u Hu. rewrite F9. destruct (c_id u =? c_id w) eqn:E0.
      * exfalso. apply Z.eqb_eq in E0. apply Hn. rewrite <- E0. apply in_map. exact Hu.
      * rewrite Hrd1. apply Hrd. right. exact Hu.
    + exact Ht.
    + rewrite F7. unfold h1, s1. destruct (c_unbind w || c_destroy w); cbn; [rewrite Hlg, Hit; reflexivity|exact Hlg].
    + rewrite F6. unfold h1, s1. destruct (c_unbind w || c_destroy w); exact Hit.
    + intros a u Ha. rewrite F9 in Ha. destruct (a =? c_id w) eqn:E0; [discriminate|]. rewrite Hrd1 in Ha.
      destruct (Honly a u Ha) as [H|H]; [apply Z.eqb_neq in E0; congruence|exact H].
    + exists h'. split; [exact E'|]. split; [exact L'|exact N'].
Qed.

Lemma c_no_live_of : forall h, (forall a, crd h a = None) -> c_no_live h = true.
Proof.
  intros h H. unfold c_no_live. apply forallb_forall. intros c Hc. destruct c as [w|]; [|reflexivity].
  destruct (In_nth_error _ _ Hc) as [i Hi]. specialize (H (Z.of_nat i)). unfold crd in H.
  assert (E : (Z.of_nat i <? 0) = false) by (apply Z.ltb_ge; lia). rewrite E, Nat2Z.id, Hi in H. discriminate.
Qed.

Lemma CR0 : CR hcs0 lst0.
Proof.
  apply mkCR; cbn; try reflexivity.
  - intros w [].
  - constructor.
  - intros a w H. unfold crd in H. cbn in H. destruct (a <? 0); [discriminate|]. destruct (Z.to_nat a); discriminate.
Qed.

(* C17_chain_safe: for every script -- registrations, cancellations (of the own watch, the next
   one, any other) and registrations from inside callbacks, exits of children before and after
   their watch is registered, dispatches, iterations -- the heap level reads no freed node, frees
   every node, and logs what the snapshot specification logs *)
Theorem chain_safe : forall ops,
  exists f0, forall fuel, (f0 <= fuel)%nat -> h_crun proc env fuel ops = Some (l_run proc env ops, true).
Proof.
  intros ops. destruct (sim_cops ops hcs0 lst0 CR0) as [h [HR [f0 Hf0]]].
  exists f0. intros fuel Hf. unfold h_crun, l_run. rewrite (Hf0 fuel Hf).
  set (s := fold_left (l_op proc env) ops lst0) in *.
  unfold h_cdestroy, l_destroy.
  set (h0 := mkHc (c_hp h) (c_chain h) (c_cursor h) (c_live h) (c_exits h) (c_sched h) (-1) (c_log h)).
  set (s0 := mkL (l_chain s) (l_exits s) (l_sched s) (l_next s) (-1) (l_log s)).
  change (fold_left _ (c_chain h0) (Some h0)) with (fold_left cdfun (c_chain h) (Some h0)).
  rewrite (cr_chain h s HR).
  destruct (cdestroy_fold (l_chain s) h0 s0) as [h' [E' [L' N']]].
  - intros w Hw. apply (cr_rd h s HR w Hw).
  - rewrite <- (cr_chain h s HR). apply (cr_nd h s HR).
  - apply (cr_lg h s HR).
  - reflexivity.
  - intros a w Ha. rewrite <- (cr_chain h s HR). apply (cr_only h s HR a w Ha).
  - rewrite E'. cbn [c_log c_hp]. rewrite L'. f_equal. f_equal.
    apply c_no_live_of. intros a. exact (N' a).
Qed.

End Sim.

(* ------------------------------------------------------------------ process watches: once, with the reported status *)

Definition pfire (id : Z) (o : obs) : bool :=
  match o with OEv e => (e_id e =? id) && (e_flags e =? EV_FIRE) | OPoll _ => false end.
Definition pfires (id : Z) (l : list obs) : nat := length (filter (pfire id) l).
Definition cids (s : lst) : list Z := map c_id (l_chain s).

Section Proc.
Variable env : Z -> list cact.

(* the specification's state (process chain): a watch that has fired is gone for good and fired once;
   every status in the table, stored in a watch or reported was supplied by the script for that child *)
Record PI (ever : list (Z * Z)) (s : lst) : Prop := mkPI {
  pi_nd : NoDup (cids s);
  pi_lt : forall id, In id (cids s) -> id < l_next s;
  pi_evlt : forall e, In (OEv e) (l_log s) -> e_id e < l_next s;
  pi_gone : forall id, (1 <= pfires id (l_log s))%nat -> ~ In id (cids s);
  pi_one : forall id, (pfires id (l_log s) <= 1)%nat;
  pi_key : forall w, In w (l_chain s) -> c_key w = c_id w;
  pi_tab : forall p, In p (l_exits s) -> In p ever;
  pi_st : forall w, In w (l_chain s) -> c_ex w = true -> In (c_id w, c_st w) ever;
  pi_x : forall e, In (OEv e) (l_log s) -> e_flags e = EV_FIRE -> In (e_id e, e_x e) ever }.

Lemma reap_in : forall key l st l', reap key l = Some (st, l') -> In (key, st) l /\ forall p, In p l' -> In p l.
Proof.
  induction l as [|[k v] t IH]; intros st l' H; [discriminate|]. cbn [reap] in H. destruct (k =? key) eqn:E.
  - inversion H; subst. apply Z.eqb_eq in E. subst k. split; [left; reflexivity|intros p Hp; right; exact Hp].
  - destruct (reap key t) as [[st0 t0]|] eqn:Er; [|discriminate]. inversion H; subst. destruct (IH st t0 eq_refl) as [A B].
    split; [right; exact A|]. intros p [Hp|Hp]; [left; exact Hp|right; apply B; exact Hp].
Qed.

Lemma pfires_fresh : forall id l n, (forall e, In (OEv e) l -> e_id e < n) -> n <= id -> pfires id l = O.
Proof.
  intros id l n H Hn. unfold pfires. induction l as [|o t IH]; [reflexivity|]. cbn [filter]. destruct o as [m|e]; cbn [pfire].
  - apply IH. intros e He. apply H. right. exact He.
  - pose proof (H e (or_introl eq_refl)). destruct (e_id e =? id) eqn:E; [apply Z.eqb_eq in E; lia|]. cbn [andb]. apply IH. intros e' He. apply H. right. exact He.
Qed.

(* what a callback's actions leave alone *)
Definition Fr (s s' : lst) : Prop :=
  l_next s <= l_next s' /\ (forall id, pfires id (l_log s') = pfires id (l_log s)) /\
  (forall w, In w (l_chain s') -> In w (l_chain s) \/ l_next s <= c_id w) /\
  (forall p, In p (l_exits s') -> In p (l_exits s)).

Lemma Fr_refl : forall s, Fr s s.
Proof. intros s. split; [lia|split; [reflexivity|split; [intros j H; left; exact H|intros p H; exact H]]]. Qed.
Lemma Fr_trans : forall a b c, Fr a b -> Fr b c -> Fr a c.
Proof.
  intros a b c [A1 [A2 [A3 A4]]] [B1 [B2 [B3 B4]]]. split; [lia|split; [|split]].
  - intros id. rewrite B2. apply A2.
  - intros j H. destruct (B3 j H) as [H1|H1]; [apply A3; exact H1|right; lia].
  - intros p H. apply A4. apply B4. exact H.
Qed.
Lemma Fr_ids : forall s s', Fr s s' -> forall j, In j (cids s') -> In j (cids s) \/ l_next s <= j.
Proof.
  intros s s' [_ [_ [F _]]] j Hj. unfold cids in Hj. apply in_map_iff in Hj. destruct Hj as [w [E Hw]]. subst j.
  destruct (F w Hw) as [H|H]; [left; unfold cids; apply in_map; exact H|right; exact H].
Qed.

Lemma cids_reg : forall (first : bool) l w x, In x (map c_id (if first then w :: l else l ++ [w])) <-> x = c_id w \/ In x (map c_id l).
Proof.
  intros first l w x. destruct first; cbn [map In]; [intuition|]. rewrite map_app, in_app_iff. cbn. intuition.
Qed.

Lemma PI_action : forall ever s a, PI ever s -> PI ever (l_action true s a) /\ Fr s (l_action true s a).
Proof.
  intros ever s a HP. pose proof HP as [A B B2 G O K T S X]. destruct a as [first key ub ds cb|id|]; [| |split; [exact HP|apply Fr_refl]].
  - cbn [l_action].
    assert (Hreg : forall ex st e' sc, (forall p, In p e' -> In p (l_exits s)) -> (forall p, In p e' -> In p ever) -> (ex = true -> In (l_next s, st) ever) ->
              let w := mkCw (l_next s) (l_next s) ex st ub ds cb in
              let s' := mkL (if first then w :: l_chain s else l_chain s ++ [w]) e' sc (l_next s + 1) (l_iter s) (l_log s) in
              PI ever s' /\ Fr s s').
    { intros ex st e' sc He0 He' Hst w s'.
      assert (Hin : forall x, In x (cids s') <-> x = l_next s \/ In x (cids s)) by (intros x; unfold cids, s'; cbn [l_chain]; apply cids_reg).
      assert (Hinw : forall u, In u (l_chain s') -> u = w \/ In u (l_chain s)).
      { intros u Hu. unfold s' in Hu. cbn [l_chain] in Hu. destruct first; [destruct Hu; [left; symmetry|right]; assumption|].
        apply in_app_or in Hu. destruct Hu as [Hu|[Hu|[]]]; [right; exact Hu|left; symmetry; exact Hu]. }
      split.
      - apply mkPI.
        + unfold cids, s'. cbn [l_chain]. destruct first; cbn [map].
          * constructor; [|exact A]. intros H. unfold w in H. cbn [c_id] in H. specialize (B _ H). lia.
          * rewrite map_app. cbn [map]. apply NoDup_app_intro_single; [exact A|]. intros H. unfold w in H. cbn [c_id] in H. specialize (B _ H). lia.
        + intros id Hid. apply Hin in Hid. cbn [l_next s']. destruct Hid as [Hid|Hid]; [lia|specialize (B id Hid); lia].
        + intros e He. cbn [l_next s']. specialize (B2 e He). lia.
        + intros id Hf Hid. apply Hin in Hid. destruct Hid as [Hid|Hid]; [|exact (G id Hf Hid)].
          subst id. cbn [l_log s'] in Hf. rewrite (pfires_fresh _ _ _ B2 (Z.le_refl _)) in Hf. lia.
        + exact O.
        + intros u Hu. destruct (Hinw u Hu) as [E|Hu']; [subst u; reflexivity|apply K; exact Hu'].
        + exact He'.
        + intros u Hu Hex. destruct (Hinw u Hu) as [E|Hu']; [subst u; cbn in *; apply Hst; exact Hex|apply S; assumption].
        + exact X.
      - split; [cbn; lia|split; [reflexivity|split; [|exact He0]]]. intros u Hu. destruct (Hinw u Hu) as [E|Hu']; [right; subst u; cbn; lia|left; exact Hu']. }
    destruct (reap (l_next s) (l_exits s)) as [[st e']|] eqn:Er.
    + destruct (reap_in _ _ _ _ Er) as [R1 R2]. apply Hreg; [exact R2|intros p Hp; apply T; apply R2; exact Hp|intros _; apply T; exact R1].
    + apply Hreg; [intros p Hp; exact Hp|exact T|discriminate].
  - cbn [l_action]. destruct (cfind id (l_chain s)) as [w|] eqn:Ef; [|split; [exact HP|apply Fr_refl]].
    destruct (cfind_some _ _ _ Ef) as [Ei Hw].
    set (s1 := mkL (cremove id (l_chain s)) (l_exits s) (l_sched s) (l_next s) (l_iter s) (l_log s)).
    assert (Hsub : forall x, In x (cids s1) -> In x (cids s)).
    { intros x Hx. unfold cids, s1 in Hx. cbn [l_chain] in Hx. rewrite cremove_ids in Hx. eapply subl_in; [apply zrm_sub|exact Hx]. }
    assert (G1 : PI ever s1 /\ Fr s s1).
    { split.
      - apply mkPI; cbn [l_log l_next l_exits s1]; try assumption.
        + unfold cids, s1. cbn [l_chain]. rewrite cremove_ids. eapply subl_nodup; [apply zrm_sub|exact A].
        + intros x Hx. apply B. apply Hsub. exact Hx.
        + intros x Hf Hx. apply (G x Hf). apply Hsub. exact Hx.
        + intros u Hu. apply K. eapply cremove_in. exact Hu.
        + intros u Hu. apply S. eapply cremove_in. exact Hu.
      - split; [cbn; lia|split; [reflexivity|split; [|intros p Hp; exact Hp]]]. intros u Hu. left. eapply cremove_in. exact Hu. }
    destruct (c_unbind w); [|exact G1]. destruct G1 as [[A' B' B2' G' O' K' T' S' X'] F1].
    assert (Hpf : forall i, pfires i (l_log (lemit true s1 w EV_UNBIND (idle_x true w))) = pfires i (l_log s1)).
    { intros i. unfold pfires. cbn [l_log lemit filter pfire e_flags e_id]. change (EV_UNBIND =? EV_FIRE) with false. rewrite andb_false_r. reflexivity. }
    split.
    + apply mkPI; try assumption.
      * intros e [He|He]; [injection He as He'; rewrite <- He'; cbn; apply B; unfold cids; apply in_map; exact Hw|apply B2'; exact He].
      * intros i Hf. rewrite Hpf in Hf. exact (G' i Hf).
      * intros i. rewrite Hpf. apply O'.
      * intros e [He|He] Hf; [inversion He; subst; discriminate|apply X'; assumption].
    + eapply Fr_trans; [exact F1|]. split; [cbn; lia|split; [exact Hpf|split; [intros j Hj; left; exact Hj|intros p Hp; exact Hp]]].
Qed.

Lemma PI_actions : forall ever l s, PI ever s -> PI ever (l_actions true s l) /\ Fr s (l_actions true s l).
Proof.
  intros ever l. induction l as [|a t IH]; intros s H; [split; [exact H|apply Fr_refl]|]. cbn [l_actions fold_left].
  destruct (PI_action ever s a H) as [H1 F1]. destruct (IH _ H1) as [H2 F2]. split; [exact H2|eapply Fr_trans; eassumption].
Qed.

Definition proc_kind (k : wkind) : Prop := match k with WSig _ _ => False | _ => True end.

Definition Fw (s s' : lst) : Prop :=
  l_next s <= l_next s' /\ (forall w, In w (l_chain s') -> In w (l_chain s) \/ l_next s <= c_id w) /\
  (forall p, In p (l_exits s') -> In p (l_exits s)).

(* one invocation: the event, the callback's actions, the watch leaves the chain *)
Lemma PI_fire : forall ever k s i w x ex', proc_kind k -> PI ever s ->
  cfind i (l_chain s) = Some w -> ltest k (l_exits s) w = Some (x, ex') ->
  let s2 := l_actions true (lemit true (mkL (l_chain s) ex' (l_sched s) (l_next s) (l_iter s) (l_log s)) w EV_FIRE x) (env (c_cb w)) in
  let s3 := mkL (cremove i (l_chain s2)) (l_exits s2) (l_sched s2) (l_next s2) (l_iter s2) (l_log s2) in
  PI ever s3 /\ Fw s s3 /\ ~ In i (cids s3).
Proof.
  intros ever k s i w x ex' Hk HP Ef Et. cbv zeta.
  pose proof HP as [A B B2 G O1 K T S1 X]. destruct (cfind_some _ _ _ Ef) as [Ei Hw].
  assert (Hi : In i (cids s)) by (unfold cids; rewrite <- Ei; apply in_map; exact Hw).
  (* what the walk reports is what the script supplied for this child *)
  assert (Hx : In (i, x) ever /\ forall p, In p ex' -> In p (l_exits s)).
  { destruct k as [sg b|b|b]; [destruct Hk| |]; cbn [ltest] in Et.
    - destruct (c_ex w || negb (c_id w <? b)); [discriminate|]. destruct (reap_in _ _ _ _ Et) as [R1 R2].
      rewrite (K w Hw), Ei in R1. split; [apply T; exact R1|exact R2].
    - destruct (c_ex w) eqn:Ex; cbn [andb] in Et; [|discriminate]. destruct (c_id w <? b); inversion Et; subst x ex'.
      split; [rewrite <- Ei; apply S1; assumption|intros p Hp; exact Hp]. }
  destruct Hx as [Hx1 Hx2'].
  assert (Hx2 : forall p, In p ex' -> In p ever) by (intros p Hp; apply T; apply Hx2'; exact Hp).
  assert (Hf0 : pfires i (l_log s) = O).
  { destruct (pfires i (l_log s)) eqn:E; [reflexivity|]. exfalso. apply (G i); [lia|exact Hi]. }
  set (s0 := mkL (l_chain s) ex' (l_sched s) (l_next s) (l_iter s) (l_log s)).
  set (s1 := lemit true s0 w EV_FIRE x).
  (* the state in which the callback runs, with the firing watch set aside: the invariant of a state
     in which it has fired and still is in the chain *)
  assert (Hpf1 : forall j, pfires j (l_log s1) = ((if (c_id w =? j)%Z then 1 else 0) + pfires j (l_log s))%nat).
  { intros j. unfold pfires. cbn [l_log s1 lemit filter pfire e_id e_flags]. rewrite Z.eqb_refl, andb_true_r. destruct (c_id w =? j); reflexivity. }
  (* run the actions from a state that satisfies everything but "a fired watch is gone" for i *)
  assert (HP1 : forall acts, let s2 := l_actions true s1 acts in
              NoDup (cids s2) /\ (forall id, In id (cids s2) -> id < l_next s2) /\ (forall e, In (OEv e) (l_log s2) -> e_id e < l_next s2) /\
              (forall w0, In w0 (l_chain s2) -> c_key w0 = c_id w0) /\ (forall p, In p (l_exits s2) -> In p ever) /\
              (forall w0, In w0 (l_chain s2) -> c_ex w0 = true -> In (c_id w0, c_st w0) ever) /\
              (forall e, In (OEv e) (l_log s2) -> e_flags e = EV_FIRE -> In (e_id e, e_x e) ever) /\ Fr s1 s2).
  { (* same proof as PI_actions, on the weaker invariant; obtained by running PI_actions on the state
       without the FIRE event and adding the event back: actions never look at the log *)
    intros acts.
    (* direct induction *)
    assert (Gen : forall al t,
              NoDup (cids t) -> (forall id, In id (cids t) -> id < l_next t) -> (forall e, In (OEv e) (l_log t) -> e_id e < l_next t) ->
              (forall w0, In w0 (l_chain t) -> c_key w0 = c_id w0) -> (forall p, In p (l_exits t) -> In p ever) ->
              (forall w0, In w0 (l_chain t) -> c_ex w0 = true -> In (c_id w0, c_st w0) ever) ->
              (forall e, In (OEv e) (l_log t) -> e_flags e = EV_FIRE -> In (e_id e, e_x e) ever) ->
              let t2 := l_actions true t al in
              NoDup (cids t2) /\ (forall id, In id (cids t2) -> id < l_next t2) /\ (forall e, In (OEv e) (l_log t2) -> e_id e < l_next t2) /\
              (forall w0, In w0 (l_chain t2) -> c_key w0 = c_id w0) /\ (forall p, In p (l_exits t2) -> In p ever) /\
              (forall w0, In w0 (l_chain t2) -> c_ex w0 = true -> In (c_id w0, c_st w0) ever) /\
              (forall e, In (OEv e) (l_log t2) -> e_flags e = EV_FIRE -> In (e_id e, e_x e) ever) /\ Fr t t2).
    { induction al as [|a0 rest IHa]; intros t H1 H2 H3 H4 H5 H6 H7; [exact (conj H1 (conj H2 (conj H3 (conj H4 (conj H5 (conj H6 (conj H7 (Fr_refl t))))))))|].
      cbn [l_actions fold_left].
      (* one action: reuse PI_action on a state whose log has no FIRE event problem: PI needs pi_gone/pi_one, which
         we provide for the log with FIRE events erased -- simpler: prove the step directly via PI_action applied to
         the state with an EMPTY log, then transport *)
      set (t0 := mkL (l_chain t) (l_exits t) (l_sched t) (l_next t) (l_iter t) []).
      assert (HP0 : PI ever t0).
      { apply mkPI.
        - exact H1.
        - exact H2.
        - intros e [].
        - intros id Hf. cbn in Hf. lia.
        - intros id. cbn. lia.
        - exact H4.
        - exact H5.
        - exact H6.
        - intros e []. }
      destruct (PI_action ever t0 a0 HP0) as [[A0 B0 B20 G0 O0 K0 T0 S0 X0] [F01 [F02 [F03 F04]]]].
      (* l_action on t and on t0 differ only in the log: the new events are put in front *)
      assert (Hrel : exists evs, l_log (l_action true t a0) = evs ++ l_log t /\ l_log (l_action true t0 a0) = evs /\
                     l_chain (l_action true t a0) = l_chain (l_action true t0 a0) /\ l_exits (l_action true t a0) = l_exits (l_action true t0 a0) /\
                     l_next (l_action true t a0) = l_next (l_action true t0 a0) /\ l_sched (l_action true t a0) = l_sched (l_action true t0 a0) /\
                     l_iter (l_action true t a0) = l_iter (l_action true t0 a0)).
      { destruct a0 as [first key ub ds cb|id|]; cbn [l_action l_chain l_exits l_next l_sched l_iter l_log t0].
        - destruct (reap (l_next t) (l_exits t)) as [[st e']|]; exists []; repeat split.
        - destruct (cfind id (l_chain t)) as [w0|]; [|exists []; repeat split]. destruct (c_unbind w0); [|exists []; repeat split].
          eexists [_]. repeat split.
        - exists []. repeat split. }
      destruct Hrel as [evs [L1 [L2 [L3 [L4 [L5 [L6 L7]]]]]]].
      set (t1 := l_action true t a0) in *.
      assert (Hc : cids t1 = cids (l_action true t0 a0)) by (unfold cids; rewrite L3; reflexivity).
      assert (Hevs : forall e, In (OEv e) evs -> e_id e < l_next t1 /\ e_flags e <> EV_FIRE).
      { intros e He. rewrite L5. split; [apply B20; rewrite L2; exact He|]. intros Hf.
        assert (Hp : (1 <= pfires (e_id e) (l_log (l_action true t0 a0)))%nat).
        { rewrite L2. unfold pfires. clear - He Hf. induction evs as [|o r IHr]; [destruct He|]. cbn [filter]. destruct He as [He|He].
          - subst o. cbn [pfire]. rewrite Z.eqb_refl, Hf. cbn. lia.
          - destruct (pfire (e_id e) o); cbn [length]; [specialize (IHr He); lia|exact (IHr He)]. }
        rewrite F02 in Hp. cbn in Hp. lia. }
      destruct (IHa t1) as [R1 [R2 [R3 [R4 [R5 [R6 [R7 R8]]]]]]].
      - rewrite Hc. exact A0.
      - intros id Hid. rewrite Hc in Hid. rewrite L5. exact (B0 id Hid).
      - intros e He. rewrite L1 in He. apply in_app_or in He. destruct He as [He|He]; [apply Hevs; exact He|].
        specialize (H3 e He). rewrite L5. cbn [l_next t0] in F01. lia.
      - intros w0 Hw0. rewrite L3 in Hw0. exact (K0 w0 Hw0).
      - intros p Hp. rewrite L4 in Hp. exact (T0 p Hp).
      - intros w0 Hw0. rewrite L3 in Hw0. exact (S0 w0 Hw0).
      - intros e He Hf. rewrite L1 in He. apply in_app_or in He. destruct He as [He|He]; [exfalso; exact (proj2 (Hevs e He) Hf)|exact (H7 e He Hf)].
      - refine (conj R1 (conj R2 (conj R3 (conj R4 (conj R5 (conj R6 (conj R7 _))))))). eapply Fr_trans; [|exact R8]. split; [rewrite L5; exact F01|split; [|split]].
        + intros id. rewrite L1. unfold pfires. rewrite filter_app, app_length.
          assert (Hz : length (filter (pfire id) evs) = O).
          { pose proof (F02 id) as Hq. rewrite L2 in Hq. cbn in Hq. exact Hq. }
          rewrite Hz. reflexivity.
        + intros j Hj. fold t1 in Hj. rewrite L3 in Hj. exact (F03 j Hj).
        + intros p Hp. fold t1 in Hp. rewrite L4 in Hp. exact (F04 p Hp). }
    apply Gen.
    - exact A.
    - exact B.
    - intros e [He|He]; [injection He as He'; rewrite <- He'; cbn; rewrite Ei; apply B; exact Hi|apply B2; exact He].
    - exact K.
    - exact Hx2.
    - exact S1.
    - intros e [He|He] Hf; [injection He as He'; rewrite <- He'; cbn; rewrite Ei; exact Hx1|apply X; assumption]. }
  destruct (HP1 (env (c_cb w))) as [R1 [R2 [R3 [R4 [R5 [R6 [R7 FR]]]]]]].
  set (s2 := l_actions true s1 (env (c_cb w))) in *. pose proof FR as [F1 [F2 [F3 F4]]].
  assert (Hrm : forall xid, In xid (map c_id (cremove i (l_chain s2))) <-> In xid (cids s2) /\ xid <> i).
  { intros xid. rewrite cremove_ids. split.
    - intros Hxx. split; [eapply subl_in; [apply zrm_sub|exact Hxx]|]. intros E. subst xid. exact (zrm_nodup_notin i _ R1 Hxx).
    - intros [Hxx Hne]. unfold cids in Hxx. apply in_map_iff in Hxx. destruct Hxx as [u [Eu Hu]]. rewrite <- cremove_ids.
      apply in_map_iff. exists u. split; [exact Eu|]. apply cremove_keep; [exact Hu|congruence]. }
  split; [|split].
  { apply mkPI; cbn [l_chain l_log l_next l_exits]; unfold cids; cbn [l_chain].
  - rewrite cremove_ids. eapply subl_nodup; [apply zrm_sub|exact R1].
  - intros id Hid. apply Hrm in Hid. apply R2. apply Hid.
  - exact R3.
  - intros id Hf Hid. apply Hrm in Hid. destruct Hid as [Hid Hne]. rewrite F2, Hpf1 in Hf.
    destruct (c_id w =? id) eqn:E; [apply Z.eqb_eq in E; congruence|]. cbn [Nat.add] in Hf.
    destruct (Fr_ids _ _ FR id Hid) as [H1|H1].
    + exact (G id Hf H1).
    + cbn [l_next s1 lemit s0] in H1. rewrite (pfires_fresh _ _ _ B2 H1) in Hf. lia.
  - intros id. rewrite F2, Hpf1. destruct (c_id w =? id) eqn:E; [apply Z.eqb_eq in E; rewrite <- E, Ei, Hf0; lia|apply O1].
  - intros u Hu. apply R4. eapply cremove_in. exact Hu.
  - exact R5.
  - intros u Hu. apply R6. eapply cremove_in. exact Hu.
  - exact R7. }
  { split; [cbn [l_next]; cbn [l_next s1 lemit s0] in F1; exact F1|split].
    - intros u Hu. cbn [l_chain] in Hu. apply cremove_in in Hu. destruct (F3 u Hu) as [H|H]; [left; exact H|right; exact H].
    - intros p Hp. cbn [l_exits] in Hp. apply Hx2'. exact (F4 p Hp). }
  { unfold cids. cbn [l_chain]. intros H. apply Hrm in H. apply (proj2 H). reflexivity. }
Qed.

Lemma PI_walk : forall ever k r s, proc_kind k -> PI ever s -> PI ever (l_walk true env k r s).
Proof.
  intros ever k r s Hk. revert s. induction r as [|i r IH]; intros s HP; [exact HP|]. cbn [l_walk].
  destruct (cfind i (l_chain s)) as [w|] eqn:Ef; [|apply IH; exact HP].
  destruct (ltest k (l_exits s) w) as [[x ex']|] eqn:Et; [|apply IH; exact HP].
  apply IH. exact (proj1 (PI_fire ever k s i w x ex' Hk HP Ef Et)).
Qed.


Definition supplied (ops : list cop) : list (Z * Z) :=
  flat_map (fun o => match o with KExit k st => [(k, st)] | _ => [] end) ops.

Lemma PI_ops : forall ops0 s ev0, PI ev0 s -> PI (ev0 ++ supplied ops0) (fold_left (l_op true env) ops0 s).
Proof.
  unfold supplied.
  induction ops0 as [|o r IH]; intros s ev0 HP; [cbn; rewrite app_nil_r; exact HP|]. cbn [fold_left flat_map].
    assert (Hmono : forall e1 e2 t, (forall p, In p e1 -> In p e2) -> PI e1 t -> PI e2 t).
    { intros e1 e2 t Hin [A B B2 G0 O K T S X]. apply mkPI; try assumption; intros; apply Hin; auto. }
    destruct o as [a|arg|key st|].
    - cbn [app]. apply IH. apply PI_action. exact HP.
    - cbn [app]. apply IH. cbn [l_op]. apply PI_walk; [exact I|exact HP].
    - rewrite app_assoc. apply IH. cbn [l_op]. destruct HP as [A B B2 G0 O K T S X].
      apply mkPI; cbn [l_chain l_log l_next l_exits]; try assumption.
      + intros p Hp. apply in_app_or in Hp. apply in_or_app. destruct Hp as [Hp|[Hp|[]]]; [left; apply T; exact Hp|right; left; exact Hp].
      + intros w Hw Hex. apply in_or_app. left. apply S; assumption.
      + intros e He Hf. apply in_or_app. left. apply X; assumption.
    - cbn [app]. apply IH. cbn [l_op].
      assert (HP1 : PI ev0 (mkL (l_chain s) (l_exits s) O (l_next s) (l_iter s + 1) (OPoll 0 :: l_log s))).
      { destruct HP as [A B B2 G0 O K T S X]. apply mkPI; cbn [l_chain l_log l_next l_exits]; try assumption.
        - intros e [He|He]; [discriminate|apply B2; exact He].
        - intros e [He|He] Hf; [discriminate|apply X; assumption]. }
      generalize (l_sched s). intros n. revert HP1. generalize (mkL (l_chain s) (l_exits s) O (l_next s) (l_iter s + 1) (OPoll 0 :: l_log s)).
      induction n as [|n IHn]; intros t Ht; [exact Ht|]. cbn [l_notifies]. apply IHn. apply PI_walk; [exact I|exact Ht].
Qed.

Lemma PI_lst0 : PI [] lst0.
Proof.
  apply mkPI.
  - constructor.
  - intros id [].
  - intros e [].
  - intros id H. cbn in H. lia.
  - intros id. cbn. lia.
  - intros w [].
  - intros p [].
  - intros w [].
  - intros e [].
Qed.

Lemma PI_reach : forall ops, PI (supplied ops) (fold_left (l_op true env) ops lst0).
Proof. intros ops. exact (PI_ops ops lst0 [] PI_lst0). Qed.

(* C17_process_once, C17_process_status: in the log of every process-chain script a watch is invoked
   (FIRE) at most once, and each invocation carries a status the script supplied for that very child *)
Theorem process_once_status : forall ops,
  let ever := supplied ops in
  (forall id, (pfires id (l_run true env ops) <= 1)%nat) /\
  (forall e, In (OEv e) (l_run true env ops) -> e_flags e = EV_FIRE -> In (e_id e, e_x e) ever).
Proof.
  intros ops ever.
  pose proof (PI_reach ops) as HP. fold ever in HP.
  set (s := fold_left (l_op true env) ops lst0) in *.
  (* destruction adds no FIRE event *)
  assert (Hd : forall l t, (forall id, pfires id (l_log (fold_left (fun s w => if c_unbind w || c_destroy w then lemit true s w (EV_UNBIND + EV_DESTROY) (idle_x true w) else s) l t)) = pfires id (l_log t)) /\
                         (forall e, In (OEv e) (l_log (fold_left (fun s w => if c_unbind w || c_destroy w then lemit true s w (EV_UNBIND + EV_DESTROY) (idle_x true w) else s) l t)) ->
                                    e_flags e = EV_FIRE -> In (OEv e) (l_log t))).
  { induction l as [|w r IH]; intros t; [split; [reflexivity|intros e He _; exact He]|]. cbn [fold_left].
    destruct (IH (if c_unbind w || c_destroy w then lemit true t w (EV_UNBIND + EV_DESTROY) (idle_x true w) else t)) as [I1 I2].
    destruct (c_unbind w || c_destroy w); [|split; assumption]. split.
    - intros id. rewrite I1. unfold pfires. cbn [l_log lemit filter pfire e_flags e_id]. change (EV_UNBIND + EV_DESTROY =? EV_FIRE) with false. rewrite andb_false_r. reflexivity.
    - intros e He Hf. specialize (I2 e He Hf). cbn [l_log lemit] in I2. destruct I2 as [I2|I2]; [inversion I2; subst; discriminate|exact I2]. }
  unfold l_run, l_destroy. fold s.
  set (s0 := mkL (l_chain s) (l_exits s) (l_sched s) (l_next s) (-1) (l_log s)).
  destruct (Hd (l_chain s0) s0) as [D1 D2]. split.
  - intros id. unfold pfires. rewrite <- (rev_involutive (filter _ _)). rewrite rev_length.
    assert (Hrev : forall (f : obs -> bool) l, length (filter f (rev l)) = length (filter f l)).
    { intros f l. induction l as [|o t IHt]; [reflexivity|]. cbn [rev]. rewrite filter_app, app_length, IHt. cbn [filter]. destruct (f o); cbn [length]; lia. }
    rewrite rev_length, Hrev. fold (pfires id (l_log (fold_left (fun s w => if c_unbind w || c_destroy w then lemit true s w (EV_UNBIND + EV_DESTROY) (idle_x true w) else s) (l_chain s0) s0))).
    rewrite D1. apply (pi_one ever s HP).
  - intros e He Hf. apply in_rev in He. apply (pi_x ever s HP e); [|exact Hf]. exact (D2 e He Hf).
Qed.

(* ---- no process watch is left waiting: after the walk of a SIGCHLD dispatch, a watch that was
   registered before the walk, is still in the chain and has not been told of its child's exit has
   no status waiting in the table.  With process_once_status: such a watch, if its child's status
   was reported, has been invoked (once, with that status) and is gone -- or it was cancelled. *)
Lemma reap_none : forall key l, reap key l = None -> forall st, ~ In (key, st) l.
Proof.
  induction l as [|[k v] t IH]; intros H st Hin; [destruct Hin|]. cbn [reap] in H. destruct (k =? key) eqn:E; [discriminate|].
  destruct (reap key t) as [[st0 t0]|] eqn:Er; [discriminate|]. destruct Hin as [Hin|Hin].
  - inversion Hin; subst. rewrite Z.eqb_refl in E. discriminate.
  - exact (IH eq_refl st Hin).
Qed.

Lemma cid_inj : forall l a b, NoDup (map c_id l) -> In a l -> In b l -> c_id a = c_id b -> a = b.
Proof.
  induction l as [|h t IH]; intros a b Hn Ha Hb E; [destruct Ha|]. cbn [map] in Hn. inversion Hn as [|? ? Hnot Hn']; subst.
  destruct Ha as [Ha|Ha]; destruct Hb as [Hb|Hb].
  - congruence.
  - subst h. exfalso. apply Hnot. rewrite E. apply in_map. exact Hb.
  - subst h. exfalso. apply Hnot. rewrite <- E. apply in_map. exact Ha.
  - exact (IH a b Hn' Ha Hb E).
Qed.

Lemma walk_done : forall ever b r s, PI ever s -> b <= l_next s ->
  (forall w, In w (l_chain s) -> c_id w < b -> ~ In (c_id w) r -> c_ex w = false -> forall st, ~ In (c_key w, st) (l_exits s)) ->
  let s' := l_walk true env (WChild b) r s in
  forall w, In w (l_chain s') -> c_id w < b -> c_ex w = false -> forall st, ~ In (c_key w, st) (l_exits s').
Proof.
  intros ever b r. induction r as [|i r IH]; intros s HP Hb Hinv; cbn [l_walk].
  - intros w Hw Hlt Hex. apply Hinv; try assumption. intros [].
  - destruct (cfind i (l_chain s)) as [w|] eqn:Ef.
    + destruct (cfind_some _ _ _ Ef) as [Ei Hw]. destruct (ltest (WChild b) (l_exits s) w) as [[x ex']|] eqn:Et.
      * destruct (PI_fire ever (WChild b) s i w x ex' I HP Ef Et) as [HP3 [[W1 [W2 W3]] Hni]]. cbv zeta in HP3, W1, W2, W3, Hni.
        apply (IH _ HP3); [lia|]. intros u Hu Hlt Hnr Hex st Hin.
        destruct (W2 u Hu) as [Hu0|Hu0]; [|lia].
        assert (Hne : c_id u <> i).
        { intros E. apply Hni. unfold cids. apply in_map_iff. exists u. split; [exact E|exact Hu]. }
        assert (Hnr' : ~ In (c_id u) (i :: r)) by (intros [H|H]; [congruence|exact (Hnr H)]).
        exact (Hinv u Hu0 Hlt Hnr' Hex st (W3 _ Hin)).
      * apply (IH s HP Hb). intros u Hu Hlt Hnr Hex.
        destruct (Z.eq_dec (c_id u) i) as [E|E].
        -- assert (u = w) by (apply (cid_inj (l_chain s)); [exact (pi_nd ever s HP)|exact Hu|exact Hw|congruence]). subst u.
           cbn [ltest] in Et. rewrite Hex in Et. apply Z.ltb_lt in Hlt. rewrite Hlt in Et. cbn [negb orb] in Et.
           apply reap_none. exact Et.
        -- apply Hinv; try assumption. intros [H|H]; [congruence|exact (Hnr H)].
    + apply (IH s HP Hb). intros u Hu Hlt Hnr Hex. apply Hinv; try assumption. intros [H|H]; [|exact (Hnr H)].
      assert (Hin : In (c_id u) (map c_id (l_chain s))) by (apply in_map; exact Hu).
      rewrite H in Ef. clear - Ef Hin. induction (l_chain s) as [|h t IHt]; [destruct Hin|]. cbn [cfind] in Ef.
      destruct (c_id h =? c_id u) eqn:E; [discriminate|]. destruct Hin as [Hin|Hin]; [rewrite Hin, Z.eqb_refl in E; discriminate|exact (IHt Ef Hin)].
Qed.

Theorem process_not_left_waiting : forall ops arg,
  let s := fold_left (l_op true env) ops lst0 in
  let s' := l_op true env s (KWalk arg) in
  forall w, In w (l_chain s') -> c_id w < l_next s -> c_ex w = false -> forall st, ~ In (c_key w, st) (l_exits s').
Proof.
  intros ops arg s s'. unfold s'. cbn [l_op]. unfold l_dispatch.
  apply (walk_done (supplied ops) (l_next s) (map c_id (l_chain s)) s (PI_reach ops)); [lia|].
  intros w Hw _ Hn. exfalso. apply Hn. apply in_map. exact Hw.
Qed.

End Proc.

(* ------------------------------------------------------------------ a witness script for the process chain:
   watch 0's callback cancels watch 1 -- the NEXT one in the chain, the case in which the pinned
   on_sigchld read a freed node -- and registers watch 2, whose child has exited already (status 4:
   invoked at the next iteration); child 0 is reported a second time (status 9: nobody is
   invoked); watch 3 is registered after its child's exit (status 6) *)
Definition pw_env (cb : Z) : list cact := if cb =? 1 then [CCancel 1; CReg false 0 true true 0] else [].
Definition pw_ops : list cop :=
  [KAct (CReg false 0 true true 1); KAct (CReg false 0 true true 0); KExit 0 7; KExit 1 3; KExit 2 4; KWalk 0;
   KExit 0 9; KWalk 0; KTick; KExit 3 6; KAct (CReg false 0 false true 0); KTick].
Definition pw_log : list obs :=
  [OEv (mkE 0 KProc EV_FIRE 0 0 7); OEv (mkE 1 KProc EV_UNBIND 0 0 0); OPoll 0;
   OEv (mkE 2 KProc EV_FIRE 1 0 4); OPoll 0; OEv (mkE 3 KProc EV_FIRE 2 0 6)].

Lemma process_witness : l_run true pw_env pw_ops = pw_log /\ h_crun true pw_env 50 pw_ops = Some (pw_log, true).
Proof. split; vm_compute; reflexivity. Qed.
