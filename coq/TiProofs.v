(* TiProofs.v -- BEYOND THE GIVEN PROPERTIES: the C10 question for the terminfo driver. *)
From Coq Require Import ZArith List Bool Lia.
From Tickit Require Import Csi VT TermPenDefs TermPenSpec TermPenProofs XtermDefs TiDefs TiSpec.
Import ListNotations.
Local Open Scope Z_scope.

Lemma b2z_nz : forall b, negb (b2z b =? 0) = b.
Proof. intros []; reflexivity. Qed.

(* chpen re-establishes every expressible attribute from the FINAL pen, whatever the terminal showed
   before: so after every set-pen / change-pen the terminal shows the cached pen -- except italics *)
Lemma ti_chpen_shows : forall e delta final s,
  ti_shows (e_colours e) final (ti_sgr_run (ti_chpen e delta final) s) /\
  a_italic (ti_sgr_run (ti_chpen e delta final) s) =
    (has_attr delta AItalic && e_sitm e && get_bool_attr delta AItalic).
Proof.
  intros e delta final s. unfold ti_chpen, ti_sgr_run, ti_shows, ti_colour.
  rewrite !fold_left_app. cbn [fold_left ti_sgr_step]. rewrite !b2z_nz.
  change (0 =? 0) with true. cbn [negb]. rewrite ?orb_false_r.
  destruct (has_attr delta AItalic) eqn:Hi; cbn [andb].
  - destruct (e_sitm e && get_bool_attr delta AItalic) eqn:Hs; cbn [fold_left ti_sgr_step].
    + destruct ((-1 <? get_colour_attr final AFg) && (get_colour_attr final AFg <? e_colours e));
        destruct ((-1 <? get_colour_attr final ABg) && (get_colour_attr final ABg <? e_colours e));
        cbn [fold_left ti_sgr_step set_italic set_fg set_bg a_fg a_bg a_bold a_faint a_under a_italic a_reverse
             a_strike a_font a_blink a_sizepos];
        destruct (get_bool_attr final AUnder); cbn; repeat split; reflexivity.
    + destruct (e_ritm e);
        destruct ((-1 <? get_colour_attr final AFg) && (get_colour_attr final AFg <? e_colours e));
        destruct ((-1 <? get_colour_attr final ABg) && (get_colour_attr final ABg <? e_colours e));
        cbn [fold_left ti_sgr_step set_italic set_fg set_bg a_fg a_bg a_bold a_faint a_under a_italic a_reverse
             a_strike a_font a_blink a_sizepos];
        destruct (get_bool_attr final AUnder); cbn; repeat split; reflexivity.
  - destruct ((-1 <? get_colour_attr final AFg) && (get_colour_attr final AFg <? e_colours e));
      destruct ((-1 <? get_colour_attr final ABg) && (get_colour_attr final ABg <? e_colours e));
      cbn [fold_left ti_sgr_step set_italic set_fg set_bg a_fg a_bg a_bold a_faint a_under a_italic a_reverse
           a_strike a_font a_blink a_sizepos];
      destruct (get_bool_attr final AUnder); cbn; repeat split; reflexivity.
Qed.

(* through term.c: after any set-pen / change-pen with in-range pens the terminal shows the (converted)
   logical pen, for every colour count >= 0 and every entry *)
Lemma ti_pen_op_shows : forall (is_set : bool) t l p s,
  0 <= e_colours (tt_ent t) -> pen_in_range l -> pen_in_range p ->
  (forall a, tt_pen t a = cache_of (e_colours (tt_ent t)) l a) ->
  let l' := if is_set then logical_set l p else logical_ch l p in
  exists t' ts, ti_do_pen is_set t p = Some (t', ts) /\
    (forall a, tt_pen t' a = cache_of (e_colours (tt_ent t)) l' a) /\
    ti_shows (e_colours (tt_ent t)) (tt_pen t') (ti_sgr_run ts s).
Proof.
  intros is_set t l p s Hc Hl Hp Htp. cbv zeta.
  pose proof (term_pen (e_colours (tt_ent t)) is_set l (tt_pen t) p Hc Hl Hp Htp) as H. cbv zeta in H.
  destruct H as (tp' & delta & Hrun & _ & _ & _ & Hcache & _).
  unfold ti_do_pen. rewrite Hrun. eexists. eexists. split; [reflexivity|].
  cbn [tt_pen]. split; [exact Hcache|]. apply ti_chpen_shows.
Qed.

(* the cached pen says italic, the terminal does not show it: a change of another attribute re-sends sgr,
   which resets italics, and italics are only sent when they are in the delta *)
Lemma ti_italic_refuted :
  let e := mkTient true true true true true true true true true true true true true true 8 in
  let t0 := mkTiterm e timode_new empty_pen 25 80 true in
  let p1 := pset empty_pen AItalic (Some (VBool true)) in
  let p2 := pset empty_pen ABold (Some (VBool true)) in
  exists t1 ts1 t2 ts2,
    ti_do_pen false t0 p1 = Some (t1, ts1) /\ ti_do_pen false t1 p2 = Some (t2, ts2) /\
    get_bool_attr (tt_pen t2) AItalic = true /\
    a_italic (ti_sgr_run ts2 (ti_sgr_run ts1 default_attrs)) = false.
Proof. cbv zeta. eexists. eexists. eexists. eexists. vm_compute. repeat split; reflexivity. Qed.
