(* LoopAsIs.v -- model of tickit_evloop_invoke_timers and tickit_watch_cancel AS PINNED (before
   fixes/C17-invoke-timers-detach.patch), for the refutation theorems of C17 and for comparing
   the unchanged library with its own model (driver switch VERIF_C17_PINNED=1).

   The pinned loop:
       later = t->laters; t->laters = NULL;
       this = t->timers;
       while(this) { if(this->at > now) break;
                     ( *this->fn)(FIRE|UNBIND); next = this->next; free(this); this = next; }
       t->timers = this;
       while(later) { call; next = later->next; free(later); later = next; }
   t->timers keeps pointing at the chain's first node while callbacks run.  The chain is
   modelled as it lies in memory: [timers s] is what is reachable from t->timers, freed nodes
   included; [freed] lists the identities of freed nodes.  Reading a field of a freed node
   (its deadline or its next pointer) is a Fault (= None), as it is under AddressSanitizer.
   The detached deferred callbacks are in [run_laters]; tickit_watch_cancel does not look
   there (nor is there a running_timers queue), so a deferred callback cancelled during the
   iteration is not found. *)
From Coq Require Import ZArith List Bool.
From Tickit Require Import LoopDefs.
Import ListNotations.
Local Open Scope Z_scope.

Record ast := mkA { a_st : st; a_freed : list Z; a_cur : option Z (* the timer whose callback is running *) }.

Definition is_freed (a : ast) (w : watch) : bool := existsb (Z.eqb (w_id w)) (a_freed a).

(* the pinned-code model has no unbind-notification scripts *)
Definition no_uenv (cb : Z) : list action := [].

Section WithEnv.
Variable io_mask_bug : bool.
Variable env : Z -> list action.

(* tickit_watch_timer_at_tv's walk from t->timers; None = a freed node was read *)
Fixpoint a_timer_insert (fr : list Z) (l : list watch) (w : watch) : option (list watch) :=
  match l with
  | [] => Some [w]
  | h :: t =>
      if existsb (Z.eqb (w_id h)) fr then None
      else if w_x h <=? w_x w
           then match a_timer_insert fr t w with Some t' => Some (h :: t') | None => None end
           else Some (w :: l)
  end.

(* tickit_watch_cancel's walk: pointer comparison first, then thisp = &( *thisp)->next *)
Fixpoint a_find_remove (fr : list Z) (id : Z) (l : list watch) : option (option (watch * list watch)) :=
  match l with
  | [] => Some None
  | h :: t =>
      if w_id h =? id then Some (Some (h, t))
      else if existsb (Z.eqb (w_id h)) fr then None
      else match a_find_remove fr id t with
           | Some (Some (w, t')) => Some (Some (w, h :: t'))
           | Some None => Some None
           | None => None
           end
  end.

Definition lift (a : ast) (s : st) : ast := mkA s (a_freed a) (a_cur a).

(* the watch's type selects the list to walk; the watch itself is live (precondition), so
   reading its type is fine.  A watch that sits in run_laters has type LATER: t->laters is
   walked and it is not found. *)
Definition a_cancel (a : ast) (id : Z) : option ast :=
  let s := a_st a in
  (* not live any more (has run, or is the one running): the program does not cancel it *)
  if existsb (Z.eqb id) (a_freed a) || match a_cur a with Some c => c =? id | None => false end then Some a else
  match find_remove id (ios s) with Some (w, l) => Some (lift a (notify_unbind io_mask_bug no_uenv (set_ios s l) w)) | None =>
  match find_remove id (laters s) with Some (w, l) => Some (lift a (notify_unbind io_mask_bug no_uenv (set_laters s l) w)) | None =>
  match find_remove id (sigs s) with Some (w, l) => Some (lift a (notify_unbind io_mask_bug no_uenv (set_sigs s l) w)) | None =>
  match find_remove id (procs s) with Some (w, l) => Some (lift a (notify_unbind io_mask_bug no_uenv (set_procs s l) w)) | None =>
  match find_remove id (run_laters s) with Some _ => Some a | None =>
  (* a timer (or nothing at all): walk the chain from t->timers *)
  if existsb (fun w => w_id w =? id) (timers s) then
    match a_find_remove (a_freed a) id (timers s) with
    | None => None
    | Some (Some (w, l)) => Some (lift a (notify_unbind io_mask_bug no_uenv (set_timers s l) w))
    | Some None => Some a
    end
  else Some a
  end end end end end.

Definition a_do_action (oa : option ast) (x : action) : option ast :=
  match oa with
  | None => None
  | Some a =>
      let s := a_st a in
      match x with
      | ATimer d fl cb =>
          let w := mkW (next_id s) KTimer (f_unbind fl) (f_destroy fl) cb (now s + d) in
          match a_timer_insert (a_freed a) (timers s) w with
          | None => None
          | Some l => Some (lift a (set_next (set_timers s l) (next_id s + 1)))
          end
      | ACancel id => a_cancel a id
      | _ => Some (lift a (do_action io_mask_bug no_uenv s x))
      end
  end.

Definition a_do_actions (a : ast) (l : list action) : option ast := fold_left a_do_action l (Some a).

Fixpoint suffix_from (id : Z) (l : list watch) : list watch :=
  match l with [] => [] | h :: t => if w_id h =? id then l else suffix_from id t end.

Definition next_of (id : Z) (l : list watch) : option Z :=
  match suffix_from id l with _ :: n :: _ => Some (w_id n) | _ => None end.

(* the while(this) loop; [this] = identity of the current node *)
Fixpoint a_timer_loop (fuel : nat) (this : option Z) (a : ast) : option ast :=
  match fuel with
  | O => None
  | S f =>
      match this with
      | None => Some (lift a (set_timers (a_st a) []))
      | Some id =>
          match suffix_from id (timers (a_st a)) with
          | [] => None
          | w :: _ =>
              if now (a_st a) <? w_x w
              then Some (lift a (set_timers (a_st a) (suffix_from id (timers (a_st a)))))
              else
                match a_do_actions (mkA (emit (a_st a) w (EV_FIRE + EV_UNBIND)) (a_freed a) (Some id)) (env (w_cb w)) with
                | None => None
                | Some a1 =>
                    let nxt := next_of id (timers (a_st a1)) in
                    a_timer_loop f nxt (mkA (a_st a1) (id :: a_freed a1) None)
                end
          end
      end
  end.

Fixpoint a_later_loop (n : nat) (a : ast) : option ast :=
  match n with
  | O => Some a
  | S n' =>
      match run_laters (a_st a) with
      | [] => Some a
      | w :: r =>
          match a_do_actions (lift a (emit (set_run_laters (a_st a) r) w (EV_FIRE + EV_UNBIND))) (env (w_cb w)) with
          | None => None
          | Some a1 => a_later_loop n' a1
          end
      end
  end.

Definition a_invoke_timers (fuel : nat) (a : ast) : option ast :=
  let s := a_st a in
  let a1 := lift a (set_laters (set_run_laters s (laters s)) []) in
  let r := match timers s with
           | [] => Some a1
           | h :: _ => a_timer_loop fuel (Some (w_id h)) a1
           end in
  match r with
  | None => None
  | Some a2 => a_later_loop (length (run_laters (a_st a2))) (mkA (a_st a2) [] None)
  end.

Definition a_tick (fuel : nat) (sleep : bool) (dt : Z) (a : ast) : option ast :=
  let s := a_st a in
  let s1 := set_iter (set_now s (now s + dt)) (iter s + 1) in
  let msec := if sleep then next_timer_msec s1 else 0 in
  let s2 := set_log s1 (OPoll msec :: log s1) in
  let s3 := if sleep && (0 <? msec) then set_now s2 (now s2 + msec * 1000) else s2 in
  a_invoke_timers fuel (lift a s3).

Definition a_do_op (fuel : nat) (oa : option ast) (o : op) : option ast :=
  match oa with
  | None => None
  | Some a =>
      match o with
      | OAct x => a_do_action (Some a) x
      | ORun dt => a_tick fuel false dt a
      | OOnce => a_tick fuel true 0 a
      end
  end.

(* None = Fault (use after free) or fuel exhausted (the iteration does not end) *)
Definition a_run (fuel : nat) (ops : list op) : option (list obs) :=
  match fold_left (a_do_op fuel) ops (Some (mkA st0 [] None)) with
  | None => None
  | Some a => Some (rev (log (destroy (a_st a))))
  end.

End WithEnv.
