(* RBFrame.v -- frame properties of the row operations: a write at columns >= c leaves the
   kind (start / continuation) of every cell left of c alone.  Needed for the leftward copy
   loop, whose next entry column must still be a span boundary. *)
From Coq Require Import ZArith List Bool Lia.
From Tickit Require Import RectDefs RBDefs RBSpec RBLemmas RBSpanProofs RBAbsLemmas RBInv RBOpProofs.
Import ListNotations.
Local Open Scope Z_scope.

Definition is_start (r : row) (i : Z) : bool := match ck (get r i) with Start _ _ => true | Cont _ => false end.

(* r' agrees with r in which cells left of c are starts *)
Definition left_kept (c : Z) (r r' : row) : Prop :=
  len r' = len r /\ forall i, 0 <= i < c -> i < len r -> is_start r' i = is_start r i.

Lemma left_kept_refl : forall c r, left_kept c r r.
Proof. intros. split; auto. Qed.

Lemma left_kept_trans : forall c c' r1 r2 r3, c <= c' -> left_kept c r1 r2 -> left_kept c' r2 r3 -> left_kept c r1 r3.
Proof.
  intros c c' r1 r2 r3 Hc (L1 & K1) (L2 & K2). split; [congruence|].
  intros i Hi Hl. rewrite K2 by lia. apply K1; lia.
Qed.

Lemma left_kept_weaken : forall c c' r r', c <= c' -> left_kept c' r r' -> left_kept c r r'.
Proof. intros c c' r r' H (L & K). split; [assumption|]. intros i Hi Hl. apply K; lia. Qed.

Lemma make_span_left : forall r col n X r',
  WF r -> 0 <= col -> 1 <= n -> col + n <= len r ->
  make_span r col n X = Ok r' -> left_kept col r r'.
Proof.
  intros r col n X r' W Hcol Hn Hend E.
  rewrite make_span_stages in E.
  destruct (stage1_spec r (col + n) W ltac:(lia)) as (r1 & A & E1 & L1 & HA & G1).
  rewrite E1 in E. cbn [bind] in E.
  destruct (stage2_spec r r1 col (col + n) A W ltac:(lia) Hend L1 HA G1) as (r2 & B & E2 & L2 & HB & G2).
  rewrite E2 in E. cbn [bind] in E.
  destruct (Z.leb_spec (col + n) (len r)) as [_|]; [|lia].
  inversion E; subst r'. clear E.
  split; [rewrite len_mapi; assumption|].
  intros i Hi Hl. unfold is_start. rewrite get_mapi by lia.
  destruct (Z.eqb_spec i col); [lia|].
  destruct (Z.ltb_spec col i); cbn [andb]; [lia|].
  rewrite G2 by lia.
  assert (T : get r1 i = get r i).
  { rewrite G1 by lia. unfold ms_tail. destruct A as [[[ss sl] c']|]; [|reflexivity].
    destruct (Z.eqb_spec i (col + n)); [lia|]. destruct (Z.ltb_spec (col + n) i); cbn [andb]; [lia|reflexivity]. }
  destruct B as [[bs cb]|]; [|now rewrite T].
  destruct (Z.eqb_spec i bs) as [->|]; [|now rewrite T].
  cbn [ck]. unfold B_ok in HB. destruct HB as (_ & nb & Hbs). now rewrite Hbs.
Qed.

Lemma put_runs_left : forall fuel mk r col cols startcol r',
  WF r -> masks_ok r -> 0 <= col -> 0 <= cols -> col + cols <= len r -> cols <= Z.of_nat fuel ->
  shift_inv mk -> never_single mk ->
  put_runs fuel mk r col cols startcol = Ok r' -> left_kept col r r'.
Proof.
  induction fuel as [|f IH]; intros mk r col cols startcol r' W M Hcol Hcols Hend Hfuel Hsh Hns E.
  - cbn [put_runs] in E. destruct (cols =? 0); inversion E; subst r'. apply left_kept_refl.
  - cbn [put_runs] in E. destruct (Z.eqb_spec cols 0) as [Hz|Hnz]; [inversion E; subst r'; apply left_kept_refl|].
    assert (S1 := skip_masked_spec (Z.to_nat cols) r col cols Hcols ltac:(lia)).
    destruct (skip_masked (Z.to_nat cols) r col cols) as [col1 cols1].
    destruct S1 as (A1 & A2 & A3 & A4 & A5).
    destruct (Z.eqb_spec cols1 0) as [Hz1|Hnz1]; [inversion E; subst r'; apply left_kept_refl|].
    assert (Hm1 : cmask (get r col1) = -1) by (specialize (A5 Hnz1); specialize (M col1 ltac:(lia)); lia).
    assert (S2 := span_len_spec (Z.to_nat cols1) r col1 cols1 0 A3 ltac:(lia) ltac:(lia)).
    assert (P := span_len_pos r col1 cols1 ltac:(lia) Hm1).
    destruct (span_len (Z.to_nat cols1) r col1 cols1 0) as [sl cols2]. cbn [fst] in P.
    destruct S2 as (B1 & B2 & B3 & B4 & B5).
    destruct (Z.eqb_spec sl 0); [lia|].
    destruct (make_span_ok r col1 sl (mk (startcol + (col1 - col))) W ltac:(lia) P ltac:(lia))
      as (r1 & E1 & L1 & W1 & Ab1 & Mk1).
    { intros Hs. rewrite Hns in Hs. discriminate. }
    rewrite E1 in E. cbn [bind] in E.
    assert (M1 : masks_ok r1).
    { intros i Hi. rewrite L1 in Hi. rewrite Mk1 by assumption.
      destruct ((col1 <=? i) && (i <? col1 + sl)); [lia|apply M; assumption]. }
    assert (K1 : left_kept col1 r r1) by (eapply make_span_left; eauto; lia).
    assert (K2 : left_kept (col1 + sl) r1 r')
      by (eapply IH; eauto; try lia; rewrite L1; lia).
    apply left_kept_trans with (c' := col1 + sl) (r2 := r1); [lia| |assumption].
    apply left_kept_weaken with (c' := col1); [lia|assumption].
Qed.

Lemma put_row_left : forall mk r col cols startcol r',
  WF r -> masks_ok r -> 0 <= col -> 0 <= cols -> col + cols <= len r ->
  shift_inv mk -> never_single mk ->
  put_row mk r col cols startcol = Ok r' -> left_kept col r r'.
Proof.
  intros mk r col cols startcol r' W M Hcol Hcols Hend Hsh Hns E. unfold put_row in E.
  destruct (Z.leb_spec 0 col); [|lia]. destruct (Z.leb_spec (col + cols) (len r)); [|lia]. cbn [andb] in E.
  apply (put_runs_left (S (Z.to_nat cols)) mk r col cols startcol r'); auto; lia.
Qed.

(* ---------------------------------------------------------------------------------- *)
(* lifted to buffers: all rows other than the written one are untouched, the written row is
   kept left of the write column *)

Definition row_at (s : rb) (y : Z) : row := zn (cells s) y [].

Definition buf_left_kept (wl wc : Z) (s s' : rb) : Prop :=
  forall y, 0 <= y < rb_lines s -> left_kept (if y =? wl then wc else rb_cols s) (row_at s y) (row_at s' y).

Lemma buf_left_kept_refl : forall wl wc s, buf_left_kept wl wc s s.
Proof. intros wl wc s y Hy. apply left_kept_refl. Qed.

Lemma row_at_set_row : forall s l r' y, 0 <= y < zlen (cells s) ->
  row_at (set_row s l r') y = if y =? l then r' else row_at s y.
Proof.
  intros s l r' y Hy. unfold row_at, set_row. cbn [set_cells cells].
  now rewrite (@zn_mapi row row _ (cells s) y [] []) by assumption.
Qed.

Lemma set_row_left_kept : forall s l r' wc,
  Inv s -> 0 <= l < rb_lines s -> left_kept wc (row_at s l) r' -> buf_left_kept l wc s (set_row s l r').
Proof.
  intros s l r' wc I Hl K y Hy.
  rewrite row_at_set_row by (rewrite (inv_lines s I); assumption).
  destruct (Z.eqb_spec y l) as [->|]; [assumption|apply left_kept_refl].
Qed.

(* the run operations, with no column translation in force *)
Lemma run_op_left : forall s line col n mk stf s',
  Inv s -> shift_inv mk -> never_single mk -> xc (aux s) = 0 ->
  run_op s line col n mk stf = Ok s' -> buf_left_kept (line + xl (aux s)) col s s'.
Proof.
  intros s line col n mk stf s' I Hsh Hns Hxc E. unfold run_op in E.
  destruct (xlate_and_clip (aux s) line col n) as [[[[l c] k] sc]|] eqn:EX.
  - destruct (xlate_in_buffer _ _ _ _ _ _ _ _ I EX) as (Hcc & Hl & Hc & Hk & Hck & Esc).
    assert (Hr := inv_rows s I l Hl). destruct Hr as (RL & RW & RM).
    set (r := zn (cells s) l []) in *.
    destruct (put_row_ok mk r c k (stf sc) RW RM Hc Hk ltac:(lia) Hsh Hns) as (r' & E' & _).
    assert (Hl' : 0 <= l < zlen (cells s)) by (rewrite (inv_lines s I); assumption).
    rewrite (on_row_ok s l _ r' Hl' E') in E. inversion E; subst s'.
    assert (K : left_kept c r r').
    { apply (put_row_left mk r c k (stf sc) r'); auto; clear EX. all: lia. }
    assert (Hll : l = line + xl (aux s)).
    { assert (C := inv_clip s I). destruct C as [C|C]; [unfold xlate_and_clip in EX; rewrite C in EX; discriminate|].
      destruct C as (_ & _ & _ & C4 & _). destruct (xlate_some _ _ _ _ _ _ _ _ C4 EX) as (_ & _ & _ & K3 & _). exact K3. }
    assert (Hcc' : col <= c).
    { assert (C := inv_clip s I). destruct C as [C|C]; [unfold xlate_and_clip in EX; rewrite C in EX; discriminate|].
      destruct C as (_ & _ & _ & C4 & _). destruct (xlate_some _ _ _ _ _ _ _ _ C4 EX) as (_ & K1 & K2 & _ & _ & K5 & _ & K7). clear EX E. lia. }
    rewrite <- Hll.
    intros y Hy. assert (Q := set_row_left_kept s l r' c I Hl K y Hy).
    destruct (Z.eqb_spec y l); [|exact Q].
    destruct Q as (Q1 & Q2). split; [assumption|]. intros i Hi Hlen. apply Q2; clear EX E; lia.
  - inversion E; subst. apply buf_left_kept_refl.
Qed.

Lemma buf_left_kept_trans : forall wl wc a b c,
  rb_lines b = rb_lines a -> rb_cols b = rb_cols a ->
  buf_left_kept wl wc a b -> buf_left_kept wl wc b c -> buf_left_kept wl wc a c.
Proof.
  intros wl wc a b c HL HC K1 K2 y Hy.
  specialize (K1 y Hy). specialize (K2 y ltac:(lia)). rewrite HC in K2.
  destruct K1 as (L1 & K1). destruct K2 as (L2 & K2). split; [congruence|].
  intros i Hi Hl. rewrite K2 by lia. apply K1; lia.
Qed.

(* changing only the auxiliary state *)
Lemma set_aux_left : forall wl wc s a, buf_left_kept wl wc s (set_aux s a).
Proof. intros wl wc s a y Hy. apply left_kept_refl. Qed.

(* restore touches masks only *)
Lemma restore_left : forall wl wc s, Inv s -> buf_left_kept wl wc s (restore s).
Proof.
  intros wl wc s I y Hy. unfold restore. destruct (stack (aux s)); [apply left_kept_refl|].
  unfold row_at. cbn [cells].
  assert (Hy' : 0 <= y < zlen (cells s)) by (rewrite (inv_lines s I); assumption).
  rewrite (@zn_map row row _ (cells s) y [] []) by assumption.
  set (r := zn (cells s) y []).
  assert (L : len (map (fun cell => if cmask cell >? depth (ax_restore (aux s)) then mkCell (ck cell) (-1) else cell) r) = len r)
    by (unfold len; now rewrite map_length).
  split; [exact L|].
  intros i Hi Hl. unfold is_start. rewrite !get_zn.
  rewrite (zn_map _ r i dcell dcell) by (rewrite <- len_zlen; lia).
  destruct (cmask (zn r i dcell) >? _); reflexivity.
Qed.

(* single-cell operations *)
Lemma cell_op_left : forall s line col (op : row -> Z -> res row) s',
  Inv s -> xc (aux s) = 0 ->
  (forall r c r', WF r -> 0 <= c < len r -> op r c = Ok r' -> left_kept c r r') ->
  (match xlate_and_clip (aux s) line col 1 with
   | None => Ok s
   | Some (l, c, k, _) => on_row s l (fun r => op r c)
   end) = Ok s' ->
  buf_left_kept (line + xl (aux s)) col s s'.
Proof.
  intros s line col op s' I Hxc Hop E.
  destruct (xlate_and_clip (aux s) line col 1) as [[[[l c] k] sc]|] eqn:EX.
  - destruct (xlate_in_buffer _ _ _ _ _ _ _ _ I EX) as (Hcc & Hl & Hc & Hk & Hck & Esc).
    assert (k = 1) by (eapply xlate_one; eauto). subst k.
    assert (Hr := inv_rows s I l Hl). destruct Hr as (RL & RW & RM).
    assert (Hl' : 0 <= l < zlen (cells s)) by (rewrite (inv_lines s I); assumption).
    unfold on_row in E. unfold zlen in Hl'.
    destruct (Z.leb_spec 0 l); [|lia]. destruct (Z.ltb_spec l (Z.of_nat (length (cells s)))); [|lia]. cbn [andb] in E.
    change (nth (Z.to_nat l) (cells s) []) with (zn (cells s) l []) in E.
    destruct (op (zn (cells s) l []) c) as [r'| |] eqn:Eo; cbn [bind] in E; try discriminate.
    inversion E; subst s'. clear E.
    assert (K : left_kept c (zn (cells s) l []) r') by (apply Hop; auto; lia).
    assert (C4 : 0 <= cols (clip (aux s))) by exact Hcc.
    destruct (xlate_some _ _ _ _ _ _ _ _ C4 EX) as (_ & _ & _ & K3 & _ & _ & _ & K7).
    rewrite <- K3.
    intros y Hy. assert (Q := set_row_left_kept s l r' c I Hl K y Hy).
    destruct (Z.eqb_spec y l); [|exact Q].
    destruct Q as (Q1 & Q2). split; [assumption|]. intros i Hi Hlen. apply Q2; clear EX; lia.
  - inversion E; subst. apply buf_left_kept_refl.
Qed.

Lemma upd_left : forall r c x, 0 <= c < len r ->
  (match ck (get r c), ck x with Start _ _, Start _ _ => True | Cont _, Cont _ => True | _, _ => False end) ->
  left_kept c r (upd r c x).
Proof.
  intros r c x Hc Hk. split; [apply len_upd|].
  intros i Hi Hl. unfold is_start. rewrite get_upd by lia. destruct (Z.eqb_spec i c); [lia|reflexivity].
Qed.

Lemma put_char_left : forall s line col cp s' v,
  Inv s -> xc (aux s) = 0 -> put_char s line col cp = Ok (s', v) -> buf_left_kept (line + xl (aux s)) col s s'.
Proof.
  intros s line col cp s' v I Hxc E. unfold put_char in E.
  destruct (text_valid [cp]); cbn [negb] in E; [|inversion E; subst; apply buf_left_kept_refl].
  destruct (cpw cp =? 1); cbn [negb] in E.
  - apply (cell_op_left s line col
             (fun r c => do cell <- getr r c; if -1 <? cmask cell then Ok r else make_span r c 1 (CChar (cur_pen (aux s)) cp)) s' I Hxc).
    + intros r c r' W Hc Eo. rewrite getr_ok in Eo by assumption. cbn [bind] in Eo.
      destruct (-1 <? cmask (get r c)); [inversion Eo; subst; apply left_kept_refl|].
      eapply make_span_left; eauto; lia.
    + destruct (xlate_and_clip (aux s) line col 1) as [[[[l c] k] sc]|] eqn:EX.
      * destruct (xlate_in_buffer _ _ _ _ _ _ _ _ I EX) as (Hcc & _).
        assert (k = 1) by (eapply xlate_one; eauto). subst k.
        destruct (on_row s l _) as [s1| |]; cbn [bind] in E; try discriminate. inversion E; subst. reflexivity.
      * inversion E; subst. reflexivity.
  - unfold put_string in E. destruct (text_valid [cp]); cbn [negb] in E; [|inversion E; subst; apply buf_left_kept_refl].
    destruct (put_substr s line col [cp] 0 (text_width [cp])) as [s1| |] eqn:E1; cbn [bind] in E; try discriminate.
    inversion E; subst s1 v.
    apply (run_op_left s line col (text_width [cp]) (fun k => CText (cur_pen (aux s)) [cp] k) (fun sc => sc + 0) s' I); auto.
    + apply shift_inv_text. + intros k. reflexivity.
Qed.

Lemma linecell_left : forall s line col bits s',
  Inv s -> xc (aux s) = 0 -> linecell s line col bits = Ok s' -> buf_left_kept (line + xl (aux s)) col s s'.
Proof.
  intros s line col bits s' I Hxc E. unfold linecell in E.
  apply (cell_op_left s line col
           (fun r c => do cell <- getr r c;
                       if -1 <? cmask cell then Ok r
                       else match ck cell with
                            | Start (CLine p m) k =>
                                Ok (upd r c (mkCell (Start (CLine (if negb (pen_equiv p (cur_pen (aux s))) then cur_pen (aux s) else p) (Z.lor m bits)) k) (cmask cell)))
                            | _ => make_span r c 1 (CLine (cur_pen (aux s)) (Z.lor 0 bits))
                            end) s' I Hxc).
  - intros r c r' W Hc Eo. rewrite getr_ok in Eo by assumption. cbn [bind] in Eo.
    destruct (-1 <? cmask (get r c)); [inversion Eo; subst; apply left_kept_refl|].
    destruct (ck (get r c)) as [X k|sc] eqn:Ec.
    + destruct X; try (eapply make_span_left; eauto; lia).
      inversion Eo; subst r'. apply upd_left; [assumption|]. rewrite Ec. cbn [ck]. exact Logic.I.
    + eapply make_span_left; eauto; lia.
  - destruct (xlate_and_clip (aux s) line col 1) as [[[[l c] k] sc]|] eqn:EX; [|exact E].
    destruct (xlate_in_buffer _ _ _ _ _ _ _ _ I EX) as (Hcc & _).
    assert (k = 1) by (eapply xlate_one; eauto). subst k. exact E.
Qed.
