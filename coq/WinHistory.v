(* WinHistory.v -- property C01 over histories: the screen invariant holds initially, every
   operation of the alphabet other than the scrolls preserves it,
   and a flush turns it into "every screen cell shows the composition"; by induction over
   any history with flushes at arbitrary points. *)
From Coq Require Import ZArith List Bool Lia ZifyBool.
From Tickit Require Import RectDefs RectProofs WinRectSet WinRectSetProofs WinDefs WinSpec WinHist
  WinExposeProofs WinLogDisjoint WinFlushProofs WinScreenInv WinLocA WinPreserve WinTermResize.
Import ListNotations.
Local Open Scope Z_scope.
Local Strategy 1000 [rsfuel].

Definition MInv (m : mstate) : Prop :=
  ScreenInv (m_app m) (m_root m) (m_term m) /\ ids_unique (r_tree (m_root m)).

(* the history is inside the proved alphabet, meets the side conditions of each operation
   (op_side2: fresh ids for new windows, no show/hide/geometry of the root, geometry changes
   followed by the exposes of old and new area, terminal sizes positive) and no rectangle-set loop runs out of fuel *)
Fixpoint run_ok (progs : Z -> list dop) (ops : list op) (m : mstate) : Prop :=
  match ops with
  | [] => True
  | o :: rest =>
    let m' := step no_defects progs o m in
    (match o with OFlush => True | _ => op_side2 (m_root m) o end) /\
    r_fault (m_root m') = false /\ run_ok progs rest m'
  end.

Definition all_shown (m : mstate) : Prop :=
  r_damage (m_root m) = [] /\
  forall q, cell_inb (root_selfrect (m_root m)) q = true ->
            t_grid (m_term m) q = shows (m_app m) (r_tree (m_root m)) q.

Lemma flush_step progs m :
  (forall id, progs id = [DPaint]) -> MInv m ->
  r_fault (m_root (step no_defects progs OFlush m)) = false ->
  MInv (step no_defects progs OFlush m) /\ all_shown (step no_defects progs OFlush m).
Proof.
  intros Hp [Hs Hu] Hf. cbn [step] in *.
  destruct (win_flush no_defects (prog_handler (m_app m) progs) (m_root m) (m_term m)) as [[st' tm'] lg] eqn:E.
  cbn [m_root m_term m_app] in *.
  destruct (flush_establishes_any_queue (m_app m) progs (m_root m) (m_term m) st' tm' lg Hs Hu Hp E Hf)
    as (Hd & Hc & Hs' & Hu').
  split; [split; assumption|]. split; assumption.
Qed.

Theorem history_preserves progs :
  (forall id, progs id = [DPaint]) ->
  forall ops m, MInv m -> run_ok progs ops m -> MInv (run no_defects progs ops m).
Proof.
  intros Hp. induction ops as [|o rest IH]; intros m Hm Hok; [exact Hm|].
  cbn [run fold_left]. fold (run no_defects progs rest (step no_defects progs o m)).
  destruct Hok as (Hside & Hf & Hrest). apply IH; [|exact Hrest].
  destruct o; try (destruct Hm as [Hs Hu]; apply (step_preserves2 no_defects progs _ m Hs Hu Hside Hf)).
  apply (flush_step progs m Hp Hm Hf).
Qed.

(* after a history that ends with a flush every screen cell shows the composition *)
Theorem history_flushed progs :
  (forall id, progs id = [DPaint]) ->
  forall ops m, MInv m -> run_ok progs (ops ++ [OFlush]) m ->
    all_shown (run no_defects progs (ops ++ [OFlush]) m).
Proof.
  intros Hp ops m Hm Hok.
  assert (Hsplit : forall ops m, run_ok progs (ops ++ [OFlush]) m ->
            run_ok progs ops m /\
            r_fault (m_root (step no_defects progs OFlush (run no_defects progs ops m))) = false).
  { induction ops0 as [|o rest IH]; intros m0 H.
    - cbn [app run_ok] in H. cbn [run fold_left run_ok]. tauto.
    - cbn [app run_ok] in H. destruct H as (H1 & H2 & H3). destruct (IH _ H3) as [H4 H5].
      cbn [run_ok]. split; [tauto|]. exact H5. }
  destruct (Hsplit ops m Hok) as [Hok' Hf].
  unfold run. rewrite fold_left_app. cbn [fold_left]. fold (run no_defects progs ops m).
  apply flush_step; [exact Hp| |exact Hf]. apply history_preserves; assumption.
Qed.

(* the state right after tickit_window_new_root: the whole root is damaged *)
Theorem init_inv_f fuel nl nc orc : 0 < nl -> 0 < nc -> r_fault (m_root (m_init_f fuel nl nc orc)) = false ->
  MInv (m_init_f fuel nl nc orc).
Proof.
  intros Hl Hc Hf. unfold m_init_f, MInv in *; cbn [m_root m_term m_app] in *.
  set (st0 := root_new_f fuel nl nc) in *.
  assert (Hch : t_chain 0 (r_tree st0) = Some [r_tree st0]) by reflexivity.
  assert (Hne0 : all_nonempty (r_damage st0)) by constructor.
  destruct (win_expose_spec st0 0 None Hne0) as (Hext & Hcov); [| exact Hf |].
  { intros _ w Hw. rewrite Hch in Hw. injection Hw as <-. unfold nonempty; cbn. lia. }
  specialize (Hcov _ (mkRect 0 0 nl nc) Hch).
  assert (Hup : expose_up [r_tree st0] None = Some (mkRect 0 0 nl nc)) by reflexivity.
  specialize (Hcov Hup).
  unfold win_expose in *. rewrite Hch, Hup in *.
  destruct (root_damage_spec st0 (mkRect 0 0 nl nc) Hne0) as (Hne & Hiff & Htr & Hq & _ & _ & Hfl & _);
    [unfold nonempty; cbn; lia|exact Hf|].
  split.
  - constructor.
    + rewrite Htr. split; reflexivity.
    + rewrite Htr. reflexivity.
    + rewrite Htr. split; reflexivity.
    + exact Hne.
    + intros q Hq'. right. apply Hcov. unfold root_selfrect in Hq'. rewrite Htr in Hq'.
      apply cell_inb_iff in Hq'. exact Hq'.
    + split.
      * apply Hfl. intros H; exfalso; apply H; reflexivity.
      * rewrite Hq. intros H; exfalso; apply H; reflexivity.
  - rewrite Htr. unfold ids_unique, st0; cbn. constructor; [intros []|constructor].
Qed.

Theorem init_inv nl nc orc : 0 < nl -> 0 < nc -> r_fault (m_root (m_init nl nc orc)) = false ->
  MInv (m_init nl nc orc).
Proof. exact (init_inv_f rsfuel nl nc orc). Qed.
