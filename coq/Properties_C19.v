From Coq Require Import ZArith List Bool.
From Tickit Require Import PenDefs PenSpec.
