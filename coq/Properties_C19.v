(* Property C19: a pen is a faithful partial map of attributes with lawful copy and
   equivalence.  Nothing but the property theorems, each closed by [exact <lemma>] and
   followed by Print Assumptions.

   Vocabulary (PenDefs.v / PenSpec.v / PenProofs.v / PenDescProofs.v / PenRefine.v):
     lookup p a : option value   the partial map a pen denotes (has_attr + the typed getter;
                                 a colour entry is VCol index (Some rgb | None));
     reads p a : value           what the getters return (the default when absent);
     representable a v           the documented range of attribute a (bool; underline 0..3;
                                 altfont -1..15; sizepos 0..3; colour -1..255, rgb 0..255 each);
     set_value p a v             the setter call(s) for v: set_bool / set_int / set_colour
                                 [/ then set_colour_rgb8];
     wf p                        every value field holds a value of its bit-field's width
                                 (true of any memory content); widths come from pen.c via
                                 Gen_Colours.v, regenerated on every run;
     real a                      a is one of the ten attributes (not an out-of-range code);
     copy_entry d s ow           None in s -> d;  Some v in s -> if d is None or ow then Some v else d;
     spec_desc s                 the documented description grammar: MustAccept i rgb |
                                 MustReject | Unspecified;
     refines3 / s_step / check_case   the dictionary specification run along a history. *)
From Coq Require Import ZArith List Bool.
From Tickit Require Import Gen_Colours PenDefs PenSpec PenProofs PenDescProofs PenRefine.
Import ListNotations.
Local Open Scope Z_scope.

(* after setting an attribute to a representable value it is present and reads back that value *)
Theorem C19_set_then_get : forall p a v, representable a v = true ->
  lookup (set_value p a v) a = Some v /\ has_attr (set_value p a v) a = true /\
  reads (set_value p a v) a = v.
Proof. exact set_then_get. Qed.
Print Assumptions C19_set_then_get.

(* ... and no other attribute changes *)
Theorem C19_set_frame : forall p a v a', a <> a' -> lookup (set_value p a v) a' = lookup p a'.
Proof. exact set_value_frame. Qed.
Print Assumptions C19_set_frame.

(* clearing removes it (and only it); a cleared / new pen has nothing *)
Theorem C19_clear_attr : forall p a, lookup (clear_attr p a) a = None /\
  forall a', a <> a' -> lookup (clear_attr p a) a' = lookup p a'.
Proof. exact clear_attr_spec. Qed.
Print Assumptions C19_clear_attr.

Theorem C19_clear : forall p g a, lookup (clear p) a = None /\ lookup (pen_new g) a = None.
Proof. exact clear_spec. Qed.
Print Assumptions C19_clear.

(* absent attributes read as their defaults, through every getter *)
Theorem C19_defaults : forall p a, has_attr p a = false ->
  lookup p a = None /\ reads p a = default_of a /\
  get_bool p a = false /\ get_int p a = 0 /\ get_colour p a = -1 /\
  has_rgb p a = false /\ get_rgb p a = rgb_zero /\ nondefault_attr p a = false.
Proof. exact defaults. Qed.
Print Assumptions C19_defaults.

(* copy, attribute by attribute, RGB8 secondary included *)
Theorem C19_copy : forall dst src ow a, wf src ->
  lookup (copy dst src ow) a = copy_entry (lookup dst a) (lookup src a) ow.
Proof. exact copy_spec. Qed.
Print Assumptions C19_copy.

(* a clone is equivalent to (indeed denotes the same map as) its original *)
Theorem C19_clone_equiv : forall orig g, wf orig ->
  equiv (clone orig g) orig = true /\ forall a, lookup (clone orig g) a = lookup orig a.
Proof. exact clone_spec. Qed.
Print Assumptions C19_clone_equiv.

(* equivalence holds exactly when every attribute reads the same in both pens *)
Theorem C19_equiv_iff : forall x y, equiv x y = true <-> forall a, real a -> reads x a = reads y a.
Proof. exact equiv_iff. Qed.
Print Assumptions C19_equiv_iff.

Theorem C19_equiv_equivalence : (forall x, equiv x x = true) /\ (forall x y, equiv x y = equiv y x) /\
  (forall x y z, equiv x y = true -> equiv y z = true -> equiv x z = true).
Proof. exact equiv_equivalence. Qed.
Print Assumptions C19_equiv_equivalence.

(* an RGB secondary exists only alongside an index colour and is dropped when the index is set again *)
Theorem C19_rgb_needs_index : forall p a, has_rgb p a = true -> has_attr p a = true.
Proof. exact rgb_needs_index. Qed.
Print Assumptions C19_rgb_needs_index.

Theorem C19_rgb_absent_noop : forall p a c, has_attr p a = false -> set_rgb p a c = p.
Proof. exact set_rgb_absent. Qed.
Print Assumptions C19_rgb_absent_noop.

Theorem C19_rgb_dropped_on_set : forall p a v, has_rgb (set_colour p a v) a = false.
Proof. exact rgb_dropped_on_set. Qed.
Print Assumptions C19_rgb_dropped_on_set.

(* a description yields the same pen as the corresponding direct calls or is rejected without effect *)
Theorem C19_desc_rejected : forall p a s p', set_desc p a s = (false, p') -> p' = p /\ parse_desc s = None.
Proof. exact set_desc_false. Qed.
Print Assumptions C19_desc_rejected.

Theorem C19_desc_accepted : forall p a s p', set_desc p a s = (true, p') ->
  exists i o, parse_desc s = Some (i, o) /\
    p' = match o with Some c => set_rgb (set_colour p a i) a c | None => set_colour p a i end.
Proof. exact set_desc_true. Qed.
Print Assumptions C19_desc_accepted.

(* every string of the documented grammar has the documented meaning; a string that is
   neither number-like nor a colour name is rejected *)
Theorem C19_desc_grammar : forall s,
  (forall i c, spec_desc s = MustAccept i c -> parse_desc s = Some (i, c)) /\
  (spec_desc s = MustReject -> parse_desc s = None).
Proof. exact desc_grammar. Qed.
Print Assumptions C19_desc_grammar.

(* the pinned code (before fixes/C19-desc-prefix-match.patch) violated the second half:
   "b" is not a colour name, and was taken for black *)
Theorem C19_desc_unfixed_refuted :
  exists s, spec_desc s = MustReject /\ parse_desc_gen false s = Some (0, None).
Proof. exact desc_unfixed_refuted. Qed.
Print Assumptions C19_desc_unfixed_refuted.

(* every history of set/clear/copy/copy_attr/clone/new/description operations over three
   pens: the dictionary specification, run alongside, describes the pens at the end, and
   every description call returned what the grammar demands *)
Theorem C19_refines : forall g, wf g -> forall ops st ss, wf3 st -> refines3 ss st ->
  let '(st', rets) := c_run g st ops in
  exists ss', fold_left (fun s '(o, r) => s_step s o r) (combine ops rets) ss = ss' /\
              refines3 ss' st' /\ wf3 st' /\
              forallb (fun '(o, r) => step_ret_ok o r) (combine ops rets) = true.
Proof. exact run_refines. Qed.
Print Assumptions C19_refines.

(* the oracle accepts every run of the model *)
Theorem C19_oracle_accepts_model : forall g ops, wf g ->
  let st0 := fun _ : pidx => pen_new g in
  let '(obs, st) := c_obs g st0 ops in
  check_case ops obs (fun i => observe (st i)) (fun i j => equiv (st i) (st j)) = true.
Proof. exact oracle_accepts_model. Qed.
Print Assumptions C19_oracle_accepts_model.

(* non-vacuity: a pen with an RGB foreground, bold and altfont; overwrite-copy into a pen
   that has other values; the documented example string; the pinned code's "b" *)
Example C19_nonvacuous :
  let g := mkPen (mkCol (-1) (mkRgb 255 255 255) true true) (mkCol (-1) (mkRgb 255 255 255) true true)
                 (mkB true true) (mkI (-1) true) (mkB true true) (mkB true true) (mkB true true)
                 (mkI (-1) true) (mkB true true) (mkI 3 true) in
  let p := set_int (set_bool (set_rgb (set_colour (pen_new g) FG 1) FG (mkRgb 255 21 21)) BOLD true) ALTFONT 15 in
  let q := set_colour (set_bool (pen_new g) BOLD false) FG 7 in
  wf g /\ wf p /\
  lookup p FG = Some (VCol 1 (Some (mkRgb 255 21 21))) /\ lookup p BG = None /\
  lookup (copy q p false) FG = Some (VCol 7 None) /\
  lookup (copy q p true) FG = Some (VCol 1 (Some (mkRgb 255 21 21))) /\
  lookup (copy q p true) BOLD = Some (VBool true) /\
  equiv (clone p g) p = true /\ equiv p q = false /\
  set_desc (pen_new g) FG [114;101;100;32;35;70;70;49;53;49;53]
    = (true, set_rgb (set_colour (pen_new g) FG 1) FG (mkRgb 255 21 21)) /\
  fst (set_desc p FG [98]) = false.
Proof. exact PenRefine.nonvacuous. Qed.
