(* RBFlushGrid.v -- the terminal grid after a flush as an exact overlay, for buffers whose texts
   consist of width-one characters: every pending cell shows its own content in its own pen,
   every other cell of the terminal is untouched.  A corollary of RBFlushShown.v. *)
From Coq Require Import ZArith List Bool Lia.
From Tickit Require Import RectDefs RBDefs RBSpec RBLemmas RBSpanProofs RBAbsLemmas RBInv RBOpProofs RBProofs RBProps
                           RBTheorems Gen_Linechars RBGlyphs RBFlushDefs RBFlushSpec RBFlushProofs RBWidth RBFlushCols
                           RBFlushReach RBTermSim RBFlushShown RBPenLemmas.
Import ListNotations.
Local Open Scope Z_scope.

(* the texts of a grid consist of width-one characters *)
Definition anarrow (A : ast) : Prop :=
  forall y x p u k, in_grid A y x -> ac (gcell (ag A) y x) = AText p u k -> narrow u.

Lemma shows_over : forall c old new,
  shows c old new -> (forall p u k, c = AText p u k -> narrow u) -> new = over c old.
Proof.
  intros c old new H N. destruct c; cbn [shows] in H; unfold over; cbn [xcell]; try exact H.
  destruct H as (H1 & H2). specialize (H2 (N _ _ _ eq_refl)). destruct new as [t q]. cbn [t_text t_pen] in *. congruence.
Qed.

(* Flushing onto a terminal at least as large as the buffer: the terminal executes the emitted
   operations without fault, and afterwards every cell of the terminal that lies under a
   pending cell of the buffer shows that cell's content in that cell's pen, and every other
   cell of the terminal is what it was.  For buffers whose texts are made of width-one
   characters. *)
Theorem flush_grid_narrow : forall s t0 ops s',
  Inv s -> acells_ok (abs_rb s) -> anarrow (abs_rb s) ->
  term_ok t0 -> rb_lines s <= t_lines t0 -> rb_cols s <= t_cols t0 ->
  flush s = Ok (ops, s') ->
  exists t1, t_run t0 ops = Ok t1 /\ term_ok t1 /\ same_frame t0 t1 /\
    forall y x, 0 <= y < t_lines t0 -> 0 <= x < t_cols t0 ->
      tcellat t1 y x =
      if (y <? rb_lines s) && (x <? rb_cols s)
      then over (ac (gcell (ag (abs_rb s)) y x)) (tcellat t0 y x)
      else tcellat t0 y x.
Proof.
  intros s t0 ops s' I Hc Hn T HL HC E.
  destruct (flush_grid_shows s t0 ops s' I Hc T HL HC E) as (t1 & Et & T1 & F1 & G).
  exists t1. split; [exact Et|]. split; [exact T1|]. split; [exact F1|].
  intros y x Hy Hx. specialize (G y x Hy Hx).
  destruct (Z.ltb_spec y (rb_lines s)); cbn [andb] in *; [|exact G].
  destruct (Z.ltb_spec x (rb_cols s)); [|exact G].
  apply shows_over; [exact G|]. intros p u k Ec. apply (Hn y x p u k); [|exact Ec].
  split; cbn [abs_rb a_lines a_cols]; lia.
Qed.

(* the same as the verdict of the oracle's checker (clause 5 of flush_checkb) *)
Lemma tcell_eqb_refl : forall c, tcell_eqb c c = true.
Proof.
  intros [t p]. unfold tcell_eqb. cbn [t_text t_pen]. apply andb_true_iff. split.
  - induction t as [|x t IH]; cbn [list_eqb]; [reflexivity|]. now rewrite Z.eqb_refl, IH.
  - apply pen_equiv_refl.
Qed.

Lemma nthz_zn : forall {A} (l : list A) i d, 0 <= i -> nthz l i d = zn l i d.
Proof. intros A l i d Hi. unfold nthz, zn. destruct (Z.ltb_spec i 0); [lia|reflexivity]. Qed.

Lemma zn_beyond : forall {A} (l : list A) i d, zlen l <= i -> zn l i d = d.
Proof. intros A l i d Hi. unfold zn, zlen in *. apply nth_overflow. lia. Qed.

Theorem flush_overlay : forall s t0 ops s',
  Inv s -> acells_ok (abs_rb s) -> anarrow (abs_rb s) ->
  term_ok t0 -> rb_lines s <= t_lines t0 -> rb_cols s <= t_cols t0 ->
  flush s = Ok (ops, s') ->
  exists t1, t_run t0 ops = Ok t1 /\ overlay_checkb (ag (abs_rb s)) (tg t0) (tg t1) = true.
Proof.
  intros s t0 ops s' I Hc Hn T HL HC E.
  destruct (flush_grid_narrow s t0 ops s' I Hc Hn T HL HC E) as (t1 & Et & T1 & (F1 & F2 & F3) & G).
  exists t1. split; [exact Et|]. unfold overlay_checkb. apply orb_true_iff. right.
  destruct T as (A1 & A2 & A3). destruct T1 as (B1 & B2 & B3).
  apply andb_true_iff. split; [apply Nat.eqb_eq; unfold zlen in *; lia|].
  apply forallb_forall. intros y Hy. apply in_zseq in Hy. cbv zeta.
  assert (Hy' : 0 <= y < t_lines t0) by (unfold zlen in A1; lia).
  rewrite !nthz_zn by lia.
  assert (R0 := A3 y Hy'). assert (R1 := B3 y ltac:(lia)).
  apply andb_true_iff. split; [apply Nat.eqb_eq; unfold zlen in *; lia|].
  apply forallb_forall. intros x Hx. apply in_zseq in Hx.
  assert (Hx' : 0 <= x < t_cols t0) by (unfold zlen in R0; lia).
  rewrite !nthz_zn by lia.
  change (zn (zn (tg t1) y []) x dtc) with (tcellat t1 y x).
  change (zn (zn (tg t0) y []) x dtc) with (tcellat t0 y x).
  change (zn (zn (ag (abs_rb s)) y []) x (mkA ASkip (-1))) with (gcell (ag (abs_rb s)) y x).
  rewrite G by assumption.
  destruct (Z.ltb_spec y (rb_lines s)); cbn [andb].
  - destruct (Z.ltb_spec x (rb_cols s)); [apply tcell_eqb_refl|].
    unfold gcell. rewrite ag_abs_row by (rewrite (inv_lines s I); lia).
    destruct (inv_rows s I y ltac:(lia)) as (Hl & _).
    rewrite zn_beyond by (rewrite zlen_abs_row; lia). unfold over, dacell. cbn [ac xcell]. apply tcell_eqb_refl.
  - unfold gcell. rewrite (zn_beyond (ag (abs_rb s)) y) by (rewrite ag_abs_len, (inv_lines s I); lia).
    rewrite zn_beyond by (unfold zlen; cbn; lia). unfold over, dacell. cbn [ac xcell]. apply tcell_eqb_refl.
Qed.

(* ---------------------------------------------------------------------------------- *)
(* narrow texts are what narrow drawing operations produce *)

Definition op_narrow (o : rbop) : Prop :=
  match o with
  | OTextAt _ _ t | OText t => narrow t
  | OCharAt _ _ cp | OChar cp => cpw cp = 1 \/ cpw cp < 0
  | _ => True
  end.

Lemma anarrow_paint : forall A r F,
  ashape A -> anarrow A ->
  (forall y x old p u k, F y x old = AText p u k -> narrow u \/ old = AText p u k) ->
  anarrow (a_paint A r F).
Proof.
  intros A r F (H1 & H2) Hc HF y x p u k (Hy & Hx) E. cbn [a_paint set_ag a_lines a_cols] in Hy, Hx.
  rewrite gcell_a_paint in E by (try rewrite H2 by assumption; lia). cbv zeta in E.
  destruct (_ && _); cbn [ac] in E.
  - destruct (HF _ _ _ _ _ _ E) as [K|K]; [exact K|]. apply (Hc y x p u k); [split; assumption|exact K].
  - apply (Hc y x p u k); [split; assumption|exact E].
Qed.

Lemma anarrow_linecell_fold : forall (pos : Z * Z -> Z * Z) l A,
  ashape A -> anarrow A ->
  anarrow (fold_left (fun acc cb => a_linecell acc (fst (pos cb)) (snd (pos cb)) (snd cb)) l A).
Proof.
  intros pos l. induction l as [|cb l IH]; intros A Hs Hc; cbn [fold_left]; [assumption|].
  apply IH; [unfold a_linecell; apply ashape_paint; assumption|].
  unfold a_linecell. apply anarrow_paint; auto. intros y x old p u k E. destruct old; discriminate.
Qed.

Theorem astep_anarrow : forall A o, op_narrow o -> ashape A -> anarrow A -> anarrow (fst (astep A o)).
Proof.
  intros A o Ho Hs Hc.
  assert (Pn : forall r (c : cellc), (forall p u k, c <> AText p u k) -> anarrow (a_paint A r (fun _ _ _ => c))).
  { intros r c Hn. apply anarrow_paint; auto. intros y x old p u k E. exfalso. eapply Hn; eauto. }
  assert (Ptext : forall l c t, narrow t -> anarrow (a_text A l c t)).
  { intros l c t Nt. unfold a_text. apply anarrow_paint; auto. intros y x old p u k E. inversion E; subst. left. exact Nt. }
  assert (Pchar : forall l c cp, cpw cp = 1 \/ cpw cp < 0 -> anarrow (a_char A l c cp)).
  { intros l c cp Hw. unfold a_char. destruct (text_valid [cp]) eqn:Ev; cbn [negb]; [|assumption].
    destruct (Z.eqb_spec (cpw cp) 1); [apply Pn; intros; discriminate|].
    exfalso. unfold text_valid in Ev. cbn [forallb] in Ev. rewrite andb_true_r in Ev. apply Z.leb_le in Ev. lia. }
  destruct o; cbn [astep fst op_narrow] in *; try assumption;
    try (unfold a_skip; apply Pn; intros; discriminate);
    try (unfold a_erase; apply Pn; intros; discriminate);
    try (destruct (vc_set (a_aux A)); cbn [negb fst]; [|assumption];
         first [unfold a_skip; apply Pn; intros; discriminate | unfold a_erase; apply Pn; intros; discriminate]).
  - (* mask *) intros y x p u k (Hy & Hx) E. destruct Hs as (H1 & H2). cbn [a_mask set_ag a_lines a_cols ag] in *.
    rewrite gcell_mapi2 in E by (try rewrite H2 by assumption; lia).
    apply (Hc y x p u k); [split; assumption|]. destruct (_ && _); exact E.
  - (* restore *) unfold a_restore. destruct (stack (a_aux A)); [assumption|].
    intros y x p u k (Hy & Hx) E. destruct Hs as (H1 & H2). cbn [a_lines a_cols ag] in *.
    rewrite gcell_map2 in E by (try rewrite H2 by assumption; lia).
    apply (Hc y x p u k); [split; assumption|]. destruct (_ >? _); exact E.
  - (* reset *) intros y x p u k (Hy & Hx) E. cbn [a_reset a_lines a_cols ag] in *. unfold gcell in E.
    rewrite zn_repeat in E by lia. rewrite zn_repeat in E by lia. discriminate.
  - destruct (text_valid t); cbn [negb fst]; [apply Ptext; exact Ho|assumption].
  - destruct (vc_set (a_aux A)); cbn [negb fst]; [|assumption].
    destruct (text_valid t); cbn [negb fst]; [apply Ptext; exact Ho|assumption].
  - apply Pchar; exact Ho.
  - destruct (vc_set (a_aux A)); cbn [negb fst]; [|assumption].
    destruct (text_valid [cp] && (0 <? cpw cp)); cbn [fst]; [apply Pchar; exact Ho|assumption].
  - apply (anarrow_linecell_fold (fun cb => (l, fst cb))); assumption.
  - apply (anarrow_linecell_fold (fun lb => (fst lb, c))); assumption.
Qed.

Theorem arun_anarrow : forall ops A, Forall op_narrow ops -> ashape A -> anarrow A -> anarrow (fst (arun A ops)).
Proof.
  induction ops as [|o ops IH]; intros A Ho Hs Hc; cbn [arun]; [assumption|].
  inversion Ho as [|o' ops' Ho1 Ho2]; subst.
  pose proof (astep_anarrow A o Ho1 Hs Hc) as H1. destruct (astep_shape A o Hs) as (H2 & _).
  destruct (astep A o) as [A1 v1]. cbn [fst] in *. specialize (IH A1 Ho2 H2 H1).
  destruct (arun A1 ops) as [A2 v2]. exact IH.
Qed.

(* ... for every buffer reached by a drawing program whose texts and characters have width one *)
Theorem flush_grid_narrow_reachable : forall L C prog s v t0,
  0 <= L -> 0 <= C -> Forall op_ok prog -> Forall op_narrow prog -> run (rb_new L C) prog = Ok (s, v) ->
  term_ok t0 -> L <= t_lines t0 -> C <= t_cols t0 ->
  exists ops t1, flush s = Ok (ops, reset s) /\ t_run t0 ops = Ok t1 /\ term_ok t1 /\ same_frame t0 t1 /\
    forall y x, 0 <= y < t_lines t0 -> 0 <= x < t_cols t0 ->
      tcellat t1 y x =
      if (y <? L) && (x <? C)
      then over (ac (gcell (ag (fst (arun (a_new L C) prog))) y x)) (tcellat t0 y x)
      else tcellat t0 y x.
Proof.
  intros L C prog s v t0 HL HC Ho Hn E T TL TC.
  destruct (program_refines L C prog HL HC) as (t & w & F & I & Ab & _). rewrite E in F. inversion F; subst t w.
  assert (Hc : acells_ok (abs_rb s)).
  { rewrite Ab. apply arun_aok; [exact Ho|apply ashape_new; assumption|apply aok_new; assumption]. }
  assert (Hnr : anarrow (abs_rb s)).
  { rewrite Ab. apply arun_anarrow; [exact Hn|apply ashape_new; assumption|].
    intros y x p u k (Hy & Hx) Ex. cbn [a_new a_lines a_cols ag] in *. unfold gcell in Ex.
    rewrite zn_repeat in Ex by lia. rewrite zn_repeat in Ex by lia. discriminate. }
  assert (SL : rb_lines s = L /\ rb_cols s = C).
  { destruct (arun_dims prog (a_new L C) (ashape_new L C HL HC)) as (D1 & D2).
    rewrite <- Ab in D1, D2. cbn [abs_rb a_lines a_cols a_new] in D1, D2. split; assumption. }
  destruct SL as (SL1 & SL2).
  destruct (flush_total_and_resets s I) as (ops & Ef & _).
  destruct (flush_grid_narrow s t0 ops (reset s) I Hc Hnr T) as (t1 & Et & T1 & F1 & G); try lia; [exact Ef|].
  exists ops, t1. split; [exact Ef|]. split; [exact Et|]. split; [exact T1|]. split; [exact F1|].
  intros y x Hy Hx. rewrite G by assumption. rewrite SL1, SL2, Ab. reflexivity.
Qed.
