(* RBFlushGrid.v -- the terminal grid after a flush, cell by cell, for buffers whose texts consist
   of width-one characters: every pending cell shows its own content in its own pen, every
   other cell of the terminal is untouched.  Composition of t_run_paint (RBTermSim.v: what the
   terminal does with a list of operations) and flush_line_paint (here: which operations the
   flush emits). *)
From Coq Require Import ZArith List Bool Lia.
From Tickit Require Import RectDefs RBDefs RBSpec RBLemmas RBSpanProofs RBAbsLemmas RBInv RBOpProofs RBProofs RBProps
                           RBTheorems Gen_Linechars RBGlyphs RBFlushDefs RBFlushSpec RBFlushProofs RBWidth RBFlushCols
                           RBFlushReach RBTermSim.
Import ListNotations.
Local Open Scope Z_scope.

(* the texts of a row / of a grid consist of width-one characters *)
Definition row_narrow (r : row) : Prop :=
  forall i p s offs n, 0 <= i < len r -> ck (get r i) = Start (CText p s offs) n -> narrow s.
Definition anarrow (A : ast) : Prop :=
  forall y x p u k, in_grid A y x -> ac (gcell (ag A) y x) = AText p u k -> narrow u.

(* ---------------------------------------------------------------------------------- *)
(* pens *)

Lemma pen_equiv_canon : forall a b, pen_equiv a b = true -> canon_pen a = canon_pen b.
Proof.
  intros a b H. unfold pen_equiv, attr_equiv in H.
  apply andb_true_iff in H. destruct H as (H & H4). apply andb_true_iff in H. destruct H as (H & H3).
  apply andb_true_iff in H. destruct H as (H1 & H2).
  apply Z.eqb_eq in H1, H2, H3, H4. unfold canon_pen. congruence.
Qed.

(* ---------------------------------------------------------------------------------- *)
(* narrow strings *)

Lemma tw_narrow : forall u, narrow u -> tw u = zlen u.
Proof.
  induction u as [|c u IH]; intros N; [reflexivity|]. cbn [tw]. unfold zlen. cbn [length]. rewrite Nat2Z.inj_succ.
  rewrite (N c (or_introl eq_refl)). unfold zlen in IH. rewrite IH; [lia|]. intros x Hx. apply N. right. exact Hx.
Qed.

Lemma narrow_valid : forall u, narrow u -> valid u.
Proof. intros u N c Hc. rewrite (N c Hc). lia. Qed.

Lemma narrow_firstn : forall k u, narrow u -> narrow (firstn k u).
Proof.
  induction k as [|k IH]; intros u N; [intros c []|]. destruct u as [|x r]; [intros c []|]. cbn [firstn].
  intros c [<-|Hc]; [apply N; left; reflexivity|]. apply (IH r); [intros y Hy; apply N; right; exact Hy|exact Hc].
Qed.

Lemma narrow_skipn : forall k u, narrow u -> narrow (skipn k u).
Proof.
  induction k as [|k IH]; intros u N; [exact N|]. destruct u as [|x u]; [exact N|]. cbn [skipn]. apply IH.
  intros c Hc. apply N. right. exact Hc.
Qed.

Lemma tw_firstn_narrow : forall k u, narrow u -> (k <= length u)%nat -> tw (firstn k u) = Z.of_nat k.
Proof.
  intros k u N Hk. rewrite tw_narrow by (apply narrow_firstn; exact N). unfold zlen. rewrite firstn_length. lia.
Qed.

(* the flush of a text span of a narrow string is one print of the visible slice *)
Lemma text_emit_narrow : forall p s offs n,
  narrow s -> 0 <= offs -> 1 <= n -> offs + n <= zlen s ->
  text_emit p s offs n = [TSetPen p; TPrint (firstn (Z.to_nat n) (skipn (Z.to_nat offs) s))].
Proof.
  intros p s offs n N Ho Hn Hw. unfold zlen in Hw.
  assert (V := narrow_valid s N).
  unfold text_emit.
  (* the start of the slice *)
  unfold slice_start.
  destruct (count_from0_stop s offs V Ho) as (k & g & Hk & E0 & Hb & Hnx). rewrite E0.
  rewrite tw_firstn_narrow in * by assumption.
  assert (Ek : Z.of_nat k = offs).
  { destruct Hnx as [->|(c & Hc & Hc1 & Hc2)]; [lia|].
    rewrite (N c (nth_error_In _ _ Hc)) in Hc2. lia. }
  cbn [sp_col sp_cp]. rewrite Ek. rewrite Z.ltb_irrefl. cbn [sp_col sp_cp].
  replace (offs - offs) with 0 by lia. cbn [Z.to_nat repeat app].
  (* its end *)
  assert (Ep : mkPos offs g offs = mkPos (Z.of_nat k) g (tw (firstn k s))).
  { rewrite tw_firstn_narrow by assumption. now rewrite Ek. }
  rewrite Ep.
  destruct (count_on_stop s k g (offs + n) V Hk) as (k2 & g2 & Hk2 & E2 & Hb2 & Hnx2).
  { rewrite tw_firstn_narrow by assumption. lia. }
  rewrite E2. assert (Tk2 := tw_firstn_narrow k2 s N ltac:(lia)). rewrite Tk2 in Hb2, Hnx2 |- *.
  assert (Ek2 : Z.of_nat k2 = offs + n).
  { destruct Hnx2 as [->|(c & Hc & Hc1 & Hc2)]; [lia|].
    rewrite (N c (nth_error_In _ _ Hc)) in Hc2. lia. }
  cbn [sp_col sp_cp]. rewrite Ek2, Ek.
  replace (offs + n - (offs + n)) with 0 by lia. cbn [Z.to_nat repeat].
  destruct (Z.ltb_spec offs (offs + n)); [|lia]. rewrite app_nil_r. cbn [app].
  unfold slice, firstz, skipz. cbn [sp_cp].
  replace (offs + n - offs) with n by lia. reflexivity.
Qed.

Lemma nth_firstn_skipn : forall (s : list Z) a n j, (j < n)%nat -> (a + n <= length s)%nat ->
  nth j (firstn n (skipn a s)) 0 = nth (a + j) s 0.
Proof.
  intros s a n j Hj Hl.
  assert (E : nth (a + j) s 0 = nth j (skipn a s) 0).
  { clear. revert s. induction a as [|a IH]; intros s; [reflexivity|]. destruct s as [|x s]; [destruct j; reflexivity|]. apply IH. }
  rewrite E. rewrite <- (firstn_skipn n (skipn a s)) at 2. rewrite app_nth1; [reflexivity|].
  rewrite firstn_length, skipn_length. lia.
Qed.

(* ---------------------------------------------------------------------------------- *)
(* the writes of one line, pointwise *)

Definition row_look (w : writes) (r : row) (line col : Z) : Prop :=
  forall y x d, look w (y, x) d = if (y =? line) && (col <=? x) && (x <? len r) then over (abs_cell r x) d else d.

Lemma row_look_span : forall r line col n cells w,
  0 <= col -> 1 <= n -> col + n <= len r -> zlen cells = n ->
  (forall x d, col <= x < col + n -> nth (Z.to_nat (x - col)) cells d = over (abs_cell r x) d) ->
  row_look w r line (col + n) -> row_look (rw line col cells ++ w) r line col.
Proof.
  intros r line col n cells w Hc Hn Hl Hz Hcells Hw y x d.
  rewrite look_app, look_rw, Hw, Hz.
  destruct (Z.eqb_spec y line) as [->|Hy]; cbn [andb]; [|reflexivity].
  destruct (Z.leb_spec col x); destruct (Z.ltb_spec x (col + n)); destruct (Z.leb_spec (col + n) x);
    destruct (Z.ltb_spec x (len r)); cbn [andb]; try lia; try reflexivity.
  apply Hcells. lia.
Qed.

Lemma row_look_skip : forall r line col n w,
  0 <= col -> 1 <= n -> col + n <= len r ->
  (forall x, col <= x < col + n -> abs_cell r x = ASkip) ->
  row_look w r line (col + n) -> row_look w r line col.
Proof.
  intros r line col n w Hc Hn Hl Hs Hw y x d. rewrite Hw.
  destruct (Z.eqb_spec y line) as [->|Hy]; cbn [andb]; [|reflexivity].
  destruct (Z.leb_spec col x); destruct (Z.leb_spec (col + n) x);
    destruct (Z.ltb_spec x (len r)); cbn [andb]; try lia; try reflexivity.
  rewrite Hs by lia. reflexivity.
Qed.

Lemma nth_map_cell : forall (u : list Z) (pn : pen) j d, (j < length u)%nat ->
  nth j (map (fun ch => mkT [ch] pn) u) d = mkT [nth j u 0] pn.
Proof.
  intros u pn j d Hj. rewrite (nth_indep _ d (mkT [0] pn)) by (rewrite map_length; exact Hj).
  apply (map_nth (fun ch => mkT [ch] pn) u 0).
Qed.

(* the run of LINE cells merged into one print *)
Lemma line_run_cells : forall fuel r col p,
  WF r -> row_content_ok r -> at_boundary r col ->
  let '(g, c') := line_run fuel r col p in
  col <= c' /\ at_boundary r c' /\ zlen g = c' - col /\ narrow g /\
  forall x, col <= x < c' ->
    exists q m, abs_cell r x = ALine q m /\ canon_pen q = canon_pen p /\ nth (Z.to_nat (x - col)) g 0 = linechar m.
Proof.
  induction fuel as [|f IH]; intros r col p W RC Hb; cbn [line_run].
  - split; [lia|]. split; [assumption|]. split; [unfold zlen; cbn; lia|]. split; [intros c []|]. intros x Hx. lia.
  - assert (Triv : col <= col /\ at_boundary r col /\ zlen (@nil Z) = col - col /\ narrow [] /\
                   forall x, col <= x < col ->
                     exists q m, abs_cell r x = ALine q m /\ canon_pen q = canon_pen p /\ nth (Z.to_nat (x - col)) [] 0 = linechar m).
    { split; [lia|]. split; [assumption|]. split; [unfold zlen; cbn; lia|]. split; [intros c []|]. intros x Hx. lia. }
    destruct (Z.ltb_spec col (len r)) as [Hlt|Hge]; [|exact Triv].
    destruct Hb as [Hb|(Hc & c & n & Ec)]; [lia|]. rewrite Ec.
    destruct c as [|? ? ?|?|q m|? ?]; try exact Triv.
    destruct (pen_equiv q p) eqn:Eq; [|exact Triv].
    assert (n = 1).
    { assert (Wc := W col Hc). unfold wf_cellf in Wc. rewrite Ec in Wc. destruct Wc as (_ & _ & K3 & _). now apply K3. }
    subst n.
    assert (Hn := next_boundary r col _ _ W Hc Ec).
    assert (Gw := RC col Hc). unfold span_ok in Gw. rewrite Ec in Gw.
    specialize (IH r (col + 1) p W RC Hn). destruct (line_run f r (col + 1) p) as [g c'].
    destruct IH as (I1 & I2 & I3 & I4 & I5). split; [lia|]. split; [assumption|].
    split; [unfold zlen in *; cbn [length]; lia|].
    split; [intros c [<-|Hc']; [exact Gw|apply I4; exact Hc']|].
    intros x Hx. destruct (Z.eq_dec x col) as [->|Hne].
    + exists q, m. rewrite Z.sub_diag. cbn [Z.to_nat nth]. split; [|split; [apply pen_equiv_canon; exact Eq|reflexivity]].
      rewrite (span_cells r col _ 1 col W Hc Ec) by lia. rewrite Z.sub_diag. reflexivity.
    + destruct (I5 x ltac:(lia)) as (q' & m' & A1 & A2 & A3). exists q', m'. split; [exact A1|]. split; [exact A2|].
      replace (Z.to_nat (x - col)) with (S (Z.to_nat (x - (col + 1)))) by lia. cbn [nth]. exact A3.
Qed.

(* one line of the flush, as writes *)
Theorem flush_line_paint : forall fuel r line col phycol cur pn ops L C,
  WF r -> row_content_ok r -> row_narrow r -> at_boundary r col -> cur_ok line phycol col cur ->
  0 <= line < L -> len r <= C ->
  flush_line fuel r line col phycol = Ok ops ->
  exists w cur' pn', paint L C cur pn ops = Some (w, cur', pn') /\ row_look w r line col.
Proof.
  induction fuel as [|f IH]; intros r line col phycol cur pn ops L C W RC RN Hb Hcur HL HC E.
  - cbn [flush_line] in E. destruct (Z.leb_spec (len r) col) as [Hge|Hlt]; [|discriminate].
    inversion E; subst. cbn [paint]. do 3 eexists. split; [reflexivity|].
    intros y x d. unfold look. cbn [fold_left].
    destruct (Z.leb_spec col x); destruct (Z.ltb_spec x (len r)); try lia; rewrite ?andb_false_r; reflexivity.
  - cbn [flush_line] in E. destruct (Z.leb_spec (len r) col) as [Hge|Hlt].
    { inversion E; subst. cbn [paint]. do 3 eexists. split; [reflexivity|].
      intros y x d. unfold look. cbn [fold_left].
      destruct (Z.leb_spec col x); destruct (Z.ltb_spec x (len r)); try lia; rewrite ?andb_false_r; reflexivity. }
    destruct Hb as [Hb|(Hc & c & n & Ec)]; [lia|].
    rewrite getr_ok in E by assumption. cbn [bind] in E. rewrite Ec in E.
    assert (Wc := W col Hc). unfold wf_cellf in Wc. rewrite Ec in Wc. destruct Wc as (K1 & K2 & K3 & K4).
    assert (Hn := next_boundary r col c n W Hc Ec).
    assert (Gw := RC col Hc). unfold span_ok in Gw. rewrite Ec in Gw.
    assert (Cells := fun x => span_cells r col c n x W Hc Ec).
    destruct Hcur as (C1 & C2).
    assert (Goto : forall q tail, paint L C cur q ((if phycol <? col then [TGoto line col] else []) ++ tail) =
                                  paint L C (Some (line, col)) q tail).
    { intros q tail. destruct (Z.ltb_spec phycol col); cbn [app paint]; [|rewrite C2 by lia; reflexivity].
      destruct (Z.leb_spec 0 line); [|lia]. destruct (Z.ltb_spec line L); [|lia].
      destruct (Z.leb_spec 0 col); [|lia]. destruct (Z.ltb_spec col C); [|lia]. reflexivity. }
    destruct c as [|p s offs|p|p m|p cp].
    + (* skip *)
      destruct (IH r line (col + n) phycol cur pn ops L C W RC RN Hn) as (w & cur' & pn' & P & Lk); try assumption.
      { split; [lia|intros; lia]. }
      exists w, cur', pn'. split; [exact P|].
      apply (row_look_skip r line col n w); try lia; [|exact Lk].
      intros x Hx. rewrite Cells by lia. reflexivity.
    + (* text *)
      destruct (flush_line f r line (col + n) (col + n)) as [rest| |] eqn:Er; cbn [bind] in E; try discriminate.
      assert (Eo : ops = (if phycol <? col then [TGoto line col] else []) ++ text_emit p s offs n ++ rest)
        by (inversion E; reflexivity).
      subst ops. clear E.
      destruct Gw as (G1 & G2 & G3).
      assert (Ns : narrow s) by (eapply RN; eassumption).
      rewrite text_width_tw, (tw_narrow s Ns) in G3.
      rewrite text_emit_narrow by (assumption || lia).
      set (u := firstn (Z.to_nat n) (skipn (Z.to_nat offs) s)).
      assert (Lu : length u = Z.to_nat n).
      { unfold u. rewrite firstn_length, skipn_length. unfold zlen in G3. lia. }
      assert (Nu : narrowb u = true) by (apply narrowb_narrow; unfold u; apply narrow_firstn, narrow_skipn; exact Ns).
      rewrite Goto. cbn [app paint]. rewrite Nu. unfold zlen at 1. rewrite Lu, Z2Nat.id by lia.
      destruct (Z.leb_spec (col + n) C); [|lia]. cbn [andb].
      destruct (IH r line (col + n) (col + n) (Some (line, col + n)) (canon_pen p) rest L C W RC RN Hn)
        as (w & cur' & pn' & P & Lk); try assumption.
      { split; [lia|reflexivity]. }
      unfold zlen. rewrite Lu, Z2Nat.id by lia. rewrite P.
      do 3 eexists. split; [reflexivity|].
      apply (row_look_span r line col n); try lia; [unfold zlen; rewrite map_length; lia| |exact Lk].
      intros x d Hx. rewrite nth_map_cell by lia. rewrite Cells by lia. unfold over. cbn [content_at xcell].
      do 2 f_equal. unfold u. rewrite nth_firstn_skipn by (unfold zlen in G3; lia). f_equal. lia.
    + (* erase *)
      destruct (if col + n <? len r then getr r (col + n) else Ok dcell) as [nx| |]; cbn [bind] in E; try discriminate.
      cbv zeta in E.
      set (mv0 := (col + n <? len r) && match ck nx with Start CSkip _ => false | _ => true end) in E.
      destruct (flush_line f r line (col + n) (if mv0 then col + n else -1)) as [rest| |] eqn:Er; cbn [bind] in E; try discriminate.
      assert (Eo : ops = (if phycol <? col then [TGoto line col] else []) ++ [TSetPen p; TErase n mv0] ++ rest)
        by (inversion E; reflexivity).
      subst ops. clear E.
      rewrite Goto. cbn [app paint].
      destruct (Z.leb_spec 0 n); [|lia]. destruct (Z.leb_spec (col + n) C); [|lia]. cbn [andb].
      destruct (IH r line (col + n) (if mv0 then col + n else -1) (if mv0 then Some (line, col + n) else None) (canon_pen p) rest L C W RC RN Hn)
        as (w & cur' & pn' & P & Lk); try assumption.
      { destruct mv0; split; try lia; try reflexivity. }
      rewrite P. do 3 eexists. split; [reflexivity|].
      apply (row_look_span r line col n); try lia; [rewrite zlen_repeat; lia| |exact Lk].
      intros x d Hx. rewrite Cells by lia. unfold over. cbn [content_at xcell].
      assert (Hin : In (nth (Z.to_nat (x - col)) (repeat (mkT [32] (canon_pen p)) (Z.to_nat n)) d)
                       (repeat (mkT [32] (canon_pen p)) (Z.to_nat n))).
      { apply nth_In. rewrite repeat_length. lia. }
      apply repeat_spec in Hin. exact Hin.
    + (* line run *)
      specialize (K3 eq_refl). subst n.
      assert (R := line_run_cells (S (Z.to_nat (len r))) r (col + 1) p W RC Hn).
      destruct (line_run (S (Z.to_nat (len r))) r (col + 1) p) as [gl c'].
      destruct R as (R1 & R2 & R3 & R4 & R5).
      match type of E with context [flush_line f r line c' ?ph] =>
        destruct (flush_line f r line c' ph) as [rest| |] eqn:Er end; cbn [bind] in E; try discriminate.
      inversion E; subst ops. clear E.
      assert (Nu : narrow (linechar m :: gl)) by (intros c [<-|Hc']; [exact Gw|apply R4; exact Hc']).
      assert (Zu : zlen (linechar m :: gl) = c' - col) by (unfold zlen in *; cbn [length]; lia).
      assert (Bc : c' <= len r) by (destruct R2 as [->|(? & _)]; lia).
      rewrite Goto. cbn [app paint]. rewrite (proj2 (narrowb_narrow _) Nu). rewrite Zu.
      destruct (Z.leb_spec (col + (c' - col)) C); [|lia]. cbn [andb].
      destruct (IH r line c' (col + 1 + (c' - (col + 1))) (Some (line, col + (c' - col))) (canon_pen p) rest L C W RC RN R2)
        as (w & cur' & pn' & P & Lk); try assumption.
      { split; [lia|]. intros _. do 2 f_equal. lia. }
      rewrite P. do 3 eexists. split; [reflexivity|].
      replace c' with (col + (c' - col)) in Lk by lia.
      apply (row_look_span r line col (c' - col)); try lia; [unfold zlen in *; rewrite map_length; exact Zu| |exact Lk].
      intros x d Hx. rewrite nth_map_cell by (unfold zlen in Zu; lia).
      destruct (Z.eq_dec x col) as [->|Hne].
      * rewrite Z.sub_diag. cbn [Z.to_nat nth]. rewrite Cells by lia. reflexivity.
      * destruct (R5 x ltac:(lia)) as (q' & m' & A1 & A2 & A3). rewrite A1. unfold over. cbn [xcell].
        replace (Z.to_nat (x - col)) with (S (Z.to_nat (x - (col + 1)))) by lia. cbn [nth]. rewrite A3, A2. reflexivity.
    + (* char *)
      destruct (flush_line f r line (col + n) (col + n)) as [rest| |] eqn:Er; cbn [bind] in E; try discriminate.
      inversion E; subst ops. clear E.
      specialize (K3 eq_refl). subst n.
      assert (Nu : narrow [cp]) by (intros c [<-|[]]; exact Gw).
      rewrite Goto. cbn [app paint]. rewrite (proj2 (narrowb_narrow _) Nu).
      change (zlen [cp]) with 1.
      destruct (Z.leb_spec (col + 1) C); [|lia]. cbn [andb].
      destruct (IH r line (col + 1) (col + 1) (Some (line, col + 1)) (canon_pen p) rest L C W RC RN Hn)
        as (w & cur' & pn' & P & Lk); try assumption.
      { split; [lia|reflexivity]. }
      rewrite P. do 3 eexists. split; [reflexivity|].
      apply (row_look_span r line col 1); try lia; [reflexivity| |exact Lk].
      intros x d Hx. assert (x = col) by lia. subst x. rewrite Z.sub_diag. cbn [Z.to_nat map nth].
      rewrite Cells by lia. reflexivity.
Qed.

(* all lines *)
Theorem flush_rows_paint : forall rows line cur pn ops L C,
  (forall r, In r rows -> WF r /\ row_content_ok r /\ row_narrow r /\ len r <= C) ->
  0 <= line -> line + zlen rows <= L ->
  flush_rows rows line = Ok ops ->
  exists w cur' pn', paint L C cur pn ops = Some (w, cur', pn') /\
    forall y x d, look w (y, x) d =
      if (line <=? y) && (y <? line + zlen rows) && (0 <=? x) && (x <? len (zn rows (y - line) []))
      then over (abs_cell (zn rows (y - line) []) x) d else d.
Proof.
  induction rows as [|r rows IH]; intros line cur pn ops L C H Hl HL E; cbn [flush_rows] in E.
  - inversion E; subst. cbn [paint]. do 3 eexists. split; [reflexivity|]. intros y x d. unfold look, zlen. cbn [fold_left length Z.of_nat].
    destruct (Z.leb_spec line y); destruct (Z.ltb_spec y (line + 0)); cbn [andb]; try lia; reflexivity.
  - destruct (flush_line (S (length r)) r line 0 (-1)) as [a| |] eqn:Ea; cbn [bind] in E; try discriminate.
    destruct (flush_rows rows (line + 1)) as [b| |] eqn:Eb; cbn [bind] in E; try discriminate.
    inversion E; subst ops. clear E.
    destruct (H r (or_introl eq_refl)) as (W & RC & RN & HC).
    unfold zlen in HL. cbn [length] in HL. rewrite Nat2Z.inj_succ in HL.
    destruct (flush_line_paint (S (length r)) r line 0 (-1) cur pn a L C W RC RN (row_start_boundary r W))
      as (wa & c1 & p1 & Pa & La); try assumption; try lia.
    { split; [lia|intros; lia]. }
    destruct (IH (line + 1) c1 p1 b L C (fun r' Hr' => H r' (or_intror Hr'))) as (wb & c2 & p2 & Pb & Lb); try (unfold zlen; lia); [exact Eb|].
    rewrite paint_app, Pa, Pb. do 3 eexists. split; [reflexivity|].
    intros y x d. rewrite look_app, Lb, La. unfold zlen. cbn [length]. rewrite Nat2Z.inj_succ.
    destruct (Z.eq_dec y line) as [->|Hne].
    + rewrite Z.eqb_refl, Z.sub_diag. unfold zn at 3 4. cbn [Z.to_nat nth].
      destruct (Z.leb_spec (line + 1) line); [lia|]. cbn [andb].
      destruct (Z.leb_spec line line); [|lia]. destruct (Z.ltb_spec line (line + Z.succ (Z.of_nat (length rows)))); [|lia].
      cbn [andb]. reflexivity.
    + rewrite (proj2 (Z.eqb_neq y line)) by lia. cbn [andb].
      assert (Ez : zn (r :: rows) (y - line) [] = zn rows (y - (line + 1)) [] \/ y < line).
      { destruct (Z_lt_le_dec y line); [right; assumption|left].
        unfold zn. replace (Z.to_nat (y - line)) with (S (Z.to_nat (y - (line + 1)))) by lia. reflexivity. }
      destruct Ez as [Ez|Hlt].
      * rewrite Ez.
        destruct (Z.leb_spec (line + 1) y); destruct (Z.leb_spec line y); try lia; cbn [andb]; try reflexivity.
        destruct (Z.ltb_spec y (line + 1 + Z.of_nat (length rows))); destruct (Z.ltb_spec y (line + Z.succ (Z.of_nat (length rows))));
          try lia; reflexivity.
      * destruct (Z.leb_spec (line + 1) y); [lia|]. destruct (Z.leb_spec line y); [lia|]. reflexivity.
Qed.

(* ---------------------------------------------------------------------------------- *)
(* the theorem *)

Lemma rows_narrow : forall s y, Inv s -> anarrow (abs_rb s) -> 0 <= y < rb_lines s -> row_narrow (zn (cells s) y []).
Proof.
  intros s y I Hn Hy i p u offs n Hi Ei.
  destruct (inv_rows s I y Hy) as (Hl & W & _).
  apply (Hn y i p u offs).
  - split; cbn [abs_rb a_lines a_cols]; lia.
  - rewrite gcell_abs by (assumption || lia). unfold abs_cell. rewrite Ei. cbn [content_at]. f_equal. lia.
Qed.

(* Flushing onto a terminal at least as large as the buffer: the terminal executes the emitted
   operations without fault, and afterwards every cell of the terminal that lies under a
   pending cell of the buffer shows that cell's content in that cell's pen, and every other
   cell of the terminal is what it was.  For buffers whose texts are made of width-one
   characters. *)
Theorem flush_grid_narrow : forall s t0 ops s',
  Inv s -> acells_ok (abs_rb s) -> anarrow (abs_rb s) ->
  term_ok t0 -> rb_lines s <= t_lines t0 -> rb_cols s <= t_cols t0 ->
  flush s = Ok (ops, s') ->
  exists t1, t_run t0 ops = Ok t1 /\ term_ok t1 /\ same_frame t0 t1 /\
    forall y x, 0 <= y < t_lines t0 -> 0 <= x < t_cols t0 ->
      tcellat t1 y x =
      if (y <? rb_lines s) && (x <? rb_cols s)
      then over (ac (gcell (ag (abs_rb s)) y x)) (tcellat t0 y x)
      else tcellat t0 y x.
Proof.
  intros s t0 ops s' I Hc Hn T HL HC E. unfold flush in E.
  destruct (flush_rows (cells s) 0) as [o| |] eqn:Er; cbn [bind] in E; try discriminate.
  inversion E; subst o s'. clear E.
  destruct (flush_rows_paint (cells s) 0 None (t_cur t0) ops (t_lines t0) (t_cols t0)) as (w & cur' & pn' & P & Lk); try lia.
  { intros r Hr. apply In_nth with (d := []) in Hr. destruct Hr as (k & Hk & <-).
    assert (Hy : 0 <= Z.of_nat k < rb_lines s) by (rewrite <- (inv_lines s I); unfold zlen; lia).
    destruct (inv_rows s I (Z.of_nat k) Hy) as (Hl & W & _).
    assert (RC := rows_content_ok s (Z.of_nat k) I Hc Hy).
    assert (RN := rows_narrow s (Z.of_nat k) I Hn Hy).
    unfold zn in W, RC, RN, Hl. rewrite Nat2Z.id in W, RC, RN, Hl. repeat split; try assumption. lia. }
  { rewrite (inv_lines s I). lia. }
  { exact Er. }
  destruct (t_run_paint ops t0 None w cur' pn' T Logic.I P) as (t1 & Et & T1 & F1 & _ & _ & G).
  exists t1. split; [exact Et|]. split; [exact T1|]. split; [exact F1|].
  intros y x Hy Hx. rewrite G by assumption. rewrite Lk. rewrite Z.add_0_l, Z.sub_0_r, (inv_lines s I).
  destruct (Z.leb_spec 0 y); [|lia]. cbn [andb].
  destruct (Z.ltb_spec y (rb_lines s)); cbn [andb]; [|reflexivity].
  destruct (inv_rows s I y ltac:(lia)) as (Hl & _). rewrite Hl.
  destruct (Z.leb_spec 0 x); [|lia]. cbn [andb].
  destruct (Z.ltb_spec x (rb_cols s)); [|reflexivity].
  rewrite gcell_abs by (assumption || lia). reflexivity.
Qed.

(* the same as the verdict of the oracle's checker (clause 5 of flush_checkb) *)
Lemma tcell_eqb_refl : forall c, tcell_eqb c c = true.
Proof.
  intros [t p]. unfold tcell_eqb. cbn [t_text t_pen]. apply andb_true_iff. split.
  - induction t as [|x t IH]; cbn [list_eqb]; [reflexivity|]. now rewrite Z.eqb_refl, IH.
  - unfold pen_equiv, attr_equiv. now rewrite !Z.eqb_refl.
Qed.

Lemma nthz_zn : forall {A} (l : list A) i d, 0 <= i -> nthz l i d = zn l i d.
Proof. intros A l i d Hi. unfold nthz, zn. destruct (Z.ltb_spec i 0); [lia|reflexivity]. Qed.

Lemma zn_beyond : forall {A} (l : list A) i d, zlen l <= i -> zn l i d = d.
Proof. intros A l i d Hi. unfold zn, zlen in *. apply nth_overflow. lia. Qed.

Theorem flush_overlay : forall s t0 ops s',
  Inv s -> acells_ok (abs_rb s) -> anarrow (abs_rb s) ->
  term_ok t0 -> rb_lines s <= t_lines t0 -> rb_cols s <= t_cols t0 ->
  flush s = Ok (ops, s') ->
  exists t1, t_run t0 ops = Ok t1 /\ overlay_checkb (ag (abs_rb s)) (tg t0) (tg t1) = true.
Proof.
  intros s t0 ops s' I Hc Hn T HL HC E.
  destruct (flush_grid_narrow s t0 ops s' I Hc Hn T HL HC E) as (t1 & Et & T1 & (F1 & F2 & F3) & G).
  exists t1. split; [exact Et|]. unfold overlay_checkb. apply orb_true_iff. right.
  destruct T as (A1 & A2 & A3). destruct T1 as (B1 & B2 & B3).
  apply andb_true_iff. split; [apply Nat.eqb_eq; unfold zlen in *; lia|].
  apply forallb_forall. intros y Hy. apply in_zseq in Hy. cbv zeta.
  assert (Hy' : 0 <= y < t_lines t0) by (unfold zlen in A1; lia).
  rewrite !nthz_zn by lia.
  assert (R0 := A3 y Hy'). assert (R1 := B3 y ltac:(lia)).
  apply andb_true_iff. split; [apply Nat.eqb_eq; unfold zlen in *; lia|].
  apply forallb_forall. intros x Hx. apply in_zseq in Hx.
  assert (Hx' : 0 <= x < t_cols t0) by (unfold zlen in R0; lia).
  rewrite !nthz_zn by lia.
  change (zn (zn (tg t1) y []) x dtc) with (tcellat t1 y x).
  change (zn (zn (tg t0) y []) x dtc) with (tcellat t0 y x).
  change (zn (zn (ag (abs_rb s)) y []) x (mkA ASkip (-1))) with (gcell (ag (abs_rb s)) y x).
  rewrite G by assumption.
  destruct (Z.ltb_spec y (rb_lines s)); cbn [andb].
  - destruct (Z.ltb_spec x (rb_cols s)); [apply tcell_eqb_refl|].
    unfold gcell. rewrite ag_abs_row by (rewrite (inv_lines s I); lia).
    destruct (inv_rows s I y ltac:(lia)) as (Hl & _).
    rewrite zn_beyond by (rewrite zlen_abs_row; lia). unfold over, dacell. cbn [ac xcell]. apply tcell_eqb_refl.
  - unfold gcell. rewrite (zn_beyond (ag (abs_rb s)) y) by (rewrite ag_abs_len, (inv_lines s I); lia).
    rewrite zn_beyond by (unfold zlen; cbn; lia). unfold over, dacell. cbn [ac xcell]. apply tcell_eqb_refl.
Qed.

(* ---------------------------------------------------------------------------------- *)
(* narrow texts are what narrow drawing operations produce *)

Definition op_narrow (o : rbop) : Prop :=
  match o with
  | OTextAt _ _ t | OText t => narrow t
  | OCharAt _ _ cp | OChar cp => cpw cp = 1 \/ cpw cp < 0
  | _ => True
  end.

Lemma anarrow_paint : forall A r F,
  ashape A -> anarrow A ->
  (forall y x old p u k, F y x old = AText p u k -> narrow u \/ old = AText p u k) ->
  anarrow (a_paint A r F).
Proof.
  intros A r F (H1 & H2) Hc HF y x p u k (Hy & Hx) E. cbn [a_paint set_ag a_lines a_cols] in Hy, Hx.
  rewrite gcell_a_paint in E by (try rewrite H2 by assumption; lia). cbv zeta in E.
  destruct (_ && _); cbn [ac] in E.
  - destruct (HF _ _ _ _ _ _ E) as [K|K]; [exact K|]. apply (Hc y x p u k); [split; assumption|exact K].
  - apply (Hc y x p u k); [split; assumption|exact E].
Qed.

Lemma anarrow_linecell_fold : forall (pos : Z * Z -> Z * Z) l A,
  ashape A -> anarrow A ->
  anarrow (fold_left (fun acc cb => a_linecell acc (fst (pos cb)) (snd (pos cb)) (snd cb)) l A).
Proof.
  intros pos l. induction l as [|cb l IH]; intros A Hs Hc; cbn [fold_left]; [assumption|].
  apply IH; [unfold a_linecell; apply ashape_paint; assumption|].
  unfold a_linecell. apply anarrow_paint; auto. intros y x old p u k E. destruct old; discriminate.
Qed.

Theorem astep_anarrow : forall A o, op_narrow o -> ashape A -> anarrow A -> anarrow (fst (astep A o)).
Proof.
  intros A o Ho Hs Hc.
  assert (Pn : forall r (c : cellc), (forall p u k, c <> AText p u k) -> anarrow (a_paint A r (fun _ _ _ => c))).
  { intros r c Hn. apply anarrow_paint; auto. intros y x old p u k E. exfalso. eapply Hn; eauto. }
  assert (Ptext : forall l c t, narrow t -> anarrow (a_text A l c t)).
  { intros l c t Nt. unfold a_text. apply anarrow_paint; auto. intros y x old p u k E. inversion E; subst. left. exact Nt. }
  assert (Pchar : forall l c cp, cpw cp = 1 \/ cpw cp < 0 -> anarrow (a_char A l c cp)).
  { intros l c cp Hw. unfold a_char. destruct (text_valid [cp]) eqn:Ev; cbn [negb]; [|assumption].
    destruct (Z.eqb_spec (cpw cp) 1); [apply Pn; intros; discriminate|].
    exfalso. unfold text_valid in Ev. cbn [forallb] in Ev. rewrite andb_true_r in Ev. apply Z.leb_le in Ev. lia. }
  destruct o; cbn [astep fst op_narrow] in *; try assumption;
    try (unfold a_skip; apply Pn; intros; discriminate);
    try (unfold a_erase; apply Pn; intros; discriminate);
    try (destruct (vc_set (a_aux A)); cbn [negb fst]; [|assumption];
         first [unfold a_skip; apply Pn; intros; discriminate | unfold a_erase; apply Pn; intros; discriminate]).
  - (* mask *) intros y x p u k (Hy & Hx) E. destruct Hs as (H1 & H2). cbn [a_mask set_ag a_lines a_cols ag] in *.
    rewrite gcell_mapi2 in E by (try rewrite H2 by assumption; lia).
    apply (Hc y x p u k); [split; assumption|]. destruct (_ && _); exact E.
  - (* restore *) unfold a_restore. destruct (stack (a_aux A)); [assumption|].
    intros y x p u k (Hy & Hx) E. destruct Hs as (H1 & H2). cbn [a_lines a_cols ag] in *.
    rewrite gcell_map2 in E by (try rewrite H2 by assumption; lia).
    apply (Hc y x p u k); [split; assumption|]. destruct (_ >? _); exact E.
  - (* reset *) intros y x p u k (Hy & Hx) E. cbn [a_reset a_lines a_cols ag] in *. unfold gcell in E.
    rewrite zn_repeat in E by lia. rewrite zn_repeat in E by lia. discriminate.
  - destruct (text_valid t); cbn [negb fst]; [apply Ptext; exact Ho|assumption].
  - destruct (vc_set (a_aux A)); cbn [negb fst]; [|assumption].
    destruct (text_valid t); cbn [negb fst]; [apply Ptext; exact Ho|assumption].
  - apply Pchar; exact Ho.
  - destruct (vc_set (a_aux A)); cbn [negb fst]; [|assumption].
    destruct (text_valid [cp] && (0 <? cpw cp)); cbn [fst]; [apply Pchar; exact Ho|assumption].
  - apply (anarrow_linecell_fold (fun cb => (l, fst cb))); assumption.
  - apply (anarrow_linecell_fold (fun lb => (fst lb, c))); assumption.
Qed.

Theorem arun_anarrow : forall ops A, Forall op_narrow ops -> ashape A -> anarrow A -> anarrow (fst (arun A ops)).
Proof.
  induction ops as [|o ops IH]; intros A Ho Hs Hc; cbn [arun]; [assumption|].
  inversion Ho as [|o' ops' Ho1 Ho2]; subst.
  pose proof (astep_anarrow A o Ho1 Hs Hc) as H1. destruct (astep_shape A o Hs) as (H2 & _).
  destruct (astep A o) as [A1 v1]. cbn [fst] in *. specialize (IH A1 Ho2 H2 H1).
  destruct (arun A1 ops) as [A2 v2]. exact IH.
Qed.

Lemma arun_dims : forall ops A, ashape A ->
  a_lines (fst (arun A ops)) = a_lines A /\ a_cols (fst (arun A ops)) = a_cols A.
Proof.
  induction ops as [|o ops IH]; intros A Hs; cbn [arun]; [split; reflexivity|].
  destruct (astep_shape A o Hs) as (H2 & H3 & H4). destruct (astep A o) as [A1 v1]. cbn [fst] in *.
  specialize (IH A1 H2). destruct (arun A1 ops) as [A2 v2]. cbn [fst] in *. destruct IH. split; congruence.
Qed.

(* ... for every buffer reached by a drawing program whose texts and characters have width one *)
Theorem flush_grid_reachable : forall L C prog s v t0,
  0 <= L -> 0 <= C -> Forall op_ok prog -> Forall op_narrow prog -> run (rb_new L C) prog = Ok (s, v) ->
  term_ok t0 -> L <= t_lines t0 -> C <= t_cols t0 ->
  exists ops t1, flush s = Ok (ops, reset s) /\ t_run t0 ops = Ok t1 /\ term_ok t1 /\ same_frame t0 t1 /\
    forall y x, 0 <= y < t_lines t0 -> 0 <= x < t_cols t0 ->
      tcellat t1 y x =
      if (y <? L) && (x <? C)
      then over (ac (gcell (ag (fst (arun (a_new L C) prog))) y x)) (tcellat t0 y x)
      else tcellat t0 y x.
Proof.
  intros L C prog s v t0 HL HC Ho Hn E T TL TC.
  destruct (program_refines L C prog HL HC) as (t & w & F & I & Ab & _). rewrite E in F. inversion F; subst t w.
  assert (Hc : acells_ok (abs_rb s)).
  { rewrite Ab. apply arun_aok; [exact Ho|apply ashape_new; assumption|apply aok_new; assumption]. }
  assert (Hnr : anarrow (abs_rb s)).
  { rewrite Ab. apply arun_anarrow; [exact Hn|apply ashape_new; assumption|].
    intros y x p u k (Hy & Hx) Ex. cbn [a_new a_lines a_cols ag] in *. unfold gcell in Ex.
    rewrite zn_repeat in Ex by lia. rewrite zn_repeat in Ex by lia. discriminate. }
  assert (SL : rb_lines s = L /\ rb_cols s = C).
  { destruct (arun_dims prog (a_new L C) (ashape_new L C HL HC)) as (D1 & D2).
    rewrite <- Ab in D1, D2. cbn [abs_rb a_lines a_cols a_new] in D1, D2. split; assumption. }
  destruct SL as (SL1 & SL2).
  destruct (flush_total_and_resets s I) as (ops & Ef & _).
  destruct (flush_grid_narrow s t0 ops (reset s) I Hc Hnr T) as (t1 & Et & T1 & F1 & G); try lia; [exact Ef|].
  exists ops, t1. split; [exact Ef|]. split; [exact Et|]. split; [exact T1|]. split; [exact F1|].
  intros y x Hy Hx. rewrite G by assumption. rewrite SL1, SL2, Ab. reflexivity.
Qed.
