(* WinInputMutation.v -- property C14: "a window closing or unreferencing itself or another
   window inside a handler neither derails delivery to the rest nor crashes".

   Repaired configuration [no_defects]; ONE scripted mutation [(h, (cls, act, tgt))] armed: the
   handler of window h for events of class cls (0 key, 1 mouse) closes window tgt (act <> 2) or
   closes and destroys it (act = 2).  h and tgt are ANY windows (tgt a non-root window of the
   tree): itself, an ancestor whose frame is active, a sibling, a descendant, ...

   Files: WinInputMutBase.v (states, sets, [cut]), WinInputMutKey.v ([C14_mutation_key]),
   WinInputMutMouse.v ([C14_mutation_mouse]); here the statements of the task:
     C14_mutation_no_crash   no fault, nothing pending, at most tgt freed, references given back
                             (handle_key, handle_mouse, term_key)
     C14_mutation_term_mouse the same for on_term_mouse, as an invariant over event sequences
     C14_mutation_rest       the deliveries outside the closed subtree (multiset; ordered for
                             the mouse) when nobody claims
     C14_mutation_destroy    the accounting of a destruction
     C14_mutation_shapes     concrete runs (vm_compute) *)
From Coq Require Import ZArith List Bool Lia ZifyBool Permutation.
From Tickit Require Import RectDefs WinRectSet WinDefs WinInput WinInputSpec WinInputProofs
  WinInputMutBase WinInputMutKey WinInputMutMouse.
Import ListNotations.
Local Open Scope Z_scope.

(* the start: one mutation armed, nothing freed or pending, no fault, tgt not referenced *)
Definition armed_start (s : istate) (h cls act tgt : Z) (n0 : wtree) : Prop :=
  i_armed s = [(h, (cls, act, tgt))] /\ i_freed s = [] /\ i_pending s = [] /\ i_fault s = false /\
  mem tgt (i_holds s) = false /\ ids_unique (i_root s) /\
  t_find tgt (r_tree (i_root s)) = Some n0 /\ tgt <> t_id (r_tree (i_root s)).

(* ---- 1. no crash ---- *)
Theorem C14_mutation_no_crash claims s h cls act tgt n0 :
  armed_start s h cls act tgt n0 ->
  (* _handle_key from any window *)
  (forall fuel w wn s' r,
     look s w = Some wn -> focus_okb wn = true -> (height wn < fuel)%nat ->
     handle_key fuel no_defects claims s w = (s', r) ->
     i_fault s' = false /\ i_pending s' = [] /\ incl (i_freed s') [tgt] /\ i_holds s' = i_holds s) /\
  (* _handle_mouse from any window, any event type and position *)
  (forall fuel w wn ty btn line col s' r,
     look s w = Some wn -> (height wn < fuel)%nat ->
     handle_mouse fuel no_defects claims s w ty btn line col = (s', r) ->
     i_fault s' = false /\ i_pending s' = [] /\ incl (i_freed s') [tgt] /\ i_holds s' = i_holds s) /\
  (* on_term_key *)
  (focus_okb (r_tree (i_root s)) = true -> (height (r_tree (i_root s)) < ifuel)%nat ->
     let s' := term_key no_defects claims s in
     i_fault s' = false /\ i_pending s' = [] /\ incl (i_freed s') [tgt] /\ i_holds s' = i_holds s).
Proof.
  intros (Ha & Hfr & Hpe & Hfa & Hho & Hu & Hf & Hnr).
  assert (HK : forall fuel w wn s' r,
     look s w = Some wn -> focus_okb wn = true -> (height wn < fuel)%nat ->
     handle_key fuel no_defects claims s w = (s', r) ->
     i_fault s' = false /\ i_pending s' = [] /\ incl (i_freed s') [tgt] /\ i_holds s' = i_holds s).
  { intros fuel w wn s' r Hl Hfo Hh Hrun.
    destruct (C14_mutation_key fuel claims s w wn h cls act tgt n0 s' r Ha Hfr Hpe Hfa Hho Hu Hf Hnr Hl Hfo Hh Hrun)
      as (H1 & H2 & H3 & Hnf & Hfi & _).
    split; [exact H1|]. split; [exact H2|]. split; [|exact H3].
    destruct (key_fired claims h cls wn) eqn:E.
    - destruct (Hfi eq_refl) as (_ & _ & ->). destruct (act =? 2); intros x Hx; [exact Hx|destruct Hx].
    - destruct (Hnf eq_refl) as (_ & _ & -> & _). intros x Hx. destruct Hx. }
  split; [exact HK|]. split.
  - intros fuel w wn ty btn line col s' r Hl Hh Hrun.
    destruct (C14_mutation_mouse fuel claims s w wn h cls act tgt n0 ty btn line col s' r
                Ha Hfr Hpe Hfa Hho Hu Hf Hnr Hl Hh Hrun) as (H1 & H2 & H3 & Hnf & Hfi & _).
    split; [exact H1|]. split; [exact H2|]. split; [|exact H3].
    destruct (mouse_fired claims h cls ty wn line col) eqn:E.
    + destruct (Hfi eq_refl) as (_ & _ & ->). destruct (act =? 2); intros x Hx; [exact Hx|destruct Hx].
    + destruct (Hnf eq_refl) as (_ & _ & -> & _). intros x Hx. destruct Hx.
  - intros Hfo Hh. cbv zeta. unfold term_key.
    destruct (handle_key ifuel no_defects claims s (t_id (r_tree (i_root s)))) as [s' r] eqn:Hrun. cbn [fst].
    assert (Hl : look s (t_id (r_tree (i_root s))) = Some (r_tree (i_root s))).
    { unfold look. rewrite Hfr. cbn [mem existsb]. apply f_find_unique; [exact Hu|apply tree_subl]. }
    exact (HK ifuel _ _ s' r Hl Hfo Hh Hrun).
Qed.

(* ---- 2. the rest is still served ---- *)
Theorem C14_mutation_rest claims s h cls act tgt n0 :
  armed_start s h cls act tgt n0 -> i_log s = [] ->
  (* keys, nobody claims: as a multiset *)
  ((forall x, Z.testbit (claims x) 0 = false) ->
   forall fuel w wn s' r,
     look s w = Some wn -> focus_okb wn = true -> (height wn < fuel)%nat ->
     handle_key fuel no_defects claims s w = (s', r) ->
     c14_rest_set_checkb (t_ids n0) (key_spec claims wn) (rev (i_log s')) = true) /\
  (* one mouse phase, nobody claims that type: in order, hence as a multiset *)
  (forall ty, (forall x, Z.testbit (claims x) ty = false) ->
   forall fuel w wn btn line col s' r,
     look s w = Some wn -> (height wn < fuel)%nat ->
     handle_mouse fuel no_defects claims s w ty btn line col = (s', r) ->
     c14_rest_checkb (t_ids n0) (fst (mouse_phase claims (mouse_order wn line col) ty btn)) (rev (i_log s')) = true /\
     c14_rest_set_checkb (t_ids n0) (fst (mouse_phase claims (mouse_order wn line col) ty btn)) (rev (i_log s')) = true).
Proof.
  intros (Ha & Hfr & Hpe & Hfa & Hho & Hu & Hf & Hnr) HL. split.
  - intros Hnc fuel w wn s' r Hl Hfo Hh Hrun.
    destruct (C14_mutation_key fuel claims s w wn h cls act tgt n0 s' r Ha Hfr Hpe Hfa Hho Hu Hf Hnr Hl Hfo Hh Hrun)
      as (_ & _ & _ & _ & _ & D & _ & Hn).
    destruct (Hn Hnc) as (_ & _ & Hc). apply Hc. exact HL.
  - intros ty Hnc fuel w wn btn line col s' r Hl Hh Hrun.
    destruct (C14_mutation_mouse fuel claims s w wn h cls act tgt n0 ty btn line col s' r
                Ha Hfr Hpe Hfa Hho Hu Hf Hnr Hl Hh Hrun) as (_ & _ & _ & _ & _ & D & _ & Hn).
    destruct (Hn Hnc) as (_ & _ & Hc). apply Hc. exact HL.
Qed.

(* from the terminal *)
Corollary C14_mutation_rest_term_key claims t h act tgt n0 :
  NoDup (t_ids t) -> focus_okb t = true -> (height t < ifuel)%nat ->
  t_find tgt t = Some n0 -> tgt <> t_id t -> (forall x, Z.testbit (claims x) 0 = false) ->
  let s' := term_key no_defects claims (mk_state t [(h, (0, act, tgt))]) in
  i_fault s' = false /\ i_pending s' = [] /\ i_holds s' = [] /\ incl (i_freed s') [tgt] /\
  c14_rest_set_checkb (t_ids n0) (key_spec claims t) (rev (i_log s')) = true.
Proof.
  intros Hnd Hfo Hh Hf Hnr Hnc. cbv zeta.
  set (s := mk_state t [(h, (0, act, tgt))]).
  assert (Hu : ids_unique (i_root s)).
  { unfold ids_unique, forest_ids, forest. cbn [s mk_state mk_root i_root r_tree r_orphans flat_map]. rewrite app_nil_r. exact Hnd. }
  assert (Hst : armed_start s h 0 act tgt n0).
  { unfold armed_start. cbn [s mk_state i_armed i_freed i_pending i_fault i_holds mem existsb].
    repeat split; try reflexivity; assumption. }
  destruct (C14_mutation_no_crash claims s h 0 act tgt n0 Hst) as (_ & _ & Ht).
  destruct (Ht Hfo Hh) as (H1 & H2 & H3 & H4).
  split; [exact H1|]. split; [exact H2|]. split; [exact H4|]. split; [exact H3|].
  destruct (C14_mutation_rest claims s h 0 act tgt n0 Hst eq_refl) as (Hk & _).
  unfold term_key. destruct (handle_key ifuel no_defects claims s (t_id (r_tree (i_root s)))) as [s' r] eqn:Hrun. cbn [fst].
  assert (Hl : look s (t_id (r_tree (i_root s))) = Some t).
  { change (look s (t_id t)) with (f_find (mk_root t) (t_id t)).
    apply (f_find_unique (mk_root t) t Hu). apply (tree_subl (mk_root t)). }
  exact (Hk Hnc ifuel _ t s' r Hl Hfo Hh Hrun).
Qed.

(* ---- 3. the accounting of a destruction ---- *)
Lemma root_after_forest R act tgt n0 :
  ids_unique R -> t_find tgt (r_tree R) = Some n0 -> tgt <> t_id (r_tree R) ->
  r_tree (root_after R act tgt) = cut tgt (r_tree R) /\
  r_orphans (root_after R act tgt) =
    (if act =? 2 then t_kids n0 ++ r_orphans R else n0 :: r_orphans R).
Proof.
  intros Hu Hf Hnr. unfold root_after. destruct (R1_forest R tgt n0 Hu Hf Hnr) as (Ht & Ho).
  destruct (act =? 2).
  - split; [rewrite R2_tree; exact Ht|apply (R2_orphans R tgt n0 Hu Hf Hnr)].
  - split; assumption.
Qed.

(* the target is freed iff the mutation ran and destroys; then (and when it only closes) the
   tree has lost the subtree, which is kept aside: as one detached tree after a close, as the
   detached trees of its children after a destruction *)
Theorem C14_mutation_destroy claims s h cls act tgt n0 :
  armed_start s h cls act tgt n0 ->
  (forall fuel w wn s' r,
     look s w = Some wn -> focus_okb wn = true -> (height wn < fuel)%nat ->
     handle_key fuel no_defects claims s w = (s', r) ->
     (i_freed s' = [tgt] <-> key_fired claims h cls wn = true /\ act = 2) /\
     (key_fired claims h cls wn = true ->
        r_tree (i_root s') = cut tgt (r_tree (i_root s)) /\
        r_orphans (i_root s') = (if act =? 2 then t_kids n0 ++ r_orphans (i_root s) else n0 :: r_orphans (i_root s))) /\
     (key_fired claims h cls wn = false -> i_root s' = i_root s)) /\
  (forall fuel w wn ty btn line col s' r,
     look s w = Some wn -> (height wn < fuel)%nat ->
     handle_mouse fuel no_defects claims s w ty btn line col = (s', r) ->
     (i_freed s' = [tgt] <-> mouse_fired claims h cls ty wn line col = true /\ act = 2) /\
     (mouse_fired claims h cls ty wn line col = true ->
        r_tree (i_root s') = cut tgt (r_tree (i_root s)) /\
        r_orphans (i_root s') = (if act =? 2 then t_kids n0 ++ r_orphans (i_root s) else n0 :: r_orphans (i_root s))) /\
     (mouse_fired claims h cls ty wn line col = false -> i_root s' = i_root s)).
Proof.
  intros (Ha & Hfr & Hpe & Hfa & Hho & Hu & Hf & Hnr).
  assert (Hgen : forall (fired : bool) s',
     (fired = false -> i_root s' = i_root s /\ i_freed s' = []) ->
     (fired = true -> i_root s' = root_after (i_root s) act tgt /\ i_freed s' = (if act =? 2 then [tgt] else [])) ->
     (i_freed s' = [tgt] <-> fired = true /\ act = 2) /\
     (fired = true ->
        r_tree (i_root s') = cut tgt (r_tree (i_root s)) /\
        r_orphans (i_root s') = (if act =? 2 then t_kids n0 ++ r_orphans (i_root s) else n0 :: r_orphans (i_root s))) /\
     (fired = false -> i_root s' = i_root s)).
  { intros fired s' Hn Hy. destruct fired.
    - destruct (Hy eq_refl) as (Hr & Hfz). split.
      + rewrite Hfz. destruct (act =? 2) eqn:E; split.
        * intros _. split; [reflexivity|lia].
        * intros _. reflexivity.
        * intros Hx. discriminate Hx.
        * intros (_ & Hx). lia.
      + split; [|intros Hx; discriminate Hx]. intros _. rewrite Hr. apply root_after_forest; assumption.
    - destruct (Hn eq_refl) as (Hr & Hfz). split.
      + rewrite Hfz. split; [intros Hx; discriminate Hx|intros (Hx & _); discriminate Hx].
      + split; [intros Hx; discriminate Hx|intros _; exact Hr]. }
  split.
  - intros fuel w wn s' r Hl Hfo Hh Hrun.
    destruct (C14_mutation_key fuel claims s w wn h cls act tgt n0 s' r Ha Hfr Hpe Hfa Hho Hu Hf Hnr Hl Hfo Hh Hrun)
      as (_ & _ & _ & Hnf & Hfi & _).
    apply Hgen.
    + intros E. destruct (Hnf E) as (H1 & _ & H3 & _). split; assumption.
    + intros E. destruct (Hfi E) as (H1 & _ & H3). split; assumption.
  - intros fuel w wn ty btn line col s' r Hl Hh Hrun.
    destruct (C14_mutation_mouse fuel claims s w wn h cls act tgt n0 ty btn line col s' r
                Ha Hfr Hpe Hfa Hho Hu Hf Hnr Hl Hh Hrun) as (_ & _ & _ & Hnf & Hfi & _).
    apply Hgen.
    + intros E. destruct (Hnf E) as (H1 & _ & H3 & _). split; assumption.
    + intros E. destruct (Hfi E) as (H1 & _ & H3). split; assumption.
Qed.

(* ---- 1'. on_term_mouse: an invariant over every sequence of terminal mouse events ---- *)

Lemma sub_ids_eq t : WinDefs.sub_ids t = t_ids t.
Proof.
  (* the two are the same fixpoint *)
  destruct t; reflexivity.
Qed.

Lemma root_damage_dsrc st d : r_dsrc (root_damage st d) = r_dsrc st.
Proof.
  unfold root_damage. destruct (rs_contains (r_fuel st) (r_damage st) d) as [[|]|]; try reflexivity.
  destruct (rs_add (r_fuel st) (r_damage st) d); reflexivity.
Qed.

Lemma win_expose_dsrc st id ex : r_dsrc (win_expose st id ex) = r_dsrc st.
Proof.
  unfold win_expose. destruct (t_chain id (r_tree st)); [|reflexivity].
  destruct (expose_up l ex); [apply root_damage_dsrc|reflexivity].
Qed.

Lemma win_close_dsrc R w0 n0 :
  ids_unique R -> t_find w0 (r_tree R) = Some n0 -> w0 <> t_id (r_tree R) ->
  r_dsrc (win_close no_defects R w0) =
  match r_dsrc R with Some src => if mem src (t_ids n0) then None else Some src | None => None end.
Proof.
  intros Hu Hf Hnr.
  assert (Hndt : NoDup (t_ids (r_tree R))).
  { eapply NoDup_flat_in; [exact Hu|]. left. reflexivity. }
  destruct (t_find_sub _ _ _ Hf) as (Hsub0 & Hid0).
  assert (Hin : In w0 (t_ids (r_tree R))) by (rewrite <- Hid0; apply (sub_incl _ _ Hsub0), t_id_in).
  destruct (t_path_some w0 _ Hin) as (path & Hp).
  unfold win_close, t_chain. rewrite Hp.
  destruct (t_path_shape w0 _ _ Hp) as [(_ & Hid)|(n & p & r & Hrev & Hid & Hn & Hs)]; [congruence|].
  rewrite Hrev.
  assert (Hnn : n = n0).
  { assert (Hsn : sub n (r_tree R)) by (eapply sub_trans; [apply sub_kid1; exact Hn|exact Hs]).
    pose proof (t_find_unique _ _ Hndt Hsn) as Hx. rewrite Hid, Hf in Hx. inversion Hx. reflexivity. }
  subst n. cbv zeta.
  match goal with |- context [if ?c then win_expose ?s ?a ?b else ?s] =>
    assert (Hx : r_dsrc (if c then win_expose s a b else s) = r_dsrc s)
      by (destruct c; [apply win_expose_dsrc|reflexivity]);
    rewrite Hx
  end.
  match goal with |- r_dsrc (if ?c then request_restore ?s else ?s) = _ =>
    transitivity (r_dsrc s); [destruct c; reflexivity|]
  end.
  cbn [r_dsrc set_queue set_orphans set_tree d_drag_stale no_defects negb andb].
  destruct (r_dsrc R) as [src|] eqn:Ed; [|cbn [r_dsrc set_queue set_orphans set_tree]; exact Ed].
  rewrite sub_ids_eq. change (id_in src (t_ids n0)) with (mem src (t_ids n0)).
  destruct (mem src (t_ids n0)); [reflexivity|].
  cbn [r_dsrc set_queue set_orphans set_tree]. exact Ed.
Qed.

Lemma cut_keep tgt n0 t x :
  NoDup (t_ids t) -> sub n0 t -> t_id n0 = tgt -> t_id t <> tgt ->
  In x (t_ids t) -> ~ In x (t_ids n0) -> In x (t_ids (cut tgt t)).
Proof.
  intros Hnd Hs Hid Hne Hx Hn.
  pose proof (cut_perm tgt n0 Hid t Hnd Hs Hne) as Hp.
  apply (Permutation_in _ Hp) in Hx. apply in_app_or in Hx. destruct Hx as [Hx|Hx]; [exact Hx|contradiction].
Qed.

Lemma root_after_dsrc_ok R act tgt n0 :
  ids_unique R -> t_find tgt (r_tree R) = Some n0 -> tgt <> t_id (r_tree R) ->
  dsrc_ok R -> dsrc_ok (root_after R act tgt).
Proof.
  intros Hu Hf Hnr Hok. unfold dsrc_ok in *.
  destruct (root_after_forest R act tgt n0 Hu Hf Hnr) as (Ht & _). rewrite Ht.
  assert (Hd : r_dsrc (root_after R act tgt) = r_dsrc (R1 R tgt)).
  { unfold root_after. destruct (act =? 2); reflexivity. }
  rewrite Hd. unfold R1. rewrite (win_close_dsrc R tgt n0 Hu Hf Hnr).
  destruct (r_dsrc R) as [src|]; [|exact I].
  destruct (mem src (t_ids n0)) eqn:Em; [exact I|].
  destruct (t_find_sub _ _ _ Hf) as (Hsub0 & Hid0).
  apply (cut_keep tgt n0 (r_tree R) src); try assumption.
  - eapply NoDup_flat_in; [exact Hu|left; reflexivity].
  - intro He. apply Hnr. symmetry. exact He.
  - intro Hi. rewrite (mem_true_in _ _ Hi) in Em. discriminate Em.
Qed.

Section TermMouse.
  Variable claims : Z -> Z.
  Variable fuel : nat.
  Variables h cls act tgt : Z.
  Variable n0 : wtree.
  Variable H0 : list Z.
  Variable rid : Z.
  Hypothesis HH0 : mem tgt H0 = false.

  (* the mutation is still armed / it has run (or was never there) *)
  Definition armedI (s : istate) : Prop :=
    i_armed s = [(h, (cls, act, tgt))] /\ i_freed s = [] /\
    t_find tgt (r_tree (i_root s)) = Some n0 /\ tgt <> t_id (r_tree (i_root s)).
  Definition doneI (s : istate) : Prop :=
    i_armed s = [] /\ (forall x, In x (i_freed s) -> ~ In x (t_ids (r_tree (i_root s)))) /\
    incl (i_freed s) [tgt].

  (* what holds between the routing calls of on_term_mouse *)
  Definition TInv (s : istate) : Prop :=
    i_fault s = false /\ i_pending s = [] /\ i_holds s = H0 /\ ids_unique (i_root s) /\
    (height (r_tree (i_root s)) < fuel)%nat /\ dsrc_ok (i_root s) /\ t_id (r_tree (i_root s)) = rid /\
    (armedI s \/ doneI s).

  Lemma emode_H0 : emode act tgt H0 = if act =? 2 then Md else Mc.
  Proof. unfold emode. rewrite HH0. reflexivity. Qed.

  (* the state a routing call leaves when the mutation ran in it *)
  Lemma TInv_after R0 L :
    ids_unique R0 -> t_find tgt (r_tree R0) = Some n0 -> tgt <> t_id (r_tree R0) ->
    (height (r_tree R0) < fuel)%nat -> dsrc_ok R0 -> t_id (r_tree R0) = rid ->
    TInv (St R0 h cls act tgt (emode act tgt H0) H0 L).
  Proof.
    intros Hu Hf Hnr Hh Hok Hrid. rewrite emode_H0.
    destruct (root_after_forest R0 act tgt n0 Hu Hf Hnr) as (Ht & _).
    pose proof (root_after_dsrc_ok R0 act tgt n0 Hu Hf Hnr Hok) as Hok'.
    unfold root_after in Ht, Hok'. unfold TInv, doneI.
    destruct (act =? 2); cbn [St i_fault i_pending i_holds i_root i_armed i_freed rootm freedm pendm armm].
    - split; [reflexivity|]. split; [reflexivity|]. split; [reflexivity|].
      split; [apply (R2_unique R0 tgt n0 Hu Hf Hnr)|].
      split; [rewrite Ht; pose proof (height_cut tgt (r_tree R0)); lia|]. split; [exact Hok'|].
      split; [rewrite Ht, cut_id_eq; exact Hrid|]. right.
      split; [reflexivity|]. split; [|apply incl_refl].
      intros x [<-|[]] Hi. apply (R2_no_tgt R0 tgt n0 Hu Hf Hnr). unfold forest_ids, forest. cbn [flat_map].
      apply in_or_app. left. exact Hi.
    - split; [reflexivity|]. split; [reflexivity|]. split; [reflexivity|].
      split; [apply (R1_unique R0 tgt n0 Hu Hf Hnr)|].
      split; [rewrite Ht; pose proof (height_cut tgt (r_tree R0)); lia|]. split; [exact Hok'|].
      split; [rewrite Ht, cut_id_eq; exact Hrid|]. right.
      split; [reflexivity|]. split; [intros x []|intros x []].
  Qed.

  (* one routing call from a window of the tree keeps the invariant *)
  Lemma hm_inv s w ty btn line col :
    TInv s -> In w (t_ids (r_tree (i_root s))) ->
    TInv (fst (handle_mouse fuel no_defects claims s w ty btn line col)).
  Proof.
    intros (Hfa & Hpe & Hho & Hu & Hh & Hok & Hrid & Hmode) Hw.
    destruct (t_find_some w _ Hw) as (n & Hn). destruct (t_find_sub _ _ _ Hn) as (Hsub & Hid). subst w.
    assert (Hs : subl n (forest (i_root s))) by (exists (r_tree (i_root s)); split; [left; reflexivity|exact Hsub]).
    assert (Hhn : (height n < fuel)%nat) by (apply height_sub in Hsub; lia).
    destruct s as [R fr H pe ar L fa]. cbn [i_armed i_freed i_pending i_fault i_root i_log i_holds] in *. subst fa pe H.
    destruct Hmode as [(Ha & Hfr & Hf & Hnr)|(Ha & Hfr & Hinc)];
      cbn [i_armed i_freed i_root] in *; subst ar.
    - subst fr. change (mkI R [] H0 [] [(h, (cls, act, tgt))] L false) with (St R h cls act tgt M0 H0 L).
      pose proof (mut_mouse_gen claims R h cls act tgt n0 ty btn Hu Hf Hnr fuel n Hs Hhn line col H0 L) as Hres.
      destruct (mfires claims h cls ty (mouse_order n line col)).
      + destruct Hres as (D & r & -> & _). cbn [fst]. apply TInv_after; assumption.
      + rewrite Hres. cbn [fst]. unfold TInv.
        cbn [St i_fault i_pending i_holds i_root i_armed i_freed rootm freedm pendm armm].
        split; [reflexivity|]. split; [reflexivity|]. split; [reflexivity|]. split; [exact Hu|].
        split; [exact Hh|]. split; [exact Hok|]. split; [exact Hrid|]. left. repeat split; assumption.
    - change (mkI R fr H0 [] [] L false) with (Gs R fr [] H0 L).
      assert (Hcl : clean fr [] n).
      { intros x Hx. split; [|reflexivity]. apply mem_false_notin. intro Hi.
        apply (Hfr x Hi). apply (sub_incl _ _ Hsub). exact Hx. }
      rewrite (handle_mouse_Gs claims R fr [] ty btn Hu fuel n Hs Hhn Hcl line col H0 L). cbn [fst].
      unfold TInv, Gs. cbn [i_fault i_pending i_holds i_root i_armed i_freed].
      split; [reflexivity|]. split; [reflexivity|]. split; [reflexivity|]. split; [exact Hu|].
      split; [exact Hh|]. split; [exact Hok|]. split; [exact Hrid|]. right. repeat split; assumption.
  Qed.

  (* setting the drag fields, with a source that is a window of the tree *)
  Lemma set_drag_inv s d b l c src :
    TInv s -> (forall x, src = Some x -> In x (t_ids (r_tree (i_root s)))) ->
    TInv (i_set_root s (set_drag (i_root s) d b l c src)).
  Proof.
    intros (Hfa & Hpe & Hho & Hu & Hh & Hok & Hrid & Hmode) Hsrc.
    unfold TInv, i_set_root, armedI, doneI.
    cbn [i_fault i_pending i_holds i_root i_armed i_freed set_drag r_tree].
    split; [exact Hfa|]. split; [exact Hpe|]. split; [exact Hho|]. split; [exact Hu|]. split; [exact Hh|].
    split; [|split; [exact Hrid|exact Hmode]].
    unfold dsrc_ok. cbn [r_dsrc r_tree]. destruct src as [x|]; [apply Hsrc; reflexivity|exact I].
  Qed.

  Lemma to_source_inv s btn line col ty' :
    TInv s -> TInv (to_source fuel no_defects claims btn line col s ty').
  Proof.
    intros Hi. unfold to_source. pose proof Hi as (Hfa & Hpe & Hho & Hu & Hh & Hok & Hrid & Hmode).
    unfold dsrc_ok in Hok. destruct (r_dsrc (i_root s)) as [src|]; [|exact Hi].
    assert (Hfr : mem src (i_freed s) = false).
    { destruct Hmode as [(_ & Hfr & _)|(_ & Hfr & _)].
      - rewrite Hfr. reflexivity.
      - apply mem_false_notin. intro Hx. exact (Hfr src Hx Hok). }
    rewrite Hfr. destruct (t_path_some src _ Hok) as (p & Hp).
    unfold f_abs_origin, forest. cbn [first_some]. rewrite Hp.
    destruct (f_path_visible (i_root s) src); [|exact Hi].
    apply hm_inv; assumption.
  Qed.

  Lemma dsrc_in s x : TInv s -> r_dsrc (i_root s) = Some x -> In x (t_ids (r_tree (i_root s))).
  Proof. intros (_ & _ & _ & _ & _ & Hok & _) Hx. unfold dsrc_ok in Hok. rewrite Hx in Hok. exact Hok. Qed.

  Lemma root_in s : TInv s -> In rid (t_ids (r_tree (i_root s))).
  Proof. intros (_ & _ & _ & _ & _ & _ & <- & _). apply t_id_in. Qed.

  Lemma rid_eq s : TInv s -> t_id (r_tree (i_root s)) = rid.
  Proof. intros (_ & _ & _ & _ & _ & _ & Hr & _). exact Hr. Qed.

  Lemma tm_pre_inv s ty btn line col : TInv s -> TInv (tm_pre fuel no_defects claims s ty btn line col).
  Proof.
    intros Hi. unfold tm_pre. cbv zeta. rewrite (rid_eq s Hi).
    destruct (ty =? 1).
    { apply set_drag_inv; [exact Hi|]. intros x Hx. apply (dsrc_in s x Hi Hx). }
    destruct ((ty =? 2) && negb (r_dragging (i_root s))).
    { pose proof (hm_inv s rid 5 (r_lbtn (i_root s)) (r_lline (i_root s)) (r_lcol (i_root s)) Hi (root_in s Hi)) as Hi'.
      destruct (handle_mouse fuel no_defects claims s rid 5 (r_lbtn (i_root s)) (r_lline (i_root s)) (r_lcol (i_root s)))
        as [s' src]. cbn [fst] in Hi'.
      apply set_drag_inv; [exact Hi'|]. intros x Hx. unfold start_src in Hx.
      destruct src as [y|]; [|discriminate Hx]. cbn [d_drag_stale no_defects] in Hx.
      destruct (t_find y (r_tree (i_root s'))) as [ny|] eqn:Ey; [|discriminate Hx]. inversion Hx; subst y.
      destruct (t_find_sub _ _ _ Ey) as (Hsub & Hid). rewrite <- Hid. apply (sub_incl _ _ Hsub), t_id_in. }
    destruct ((ty =? 3) && r_dragging (i_root s)); [|exact Hi].
    pose proof (hm_inv s rid 7 btn line col Hi (root_in s Hi)) as Hi'.
    destruct (handle_mouse fuel no_defects claims s rid 7 btn line col) as [s' r']. cbn [fst] in Hi'.
    pose proof (to_source_inv s' btn line col 8 Hi') as Hi''.
    apply set_drag_inv; [exact Hi''|]. intros x Hx. apply (dsrc_in _ x Hi'' Hx).
  Qed.

  (* C14: on_term_mouse keeps the invariant -- in particular it never faults, leaves nothing
     pending, frees at most tgt and gives back every reference -- whatever the mutation,
     whichever routing call of the event it runs in *)
  Theorem term_mouse_inv s ty btn line col :
    TInv s -> TInv (term_mouse_f fuel no_defects claims s ty btn line col).
  Proof.
    intros Hi. unfold term_mouse_f. rewrite (rid_eq s Hi).
    pose proof (tm_pre_inv s ty btn line col Hi) as Hi1.
    pose proof (hm_inv _ rid ty btn line col Hi1 (root_in _ Hi1)) as Hi2.
    destruct (handle_mouse fuel no_defects claims (tm_pre fuel no_defects claims s ty btn line col) rid ty btn line col)
      as [s2 handled]. cbn [fst] in Hi2.
    unfold tm_post. destruct (_ && _); [apply to_source_inv|]; exact Hi2.
  Qed.

  Theorem run_term_mouse_inv evs : forall s, TInv s -> TInv (run_term_mouse fuel claims s evs).
  Proof.
    induction evs as [|[[[ty btn] line] col] evs IH]; intros s Hi; [exact Hi|].
    cbn [run_term_mouse]. apply IH. apply term_mouse_inv. exact Hi.
  Qed.
End TermMouse.

(* C14, on_term_mouse with one mutation armed: every sequence of terminal mouse events (press,
   drag, release, wheel, with the START / OUTSIDE / DROP / STOP deliveries they entail) ends
   without fault, with nothing pending, at most tgt freed and the references as they were *)
Theorem C14_mutation_term_mouse claims s h cls act tgt n0 evs :
  armed_start s h cls act tgt n0 -> dsrc_ok (i_root s) -> (height (r_tree (i_root s)) < ifuel)%nat ->
  let s' := run_term_mouse ifuel claims s evs in
  i_fault s' = false /\ i_pending s' = [] /\ incl (i_freed s') [tgt] /\ i_holds s' = i_holds s /\
  (forall ty btn line col,
     let s1 := term_mouse no_defects claims s ty btn line col in
     i_fault s1 = false /\ i_pending s1 = [] /\ incl (i_freed s1) [tgt] /\ i_holds s1 = i_holds s).
Proof.
  intros (Ha & Hfr & Hpe & Hfa & Hho & Hu & Hf & Hnr) Hok Hh.
  assert (Hi : TInv ifuel h cls act tgt n0 (i_holds s) (t_id (r_tree (i_root s))) s).
  { unfold TInv. split; [exact Hfa|]. split; [exact Hpe|]. split; [reflexivity|]. split; [exact Hu|].
    split; [exact Hh|]. split; [exact Hok|]. split; [reflexivity|]. left. repeat split; assumption. }
  assert (Hout : forall s', TInv ifuel h cls act tgt n0 (i_holds s) (t_id (r_tree (i_root s))) s' ->
            i_fault s' = false /\ i_pending s' = [] /\ incl (i_freed s') [tgt] /\ i_holds s' = i_holds s).
  { intros s' (H1 & H2 & H3 & _ & _ & _ & _ & Hm). split; [exact H1|]. split; [exact H2|]. split; [|exact H3].
    destruct Hm as [(_ & Hz & _)|(_ & _ & Hz)]; [rewrite Hz; intros x []|exact Hz]. }
  cbv zeta. split; [|split; [|split; [|split]]];
    try (apply (Hout _ (run_term_mouse_inv claims ifuel h cls act tgt n0 (i_holds s) _ Hho evs s Hi))).
  intros ty btn line col. rewrite <- term_mouse_f_ifuel.
  apply Hout. apply (term_mouse_inv claims ifuel h cls act tgt n0 (i_holds s) _ Hho s ty btn line col Hi).
Qed.

(* ---- 4. concrete runs ---- *)
Definition RR : rect := mkRect 0 0 10 10.
Definition nd (id : Z) (steal : bool) (fc : option Z) (vis : bool) (ch : list wtree) : wtree :=
  Node (mkW id RR vis steal false false fc 0 0 1 true (-1)) ch.

(* 14 windows: stealing first children (1, 11), a stealing second child (6), focus links
   (0 -> 2 -> 8, 12 -> 13), a stealing last child (4); every window covers the pointer *)
Definition T1 : wtree :=
  nd 0 false (Some 2) true
   [ nd 1 true None true [nd 5 false None true [nd 9 false None true []]; nd 6 true None true []];
     nd 2 false (Some 8) true [nd 7 false None true [nd 10 true None true []]; nd 8 false None true []];
     nd 3 false None true [nd 11 true None true []; nd 12 false (Some 13) true [nd 13 false None true []]];
     nd 4 true None true [] ].
(* a hidden subtree, a focus link to a stealing second child, two stealing siblings *)
Definition T2 : wtree :=
  nd 0 false None true
   [ nd 1 false (Some 6) true [nd 5 false None true [nd 9 false None true []]; nd 6 true None true [nd 14 false None true []]];
     nd 2 true (Some 7) true [nd 7 false None true [nd 10 true None true []]; nd 8 true None true []];
     nd 3 false None false [nd 11 true None true []];
     nd 4 true None true [nd 12 false None true []] ].
(* closing 20 makes the stealing window 21 the first child of 2 before 2 is entered *)
Definition T3 : wtree :=
  nd 0 false None true
   [ nd 1 false None true [];
     nd 2 false None true [nd 20 false None true []; nd 21 true None true []; nd 22 false None true []] ].

Definition subset (a b : list Z) : bool := forallb (fun x => mem x b) a.
Definition closed_ids (t : wtree) (tgt : Z) : list Z := match t_find tgt t with Some n => t_ids n | None => [] end.
Definition is_nil {A} (l : list A) : bool := match l with [] => true | _ => false end.

Definition key_check (t : wtree) (claims : Z -> Z) (strict : bool) (h act tgt : Z) : bool :=
  let s' := term_key no_defects claims (mk_state t [(h, (0, act, tgt))]) in
  negb (i_fault s') && is_nil (i_pending s') && subset (i_freed s') [tgt] && is_nil (i_holds s')
  && (negb strict || c14_rest_set_checkb (closed_ids t tgt) (key_spec claims t) (rev (i_log s'))).

Definition mouse_check (t : wtree) (claims : Z -> Z) (strict : bool) (h act tgt : Z) : bool :=
  let '(s', r) := handle_mouse ifuel no_defects claims (mk_state t [(h, (1, act, tgt))]) (t_id t) 1 1 3 3 in
  negb (i_fault s') && is_nil (i_pending s') && subset (i_freed s') [tgt] && is_nil (i_holds s')
  && (negb strict || c14_rest_checkb (closed_ids t tgt)
        (fst (mouse_phase claims (mouse_order t 3 3) 1 1)) (rev (i_log s'))).

(* press, drag, drag, release; the claimer also claims START *)
Definition seq_check (t : wtree) (claims : Z -> Z) (h act tgt : Z) : bool :=
  let s0 := mk_state t [(h, (1, act, tgt))] in
  let s4 := run_term_mouse ifuel claims s0 [(1, 1, 3, 3); (2, 1, 4, 4); (2, 1, 5, 5); (3, 1, 5, 5)] in
  negb (i_fault s4) && is_nil (i_pending s4) && subset (i_freed s4) [tgt] && is_nil (i_holds s4).

(* every handler window h, every target tgt, close and destroy; nobody claims (with the rest
   check) and every single claimer (crash check only) *)
Definition all_pairs (t : wtree) (chk : (Z -> Z) -> bool -> Z -> Z -> Z -> bool) (bit : Z) : bool :=
  forallb (fun h => forallb (fun tgt => forallb (fun act =>
     chk (fun _ => 0) true h act tgt &&
     forallb (fun cl => chk (fun x => if x =? cl then bit else 0) false h act tgt) (t_ids t))
     [1; 2]) (tl (t_ids t))) (t_ids t).

Example C14_mutation_exhaustive :
  all_pairs T1 (key_check T1) 1 = true /\ all_pairs T2 (key_check T2) 1 = true /\
  all_pairs T1 (mouse_check T1) 2 = true /\ all_pairs T2 (mouse_check T2) 2 = true /\
  all_pairs T1 (fun cl _ => seq_check T1 cl) 34 = true.
Proof.
  split; [vm_compute; reflexivity|]. split; [vm_compute; reflexivity|]. split; [vm_compute; reflexivity|].
  split; vm_compute; reflexivity.
Qed.

(* the shapes named in the task, on T1: (handler, target) *)
Definition shapes : list (Z * Z * Z) :=
  [ (7, 7, 0)      (* itself *)
  ; (10, 7, 0)     (* its parent, whose frame is active *)
  ; (10, 2, 0)     (* its grandparent, the focused child of the root *)
  ; (2, 3, 0)      (* the next sibling *)
  ; (3, 2, 0)      (* the previous sibling *)
  ; (2, 12, 0)     (* a descendant of a later sibling *)
  ; (0, 1, 0)      (* the stealing first child, from the parent's own handler *)
  ; (0, 5, 0)      (* the first child of 1: the stealing 6 becomes first *)
  ; (1, 2, 0)      (* the focused child, before the focus step *)
  ; (9, 1, 0)      (* an ancestor two levels up that steals *)
  ; (13, 3, 0) ].  (* a grandparent, from the focused grandchild *)

Example C14_mutation_shapes :
  forallb (fun p => match p with (h, tgt, _) =>
     key_check T1 (fun _ => 0) true h 1 tgt && key_check T1 (fun _ => 0) true h 2 tgt &&
     mouse_check T1 (fun _ => 0) true h 1 tgt && mouse_check T1 (fun _ => 0) true h 2 tgt end) shapes = true /\
  (* a destruction under an active frame: window 10 destroys its grandparent 2; everything is
     still delivered, 2 is freed when its frame ends, its children stay as detached trees *)
  (let s' := term_key no_defects (fun _ => 0) (mk_state T1 [(10, (0, 2, 2))]) in
   map iev_win (rev (i_log s')) = [1; 5; 9; 6; 8; 2; 10; 7; 0; 11; 3; 13; 12; 4] /\
   i_freed s' = [2] /\ map t_id (r_orphans (i_root s')) = [7; 8] /\ i_fault s' = false) /\
  (* the focused child destroyed before the focus step: its subtree gets nothing, the rest all *)
  (let s' := term_key no_defects (fun _ => 0) (mk_state T1 [(1, (0, 2, 2))]) in
   map iev_win (rev (i_log s')) = [1; 5; 9; 6; 0; 11; 3; 13; 12; 4] /\ i_fault s' = false) /\
  (* why a multiset: 1 closes 20, the stealing 21 becomes the first child of 2 and is asked
     before 2; every remaining window still exactly once *)
  (let s' := term_key no_defects (fun _ => 0) (mk_state T3 [(1, (0, 1, 20))]) in
   map iev_win (key_spec (fun _ => 0) T3) = [0; 1; 2; 20; 21; 22] /\
   map iev_win (rev (i_log s')) = [0; 1; 21; 2; 22] /\
   c14_rest_checkb [20] (key_spec (fun _ => 0) T3) (rev (i_log s')) = false /\
   c14_rest_set_checkb [20] (key_spec (fun _ => 0) T3) (rev (i_log s')) = true).
Proof. vm_compute. repeat split; reflexivity. Qed.
