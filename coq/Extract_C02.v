From Coq Require Extraction.
From Coq Require Import ExtrOcamlBasic.
From Tickit Require Import RectDefs WinRectSet WinDefs WinHist WinSpec WinReDefs WinReFlush WinSpecRe WinInput WinInputSpec.
Extraction "mC02.ml" step run m_init t_find app_scroll app_base
  pol_accept pol_refuse pol_mock pol_fullwidth pol_script no_defects
  compose owner c01_checkb c02_cells_checkb c02_rects_checkb cursor_spec c15_cursor_checkb outs_before_ins c15_focus_checkb focus_spec c01_pending_checkb step_re c02_exact_checkb c01_restack_checkb c02_within_pending_checkb c15_links_kept_checkb c15_show_checkb c15_hide_checkb step2 c02_rects_in_checkb c02_selfmove_checkb c02_hide_order_checkb run_acts win_set_geometry geom_exposes.
