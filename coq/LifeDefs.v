(* LifeDefs.v -- property C08: heap-level ownership model of the window tree and the
   restack queue of src/window.c (definitions only).

   A heap is a finite map from addresses to cells.  Every read or write of an address that
   is not allocated is a [Fault]: [UAF] for a freed address, [NullDeref] for NULL, [OOB] for
   reading the root-only part of a window that is not a root, [Abort] for the library's own
   abort().  Functions whose recursion is not structural take fuel and answer [NoFuel] when
   it runs out; [NoFuel] is never a normal-looking value.

   The functions follow the C statement by statement.  The code modelled is the REPAIRED
   window.c (fixes/C08-*.patch applied); the behaviour of the pinned code is kept as
   variants selected by a record of booleans, used only for the [_refuted] witnesses:
     v_destroy_asis   unref the child, then write child->parent        (defect #16)
     v_close_nopurge  close() leaves queued restack requests alone;
                      purge looks for the root with the aborting _get_root and only matches
                      requests naming the window itself                 (defect #17)
     v_root_keeps_q   the root's cleanup does not free its queue        (leak, #17)
     v_events_asis    sibling walks keep a raw [next]; drag source never forgotten, press
                      position never initialised, no reference held by on_term_mouse (#21, #27)
   All windows of a script have the same geometry, so every rectangle intersection in
   expose() is non-empty and the position of a mouse event is either inside every window
   or (before any press has been recorded) inside none. *)
From Coq Require Import ZArith List Bool PArith FMapPositive.
Import ListNotations.
Module PM := PositiveMap.
Local Open Scope Z_scope.

Definition ptr := option positive.
Definition ptr_eqb (a b : ptr) : bool :=
  match a, b with
  | None, None => true
  | Some x, Some y => Pos.eqb x y
  | _, _ => false
  end.

Inductive change := ChInsertFirst | ChInsertLast | ChRemove | ChRaise | ChRaiseFront | ChLower | ChLowerBack.
(* the requests tickit_window_raise / lower / raise_to_front / lower_to_back put into the queue *)
Definition is_restack (c : change) : bool :=
  match c with ChRaise | ChRaiseFront | ChLower | ChLowerBack => true | _ => false end.
Inductive mtype := MPress | MDrag | MRelease | MWheel | MDragStart | MDragOutside | MDragDrop | MDragStop.
Definition mtype_bit (t : mtype) : Z :=
  match t with
  | MPress => 0 | MDrag => 1 | MRelease => 2 | MWheel => 3
  | MDragStart => 4 | MDragOutside => 5 | MDragDrop => 6 | MDragStop => 7
  end.

(* API calls of a script; windows are named by their address = 1 + creation index *)
(* the events a handler can be bound to: TICKIT_WINDOW_ON_KEY, _MOUSE, _EXPOSE, _FOCUS, _GEOMCHANGE *)
(* HDestroy: a binding for TICKIT_WINDOW_ON_DESTROY.  The model records it but does NOT run it: what a DESTROY handler
   does is outside the model (scripts with such handlers are judged by the discipline on the observed trace only) *)
Inductive hkind := HKey | HMouse | HExpose | HFocus | HGeom | HDestroy.
Definition hkind_eqb (a b : hkind) : bool :=
  match a, b with
  | HKey, HKey | HMouse, HMouse | HExpose, HExpose | HFocus, HFocus | HGeom, HGeom | HDestroy, HDestroy => true
  | _, _ => false
  end.

Inductive op :=
| ONew (p : positive) (hidden lowest rootparent steal : bool)
| ORef (w : positive) | OUnref (w : positive) | OClose (w : positive)
| ORestack (c : change) (w : positive)
| OShow (w : positive) | OHide (w : positive) | OFocus (w : positive)
| OSteal (w : positive) (b : bool)
| OExpose (w : positive) | OGetRoot (w : positive) | OFlush (w : positive)
| OKey | OMouse (t : mtype)
| OBind (w : positive) (id : Z) (kind : hkind) (mask : Z) (ret : bool) (actions : list op)
| OUnbind (w : positive) (id : Z)          (* tickit_window_unbind_event_id of the handler bound as number [id] *)
| OGeom (w : positive)                     (* tickit_window_set_geometry to a different size: GEOMCHANGE runs on w *)
| OTouch (w : positive) (j : ptr) (walk : bool)   (* a call that only reads window [w] (and [j]): tickit_window_set_pen / get_pen;
                                                     with [walk]: tickit_window_scrollrect, which also walks from [w] to the root *)
| ONotify (w : positive) (b : bool)        (* tickit_window_set_focus_child_notify *)
| OMove (w : positive)                     (* tickit_window_reposition to a different place: GEOMCHANGE runs on w *)
| OResize                                  (* the terminal grows by a line: on_term_resize resizes the root (GEOMCHANGE)
                                              and exposes the new line; the harness then exposes the whole root *)
| ONop
(* not client calls: the reference a dispatch frame of the library takes on the window it works on, and its
   release.  The dispatch functions write them into the trace, so that a discipline can tell the client's
   references from the library's *)
| OFrameRef (w : positive) | OFrameUnref (w : positive).

Record handler := mkH { h_id : Z; h_kind : hkind; h_mask : Z; h_ret : bool; h_actions : list op }.
Definition h_is (k : hkind) (h : handler) : bool := hkind_eqb (h_kind h) k.

Record wcell := mkW {
  w_parent : ptr; w_first : ptr; w_next : ptr; w_focus : ptr;
  w_ref : Z;
  w_closed : bool; w_isroot : bool; w_visible : bool; w_steal : bool; w_focused : bool;
  w_hs : list handler;
  w_fcn : bool;        (* focus_child_notify *)
  w_dying : bool }.    (* is_destroying (fixes/C08-22): tickit_window_destroy has begun *)

Record qcell := mkQ { q_change : change; q_parent : ptr; q_win : ptr; q_next : ptr }.

(* the root-only part of TickitRootWindow; it lives and dies with the root window cell *)
Record rootx := mkR {
  r_queue : ptr;
  r_later : bool; r_expose : bool; r_restore : bool;
  r_dragging : bool;
  r_press : option bool;      (* None = never written; Some true = a press inside; Some false = (-1,-1) *)
  r_drag : option ptr }.      (* None = never written *)

Record heap := mkHeap {
  wins : PM.t wcell;
  reqs : PM.t qcell;
  rx : rootx;
  nextw : positive;
  nextq : positive;
  dlog : list positive;        (* windows destroyed so far, newest first *)
  uninit_seen : bool;
  tr : list op }.              (* client calls executed so far, newest first *)

Inductive fault := UAF | NullDeref | OOB | Abort.

Inductive res (A : Type) := Ok (a : A) (h : heap) | Fault (f : fault) (h : heap) | NoFuel.
Arguments Ok {A} _ _.
Arguments Fault {A} _ _.
Arguments NoFuel {A}.

Definition M (A : Type) := heap -> res A.
Definition ret {A} (a : A) : M A := fun h => Ok a h.
Definition bind {A B} (m : M A) (k : A -> M B) : M B :=
  fun h => match m h with
           | Ok a h' => k a h'
           | Fault f hf => Fault f hf
           | NoFuel => NoFuel
           end.
Definition fail {A} (f : fault) : M A := fun h => Fault f h.
Definition nofuel {A} : M A := fun _ => NoFuel.
Notation "x <- m ;; k" := (bind m (fun x => k)) (at level 61, m at next level, right associativity).
Notation "m ;;; k" := (bind m (fun _ => k)) (at level 61, right associativity).

(* [v_dh]: the DESTROY handlers of a window make calls (and then the is_destroying flag of fixes/C08-22 matters).  The
   theorems are about [fixed], where they do not; [fixedh] is what the driver compares with the library.  On histories
   without a DESTROY handler that makes calls the two coincide (tested by the driver on every such case). *)
Record variant := mkV { v_destroy_asis : bool; v_close_nopurge : bool; v_root_keeps_q : bool; v_events_asis : bool; v_dh : bool }.
Definition fixed : variant := mkV false false false false false.
Definition pinned : variant := mkV true true true true false.
Definition fixedh : variant := mkV false false false false true.

(* ---- primitive accesses ------------------------------------------------------------ *)
Definition getw (a : positive) : M wcell :=
  fun h => match PM.find a (wins h) with Some c => Ok c h | None => Fault UAF h end.
Definition setw (a : positive) (c : wcell) : M unit :=
  fun h => match PM.find a (wins h) with
           | Some _ => Ok tt (mkHeap (PM.add a c (wins h)) (reqs h) (rx h) (nextw h) (nextq h) (dlog h) (uninit_seen h) (tr h))
           | None => Fault UAF h
           end.
Definition deref (p : ptr) : M positive :=
  match p with Some a => ret a | None => fail NullDeref end.
Definition getq (a : positive) : M qcell :=
  fun h => match PM.find a (reqs h) with Some c => Ok c h | None => Fault UAF h end.
Definition setq (a : positive) (c : qcell) : M unit :=
  fun h => match PM.find a (reqs h) with
           | Some _ => Ok tt (mkHeap (wins h) (PM.add a c (reqs h)) (rx h) (nextw h) (nextq h) (dlog h) (uninit_seen h) (tr h))
           | None => Fault UAF h
           end.
Definition freew (a : positive) : M unit :=
  fun h => match PM.find a (wins h) with
           | Some _ => Ok tt (mkHeap (PM.remove a (wins h)) (reqs h) (rx h) (nextw h) (nextq h) (dlog h) (uninit_seen h) (tr h))
           | None => Fault UAF h
           end.
Definition freeq (a : positive) : M unit :=
  fun h => match PM.find a (reqs h) with
           | Some _ => Ok tt (mkHeap (wins h) (PM.remove a (reqs h)) (rx h) (nextw h) (nextq h) (dlog h) (uninit_seen h) (tr h))
           | None => Fault UAF h
           end.
Definition allocw (c : wcell) : M positive :=
  fun h => Ok (nextw h) (mkHeap (PM.add (nextw h) c (wins h)) (reqs h) (rx h) (Pos.succ (nextw h)) (nextq h) (dlog h) (uninit_seen h) (tr h)).
Definition allocq (c : qcell) : M positive :=
  fun h => Ok (nextq h) (mkHeap (wins h) (PM.add (nextq h) c (reqs h)) (rx h) (nextw h) (Pos.succ (nextq h)) (dlog h) (uninit_seen h) (tr h)).
Definition log_destroy (a : positive) : M unit :=
  fun h => Ok tt (mkHeap (wins h) (reqs h) (rx h) (nextw h) (nextq h) (a :: dlog h) (uninit_seen h) (tr h)).
Definition log_op (o : op) : M unit :=
  fun h => Ok tt (mkHeap (wins h) (reqs h) (rx h) (nextw h) (nextq h) (dlog h) (uninit_seen h) (o :: tr h)).
Definition note_uninit : M unit :=
  fun h => Ok tt (mkHeap (wins h) (reqs h) (rx h) (nextw h) (nextq h) (dlog h) true (tr h)).

(* the root-only fields, reached through the address of a window: WINDOW_AS_ROOT(win) *)
Definition getr (a : positive) : M rootx :=
  c <- getw a ;; if w_isroot c then (fun h => Ok (rx h) h) else fail OOB.
Definition setr (a : positive) (r : rootx) : M unit :=
  c <- getw a ;;
  if w_isroot c then (fun h => Ok tt (mkHeap (wins h) (reqs h) r (nextw h) (nextq h) (dlog h) (uninit_seen h) (tr h)))
  else fail OOB.

Definition set_parent (c : wcell) (p : ptr) := mkW p (w_first c) (w_next c) (w_focus c) (w_ref c) (w_closed c) (w_isroot c) (w_visible c) (w_steal c) (w_focused c) (w_hs c) (w_fcn c) (w_dying c).
Definition set_first (c : wcell) (p : ptr) := mkW (w_parent c) p (w_next c) (w_focus c) (w_ref c) (w_closed c) (w_isroot c) (w_visible c) (w_steal c) (w_focused c) (w_hs c) (w_fcn c) (w_dying c).
Definition set_next (c : wcell) (p : ptr) := mkW (w_parent c) (w_first c) p (w_focus c) (w_ref c) (w_closed c) (w_isroot c) (w_visible c) (w_steal c) (w_focused c) (w_hs c) (w_fcn c) (w_dying c).
Definition set_focus (c : wcell) (p : ptr) := mkW (w_parent c) (w_first c) (w_next c) p (w_ref c) (w_closed c) (w_isroot c) (w_visible c) (w_steal c) (w_focused c) (w_hs c) (w_fcn c) (w_dying c).
Definition set_ref (c : wcell) (n : Z) := mkW (w_parent c) (w_first c) (w_next c) (w_focus c) n (w_closed c) (w_isroot c) (w_visible c) (w_steal c) (w_focused c) (w_hs c) (w_fcn c) (w_dying c).
Definition set_closed (c : wcell) (b : bool) := mkW (w_parent c) (w_first c) (w_next c) (w_focus c) (w_ref c) b (w_isroot c) (w_visible c) (w_steal c) (w_focused c) (w_hs c) (w_fcn c) (w_dying c).
Definition set_visible (c : wcell) (b : bool) := mkW (w_parent c) (w_first c) (w_next c) (w_focus c) (w_ref c) (w_closed c) (w_isroot c) b (w_steal c) (w_focused c) (w_hs c) (w_fcn c) (w_dying c).
Definition set_steal (c : wcell) (b : bool) := mkW (w_parent c) (w_first c) (w_next c) (w_focus c) (w_ref c) (w_closed c) (w_isroot c) (w_visible c) b (w_focused c) (w_hs c) (w_fcn c) (w_dying c).
Definition set_focused (c : wcell) (b : bool) := mkW (w_parent c) (w_first c) (w_next c) (w_focus c) (w_ref c) (w_closed c) (w_isroot c) (w_visible c) (w_steal c) b (w_hs c) (w_fcn c) (w_dying c).
Definition set_hs (c : wcell) (l : list handler) := mkW (w_parent c) (w_first c) (w_next c) (w_focus c) (w_ref c) (w_closed c) (w_isroot c) (w_visible c) (w_steal c) (w_focused c) l (w_fcn c) (w_dying c).
Definition set_fcn (c : wcell) (b : bool) := mkW (w_parent c) (w_first c) (w_next c) (w_focus c) (w_ref c) (w_closed c) (w_isroot c) (w_visible c) (w_steal c) (w_focused c) (w_hs c) b (w_dying c).
Definition set_dying (c : wcell) (b : bool) := mkW (w_parent c) (w_first c) (w_next c) (w_focus c) (w_ref c) (w_closed c) (w_isroot c) (w_visible c) (w_steal c) (w_focused c) (w_hs c) (w_fcn c) b.

(* one field write = read the cell, write it back *)
Definition upd (a : positive) (f : wcell -> wcell) : M unit := c <- getw a ;; setw a (f c).

Definition set_rqueue (r : rootx) (p : ptr) := mkR p (r_later r) (r_expose r) (r_restore r) (r_dragging r) (r_press r) (r_drag r).
Definition set_rlater (r : rootx) (b : bool) := mkR (r_queue r) b (r_expose r) (r_restore r) (r_dragging r) (r_press r) (r_drag r).
Definition set_rexpose (r : rootx) (b : bool) := mkR (r_queue r) (r_later r) b (r_restore r) (r_dragging r) (r_press r) (r_drag r).
Definition set_rrestore (r : rootx) (b : bool) := mkR (r_queue r) (r_later r) (r_expose r) b (r_dragging r) (r_press r) (r_drag r).
Definition set_rdragging (r : rootx) (b : bool) := mkR (r_queue r) (r_later r) (r_expose r) (r_restore r) b (r_press r) (r_drag r).
Definition set_rpress (r : rootx) (b : option bool) := mkR (r_queue r) (r_later r) (r_expose r) (r_restore r) (r_dragging r) b (r_drag r).
Definition set_rdrag (r : rootx) (d : option ptr) := mkR (r_queue r) (r_later r) (r_expose r) (r_restore r) (r_dragging r) (r_press r) d.
Definition updr (a : positive) (f : rootx -> rootx) : M unit := r <- getr a ;; setr a (f r).

(* a pointer-to-pointer into a child chain: &parent->first_child or &sibling->next *)
Inductive slot := SFirst (p : positive) | SNext (a : positive).
Definition read_slot (s : slot) : M ptr :=
  match s with
  | SFirst p => c <- getw p ;; ret (w_first c)
  | SNext a => c <- getw a ;; ret (w_next c)
  end.
Definition write_slot (s : slot) (v : ptr) : M unit :=
  match s with
  | SFirst p => upd p (fun c => set_first c v)
  | SNext a => upd a (fun c => set_next c v)
  end.

(* ---- walks -------------------------------------------------------------------------- *)

(* _get_root: while(!win->is_root) { if(!win->parent) abort(); win = win->parent; } *)
Fixpoint get_root (fuel : nat) (a : positive) : M positive :=
  match fuel with
  | O => nofuel
  | S f =>
    c <- getw a ;;
    if w_isroot c then ret a
    else match w_parent c with
         | None => fail Abort
         | Some p => get_root f p
         end
  end.

(* while(top->parent) top = top->parent; *)
Fixpoint top_walk (fuel : nat) (a : positive) : M positive :=
  match fuel with
  | O => nofuel
  | S f =>
    c <- getw a ;;
    match w_parent c with
    | None => ret a
    | Some p => top_walk f p
    end
  end.

(* _is_within: for(; win; win = win->parent) if(win == ancestor) return true; return false; *)
Fixpoint is_within (fuel : nat) (w : ptr) (anc : positive) : M bool :=
  match fuel with
  | O => nofuel
  | S f =>
    match w with
    | None => ret false
    | Some a =>
      if Pos.eqb a anc then ret true
      else c <- getw a ;; is_within f (w_parent c) anc
    end
  end.

(* tickit_window_get_abs_geometry: geom = win->rect; for(win = win->parent; win; win = win->parent) ...  (reads) *)
Fixpoint abs_geometry_up (fuel : nat) (w : ptr) : M unit :=
  match fuel with
  | O => nofuel
  | S f =>
    match w with
    | None => ret tt
    | Some a => c <- getw a ;; abs_geometry_up f (w_parent c)
    end
  end.
Definition abs_geometry (fuel : nat) (a : positive) : M unit :=
  c <- getw a ;; abs_geometry_up fuel (w_parent c).

(* _request_later_processing (root->tickit is NULL for a window-level root) *)
Definition request_later (root : positive) : M unit := updr root (fun r => set_rlater r true).
Definition request_restore (root : positive) : M unit :=
  updr root (fun r => set_rrestore r true) ;;; request_later root.

(* _focus_chain_changed: while(win && !win->is_root) win = win->parent; if(win) _request_restore(WINDOW_AS_ROOT(win)) *)
Fixpoint focus_chain_changed (fuel : nat) (w : ptr) : M unit :=
  match fuel with
  | O => nofuel
  | S f =>
    match w with
    | None => ret tt
    | Some a => c <- getw a ;; if w_isroot c then request_restore a else focus_chain_changed f (w_parent c)
    end
  end.

(* tickit_window_expose(win, rect) with a rectangle that always intersects: the walk towards
   the root, then the root's damage set *)
Fixpoint expose (fuel : nat) (a : positive) : M unit :=
  match fuel with
  | O => nofuel
  | S f =>
    c <- getw a ;;
    if negb (w_visible c) then ret tt
    else if negb (w_isroot c) then
      match w_parent c with
      | None => ret tt                       (* "During cleanup at shutdown this might be empty already" *)
      | Some p => expose f p
      end
    else
      r <- getr a ;;
      if r_expose r then ret tt              (* tickit_rectset_contains(root->damage, &damaged) *)
      else setr a (set_rexpose r true) ;;; request_later a
  end.

(* _find_child: winp = &parent->first_child; while( *winp && *winp != win) winp = &( *winp)->next; *)
Fixpoint find_child_from (fuel : nat) (s : slot) (w : positive) : M slot :=
  match fuel with
  | O => nofuel
  | S f =>
    v <- read_slot s ;;
    match v with
    | None => ret s
    | Some a => if Pos.eqb a w then ret s else find_child_from f (SNext a) w
    end
  end.
Definition find_child (fuel : nat) (p w : positive) : M slot := find_child_from fuel (SFirst p) w.

Definition insert_first (p w : positive) : M unit :=
  cp <- getw p ;;
  upd w (fun c => set_next c (w_first cp)) ;;;
  upd p (fun c => set_first c (Some w)).

(* lastp = &parent->first_child; while( *lastp) lastp = &( *lastp)->next; *)
Fixpoint last_slot (fuel : nat) (s : slot) : M slot :=
  match fuel with
  | O => nofuel
  | S f =>
    v <- read_slot s ;;
    match v with
    | None => ret s
    | Some a => last_slot f (SNext a)
    end
  end.
Definition insert_last (fuel : nat) (p w : positive) : M unit :=
  s <- last_slot fuel (SFirst p) ;;
  write_slot s (Some w) ;;;
  upd w (fun c => set_next c None).

(* *winp = ( *winp)->next; win->next = NULL;   ("if(!winp) return" never fires) *)
Definition hremove (fuel : nat) (p w : positive) : M unit :=
  s <- find_child fuel p w ;;
  v <- read_slot s ;;
  a <- deref v ;;
  ca <- getw a ;;
  write_slot s (w_next ca) ;;;
  upd w (fun c => set_next c None).

(* prevp = &parent->first_child; if( *prevp == win) return;
   while( *prevp && ( *prevp)->next != win) prevp = &( *prevp)->next; *)
Fixpoint raise_slot (fuel : nat) (s : slot) (w : positive) : M slot :=
  match fuel with
  | O => nofuel
  | S f =>
    v <- read_slot s ;;
    match v with
    | None => ret s
    | Some a =>
      ca <- getw a ;;
      if ptr_eqb (w_next ca) (Some w) then ret s else raise_slot f (SNext a) w
    end
  end.
Definition hraise (fuel : nat) (p w : positive) : M unit :=
  cp <- getw p ;;
  if ptr_eqb (w_first cp) (Some w) then ret tt
  else
    s <- raise_slot fuel (SFirst p) w ;;
    cw <- getw w ;;
    let after := w_next cw in
    v <- read_slot s ;;
    upd w (fun c => set_next c v) ;;;              (* win->next = *prevp *)
    a <- deref v ;;
    upd a (fun c => set_next c after) ;;;          (* ( *prevp)->next = after *)
    write_slot s (Some w).                         (* *prevp = win *)

Definition hlower (fuel : nat) (p w : positive) : M unit :=
  s <- find_child fuel p w ;;
  cw <- getw w ;;
  match w_next cw with
  | None => ret tt
  | Some after =>
    ca <- getw after ;;
    upd w (fun c => set_next c (w_next ca)) ;;;    (* win->next = after->next *)
    write_slot s (Some after) ;;;                  (* *winp = after *)
    upd after (fun c => set_next c (Some w))       (* after->next = win *)
  end.

Definition do_change (fuel : nat) (ch : change) (p w : positive) : M unit :=
  match ch with
  | ChInsertFirst => insert_first p w
  | ChInsertLast => insert_last fuel p w
  | ChRemove =>
    hremove fuel p w ;;;
    upd w (fun c => set_parent c None) ;;;
    cp <- getw p ;;
    if ptr_eqb (w_focus cp) (Some w) then setw p (set_focus cp None) ;;; focus_chain_changed fuel (Some p) else ret tt
  | ChRaise => hraise fuel p w
  | ChRaiseFront => hremove fuel p w ;;; insert_first p w
  | ChLower => hlower fuel p w
  | ChLowerBack => hremove fuel p w ;;; insert_last fuel p w
  end ;;;
  cw <- getw w ;;
  if w_visible cw then expose fuel p else ret tt.

(* chain = root->hierarchy_changes; while(chain->next) chain = chain->next; *)
Fixpoint queue_last (fuel : nat) (q : positive) : M positive :=
  match fuel with
  | O => nofuel
  | S f =>
    c <- getq q ;;
    match q_next c with
    | None => ret q
    | Some n => queue_last f n
    end
  end.

Definition request_change (fuel : nat) (ch : change) (w : positive) : M unit :=
  cw <- getw w ;;
  match w_parent cw with
  | None => ret tt
  | Some p =>
    q <- allocq (mkQ ch (Some p) (Some w) None) ;;
    root <- get_root fuel w ;;
    r <- getr root ;;
    match r_queue r with
    | None => setr root (set_rqueue r (Some q)) ;;; request_later root
    | Some hd => l <- queue_last fuel hd ;; cl <- getq l ;; setq l (mkQ (q_change cl) (q_parent cl) (q_win cl) (Some q))
    end
  end.

(* the purge loop over HierarchyChange **changep; [sl] = None stands for &root->hierarchy_changes,
   Some q for &q->next *)
Definition read_qslot (root : positive) (sl : option positive) : M ptr :=
  match sl with
  | None => r <- getr root ;; ret (r_queue r)
  | Some q => c <- getq q ;; ret (q_next c)
  end.
Definition write_qslot (root : positive) (sl : option positive) (v : ptr) : M unit :=
  match sl with
  | None => updr root (fun r => set_rqueue r v)
  | Some q => c <- getq q ;; setq q (mkQ (q_change c) (q_parent c) (q_win c) v)
  end.

Section Variant.
Variable V : variant.

Fixpoint purge_loop (fuel : nat) (root : positive) (sl : option positive) (w : positive) : M unit :=
  match fuel with
  | O => nofuel
  | S f =>
    v <- read_qslot root sl ;;
    match v with
    | None => ret tt
    | Some q =>
      c <- getq q ;;
      hit <- (if v_close_nopurge V
              then ret (ptr_eqb (q_parent c) (Some w) || ptr_eqb (q_win c) (Some w))
              else is_within fuel (q_win c) w) ;;
      if hit then write_qslot root sl (q_next c) ;;; freeq q ;;; purge_loop f root sl w
      else purge_loop f root (Some q) w
    end
  end.

Definition purge (fuel : nat) (w : positive) : M unit :=
  if v_close_nopurge V then
    root <- get_root fuel w ;;
    purge_loop fuel root None w
  else
    top <- top_walk fuel w ;;
    ct <- getw top ;;
    if negb (w_isroot ct) then ret tt
    else
      r <- getr top ;;
      (match r_drag r with
       | Some (Some d) =>
         inside <- is_within fuel (Some d) w ;;
         if inside then setr top (set_rdrag r (Some None)) else ret tt
       | _ => ret tt
       end) ;;;
      purge_loop fuel top None w.

Definition close (fuel : nat) (w : positive) : M unit :=
  cw <- getw w ;;
  (match w_parent cw with
   | None => ret tt
   | Some p =>
     (if v_close_nopurge V then ret tt else purge fuel w) ;;;
     do_change fuel ChRemove p w
   end) ;;;
  upd w (fun c => set_closed c true).

(* while(root->hierarchy_changes) { req = ...; root->hierarchy_changes = req->next; free(req); } *)
Fixpoint free_queue (fuel : nat) (root : positive) : M unit :=
  match fuel with
  | O => nofuel
  | S f =>
    r <- getr root ;;
    match r_queue r with
    | None => ret tt
    | Some q => c <- getq q ;; setr root (set_rqueue r (q_next c)) ;;; freeq q ;;; free_queue f root
    end
  end.

Definition root_cleanup (fuel : nat) (w : positive) : M unit :=
  cw <- getw w ;;
  if w_isroot cw then (if v_root_keeps_q V then ret tt else free_queue fuel w) else ret tt.

(* tickit_window_new *)
Fixpoint root_parent_walk (fuel : nat) (p : positive) : M positive :=
  match fuel with
  | O => nofuel
  | S f =>
    c <- getw p ;;
    match w_parent c with
    | None => ret p
    | Some pp => root_parent_walk f pp
    end
  end.

Definition window_new (fuel : nat) (p : positive) (hidden lowest rootparent steal : bool) : M positive :=
  p' <- (if rootparent then root_parent_walk fuel p else ret p) ;;
  w <- allocw (mkW (Some p') None None None 1 false false true false false [] false false) ;;
  (if hidden then upd w (fun c => set_visible c false) else ret tt) ;;;
  (if steal then upd w (fun c => set_steal c true) else ret tt) ;;;
  do_change fuel (if lowest then ChInsertLast else ChInsertFirst) p' w ;;;
  ret w.

(* tickit_window_show / hide *)
Definition window_show (fuel : nat) (w : positive) : M unit :=
  upd w (fun c => set_visible c true) ;;;
  cw <- getw w ;;
  (match w_parent cw with
   | None => ret tt
   | Some p =>
     cp <- getw p ;;
     match w_focus cp with
     | None =>
       cw2 <- getw w ;;
       if (match w_focus cw2 with Some _ => true | None => false end) || w_focused cw2
       then upd p (fun c => set_focus c (Some w)) ;;; focus_chain_changed fuel (Some p) else ret tt
     | Some _ => ret tt
     end
   end) ;;;
  expose fuel w.

Definition window_hide (fuel : nat) (w : positive) : M unit :=
  upd w (fun c => set_visible c false) ;;;
  cw <- getw w ;;
  match w_parent cw with
  | None => ret tt
  | Some p =>
    cp <- getw p ;;
    (if ptr_eqb (w_focus cp) (Some w) then setw p (set_focus cp None) ;;; focus_chain_changed fuel (Some p) else ret tt) ;;;
    expose fuel p
  end.

(* flush: the read-only walks of _do_restore *)
(* _cell_visible(win, 0, 0) with every rectangle equal: a visible sibling in front hides the cell *)
Fixpoint cell_visible_kids (fuel : nat) (k : ptr) (prev : ptr) : M bool :=
  match fuel with
  | O => nofuel
  | S f =>
    match k with
    | None => ret true
    | Some a =>
      if ptr_eqb prev (Some a) then ret true
      else c <- getw a ;; if w_visible c then ret false else cell_visible_kids f (w_next c) prev
    end
  end.
Fixpoint cell_visible (fuel : nat) (w : ptr) (prev : ptr) : M bool :=
  match fuel with
  | O => nofuel
  | S f =>
    match w with
    | None => ret true
    | Some a =>
      c <- getw a ;;
      ok <- cell_visible_kids f (w_first c) prev ;;
      if ok then c2 <- getw a ;; cell_visible f (w_parent c2) (Some a) else ret false
    end
  end.

(* _do_restore: while(win) { if(!win->is_visible) break; if(!win->focused_child) break; win = win->focused_child; } *)
Fixpoint restore_walk (fuel : nat) (w : positive) : M positive :=
  match fuel with
  | O => nofuel
  | S f =>
    c <- getw w ;;
    if negb (w_visible c) then ret w
    else match w_focus c with
         | None => ret w
         | Some fc => restore_walk f fc
         end
  end.
Definition do_restore (fuel : nat) (root : positive) : M unit :=
  w <- restore_walk fuel root ;;
  c <- getw w ;;
  if w_focused c then
    vis <- cell_visible fuel (Some w) None ;;
    if vis then abs_geometry fuel w else ret tt
  else ret tt.

(* the queue application of tickit_window_flush *)
Fixpoint apply_queue (fuel : nat) (req : ptr) : M unit :=
  match fuel with
  | O => nofuel
  | S f =>
    match req with
    | None => ret tt
    | Some q =>
      c <- getq q ;;
      p <- deref (q_parent c) ;;
      w <- deref (q_win c) ;;
      do_change fuel (q_change c) p w ;;;
      c2 <- getq q ;;
      let next := q_next c2 in
      freeq q ;;;
      apply_queue f next
    end
  end.

(* tickit_window_flush, the part before the redraw: only the root is flushed, and only when something is pending;
   the queued restacking requests are applied.  Answers whether the flush goes on. *)
Definition flush_begin (fuel : nat) (w : positive) : M bool :=
  cw <- getw w ;;
  match w_parent cw with
  | Some _ => ret false
  | None =>
    r <- getr w ;;
    if negb (r_later r) then ret false
    else
      setr w (set_rlater r false) ;;;
      r1 <- getr w ;;
      (match r_queue r1 with
       | None => ret tt
       | Some _ => apply_queue fuel (r_queue r1) ;;; updr w (fun r => set_rqueue r None)
       end) ;;;
      ret true
  end.
(* ... and the part after it: the cursor *)
Definition flush_end (fuel : nat) (w : positive) : M unit :=
  r3 <- getr w ;;
  if r_restore r3 then setr w (set_rrestore r3 false) ;;; do_restore fuel w else ret tt.

(* _is_in_tree(tree, win): address comparison only *)
Fixpoint in_tree (fuel : nat) (t : positive) (w : positive) : M bool :=
  match fuel with
  | O => nofuel
  | S f =>
    if Pos.eqb t w then ret true
    else c <- getw t ;; in_tree_kids f (w_first c) w
  end
with in_tree_kids (fuel : nat) (k : ptr) (w : positive) : M bool :=
  match fuel with
  | O => nofuel
  | S f =>
    match k with
    | None => ret false
    | Some a =>
      b <- in_tree f a w ;;
      if b then ret true else c <- getw a ;; in_tree_kids f (w_next c) w
    end
  end.

(* _copy_children: count, then copy;  _is_child: address comparison along the current chain *)
Fixpoint children_list (fuel : nat) (k : ptr) : M (list positive) :=
  match fuel with
  | O => nofuel
  | S f =>
    match k with
    | None => ret []
    | Some a => c <- getw a ;; l <- children_list f (w_next c) ;; ret (a :: l)
    end
  end.
Definition copy_children (fuel : nat) (w : positive) : M (list positive) :=
  c <- getw w ;;
  _ <- children_list fuel (w_first c) ;;           (* tickit_window_children *)
  c2 <- getw w ;;
  children_list fuel (w_first c2).                 (* tickit_window_get_children *)
Fixpoint is_child_from (fuel : nat) (k : ptr) (child : positive) : M bool :=
  match fuel with
  | O => nofuel
  | S f =>
    match k with
    | None => ret false
    | Some a => if Pos.eqb a child then ret true else c <- getw a ;; is_child_from f (w_next c) child
    end
  end.
Definition is_child (fuel : nat) (w child : positive) : M bool :=
  c <- getw w ;; is_child_from fuel (w_first c) child.
Definition window_ref (w : positive) : M unit := upd w (fun c => set_ref c (w_ref c + 1)).

(* _handle_mouse_at: for(w = win->parent; w; w = w->parent) n++;  then the same walk again with
   held[i++] = tickit_window_ref(w);  afterwards for(i = 0; i < n; i++) tickit_window_unref(held[i])
   (ref_up and unref_list are part of the mutual definition below: they log their frame references) *)
Fixpoint count_up (fuel : nat) (w : ptr) : M unit :=
  match fuel with
  | O => nofuel
  | S f => match w with None => ret tt | Some a => c <- getw a ;; count_up f (w_parent c) end
  end.

(* tickit_window_scrollrect(win, the two top lines at full width, one line down, pen).  Every window of a script has
   its top-left corner at its parent's and is at least 3 lines high, so a visible window covers the scrolled
   rectangle entirely.
   _scroll: for(child = win->first_child; child; child = child->next) { if(!child->is_visible) continue; subtract }
   _scrollrectset: while(win) { if(!win->is_visible) return false; parent = win->parent; if(!parent) break;
     for(sib = parent->first_child; sib; sib = sib->next) { if(sib == win) break; if(!sib->is_visible) continue; subtract }
     win = parent; }
   then WINDOW_AS_ROOT(win); if anything is left of the rectangle: scroll the terminal, tickit_window_expose(origwin,
   the line that was scrolled in, or everything if the terminal could not scroll), _request_restore(root). *)
Fixpoint any_visible (fuel : nat) (k : ptr) : M bool :=
  match fuel with
  | O => nofuel
  | S f =>
    match k with
    | None => ret false
    | Some s => cs <- getw s ;; r <- any_visible f (w_next cs) ;; ret (w_visible cs || r)
    end
  end.
Fixpoint sib_walk (fuel : nat) (k : ptr) (a : positive) : M bool :=
  match fuel with
  | O => nofuel
  | S f =>
    match k with
    | None => ret false
    | Some s => if Pos.eqb s a then ret false else cs <- getw s ;; r <- sib_walk f (w_next cs) a ;; ret (w_visible cs || r)
    end
  end.
(* answers None if some window on the way is hidden, else the window at the top and whether the rectangle is covered *)
Fixpoint scroll_up (fuel : nat) (a : positive) (covered : bool) : M (option (positive * bool)) :=
  match fuel with
  | O => nofuel
  | S f =>
    c <- getw a ;;
    if negb (w_visible c) then ret None
    else match w_parent c with
         | None => getr a ;;; ret (Some (a, covered))
         | Some p => cp <- getw p ;; cov <- sib_walk f (w_first cp) a ;; scroll_up f p (covered || cov)
         end
  end.
Definition scrollrect (fuel : nat) (w : positive) : M unit :=
  c <- getw w ;;
  cov <- any_visible fuel (w_first c) ;;
  r <- scroll_up fuel w cov ;;
  match r with
  | Some (top, false) => expose fuel w ;;; request_restore top
  | _ => ret tt
  end.

Definition root_bound : M bool := fun h => Ok (PM.mem 1%positive (wins h)) h.

Definition handler_fires_mouse (h : handler) (t : mtype) : bool :=
  h_is HMouse h && Z.testbit (h_mask h) (mtype_bit t).

(* ---- the API calls of a script, the event dispatch and the handlers it runs ----------- *)
(* ---- DESTROY handlers ([v_dh]) ----
   A DESTROY handler is handed its window: the calls it makes ON THAT WINDOW -- other than on its reference count, closing
   it, creating windows below it, or binding -- are covered by the handler's contract, not by a reference of the client's.
   The harness makes them but keeps them out of the trace the discipline judges; so does the model. *)
Definition own_benign (w : positive) (o : op) : bool :=
  match o with
  | OShow x | OHide x | OFocus x | OExpose x | OGetRoot x | OGeom x | OMove x | OSteal x _ | ONotify x _ => Pos.eqb x w
  | OTouch x None false => Pos.eqb x w
  | _ => false
  end.
(* the entry that [m] wrote first is taken out of the trace again (what was written during the call stays) *)
Fixpoint drop_at (n : nat) (l : list op) : list op :=
  match n, l with
  | O, _ :: t => t
  | S n', x :: t => x :: drop_at n' t
  | _, [] => []
  end.
Definition untrace (before : nat) (h : heap) : heap :=
  mkHeap (wins h) (reqs h) (rx h) (nextw h) (nextq h) (dlog h) (uninit_seen h)
         (drop_at (length (tr h) - before - 1) (tr h)).
Definition quiet (m : M unit) : M unit :=
  fun h => match m h with
           | Ok u h' => Ok u (untrace (length (tr h)) h')
           | Fault x hf => Fault x (untrace (length (tr h)) hf)
           | NoFuel => NoFuel
           end.

Fixpoint run_op (fuel : nat) (o : op) {struct fuel} : M unit :=
  match fuel with
  | O => nofuel
  | S f =>
    (match o with ONop | OFrameRef _ | OFrameUnref _ => ret tt | _ => log_op o end) ;;;
    match o with
    | ONew p hid low rp st => window_new f p hid low rp st ;;; ret tt
    | ORef w => window_ref w
    | OUnref w => unref f w
    | OClose w => close f w
    | ORestack ch w => request_change f ch w
    | OShow w => window_show f w
    | OHide w => window_hide f w
    | OFocus w =>                                         (* tickit_window_take_focus: the ancestors are held *)
      if v_events_asis V then focus_gained f w None
      else
        cd <- getw w ;; count_up f (w_parent cd) ;;;
        cd' <- getw w ;; held <- ref_up f (w_parent cd') ;;
        focus_gained f w None ;;;
        unref_list f held
    | OSteal w b => upd w (fun c => set_steal c b)
    | OExpose w => expose f w
    | OGetRoot w => get_root f w ;;; ret tt
    | OFlush w => window_flush f w
    (* the terminal's KEY / MOUSE bindings of the root window exist exactly while it lives *)
    | OKey => b <- root_bound ;; if b then handle_key f 1%positive ;;; ret tt else ret tt     (* on_term_key *)
    | OMouse t => b <- root_bound ;; if b then on_term_mouse f t else ret tt
    | OBind w id k m r acts => upd w (fun c => set_hs c (w_hs c ++ [mkH id k m r acts]))
    | ONotify w b => upd w (fun c => set_fcn c b)
    | OUnbind w id => upd w (fun c => set_hs c (filter (fun hd => negb (h_id hd =? id)) (w_hs c)))
    | OGeom w => set_geometry f w
    | OMove w =>
      getw w ;;;
      if v_events_asis V then
        set_geometry f w ;;;
        c2 <- getw w ;; if w_focused c2 then root <- get_root f w ;; request_restore root else ret tt
      else                                                (* the ancestors and the window are held across the call *)
        cd <- getw w ;; count_up f (w_parent cd) ;;;
        cd' <- getw w ;; held <- ref_up f (w_parent cd') ;;
        ((log_op (OFrameRef w) ;;; window_ref w) ;;;
         (set_geometry f w ;;;
          (c2 <- getw w ;; if w_focused c2 then focus_chain_changed f (Some w) else ret tt)) ;;;
         (log_op (OFrameUnref w) ;;; unref f w)) ;;;
        unref_list f held
    (* the terminal's RESIZE binding of the root window exists exactly while it lives *)
    | OResize =>
      b <- root_bound ;; (if b then on_term_resize f else ret tt) ;;;
      b2 <- root_bound ;; if b2 then expose f 1%positive else ret tt
    | OTouch w j walk =>
      getw w ;;; (match j with Some a => getw a ;;; ret tt | None => ret tt end) ;;;
      if walk then scrollrect f w else ret tt
    | ONop => ret tt
    | OFrameRef _ | OFrameUnref _ => ret tt      (* not calls: in a script they do nothing and leave no trace *)
    end
  end
with run_ops (fuel : nat) (l : list op) {struct fuel} : M unit :=
  match fuel with
  | O => nofuel
  | S f =>
    match l with
    | [] => ret tt
    | o :: l' => run_op f o ;;; run_ops f l'
    end
  end
(* run_events_whilefalse over the bindings of one window (snapshot of the list at entry) *)
(* the walk over the bindings of window [w]: [hs] is the list as it was at entry; a binding that has
   been unbound meanwhile is a tombstone and is skipped *)
with run_key_handlers (fuel : nat) (w : positive) (hs : list handler) {struct fuel} : M bool :=
  match fuel with
  | O => nofuel
  | S f =>
    match hs with
    | [] => ret false
    | h :: hs' =>
      cw <- getw w ;;
      if h_is HKey h && existsb (fun hd => h_id hd =? h_id h) (w_hs cw)
      then run_ops f (h_actions h) ;;; (if h_ret h then ret true else run_key_handlers f w hs')
      else run_key_handlers f w hs'
    end
  end
with run_mouse_handlers (fuel : nat) (w : positive) (hs : list handler) (t : mtype) (unset : bool) {struct fuel} : M bool :=
  match fuel with
  | O => nofuel
  | S f =>
    match hs with
    | [] => ret false
    | h :: hs' =>
      cw <- getw w ;;
      if negb (h_is HMouse h) || negb (existsb (fun hd => h_id hd =? h_id h) (w_hs cw)) then run_mouse_handlers f w hs' t unset
      else
        (if unset then note_uninit else ret tt) ;;;
        if handler_fires_mouse h t
        then run_ops f (h_actions h) ;;; (if h_ret h then ret true else run_mouse_handlers f w hs' t unset)
        else run_mouse_handlers f w hs' t unset
    end
  end
(* run_events (not "whilefalse") of one of the other event kinds over the bindings of window [w]: every handler of
   the kind that is still bound runs; its return value is not looked at *)
with run_ev_handlers (fuel : nat) (w : positive) (hs : list handler) (k : hkind) {struct fuel} : M unit :=
  match fuel with
  | O => nofuel
  | S f =>
    match hs with
    | [] => ret tt
    | h :: hs' =>
      cw <- getw w ;;
      if h_is k h && existsb (fun hd => h_id hd =? h_id h) (w_hs cw)
      then run_ops f (h_actions h) ;;; run_ev_handlers f w hs' k
      else run_ev_handlers f w hs' k
    end
  end
(* tickit_window_set_geometry to a different rectangle: the ancestors are held, then the window itself *)
with set_geometry (fuel : nat) (w : positive) {struct fuel} : M unit :=
  match fuel with
  | O => nofuel
  | S f =>
    getw w ;;;
    if v_events_asis V then c <- getw w ;; run_ev_handlers f w (w_hs c) HGeom
    else
      cd <- getw w ;; count_up f (w_parent cd) ;;;
      cd' <- getw w ;; held <- ref_up f (w_parent cd') ;;
      ((log_op (OFrameRef w) ;;; window_ref w) ;;;
       (c <- getw w ;; run_ev_handlers f w (w_hs c) HGeom) ;;;
       (log_op (OFrameUnref w) ;;; unref f w)) ;;;
      unref_list f held
  end
(* on_term_resize with one line more: oldlines = win->rect.lines; tickit_window_resize; tickit_window_expose(the new line) *)
with on_term_resize (fuel : nat) {struct fuel} : M unit :=
  match fuel with
  | O => nofuel
  | S f =>
    let root := 1%positive in
    getw root ;;;
    ((if v_events_asis V then ret tt else log_op (OFrameRef root) ;;; window_ref root) ;;;
     (set_geometry f root ;;; expose f root) ;;;
     (if v_events_asis V then ret tt else log_op (OFrameUnref root) ;;; unref f root))
  end
(* _do_expose (every rectangle intersects): a reference on the window; the children from a copy of the list, each
   only while it still is a child; then the window's own EXPOSE handlers *)
with do_expose (fuel : nat) (w : positive) {struct fuel} : M unit :=
  match fuel with
  | O => nofuel
  | S f =>
    (if v_events_asis V then ret tt else log_op (OFrameRef w) ;;; window_ref w) ;;;
    ((if v_events_asis V then c <- getw w ;; expose_kids_asis f w (w_first c)
      else kids <- copy_children f w ;; expose_kids f w kids) ;;;
     (c <- getw w ;; run_ev_handlers f w (w_hs c) HExpose)) ;;;
    (if v_events_asis V then ret tt else log_op (OFrameUnref w) ;;; unref f w)
  end
with expose_kids (fuel : nat) (w : positive) (kids : list positive) {struct fuel} : M unit :=
  match fuel with
  | O => nofuel
  | S f =>
    match kids with
    | [] => ret tt
    | k :: kids' =>
      still <- is_child f w k ;;
      if negb still then expose_kids f w kids'
      else
        ck <- getw k ;;
        if negb (w_visible ck) then expose_kids f w kids'
        else do_expose f k ;;; (is_child f w k ;;; expose_kids f w kids')      (* the mask only if it still is a child *)
    end
  end
(* pinned: for(child = win->first_child; child; child = child->next) { if(!child->is_visible) continue; ...; mask(&child->rect); } *)
with expose_kids_asis (fuel : nat) (w : positive) (child : ptr) {struct fuel} : M unit :=
  match fuel with
  | O => nofuel
  | S f =>
    match child with
    | None => ret tt
    | Some k =>
      ck <- getw k ;;
      (if w_visible ck then do_expose f k ;;; getw k ;;; ret tt else ret tt) ;;;
      ck2 <- getw k ;;
      expose_kids_asis f w (w_next ck2)
    end
  end
(* _focus_lost *)
with focus_lost (fuel : nat) (w : positive) {struct fuel} : M unit :=
  match fuel with
  | O => nofuel
  | S f =>
    (if v_events_asis V then ret tt else log_op (OFrameRef w) ;;; window_ref w) ;;;
    ((c <- getw w ;;
      match w_focus c with
      | Some fc =>
        focus_lost f fc ;;;
        (c' <- getw w ;; if w_fcn c' then run_ev_handlers f w (w_hs c') HFocus else ret tt)
      | None => ret tt
      end) ;;;
     (c2 <- getw w ;;
      if w_focused c2 then setw w (set_focused c2 false) ;;; (c3 <- getw w ;; run_ev_handlers f w (w_hs c3) HFocus) else ret tt)) ;;;
    (if v_events_asis V then ret tt else log_op (OFrameUnref w) ;;; unref f w)
  end
(* _focus_gained *)
with focus_gained (fuel : nat) (w : positive) (child : ptr) {struct fuel} : M unit :=
  match fuel with
  | O => nofuel
  | S f =>
    (if v_events_asis V then ret tt else log_op (OFrameRef w) ;;; window_ref w) ;;;
    ((c <- getw w ;;
      match w_focus c with                         (* if(win->focused_child && win->focused_child != child) *)
      | Some fc =>
        if negb (ptr_eqb (Some fc) child) then
          focus_lost f fc ;;;
          (c' <- getw w ;; if w_fcn c' then run_ev_handlers f w (w_hs c') HFocus else ret tt)
        else ret tt
      | None => ret tt
      end) ;;;
     ((match child with                             (* if(child && win->is_focused) *)
       | Some _ =>
         c0 <- getw w ;;
         if w_focused c0 then setw w (set_focused c0 false) ;;; (c0' <- getw w ;; run_ev_handlers f w (w_hs c0') HFocus) else ret tt
       | None => ret tt
       end) ;;;
      ((c1 <- getw w ;;
        match w_parent c1 with
        | Some p => if w_visible c1 then focus_gained f p (Some w) else ret tt
        | None =>                                  (* not necessarily the root: a handler may have closed the window *)
          if v_events_asis V then root <- get_root f w ;; request_restore root else focus_chain_changed f (Some w)
        end) ;;;
       ((match child with
         | None => upd w (fun c => set_focused c true) ;;; (c4 <- getw w ;; run_ev_handlers f w (w_hs c4) HFocus)
         | Some _ => c4 <- getw w ;; if w_fcn c4 then run_ev_handlers f w (w_hs c4) HFocus else ret tt
         end) ;;;
        (* win->focused_child = (child && child->parent != win) ? NULL : child   (pinned: = child) *)
        (match child with
         | Some ch =>
           if v_events_asis V then upd w (fun c => set_focus c child)
           else cch <- getw ch ;; upd w (fun c => set_focus c (if ptr_eqb (w_parent cch) (Some w) then child else None))
         | None => upd w (fun c => set_focus c None)
         end))))) ;;;
    (if v_events_asis V then ret tt else log_op (OFrameUnref w) ;;; unref f w)
  end
(* tickit_window_flush *)
with window_flush (fuel : nat) (w : positive) {struct fuel} : M unit :=
  match fuel with
  | O => nofuel
  | S f =>
    go <- flush_begin f w ;;
    if go then
      (* the root is still used after the expose handlers have run: a reference on it *)
      (if v_events_asis V then ret tt else log_op (OFrameRef w) ;;; window_ref w) ;;;
      ((r2 <- getr w ;;
        if r_expose r2 then
          setr w (set_rexpose r2 false) ;;;
          (do_expose f w ;;;
           updr w (fun r => set_rrestore r true))
        else ret tt) ;;;
       flush_end f w) ;;;
      (if v_events_asis V then ret tt else log_op (OFrameUnref w) ;;; unref f w)
    else ret tt
  end
with handle_key (fuel : nat) (w : positive) {struct fuel} : M bool :=
  match fuel with
  | O => nofuel
  | S f =>
    c <- getw w ;;
    if negb (w_visible c) then ret false
    else
      log_op (OFrameRef w) ;;; window_ref w ;;;
      c1 <- getw w ;;
      rs <- (match w_first c1 with
             | Some fc =>
               cfc <- getw fc ;;
               if w_steal cfc then r <- handle_key f fc ;; ret (r, Some fc) else ret (false, None)
             | None => ret (false, None)
             end) ;;
      let r1 := fst rs in
      let stealer : ptr := if v_events_asis V then None else snd rs in   (* only compared, never dereferenced *)
      (if r1 then (log_op (OFrameUnref w) ;;; unref f w ;;; ret true)
       else
         c2 <- getw w ;;
         r2 <- (match w_focus c2 with
                | Some fc => if ptr_eqb (Some fc) stealer then ret false else handle_key f fc
                | None => ret false
                end) ;;
         if r2 then (log_op (OFrameUnref w) ;;; unref f w ;;; ret true)
         else
           c3 <- getw w ;;
           r3 <- run_key_handlers f w (w_hs c3) ;;
           if r3 then (log_op (OFrameUnref w) ;;; unref f w ;;; ret true)
           else if v_events_asis V then
             c4 <- getw w ;;
             r4 <- key_kids_asis f w (w_first c4) ;;
             log_op (OFrameUnref w) ;;; unref f w ;;; ret r4
           else
             kids <- copy_children f w ;;
             r4 <- key_kids f w stealer kids ;;
             log_op (OFrameUnref w) ;;; unref f w ;;; ret r4)
  end
with key_kids (fuel : nat) (w : positive) (stealer : ptr) (kids : list positive) {struct fuel} : M bool :=
  match fuel with
  | O => nofuel
  | S f =>
    match kids with
    | [] => ret false
    | k :: kids' =>
      still <- is_child f w k ;;
      if negb still then key_kids f w stealer kids'
      else
        cw <- getw w ;;
        if ptr_eqb (w_focus cw) (Some k) || ptr_eqb (Some k) stealer then key_kids f w stealer kids'
        else r <- handle_key f k ;; if r then ret true else key_kids f w stealer kids'
    end
  end
(* pinned: for(child = win->first_child; child; child = next) { next = child->next; ... } *)
with key_kids_asis (fuel : nat) (w : positive) (child : ptr) {struct fuel} : M bool :=
  match fuel with
  | O => nofuel
  | S f =>
    match child with
    | None => ret false
    | Some k =>
      ck <- getw k ;;
      let next := w_next ck in
      cw <- getw w ;;
      if ptr_eqb (w_focus cw) (Some k) then key_kids_asis f w next
      else r <- handle_key f k ;; if r then ret true else key_kids_asis f w next
    end
  end
(* _handle_mouse; [inside] = the event position lies inside the (common) window rectangle;
   [unset] = the position was read from fields that were never written *)
with handle_mouse (fuel : nat) (w : positive) (t : mtype) (inside unset : bool) {struct fuel} : M ptr :=
  match fuel with
  | O => nofuel
  | S f =>
    c <- getw w ;;
    if negb (w_visible c) then ret None
    else
      log_op (OFrameRef w) ;;; window_ref w ;;;
      if v_events_asis V then
        c1 <- getw w ;;
        r <- mouse_kids_asis f w (w_first c1) t inside unset ;;
        match r with
        | Some _ => log_op (OFrameUnref w) ;;; unref f w ;;; ret r
        | None =>
          c2 <- getw w ;;
          hr <- run_mouse_handlers f w (w_hs c2) t unset ;;
          log_op (OFrameUnref w) ;;; unref f w ;;; ret (if hr then Some w else None)
        end
      else
        kids <- copy_children f w ;;
        r <- mouse_kids f w kids t inside unset ;;
        match r with
        | Some _ => log_op (OFrameUnref w) ;;; unref f w ;;; ret r
        | None =>
          c2 <- getw w ;;
          hr <- run_mouse_handlers f w (w_hs c2) t unset ;;
          log_op (OFrameUnref w) ;;; unref f w ;;; ret (if hr then Some w else None)
        end
  end
with mouse_kids (fuel : nat) (w : positive) (kids : list positive) (t : mtype) (inside unset : bool) {struct fuel} : M ptr :=
  match fuel with
  | O => nofuel
  | S f =>
    match kids with
    | [] => ret None
    | k :: kids' =>
      still <- is_child f w k ;;
      if negb still then mouse_kids f w kids' t inside unset
      else
      ck <- getw k ;;
      if negb (w_steal ck) && negb inside then mouse_kids f w kids' t inside unset
      else r <- handle_mouse f k t inside unset ;;
           match r with Some _ => ret r | None => mouse_kids f w kids' t inside unset end
    end
  end
with mouse_kids_asis (fuel : nat) (w : positive) (child : ptr) (t : mtype) (inside unset : bool) {struct fuel} : M ptr :=
  match fuel with
  | O => nofuel
  | S f =>
    match child with
    | None => ret None
    | Some k =>
      ck <- getw k ;;
      let next := w_next ck in
      if negb (w_steal ck) && negb inside then mouse_kids_asis f w next t inside unset
      else r <- handle_mouse f k t inside unset ;;
           match r with Some _ => ret r | None => mouse_kids_asis f w next t inside unset end
    end
  end
with ref_up (fuel : nat) (w : ptr) {struct fuel} : M (list positive) :=
  match fuel with
  | O => nofuel
  | S f =>
    match w with
    | None => ret []
    | Some a => log_op (OFrameRef a) ;;; window_ref a ;;; c <- getw a ;; l <- ref_up f (w_parent c) ;; ret (a :: l)
    end
  end
with unref_list (fuel : nat) (l : list positive) {struct fuel} : M unit :=
  match fuel with
  | O => nofuel
  | S f =>
    match l with
    | [] => ret tt
    | a :: l' => log_op (OFrameUnref a) ;;; unref f a ;;; unref_list f l'
    end
  end
with on_term_mouse (fuel : nat) (t : mtype) {struct fuel} : M unit :=
  match fuel with
  | O => nofuel
  | S f =>
    let root := 1%positive in
    (if v_events_asis V then ret tt else log_op (OFrameRef root) ;;; window_ref root) ;;;
    r <- getr root ;;
    (match t with
     | MPress => setr root (set_rpress r (Some true))
     | MDrag =>
       if r_dragging r then ret tt
       else
         let inside := match r_press r with Some b => b | None => false end in
         let unset := match r_press r with Some _ => false | None => true end in
         src <- handle_mouse f root MDragStart inside unset ;;
         src' <- (match src with
                  | Some s => if v_events_asis V then ret src
                              else b <- in_tree f root s ;; ret (if b then src else None)
                  | None => ret None
                  end) ;;
         updr root (fun r => set_rdrag r (Some src')) ;;;
         updr root (fun r => set_rdragging r true)
     | MRelease =>
       if r_dragging r then
         handle_mouse f root MDragDrop true false ;;;
         r1 <- getr root ;;
         (match r_drag r1 with
          | Some (Some d) =>
            abs_geometry f d ;;;
            if v_events_asis V then handle_mouse f d MDragStop true false ;;; ret tt
            else                                                  (* _handle_mouse_at *)
              cd <- getw d ;; count_up f (w_parent cd) ;;;
              cd' <- getw d ;; held <- ref_up f (w_parent cd') ;;
              handle_mouse f d MDragStop true false ;;;
              unref_list f held
          | Some None => ret tt
          | None => note_uninit
          end) ;;;
         updr root (fun r => set_rdragging r false)
       else ret tt
     | _ => ret tt
     end) ;;;
    handled <- handle_mouse f root t true false ;;
    (match t with
     | MDrag =>
       r2 <- getr root ;;
       match r_drag r2 with
       | Some (Some d) =>
         if negb (ptr_eqb handled (Some d))
         then
           abs_geometry f d ;;;
           if v_events_asis V then handle_mouse f d MDragOutside true false ;;; ret tt
           else                                                   (* _handle_mouse_at *)
             cd <- getw d ;; count_up f (w_parent cd) ;;;
             cd' <- getw d ;; held <- ref_up f (w_parent cd') ;;
             handle_mouse f d MDragOutside true false ;;;
             unref_list f held
         else ret tt
       | _ => ret tt
       end
     | _ => ret tt
     end) ;;;
    (if v_events_asis V then ret tt else log_op (OFrameUnref root) ;;; unref f root)
  end
(* tickit_window_unref / tickit_window_destroy and its loop over the children *)
with unref (fuel : nat) (w : positive) {struct fuel} : M unit :=
  match fuel with
  | O => nofuel
  | S f =>
    c <- getw w ;;
    if w_ref c <? 1 then fail Abort
    else
      setw w (set_ref c (w_ref c - 1)) ;;;
      if w_ref c - 1 =? 0 then (if v_dh V && w_dying c then ret tt else destroy f w) else ret tt      (* && !win->is_destroying *)
  end
with destroy (fuel : nat) (w : positive) {struct fuel} : M unit :=
  match fuel with
  | O => nofuel
  | S f =>
    (* win->is_destroying = true; tickit_bindings_unbind_and_destroy: the DESTROY handlers, last bound first -- the
       harness's own DESTROY binding, which records the order, was bound first and runs last *)
    (if v_dh V then upd w (fun c => set_dying c true) ;;; destroy_handlers f w else ret tt) ;;;
    log_destroy w ;;;
    if v_destroy_asis V then
      cw <- getw w ;;
      destroy_loop_asis f (w_first cw) ;;;
      cw <- getw w ;;
      (match w_parent cw with None => ret tt | Some _ => purge f w end) ;;;
      cw <- getw w ;;
      (if w_closed cw then ret tt else close f w) ;;;
      root_cleanup f w ;;;
      freew w
    else
      cw <- getw w ;;
      (if w_closed cw then ret tt else close f w) ;;;
      root_cleanup f w ;;;                  (* repaired code: the root's queue goes before the children *)
      destroy_loop f w ;;;
      freew w
  end
(* while(bindings->first) { detach the LAST binding; free it; if it is to be told: fn(owner, UNBIND|DESTROY, ...) } *)
with destroy_handlers (fuel : nat) (w : positive) {struct fuel} : M unit :=
  match fuel with
  | O => nofuel
  | S f =>
    c <- getw w ;;
    match rev (w_hs c) with
    | [] => ret tt
    | hd :: before =>
      setw w (set_hs c (rev before)) ;;;
      (if h_is HDestroy hd then run_dops f w (h_actions hd) else ret tt) ;;;
      destroy_handlers f w
    end
  end
(* the calls of a DESTROY handler of window [w] *)
with run_dops (fuel : nat) (w : positive) (l : list op) {struct fuel} : M unit :=
  match fuel with
  | O => nofuel
  | S f =>
    match l with
    | [] => ret tt
    | o :: l' => (if own_benign w o then quiet (run_op f o) else run_op f o) ;;; run_dops f w l'
    end
  end
(* while(win->first_child) { child = win->first_child; win->first_child = child->next;
     child->parent = NULL; child->next = NULL; if(!child->is_destroying) tickit_window_unref(child); } *)
with destroy_loop (fuel : nat) (w : positive) {struct fuel} : M unit :=
  match fuel with
  | O => nofuel
  | S f =>
    cw <- getw w ;;
    match w_first cw with
    | None => ret tt
    | Some child =>
      cc <- getw child ;;
      setw w (set_first cw (w_next cc)) ;;;
      upd child (fun c => set_parent c None) ;;;
      upd child (fun c => set_next c None) ;;;
      (if v_dh V && w_dying cc then ret tt else unref f child) ;;;
      destroy_loop f w
    end
  end
(* pinned: for(child = win->first_child; child; ) { next = child->next; unref(child); child->parent = NULL; child = next; } *)
with destroy_loop_asis (fuel : nat) (child : ptr) {struct fuel} : M unit :=
  match fuel with
  | O => nofuel
  | S f =>
    match child with
    | None => ret tt
    | Some a =>
      ca <- getw a ;;
      let next := w_next ca in
      unref f a ;;;
      upd a (fun c => set_parent c None) ;;;
      destroy_loop_asis f next
    end
  end.


(* ---- whole scripts ------------------------------------------------------------------- *)
Inductive verdict := VOk (h : heap) | VFault (f : fault) (step : nat) (h : heap) | VNoFuel (step : nat).

Fixpoint run_script_from (fuel : nat) (l : list op) (step : nat) (h : heap) : verdict :=
  match l with
  | [] => VOk h
  | o :: l' =>
    match run_op fuel o h with
    | Ok _ h' => run_script_from fuel l' (S step) h'
    | Fault f hf => VFault f step hf
    | NoFuel => VNoFuel step
    end
  end.

End Variant.

(* the state after tickit_window_new_root: the root window at address 1, exposed once *)
Definition root_cell : wcell := mkW None None None None 1 false true true false false [] false false.
Definition heap0 (V : variant) : heap :=
  mkHeap (PM.add 1%positive root_cell (PM.empty wcell)) (PM.empty qcell)
         (mkR None true true false false
              (if v_events_asis V then None else Some false)
              (if v_events_asis V then None else Some None))
         2%positive 1%positive [] false [].

Definition run_script (V : variant) (fuel : nat) (l : list op) : verdict := run_script_from V fuel l O (heap0 V).

(* nothing remains allocated *)
Definition heap_empty (h : heap) : bool := PM.is_empty (wins h) && PM.is_empty (reqs h).

(* ---- observation of a final heap (what the harness dumps) ------------------------------ *)
Fixpoint chain_list (fuel : nat) (h : heap) (k : ptr) : list positive :=
  match fuel with
  | O => []
  | S f =>
    match k with
    | None => []
    | Some a => a :: match PM.find a (wins h) with Some c => chain_list f h (w_next c) | None => [] end
    end
  end.
Fixpoint queue_list (fuel : nat) (h : heap) (q : ptr) : list qcell :=
  match fuel with
  | O => []
  | S f =>
    match q with
    | None => []
    | Some a => match PM.find a (reqs h) with Some c => c :: queue_list f h (q_next c) | None => [] end
    end
  end.

(* ======================================================================================
   Copy-out into a caller buffer (renderbuffer.c get_span_text behind
   tickit_renderbuffer_get_cell_text / tickit_renderbuffer_get_span; mockterm.c
   tickit_mockterm_get_display_text).  The caller's buffer is a list of exactly [len]
   bytes; a write at an index that is not below [len] answers [None]: it went beyond the
   length given.  The text to copy (the bytes selected by the UTF-8 counting functions of
   property C07) is an input of the model.
   ====================================================================================== *)
Definition buf := list Z.
Fixpoint buf_set (b : buf) (i : nat) (v : Z) : option buf :=
  match b, i with
  | [], _ => None
  | _ :: t, O => Some (v :: t)
  | x :: t, S i' => match buf_set t i' v with Some t' => Some (x :: t') | None => None end
  end.
Fixpoint buf_copy (b : buf) (off : nat) (src : list Z) : option buf :=
  match src with
  | [] => Some b
  | x :: s' => match buf_set b off x with Some b' => buf_copy b' (S off) s' | None => None end
  end.

Inductive cellkind :=
| CText (slice : list Z)      (* TEXT span: the bytes between start and end *)
| CGlyph (bytes : list Z)     (* LINE / CHAR: tickit_utf8_put of one code point *)
| CEmpty.                     (* SKIP / ERASE *)

(* get_span_text(rb, span, offset, one_grapheme, buffer, len) with buffer != NULL;
   result: None = a write beyond the buffer, Some (return value, buffer afterwards) *)
Definition get_span_text (asis : bool) (k : cellkind) (b : buf) : option (Z * buf) :=
  let len := Z.of_nat (length b) in
  match k with
  | CText slice =>
    let bytes := Z.of_nat (length slice) in
    if len <? bytes then Some (-1, b)
    else
      match buf_copy b O slice with                     (* strncpy / memcpy of [bytes] bytes *)
      | None => None
      | Some b1 =>
        let after_case :=
          if asis then buf_set b1 (length slice) 0      (* pinned: buffer[bytes] = 0 inside the case *)
          else Some b1 in
        match after_case with
        | None => None
        | Some b2 =>
          if bytes <? len then                          (* if(buffer && len > bytes) buffer[bytes] = 0 *)
            match buf_set b2 (length slice) 0 with Some b3 => Some (bytes, b3) | None => None end
          else Some (bytes, b2)
        end
      end
  | CGlyph g =>
    let n := Z.of_nat (length g) in
    if len <? n then Some (-1, b)                       (* tickit_utf8_put: -1; (size_t)-1 is not below len *)
    else
      match buf_copy b O g with
      | None => None
      | Some b1 =>
        if n <? len then
          match buf_set b1 (length g) 0 with Some b2 => Some (n, b2) | None => None end
        else Some (n, b1)
      end
  | CEmpty =>
    if 0 <? len then
      match buf_set b O 0 with Some b1 => Some (0, b1) | None => None end
    else Some (0, b)
  end.

(* tickit_renderbuffer_get_span: returns len, stores the text length in info->len *)
Definition get_span_call (asis : bool) (k : cellkind) (b : buf) : option (Z * Z * buf) :=
  match get_span_text asis k b with
  | None => None
  | Some (r, b') => Some (Z.of_nat (length b), r, b')
  end.

(* tickit_mockterm_get_display_text as pinned (strcpy writes the cell's bytes and a NUL):
   [active] = buffer != NULL, [off] = how far buffer has advanced, [rem] = len *)
Fixpoint mock_get_text (cells : list (list Z)) (b : buf) (active : bool) (off : nat) (rem : Z) (acc : Z)
  : option (Z * buf) :=
  match cells with
  | [] => Some (acc, b)
  | cell :: rest =>
    let n := Z.of_nat (length cell) in
    if active && negb (n =? 0) && (n <=? rem) then
      match buf_copy b off (cell ++ [0]) with
      | None => None
      | Some b1 =>
        let rem' := rem - n in
        mock_get_text rest b1 (negb (rem' <=? 0)) (off + length cell) rem' (acc + n)
      end
    else mock_get_text rest b active off rem (acc + n)
  end.
Definition mock_display_text (cells : list (list Z)) (b : buf) : option (Z * buf) :=
  mock_get_text cells b true O (Z.of_nat (length b)) 0.

(* the trigger class of the recorded finding: some cell fills the remaining length exactly *)
Fixpoint mock_trigger (cells : list (list Z)) (rem : Z) : bool :=
  match cells with
  | [] => false
  | cell :: rest =>
    let n := Z.of_nat (length cell) in
    if negb (n =? 0) && (n <=? rem) then (n =? rem) || mock_trigger rest (rem - n)
    else mock_trigger rest rem
  end.

(* ======================================================================================
   Reference-counted objects that only hold references to one another (pens, strings,
   render buffers, terminals, the toplevel instance): a count and the objects whose
   references die with this one.
   ====================================================================================== *)
Record ocell := mkO { o_rc : Z; o_holds : list positive }.
Record oheap := mkOH { objs : PM.t ocell; nexto : positive }.
Inductive oop :=
| ObNew (adopt reads : list positive) (* constructor; takes over one reference to each object in [adopt], reads those in [reads] *)
| ObRef (i : positive)
| ObUnref (i : positive)
| ObUse (l : list positive).          (* any other call: reads the objects in [l] *)

Inductive ores := OOk (h : oheap) | OFault | ONoFuel.

Fixpoint o_unref (fuel : nat) (i : positive) (h : oheap) {struct fuel} : ores :=
  match fuel with
  | O => ONoFuel
  | S f =>
    match PM.find i (objs h) with
    | None => OFault
    | Some c =>
      if o_rc c - 1 =? 0 then o_unref_all f (o_holds c) (mkOH (PM.remove i (objs h)) (nexto h))
      else OOk (mkOH (PM.add i (mkO (o_rc c - 1) (o_holds c)) (objs h)) (nexto h))
    end
  end
with o_unref_all (fuel : nat) (l : list positive) (h : oheap) {struct fuel} : ores :=
  match fuel with
  | O => ONoFuel
  | S f =>
    match l with
    | [] => OOk h
    | i :: l' => match o_unref f i h with OOk h' => o_unref_all f l' h' | r => r end
    end
  end.

Definition o_live (h : oheap) (i : positive) : bool := PM.mem i (objs h).

Definition o_step (fuel : nat) (o : oop) (h : oheap) : ores :=
  match o with
  | ObNew adopt reads =>
    if forallb (o_live h) adopt && forallb (o_live h) reads
    then OOk (mkOH (PM.add (nexto h) (mkO 1 adopt) (objs h)) (Pos.succ (nexto h)))
    else OFault
  | ObRef i =>
    match PM.find i (objs h) with
    | Some c => OOk (mkOH (PM.add i (mkO (o_rc c + 1) (o_holds c)) (objs h)) (nexto h))
    | None => OFault
    end
  | ObUnref i => o_unref fuel i h
  | ObUse l => if forallb (o_live h) l then OOk h else OFault
  end.

Inductive overdict := OVOk (leak : bool) | OVFault (step : nat) | OVNoFuel (step : nat).
Fixpoint o_run_from (fuel : nat) (l : list oop) (step : nat) (h : oheap) : overdict :=
  match l with
  | [] => OVOk (negb (PM.is_empty (objs h)))
  | o :: l' =>
    match o_step fuel o h with
    | OOk h' => o_run_from fuel l' (S step) h'
    | OFault => OVFault step
    | ONoFuel => OVNoFuel step
    end
  end.
Definition o_run (fuel : nat) (l : list oop) : overdict := o_run_from fuel l O (mkOH (PM.empty ocell) 1%positive).
