(* WinFuelTotal.v -- total correctness of the window model with respect to the fuel of its
   rectangle-set loops: for every history (over the alphabet [fuel_alpha]: everything but the three
   scroll operations) whose operations meet their side conditions there EXISTS an amount of
   fuel -- and then every larger amount does too -- with which the run does not fault; hence
   the invariant MInv3 holds at the end and a final flush shows the composition. *)
From Coq Require Import ZArith List Bool Lia ZifyBool.
From Tickit Require Import RectDefs RectProofs WinRectSet WinRectSetProofs WinDefs WinSpec WinHist
  WinExposeProofs WinLogDisjoint WinFlushProofs WinScreenInv WinLocA WinLocTree WinPreserve WinTermResize
  WinHistory WinScrollRegion WinScrollInv WinHistoryFull WinFuelMono.
From Tickit Require RectSetDefs RectSetTerm RectSetTermSub RectSetQueries.
Import ListNotations.
Local Open Scope Z_scope.

(* ------------------------------------------------------------------------------------ *)
(* STEP 2, continued: the operations of the history alphabet commute with [with_fuel]    *)

Ltac wf_close Hf Hle :=
  match goal with
  | |- win_expose _ _ _ = with_fuel _ (win_expose ?S _ _) => exact (win_expose_wf S _ _ _ Hf Hle)
  | |- _ => reflexivity
  end.

Lemma win_new_wf st id pid r hidden lowest rootparent steal f' :
  r_fault (win_new st id pid r hidden lowest rootparent steal) = false -> (r_fuel st <= f')%nat ->
  win_new (with_fuel f' st) id pid r hidden lowest rootparent steal =
  with_fuel f' (win_new st id pid r hidden lowest rootparent steal).
Proof.
  intros Hf Hle. unfold win_new in *. cbn [r_tree with_fuel].
  destruct (t_chain pid (r_tree st)) as [chain|]; [|reflexivity].
  destruct rootparent; cbv beta iota zeta in *; (destruct (negb hidden); wf_close Hf Hle).
Qed.

Lemma win_close_wf cfg st id f' :
  r_fault (win_close cfg st id) = false -> (r_fuel st <= f')%nat ->
  win_close cfg (with_fuel f' st) id = with_fuel f' (win_close cfg st id).
Proof.
  intros Hf Hle. unfold win_close in *. cbn [r_tree with_fuel].
  destruct (t_chain id (r_tree st)) as [[|w [|p rest]]|]; try reflexivity. cbv zeta in *.
  cbn [r_dsrc r_queue r_orphans r_dragging r_lbtn r_lline r_lcol set_queue set_orphans set_tree with_fuel] in *.
  destruct (r_dsrc st) as [src|]; [destruct (negb (d_drag_stale cfg) && id_in src (sub_ids w))|];
    (destruct (opt_eqb (w_fchild (t_info p)) id && negb (d_chain_norestore cfg));
     destruct (w_vis (t_info w)); wf_close Hf Hle).
Qed.

Lemma win_show_wf cfg st id f' :
  r_fault (win_show cfg st id) = false -> (r_fuel st <= f')%nat ->
  win_show cfg (with_fuel f' st) id = with_fuel f' (win_show cfg st id).
Proof.
  intros Hf Hle. unfold win_show in *. cbn [r_tree with_fuel].
  destruct (t_chain id (r_tree st)) as [chain|]; [|reflexivity].
  destruct chain as [|w [|p rest]]; cbv beta iota zeta in *;
    repeat match goal with
           | |- context [if ?c then request_restore _ else _] => destruct c
           end; wf_close Hf Hle.
Qed.

Lemma win_hide_wf cfg st id f' :
  r_fault (win_hide cfg st id) = false -> (r_fuel st <= f')%nat ->
  win_hide cfg (with_fuel f' st) id = with_fuel f' (win_hide cfg st id).
Proof.
  intros Hf Hle. unfold win_hide in *. cbn [r_tree with_fuel].
  destruct (t_chain id (r_tree st)) as [chain|]; [|reflexivity].
  destruct chain as [|w [|p rest]]; cbv beta iota zeta in *; try reflexivity.
  destruct (opt_eqb (w_fchild (t_info p)) id && negb (d_chain_norestore cfg)); wf_close Hf Hle.
Qed.

Lemma win_restack_wf st k id f' :
  win_restack (with_fuel f' st) k id = with_fuel f' (win_restack st k id).
Proof.
  unfold win_restack. cbn [r_tree r_queue with_fuel].
  destruct (t_parent_id id (r_tree st)); [|reflexivity]. destruct (r_queue st); reflexivity.
Qed.

Lemma win_set_geometry_wf st id r f' :
  win_set_geometry (with_fuel f' st) id r = with_fuel f' (win_set_geometry st id r).
Proof. reflexivity. Qed.

Lemma win_reposition_wf st id t l f' :
  win_reposition (with_fuel f' st) id t l = with_fuel f' (win_reposition st id t l).
Proof.
  unfold win_reposition. cbn [r_tree with_fuel]. destruct (t_find id (r_tree st)) as [w|]; [|reflexivity].
  destruct (w_focused (t_info w)); reflexivity.
Qed.

Lemma win_resize_wf st id nl nc f' :
  win_resize (with_fuel f' st) id nl nc = with_fuel f' (win_resize st id nl nc).
Proof. unfold win_resize. cbn [r_tree with_fuel]. destruct (t_find id (r_tree st)); reflexivity. Qed.

Lemma win_reposition_fuel st id t l : r_fuel (win_reposition st id t l) = r_fuel st.
Proof.
  unfold win_reposition. destruct (t_find id (r_tree st)) as [w|]; [|reflexivity].
  destruct (w_focused (t_info w)); reflexivity.
Qed.

Lemma win_resize_fuel st id nl nc : r_fuel (win_resize st id nl nc) = r_fuel st.
Proof. unfold win_resize. destruct (t_find id (r_tree st)); reflexivity. Qed.

Lemma win_setctl_wf st id g restore f' :
  win_setctl (with_fuel f' st) id g restore = with_fuel f' (win_setctl st id g restore).
Proof.
  unfold win_setctl. cbn [r_tree with_fuel]. destruct (t_find id (r_tree st)) as [w|]; [|reflexivity].
  destruct (restore && w_focused (t_info w)); reflexivity.
Qed.

Lemma win_take_focus_wf cfg st id f' :
  win_take_focus cfg (with_fuel f' st) id =
  (with_fuel f' (fst (win_take_focus cfg st id)), snd (win_take_focus cfg st id)).
Proof.
  unfold win_take_focus. cbn [r_tree with_fuel]. destruct (t_chain id (r_tree st)) as [chain|]; [|reflexivity].
  destruct (focus_gained cfg (map t_id chain) None (r_tree st)) as [[tr ev] rs]. destruct rs; reflexivity.
Qed.

Lemma two_exposes_wf st y1 e1 y2 e2 f' :
  r_fault (win_expose (win_expose st y1 e1) y2 e2) = false -> (r_fuel st <= f')%nat ->
  win_expose (win_expose (with_fuel f' st) y1 e1) y2 e2 =
  with_fuel f' (win_expose (win_expose st y1 e1) y2 e2).
Proof.
  intros Hf Hle. pose proof (win_expose_fault _ _ _ Hf) as Hf1.
  rewrite (win_expose_wf st _ _ _ Hf1 Hle). apply win_expose_wf; [exact Hf|].
  rewrite win_expose_fuel. exact Hle.
Qed.

Lemma geom_exposes_wf st0 st1 id ex f' :
  r_fault (geom_exposes st0 st1 id ex) = false -> (r_fuel st1 <= f')%nat ->
  geom_exposes (with_fuel f' st0) (with_fuel f' st1) id ex = with_fuel f' (geom_exposes st0 st1 id ex).
Proof.
  intros Hf Hle. unfold geom_exposes, win_rect in *. cbn [r_tree with_fuel].
  destruct (negb ex); [reflexivity|].
  destruct (t_parent_id id (r_tree st0)) as [pid|]; [|reflexivity].
  destruct (t_find id (r_tree st0)) as [w0|]; [|reflexivity].
  destruct (t_find id (r_tree st1)) as [w1|]; [|reflexivity].
  apply two_exposes_wf; assumption.
Qed.

Lemma win_term_resize_wf st tm nl nc f' :
  r_fault (fst (win_term_resize st tm nl nc)) = false -> (r_fuel st <= f')%nat ->
  win_term_resize (with_fuel f' st) tm nl nc =
  (with_fuel f' (fst (win_term_resize st tm nl nc)), snd (win_term_resize st tm nl nc)).
Proof.
  intros Hf Hle. unfold win_term_resize in *. cbn [r_tree with_fuel].
  destruct ((t_lines tm =? nl) && (t_cols tm =? nc)); [reflexivity|]. cbv zeta in *. cbn [fst snd] in *.
  unfold root_selfrect in *. cbn [r_tree with_fuel] in *. rewrite win_resize_wf.
  assert (Hle1 : (r_fuel (win_resize st (t_id (r_tree st)) nl nc) <= f')%nat)
    by (rewrite win_resize_fuel; exact Hle).
  set (s1 := win_resize st (t_id (r_tree st)) nl nc) in *.
  f_equal. change (request_restore (with_fuel f' ?x)) with (with_fuel f' (request_restore x)).
  destruct (nl >? lines (selfrect (t_info (r_tree st)))); destruct (nc >? cols (selfrect (t_info (r_tree st))));
    cbn [request_restore r_fault set_flags] in Hf.
  - rewrite (two_exposes_wf s1 _ _ _ _ _ Hf Hle1). reflexivity.
  - rewrite (win_expose_wf s1 _ _ _ Hf Hle1). reflexivity.
  - rewrite (win_expose_wf s1 _ _ _ Hf Hle1). reflexivity.
  - reflexivity.
Qed.

(* ------------------------------------------------------------------------------------ *)
(* lifted to the model state                                                             *)

Definition m_with_fuel (f : nat) (m : mstate) : mstate := m_set_root m (with_fuel f (m_root m)).

(* the alphabet of this file: everything but the three scrolls *)
Definition fuel_alpha (o : op) : bool :=
  match o with
  | OScroll _ _ _ | OScrollRect _ _ _ _ | OScrollKids _ _ _ => false
  | _ => true
  end.

Lemma step_wf cfg progs o m f' :
  fuel_alpha o = true ->
  r_fault (m_root (step cfg progs o m)) = false -> (r_fuel (m_root m) <= f')%nat ->
  step cfg progs o (m_with_fuel f' m) = m_with_fuel f' (step cfg progs o m).
Proof.
  intros Ha Hf Hle. destruct m as [st tm app gen xl fe sr]. unfold m_with_fuel.
  destruct o; try discriminate Ha; cbn [step m_root m_term m_app m_gen m_xlog m_fevs m_srecs m_set_root] in *.
  - rewrite (win_new_wf _ _ _ _ _ _ _ _ _ Hf Hle). reflexivity.
  - rewrite (win_close_wf _ _ _ _ Hf Hle). reflexivity.
  - rewrite (win_show_wf _ _ _ _ Hf Hle). reflexivity.
  - rewrite (win_hide_wf _ _ _ _ Hf Hle). reflexivity.
  - rewrite win_restack_wf. reflexivity.
  - rewrite win_set_geometry_wf. rewrite (geom_exposes_wf _ _ _ _ _ Hf Hle). reflexivity.
  - rewrite win_reposition_wf. rewrite geom_exposes_wf; [reflexivity|exact Hf|].
    rewrite win_reposition_fuel. exact Hle.
  - rewrite win_resize_wf. rewrite geom_exposes_wf; [reflexivity|exact Hf|].
    rewrite win_resize_fuel. exact Hle.
  - rewrite (win_expose_wf _ _ _ _ Hf Hle). reflexivity.
  - assert (Hf' : r_fault (fst (fst (win_flush cfg (prog_handler app progs) st tm))) = false).
    { destruct (win_flush cfg (prog_handler app progs) st tm) as [[a b] c]. exact Hf. }
    rewrite (win_flush_wf _ _ _ _ _ Hf' Hle).
    destruct (win_flush cfg (prog_handler app progs) st tm) as [[a b] c]. reflexivity.
  - assert (Hf' : r_fault (fst (win_term_resize st tm nl nc)) = false).
    { destruct (win_term_resize st tm nl nc) as [a b]. exact Hf. }
    rewrite (win_term_resize_wf _ _ _ _ _ Hf' Hle).
    destruct (win_term_resize st tm nl nc) as [a b]. reflexivity.
  - rewrite win_take_focus_wf. destruct (win_take_focus cfg st id) as [a b]. reflexivity.
  - rewrite win_setctl_wf. reflexivity.
  - rewrite win_setctl_wf. reflexivity.
  - rewrite win_setctl_wf. reflexivity.
  - rewrite win_setctl_wf. reflexivity.
  - rewrite win_setctl_wf. reflexivity.
  - rewrite win_setctl_wf. reflexivity.
Qed.

(* ------------------------------------------------------------------------------------ *)
(* STEP 3: progress -- with enough fuel the operation does not fault                     *)

Lemma root_damage_ev st d :
  Inv (r_damage st) -> nonempty d -> r_fault st = false ->
  exists f0, forall f', (f0 <= f')%nat -> r_fault (root_damage (with_fuel f' st) d) = false.
Proof.
  intros Hi Hd Hf.
  destruct (RectSetTerm.rs_add_terminates (r_damage st) d Hi Hd) as [fa [s' Ea]].
  exists (Nat.max fa (S (Z.to_nat (lines d)))). intros f' Hle.
  unfold root_damage. cbn [r_fuel r_damage with_fuel].
  destruct (rs_contains f' (r_damage st) d) as [[|]|] eqn:Ec.
  - exact Hf.
  - assert (E : rs_add f' (r_damage st) d = Some s') by (apply (rs_add_mono fa); [exact Ea|lia]).
    rewrite E. exact Hf.
  - exfalso. revert Ec. apply RectSetQueries.rs_contains_terminates; [exact Hd|lia].
Qed.

Lemma expose_ev st y ex :
  Inv (r_damage st) -> r_fault st = false ->
  (ex = None -> forall w, t_chain y (r_tree st) = Some [w] -> nonempty (selfrect (t_info w))) ->
  exists f0, forall f', (f0 <= f')%nat -> r_fault (win_expose (with_fuel f' st) y ex) = false.
Proof.
  intros Hi Hf Hnone. unfold win_expose. cbn [r_tree with_fuel].
  destruct (t_chain y (r_tree st)) as [chain|] eqn:Ech; [|exists 0%nat; intros; exact Hf].
  destruct (expose_up chain ex) as [dd|] eqn:Eup; [|exists 0%nat; intros; exact Hf].
  apply root_damage_ev; [exact Hi| |exact Hf].
  rewrite expose_up_geo in Eup. apply (expose_up_g_nonempty _ _ _ Eup).
  intros He g Hg. destruct chain as [|w [|p rest]]; try discriminate.
  cbn [map] in Hg. injection Hg as <-.
  specialize (Hnone He w eq_refl). unfold nonempty, g_self, geo, selfrect in *.
  cbn [fst lines cols] in *. exact Hnone.
Qed.

Ltac ev_leaf Hi Hf :=
  match goal with
  | |- exists f0, r_fault (win_expose (@?X f0) ?y (Some ?r)) = false =>
      let f0 := fresh "f0" in let H0 := fresh "H0" in
      destruct (expose_ev (X 0%nat) y (Some r) Hi Hf ltac:(intros HH; discriminate HH)) as [f0 H0];
      exists f0; exact (H0 f0 (le_n _))
  | |- _ => exists 0%nat; exact Hf
  end.

Lemma win_new_ex st id pid r hidden lowest rootparent steal :
  Inv (r_damage st) -> r_fault st = false ->
  exists f0, r_fault (win_new (with_fuel f0 st) id pid r hidden lowest rootparent steal) = false.
Proof.
  intros Hi Hf. unfold win_new. cbn [r_tree with_fuel].
  destruct (t_chain pid (r_tree st)) as [chain|]; [|exists 0%nat; exact Hf].
  destruct rootparent; cbv beta iota zeta; (destruct (negb hidden); ev_leaf Hi Hf).
Qed.

Lemma win_close_ex cfg st id :
  Inv (r_damage st) -> r_fault st = false ->
  exists f0, r_fault (win_close cfg (with_fuel f0 st) id) = false.
Proof.
  intros Hi Hf. unfold win_close. cbn [r_tree with_fuel].
  destruct (t_chain id (r_tree st)) as [[|w [|p rest]]|]; try (exists 0%nat; exact Hf). cbv zeta.
  cbn [r_dsrc r_queue r_orphans r_dragging r_lbtn r_lline r_lcol set_queue set_orphans set_tree with_fuel].
  destruct (r_dsrc st) as [src|]; [destruct (negb (d_drag_stale cfg) && id_in src (sub_ids w))|];
    (destruct (opt_eqb (w_fchild (t_info p)) id && negb (d_chain_norestore cfg));
     destruct (w_vis (t_info w)); ev_leaf Hi Hf).
Qed.

Lemma win_hide_ex cfg st id :
  Inv (r_damage st) -> r_fault st = false ->
  exists f0, r_fault (win_hide cfg (with_fuel f0 st) id) = false.
Proof.
  intros Hi Hf. unfold win_hide. cbn [r_tree with_fuel].
  destruct (t_chain id (r_tree st)) as [chain|]; [|exists 0%nat; exact Hf].
  destruct chain as [|w [|p rest]]; cbv beta iota zeta; try (exists 0%nat; exact Hf).
  destruct (opt_eqb (w_fchild (t_info p)) id && negb (d_chain_norestore cfg)); ev_leaf Hi Hf.
Qed.

Lemma win_show_ex cfg st id :
  Inv (r_damage st) -> r_fault st = false -> id <> t_id (r_tree st) ->
  exists f0, r_fault (win_show cfg (with_fuel f0 st) id) = false.
Proof.
  intros Hi Hf Hroot. unfold win_show. cbn [r_tree with_fuel].
  destruct (t_chain id (r_tree st)) as [chain|]; [|exists 0%nat; exact Hf].
  assert (H : forall tr2 (b : bool), t_id tr2 = t_id (r_tree st) ->
            exists f0, r_fault (win_expose (if b then request_restore (set_tree (with_fuel f0 st) tr2)
                                            else set_tree (with_fuel f0 st) tr2) id None) = false).
  { intros tr2 b Hid.
    destruct (expose_ev (if b then request_restore (set_tree st tr2) else set_tree st tr2) id None) as [f0 H0].
    - rewrite r_damage_cond. exact Hi.
    - destruct b; exact Hf.
    - intros _ w Hw. exfalso. apply Hroot. rewrite r_tree_cond in Hw. cbn [r_tree set_tree] in Hw.
      destruct (chain_single _ _ _ Hw) as [_ E]. rewrite <- E. exact Hid.
    - exists f0. specialize (H0 f0 (le_n _)). destruct b; exact H0. }
  assert (K1 : keeps_id (fun j => set_vis j true)) by (intros i; reflexivity).
  destruct chain as [|w [|p rest]]; cbv beta iota zeta.
  - apply (H _ (false && negb (d_chain_norestore cfg))). apply update_t_id. exact K1.
  - apply (H _ (false && negb (d_chain_norestore cfg))). apply update_t_id. exact K1.
  - match goal with
    | |- context [if ?c then t_update ?g ?y ?t else ?t] => destruct c
    end.
    + apply H. rewrite !update_t_id; [reflexivity|exact K1|intros i; reflexivity].
    + apply H. apply update_t_id. exact K1.
Qed.

Lemma two_exposes_ex st y1 r1 y2 r2 :
  Inv (r_damage st) -> r_fault st = false ->
  exists f0, r_fault (win_expose (win_expose (with_fuel f0 st) y1 (Some r1)) y2 (Some r2)) = false.
Proof.
  intros Hi Hf.
  destruct (expose_ev st y1 (Some r1) Hi Hf ltac:(intros HH; discriminate HH)) as [f1 H1].
  pose proof (H1 f1 (le_n _)) as H1'.
  assert (Hi1 : Inv (r_damage (win_expose (with_fuel f1 st) y1 (Some r1))))
    by (apply dinv_expose_some; exact Hi).
  destruct (expose_ev _ y2 (Some r2) Hi1 H1' ltac:(intros HH; discriminate HH)) as [f2 H2].
  exists (Nat.max f1 f2).
  change (with_fuel (Nat.max f1 f2) st) with (with_fuel (Nat.max f1 f2) (with_fuel f1 st)).
  rewrite (win_expose_wf (with_fuel f1 st) y1 (Some r1) (Nat.max f1 f2) H1' (Nat.le_max_l _ _)).
  apply H2. apply Nat.le_max_r.
Qed.

Lemma geom_ex st0 st1 id ex :
  Inv (r_damage st1) -> r_fault st1 = false ->
  exists f0, r_fault (geom_exposes (with_fuel f0 st0) (with_fuel f0 st1) id ex) = false.
Proof.
  intros Hi Hf. unfold geom_exposes, win_rect. cbn [r_tree with_fuel].
  destruct (negb ex); [exists 0%nat; exact Hf|].
  destruct (t_parent_id id (r_tree st0)) as [pid|]; [|exists 0%nat; exact Hf].
  destruct (t_find id (r_tree st0)) as [w0|]; [|exists 0%nat; exact Hf].
  destruct (t_find id (r_tree st1)) as [w1|]; [|exists 0%nat; exact Hf].
  apply two_exposes_ex; assumption.
Qed.

Lemma win_resize_fault st id nl nc : r_fault (win_resize st id nl nc) = r_fault st.
Proof. unfold win_resize. destruct (t_find id (r_tree st)); reflexivity. Qed.

Lemma win_reposition_fault st id t l : r_fault (win_reposition st id t l) = r_fault st.
Proof.
  unfold win_reposition. destruct (t_find id (r_tree st)) as [w|]; [|reflexivity].
  destruct (w_focused (t_info w)); reflexivity.
Qed.

Lemma win_term_resize_ex st tm nl nc :
  Inv (r_damage st) -> r_fault st = false ->
  exists f0, r_fault (fst (win_term_resize (with_fuel f0 st) tm nl nc)) = false.
Proof.
  intros Hi Hf. unfold win_term_resize. cbn [r_tree with_fuel].
  destruct ((t_lines tm =? nl) && (t_cols tm =? nc)); [exists 0%nat; exact Hf|]. cbv zeta. cbn [fst].
  unfold root_selfrect. cbn [r_tree with_fuel].
  assert (Hi1 : Inv (r_damage (win_resize st (t_id (r_tree st)) nl nc))) by (rewrite dinv_resize; exact Hi).
  assert (Hf1 : r_fault (win_resize st (t_id (r_tree st)) nl nc) = false) by (rewrite win_resize_fault; exact Hf).
  set (s1 := win_resize st (t_id (r_tree st)) nl nc) in *.
  destruct (nl >? lines (selfrect (t_info (r_tree st)))); destruct (nc >? cols (selfrect (t_info (r_tree st)))).
  - destruct (two_exposes_ex s1 (t_id (r_tree st)) (mkRect (lines (selfrect (t_info (r_tree st)))) 0 (nl - lines (selfrect (t_info (r_tree st)))) nc)
               (t_id (r_tree st)) (mkRect 0 (cols (selfrect (t_info (r_tree st)))) (lines (selfrect (t_info (r_tree st)))) (nc - cols (selfrect (t_info (r_tree st))))) Hi1 Hf1) as [f0 H].
    exists f0. rewrite win_resize_wf. exact H.
  - destruct (expose_ev s1 (t_id (r_tree st)) (Some (mkRect (lines (selfrect (t_info (r_tree st)))) 0 (nl - lines (selfrect (t_info (r_tree st)))) nc)) Hi1 Hf1 ltac:(intros HH; discriminate HH)) as [f0 H].
    exists f0. rewrite win_resize_wf. exact (H f0 (le_n _)).
  - destruct (expose_ev s1 (t_id (r_tree st)) (Some (mkRect 0 (cols (selfrect (t_info (r_tree st)))) (lines (selfrect (t_info (r_tree st)))) (nc - cols (selfrect (t_info (r_tree st)))))) Hi1 Hf1 ltac:(intros HH; discriminate HH)) as [f0 H].
    exists f0. rewrite win_resize_wf. exact (H f0 (le_n _)).
  - exists 0%nat. rewrite win_resize_wf. exact Hf1.
Qed.

Lemma do_hchange_ex st k p w :
  Inv (r_damage st) -> r_fault st = false ->
  exists f0, r_fault (do_hchange (with_fuel f0 st) k p w) = false.
Proof.
  intros Hi Hf. unfold do_hchange. cbn [r_tree with_fuel].
  destruct (t_find w (r_tree st)) as [wn|]; [|exists 0%nat; exact Hf].
  destruct (w_vis (t_info wn)); ev_leaf Hi Hf.
Qed.

Lemma qfold_ex : forall q s, Inv (r_damage s) -> r_fault s = false ->
  exists f0, r_fault (fold_left qstep q (with_fuel f0 s)) = false.
Proof.
  induction q as [|e q IH]; intros s Hi Hf; [exists 0%nat; exact Hf|]. cbn [fold_left].
  destruct e as [[k p] w].
  destruct (do_hchange_ex s k p w Hi Hf) as [f1 H1].
  assert (Hi1 : Inv (r_damage (do_hchange (with_fuel f1 s) k p w))) by (apply dinv_hchange; exact Hi).
  destruct (IH _ Hi1 H1) as [f2 H2].
  exists (Nat.max f1 f2). unfold qstep at 2.
  change (with_fuel (Nat.max f1 f2) s) with (with_fuel (Nat.max f1 f2) (with_fuel f1 s)).
  rewrite (do_hchange_wf (with_fuel f1 s) k p w (Nat.max f1 f2) H1 (Nat.le_max_l _ _)).
  change (with_fuel (Nat.max f1 f2) (do_hchange (with_fuel f1 s) k p w))
    with (with_fuel (Nat.max f1 f2) (with_fuel f2 (do_hchange (with_fuel f1 s) k p w))).
  rewrite qfold_wf; [exact H2|exact H2|apply Nat.le_max_r].
Qed.

Lemma win_flush_ex cfg hnd st tm :
  Inv (r_damage st) -> r_fault st = false ->
  exists f0, r_fault (fst (fst (win_flush cfg hnd (with_fuel f0 st) tm))) = false.
Proof.
  intros Hi Hf. destruct (r_later st) eqn:Hl.
  2:{ exists 0%nat. unfold win_flush. cbn [r_later with_fuel]. rewrite Hl. exact Hf. }
  destruct (qfold_ex (r_queue st) (set_queue (set_flags st (r_nexp st) (r_nrest st) false) []) Hi Hf) as [f0 H].
  exists f0. rewrite (win_flush_fault_aq cfg hnd (with_fuel f0 st) tm Hl). rewrite after_queue_eq. exact H.
Qed.

Lemma step_ex progs o m :
  fuel_alpha o = true -> Inv (r_damage (m_root m)) -> r_fault (m_root m) = false ->
  step_side3 (m_root m) o ->
  exists f0, r_fault (m_root (step no_defects progs o (m_with_fuel f0 m))) = false.
Proof.
  intros Ha Hi Hf Hside. destruct m as [st tm app gen xl fe sr]. unfold m_with_fuel.
  destruct o; try discriminate Ha;
    cbn [step m_root m_term m_app m_gen m_xlog m_fevs m_srecs m_set_root step_side3 op_side3 op_side2 op_side] in *.
  - apply win_new_ex; assumption.
  - apply win_close_ex; assumption.
  - apply win_show_ex; assumption.
  - apply win_hide_ex; assumption.
  - exists 0%nat. rewrite win_restack_wf. unfold win_restack.
    destruct (t_parent_id id (r_tree st)); [|exact Hf]. destruct (r_queue st); exact Hf.
  - exact (geom_ex st (win_set_geometry st id r) id exposes Hi Hf).
  - destruct (geom_ex st (win_reposition st id t l) id exposes) as [f0 H].
    + rewrite dinv_reposition. exact Hi.
    + rewrite win_reposition_fault. exact Hf.
    + exists f0. rewrite win_reposition_wf. exact H.
  - destruct (geom_ex st (win_resize st id nl nc) id exposes) as [f0 H].
    + rewrite dinv_resize. exact Hi.
    + rewrite win_resize_fault. exact Hf.
    + exists f0. rewrite win_resize_wf. exact H.
  - destruct (expose_ev st id r Hi Hf) as [f0 H].
    + intros He w Hw. destruct (chain_single _ _ _ Hw) as [-> Hid].
      specialize (Hside He (eq_sym Hid)). unfold nonempty, selfrect in *. cbn [lines cols]. exact Hside.
    + exists f0. exact (H f0 (le_n _)).
  - destruct (win_flush_ex no_defects (prog_handler app progs) st tm Hi Hf) as [f0 H]. exists f0.
    destruct (win_flush no_defects (prog_handler app progs) (with_fuel f0 st) tm) as [[a b] c]. exact H.
  - destruct (win_term_resize_ex st tm nl nc Hi Hf) as [f0 H]. exists f0.
    destruct (win_term_resize (with_fuel f0 st) tm nl nc) as [a b]. exact H.
  - exists 0%nat. rewrite win_take_focus_wf.
    pose proof (dinv_take_focus no_defects st id) as _.
    unfold win_take_focus. destruct (t_chain id (r_tree st)) as [chain|]; [|exact Hf].
    destruct (focus_gained no_defects (map t_id chain) None (r_tree st)) as [[tr ev] rs]. destruct rs; exact Hf.
  - exists 0%nat. rewrite win_setctl_wf. unfold win_setctl. destruct (t_find id (r_tree st)) as [w|]; [|exact Hf].
    destruct (true && w_focused (t_info w)); exact Hf.
  - exists 0%nat. rewrite win_setctl_wf. unfold win_setctl. destruct (t_find id (r_tree st)) as [w|]; [|exact Hf].
    destruct (true && w_focused (t_info w)); exact Hf.
  - exists 0%nat. rewrite win_setctl_wf. unfold win_setctl. destruct (t_find id (r_tree st)) as [w|]; [|exact Hf].
    destruct (true && w_focused (t_info w)); exact Hf.
  - exists 0%nat. rewrite win_setctl_wf. unfold win_setctl. destruct (t_find id (r_tree st)) as [w|]; [|exact Hf].
    destruct (true && w_focused (t_info w)); exact Hf.
  - exists 0%nat. rewrite win_setctl_wf. unfold win_setctl. destruct (t_find id (r_tree st)) as [w|]; [|exact Hf].
    destruct (false && w_focused (t_info w)); exact Hf.
  - exists 0%nat. rewrite win_setctl_wf. unfold win_setctl. destruct (t_find id (r_tree st)) as [w|]; [|exact Hf].
    destruct (false && w_focused (t_info w)); exact Hf.
Qed.

(* ------------------------------------------------------------------------------------ *)
(* STEP 4: the theorem                                                                   *)

(* The side conditions of the operations (step_side3: fresh ids for new windows, no show / hide /
   geometry change of the root, geometry changes with their exposes, positive terminal sizes, a
   non-empty root for an expose of the whole root), stated along the run: the operation [o] at
   position [pre] meets its side condition in the state reached by [pre], for ANY amount of fuel
   with which [pre] runs without a fault.  (The side conditions read only the window tree, which
   by [step_wf] is the same for every such amount.) *)
Definition sides_along (progs : Z -> list dop) (ops : list op) (nl nc : Z)
  (orc : nat -> Z -> Z -> rect -> Z -> Z -> bool) : Prop :=
  forall fuel pre o post, ops = pre ++ o :: post ->
    r_fault (m_root (run no_defects progs pre (m_init_f fuel nl nc orc))) = false ->
    step_side3 (m_root (run no_defects progs pre (m_init_f fuel nl nc orc))) o.

Lemma init_ev nl nc orc : 0 < nl -> 0 < nc ->
  exists f0, forall f, (f0 <= f)%nat ->
    r_fault (m_root (m_init_f f nl nc orc)) = false /\
    m_init_f f nl nc orc = m_with_fuel f (m_init_f f0 nl nc orc).
Proof.
  intros Hl Hc.
  destruct (expose_ev (root_new_f 0 nl nc) 0 None inv_nil eq_refl) as [f0 H].
  { intros _ w Hw.
    assert (Hch : t_chain 0 (r_tree (root_new_f 0 nl nc)) = Some [r_tree (root_new_f 0 nl nc)]) by reflexivity.
    rewrite Hch in Hw. injection Hw as <-. unfold nonempty; cbn. lia. }
  exists f0. intros f Hle. split; [exact (H f Hle)|].
  unfold m_init_f, m_with_fuel, m_set_root. cbn [m_root m_term m_app m_gen m_xlog m_fevs m_srecs].
  f_equal. exact (win_expose_wf (root_new_f f0 nl nc) 0 None f (H f0 (le_n _)) Hle).
Qed.

Lemma run_snoc cfg progs ops o m : run cfg progs (ops ++ [o]) m = step cfg progs o (run cfg progs ops m).
Proof. unfold run. rewrite fold_left_app. reflexivity. Qed.

Theorem history_total_ev progs nl nc orc :
  (forall id, progs id = [DPaint]) -> 0 < nl -> 0 < nc ->
  forall ops, forallb fuel_alpha ops = true -> sides_along progs ops nl nc orc ->
  exists f0, forall f, (f0 <= f)%nat ->
    r_fault (m_root (run no_defects progs ops (m_init_f f nl nc orc))) = false /\
    MInv3 (run no_defects progs ops (m_init_f f nl nc orc)) /\
    run no_defects progs ops (m_init_f f nl nc orc) =
    m_with_fuel f (run no_defects progs ops (m_init_f f0 nl nc orc)).
Proof.
  intros Hp Hl Hc. induction ops as [|o ops IH] using rev_ind; intros Ha Hs.
  - destruct (init_ev nl nc orc Hl Hc) as [f0 H]. exists f0. intros f Hle.
    destruct (H f Hle) as [A B]. cbn [run fold_left]. split; [exact A|]. split; [|exact B].
    apply init_inv3_f; assumption.
  - rewrite forallb_app in Ha. apply andb_prop in Ha. destruct Ha as [Ha Ho].
    cbn [forallb] in Ho. rewrite andb_true_r in Ho.
    assert (Hs' : sides_along progs ops nl nc orc).
    { intros fuel pre o' post E. apply (Hs fuel pre o' (post ++ [o])).
      rewrite E, <- app_assoc. reflexivity. }
    destruct (IH Ha Hs') as [f0 H0].
    set (m0 := run no_defects progs ops (m_init_f f0 nl nc orc)) in *.
    destruct (H0 f0 (le_n _)) as (Hf0 & Hm0 & _).
    assert (Hside0 : step_side3 (m_root m0) o) by (apply (Hs f0 ops o []); [reflexivity|exact Hf0]).
    destruct (step_ex progs o m0 Ho (proj2 (proj2 Hm0)) Hf0 Hside0) as [f1 H1].
    set (S1 := step no_defects progs o (m_with_fuel f1 m0)) in *.
    assert (K : forall f, (Nat.max f0 f1 <= f)%nat ->
              run no_defects progs (ops ++ [o]) (m_init_f f nl nc orc) = m_with_fuel f S1).
    { intros f Hle. rewrite run_snoc. destruct (H0 f) as (_ & _ & E); [lia|]. rewrite E.
      change (m_with_fuel f m0) with (m_with_fuel f (m_with_fuel f1 m0)).
      apply step_wf; [exact Ho|exact H1|]. cbn. lia. }
    exists (Nat.max f0 f1). intros f Hle. rewrite (K f Hle).
    rewrite (K (Nat.max f0 f1) (le_n _)).
    split; [exact H1|]. split; [|reflexivity].
    rewrite <- (K f Hle). rewrite run_snoc.
    destruct (H0 f) as (Hff & Hmf & _); [lia|].
    assert (Hsidef : step_side3 (m_root (run no_defects progs ops (m_init_f f nl nc orc))) o)
      by (apply (Hs f ops o []); [reflexivity|exact Hff]).
    assert (Hfs : r_fault (m_root (step no_defects progs o (run no_defects progs ops (m_init_f f nl nc orc)))) = false).
    { rewrite <- run_snoc. rewrite (K f Hle). exact H1. }
    destruct o; try (apply step_preserves3; [exact Hmf|exact Hsidef|exact Hfs]).
    apply (flush_step3 progs _ Hp Hmf Hfs).
Qed.

(* for every history over the alphabet there is an amount of fuel with which it does not fault *)
Theorem history_total progs ops nl nc orc :
  (forall id, progs id = [DPaint]) -> 0 < nl -> 0 < nc ->
  forallb fuel_alpha ops = true -> sides_along progs ops nl nc orc ->
  exists fuel, r_fault (m_root (run no_defects progs ops (m_init_f fuel nl nc orc))) = false.
Proof.
  intros Hp Hl Hc Ha Hs. destruct (history_total_ev progs nl nc orc Hp Hl Hc ops Ha Hs) as [f0 H].
  exists f0. exact (proj1 (H f0 (le_n _))).
Qed.

(* ... and with it (and with every larger amount) the invariant of C01 holds at the end *)
Theorem history_total_c01 progs ops nl nc orc :
  (forall id, progs id = [DPaint]) -> 0 < nl -> 0 < nc ->
  forallb fuel_alpha ops = true -> sides_along progs ops nl nc orc ->
  exists fuel, forall f, (fuel <= f)%nat ->
    r_fault (m_root (run no_defects progs ops (m_init_f f nl nc orc))) = false /\
    MInv3 (run no_defects progs ops (m_init_f f nl nc orc)).
Proof.
  intros Hp Hl Hc Ha Hs. destruct (history_total_ev progs nl nc orc Hp Hl Hc ops Ha Hs) as [f0 H].
  exists f0. intros f Hle. destruct (H f Hle) as (A & B & _). split; assumption.
Qed.

(* a history that ends with a flush: every screen cell shows the composition *)
Theorem history_total_flushed progs ops nl nc orc :
  (forall id, progs id = [DPaint]) -> 0 < nl -> 0 < nc ->
  forallb fuel_alpha ops = true -> sides_along progs (ops ++ [OFlush]) nl nc orc ->
  exists fuel, forall f, (fuel <= f)%nat ->
    r_fault (m_root (run no_defects progs (ops ++ [OFlush]) (m_init_f f nl nc orc))) = false /\
    all_shown (run no_defects progs (ops ++ [OFlush]) (m_init_f f nl nc orc)).
Proof.
  intros Hp Hl Hc Ha Hs.
  assert (Ha' : forallb fuel_alpha (ops ++ [OFlush]) = true) by (rewrite forallb_app, Ha; reflexivity).
  assert (Hs' : sides_along progs ops nl nc orc).
  { intros fuel pre o' post E. apply (Hs fuel pre o' (post ++ [OFlush])).
    rewrite E, <- app_assoc. reflexivity. }
  destruct (history_total_ev progs nl nc orc Hp Hl Hc _ Ha' Hs) as [f1 H1].
  destruct (history_total_ev progs nl nc orc Hp Hl Hc _ Ha Hs') as [f0 H0].
  exists (Nat.max f0 f1). intros f Hle.
  destruct (H1 f) as (A & _ & _); [lia|]. destruct (H0 f) as (_ & B & _); [lia|].
  split; [exact A|]. rewrite run_snoc in *. apply (flush_step3 progs _ Hp B A).
Qed.
