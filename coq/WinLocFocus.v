(* WinLocFocus.v -- tree changes the composition does not see.  [strip] forgets every field
   of a window but its id, rectangle and visibility; two trees with the same strip are
   indistinguishable for owner_rel and for the expose walk (strip_eq_geq).  The focus
   transformers of WinDefs.v (focus_lost, t_at, focus_gained) and every t_update with an info
   change that keeps id, rectangle and visibility keep the strip. *)
From Coq Require Import ZArith List Bool Lia ZifyBool.
From Tickit Require Import RectDefs RectProofs WinRectSet WinDefs WinSpec WinExposeProofs
  WinFlushProofs WinLogDisjoint WinLocA WinLocTree.
Import ListNotations.
Local Open Scope Z_scope.

Fixpoint t_map (f : winfo -> winfo) (t : wtree) : wtree :=
  match t with Node i ch => Node (f i) (map (t_map f) ch) end.

Lemma tmap_info f t : t_info (t_map f t) = f (t_info t).
Proof. destruct t as [i ch]. reflexivity. Qed.

Lemma tmap_ids f : keeps_id f -> forall t, t_ids (t_map f t) = t_ids t.
Proof.
  intros Hf. apply (wtree_ind2 (fun t => t_ids (t_map f t) = t_ids t)).
  intros i ch IH. cbn [t_map t_ids]. f_equal; [apply Hf|].
  induction IH as [|c r Hc _ IHr]; [reflexivity|]. cbn [map flat_map]. rewrite Hc, IHr. reflexivity.
Qed.

Lemma tmap_owner f : keeps_geo f -> forall t q, owner_rel (t_map f t) q = owner_rel t q.
Proof.
  intros (Hid & Hrect & Hvis).
  apply (wtree_ind2 (fun t => forall q, owner_rel (t_map f t) q = owner_rel t q)).
  intros i ch IH q. cbn [t_map]. rewrite !owner_rel_unfold.
  assert (Hfo : forall q, first_owner (map (t_map f) ch) q = first_owner ch q).
  { clear q. induction IH as [|c r Hc _ IHr]; intros q; [reflexivity|]. cbn [map first_owner].
    rewrite tmap_info, Hrect, Hvis, Hc, IHr. reflexivity. }
  rewrite Hfo, Hid. reflexivity.
Qed.

Lemma tmap_path f y : keeps_id f -> forall t,
  t_path y (t_map f t) = option_map (map (t_map f)) (t_path y t).
Proof.
  intros Hf.
  apply (wtree_ind2 (fun t => t_path y (t_map f t) = option_map (map (t_map f)) (t_path y t))).
  intros i ch IH.
  assert (Hg : path_go y (map (t_map f) ch) = option_map (map (t_map f)) (path_go y ch)).
  { induction IH as [|c r Hc _ IHr]; [reflexivity|]. cbn [map]. rewrite !path_go_cons, Hc.
    destruct (t_path y c); cbn [option_map]; [reflexivity|exact IHr]. }
  rewrite (t_path_unfold y i ch).
  change (t_map f (Node i ch)) with (Node (f i) (map (t_map f) ch)).
  rewrite t_path_unfold, Hf, Hg. destruct (w_id i =? y); [reflexivity|].
  destruct (path_go y ch); reflexivity.
Qed.

Lemma tmap_chain_geo f y t : keeps_geo f -> chain_geo y (t_map f t) = chain_geo y t.
Proof.
  intros Hf. pose proof Hf as (Hid & Hrect & Hvis). unfold chain_geo, t_chain.
  rewrite (tmap_path f y Hid).
  destruct (t_path y t) as [p|]; cbn [option_map]; [|reflexivity]. f_equal.
  rewrite <- map_rev, map_map. apply map_ext. intros w. unfold geo.
  rewrite tmap_info, Hrect, Hvis. reflexivity.
Qed.

Lemma geq_tmap f t : keeps_geo f -> geq_tree t (t_map f t).
Proof.
  intros Hf. pose proof Hf as (Hid & Hrect & Hvis). constructor.
  - apply tmap_ids. exact Hid.
  - unfold geo. rewrite tmap_info, Hrect, Hvis. reflexivity.
  - apply tmap_owner. exact Hf.
  - intros y. apply tmap_chain_geo. exact Hf.
Qed.

Lemma geq_sym t1 t2 : geq_tree t1 t2 -> geq_tree t2 t1.
Proof.
  intros [A B C D]. constructor.
  - symmetry; exact A.
  - symmetry; exact B.
  - intros q. symmetry. apply C.
  - intros y. symmetry. apply D.
Qed.

(* ------------------------------------------------------------------------------------ *)
(* strip                                                                                 *)

Definition strip_i (i : winfo) : winfo :=
  mkW (w_id i) (w_rect i) (w_vis i) false false false None 0 0 0 false 0.
Definition strip (t : wtree) : wtree := t_map strip_i t.

Lemma keeps_geo_strip : keeps_geo strip_i.
Proof. split; [|split]; intros i; reflexivity. Qed.

Theorem strip_eq_geq t t' : strip t' = strip t -> geq_tree t t'.
Proof.
  intros E. apply (geq_trans t (strip t) t'); [apply geq_tmap; apply keeps_geo_strip|].
  rewrite <- E. apply geq_sym. apply geq_tmap. apply keeps_geo_strip.
Qed.

Lemma strip_node i ch : strip (Node i ch) = Node (strip_i i) (map strip ch).
Proof. reflexivity. Qed.

Lemma strip_i_geo i j :
  w_id j = w_id i -> w_rect j = w_rect i -> w_vis j = w_vis i -> strip_i j = strip_i i.
Proof. unfold strip_i. intros -> -> ->. reflexivity. Qed.

Lemma strip_update f id : keeps_geo f -> forall t, strip (t_update f id t) = strip t.
Proof.
  intros (Hid & Hrect & Hvis).
  apply (wtree_ind2 (fun t => strip (t_update f id t) = strip t)).
  intros i ch IH. cbn [t_update]. rewrite !strip_node. f_equal.
  - destruct (w_id i =? id); [|reflexivity]. apply strip_i_geo; [apply Hid|apply Hrect|apply Hvis].
  - rewrite map_map. apply map_ext_in. intros c Hc. rewrite Forall_forall in IH. apply IH. exact Hc.
Qed.

(* ------------------------------------------------------------------------------------ *)
(* focus_lost, t_at                                                                      *)

Definition fl_go (k : Z) : list wtree -> list wtree * list fev :=
  fix go (l : list wtree) : list wtree * list fev :=
    match l with
    | [] => ([], [])
    | c :: r =>
      if t_id c =? k then let '(c', e) := focus_lost c in (c' :: r, e)
      else let '(r', e) := go r in (c :: r', e)
    end.

Lemma focus_lost_eq : forall i ch,
  focus_lost (Node i ch) =
  let '(ch', ev1) :=
    match w_fchild i with
    | None => (ch, [])
    | Some k => let '(ch', e) := fl_go k ch in
                (ch', e ++ (if w_notify i then [(w_id i, false, k)] else []))
    end in
  if w_focused i then (Node (set_focused i false) ch', ev1 ++ [(w_id i, false, w_id i)])
  else (Node i ch', ev1).
Proof. reflexivity. Qed.

Lemma strip_focus_lost : forall t, strip (fst (focus_lost t)) = strip t.
Proof.
  apply (wtree_ind2 (fun t => strip (fst (focus_lost t)) = strip t)).
  intros i ch IH. rewrite focus_lost_eq.
  assert (Hgo : forall k, map strip (fst (fl_go k ch)) = map strip ch).
  { intros k. induction IH as [|c r Hc _ IHr]; [reflexivity|]. cbn [fl_go].
    destruct (t_id c =? k).
    - destruct (focus_lost c) as [c' e]. cbn [fst] in *. cbn [map]. rewrite Hc. reflexivity.
    - fold (fl_go k r). destruct (fl_go k r) as [r' e]. cbn [fst] in *. cbn [map]. rewrite IHr. reflexivity. }
  destruct (w_fchild i) as [k|].
  - specialize (Hgo k). destruct (fl_go k ch) as [ch' e]. cbn [fst] in Hgo.
    destruct (w_focused i); cbn [fst]; rewrite !strip_node, Hgo; reflexivity.
  - destruct (w_focused i); cbn [fst]; rewrite !strip_node; reflexivity.
Qed.

Definition ta_go (f : wtree -> wtree * list fev) (id : Z) : list wtree -> list wtree * list fev :=
  fix go (l : list wtree) : list wtree * list fev :=
    match l with
    | [] => ([], [])
    | c :: r => let '(c', e1) := t_at f id c in let '(r', e2) := go r in (c' :: r', e1 ++ e2)
    end.

Lemma t_at_eq : forall f id i ch,
  t_at f id (Node i ch) =
  if w_id i =? id then f (Node i ch) else
  let '(ch', e) := ta_go f id ch in (Node i ch', e).
Proof. reflexivity. Qed.

Lemma strip_t_at g z : (forall t, strip (fst (g t)) = strip t) ->
  forall t, strip (fst (t_at g z t)) = strip t.
Proof.
  intros Hg. apply (wtree_ind2 (fun t => strip (fst (t_at g z t)) = strip t)).
  intros i ch IH. rewrite t_at_eq. destruct (w_id i =? z); [apply Hg|].
  assert (Hgo : map strip (fst (ta_go g z ch)) = map strip ch).
  { induction IH as [|c r Hc _ IHr]; [reflexivity|]. cbn [ta_go].
    destruct (t_at g z c) as [c' e1]. fold (ta_go g z r). destruct (ta_go g z r) as [r' e2].
    cbn [fst] in *. cbn [map]. rewrite Hc, IHr. reflexivity. }
  destruct (ta_go g z ch) as [ch' e]. cbn [fst] in *. rewrite !strip_node, Hgo. reflexivity.
Qed.

(* ------------------------------------------------------------------------------------ *)
(* focus_gained                                                                          *)

Definition fg1 (cfg : defects) (i : winfo) (w : Z) (child : option Z) (tree : wtree)
  : wtree * list fev :=
  match w_fchild i with
  | Some fc =>
    if (match child with Some c => negb (fc =? c) | None => negb (d_focus_nolost cfg) end) then
      let '(tr, e) := t_at focus_lost fc tree in
      (tr, e ++ (if w_notify i && negb (d_notify_noout cfg) then [(w, false, fc)] else []))
    else (tree, [])
  | None => (tree, [])
  end.

Definition fg2 (cfg : defects) (i : winfo) (w : Z) (child : option Z) (tree1 : wtree)
  : wtree * list fev :=
  match child with
  | Some _ =>
    if w_focused i && negb (d_focus_nolost cfg)
    then (t_update (fun j => set_focused j false) w tree1, [(w, false, w)])
    else (tree1, [])
  | None => (tree1, [])
  end.

Lemma focus_gained_cons cfg w rest child tree :
  focus_gained cfg (w :: rest) child tree =
  match t_find w tree with
  | None => (tree, [], false)
  | Some wn =>
    let i := t_info wn in
    let '(tree1, ev1) := fg1 cfg i w child tree in
    let '(tree1, ev1b) := fg2 cfg i w child tree1 in
    let '(tree2, ev2, rs) :=
      match rest with
      | [] => (tree1, [], true)
      | _ :: _ => if w_vis i then focus_gained cfg rest (Some w) tree1 else (tree1, [], false)
      end in
    let ev3 :=
      match child with
      | None => [(w, true, w)]
      | Some c => if w_notify i then [(w, true, c)] else []
      end in
    let tree3 :=
      t_update (fun j => set_fchild (match child with None => set_focused j true | Some _ => j end) child)
               w tree2 in
    (tree3, ev1 ++ ev1b ++ ev2 ++ ev3, rs)
  end.
Proof. reflexivity. Qed.

Lemma strip_fg1 cfg i w child tree : strip (fst (fg1 cfg i w child tree)) = strip tree.
Proof.
  unfold fg1. destruct (w_fchild i) as [fc|]; [|reflexivity].
  destruct (match child with Some c => negb (fc =? c) | None => negb (d_focus_nolost cfg) end);
    [|reflexivity].
  pose proof (strip_t_at focus_lost fc strip_focus_lost tree) as H.
  destruct (t_at focus_lost fc tree) as [tr e]. exact H.
Qed.

Lemma keeps_geo_unfocus : keeps_geo (fun j => set_focused j false).
Proof. split; [|split]; intros i; reflexivity. Qed.

Lemma strip_fg2 cfg i w child tree : strip (fst (fg2 cfg i w child tree)) = strip tree.
Proof.
  unfold fg2. destruct child as [c|]; [|reflexivity].
  destruct (w_focused i && negb (d_focus_nolost cfg)); [|reflexivity].
  cbn [fst]. apply strip_update. apply keeps_geo_unfocus.
Qed.

Lemma keeps_geo_gain child :
  keeps_geo (fun j => set_fchild (match child with None => set_focused j true | Some _ => j end) child).
Proof. split; [|split]; intros i; destruct child; reflexivity. Qed.

Theorem strip_focus_gained cfg : forall chain child tree,
  strip (fst (fst (focus_gained cfg chain child tree))) = strip tree.
Proof.
  induction chain as [|w rest IH]; intros child tree; [reflexivity|].
  rewrite focus_gained_cons. destruct (t_find w tree) as [wn|]; [|reflexivity]. cbv zeta.
  pose proof (strip_fg1 cfg (t_info wn) w child tree) as H1.
  destruct (fg1 cfg (t_info wn) w child tree) as [tree1 ev1]. cbn [fst] in H1.
  pose proof (strip_fg2 cfg (t_info wn) w child tree1) as H2.
  destruct (fg2 cfg (t_info wn) w child tree1) as [tree1b ev1b]. cbn [fst] in H2.
  assert (H3 : strip (fst (fst (match rest with
                                | [] => (tree1b, @nil fev, true)
                                | _ :: _ => if w_vis (t_info wn) then focus_gained cfg rest (Some w) tree1b
                                            else (tree1b, [], false)
                                end))) = strip tree1b).
  { destruct rest as [|w2 rest']; [reflexivity|].
    destruct (w_vis (t_info wn)); [apply IH|reflexivity]. }
  destruct (match rest with
            | [] => (tree1b, @nil fev, true)
            | _ :: _ => if w_vis (t_info wn) then focus_gained cfg rest (Some w) tree1b
                        else (tree1b, [], false)
            end) as [[tree2 ev2] rs]. cbn [fst] in H3 |- *.
  rewrite strip_update by apply keeps_geo_gain. congruence.
Qed.
