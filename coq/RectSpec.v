(* RectSpec.v -- executable (boolean) form of the C06 specification, used as the
   oracle on the implementation's own outputs.  Exactness of the oracle rests on
   coordinate compression: membership of a cell in any of the rectangles involved is
   constant on the elementary intervals between consecutive edge values, so testing
   the cells whose coordinates are edge values decides the statement for all cells. *)
From Coq Require Import ZArith List Bool.
From Tickit Require Import RectDefs.
Import ListNotations.
Local Open Scope Z_scope.

Definition yedges (s : list rect) : list Z := flat_map (fun r => [top r; bottom r]) s.
Definition xedges (s : list rect) : list Z := flat_map (fun r => [left r; right r]) s.

Definition rep_cells (s : list rect) : list cell :=
  flat_map (fun y => map (fun x => (y, x)) (xedges s)) (yedges s).

Definition count_cover (s : list rect) (p : cell) : nat :=
  length (filter (fun r => cell_inb r p) s).

(* every listed rectangle non-empty, no cell covered twice, and the covered cells are
   exactly those for which [want] holds -- tested on the representative cells of
   [inputs ++ s] *)
Definition region_checkb (inputs s : list rect) (want : cell -> bool) : bool :=
  forallb nonemptyb s &&
  forallb (fun p => Nat.leb (count_cover s p) 1 && Bool.eqb (coveredb s p) (want p))
          (rep_cells (inputs ++ s)).

Definition add_checkb (a b : rect) (s : list rect) : bool :=
  Nat.leb (length s) 3 &&
  region_checkb [a; b] s (fun p => cell_inb a p || cell_inb b p).

Definition subtract_checkb (a b : rect) (s : list rect) : bool :=
  Nat.leb (length s) 4 &&
  region_checkb [a; b] s (fun p => cell_inb a p && negb (cell_inb b p)).

Definition intersect_checkb (a b : rect) (o : option rect) : bool :=
  match o with
  | Some r => region_checkb [a; b] [r] (fun p => cell_inb a p && cell_inb b p)
  | None => region_checkb [a; b] [] (fun p => cell_inb a p && cell_inb b p)
  end.

Definition intersects_checkb (a b : rect) (ans : bool) : bool :=
  Bool.eqb ans (existsb (fun p => cell_inb a p && cell_inb b p) (rep_cells [a; b])).

Definition contains_checkb (large small : rect) (ans : bool) : bool :=
  Bool.eqb ans (forallb (fun p => implb (cell_inb small p) (cell_inb large p)) (rep_cells [large; small])).
