(* VTProofs.v -- soundness of the oracle's grid tabulation ([vt_freeze]).

   The test oracle (XtermSpec.v, [oracle_walk], [oracle_walk_excl]) replaces the grid function
   of the VT specification by a lookup table after every request.  Here: freezing commutes
   with stepping up to agreement on the screen ([vt_equiv]), the oracle's boolean checkers
   cannot tell equivalent states apart, hence the oracle's verdict is the verdict of the same
   walk over the pure specification ([spec_walk]: no freezing anywhere).

   Everything is pointwise: no functional extensionality. *)
From Coq Require Import ZArith List Bool Lia ZifyBool.
From Tickit Require Import Csi VT TermPenDefs XtermDefs XtermSpec XtermProofs.
Import ListNotations.
Local Open Scope Z_scope.

(* ------------------------------------------------------------------ definitions *)
Definition geq (L C : Z) (g g' : grid) : Prop :=
  forall y x, 0 <= y < L -> 0 <= x < C -> g y x = g' y x.

Definition vt_equiv (v w : vt) : Prop :=
  v_lines w = v_lines v /\ v_cols w = v_cols v /\ v_cur w = v_cur v /\ v_mg w = v_mg v /\
  v_sgr w = v_sgr v /\ v_md w = v_md v /\ v_savedcur w = v_savedcur v /\
  geq (v_lines v) (v_cols v) (v_grid v) (v_grid w) /\
  geq (v_lines v) (v_cols v) (v_other v) (v_other w).

Definition cur_on (L C : Z) (c : cursor) : Prop := 0 <= cu_row c < L /\ 0 <= cu_col c < C.

Definition vt_wf (v : vt) : Prop :=
  0 < v_lines v /\ 0 < v_cols v /\
  cur_on (v_lines v) (v_cols v) (v_cur v) /\
  cur_on (v_lines v) (v_cols v) (v_savedcur v) /\
  (0 <= mg_top (v_mg v) /\ mg_top (v_mg v) <= mg_bot (v_mg v) /\ mg_bot (v_mg v) < v_lines v) /\
  (0 <= mg_left (v_mg v) /\ mg_left (v_mg v) <= mg_right (v_mg v) /\ mg_right (v_mg v) < v_cols v).

Definition params_nonneg (ps : list (list (option Z))) : Prop := Forall (Forall wf_param) ps.

Definition tok_nonneg (t : token) : Prop :=
  match t with
  | TCsi _ ps _ _ => params_nonneg ps
  | _ => True
  end.

(* ------------------------------------------------------------------ 1. the lexer *)
Definition lst_nonneg (st : lst) : Prop :=
  match st with
  | SCsi _ groups grp cur _ => params_nonneg groups /\ Forall wf_param grp /\ wf_param cur
  | SCsiInter _ ps _ => params_nonneg ps
  | _ => True
  end.

Lemma finish_params_nonneg : forall groups grp cur empty,
  params_nonneg groups -> Forall wf_param grp -> wf_param cur ->
  params_nonneg (finish_params groups grp cur empty).
Proof.
  intros groups grp cur empty HG Hg Hc. unfold finish_params, params_nonneg.
  destruct empty eqn:Ee.
  - constructor.
  - apply Forall_rev. constructor; [|exact HG].
    apply Forall_rev. constructor; assumption.
Qed.

Ltac nn := cbn [fst snd lst_nonneg tok_nonneg]; repeat split; auto; repeat constructor.

Lemma lex_step_nonneg : forall st b,
  lst_nonneg st ->
  lst_nonneg (fst (lex_step st b)) /\ Forall tok_nonneg (snd (lex_step st b)).
Proof.
  intros st b Hst. destruct st as [|inter|priv groups grp cur empty|priv ps inter| |k body|k body];
    cbn [lex_step].
  - destruct (b =? 27) eqn:E1; [nn|].
    destruct (32 <=? b) eqn:E2; nn.
  - destruct inter as [|i0 inter].
    + destruct (b =? 91) eqn:E1; [cbn; repeat split; constructor|].
      destruct (is_strkind b) eqn:E2; [nn|].
      destruct ((32 <=? b) && (b <=? 47)) eqn:E3; [nn|].
      destruct ((48 <=? b) && (b <=? 126)) eqn:E4; nn.
    + destruct ((32 <=? b) && (b <=? 47)) eqn:E3; [nn|].
      destruct ((48 <=? b) && (b <=? 126)) eqn:E4; nn.
  - cbn [lst_nonneg] in Hst. destruct Hst as (HG & Hg & Hc).
    destruct ((48 <=? b) && (b <=? 57)) eqn:E1.
    { cbn [fst snd lst_nonneg]. repeat split; auto.
      destruct cur as [c|]; cbn [wf_param] in *; lia. }
    destruct (b =? 58) eqn:E2.
    { cbn [fst snd lst_nonneg wf_param]. repeat split; auto. }
    destruct (b =? 59) eqn:E3.
    { cbn [fst snd lst_nonneg wf_param]. repeat split; auto.
      constructor; [|exact HG]. apply Forall_rev. constructor; assumption. }
    destruct ((60 <=? b) && (b <=? 63)) eqn:E4.
    { destruct priv as [p|]; [nn|].
      destruct empty eqn:Ee; cbn [fst snd lst_nonneg]; auto. }
    destruct ((32 <=? b) && (b <=? 47)) eqn:E5.
    { cbn [fst snd lst_nonneg]. split; [|constructor].
      apply finish_params_nonneg; assumption. }
    destruct ((64 <=? b) && (b <=? 126)) eqn:E6.
    { cbn [fst snd lst_nonneg]. split; [exact I|]. constructor; [|constructor].
      cbn [tok_nonneg]. apply finish_params_nonneg; assumption. }
    nn.
  - cbn [lst_nonneg] in Hst.
    destruct ((32 <=? b) && (b <=? 47)) eqn:E1; [nn|].
    destruct ((64 <=? b) && (b <=? 126)) eqn:E2.
    { cbn [fst snd lst_nonneg]. split; [exact I|]. constructor; [exact Hst|constructor]. }
    destruct ((48 <=? b) && (b <=? 63)) eqn:E3; nn.
  - destruct ((64 <=? b) && (b <=? 126)) eqn:E1; nn.
  - destruct (b =? 27) eqn:E1; nn.
  - destruct (b =? 92) eqn:E1; nn.
Qed.

Lemma lex_go_nonneg : forall bs st, lst_nonneg st -> Forall tok_nonneg (lex_go st bs).
Proof.
  induction bs as [|b r IH]; intros st Hst.
  - cbn [lex_go]. destruct st; repeat constructor.
  - cbn [lex_go]. destruct (lex_step_nonneg st b Hst) as [H1 H2].
    destruct (lex_step st b) as [st' out] eqn:Es. cbn [fst snd] in H1, H2.
    apply Forall_app. split; [exact H2|]. apply IH. exact H1.
Qed.

Theorem lex_nonneg : forall bs, Forall tok_nonneg (lex bs).
Proof. intros bs. unfold lex. apply lex_go_nonneg. exact I. Qed.

(* ------------------------------------------------------------------ parameters *)
Lemma pnth_nonneg : forall ps i, params_nonneg ps -> wf_param (pnth ps i).
Proof.
  intros ps i Hps. unfold pnth.
  assert (Hg : Forall wf_param (nth i ps [])).
  { destruct (nth_in_or_default i ps []) as [Hin|Hd].
    - unfold params_nonneg in Hps. rewrite Forall_forall in Hps. apply Hps. exact Hin.
    - rewrite Hd. constructor. }
  destruct (nth i ps []) as [|o rest]; cbn [pfirst].
  - exact I.
  - inversion Hg as [|o' rest' Ho Hrest]. exact Ho.
Qed.
Lemma arg1_pos : forall ps i, params_nonneg ps -> 1 <= arg1 ps i.
Proof.
  intros ps i Hps. unfold arg1. pose proof (pnth_nonneg ps i Hps) as Hp.
  destruct (pnth ps i) as [n|]; cbn [wf_param] in Hp; [|lia].
  destruct (n =? 0) eqn:En; lia.
Qed.
Lemma arg1_nonneg : forall ps i, params_nonneg ps -> 0 <= arg1 ps i.
Proof. intros ps i Hps. pose proof (arg1_pos ps i Hps). lia. Qed.
Lemma arg0_nonneg : forall ps i, params_nonneg ps -> 0 <= arg0 ps i.
Proof.
  intros ps i Hps. unfold arg0. pose proof (pnth_nonneg ps i Hps) as Hp.
  destruct (pnth ps i) as [n|]; cbn [wf_param] in Hp; lia.
Qed.

(* ------------------------------------------------------------------ tactics *)
Ltac vt_cbn :=
  cbn [v_lines v_cols v_grid v_cur v_mg v_sgr v_md v_savedcur v_other
       cu_row cu_col cu_pend mg_top mg_bot mg_left mg_right] in *.

Ltac break_if :=
  match goal with
  | |- context [if ?b then _ else _] => let E := fresh "Eb" in destruct b eqn:E
  | H : context [if ?b then _ else _] |- _ => let E := fresh "Eb" in destruct b eqn:E
  end.

Create HintDb vtdb.
#[local] Hint Unfold vt_cup vt_vpa vt_cha vt_cuu vt_cud vt_cuf vt_cub vt_ech vt_el vt_ed
  vt_ich vt_dch vt_il vt_dl vt_decic vt_decdc vt_index vt_cr
  scroll_up_from scroll_down_from in_tb in_lr clear_pend goto_rc
  set_grid set_cur set_mg set_sgr set_md set_savedcur set_other row col pend blank clamp : vtdb.

Ltac vt_unf := repeat autounfold with vtdb in *; vt_cbn.

(* the sequel of a deep case analysis on records *)
Ltac destr_vt v :=
  let L := fresh "L" in let C := fresh "C" in let g := fresh "g" in
  let r := fresh "r" in let c := fresh "c" in let p := fresh "p" in
  let mt := fresh "mt" in let mb := fresh "mb" in let ml := fresh "ml" in let mr := fresh "mr" in
  let sgr := fresh "sgr" in let md := fresh "md" in
  let sr := fresh "sr" in let sc := fresh "sc" in let sp := fresh "sp" in let o := fresh "o" in
  destruct v as [L C g [r c p] [mt mb ml mr] sgr md [sr sc sp] o].

(* ------------------------------------------------------------------ equivalence: basics *)
Lemma vt_equiv_intro : forall v w,
  v_lines w = v_lines v -> v_cols w = v_cols v -> v_cur w = v_cur v -> v_mg w = v_mg v ->
  v_sgr w = v_sgr v -> v_md w = v_md v -> v_savedcur w = v_savedcur v ->
  geq (v_lines v) (v_cols v) (v_grid v) (v_grid w) ->
  geq (v_lines v) (v_cols v) (v_other v) (v_other w) -> vt_equiv v w.
Proof. intros v w H1 H2 H3 H4 H5 H6 H7 H8 H9. unfold vt_equiv. tauto. Qed.

Lemma geq_refl : forall L C g, geq L C g g.
Proof. intros L C g y x Hy Hx. reflexivity. Qed.
Lemma geq_trans : forall L C g1 g2 g3, geq L C g1 g2 -> geq L C g2 g3 -> geq L C g1 g3.
Proof. intros L C g1 g2 g3 H12 H23 y x Hy Hx. rewrite (H12 y x Hy Hx). apply H23; assumption. Qed.
Lemma geq_sym : forall L C g1 g2, geq L C g1 g2 -> geq L C g2 g1.
Proof. intros L C g1 g2 H y x Hy Hx. symmetry. apply H; assumption. Qed.

Lemma vt_equiv_refl : forall v, vt_equiv v v.
Proof. intros v. apply vt_equiv_intro; try reflexivity; apply geq_refl. Qed.
Lemma vt_equiv_trans : forall u v w, vt_equiv u v -> vt_equiv v w -> vt_equiv u w.
Proof.
  intros u v w (A1 & A2 & A3 & A4 & A5 & A6 & A7 & A8 & A9) (B1 & B2 & B3 & B4 & B5 & B6 & B7 & B8 & B9).
  rewrite A1, A2 in B8, B9.
  apply vt_equiv_intro; try congruence.
  - eapply geq_trans; eassumption.
  - eapply geq_trans; eassumption.
Qed.
Lemma vt_equiv_sym : forall v w, vt_equiv v w -> vt_equiv w v.
Proof.
  intros v w (A1 & A2 & A3 & A4 & A5 & A6 & A7 & A8 & A9).
  apply vt_equiv_intro; try congruence; rewrite A1, A2; apply geq_sym; assumption.
Qed.

Lemma wf_equiv : forall v w, vt_wf v -> vt_equiv v w -> vt_wf w.
Proof.
  intros v w Hwf (A1 & A2 & A3 & A4 & A5 & A6 & A7 & A8 & A9).
  unfold vt_wf in *. rewrite A1, A2, A3, A4, A7. exact Hwf.
Qed.

(* ------------------------------------------------------------------ 2. well-formedness *)
Lemma vt_init_wf : forall L C, 0 < L -> 0 < C -> vt_wf (vt_init L C).
Proof. intros L C HL HC. unfold vt_wf, cur_on, vt_init, full_margins. vt_cbn. lia. Qed.

Ltac wf_crush :=
  unfold vt_wf, cur_on in *; vt_unf; repeat (break_if; vt_cbn); lia.

Lemma cr_wf : forall v, vt_wf v -> vt_wf (vt_cr v).
Proof. intros v Hwf. destr_vt v. wf_crush. Qed.
Lemma index_wf : forall v, vt_wf v -> vt_wf (vt_index v).
Proof. intros v Hwf. destr_vt v. wf_crush. Qed.

Definition put_core (b : Z) (v1 : vt) : vt :=
  let r := row v1 in let c := col v1 in
  let g := v_grid v1 in
  let cellv := mkCell b (v_sgr v1) in
  let v2 := set_grid v1 (fun y x => if (y =? r) && (x =? c) then cellv else g y x) in
  let rlimit := if c <=? mg_right (v_mg v1) then mg_right (v_mg v1) else v_cols v1 - 1 in
  if c <? rlimit then set_cur v2 (mkCursor r (c + 1) false)
  else set_cur v2 (mkCursor r c (md_awm (v_md v1))).
Lemma vt_putc_core : forall b v,
  vt_putc b v = put_core b (if pend v && md_awm (v_md v) then vt_index (vt_cr v)
                            else set_cur v (mkCursor (row v) (col v) false)).
Proof. reflexivity. Qed.

Lemma put_core_wf : forall b v, vt_wf v -> vt_wf (put_core b v).
Proof. intros b v Hwf. destr_vt v. unfold put_core. wf_crush. Qed.
Lemma clearp_wf : forall v, vt_wf v -> vt_wf (set_cur v (mkCursor (row v) (col v) false)).
Proof. intros v Hwf. destr_vt v. wf_crush. Qed.
Lemma putc_wf : forall b v, vt_wf v -> vt_wf (vt_putc b v).
Proof.
  intros b v Hwf. rewrite vt_putc_core. apply put_core_wf.
  destruct (pend v && md_awm (v_md v)) eqn:E.
  - apply index_wf, cr_wf, Hwf.
  - apply clearp_wf, Hwf.
Qed.

Lemma cup_wf : forall v a b, vt_wf v -> vt_wf (vt_cup v a b).
Proof. intros v a b Hwf. destr_vt v. wf_crush. Qed.
Lemma vpa_wf : forall v a, vt_wf v -> vt_wf (vt_vpa v a).
Proof. intros v a Hwf. destr_vt v. wf_crush. Qed.
Lemma cha_wf : forall v a, vt_wf v -> vt_wf (vt_cha v a).
Proof. intros v a Hwf. destr_vt v. wf_crush. Qed.
Lemma cuu_wf : forall v n, vt_wf v -> 0 <= n -> vt_wf (vt_cuu v n).
Proof. intros v n Hwf Hn. destr_vt v. wf_crush. Qed.
Lemma cud_wf : forall v n, vt_wf v -> 0 <= n -> vt_wf (vt_cud v n).
Proof. intros v n Hwf Hn. destr_vt v. wf_crush. Qed.
Lemma cuf_wf : forall v n, vt_wf v -> 0 <= n -> vt_wf (vt_cuf v n).
Proof. intros v n Hwf Hn. destr_vt v. wf_crush. Qed.
Lemma cub_wf : forall v n, vt_wf v -> 0 <= n -> vt_wf (vt_cub v n).
Proof. intros v n Hwf Hn. destr_vt v. wf_crush. Qed.
Lemma ech_wf : forall v n, vt_wf v -> vt_wf (vt_ech v n).
Proof. intros v n Hwf. destr_vt v. wf_crush. Qed.
Lemma el_wf : forall v n, vt_wf v -> vt_wf (vt_el v n).
Proof. intros v n Hwf. destr_vt v. wf_crush. Qed.
Lemma ed_wf : forall v n, vt_wf v -> vt_wf (vt_ed v n).
Proof. intros v n Hwf. destr_vt v. wf_crush. Qed.
Lemma ich_wf : forall v n, vt_wf v -> vt_wf (vt_ich v n).
Proof. intros v n Hwf. destr_vt v. wf_crush. Qed.
Lemma dch_wf : forall v n, vt_wf v -> vt_wf (vt_dch v n).
Proof. intros v n Hwf. destr_vt v. wf_crush. Qed.
Lemma il_wf : forall v n, vt_wf v -> vt_wf (vt_il v n).
Proof. intros v n Hwf. destr_vt v. wf_crush. Qed.
Lemma dl_wf : forall v n, vt_wf v -> vt_wf (vt_dl v n).
Proof. intros v n Hwf. destr_vt v. wf_crush. Qed.
Lemma decic_wf : forall v n, vt_wf v -> vt_wf (vt_decic v n).
Proof. intros v n Hwf. destr_vt v. wf_crush. Qed.
Lemma decdc_wf : forall v n, vt_wf v -> vt_wf (vt_decdc v n).
Proof. intros v n Hwf. destr_vt v. wf_crush. Qed.

Lemma decstbm_wf : forall v ps, vt_wf v -> params_nonneg ps -> vt_wf (vt_decstbm v ps).
Proof.
  intros v ps Hwf Hps. pose proof (arg1_pos ps 0 Hps) as Ht. destr_vt v.
  unfold vt_decstbm. vt_cbn. destruct (pnth ps 1) as [n1|] eqn:Ep; wf_crush.
Qed.
Lemma decslrm_wf : forall v ps, vt_wf v -> params_nonneg ps -> vt_wf (vt_decslrm v ps).
Proof.
  intros v ps Hwf Hps. pose proof (arg1_pos ps 0 Hps) as Ht. destr_vt v.
  unfold vt_decslrm. vt_cbn. destruct (pnth ps 1) as [n1|] eqn:Ep; wf_crush.
Qed.
Lemma sgr_wf : forall v ps, vt_wf v -> vt_wf (vt_sgr v ps).
Proof. intros v ps Hwf. unfold vt_sgr. exact Hwf. Qed.
Lemma set_md_wf : forall v m, vt_wf v -> vt_wf (set_md v m).
Proof. intros v m Hwf. exact Hwf. Qed.
Lemma savecur_wf : forall v, vt_wf v -> vt_wf (set_savedcur v (v_cur v)).
Proof. intros v Hwf. unfold vt_wf in *. cbn [set_savedcur v_lines v_cols v_cur v_mg v_savedcur]. tauto. Qed.
Lemma restorecur_wf : forall v, vt_wf v -> vt_wf (set_cur v (v_savedcur v)).
Proof. intros v Hwf. unfold vt_wf in *. cbn [set_cur v_lines v_cols v_cur v_mg v_savedcur]. tauto. Qed.

Lemma decmode_wf : forall v n on, vt_wf v -> vt_wf (vt_decmode v n on).
Proof. intros v n on Hwf. destr_vt v. unfold vt_decmode. wf_crush. Qed.
Lemma decmodes_wf : forall ps v on, vt_wf v -> vt_wf (vt_decmodes v ps on).
Proof.
  induction ps as [|g rest IH]; intros v on Hwf; cbn [vt_decmodes].
  - exact Hwf.
  - apply IH. destruct (pfirst g) as [n|]; [apply decmode_wf|]; exact Hwf.
Qed.

(* ------------------------------------------------------------------ the shape of the dispatch *)
Definition csi_plain (v : vt) (ps : list (list (option Z))) (fin : Z) : vt :=
  if fin =? 72 then vt_cup v (arg1 ps 0) (arg1 ps 1)
  else if fin =? 102 then vt_cup v (arg1 ps 0) (arg1 ps 1)
  else if fin =? 100 then vt_vpa v (arg1 ps 0)
  else if fin =? 71 then vt_cha v (arg1 ps 0)
  else if fin =? 96 then vt_cha v (arg1 ps 0)
  else if fin =? 65 then vt_cuu v (arg1 ps 0)
  else if fin =? 66 then vt_cud v (arg1 ps 0)
  else if fin =? 67 then vt_cuf v (arg1 ps 0)
  else if fin =? 68 then vt_cub v (arg1 ps 0)
  else if fin =? 88 then vt_ech v (arg1 ps 0)
  else if fin =? 74 then vt_ed v (arg0 ps 0)
  else if fin =? 75 then vt_el v (arg0 ps 0)
  else if fin =? 64 then vt_ich v (arg1 ps 0)
  else if fin =? 80 then vt_dch v (arg1 ps 0)
  else if fin =? 76 then vt_il v (arg1 ps 0)
  else if fin =? 77 then vt_dl v (arg1 ps 0)
  else if fin =? 114 then vt_decstbm v ps
  else if fin =? 115 then
    (if md_lrmm (v_md v) then vt_decslrm v ps else set_savedcur v (v_cur v))
  else if fin =? 109 then vt_sgr v ps
  else v.
Definition csi_quote (v : vt) (ps : list (list (option Z))) (fin : Z) : vt :=
  if fin =? 125 then vt_decic v (arg1 ps 0)
  else if fin =? 126 then vt_decdc v (arg1 ps 0)
  else v.
Definition csi_space (v : vt) (ps : list (list (option Z))) (fin : Z) : vt :=
  if fin =? 113 then set_md v (md_set_shape (v_md v) (arg0 ps 0)) else v.
Definition csi_dec (v : vt) (ps : list (list (option Z))) (fin : Z) : vt :=
  if fin =? 104 then vt_decmodes v ps true
  else if fin =? 108 then vt_decmodes v ps false
  else v.

Lemma vt_csi_shape : forall v priv ps inter fin,
  vt_csi v priv ps inter fin =
  match priv with
  | None =>
      match inter with
      | [] => csi_plain v ps fin
      | [i] => if i =? 39 then csi_quote v ps fin else if i =? 32 then csi_space v ps fin else v
      | _ => v
      end
  | Some p => if p =? 63 then match inter with [] => csi_dec v ps fin | _ => v end else v
  end.
Proof.
  intros v priv ps inter fin. destruct priv as [p|].
  - destruct p as [|p|p]; [reflexivity| |destruct inter; reflexivity].
    do 6 (destruct p as [p|p|]; try (destruct inter; reflexivity)).
  - destruct inter as [|i rest]; [reflexivity|].
    destruct i as [|i|i]; [destruct rest; reflexivity| |destruct rest; reflexivity].
    do 6 (destruct i as [i|i|]; try (destruct rest; reflexivity)).
Qed.

Lemma csi_wf : forall v priv ps inter fin,
  vt_wf v -> params_nonneg ps -> vt_wf (vt_csi v priv ps inter fin).
Proof.
  intros v priv ps inter fin Hwf Hps. rewrite vt_csi_shape.
  pose proof (arg1_nonneg ps 0 Hps) as Ha1. pose proof (arg0_nonneg ps 0 Hps) as Ha0.
  destruct priv as [p|].
  - destruct (p =? 63) eqn:Ep; [|exact Hwf].
    destruct inter as [|i rest]; [|exact Hwf].
    unfold csi_dec. repeat break_if; auto using decmodes_wf.
  - destruct inter as [|i [|i2 rest]]; [| |exact Hwf].
    + unfold csi_plain.
      repeat break_if;
        auto using cup_wf, vpa_wf, cha_wf, cuu_wf, cud_wf, cuf_wf, cub_wf, ech_wf, ed_wf, el_wf,
          ich_wf, dch_wf, il_wf, dl_wf, decstbm_wf, decslrm_wf, savecur_wf, sgr_wf.
    + destruct (i =? 39) eqn:E39; [|destruct (i =? 32) eqn:E32; [|exact Hwf]].
      * unfold csi_quote. repeat break_if; auto using decic_wf, decdc_wf.
      * unfold csi_space. repeat break_if; auto using set_md_wf.
Qed.

Theorem step_wf : forall v t, vt_wf v -> tok_nonneg t -> vt_wf (vt_step v t).
Proof.
  intros v t Hwf Ht. destruct t as [b|b|priv ps inter fin|inter fin|k body|what]; cbn [vt_step].
  - destruct (b =? 127) eqn:E; [exact Hwf|apply putc_wf; exact Hwf].
  - repeat break_if; auto using cr_wf, index_wf.
    apply cub_wf; [exact Hwf|lia].
  - apply csi_wf; assumption.
  - destruct inter as [|i rest]; [|exact Hwf].
    repeat break_if; auto using set_md_wf, savecur_wf, restorecur_wf.
  - exact Hwf.
  - exact Hwf.
Qed.

Theorem run_wf : forall ts v, vt_wf v -> Forall tok_nonneg ts -> vt_wf (vt_run ts v).
Proof.
  induction ts as [|t ts IH]; intros v Hwf Hts.
  - exact Hwf.
  - rewrite vt_run_cons. inversion Hts as [|t' ts' Ht Hts']. subst t' ts'.
    apply IH; [apply step_wf; assumption|assumption].
Qed.
Theorem run_bytes_wf : forall bs v, vt_wf v -> vt_wf (vt_run_bytes bs v).
Proof. intros bs v Hwf. unfold vt_run_bytes. apply run_wf; [exact Hwf|apply lex_nonneg]. Qed.

(* ------------------------------------------------------------------ 3. stepping respects the equivalence *)
Ltac equiv_start v w Hwf He :=
  destr_vt v;
  destruct w as [L' C' g' cur' mg' sgr' md' scur' o'];
  unfold vt_equiv in He; vt_cbn;
  destruct He as (E1 & E2 & E3 & E4 & E5 & E6 & E7 & Hg & Ho);
  subst L' C' cur' mg' sgr' md' scur';
  unfold vt_wf, cur_on in Hwf; vt_cbn.

Ltac equiv_finish :=
  apply vt_equiv_intro; vt_cbn; try reflexivity; try assumption;
  unfold geq; intros y x Hy Hx; cbn beta;
  repeat (break_if; vt_cbn); try reflexivity; try lia;
  match goal with H : geq _ _ _ _ |- _ => apply H; lia end.

Ltac equiv_crush := vt_unf; repeat (break_if; vt_cbn); equiv_finish.

Lemma cr_equiv : forall v w, vt_wf v -> vt_equiv v w -> vt_equiv (vt_cr v) (vt_cr w).
Proof. intros v w Hwf He. equiv_start v w Hwf He. equiv_crush. Qed.
Lemma index_equiv : forall v w, vt_wf v -> vt_equiv v w -> vt_equiv (vt_index v) (vt_index w).
Proof. intros v w Hwf He. equiv_start v w Hwf He. equiv_crush. Qed.
Lemma clearp_equiv : forall v w, vt_wf v -> vt_equiv v w ->
  vt_equiv (set_cur v (mkCursor (row v) (col v) false)) (set_cur w (mkCursor (row w) (col w) false)).
Proof. intros v w Hwf He. equiv_start v w Hwf He. equiv_crush. Qed.
Lemma put_core_equiv : forall b v w, vt_wf v -> vt_equiv v w -> vt_equiv (put_core b v) (put_core b w).
Proof. intros b v w Hwf He. equiv_start v w Hwf He. unfold put_core. equiv_crush. Qed.
Lemma putc_equiv : forall b v w, vt_wf v -> vt_equiv v w -> vt_equiv (vt_putc b v) (vt_putc b w).
Proof.
  intros b v w Hwf He. rewrite !vt_putc_core.
  assert (Ec : pend w && md_awm (v_md w) = pend v && md_awm (v_md v)).
  { destruct He as (E1 & E2 & E3 & E4 & E5 & E6 & E7 & Hg & Ho). unfold pend. rewrite E3, E6. reflexivity. }
  rewrite Ec. destruct (pend v && md_awm (v_md v)) eqn:E.
  - apply put_core_equiv.
    + apply index_wf, cr_wf, Hwf.
    + apply index_equiv; [apply cr_wf, Hwf|]. apply cr_equiv; assumption.
  - apply put_core_equiv.
    + apply clearp_wf, Hwf.
    + apply clearp_equiv; assumption.
Qed.

Lemma cup_equiv : forall v w a b, vt_wf v -> vt_equiv v w -> vt_equiv (vt_cup v a b) (vt_cup w a b).
Proof. intros v w a b Hwf He. equiv_start v w Hwf He. equiv_crush. Qed.
Lemma vpa_equiv : forall v w a, vt_wf v -> vt_equiv v w -> vt_equiv (vt_vpa v a) (vt_vpa w a).
Proof. intros v w a Hwf He. equiv_start v w Hwf He. equiv_crush. Qed.
Lemma cha_equiv : forall v w a, vt_wf v -> vt_equiv v w -> vt_equiv (vt_cha v a) (vt_cha w a).
Proof. intros v w a Hwf He. equiv_start v w Hwf He. equiv_crush. Qed.
Lemma cuu_equiv : forall v w n, vt_wf v -> vt_equiv v w -> vt_equiv (vt_cuu v n) (vt_cuu w n).
Proof. intros v w n Hwf He. equiv_start v w Hwf He. equiv_crush. Qed.
Lemma cud_equiv : forall v w n, vt_wf v -> vt_equiv v w -> vt_equiv (vt_cud v n) (vt_cud w n).
Proof. intros v w n Hwf He. equiv_start v w Hwf He. equiv_crush. Qed.
Lemma cuf_equiv : forall v w n, vt_wf v -> vt_equiv v w -> vt_equiv (vt_cuf v n) (vt_cuf w n).
Proof. intros v w n Hwf He. equiv_start v w Hwf He. equiv_crush. Qed.
Lemma cub_equiv : forall v w n, vt_wf v -> vt_equiv v w -> vt_equiv (vt_cub v n) (vt_cub w n).
Proof. intros v w n Hwf He. equiv_start v w Hwf He. equiv_crush. Qed.

(* erasing: no cell is read at another position *)
Lemma ech_equiv : forall v w n, vt_wf v -> vt_equiv v w -> vt_equiv (vt_ech v n) (vt_ech w n).
Proof. intros v w n Hwf He. equiv_start v w Hwf He. equiv_crush. Qed.
Lemma el_equiv : forall v w n, vt_wf v -> vt_equiv v w -> vt_equiv (vt_el v n) (vt_el w n).
Proof. intros v w n Hwf He. equiv_start v w Hwf He. equiv_crush. Qed.
Lemma ed_equiv : forall v w n, vt_wf v -> vt_equiv v w -> vt_equiv (vt_ed v n) (vt_ed w n).
Proof. intros v w n Hwf He. equiv_start v w Hwf He. equiv_crush. Qed.

(* insertion, deletion: the cells read are on the screen because the cursor and the margins
   are and the count is not negative *)
Lemma ich_equiv : forall v w n, vt_wf v -> vt_equiv v w -> 0 <= n -> vt_equiv (vt_ich v n) (vt_ich w n).
Proof. intros v w n Hwf He Hn. equiv_start v w Hwf He. equiv_crush. Qed.
Lemma dch_equiv : forall v w n, vt_wf v -> vt_equiv v w -> 0 <= n -> vt_equiv (vt_dch v n) (vt_dch w n).
Proof. intros v w n Hwf He Hn. equiv_start v w Hwf He. equiv_crush. Qed.
Lemma il_equiv : forall v w n, vt_wf v -> vt_equiv v w -> 0 <= n -> vt_equiv (vt_il v n) (vt_il w n).
Proof. intros v w n Hwf He Hn. equiv_start v w Hwf He. equiv_crush. Qed.
Lemma dl_equiv : forall v w n, vt_wf v -> vt_equiv v w -> 0 <= n -> vt_equiv (vt_dl v n) (vt_dl w n).
Proof. intros v w n Hwf He Hn. equiv_start v w Hwf He. equiv_crush. Qed.
Lemma decic_equiv : forall v w n, vt_wf v -> vt_equiv v w -> 0 <= n -> vt_equiv (vt_decic v n) (vt_decic w n).
Proof. intros v w n Hwf He Hn. equiv_start v w Hwf He. equiv_crush. Qed.
Lemma decdc_equiv : forall v w n, vt_wf v -> vt_equiv v w -> 0 <= n -> vt_equiv (vt_decdc v n) (vt_decdc w n).
Proof. intros v w n Hwf He Hn. equiv_start v w Hwf He. equiv_crush. Qed.

Lemma decstbm_equiv : forall v w ps, vt_wf v -> vt_equiv v w -> vt_equiv (vt_decstbm v ps) (vt_decstbm w ps).
Proof.
  intros v w ps Hwf He. equiv_start v w Hwf He. unfold vt_decstbm. vt_cbn.
  destruct (pnth ps 1) as [n1|] eqn:Ep; equiv_crush.
Qed.
Lemma decslrm_equiv : forall v w ps, vt_wf v -> vt_equiv v w -> vt_equiv (vt_decslrm v ps) (vt_decslrm w ps).
Proof.
  intros v w ps Hwf He. equiv_start v w Hwf He. unfold vt_decslrm. vt_cbn.
  destruct (pnth ps 1) as [n1|] eqn:Ep; equiv_crush.
Qed.
Lemma sgr_equiv : forall v w ps, vt_wf v -> vt_equiv v w -> vt_equiv (vt_sgr v ps) (vt_sgr w ps).
Proof. intros v w ps Hwf He. equiv_start v w Hwf He. unfold vt_sgr. equiv_crush. Qed.
Lemma set_md_equiv : forall v w m, vt_wf v -> vt_equiv v w -> vt_equiv (set_md v m) (set_md w m).
Proof. intros v w m Hwf He. equiv_start v w Hwf He. equiv_crush. Qed.
Lemma savecur_equiv : forall v w, vt_wf v -> vt_equiv v w ->
  vt_equiv (set_savedcur v (v_cur v)) (set_savedcur w (v_cur w)).
Proof. intros v w Hwf He. equiv_start v w Hwf He. equiv_crush. Qed.
Lemma restorecur_equiv : forall v w, vt_wf v -> vt_equiv v w ->
  vt_equiv (set_cur v (v_savedcur v)) (set_cur w (v_savedcur w)).
Proof. intros v w Hwf He. equiv_start v w Hwf He. equiv_crush. Qed.

(* 1049 swaps the two buffers *)
Lemma decmode_equiv : forall v w n on, vt_wf v -> vt_equiv v w ->
  vt_equiv (vt_decmode v n on) (vt_decmode w n on).
Proof. intros v w n on Hwf He. equiv_start v w Hwf He. unfold vt_decmode. equiv_crush. Qed.
Lemma decmodes_equiv : forall ps v w on, vt_wf v -> vt_equiv v w ->
  vt_equiv (vt_decmodes v ps on) (vt_decmodes w ps on).
Proof.
  induction ps as [|g rest IH]; intros v w on Hwf He; cbn [vt_decmodes].
  - exact He.
  - destruct (pfirst g) as [n|].
    + apply IH; [apply decmode_wf; exact Hwf|apply decmode_equiv; assumption].
    + apply IH; assumption.
Qed.

Lemma csi_equiv : forall v w priv ps inter fin,
  vt_wf v -> vt_equiv v w -> params_nonneg ps ->
  vt_equiv (vt_csi v priv ps inter fin) (vt_csi w priv ps inter fin).
Proof.
  intros v w priv ps inter fin Hwf He Hps. rewrite !vt_csi_shape.
  pose proof (arg1_nonneg ps 0 Hps) as Ha1.
  assert (Emd : v_md w = v_md v) by (destruct He as (_ & _ & _ & _ & _ & E6 & _); exact E6).
  destruct priv as [p|].
  - destruct (p =? 63) eqn:Ep; [|exact He].
    destruct inter as [|i rest]; [|exact He].
    unfold csi_dec. repeat break_if; auto using decmodes_equiv.
  - destruct inter as [|i [|i2 rest]]; [| |exact He].
    + unfold csi_plain. rewrite Emd.
      repeat break_if;
        auto using cup_equiv, vpa_equiv, cha_equiv, cuu_equiv, cud_equiv, cuf_equiv, cub_equiv,
          ech_equiv, ed_equiv, el_equiv, ich_equiv, dch_equiv, il_equiv, dl_equiv,
          decstbm_equiv, decslrm_equiv, savecur_equiv, sgr_equiv.
    + destruct (i =? 39) eqn:E39; [|destruct (i =? 32) eqn:E32; [|exact He]].
      * unfold csi_quote. repeat break_if; auto using decic_equiv, decdc_equiv.
      * unfold csi_space. rewrite Emd. repeat break_if; auto using set_md_equiv.
Qed.

Theorem step_equiv : forall v w t,
  vt_wf v -> vt_equiv v w -> tok_nonneg t -> vt_equiv (vt_step v t) (vt_step w t).
Proof.
  intros v w t Hwf He Ht.
  assert (Emd : v_md w = v_md v) by (destruct He as (_ & _ & _ & _ & _ & E6 & _); exact E6).
  destruct t as [b|b|priv ps inter fin|inter fin|k body|what]; cbn [vt_step].
  - destruct (b =? 127) eqn:E; [exact He|apply putc_equiv; assumption].
  - repeat break_if; auto using cr_equiv, index_equiv, cub_equiv.
  - apply csi_equiv; assumption.
  - destruct inter as [|i rest]; [|exact He]. rewrite Emd.
    repeat break_if; auto using set_md_equiv, savecur_equiv, restorecur_equiv.
  - exact He.
  - exact He.
Qed.

Theorem run_equiv : forall ts v w,
  vt_wf v -> vt_equiv v w -> Forall tok_nonneg ts -> vt_equiv (vt_run ts v) (vt_run ts w).
Proof.
  induction ts as [|t ts IH]; intros v w Hwf He Hts.
  - exact He.
  - rewrite !vt_run_cons. inversion Hts as [|t' ts' Ht Hts']. subst t' ts'.
    apply IH; [apply step_wf; assumption|apply step_equiv; assumption|assumption].
Qed.
Theorem run_bytes_equiv : forall bs v w,
  vt_wf v -> vt_equiv v w -> vt_equiv (vt_run_bytes bs v) (vt_run_bytes bs w).
Proof.
  intros bs v w Hwf He. unfold vt_run_bytes. apply run_equiv; [exact Hwf|exact He|apply lex_nonneg].
Qed.

(* ------------------------------------------------------------------ 4. freezing *)
Lemma nth_map_seqZ : forall (A : Type) (f : Z -> A) (d : A) n s k,
  (k < n)%nat -> nth k (map f (seqZ s n)) d = f (s + Z.of_nat k).
Proof.
  intros A f d. induction n as [|n IH]; intros s k Hk.
  - lia.
  - cbn [seqZ map]. destruct k as [|k].
    + cbn [nth]. f_equal. lia.
    + cbn [nth]. rewrite IH by lia. f_equal. lia.
Qed.

Lemma of_table_tabulate : forall d L C g y x,
  0 <= y < L -> 0 <= x < C -> of_table d (tabulate L C g) y x = g y x.
Proof.
  intros d L C g y x Hy Hx. unfold of_table, tabulate.
  destruct ((y <? 0) || (x <? 0)) eqn:E; [lia|].
  rewrite (nth_map_seqZ _ (fun y0 => map (fun x0 => g y0 x0) (seqZ 0 (Z.to_nat C))) [] (Z.to_nat L) 0 (Z.to_nat y)) by lia.
  rewrite (nth_map_seqZ _ (fun x0 => g (0 + Z.of_nat (Z.to_nat y)) x0) d (Z.to_nat C) 0 (Z.to_nat x)) by lia.
  f_equal; lia.
Qed.

(* holds for every state, well-formed or not *)
Lemma freeze_equiv_strong : forall v, vt_equiv v (vt_freeze v).
Proof.
  intros v. unfold vt_freeze. apply vt_equiv_intro; try reflexivity.
  - intros y x Hy Hx. cbn [set_other set_grid v_grid]. symmetry. apply of_table_tabulate; assumption.
  - intros y x Hy Hx. cbn [set_other set_grid v_other]. symmetry. apply of_table_tabulate; assumption.
Qed.
Theorem freeze_equiv : forall v, vt_wf v -> vt_equiv v (vt_freeze v).
Proof. intros v _. apply freeze_equiv_strong. Qed.
Theorem freeze_wf : forall v, vt_wf v -> vt_wf (vt_freeze v).
Proof. intros v Hwf. exact (wf_equiv _ _ Hwf (freeze_equiv v Hwf)). Qed.

(* ------------------------------------------------------------------ 5. the checkers *)
Lemma okb_equiv : forall v w, vt_equiv v w -> vt_okb w = vt_okb v.
Proof.
  intros v w (E1 & E2 & E3 & E4 & E5 & E6 & E7 & Hg & Ho).
  unfold vt_okb, row, col. rewrite E1, E2, E3, E4, E6. reflexivity.
Qed.

Lemma in_rangeb_equiv : forall q v w, vt_equiv v w -> in_rangeb q w = in_rangeb q v.
Proof.
  intros q v w (E1 & E2 & E3 & E4 & E5 & E6 & E7 & Hg & Ho).
  destruct q as [l c|d r|bs|n me| |r d rt|p|p]; unfold in_rangeb, row, col, pend;
    rewrite ?E1, ?E2, ?E3; reflexivity.
Qed.

Lemma erase_trigger_equiv : forall rv n me v w, vt_equiv v w ->
  erase_trigger rv n me w = erase_trigger rv n me v.
Proof.
  intros rv n me v w (E1 & E2 & E3 & E4 & E5 & E6 & E7 & Hg & Ho).
  unfold erase_trigger, col. rewrite E2, E3. reflexivity.
Qed.

Lemma forallb_ext_in : forall (A : Type) (f f' : A -> bool) l,
  (forall a, In a l -> f a = f' a) -> forallb f l = forallb f' l.
Proof.
  intros A f f' l. induction l as [|a l IH]; intros H.
  - reflexivity.
  - cbn [forallb]. rewrite (H a (or_introl eq_refl)). rewrite IH; [reflexivity|].
    intros a' Hin. apply H. right. exact Hin.
Qed.

Lemma forall_cells_ext : forall L C f f',
  (forall y x, 0 <= y < L -> 0 <= x < C -> f y x = f' y x) ->
  forall_cells L C f = forall_cells L C f'.
Proof.
  intros L C f f' H. unfold forall_cells. apply forallb_ext_in. intros y Hy.
  apply seqZ_In in Hy. apply forallb_ext_in. intros x Hx. apply seqZ_In in Hx.
  apply H; lia.
Qed.

Lemma frame_okb_equiv : forall v w v' w', vt_equiv v w -> vt_equiv v' w' ->
  frame_okb w w' = frame_okb v v'.
Proof.
  intros v w v' w' (E1 & E2 & E3 & E4 & E5 & E6 & E7 & Hg & Ho)
    (E1' & E2' & E3' & E4' & E5' & E6' & E7' & Hg' & Ho').
  unfold frame_okb. rewrite E1, E2, E6, E1', E2', E4', E6'. reflexivity.
Qed.

Lemma effect_cursorb_equiv : forall q v w v' w', vt_equiv v w -> vt_equiv v' w' ->
  effect_cursorb q w w' = effect_cursorb q v v'.
Proof.
  intros q v w v' w' (E1 & E2 & E3 & E4 & E5 & E6 & E7 & Hg & Ho)
    (E1' & E2' & E3' & E4' & E5' & E6' & E7' & Hg' & Ho').
  destruct q as [l c|d r|bs|n me| |r d rt|p|p]; unfold effect_cursorb, row, col, pend;
    rewrite ?E1, ?E2, ?E3, ?E3'; reflexivity.
Qed.

Lemma effect_cellb_equiv : forall q v w v' w' y x,
  vt_equiv v w -> vt_equiv v' w' -> in_rangeb q v = true ->
  v_lines v' = v_lines v -> v_cols v' = v_cols v ->
  0 <= y < v_lines v -> 0 <= x < v_cols v ->
  effect_cellb q w w' y x = effect_cellb q v v' y x.
Proof.
  intros q v w v' w' y x (E1 & E2 & E3 & E4 & E5 & E6 & E7 & Hg & Ho)
    (E1' & E2' & E3' & E4' & E5' & E6' & E7' & Hg' & Ho') Hr EL EC Hy Hx.
  assert (Hnew : v_grid w' y x = v_grid v' y x) by (symmetry; apply Hg'; lia).
  assert (Hold : v_grid w y x = v_grid v y x) by (symmetry; apply Hg; lia).
  unfold effect_cellb. cbv zeta. rewrite Hnew, Hold. unfold row, col. rewrite ?E3, ?E5.
  destruct q as [l c|d r|bs|n me| |r d rt|p|p]; try reflexivity.
  destruct (in_rect r y x) eqn:Ein; [|reflexivity].
  destruct (in_rect r (y + d) (x + rt)) eqn:Ein2; [|reflexivity].
  assert (Hsrc : v_grid w (y + d) (x + rt) = v_grid v (y + d) (x + rt)).
  { symmetry. unfold in_rangeb in Hr. unfold in_rect, r_bottom, r_right in *. apply Hg; lia. }
  rewrite Hsrc. reflexivity.
Qed.

Definition effect_body (q : req) (v v' : vt) : bool :=
  frame_okb v v' && effect_cursorb q v v' &&
  (match q with RChpen _ | RSetpen _ => true | _ => attrs_eqb (v_sgr v') (v_sgr v) end) &&
  forall_cells (v_lines v) (v_cols v) (effect_cellb q v v').
Lemma effect_okb_body : forall q ret silent v v',
  effect_okb q ret silent v v' =
  match q, ret with RScroll _ _ _, false => silent | _, _ => effect_body q v v' end.
Proof. intros q ret silent v v'. destruct q; destruct ret; reflexivity. Qed.

Lemma effect_body_equiv : forall q v w v' w',
  vt_equiv v w -> vt_equiv v' w' -> in_rangeb q v = true ->
  effect_body q w w' = effect_body q v v'.
Proof.
  intros q v w v' w' He He' Hr. unfold effect_body.
  rewrite (frame_okb_equiv v w v' w' He He'), (effect_cursorb_equiv q v w v' w' He He').
  destruct (frame_okb v v') eqn:Ef; [|reflexivity].
  assert (EL : v_lines v' = v_lines v) by (unfold frame_okb in Ef; lia).
  assert (EC : v_cols v' = v_cols v) by (unfold frame_okb in Ef; lia).
  assert (Hcells : forall_cells (v_lines w) (v_cols w) (effect_cellb q w w') =
                   forall_cells (v_lines v) (v_cols v) (effect_cellb q v v')).
  { destruct He as (E1 & E2 & He0). rewrite E1, E2. apply forall_cells_ext. intros y x Hy Hx.
    apply effect_cellb_equiv; auto. unfold vt_equiv. tauto. }
  rewrite Hcells.
  destruct He as (E1 & E2 & E3 & E4 & E5 & E6 & E7 & Hg & Ho).
  destruct He' as (E1' & E2' & E3' & E4' & E5' & E6' & E7' & Hg' & Ho').
  rewrite E5, E5'. reflexivity.
Qed.

Theorem effect_okb_equiv : forall q ret silent v w v' w',
  vt_equiv v w -> vt_equiv v' w' -> in_rangeb q v = true ->
  effect_okb q ret silent w w' = effect_okb q ret silent v v'.
Proof.
  intros q ret silent v w v' w' He He' Hr. rewrite !effect_okb_body.
  rewrite (effect_body_equiv q v w v' w' He He' Hr). reflexivity.
Qed.

(* ------------------------------------------------------------------ 6. the walks *)
(* [oracle_walk] without the tabulation: a function of the VT specification alone *)
Fixpoint spec_walk (i : nat) (v : vt) (obs : list (req * bool * list Z)) : verdict :=
  match obs with
  | [] => VOk i
  | (q, ret, bytes) :: rest =>
      if negb (vt_okb v && in_rangeb q v) then VOutOfRange i
      else
        let v' := vt_run_bytes bytes v in
        if effect_okb q ret (match bytes with [] => true | _ => false end) v v'
        then spec_walk (S i) v' rest
        else VBadAt i
  end.

Fixpoint spec_walk_excl (i : nat) (v : vt) (obs : list (req * bool * list Z)) : verdict :=
  match obs with
  | [] => VOk i
  | (q, ret, bytes) :: rest =>
      if negb (vt_okb v && in_rangeb q v) then VOutOfRange i
      else if match q with RErase n me => erase_trigger (a_reverse (v_sgr v)) n me v | _ => false end
      then VOutOfRange i
      else
        let v' := vt_run_bytes bytes v in
        if effect_okb q ret (match bytes with [] => true | _ => false end) v v'
        then spec_walk_excl (S i) v' rest
        else VBadAt i
  end.

(* one request of the oracle against one request of the specification *)
Lemma freeze_run_equiv : forall bytes v w, vt_wf v -> vt_equiv v w ->
  vt_equiv (vt_run_bytes bytes v) (vt_freeze (vt_run_bytes bytes w)).
Proof.
  intros bytes v w Hwf He.
  apply (vt_equiv_trans _ (vt_run_bytes bytes w)).
  - apply run_bytes_equiv; assumption.
  - apply freeze_equiv_strong.
Qed.

Theorem oracle_walk_sound : forall obs i v w,
  vt_wf v -> vt_equiv v w -> oracle_walk i w obs = spec_walk i v obs.
Proof.
  induction obs as [|[[q ret] bytes] rest IH]; intros i v w Hwf He.
  - reflexivity.
  - cbn [oracle_walk spec_walk].
    rewrite (okb_equiv v w He), (in_rangeb_equiv q v w He).
    destruct (vt_okb v && in_rangeb q v) eqn:Eok; cbn [negb]; [|reflexivity].
    assert (Hr : in_rangeb q v = true) by (apply andb_true_iff in Eok; tauto).
    pose proof (freeze_run_equiv bytes v w Hwf He) as He'.
    pose proof (run_bytes_wf bytes v Hwf) as Hwf'.
    rewrite (effect_okb_equiv q ret _ v w _ _ He He' Hr).
    destruct (effect_okb q ret match bytes with [] => true | _ :: _ => false end v (vt_run_bytes bytes v)) eqn:Eeff;
      [|reflexivity].
    apply IH; assumption.
Qed.

Theorem oracle_walk_excl_sound : forall obs i v w,
  vt_wf v -> vt_equiv v w -> oracle_walk_excl i w obs = spec_walk_excl i v obs.
Proof.
  induction obs as [|[[q ret] bytes] rest IH]; intros i v w Hwf He.
  - reflexivity.
  - cbn [oracle_walk_excl spec_walk_excl].
    rewrite (okb_equiv v w He), (in_rangeb_equiv q v w He).
    destruct (vt_okb v && in_rangeb q v) eqn:Eok; cbn [negb]; [|reflexivity].
    assert (Hr : in_rangeb q v = true) by (apply andb_true_iff in Eok; tauto).
    assert (Etr : match q with RErase n me => erase_trigger (a_reverse (v_sgr w)) n me w | _ => false end =
                  match q with RErase n me => erase_trigger (a_reverse (v_sgr v)) n me v | _ => false end).
    { destruct q as [l c|d r|bs|n me| |r d rt|p|p]; try reflexivity.
      rewrite (erase_trigger_equiv _ n me v w He).
      destruct He as (_ & _ & _ & _ & E5 & _). rewrite E5. reflexivity. }
    rewrite Etr.
    destruct (match q with RErase n me => erase_trigger (a_reverse (v_sgr v)) n me v | _ => false end) eqn:Et;
      [reflexivity|].
    pose proof (freeze_run_equiv bytes v w Hwf He) as He'.
    pose proof (run_bytes_wf bytes v Hwf) as Hwf'.
    rewrite (effect_okb_equiv q ret _ v w _ _ He He' Hr).
    destruct (effect_okb q ret match bytes with [] => true | _ :: _ => false end v (vt_run_bytes bytes v)) eqn:Eeff;
      [|reflexivity].
    apply IH; assumption.
Qed.

(* how the OCaml driver starts the walk *)
Lemma with_pattern_wf : forall v, vt_wf v -> vt_wf (with_pattern v).
Proof. intros v Hwf. exact Hwf. Qed.

Theorem oracle_start_sound : forall L C start obs, 0 < L -> 0 < C ->
  let v0 := with_pattern (vt_run_bytes start (vt_init L C)) in
  oracle_walk O (vt_freeze v0) obs = spec_walk O v0 obs.
Proof.
  intros L C start obs HL HC v0.
  assert (Hwf : vt_wf v0).
  { unfold v0. apply with_pattern_wf, run_bytes_wf, vt_init_wf; assumption. }
  apply oracle_walk_sound; [exact Hwf|apply freeze_equiv; exact Hwf].
Qed.
Theorem oracle_start_excl_sound : forall L C start obs, 0 < L -> 0 < C ->
  let v0 := with_pattern (vt_run_bytes start (vt_init L C)) in
  oracle_walk_excl O (vt_freeze v0) obs = spec_walk_excl O v0 obs.
Proof.
  intros L C start obs HL HC v0.
  assert (Hwf : vt_wf v0).
  { unfold v0. apply with_pattern_wf, run_bytes_wf, vt_init_wf; assumption. }
  apply oracle_walk_excl_sound; [exact Hwf|apply freeze_equiv; exact Hwf].
Qed.

(* ---- what an OK verdict of the pure walk says: every observation was judged in the state
   reached by running the bytes of all previous observations through [vt_run_bytes]; that
   state was good and the request in range there; the bytes observed have the request's
   direct effect on it *)
Fixpoint walk_ok (v : vt) (obs : list (req * bool * list Z)) : Prop :=
  match obs with
  | [] => True
  | (q, ret, bytes) :: rest =>
      vt_okb v = true /\ in_rangeb q v = true /\
      effect_okb q ret (match bytes with [] => true | _ => false end) v (vt_run_bytes bytes v) = true /\
      walk_ok (vt_run_bytes bytes v) rest
  end.

Theorem spec_walk_ok : forall obs i v n,
  spec_walk i v obs = VOk n -> walk_ok v obs /\ n = (i + length obs)%nat.
Proof.
  induction obs as [|[[q ret] bytes] rest IH]; intros i v n H.
  - cbn [spec_walk] in H. inversion H as [Hn]. cbn [walk_ok length]. split; [exact I|lia].
  - cbn [spec_walk] in H.
    destruct (vt_okb v && in_rangeb q v) eqn:Eok; cbn [negb] in H; [|discriminate H].
    destruct (effect_okb q ret match bytes with [] => true | _ :: _ => false end v (vt_run_bytes bytes v)) eqn:Eeff;
      [|discriminate H].
    apply andb_true_iff in Eok. destruct Eok as [Hok Hr].
    destruct (IH (S i) _ n H) as [Hrest Hn].
    cbn [walk_ok length]. repeat split; try assumption. lia.
Qed.

Theorem spec_walk_ok_conv : forall obs i v,
  walk_ok v obs -> spec_walk i v obs = VOk (i + length obs)%nat.
Proof.
  induction obs as [|[[q ret] bytes] rest IH]; intros i v H.
  - cbn [spec_walk length]. f_equal. lia.
  - cbn [walk_ok] in H. destruct H as (Hok & Hr & Heff & Hrest).
    cbn [spec_walk length]. rewrite Hok, Hr, Heff. cbn [andb negb].
    rewrite (IH (S i) _ Hrest). f_equal. lia.
Qed.

(* the same with the propositional reading of the checker *)
Corollary spec_walk_ok_prop : forall obs i v n,
  spec_walk i v obs = VOk n ->
  (fix all (v : vt) (obs : list (req * bool * list Z)) : Prop :=
     match obs with
     | [] => True
     | (q, ret, bytes) :: rest =>
         vt_ok v /\ in_range q v /\
         effect_ok q ret (match bytes with [] => true | _ => false end) v (vt_run_bytes bytes v) /\
         all (vt_run_bytes bytes v) rest
     end) v obs.
Proof.
  intros obs i v n H. apply spec_walk_ok in H. destruct H as [H _]. clear i n.
  revert v H. induction obs as [|[[q ret] bytes] rest IH]; intros v H.
  - exact I.
  - cbn [walk_ok] in H. destruct H as (Hok & Hr & Heff & Hrest).
    repeat split; try assumption.
    + apply effect_okb_spec. exact Heff.
    + apply IH. exact Hrest.
Qed.

(* with the recorded trigger class excluded: additionally no judged request was in the class *)
Fixpoint walk_ok_excl (v : vt) (obs : list (req * bool * list Z)) : Prop :=
  match obs with
  | [] => True
  | (q, ret, bytes) :: rest =>
      vt_okb v = true /\ in_rangeb q v = true /\
      (match q with RErase n me => erase_trigger (a_reverse (v_sgr v)) n me v | _ => false end) = false /\
      effect_okb q ret (match bytes with [] => true | _ => false end) v (vt_run_bytes bytes v) = true /\
      walk_ok_excl (vt_run_bytes bytes v) rest
  end.

Theorem spec_walk_excl_ok : forall obs i v n,
  spec_walk_excl i v obs = VOk n -> walk_ok_excl v obs /\ n = (i + length obs)%nat.
Proof.
  induction obs as [|[[q ret] bytes] rest IH]; intros i v n H.
  - cbn [spec_walk_excl] in H. inversion H as [Hn]. cbn [walk_ok_excl length]. split; [exact I|lia].
  - cbn [spec_walk_excl] in H.
    destruct (vt_okb v && in_rangeb q v) eqn:Eok; cbn [negb] in H; [|discriminate H].
    destruct (match q with RErase n0 me => erase_trigger (a_reverse (v_sgr v)) n0 me v | _ => false end) eqn:Et;
      [discriminate H|].
    destruct (effect_okb q ret match bytes with [] => true | _ :: _ => false end v (vt_run_bytes bytes v)) eqn:Eeff;
      [|discriminate H].
    apply andb_true_iff in Eok. destruct Eok as [Hok Hr].
    destruct (IH (S i) _ n H) as [Hrest Hn].
    cbn [walk_ok_excl length]. repeat split; try assumption. lia.
Qed.

(* ---- the oracle's OK verdict, read on the pure specification *)
Corollary oracle_start_ok : forall L C start obs n, 0 < L -> 0 < C ->
  let v0 := with_pattern (vt_run_bytes start (vt_init L C)) in
  oracle_walk O (vt_freeze v0) obs = VOk n -> walk_ok v0 obs /\ n = length obs.
Proof.
  intros L C start obs n HL HC v0 H.
  unfold v0 in *. rewrite (oracle_start_sound L C start obs HL HC) in H.
  apply spec_walk_ok in H. exact H.
Qed.
