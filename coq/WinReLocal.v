(* WinReLocal.v -- re-entering expose handlers, part 3(b): what ONE call into the window layer
   does, seen from one screen cell q0.

   Gd T0 s: the tree of s has unique ids and the skeleton of T0, its root is visible, and the
   damage set is in order (DmgOK).  Every call (tickit_window_expose / show / hide / restack,
   show and hide not aimed at the root) keeps Gd (run_act_gd), only ever adds to the covered
   region (run_act_cov_mono), and -- the locality fact -- if q0 is not covered afterwards,
   every window that mattered at q0 before the call (rel_ids) still has the visibility flag it
   had (run_act_local): a show or hide of such a window exposes a region containing q0.

   Hence each handler call is a step in the sense of WinReTrav.St (re_handler_step). *)
From Coq Require Import ZArith List Bool Lia ZifyBool.
From Tickit Require Import RectDefs RectProofs WinRectSet WinRectSetProofs WinDefs WinHist WinSpec
  WinExposeProofs WinFlushProofs WinLogDisjoint WinScreenInv WinLocality WinLocFocus WinPreserve
  WinReDefs WinReProofs WinReFlags WinReStatic WinReLive WinReTrav.
Import ListNotations.
Local Open Scope Z_scope.
Local Strategy 1000 [rsfuel].

Definition act_ok (rootid : Z) (a : ract) : Prop :=
  match a with RShow w | RHide w => w <> rootid | RExpose _ _ | RRestack _ _ => True end.

Definition Gd (T0 : wtree) (s : root) : Prop :=
  NoDup (t_ids (r_tree s)) /\ skel (r_tree s) = skel T0 /\ w_vis (t_info (r_tree s)) = true /\ DmgOK s.

(* ------------------------------------------------------------------------------------ *)
(* show and hide, unfolded                                                               *)

Definition hide_tree (y : Z) (p : wtree) (t : wtree) : wtree :=
  t_update (fun j => if opt_eqb (w_fchild j) y then set_fchild j None else j) (t_id p)
           (t_update (fun j => set_vis j false) y t).

Definition hide_pre (cfg : defects) (s : root) (y : Z) (p : wtree) : root :=
  if opt_eqb (w_fchild (t_info p)) y && negb (d_chain_norestore cfg)
  then request_restore (set_tree s (hide_tree y p (r_tree s)))
  else set_tree s (hide_tree y p (r_tree s)).

Lemma win_hide_unfold cfg s y w p rest :
  t_chain y (r_tree s) = Some (w :: p :: rest) ->
  win_hide cfg s y = win_expose (hide_pre cfg s y p) (t_id p) (Some (w_rect (t_info w))).
Proof. intros H. unfold win_hide. rewrite H. reflexivity. Qed.

Definition show_link (w p : wtree) : bool :=
  match w_fchild (t_info p) with
  | None => (match w_fchild (t_info w) with Some _ => true | None => false end) || w_focused (t_info w)
  | Some _ => false
  end.

Definition show_tree (y : Z) (w p : wtree) (t : wtree) : wtree :=
  if show_link w p
  then t_update (fun j => set_fchild j (Some y)) (t_id p) (t_update (fun j => set_vis j true) y t)
  else t_update (fun j => set_vis j true) y t.

Definition show_pre (cfg : defects) (s : root) (y : Z) (w p : wtree) : root :=
  if show_link w p && negb (d_chain_norestore cfg)
  then request_restore (set_tree s (show_tree y w p (r_tree s)))
  else set_tree s (show_tree y w p (r_tree s)).

Lemma win_show_unfold cfg s y w p rest :
  t_chain y (r_tree s) = Some (w :: p :: rest) ->
  win_show cfg s y = win_expose (show_pre cfg s y w p) y None.
Proof.
  intros H. unfold win_show. rewrite H. unfold show_pre, show_tree, show_link.
  destruct (match w_fchild (t_info p) with
            | Some _ => false
            | None => (match w_fchild (t_info w) with Some _ => true | None => false end) || w_focused (t_info w)
            end); reflexivity.
Qed.

Lemma keeps_shape_vis b : keeps_shape (fun j => set_vis j b).
Proof. split; intros i; reflexivity. Qed.
Lemma keeps_shape_link c : keeps_shape (fun j => set_fchild j c).
Proof. split; intros i; reflexivity. Qed.
Lemma keeps_shape_unlink id : keeps_shape (fun j => if opt_eqb (w_fchild j) id then set_fchild j None else j).
Proof. split; intros i; destruct (opt_eqb (w_fchild i) id); reflexivity. Qed.

Lemma hide_tree_skel y p t : skel (hide_tree y p t) = skel t.
Proof.
  unfold hide_tree. rewrite skel_update by apply keeps_shape_unlink.
  apply skel_update. apply keeps_shape_vis.
Qed.

Lemma show_tree_skel y w p t : skel (show_tree y w p t) = skel t.
Proof.
  unfold show_tree. destruct (show_link w p).
  - rewrite skel_update by apply keeps_shape_link. apply skel_update. apply keeps_shape_vis.
  - apply skel_update. apply keeps_shape_vis.
Qed.

Lemma keeps_id_vis b : keeps_id (fun j => set_vis j b).
Proof. intros i; reflexivity. Qed.

Lemma hide_tree_vis y p t x : x <> y -> vis_in (hide_tree y p t) x = vis_in t x.
Proof.
  intros Hne. unfold hide_tree. rewrite vis_in_update_keeps.
  - apply vis_in_update_other; [apply keeps_id_vis|exact Hne].
  - intros i. destruct (opt_eqb (w_fchild i) y); reflexivity.
  - intros i. destruct (opt_eqb (w_fchild i) y); reflexivity.
Qed.

Lemma show_tree_vis y w p t x : x <> y -> vis_in (show_tree y w p t) x = vis_in t x.
Proof.
  intros Hne. unfold show_tree. destruct (show_link w p).
  - rewrite vis_in_update_keeps; [|intros i; reflexivity|intros i; reflexivity].
    apply vis_in_update_other; [apply keeps_id_vis|exact Hne].
  - apply vis_in_update_other; [apply keeps_id_vis|exact Hne].
Qed.

Lemma r_tree_hide_pre cfg s y p : r_tree (hide_pre cfg s y p) = hide_tree y p (r_tree s).
Proof. unfold hide_pre. apply r_tree_cond. Qed.

Lemma r_tree_show_pre cfg s y w p : r_tree (show_pre cfg s y w p) = show_tree y w p (r_tree s).
Proof. unfold show_pre. apply r_tree_cond. Qed.

Lemma same_dmg_hide_pre cfg s y p : same_dmg s (hide_pre cfg s y p).
Proof.
  unfold hide_pre. apply same_dmg_cond. apply same_dmg_set_tree.
  destruct (skel_eq_root _ _ (hide_tree_skel y p (r_tree s))) as [_ H]. exact H.
Qed.

Lemma same_dmg_show_pre cfg s y w p : same_dmg s (show_pre cfg s y w p).
Proof.
  unfold show_pre. apply same_dmg_cond. apply same_dmg_set_tree.
  destruct (skel_eq_root _ _ (show_tree_skel y w p (r_tree s))) as [_ H]. exact H.
Qed.

(* the root of a tree is found first *)
Lemma vis_in_root t : vis_in t (t_id t) = w_vis (t_info t).
Proof.
  destruct t as [i ch]. unfold vis_in. rewrite t_find_unfold. unfold t_id; cbn [t_info].
  rewrite Z.eqb_refl. reflexivity.
Qed.

(* ------------------------------------------------------------------------------------ *)
(* the tree after one call                                                               *)

Lemma chain_cases y t :
  NoDup (t_ids t) -> y <> t_id t ->
  t_chain y t = None \/ exists w p rest, t_chain y t = Some (w :: p :: rest).
Proof.
  intros Hnd Hy. destruct (t_chain y t) as [[|w [|p rest]]|] eqn:E.
  - exfalso. exact (chain_nonempty _ _ E).
  - exfalso. apply Hy. destruct (chain_single _ _ _ E) as [_ H]. symmetry. exact H.
  - right. exists w, p, rest. reflexivity.
  - left. reflexivity.
Qed.

(* skeleton and flags of the tree after a call *)
Lemma run_act_tree cfg s a :
  NoDup (t_ids (r_tree s)) -> act_ok (t_id (r_tree s)) a ->
  skel (r_tree (run_act cfg s a)) = skel (r_tree s) /\
  forall x, (match a with RShow y | RHide y => x <> y | _ => True end) ->
            vis_now (run_act cfg s a) x = vis_now s x.
Proof.
  intros Hu Hok. destruct a as [id r|y|y|k id]; cbn [run_act act_ok] in *.
  - split; [rewrite win_expose_tree; reflexivity|]. intros x _.
    rewrite !vis_now_in, win_expose_tree. reflexivity.
  - destruct (chain_cases y _ Hu Hok) as [E|(w & p & rest & E)].
    + unfold win_show. rewrite E. split; reflexivity.
    + rewrite (win_show_unfold cfg s y w p rest E). split.
      * rewrite win_expose_tree, r_tree_show_pre. apply show_tree_skel.
      * intros x Hx. rewrite !vis_now_in, win_expose_tree, r_tree_show_pre. apply show_tree_vis. exact Hx.
  - destruct (chain_cases y _ Hu Hok) as [E|(w & p & rest & E)].
    + unfold win_hide. rewrite E. split; reflexivity.
    + rewrite (win_hide_unfold cfg s y w p rest E). split.
      * rewrite win_expose_tree, r_tree_hide_pre. apply hide_tree_skel.
      * intros x Hx. rewrite !vis_now_in, win_expose_tree, r_tree_hide_pre. apply hide_tree_vis. exact Hx.
  - split; [rewrite win_restack_tree; reflexivity|]. intros x _.
    rewrite !vis_now_in, win_restack_tree. reflexivity.
Qed.

Theorem run_act_gd cfg T0 s a : Gd T0 s -> act_ok (t_id T0) a -> Gd T0 (run_act cfg s a).
Proof.
  intros (Hu & Hsk & Hrv & HD) Hok.
  assert (Hid : t_id (r_tree s) = t_id T0).
  { destruct (skel_eq_root _ _ Hsk) as [H _]. exact H. }
  rewrite <- Hid in Hok.
  destruct (run_act_tree cfg s a Hu Hok) as [Hsk' Hvis].
  split; [|split; [|split]].
  - rewrite (skel_eq_ids _ _ Hsk'). exact Hu.
  - rewrite Hsk'. exact Hsk.
  - assert (Hid' : t_id (r_tree (run_act cfg s a)) = t_id (r_tree s)).
    { destruct (skel_eq_root _ _ Hsk') as [H _]. exact H. }
    rewrite <- vis_in_root, Hid', <- vis_now_in, Hvis, vis_now_in, vis_in_root; [exact Hrv|].
    destruct a; cbn [act_ok] in Hok; try exact I; intros E; apply Hok; symmetry; exact E.
  - apply run_act_dmgok. exact HD.
Qed.

(* ------------------------------------------------------------------------------------ *)
(* the covered region only grows                                                         *)

Lemma win_expose_cov_mono st id ex :
  DmgOK st -> r_fault (win_expose st id ex) = false ->
  forall p, covered (r_damage st) p -> covered (r_damage (win_expose st id ex)) p.
Proof.
  intros [Hr Hne] Hf. pose proof (win_expose_fault _ _ _ Hf) as Hf0.
  destruct (win_expose_spec st id ex (Hne Hf0)) as [Hde _]; [|exact Hf|apply (de_cov _ _ Hde)].
  intros _ w Hw. destruct (chain_single _ _ _ Hw) as [-> _].
  unfold nonempty, selfrect; cbn [lines cols]. exact Hr.
Qed.

Theorem run_act_cov_mono cfg s a :
  DmgOK s -> r_fault (run_act cfg s a) = false ->
  forall p, covered (r_damage s) p -> covered (r_damage (run_act cfg s a)) p.
Proof.
  intros HD Hf p Hp. destruct a as [id r|id|id|k id]; cbn [run_act] in *.
  - apply win_expose_cov_mono; assumption.
  - destruct (win_show_shape cfg s id) as [E|(X & y & ex & HX & E & _)]; rewrite E in *; [exact Hp|].
    apply win_expose_cov_mono; [apply (same_dmg_dmgok s X HX HD)|exact Hf|].
    destruct HX as (-> & _). exact Hp.
  - destruct (win_hide_shape cfg s id) as [E|[(X & HX & E)|(X & y & r & HX & E)]]; rewrite E in *.
    + exact Hp.
    + destruct HX as (-> & _). exact Hp.
    + apply win_expose_cov_mono; [apply (same_dmg_dmgok s X HX HD)|exact Hf|].
      destruct HX as (-> & _). exact Hp.
  - unfold win_restack. destruct (t_parent_id id (r_tree s)); [|exact Hp].
    destruct (r_queue s); exact Hp.
Qed.

(* ------------------------------------------------------------------------------------ *)
(* locality                                                                              *)

Lemma hide_local cfg T0 s y q0 :
  Gd T0 s -> y <> t_id (r_tree s) -> r_fault (win_hide cfg s y) = false ->
  cell_in (selfrect (t_info (r_tree s))) q0 ->
  In y (rel_ids (vis_now s) (r_tree s) q0) ->
  covered (r_damage (win_hide cfg s y)) q0.
Proof.
  intros (Hu & Hsk & Hrv & HD) Hy Hf Hq0 Hrel.
  destruct (chain_cases y _ Hu Hy) as [E|(w & p & rest & Ech)].
  { exfalso. apply (chain_none_notin _ _ E).
    apply rel_ids_below in Hrel. destruct (r_tree s) as [i ch]. cbn [t_ids t_kids] in *. right. exact Hrel. }
  rewrite (win_hide_unfold cfg s y w p rest Ech) in *.
  destruct (chain_parent y _ w p rest Hu Ech) as (Hidw & Hwp & Hfp & Hfw & Hne & Hpin).
  destruct (update_kc _ y (t_id p) (keeps_id_vis false) _ p w Hu Hfp Hwp Hidw) as [D Hkc].
  set (tr1 := t_update (fun j => set_vis j false) y (r_tree s)) in *.
  set (st1 := hide_pre cfg s y p) in *.
  assert (Hg : geq_tree tr1 (r_tree st1)).
  { subst st1. rewrite r_tree_hide_pre. unfold hide_tree. fold tr1. apply geq_update. apply keeps_geo_unlink. }
  assert (Hv1 : w_vis (t_info tr1) = true) by (rewrite (kc_info _ _ _ _ _ _ Hkc); exact Hrv).
  pose proof (same_dmg_hide_pre cfg s y p) as HX. fold st1 in HX.
  assert (Hne1 : all_nonempty (r_damage st1)).
  { destruct (same_dmg_dmgok s st1 HX HD) as [_ H]. apply H.
    apply (win_expose_fault _ _ _ Hf). }
  destruct (expose_covers_kc st1 (t_id p) (w_rect (t_info w)) _ _ _ tr1 D Hkc Hg Hv1 Hne1 Hf) as [_ Hcov].
  destruct (rel_reach (vis_now s) _ _ _ _ _ D Hkc Hu (Vok_self _ Hu) w q0 Hwp) as (q' & Hr & Hq').
  { rewrite Hidw. exact Hrel. }
  apply (Hcov q0 q'); [|exact Hr|apply cell_inb_iff; exact Hq'].
  rewrite (kc_info _ _ _ _ _ _ Hkc). exact Hq0.
Qed.

Lemma show_local cfg T0 s y q0 :
  Gd T0 s -> y <> t_id (r_tree s) -> r_fault (win_show cfg s y) = false ->
  cell_in (selfrect (t_info (r_tree s))) q0 ->
  In y (rel_ids (vis_now s) (r_tree s) q0) ->
  covered (r_damage (win_show cfg s y)) q0.
Proof.
  intros (Hu & Hsk & Hrv & HD) Hy Hf Hq0 Hrel.
  destruct (chain_cases y _ Hu Hy) as [E|(w & p & rest & Ech)].
  { exfalso. apply (chain_none_notin _ _ E).
    apply rel_ids_below in Hrel. destruct (r_tree s) as [i ch]. cbn [t_ids t_kids] in *. right. exact Hrel. }
  rewrite (win_show_unfold cfg s y w p rest Ech) in *.
  destruct (chain_parent y _ w p rest Hu Ech) as (Hidw & Hwp & Hfp & Hfw & Hne & Hpin).
  destruct (update_kc _ y (t_id p) (keeps_id_vis true) _ p w Hu Hfp Hwp Hidw) as [D Hkc].
  set (tr1 := t_update (fun j => set_vis j true) y (r_tree s)) in *.
  set (st1 := show_pre cfg s y w p) in *.
  assert (Hg : geq_tree tr1 (r_tree st1)).
  { subst st1. rewrite r_tree_show_pre. unfold show_tree. fold tr1.
    destruct (show_link w p); [apply geq_update; apply keeps_geo_link|apply geq_refl]. }
  assert (Hv1 : w_vis (t_info tr1) = true) by (rewrite (kc_info _ _ _ _ _ _ Hkc); exact Hrv).
  assert (Hu1 : NoDup (t_ids tr1)) by (subst tr1; rewrite update_ids by apply keeps_id_vis; exact Hu).
  pose proof (same_dmg_show_pre cfg s y w p) as HX. fold st1 in HX.
  assert (Hne1 : all_nonempty (r_damage st1)).
  { destruct (same_dmg_dmgok s st1 HX HD) as [_ H]. apply H.
    apply (win_expose_fault _ _ _ Hf). }
  pose (c' := Node (set_vis (t_info w) true) (t_kids w)).
  assert (Hc' : In c' (map (upd_child (fun j => set_vis j true) y) (t_kids p))).
  { apply (upd_child_in_fwd (fun j => set_vis j true) y (t_kids p) w Hwp Hidw). }
  destruct (kc_child_path _ _ _ _ _ _ c' Hkc Hu1 Hc') as (pth & Hp & Hm).
  assert (Hidc : t_id c' = y) by (rewrite <- Hidw; reflexivity).
  rewrite Hidc in Hp.
  destruct (expose_covers_gen st1 y None tr1 (pth ++ [c']) Hp Hg Hv1) as [_ Hcov].
  { intros _ H. destruct pth; discriminate. }
  { exact Hne1. }
  { exact Hf. }
  destruct (rel_reach (vis_now s) _ _ _ _ _ D Hkc Hu (Vok_self _ Hu) w q0 Hwp) as (q' & Hr & Hq').
  { rewrite Hidw. exact Hrel. }
  apply (Hcov q0 (fst q' - top (w_rect (t_info w)), snd q' - left (w_rect (t_info w)))).
  - rewrite (kc_info _ _ _ _ _ _ Hkc). exact Hq0.
  - rewrite map_app, reach_app. rewrite <- Hm, map_map in Hr. rewrite Hr.
    cbn [map reach]. unfold geo, c'. cbn [fst snd t_info set_vis w_vis w_rect andb].
    rewrite Hq'. reflexivity.
  - exact I.
Qed.

Theorem run_act_local cfg T0 s a q0 :
  Gd T0 s -> act_ok (t_id T0) a -> r_fault (run_act cfg s a) = false ->
  cell_in (selfrect (t_info T0)) q0 ->
  ~ covered (r_damage (run_act cfg s a)) q0 ->
  forall x, In x (rel_ids (vis_now s) (r_tree s) q0) -> vis_now (run_act cfg s a) x = vis_now s x.
Proof.
  intros HG Hok Hf Hq0 Hnc x Hx.
  pose proof HG as (Hu & Hsk & Hrv & HD).
  destruct (skel_eq_root _ _ Hsk) as [Hid Hrect].
  assert (Hq0' : cell_in (selfrect (t_info (r_tree s))) q0).
  { unfold selfrect in *. rewrite Hrect. exact Hq0. }
  assert (Hok' : act_ok (t_id (r_tree s)) a) by (unfold t_id; rewrite Hid; exact Hok).
  destruct (run_act_tree cfg s a Hu Hok') as [_ Hvis].
  destruct a as [id r|y|y|k id]; cbn [act_ok run_act] in *; try (apply Hvis; exact I).
  - destruct (Z.eq_dec x y) as [->|Hne]; [|apply Hvis; exact Hne].
    exfalso. apply Hnc. apply (show_local cfg T0 s y q0 HG Hok' Hf Hq0' Hx).
  - destruct (Z.eq_dec x y) as [->|Hne]; [|apply Hvis; exact Hne].
    exfalso. apply Hnc. apply (hide_local cfg T0 s y q0 HG Hok' Hf Hq0' Hx).
Qed.

(* ------------------------------------------------------------------------------------ *)
(* every handler call is a step                                                          *)

Section steps.
  Variables (cfg : defects) (T0 : wtree) (q0 : cell) (V : Z -> bool).
  Hypothesis Hq0 : cell_in (selfrect (t_info T0)) q0.

  Lemma run_act_step s a :
    Gd T0 s -> act_ok (t_id T0) a ->
    Gd T0 (run_act cfg s a) /\ St q0 V T0 s (run_act cfg s a).
  Proof.
    intros HG Hok. split; [apply run_act_gd; assumption|].
    intros Hf Hnc. pose proof HG as (Hu & Hsk & Hrv & HD).
    split; [apply (run_act_fault cfg s a Hf)|]. split.
    - intros Hc. apply Hnc. apply (run_act_cov_mono cfg s a HD Hf). exact Hc.
    - intros HO x Hx. unfold OKs, RelSet in *.
      rewrite (run_act_local cfg T0 s a q0 HG Hok Hf Hq0 Hnc); [apply HO; exact Hx|].
      rewrite (rel_ids_skel (vis_now s) T0 (r_tree s) q0 Hsk).
      rewrite (proj2 (live_agree V (vis_now s) T0 q0 HO)). exact Hx.
  Qed.

  Lemma run_acts_step acts : (forall a, In a acts -> act_ok (t_id T0) a) ->
    forall s, Gd T0 s -> Gd T0 (run_acts cfg acts s) /\ St q0 V T0 s (run_acts cfg acts s).
  Proof.
    unfold run_acts. induction acts as [|a rest IH]; intros Hok s HG.
    - cbn [fold_left]. split; [exact HG|apply St_refl].
    - cbn [fold_left]. destruct (run_act_step s a HG (Hok a (or_introl eq_refl))) as [HG1 HS1].
      destruct (IH (fun a' H => Hok a' (or_intror H)) _ HG1) as [HG2 HS2].
      split; [exact HG2|]. eapply St_trans; eassumption.
  Qed.

  Lemma re_handler_step hnd racts :
    (forall id a, In a (racts id) -> act_ok (t_id T0) a) ->
    forall id r sb, Gd T0 (fst sb) ->
      Gd T0 (fst (re_handler cfg hnd racts id r sb)) /\
      St q0 V T0 (fst sb) (fst (re_handler cfg hnd racts id r sb)).
  Proof.
    intros Hok id r sb HG. unfold re_handler. cbn [fst]. apply run_acts_step; [|exact HG].
    intros a Ha. apply (Hok id a Ha).
  Qed.
End steps.
