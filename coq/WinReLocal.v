(* WinReLocal.v -- re-entering expose handlers, part 3(b): what ONE call into the window layer
   does, seen from one screen cell q0.

   G0 rid s: the forest of s (the tree and the detached subtrees) has unique ids, the root has
   id rid and is visible, the damage set is in order (DmgOK).  Gd rid T P s adds what ties s to
   the tree T a traversal walks: the tree of s comes from T by flag changes and by cutting out
   windows that are now roots of detached subtrees (evolves), and every window still in the
   tree has the parent P gives.

   Every call (tickit_window_expose / show / hide / restack / close / destroy; show and hide
   not aimed at the root) keeps both, only ever adds to the covered region
   (run_act_cov_mono), and -- the locality fact -- if q0 is not covered afterwards, every
   window that mattered at q0 before the call (rel_ids) has kept its visibility flag, and its
   parent unless it was invisible (run_act_local): a show, hide or close of such a window
   exposes a region containing q0.  Hence each handler call is a step in the sense of
   WinReTrav.St and WinReTrav.St0 (re_handler_step, re_handler_step0). *)
From Coq Require Import ZArith List Bool Lia ZifyBool Permutation.
From Tickit Require Import RectDefs RectProofs WinRectSet WinRectSetProofs WinDefs WinHist WinSpec
  WinExposeProofs WinFlushProofs WinLogDisjoint WinScreenInv WinLocality WinLocFocus WinPreserve
  WinInput WinReDefs WinReProofs WinReFlags WinReStatic WinReLive WinReTrav.
From Tickit Require WinInputProofs.
Import ListNotations.
Local Open Scope Z_scope.
Local Strategy 1000 [rsfuel].

Definition act_ok (rootid : Z) (a : ract) : Prop :=
  match a with RShow w | RHide w => w <> rootid | _ => True end.

(* ------------------------------------------------------------------------------------ *)
(* show and hide, unfolded                                                               *)

Definition hide_tree (y : Z) (p : wtree) (t : wtree) : wtree :=
  t_update (fun j => if opt_eqb (w_fchild j) y then set_fchild j None else j) (t_id p)
           (t_update (fun j => set_vis j false) y t).

Definition hide_pre (cfg : defects) (s : root) (y : Z) (p : wtree) : root :=
  if opt_eqb (w_fchild (t_info p)) y && negb (d_chain_norestore cfg)
  then request_restore (set_tree s (hide_tree y p (r_tree s)))
  else set_tree s (hide_tree y p (r_tree s)).

Lemma win_hide_unfold cfg s y w p rest :
  t_chain y (r_tree s) = Some (w :: p :: rest) ->
  win_hide cfg s y = win_expose (hide_pre cfg s y p) (t_id p) (Some (w_rect (t_info w))).
Proof. intros H. unfold win_hide. rewrite H. reflexivity. Qed.

Definition show_link (w p : wtree) : bool :=
  match w_fchild (t_info p) with
  | None => (match w_fchild (t_info w) with Some _ => true | None => false end) || w_focused (t_info w)
  | Some _ => false
  end.

Definition show_tree (y : Z) (w p : wtree) (t : wtree) : wtree :=
  if show_link w p
  then t_update (fun j => set_fchild j (Some y)) (t_id p) (t_update (fun j => set_vis j true) y t)
  else t_update (fun j => set_vis j true) y t.

Definition show_pre (cfg : defects) (s : root) (y : Z) (w p : wtree) : root :=
  if show_link w p && negb (d_chain_norestore cfg)
  then request_restore (set_tree s (show_tree y w p (r_tree s)))
  else set_tree s (show_tree y w p (r_tree s)).

Lemma win_show_unfold cfg s y w p rest :
  t_chain y (r_tree s) = Some (w :: p :: rest) ->
  win_show cfg s y = win_expose (show_pre cfg s y w p) y None.
Proof.
  intros H. unfold win_show. rewrite H. unfold show_pre, show_tree, show_link.
  destruct (match w_fchild (t_info p) with
            | Some _ => false
            | None => (match w_fchild (t_info w) with Some _ => true | None => false end) || w_focused (t_info w)
            end); reflexivity.
Qed.

Lemma keeps_shape_vis b : keeps_shape (fun j => set_vis j b).
Proof. split; intros i; reflexivity. Qed.
Lemma keeps_shape_link c : keeps_shape (fun j => set_fchild j c).
Proof. split; intros i; reflexivity. Qed.
Lemma keeps_shape_unlink id : keeps_shape (fun j => if opt_eqb (w_fchild j) id then set_fchild j None else j).
Proof. split; intros i; destruct (opt_eqb (w_fchild i) id); reflexivity. Qed.

Lemma hide_tree_skel y p t : skel (hide_tree y p t) = skel t.
Proof.
  unfold hide_tree. rewrite skel_update by apply keeps_shape_unlink.
  apply skel_update. apply keeps_shape_vis.
Qed.

Lemma show_tree_skel y w p t : skel (show_tree y w p t) = skel t.
Proof.
  unfold show_tree. destruct (show_link w p).
  - rewrite skel_update by apply keeps_shape_link. apply skel_update. apply keeps_shape_vis.
  - apply skel_update. apply keeps_shape_vis.
Qed.

Lemma keeps_id_vis b : keeps_id (fun j => set_vis j b).
Proof. intros i; reflexivity. Qed.

Lemma hide_tree_vis y p t x : x <> y -> vis_in (hide_tree y p t) x = vis_in t x.
Proof.
  intros Hne. unfold hide_tree. rewrite vis_in_update_keeps.
  - apply vis_in_update_other; [apply keeps_id_vis|exact Hne].
  - intros i. destruct (opt_eqb (w_fchild i) y); reflexivity.
  - intros i. destruct (opt_eqb (w_fchild i) y); reflexivity.
Qed.

Lemma show_tree_vis y w p t x : x <> y -> vis_in (show_tree y w p t) x = vis_in t x.
Proof.
  intros Hne. unfold show_tree. destruct (show_link w p).
  - rewrite vis_in_update_keeps; [|intros i; reflexivity|intros i; reflexivity].
    apply vis_in_update_other; [apply keeps_id_vis|exact Hne].
  - apply vis_in_update_other; [apply keeps_id_vis|exact Hne].
Qed.

Lemma r_tree_hide_pre cfg s y p : r_tree (hide_pre cfg s y p) = hide_tree y p (r_tree s).
Proof. unfold hide_pre. apply r_tree_cond. Qed.

Lemma r_tree_show_pre cfg s y w p : r_tree (show_pre cfg s y w p) = show_tree y w p (r_tree s).
Proof. unfold show_pre. apply r_tree_cond. Qed.

Lemma same_dmg_hide_pre cfg s y p : same_dmg s (hide_pre cfg s y p).
Proof.
  unfold hide_pre. apply same_dmg_cond. apply same_dmg_set_tree.
  destruct (skel_eq_root _ _ (hide_tree_skel y p (r_tree s))) as [_ H]. exact H.
Qed.

Lemma same_dmg_show_pre cfg s y w p : same_dmg s (show_pre cfg s y w p).
Proof.
  unfold show_pre. apply same_dmg_cond. apply same_dmg_set_tree.
  destruct (skel_eq_root _ _ (show_tree_skel y w p (r_tree s))) as [_ H]. exact H.
Qed.

(* the root of a tree is found first *)
Lemma vis_in_root t : vis_in t (t_id t) = w_vis (t_info t).
Proof.
  destruct t as [i ch]. unfold vis_in. rewrite t_find_unfold. unfold t_id; cbn [t_info].
  rewrite Z.eqb_refl. reflexivity.
Qed.

Lemma chain_cases y t :
  NoDup (t_ids t) -> y <> t_id t ->
  t_chain y t = None \/ exists w p rest, t_chain y t = Some (w :: p :: rest).
Proof.
  intros Hnd Hy. destruct (t_chain y t) as [[|w [|p rest]]|] eqn:E.
  - exfalso. exact (chain_nonempty _ _ E).
  - exfalso. apply Hy. destruct (chain_single _ _ _ E) as [_ H]. symmetry. exact H.
  - right. exists w, p, rest. reflexivity.
  - left. reflexivity.
Qed.

(* ------------------------------------------------------------------------------------ *)
(* close, unfolded                                                                       *)

Definition close_tree (y : Z) (p : wtree) (t : wtree) : wtree :=
  t_update (fun j => if opt_eqb (w_fchild j) y then set_fchild j None else j) (t_id p)
           (t_upd_kids (kids_remove y) (t_id p) t).

Lemma win_close_unfold cfg s y w p rest :
  t_chain y (r_tree s) = Some (w :: p :: rest) ->
  exists st1, same_dmg s st1 /\ r_tree st1 = close_tree y p (r_tree s) /\
    win_close cfg s y = if w_vis (t_info w) then win_expose st1 (t_id p) (Some (w_rect (t_info w))) else st1.
Proof.
  intros Hch. unfold win_close. rewrite Hch. cbv zeta. fold (close_tree y p (r_tree s)).
  set (tr2 := close_tree y p (r_tree s)).
  set (st00 := set_queue (set_orphans (set_tree s tr2) (w :: r_orphans s))
                         (filter (fun e => match e with (_, _, w') => negb (id_in w' (sub_ids w)) end) (r_queue s))).
  set (st0 := match r_dsrc st00 with
              | Some src => if negb (d_drag_stale cfg) && id_in src (sub_ids w)
                            then set_drag st00 (r_dragging st00) (r_lbtn st00) (r_lline st00) (r_lcol st00) None
                            else st00
              | None => st00
              end).
  set (st1 := if opt_eqb (w_fchild (t_info p)) y && negb (d_chain_norestore cfg)
              then request_restore st0 else st0).
  assert (H00 : same_dmg s st00 /\ r_tree st00 = tr2).
  { split; [|reflexivity].
    unfold same_dmg, st00; cbn [r_damage r_fault r_queue r_nexp r_later r_tree set_queue set_orphans set_tree].
    split; [reflexivity|]. split; [reflexivity|]. split.
    - intros H E. apply H. rewrite E. reflexivity.
    - split; [reflexivity|]. split; [tauto|].
      unfold tr2, close_tree. rewrite update_root_rect by apply keeps_rect_unlink.
      rewrite upd_kids_root_info. reflexivity. }
  assert (H0 : same_dmg s st0 /\ r_tree st0 = tr2).
  { unfold st0. destruct (r_dsrc st00) as [src|]; [|exact H00].
    destruct (negb (d_drag_stale cfg) && id_in src (sub_ids w)); [|exact H00].
    destruct H00 as [A B]. split; [|exact B].
    unfold same_dmg in *; cbn [r_damage r_fault r_queue r_nexp r_later r_tree set_drag]. exact A. }
  exists st1. destruct H0 as [A B]. split; [unfold st1; apply same_dmg_cond; exact A|].
  split; [unfold st1; rewrite r_tree_cond; exact B|reflexivity].
Qed.

Lemma win_close_noop cfg s y :
  NoDup (t_ids (r_tree s)) -> (t_find y (r_tree s) = None \/ y = t_id (r_tree s)) -> win_close cfg s y = s.
Proof.
  intros Hu [Hn| ->].
  - unfold win_close. destruct (in_dec Z.eq_dec y (t_ids (r_tree s))) as [Hin|Hnin].
    + destruct (t_find_some y _ Hu Hin) as [n E]. congruence.
    + unfold t_chain. rewrite (t_path_notin _ _ Hnin). reflexivity.
  - unfold win_close, t_chain. rewrite path_self. reflexivity.
Qed.

(* ------------------------------------------------------------------------------------ *)
(* the invariants                                                                        *)

Definition G0 (rid : Z) (s : root) : Prop :=
  IP.ids_unique s /\ t_id (r_tree s) = rid /\ w_vis (t_info (r_tree s)) = true /\ DmgOK s.

(* every window still in the tree has the parent P says *)
Definition ParKeep (P : Z -> option Z) (s : root) : Prop :=
  forall x, In x (t_ids (r_tree s)) -> x <> t_id (r_tree s) -> f_parent s x = P x.

Definition Gd (rid : Z) (T : wtree) (P : Z -> option Z) (s : root) : Prop :=
  G0 rid s /\
  (exists D, evolves T (r_tree s) D /\ forall x, In x D -> In x (map t_id (r_orphans s))) /\
  ParKeep P s.

(* ------------------------------------------------------------------------------------ *)
(* what a call does to the forest                                                        *)

(* the calls that keep the shape of the forest: everything but an effective close *)
Definition keeps_forest (s s' : root) (y : option Z) : Prop :=
  skel (r_tree s') = skel (r_tree s) /\ r_orphans s' = r_orphans s /\
  (forall T D, evolves T (r_tree s) D -> evolves T (r_tree s') D) /\
  (forall x, y <> Some x -> vis_in (r_tree s') x = vis_in (r_tree s) x).

Lemma keeps_forest_refl s y : keeps_forest s s y.
Proof. unfold keeps_forest. tauto. Qed.

Lemma keeps_forest_tree s s' y :
  r_tree s' = r_tree s -> r_orphans s' = r_orphans s -> keeps_forest s s' y.
Proof. intros E1 E2. unfold keeps_forest. rewrite E1, E2. tauto. Qed.

Lemma win_expose_orphans st id ex : r_orphans (win_expose st id ex) = r_orphans st.
Proof. apply IP.win_expose_forest. Qed.

Lemma orphans_cond (b : bool) s : r_orphans (if b then request_restore s else s) = r_orphans s.
Proof. destruct b; reflexivity. Qed.

(* the window shown / hidden by a call *)
Definition act_target (a : ract) : option Z :=
  match a with RShow y | RHide y => Some y | _ => None end.

Lemma run_act_forest cfg rid s a :
  IP.ids_unique s -> t_id (r_tree s) = rid -> act_ok rid a ->
  keeps_forest s (run_act cfg s a) (act_target a) \/
  exists w n0, (a = RClose w \/ a = RDestroy w) /\ t_find w (r_tree s) = Some n0 /\ w <> rid.
Proof.
  intros Hfu Hrid Hok. pose proof (forest_tree_nodup s Hfu) as Hu.
  assert (Hclose : forall w, keeps_forest s (win_close cfg s w) None \/
                             exists n0, t_find w (r_tree s) = Some n0 /\ w <> rid).
  { intros w. destruct (t_find w (r_tree s)) as [n0|] eqn:Ef.
    - destruct (Z.eq_dec w rid) as [->|Hne].
      + left. rewrite win_close_noop; [apply keeps_forest_refl|exact Hu|right; symmetry; exact Hrid].
      + right. exists n0. split; [reflexivity|exact Hne].
    - left. rewrite win_close_noop; [apply keeps_forest_refl|exact Hu|left; exact Ef]. }
  destruct a as [id r|y|y|k id|w|w]; cbn [run_act act_ok act_target] in *.
  - left. apply keeps_forest_tree; [apply win_expose_tree|apply win_expose_orphans].
  - left. rewrite <- Hrid in Hok. destruct (chain_cases y _ Hu Hok) as [E|(w & p & rest & E)].
    + unfold win_show. rewrite E. apply keeps_forest_refl.
    + rewrite (win_show_unfold cfg s y w p rest E). unfold keeps_forest.
      rewrite win_expose_tree, win_expose_orphans, r_tree_show_pre.
      split; [apply show_tree_skel|]. split.
      { unfold show_pre. rewrite orphans_cond. reflexivity. }
      split.
      * intros T D Hev. unfold show_tree. destruct (show_link w p).
        -- apply ev_upd; [apply keeps_shape_link|]. apply ev_upd; [apply keeps_shape_vis|exact Hev].
        -- apply ev_upd; [apply keeps_shape_vis|exact Hev].
      * intros x Hx. apply show_tree_vis. intros ->. apply Hx. reflexivity.
  - left. rewrite <- Hrid in Hok. destruct (chain_cases y _ Hu Hok) as [E|(w & p & rest & E)].
    + unfold win_hide. rewrite E. apply keeps_forest_refl.
    + rewrite (win_hide_unfold cfg s y w p rest E). unfold keeps_forest.
      rewrite win_expose_tree, win_expose_orphans, r_tree_hide_pre.
      split; [apply hide_tree_skel|]. split.
      { unfold hide_pre. rewrite orphans_cond. reflexivity. }
      split.
      * intros T D Hev. unfold hide_tree.
        apply ev_upd; [apply keeps_shape_unlink|]. apply ev_upd; [apply keeps_shape_vis|exact Hev].
      * intros x Hx. apply hide_tree_vis. intros ->. apply Hx. reflexivity.
  - left. apply keeps_forest_tree; [apply win_restack_tree|].
    unfold win_restack. destruct (t_parent_id id (r_tree s)); [|reflexivity]. destruct (r_queue s); reflexivity.
  - destruct (Hclose w) as [H|(n0 & Hf & Hne)]; [left; exact H|right; exists w, n0; tauto].
  - destruct (Hclose w) as [H|(n0 & Hf & Hne)]; [left; exact H|right; exists w, n0; tauto].
Qed.

(* consequences of keeping the shape *)
Lemma keeps_forest_facts s s' y :
  IP.ids_unique s -> keeps_forest s s' y ->
  IP.ids_unique s' /\ t_ids (r_tree s') = t_ids (r_tree s) /\
  t_id (r_tree s') = t_id (r_tree s) /\
  w_rect (t_info (r_tree s')) = w_rect (t_info (r_tree s)) /\
  (forall x, f_parent s' x = f_parent s x) /\
  (forall x, y <> Some x -> In x (t_ids (r_tree s)) -> vis_now s' x = vis_now s x).
Proof.
  intros Hfu (Hsk & Hor & _ & Hvis). pose proof (forest_tree_nodup s Hfu) as Hu.
  pose proof (skel_eq_ids _ _ Hsk) as Hids. destruct (skel_eq_root _ _ Hsk) as [Hid Hrect].
  assert (Hfu' : IP.ids_unique s').
  { unfold IP.ids_unique, IP.forest_ids, forest in *. cbn [flat_map] in *.
    change (IP.t_ids (r_tree s')) with (t_ids (r_tree s')). rewrite Hids, Hor. exact Hfu. }
  split; [exact Hfu'|]. split; [exact Hids|]. split; [exact Hid|]. split; [exact Hrect|]. split.
  - intros x. apply f_parent_skel. unfold forest. cbn [map]. rewrite Hsk, Hor. reflexivity.
  - intros x Hx Hin. rewrite (vis_now_in s x Hu Hin).
    rewrite (vis_now_in s' x); [apply Hvis; exact Hx| |rewrite Hids; exact Hin].
    rewrite Hids. exact Hu.
Qed.

(* an effective close *)
Lemma close_facts cfg s w n0 :
  IP.ids_unique s -> t_find w (r_tree s) = Some n0 -> w <> t_id (r_tree s) ->
  IP.ids_unique (win_close cfg s w) /\
  r_tree (win_close cfg s w) = IP.cut w (r_tree s) /\
  r_orphans (win_close cfg s w) = n0 :: r_orphans s /\ t_id n0 = w /\
  (forall x n, f_find s x = Some n -> vis_now (win_close cfg s w) x = vis_now s x) /\
  (forall n c, IP.subl n (forest s) -> In c (t_kids n) -> t_id c <> w ->
               f_parent (win_close cfg s w) (t_id c) = Some (t_id n)) /\
  (forall x, In x (t_ids (r_tree (win_close cfg s w))) -> In x (t_ids (r_tree s)) /\ x <> w).
Proof.
  intros Hfu Hf Hne.
  destruct (IP.close_props cfg s w n0 Hfu Hf Hne) as [CP1 CP2].
  destruct (IP.win_close_forest cfg s w n0 Hfu Hf Hne) as [Ht Ho].
  destruct (IP.t_find_sub _ _ _ Hf) as [Hsub0 Hid0].
  pose proof (forest_tree_nodup s Hfu) as Hu.
  split; [exact CP1|]. split; [exact Ht|]. split; [exact Ho|]. split; [exact Hid0|]. split; [|split].
  - intros x n Hx. destruct (IP.f_find_sub _ _ _ Hx) as [Hs Hid].
    pose proof (IP.f_find_unique _ _ CP1 (CP2 n Hs)) as Hx'. rewrite IP.cut_id_eq, Hid in Hx'.
    unfold vis_now, node_now. rewrite Hx, Hx'. apply IP.cut_vis.
  - intros n c Hs Hc Hcw.
    pose proof (IP.f_parent_unique _ _ _ CP1 (CP2 n Hs) (IP.cut_kid_in w n c Hc Hcw)) as H.
    rewrite !IP.cut_id_eq in H. exact H.
  - intros x Hx. rewrite Ht in Hx.
    assert (Hperm : Permutation (t_ids (r_tree s)) (t_ids (IP.cut w (r_tree s)) ++ t_ids n0)).
    { apply (IP.cut_perm w n0 Hid0 (r_tree s) Hu Hsub0). intros E. apply Hne. symmetry. exact E. }
    split.
    + apply (Permutation_in _ (Permutation_sym Hperm)). apply in_or_app. left. exact Hx.
    + intros ->. pose proof (Permutation_NoDup Hperm Hu) as Hnd.
      apply IP.NoDup_app_inv in Hnd. destruct Hnd as (_ & _ & Hsep).
      apply (Hsep (t_id n0)); [rewrite Hid0; exact Hx|apply t_id_in].
Qed.

(* orphans are never taken back *)
Lemma run_act_orphans cfg rid s a n :
  IP.ids_unique s -> t_id (r_tree s) = rid -> act_ok rid a ->
  In n (r_orphans s) -> In n (r_orphans (run_act cfg s a)).
Proof.
  intros Hfu Hrid Hok Hn.
  destruct (run_act_forest cfg rid s a Hfu Hrid Hok) as [(_ & Ho & _)|(w & n0 & Ha & Hf & Hne)].
  - rewrite Ho. exact Hn.
  - rewrite <- Hrid in Hne. destruct (close_facts cfg s w n0 Hfu Hf Hne) as (_ & _ & Ho & _).
    destruct Ha as [->| ->]; cbn [run_act]; rewrite Ho; right; exact Hn.
Qed.

(* ------------------------------------------------------------------------------------ *)
(* the invariants are kept                                                               *)

Theorem run_act_g0 cfg rid s a : G0 rid s -> act_ok rid a -> G0 rid (run_act cfg s a).
Proof.
  intros (Hfu & Hrid & Hrv & HD) Hok.
  pose proof (run_act_dmgok cfg s a HD) as HD'.
  destruct (run_act_forest cfg rid s a Hfu Hrid Hok) as [Hk|(w & n0 & Ha & Hf & Hne)].
  - destruct (keeps_forest_facts s _ _ Hfu Hk) as (Hfu' & Hids & Hid & _ & _ & Hvis).
    split; [exact Hfu'|]. split; [rewrite Hid; exact Hrid|]. split; [|exact HD'].
    pose proof (forest_tree_nodup s Hfu) as Hu. pose proof (forest_tree_nodup _ Hfu') as Hu'.
    rewrite <- vis_in_root, <- (vis_now_in _ _ Hu' (t_id_in _)), Hid, Hvis.
    + rewrite (vis_now_in _ _ Hu (t_id_in _)), vis_in_root. exact Hrv.
    + destruct a; cbn [act_ok act_target] in *; try discriminate;
        intros E; injection E as E; apply Hok; rewrite <- Hrid; exact E.
    + apply t_id_in.
  - rewrite <- Hrid in Hne. destruct (close_facts cfg s w n0 Hfu Hf Hne) as (Hfu' & Ht & _).
    assert (E : run_act cfg s a = win_close cfg s w) by (destruct Ha as [->| ->]; reflexivity).
    rewrite E in *. split; [exact Hfu'|]. rewrite Ht. destruct (cut_info w (r_tree s)) as [Hi _].
    split; [unfold t_id; rewrite Hi; exact Hrid|]. split; [rewrite IP.cut_vis; exact Hrv|exact HD'].
Qed.

Theorem run_act_gd cfg rid T P s a : Gd rid T P s -> act_ok rid a -> Gd rid T P (run_act cfg s a).
Proof.
  intros (HG & (D & Hev & HDo) & HP) Hok. pose proof HG as (Hfu & Hrid & Hrv & HD).
  split; [apply run_act_g0; assumption|].
  destruct (run_act_forest cfg rid s a Hfu Hrid Hok) as [Hk|(w & n0 & Ha & Hf & Hne)].
  - destruct (keeps_forest_facts s _ _ Hfu Hk) as (_ & Hids & Hid & _ & Hpar & _).
    destruct Hk as (_ & Ho & Hevk & _). split.
    + exists D. split; [apply Hevk; exact Hev|]. rewrite Ho. exact HDo.
    + intros x Hx Hxr. rewrite Hpar. apply HP; [rewrite <- Hids; exact Hx|rewrite <- Hid; exact Hxr].
  - rewrite <- Hrid in Hne.
    destruct (close_facts cfg s w n0 Hfu Hf Hne) as (Hfu' & Ht & Ho & Hidn & _ & Hpar & Hids).
    assert (E : run_act cfg s a = win_close cfg s w) by (destruct Ha as [->| ->]; reflexivity).
    rewrite E. split.
    + exists (w :: D). split; [rewrite Ht; apply ev_cut; exact Hev|].
      rewrite Ho. intros x [<-|Hx]; [left; exact Hidn|right; apply HDo; exact Hx].
    + intros x Hx Hxr. destruct (Hids x Hx) as [Hin Hxw].
      assert (Hxr' : x <> t_id (r_tree s)).
      { intros ->. apply Hxr. rewrite Ht. unfold t_id. destruct (cut_info w (r_tree s)) as [-> _]. reflexivity. }
      rewrite <- (HP x Hin Hxr').
      (* x is a child of some window of the tree *)
      pose proof (forest_tree_nodup s Hfu) as Hu.
      destruct (t_find_some x _ Hu Hin) as [nx Hnx].
      assert (Hkid : exists n c, subtree n (r_tree s) /\ In c (t_kids n) /\ t_id c = x).
      { destruct (t_chain x (r_tree s)) as [[|wx [|px restx]]|] eqn:Ech.
        - exfalso. exact (chain_nonempty _ _ Ech).
        - exfalso. apply Hxr'. destruct (chain_single _ _ _ Ech) as [_ H]. symmetry. exact H.
        - destruct (chain_parent x _ wx px restx Hu Ech) as (Hidw & Hwp & Hfp & _).
          exists px, wx. split; [|split; assumption]. apply (t_find_sub _ _ _ Hfp).
        - exfalso. exact (chain_none_notin _ _ Ech Hin). }
      destruct Hkid as (n & c & Hn & Hc & Hidc). subst x.
      rewrite (Hpar n c (tree_subl s n Hn) Hc Hxw). symmetry. apply (f_parent_tree s n c Hu Hn Hc).
Qed.

(* ------------------------------------------------------------------------------------ *)
(* the covered region only grows                                                         *)

Lemma win_expose_cov_mono st id ex :
  DmgOK st -> r_fault (win_expose st id ex) = false ->
  forall p, covered (r_damage st) p -> covered (r_damage (win_expose st id ex)) p.
Proof.
  intros [Hr Hne] Hf. pose proof (win_expose_fault _ _ _ Hf) as Hf0.
  destruct (win_expose_spec st id ex (Hne Hf0)) as [Hde _]; [|exact Hf|apply (de_cov _ _ Hde)].
  intros _ w Hw. destruct (chain_single _ _ _ Hw) as [-> _].
  unfold nonempty, selfrect; cbn [lines cols]. exact Hr.
Qed.

Theorem run_act_cov_mono cfg s a :
  DmgOK s -> r_fault (run_act cfg s a) = false ->
  forall p, covered (r_damage s) p -> covered (r_damage (run_act cfg s a)) p.
Proof.
  intros HD Hf p Hp.
  assert (Hclose : forall id, r_fault (win_close cfg s id) = false -> covered (r_damage (win_close cfg s id)) p).
  { intros id. destruct (win_close_shape cfg s id) as [E|(X & HX & [E|(y & r & E)])]; rewrite E; intros Hf'.
    - exact Hp.
    - destruct HX as (-> & _). exact Hp.
    - apply win_expose_cov_mono; [apply (same_dmg_dmgok s X HX HD)|exact Hf'|].
      destruct HX as (-> & _). exact Hp. }
  destruct a as [id r|id|id|k id|id|id]; cbn [run_act] in *; try (apply Hclose; exact Hf).
  - apply win_expose_cov_mono; assumption.
  - destruct (win_show_shape cfg s id) as [E|(X & y & ex & HX & E & _)]; rewrite E in *; [exact Hp|].
    apply win_expose_cov_mono; [apply (same_dmg_dmgok s X HX HD)|exact Hf|].
    destruct HX as (-> & _). exact Hp.
  - destruct (win_hide_shape cfg s id) as [E|[(X & HX & E)|(X & y & r & HX & E)]]; rewrite E in *.
    + exact Hp.
    + destruct HX as (-> & _). exact Hp.
    + apply win_expose_cov_mono; [apply (same_dmg_dmgok s X HX HD)|exact Hf|].
      destruct HX as (-> & _). exact Hp.
  - unfold win_restack. destruct (t_parent_id id (r_tree s)); [|exact Hp].
    destruct (r_queue s); exact Hp.
Qed.

(* ------------------------------------------------------------------------------------ *)
(* locality: a show, hide or close of a window that matters at q0 covers q0               *)

Lemma rel_in_tree0 V t q y : In y (rel_ids V t q) -> In y (t_ids t).
Proof.
  intros Hrel. apply rel_ids_below in Hrel. destruct t as [i ch]. cbn [t_ids t_kids] in *.
  right. exact Hrel.
Qed.

Section local.
  Variables (cfg : defects) (s : root) (q0 : cell).
  Hypothesis Hu : NoDup (t_ids (r_tree s)).
  Hypothesis Hrv : w_vis (t_info (r_tree s)) = true.
  Hypothesis HD : DmgOK s.
  Hypothesis Hq0 : cell_in (selfrect (t_info (r_tree s))) q0.

  Lemma rel_in_tree y : In y (rel_ids (vis_now s) (r_tree s) q0) -> In y (t_ids (r_tree s)).
  Proof. apply rel_in_tree0. Qed.

  Lemma hide_local y :
    y <> t_id (r_tree s) -> r_fault (win_hide cfg s y) = false ->
    In y (rel_ids (vis_now s) (r_tree s) q0) ->
    covered (r_damage (win_hide cfg s y)) q0.
  Proof.
    intros Hy Hf Hrel.
    destruct (chain_cases y _ Hu Hy) as [E|(w & p & rest & Ech)].
    { exfalso. exact (chain_none_notin _ _ E (rel_in_tree y Hrel)). }
    rewrite (win_hide_unfold cfg s y w p rest Ech) in *.
    destruct (chain_parent y _ w p rest Hu Ech) as (Hidw & Hwp & Hfp & Hfw & Hne & Hpin).
    destruct (update_kc _ y (t_id p) (keeps_id_vis false) _ p w Hu Hfp Hwp Hidw) as [D Hkc].
    set (tr1 := t_update (fun j => set_vis j false) y (r_tree s)) in *.
    set (st1 := hide_pre cfg s y p) in *.
    assert (Hg : geq_tree tr1 (r_tree st1)).
    { subst st1. rewrite r_tree_hide_pre. unfold hide_tree. fold tr1. apply geq_update. apply keeps_geo_unlink. }
    assert (Hv1 : w_vis (t_info tr1) = true) by (rewrite (kc_info _ _ _ _ _ _ Hkc); exact Hrv).
    pose proof (same_dmg_hide_pre cfg s y p) as HX. fold st1 in HX.
    assert (Hne1 : all_nonempty (r_damage st1)).
    { destruct (same_dmg_dmgok s st1 HX HD) as [_ H]. apply H. apply (win_expose_fault _ _ _ Hf). }
    destruct (expose_covers_kc st1 (t_id p) (w_rect (t_info w)) _ _ _ tr1 D Hkc Hg Hv1 Hne1 Hf) as [_ Hcov].
    destruct (rel_reach (vis_now s) _ _ _ _ _ D Hkc Hu (Vok_now _ Hu) w q0 Hwp) as (q' & Hr & Hq').
    { rewrite Hidw. exact Hrel. }
    apply (Hcov q0 q'); [|exact Hr|apply cell_inb_iff; exact Hq'].
    rewrite (kc_info _ _ _ _ _ _ Hkc). exact Hq0.
  Qed.

  Lemma show_local y :
    y <> t_id (r_tree s) -> r_fault (win_show cfg s y) = false ->
    In y (rel_ids (vis_now s) (r_tree s) q0) ->
    covered (r_damage (win_show cfg s y)) q0.
  Proof.
    intros Hy Hf Hrel.
    destruct (chain_cases y _ Hu Hy) as [E|(w & p & rest & Ech)].
    { exfalso. exact (chain_none_notin _ _ E (rel_in_tree y Hrel)). }
    rewrite (win_show_unfold cfg s y w p rest Ech) in *.
    destruct (chain_parent y _ w p rest Hu Ech) as (Hidw & Hwp & Hfp & Hfw & Hne & Hpin).
    destruct (update_kc _ y (t_id p) (keeps_id_vis true) _ p w Hu Hfp Hwp Hidw) as [D Hkc].
    set (tr1 := t_update (fun j => set_vis j true) y (r_tree s)) in *.
    set (st1 := show_pre cfg s y w p) in *.
    assert (Hg : geq_tree tr1 (r_tree st1)).
    { subst st1. rewrite r_tree_show_pre. unfold show_tree. fold tr1.
      destruct (show_link w p); [apply geq_update; apply keeps_geo_link|apply geq_refl]. }
    assert (Hv1 : w_vis (t_info tr1) = true) by (rewrite (kc_info _ _ _ _ _ _ Hkc); exact Hrv).
    assert (Hu1 : NoDup (t_ids tr1)) by (subst tr1; rewrite update_ids by apply keeps_id_vis; exact Hu).
    pose proof (same_dmg_show_pre cfg s y w p) as HX. fold st1 in HX.
    assert (Hne1 : all_nonempty (r_damage st1)).
    { destruct (same_dmg_dmgok s st1 HX HD) as [_ H]. apply H. apply (win_expose_fault _ _ _ Hf). }
    pose (c' := Node (set_vis (t_info w) true) (t_kids w)).
    assert (Hc' : In c' (map (upd_child (fun j => set_vis j true) y) (t_kids p))).
    { apply (upd_child_in_fwd (fun j => set_vis j true) y (t_kids p) w Hwp Hidw). }
    destruct (kc_child_path _ _ _ _ _ _ c' Hkc Hu1 Hc') as (pth & Hp & Hm).
    assert (Hidc : t_id c' = y) by (rewrite <- Hidw; reflexivity).
    rewrite Hidc in Hp.
    destruct (expose_covers_gen st1 y None tr1 (pth ++ [c']) Hp Hg Hv1) as [_ Hcov].
    { intros _ H. destruct pth; discriminate. }
    { exact Hne1. }
    { exact Hf. }
    destruct (rel_reach (vis_now s) _ _ _ _ _ D Hkc Hu (Vok_now _ Hu) w q0 Hwp) as (q' & Hr & Hq').
    { rewrite Hidw. exact Hrel. }
    apply (Hcov q0 (fst q' - top (w_rect (t_info w)), snd q' - left (w_rect (t_info w)))).
    - rewrite (kc_info _ _ _ _ _ _ Hkc). exact Hq0.
    - rewrite map_app, reach_app. rewrite <- Hm, map_map in Hr. rewrite Hr.
      cbn [map reach]. unfold geo, c'. cbn [fst snd t_info set_vis w_vis w_rect andb].
      rewrite Hq'. reflexivity.
    - exact I.
  Qed.

  (* closing a VISIBLE window that matters *)
  Lemma close_local y :
    y <> t_id (r_tree s) -> r_fault (win_close cfg s y) = false ->
    In y (rel_ids (vis_now s) (r_tree s) q0) -> vis_now s y = true ->
    covered (r_damage (win_close cfg s y)) q0.
  Proof.
    intros Hy Hf Hrel Hvis.
    destruct (chain_cases y _ Hu Hy) as [E|(w & p & rest & Ech)].
    { exfalso. exact (chain_none_notin _ _ E (rel_in_tree y Hrel)). }
    destruct (chain_parent y _ w p rest Hu Ech) as (Hidw & Hwp & Hfp & Hfw & Hne & Hpin).
    destruct (win_close_unfold cfg s y w p rest Ech) as (st1 & HX & Ht1 & E).
    rewrite (vis_now_tree s y w Hfw) in Hvis. rewrite E, Hvis in *.
    destruct (upd_kids_kc (kids_remove y) (t_id p) _ p Hu Hfp) as [D Hkc].
    set (tr1 := t_upd_kids (kids_remove y) (t_id p) (r_tree s)) in *.
    assert (Hg : geq_tree tr1 (r_tree st1)).
    { rewrite Ht1. unfold close_tree. fold tr1. apply geq_update. apply keeps_geo_unlink. }
    assert (Hv1 : w_vis (t_info tr1) = true) by (rewrite (kc_info _ _ _ _ _ _ Hkc); exact Hrv).
    assert (Hne1 : all_nonempty (r_damage st1)).
    { destruct (same_dmg_dmgok s st1 HX HD) as [_ H]. apply H. apply (win_expose_fault _ _ _ Hf). }
    destruct (expose_covers_kc st1 (t_id p) (w_rect (t_info w)) _ _ _ tr1 D Hkc Hg Hv1 Hne1 Hf) as [_ Hcov].
    destruct (rel_reach (vis_now s) _ _ _ _ _ D Hkc Hu (Vok_now _ Hu) w q0 Hwp) as (q' & Hr & Hq').
    { rewrite Hidw. exact Hrel. }
    apply (Hcov q0 q'); [|exact Hr|apply cell_inb_iff; exact Hq'].
    rewrite (kc_info _ _ _ _ _ _ Hkc). exact Hq0.
  Qed.
End local.

Lemma f_find_in_tree s x n : t_find x (r_tree s) = Some n -> f_find s x = Some n.
Proof. intros H. unfold f_find, forest. cbn [first_some]. rewrite H. reflexivity. Qed.

(* a window that matters is a child of a window of the tree: it has a parent *)
Lemma rel_parent V s q x :
  NoDup (t_ids (r_tree s)) -> In x (rel_ids V (r_tree s) q) ->
  exists n c, subtree n (r_tree s) /\ In c (t_kids n) /\ t_id c = x /\ f_parent s x = Some (t_id n).
Proof.
  intros Hu Hx. destruct (rel_ids_kid V _ _ _ Hx) as (n & c & Hn & Hc & Hid).
  exists n, c. split; [exact Hn|]. split; [exact Hc|]. split; [exact Hid|].
  rewrite <- Hid. apply (f_parent_tree s n c Hu Hn Hc).
Qed.

Theorem run_act_local cfg rid s a q0 :
  G0 rid s -> act_ok rid a -> r_fault (run_act cfg s a) = false ->
  cell_in (selfrect (t_info (r_tree s))) q0 ->
  ~ covered (r_damage (run_act cfg s a)) q0 ->
  forall x, In x (rel_ids (vis_now s) (r_tree s) q0) ->
    vis_now (run_act cfg s a) x = vis_now s x /\
    (f_parent (run_act cfg s a) x = f_parent s x \/ vis_now s x = false).
Proof.
  intros (Hfu & Hrid & Hrv & HD) Hok Hf Hq0 Hnc x Hx.
  pose proof (forest_tree_nodup s Hfu) as Hu.
  pose proof (rel_in_tree0 _ _ _ x Hx) as Hxin.
  destruct (run_act_forest cfg rid s a Hfu Hrid Hok) as [Hk|(w & n0 & Ha & Hfw & Hne)].
  - destruct (keeps_forest_facts s _ _ Hfu Hk) as (_ & _ & _ & _ & Hpar & Hvis).
    split; [|left; apply Hpar].
    apply Hvis; [|exact Hxin].
    destruct a as [id r|y|y|k id|w|w]; cbn [act_target act_ok run_act] in *; try discriminate.
    + intros E. injection E as ->. apply Hnc. rewrite <- Hrid in Hok.
      apply (show_local cfg s q0 Hu Hrv HD Hq0 x Hok Hf Hx).
    + intros E. injection E as ->. apply Hnc. rewrite <- Hrid in Hok.
      apply (hide_local cfg s q0 Hu Hrv HD Hq0 x Hok Hf Hx).
  - rewrite <- Hrid in Hne.
    assert (E : run_act cfg s a = win_close cfg s w) by (destruct Ha as [->| ->]; reflexivity).
    rewrite E in *.
    destruct (close_facts cfg s w n0 Hfu Hfw Hne) as (_ & _ & _ & _ & Hvis & Hpar & _).
    destruct (t_find_some x _ Hu Hxin) as [nx Hnx].
    split; [apply (Hvis x nx (f_find_in_tree s x nx Hnx))|].
    destruct (Z.eq_dec x w) as [->|Hxw].
    + right. destruct (vis_now s w) eqn:Ev; [|reflexivity]. exfalso. apply Hnc.
      apply (close_local cfg s q0 Hu Hrv HD Hq0 w Hne Hf Hx Ev).
    + left. destruct (rel_parent (vis_now s) s q0 x Hu Hx) as (n & c & Hn & Hc & Hid & Hp).
      rewrite Hp. rewrite <- Hid. apply (Hpar n c (tree_subl s n Hn) Hc). rewrite Hid. exact Hxw.
Qed.

(* ------------------------------------------------------------------------------------ *)
(* every handler call is a step                                                          *)

Section steps.
  Variables (cfg : defects) (rid : Z) (q0 : cell).

  (* ... seen from the tree T a traversal walks *)
  Lemma run_act_step T P V s a :
    cell_in (selfrect (t_info T)) q0 ->
    Gd rid T P s -> act_ok rid a ->
    Gd rid T P (run_act cfg s a) /\ St q0 V P T s (run_act cfg s a).
  Proof.
    intros HqT HGd Hok. split; [apply run_act_gd; assumption|].
    intros Hf Hnc. pose proof HGd as (HG & (D & Hev & HDo) & HP).
    pose proof HG as (Hfu & Hrid & Hrv & HD).
    pose proof (forest_tree_nodup s Hfu) as Hu.
    split; [apply (run_act_fault cfg s a Hf)|]. split.
    { intros Hc. apply Hnc. apply (run_act_cov_mono cfg s a HD Hf). exact Hc. }
    intros HO x Hx. unfold OKs, RelSet in *.
    destruct (evolves_root _ _ _ Hev) as [_ Hrect].
    assert (Hq0 : cell_in (selfrect (t_info (r_tree s))) q0).
    { unfold selfrect in *. rewrite Hrect. exact HqT. }
    (* a cut window is the root of a detached subtree: it has no parent *)
    assert (Horph : forall s1 y, IP.ids_unique s1 -> In y (map t_id (r_orphans s1)) -> f_parent s1 y = None).
    { intros s1 y Hfu1 Hy. apply in_map_iff in Hy. destruct Hy as (n & <- & Hn).
      apply orphan_root_noparent; assumption. }
    assert (HDV : forall y, In y D -> In y (rel_ids V T q0) -> V y = false).
    { intros y Hy Hyr. rewrite <- (HO y Hyr). unfold att. rewrite (Horph s y Hfu (HDo y Hy)). reflexivity. }
    destruct (live_evolves V T (r_tree s) D q0 Hev HDV) as (_ & Hincl & Hsplit).
    (* on the windows that matter in the current tree V is the current flag *)
    assert (Hcur : forall y, In y (rel_ids V (r_tree s) q0) -> vis_now s y = V y).
    { intros y Hy. rewrite <- (HO y (Hincl y Hy)). unfold att.
      destruct (rel_parent V s q0 y Hu Hy) as (n & c & Hn & Hc & Hid & Hp).
      assert (Hyin : In y (t_ids (r_tree s))).
      { apply rel_ids_below in Hy. destruct (r_tree s) as [i ch]. cbn [t_ids t_kids] in *. right. exact Hy. }
      assert (Hyr : y <> t_id (r_tree s)).
      { intros ->. apply rel_ids_below in Hy. destruct (r_tree s) as [i ch]. cbn [t_ids t_kids t_id t_info] in *.
        inversion Hu; subst. contradiction. }
      rewrite <- (HP y Hyin Hyr), Hp. cbn [opt_is]. rewrite Z.eqb_refl. reflexivity. }
    pose proof (proj2 (live_agree V (vis_now s) (r_tree s) q0 Hcur)) as Ecrel.
    destruct (Hsplit x Hx) as [HxD|Hxc].
    - (* cut earlier: detached then, detached now *)
      rewrite (HDV x HxD Hx). unfold att.
      assert (Hfu' : IP.ids_unique (run_act cfg s a)) by (apply (run_act_g0 cfg rid s a HG Hok)).
      rewrite (Horph _ x Hfu'); [reflexivity|].
      specialize (HDo x HxD). apply in_map_iff in HDo. destruct HDo as (n & <- & Hn).
      apply in_map. apply (run_act_orphans cfg rid s a n Hfu Hrid Hok Hn).
    - rewrite <- Ecrel in Hxc.
      destruct (run_act_local cfg rid s a q0 HG Hok Hf Hq0 Hnc x Hxc) as [Ev [Ep|Ev0]].
      + rewrite <- (HO x Hx). unfold att. rewrite Ev, Ep. reflexivity.
      + rewrite <- (HO x Hx). unfold att. rewrite Ev, Ev0, !andb_false_r. reflexivity.
  Qed.

  Lemma run_acts_step T P V acts : (forall a, In a acts -> act_ok rid a) ->
    cell_in (selfrect (t_info T)) q0 ->
    forall s, Gd rid T P s -> Gd rid T P (run_acts cfg acts s) /\ St q0 V P T s (run_acts cfg acts s).
  Proof.
    intros Hok HqT. unfold run_acts. induction acts as [|a rest IH]; intros s HG.
    - cbn [fold_left]. split; [exact HG|apply St_refl].
    - cbn [fold_left]. destruct (run_act_step T P V s a HqT HG (Hok a (or_introl eq_refl))) as [HG1 HS1].
      destruct (IH (fun a' H => Hok a' (or_intror H)) _ HG1) as [HG2 HS2].
      split; [exact HG2|]. eapply St_trans; eassumption.
  Qed.

  (* ... and seen from the current tree: the owner of q0 stays *)
  Lemma run_act_step0 s a :
    G0 rid s -> act_ok rid a -> cell_in (selfrect (t_info (r_tree s))) q0 ->
    G0 rid (run_act cfg s a) /\ St0 q0 s (run_act cfg s a) /\
    w_rect (t_info (r_tree (run_act cfg s a))) = w_rect (t_info (r_tree s)).
  Proof.
    intros HG Hok Hq0. pose proof HG as (Hfu & Hrid & Hrv & HD).
    pose proof (run_act_g0 cfg rid s a HG Hok) as HG'.
    pose proof (forest_tree_nodup s Hfu) as Hu.
    assert (Hu' : NoDup (t_ids (r_tree (run_act cfg s a)))).
    { destruct HG' as (Hfu' & _). apply (forest_tree_nodup _ Hfu'). }
    split; [exact HG'|]. split.
    - intros Hf Hnc. split; [apply (run_act_fault cfg s a Hf)|]. split.
      { intros Hc. apply Hnc. apply (run_act_cov_mono cfg s a HD Hf). exact Hc. }
      pose proof (run_act_local cfg rid s a q0 HG Hok Hf Hq0 Hnc) as Hloc.
      rewrite <- (own_self (vis_now (run_act cfg s a)) _ (Vok_now _ Hu') q0).
      rewrite <- (own_self (vis_now s) _ (Vok_now _ Hu) q0).
      destruct (run_act_forest cfg rid s a Hfu Hrid Hok) as [Hk|(w & n0 & Ha & Hfw & Hne)].
      + destruct Hk as (Hsk & _).
        rewrite (own_skel (vis_now (run_act cfg s a)) (r_tree s) _ q0 Hsk).
        apply (live_agree (vis_now s) (vis_now (run_act cfg s a)) (r_tree s) q0).
        intros x Hx. apply (Hloc x Hx).
      + rewrite <- Hrid in Hne.
        assert (E : run_act cfg s a = win_close cfg s w) by (destruct Ha as [->| ->]; reflexivity).
        rewrite E in *.
        destruct (close_facts cfg s w n0 Hfu Hfw Hne) as (_ & Ht & _).
        rewrite Ht.
        assert (Hw : In w (rel_ids (vis_now s) (r_tree s) q0) -> vis_now s w = false).
        { intros Hwr. destruct (vis_now s w) eqn:Ev; [|reflexivity]. exfalso. apply Hnc.
          apply (close_local cfg s q0 Hu Hrv HD Hq0 w Hne Hf Hwr Ev). }
        destruct (live_cut (vis_now s) w (r_tree s) q0 Hw) as (F1 & F2 & _).
        rewrite <- F1.
        apply (live_agree (vis_now s) (vis_now (win_close cfg s w)) (IP.cut w (r_tree s)) q0).
        intros x Hx. apply (Hloc x (F2 x Hx)).
    - destruct (run_act_forest cfg rid s a Hfu Hrid Hok) as [Hk|(w & n0 & Ha & Hfw & Hne)].
      + destruct (keeps_forest_facts s _ _ Hfu Hk) as (_ & _ & _ & Hr & _). exact Hr.
      + rewrite <- Hrid in Hne.
        assert (E : run_act cfg s a = win_close cfg s w) by (destruct Ha as [->| ->]; reflexivity).
        rewrite E. destruct (close_facts cfg s w n0 Hfu Hfw Hne) as (_ & Ht & _).
        rewrite Ht. apply cut_info.
  Qed.
End steps.

(* the root's rectangle is R *)
Definition G1 (rid : Z) (R : rect) (s : root) : Prop := G0 rid s /\ w_rect (t_info (r_tree s)) = R.

Section handler_steps.
  Variables (cfg : defects) (rid : Z) (R : rect) (q0 : cell) (hnd : handler) (racts : Z -> list ract).
  Hypothesis Hq0 : cell_in (mkRect 0 0 (lines R) (cols R)) q0.
  Hypothesis Hok : forall id a, In a (racts id) -> act_ok rid a.

  Lemma run_acts_step0 acts : (forall a, In a acts -> act_ok rid a) ->
    forall s, G1 rid R s -> G1 rid R (run_acts cfg acts s) /\ St0 q0 s (run_acts cfg acts s).
  Proof.
    intros Hoks. unfold run_acts. induction acts as [|a rest IH]; intros s HG.
    - cbn [fold_left]. split; [exact HG|apply St0_refl].
    - cbn [fold_left]. destruct HG as [HG HR].
      destruct (run_act_step0 cfg rid q0 s a HG (Hoks a (or_introl eq_refl))) as (HG1 & HS1 & HR1).
      { unfold selfrect. rewrite HR. exact Hq0. }
      destruct (IH (fun a' H => Hoks a' (or_intror H)) (run_act cfg s a)) as [HG2 HS2].
      { split; [exact HG1|]. rewrite HR1. exact HR. }
      split; [exact HG2|]. eapply St0_trans; eassumption.
  Qed.

  Lemma re_handler_step0 id r sb :
    G1 rid R (fst sb) ->
    G1 rid R (fst (re_handler cfg hnd racts id r sb)) /\
    St0 q0 (fst sb) (fst (re_handler cfg hnd racts id r sb)).
  Proof.
    intros HG. unfold re_handler. cbn [fst]. apply run_acts_step0; [|exact HG].
    intros a Ha. apply (Hok id a Ha).
  Qed.

  Lemma re_handler_step T P V id r sb :
    w_rect (t_info T) = R -> Gd rid T P (fst sb) ->
    Gd rid T P (fst (re_handler cfg hnd racts id r sb)) /\
    St q0 V P T (fst sb) (fst (re_handler cfg hnd racts id r sb)).
  Proof.
    intros HR HG. unfold re_handler. cbn [fst]. apply run_acts_step; [|unfold selfrect; rewrite HR; exact Hq0|exact HG].
    intros a Ha. apply (Hok id a Ha).
  Qed.

  (* a rectangle starts on the tree of the current state *)
  Lemma rect_start s :
    G1 rid R s ->
    (Gd rid (r_tree s) (f_parent s) s /\ w_rect (t_info (r_tree s)) = R) /\
    ParOK (f_parent s) (r_tree s) /\ Vok (vis_now s) (r_tree s) /\
    OKs q0 (vis_now s) (f_parent s) (r_tree s) s.
  Proof.
    intros [HG HR]. pose proof HG as (Hfu & _). pose proof (forest_tree_nodup s Hfu) as Hu.
    split; [split; [|exact HR]|split; [|split]].
    - split; [exact HG|]. split.
      + exists []. split; [apply ev_refl|intros x []].
      + intros x _ _. reflexivity.
    - intros n c Hn Hc. apply (f_parent_tree s n c Hu Hn Hc).
    - apply Vok_now. exact Hu.
    - intros x Hx. unfold RelSet in Hx. unfold att.
      destruct (rel_parent (vis_now s) s q0 x Hu Hx) as (n & c & _ & _ & _ & Hp).
      rewrite Hp. cbn [opt_is]. rewrite Z.eqb_refl. reflexivity.
  Qed.
End handler_steps.
