(* LifeAgree.v -- the heap-independent discipline of LifeSpec.v is sound for the model: along
   every event-free history the ghost state (references the client holds, parent each window is
   attached to) agrees with the model's heap, so what the discipline accepts satisfies the
   hypotheses of the invariant theorems, and when the discipline says that every reference has
   been dropped no window is allocated. *)
From Coq Require Import ZArith List Bool PArith FMapPositive Lia.
From Tickit Require Import LifeDefs LifeLemmas LifeChains LifeInv LifePure LifeWalks LifeRelink LifeRemove LifeClose
  LifeQueue LifeDestroy LifeAttach LifeOps LifeFlush LifeFate LifeSpec LifeProofs.
Import ListNotations.
Local Open Scope Z_scope.

(* ---- what each call does to the allocation, the reference counts and the parent pointers ---------------------- *)
Definition eff_new (p : positive) (rp : bool) (h h' : heap) : Prop :=
  nextw h' = Pos.succ (nextw h) /\
  (forall a c, findw h a = Some c -> exists c', findw h' a = Some c' /\ w_parent c' = w_parent c /\ w_ref c' = w_ref c) /\
  (forall a, a <> nextw h -> findw h a = None -> findw h' a = None) /\
  exists cw p', findw h' (nextw h) = Some cw /\ w_parent cw = Some p' /\ w_ref cw = 1 /\
    (if rp then exists ct, anc h p p' /\ findw h p' = Some ct /\ w_parent ct = None else p' = p).

Definition eff_ref (w : positive) (h h' : heap) : Prop :=
  nextw h' = nextw h /\
  forall x, match findw h x, findw h' x with
            | Some c, Some c' => w_parent c' = w_parent c /\ w_ref c' = (if Pos.eqb x w then w_ref c + 1 else w_ref c)
            | None, None => True
            | _, _ => False
            end.

Definition eff_unref (w : positive) (h h' : heap) : Prop :=
  nextw h' = nextw h /\
  forall c, findw h w = Some c ->
    (w_ref c = 1 -> fate [w] h h' /\ findw h' w = None) /\ (w_ref c <> 1 -> only_ref h h' w).

Definition eff_close (w : positive) (h h' : heap) : Prop :=
  nextw h' = nextw h /\
  (forall a, findw h a = None -> findw h' a = None) /\
  (forall a c, a <> w -> findw h a = Some c ->
     exists c', findw h' a = Some c' /\ w_parent c' = w_parent c /\ w_ref c' = w_ref c) /\
  exists cw cw', findw h w = Some cw /\ findw h' w = Some cw' /\ w_parent cw' = None /\ w_ref cw' = w_ref cw.

Definition eff (o : op) (h h' : heap) : Prop :=
  match o with
  | ONew p _ _ rp _ => eff_new p rp h h'
  | ORef w => eff_ref w h h'
  | OUnref w => eff_unref w h h'
  | OClose w => eff_close w h h'
  | _ => stable h h'
  end.

Lemma links_upd_stable : forall h w f, (forall c, same_links c (f c) /\ w_ref (f c) = w_ref c) -> stable h (upd_cell h w f).
Proof. intros h w f Hf. apply flags_only_stable. apply flags_only_upd. exact Hf. Qed.

Theorem run_op_eff : forall fuel o h,
  hinv [] h -> event_free_op o = true -> op_pre h o ->
  match run_op fixed fuel o h with
  | Ok _ h' => eff o h h'
  | Fault _ _ => False
  | NoFuel => True
  end.
Proof.
  intros fuel o h HI Hef Hpre. destruct fuel as [|f]; [cbn; exact I|].
  rewrite run_op_S. unfold bind at 1.
  assert (Hlog : exists h1, (match o with ONop => ret tt | _ => log_op o end) h = Ok tt h1 /\ hinv [] h1 /\
                            wins h1 = wins h /\ nextw h1 = nextw h /\ (forall x y, anc h x y -> anc h1 x y)).
  { destruct o; try (eexists; split; [reflexivity|]; split; [apply hinv_log; exact HI|]; split; [reflexivity|]; split; [reflexivity|];
                     intros x0 y0 Ha; eapply anc_same_wins; [|exact Ha]; reflexivity).
    exists h. split; [reflexivity|]. auto. }
  destruct Hlog as [h1 [Hrun [HI1 [Hw1 [Hnw1 Hanc1]]]]]. rewrite Hrun.
  assert (Fw1 : forall a, findw h1 a = findw h a) by (intro a; unfold findw; rewrite Hw1; reflexivity).
  assert (Hst : forall h', stable h1 h' -> stable h h').
  { intros h' [W N]. constructor; [|congruence]. intro a. specialize (W a). rewrite Fw1 in W. exact W. }
  destruct o; cbn in Hpre, Hef; try discriminate; cbn [eff].
  - (* ONew *)
    unfold bind at 1. rewrite <- Fw1 in Hpre.
    pose proof (window_new_spec [] f p hidden lowest rootparent steal h1 HI1 Hpre h1 eq_refl) as Hn.
    destruct (window_new f p hidden lowest rootparent steal h1) as [w h2| |]; [|contradiction|exact I].
    cbn. destruct Hn as [_ [Ew [Hpv [[cw [p' [G1 [G2 [G3 [_ G5]]]]]] [Hdom [_ [_ Hnw]]]]]]].
    unfold eff_new. rewrite <- Hnw1. split; [exact Hnw|]. split; [|split].
    + intros a c Hfa. rewrite <- Fw1 in Hfa. destruct (pv_wins h1 h2 Hpv a c Hfa) as [c' [H1 [H2 [H3 _]]]]. eauto.
    + intros a Ha Hd. rewrite <- Fw1 in Hd. apply Hdom; [congruence|exact Hd].
    + subst w. exists cw, p'. split; [exact G1|]. split; [exact G2|]. split; [exact G3|].
      destruct rootparent; [|exact G5]. destruct G5 as [ct [A1 [A2 A3]]]. exists ct.
      split; [eapply anc_same_wins; [|exact A1]; symmetry; exact Hw1|]. rewrite <- Fw1. auto.
  - (* ORef *)
    rewrite <- Fw1 in Hpre. unfold window_ref.
    pose proof (upd_links_spec [] w (fun c => set_ref c (w_ref c + 1)) h1 HI1 Hpre) as Hu.
    assert (Hf : forall c, same_links c (set_ref c (w_ref c + 1)) /\ w_ref c <= w_ref (set_ref c (w_ref c + 1))).
    { intro c. split; [repeat split|cbn; lia]. }
    specialize (Hu Hf h1 eq_refl). destruct (upd w _ h1) as [u h2| |]; [|contradiction|exact I].
    destruct Hu as [_ [_ Eh]]. subst h2. split; [rewrite nextw_upd_cell; exact Hnw1|].
    intro x. rewrite findw_upd_cell. rewrite Pos.eqb_sym. rewrite !Fw1. destruct (Pos.eqb x w) eqn:E.
    + apply Pos.eqb_eq in E. subst x. destruct (findw h w); cbn; auto.
    + destruct (findw h x); auto.
  - (* OUnref *)
    rewrite <- Fw1 in Hpre. destruct (live_some h1 w Hpre) as [c Hw].
    destruct (life_ok f) as [Hun _]. destruct (life_fate f) as [Huf _].
    pose proof (Hun [] h1 w HI1 (detached_nil h1) Hpre (fun x => x) h1 eq_refl) as Hu.
    pose proof (Huf [] h1 w c HI1 (detached_nil h1) Hw (fun x => x)) as Hf.
    destruct (unref fixed f w h1) as [u h2| |]; [|contradiction|exact I].
    destruct Hu as [_ [_ Sh]]. destruct Hf as [F1 F2].
    split; [rewrite (sh_nextw h1 h2 Sh); exact Hnw1|].
    intros c0 Hw0. rewrite <- Fw1 in Hw0. rewrite Hw in Hw0. inversion Hw0; subst c0. split.
    + intro Er. destruct (F1 Er) as [Ft Hd]. split; [|exact Hd].
      eapply fate_pre; [exact Ft|]. intros x Hx. rewrite Fw1. destruct (findw h x); auto.
    + intro Er. intro x. pose proof (F2 Er x) as G. rewrite Fw1 in G. exact G.
  - (* OClose *)
    rewrite <- Fw1 in Hpre. destruct (live_some h1 w Hpre) as [cw Hw].
    pose proof (close_spec [] f w cw h1 HI1 Hw h1 eq_refl) as Hc.
    destruct (close fixed f w h1) as [u h2| |]; [|contradiction|exact I].
    destruct Hc as [_ [WK [_ [_ [[cw' [G1 [G2 [_ [_ G5]]]]] Hex]]]]].
    split; [rewrite (wk_nextw h1 h2 WK); exact Hnw1|]. split; [|split].
    + intros a Hd. rewrite <- Fw1 in Hd. exact (wk_dom h1 h2 WK a Hd).
    + intros a c Ha Hfa. rewrite <- Fw1 in Hfa. exact (Hex a c Ha Hfa).
    + exists cw, cw'. rewrite <- Fw1. auto.
  - (* ORestack *)
    destruct Hpre as [Hrs [cw [Hw Hat]]]. rewrite <- Fw1 in Hw.
    assert (Hat1 : w_parent cw = None \/ anc h1 w root) by (destruct Hat; auto).
    pose proof (request_change_spec [] f c w cw h1 HI1 Hw Hat1 Hrs h1 eq_refl) as Hr.
    destruct (request_change f c w h1) as [u h2| |]; [|contradiction|exact I].
    destruct Hr as [_ [Hw2 Hnw2]]. apply Hst. apply same_wins_stable; auto.
  - (* OShow *)
    rewrite <- Fw1 in Hpre. pose proof (window_show_spec [] f w h1 HI1 Hpre h1 eq_refl) as Hs.
    destruct (window_show f w h1); [apply Hst; tauto|contradiction|exact I].
  - (* OHide *)
    rewrite <- Fw1 in Hpre. pose proof (window_hide_spec [] f w h1 HI1 Hpre h1 eq_refl) as Hs.
    destruct (window_hide f w h1); [apply Hst; tauto|contradiction|exact I].
  - (* OFocus *)
    pose proof (focus_gained_spec f w None h1 HI1 (Hanc1 _ _ Hpre)) as Hfg.
    assert (Hch : forall ch, None = Some ch -> exists cch, findw h1 ch = Some cch /\ w_parent cch = Some w) by (intros ch Ec; discriminate).
    specialize (Hfg Hch h1 eq_refl). destruct (focus_gained f w None h1); [apply Hst; tauto|contradiction|exact I].
  - (* OSteal *)
    rewrite <- Fw1 in Hpre. destruct (live_some h1 w Hpre) as [cw Hw].
    rewrite (upd_run h1 w _ cw Hw). apply Hst. apply links_upd_stable. intro c. split; [repeat split|reflexivity].
  - (* OExpose *)
    rewrite <- Fw1 in Hpre. pose proof (expose_spec [] f w h1 h1 (conj eq_refl (conj HI1 Hpre))) as He.
    destruct (expose f w h1) as [u h2| |]; [|contradiction|exact I]. apply Hst. apply rx_only_stable. exact He.
  - (* OGetRoot *)
    unfold bind at 1. pose proof (get_root_spec [] f w h1 (conj HI1 (Hanc1 _ _ Hpre))) as Hg.
    destruct (get_root f w h1) as [r h2| |]; [|contradiction|exact I]. destruct Hg as [Eh _]. subst h2. cbn.
    apply Hst. apply stable_refl.
  - (* OFlush *)
    destruct Hpre as [Ew Hl]. subst w.
    assert (Hl1 : findw h1 root <> None) by (rewrite Fw1; exact Hl).
    pose proof (window_flush_spec f h1 HI1 Hl1 h1 eq_refl) as Hfl.
    destruct (window_flush f root h1); [apply Hst; tauto|contradiction|exact I].
  - (* OBind *)
    rewrite <- Fw1 in Hpre. destruct (live_some h1 w Hpre) as [cw Hw].
    rewrite (upd_run h1 w _ cw Hw). apply Hst. apply links_upd_stable. intro c. split; [repeat split|reflexivity].
  - (* ONop *)
    cbn. apply Hst. apply stable_refl.
Qed.
