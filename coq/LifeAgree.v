(* LifeAgree.v -- the heap-independent discipline of LifeSpec.v is sound for the model: along
   every event-free history the ghost state (references the client holds, parent each window is
   attached to) agrees with the model's heap, so what the discipline accepts satisfies the
   hypotheses of the invariant theorems, and when the discipline says that every reference has
   been dropped no window is allocated. *)
From Coq Require Import ZArith List Bool PArith FMapPositive Lia.
From Tickit Require Import LifeDefs LifeLemmas LifeChains LifeInv LifePure LifeWalks LifeRelink LifeRemove LifeClose
  LifeQueue LifeDestroy LifeAttach LifeOps LifeFlush LifeFate LifeSpec LifeProofs LifeUnfold.
Import ListNotations.
Local Open Scope Z_scope.

(* ---- what each call does to the allocation, the reference counts and the parent pointers ---------------------- *)
Definition eff_new (p : positive) (rp : bool) (h h' : heap) : Prop :=
  nextw h' = Pos.succ (nextw h) /\
  (forall a c, findw h a = Some c -> exists c', findw h' a = Some c' /\ w_parent c' = w_parent c /\ w_ref c' = w_ref c) /\
  (forall a, a <> nextw h -> findw h a = None -> findw h' a = None) /\
  exists cw p', findw h' (nextw h) = Some cw /\ w_parent cw = Some p' /\ w_ref cw = 1 /\
    (if rp then exists ct, anc h p p' /\ findw h p' = Some ct /\ w_parent ct = None else p' = p).

Definition eff_ref (w : positive) (h h' : heap) : Prop :=
  nextw h' = nextw h /\
  forall x, match findw h x, findw h' x with
            | Some c, Some c' => w_parent c' = w_parent c /\ w_ref c' = (if Pos.eqb x w then w_ref c + 1 else w_ref c)
            | None, None => True
            | _, _ => False
            end.

Definition eff_unref (w : positive) (h h' : heap) : Prop :=
  nextw h' = nextw h /\
  (forall a, findw h a = None -> findw h' a = None) /\
  forall c, findw h w = Some c ->
    (w_ref c = 1 -> fate [w] h h' /\ findw h' w = None) /\ (w_ref c <> 1 -> only_ref h h' w).

Definition eff_close (w : positive) (h h' : heap) : Prop :=
  nextw h' = nextw h /\
  (forall a, findw h a = None -> findw h' a = None) /\
  (forall a c, a <> w -> findw h a = Some c ->
     exists c', findw h' a = Some c' /\ w_parent c' = w_parent c /\ w_ref c' = w_ref c) /\
  exists cw cw', findw h w = Some cw /\ findw h' w = Some cw' /\ w_parent cw' = None /\ w_ref cw' = w_ref cw.

Definition eff (o : op) (h h' : heap) : Prop :=
  match o with
  | ONew p _ _ rp _ => eff_new p rp h h'
  | ORef w => eff_ref w h h'
  | OUnref w => eff_unref w h h'
  | OClose w => eff_close w h h'
  | _ => stable h h'
  end.

Lemma links_upd_stable : forall h w f, (forall c, same_links c (f c) /\ w_ref (f c) = w_ref c) -> stable h (upd_cell h w f).
Proof. intros h w f Hf. apply flags_only_stable. apply flags_only_upd. exact Hf. Qed.

Theorem run_op_eff : forall fuel o h,
  hinv [] h -> event_free_op o = true -> op_pre h o ->
  match run_op fixed fuel o h with
  | Ok _ h' => eff o h h'
  | Fault _ _ => False
  | NoFuel => True
  end.
Proof.
  intros fuel o h HI Hef Hpre. destruct fuel as [|f]; [cbn; exact I|].
  rewrite run_op_F. unfold bind at 1.
  assert (Hlog : exists h1, (match o with ONop | OFrameRef _ | OFrameUnref _ => ret tt | _ => log_op o end) h = Ok tt h1 /\ hinv [] h1 /\
                            wins h1 = wins h /\ nextw h1 = nextw h /\ (forall x y, anc h x y -> anc h1 x y)).
  { destruct o; try (eexists; split; [reflexivity|]; split; [apply hinv_log; exact HI|]; split; [reflexivity|]; split; [reflexivity|];
                     intros x0 y0 Ha; eapply anc_same_wins; [|exact Ha]; reflexivity).
    all: (exists h; split; [reflexivity|]; auto). }
  destruct Hlog as [h1 [Hrun [HI1 [Hw1 [Hnw1 Hanc1]]]]]. rewrite Hrun.
  assert (Fw1 : forall a, findw h1 a = findw h a) by (intro a; unfold findw; rewrite Hw1; reflexivity).
  assert (Hst : forall h', stable h1 h' -> stable h h').
  { intros h' [W N]. constructor; [|congruence]. intro a. specialize (W a). rewrite Fw1 in W. exact W. }
  destruct o; cbn in Hpre, Hef; try discriminate; cbn [eff].
  - (* ONew *)
    unfold bind at 1. rewrite <- Fw1 in Hpre.
    pose proof (window_new_spec [] f p hidden lowest rootparent steal h1 HI1 Hpre h1 eq_refl) as Hn.
    destruct (window_new f p hidden lowest rootparent steal h1) as [w h2| |]; [|contradiction|exact I].
    cbn. destruct Hn as [_ [Ew [Hpv [[cw [p' [G1 [G2 [G3 [_ G5]]]]]] [Hdom [_ [_ Hnw]]]]]]].
    unfold eff_new. rewrite <- Hnw1. split; [exact Hnw|]. split; [|split].
    + intros a c Hfa. rewrite <- Fw1 in Hfa. destruct (pv_wins h1 h2 Hpv a c Hfa) as [c' [H1 [H2 [H3 _]]]]. eauto.
    + intros a Ha Hd. rewrite <- Fw1 in Hd. apply Hdom; [congruence|exact Hd].
    + subst w. exists cw, p'. split; [exact G1|]. split; [exact G2|]. split; [exact G3|].
      destruct rootparent; [|exact G5]. destruct G5 as [ct [A1 [A2 A3]]]. exists ct.
      split; [eapply anc_same_wins; [|exact A1]; symmetry; exact Hw1|]. rewrite <- Fw1. auto.
  - (* ORef *)
    rewrite <- Fw1 in Hpre. unfold window_ref.
    pose proof (upd_links_spec [] w (fun c => set_ref c (w_ref c + 1)) h1 HI1 Hpre) as Hu.
    assert (Hf : forall c, same_links c (set_ref c (w_ref c + 1)) /\ w_ref c <= w_ref (set_ref c (w_ref c + 1))).
    { intro c. split; [repeat split|cbn; lia]. }
    specialize (Hu Hf h1 eq_refl). destruct (upd w _ h1) as [u h2| |]; [|contradiction|exact I].
    destruct Hu as [_ [_ Eh]]. subst h2. split; [rewrite nextw_upd_cell; exact Hnw1|].
    intro x. rewrite findw_upd_cell. rewrite Pos.eqb_sym. rewrite !Fw1. destruct (Pos.eqb x w) eqn:E.
    + apply Pos.eqb_eq in E. subst x. destruct (findw h w); cbn; auto.
    + destruct (findw h x); auto.
  - (* OUnref *)
    rewrite <- Fw1 in Hpre. destruct (live_some h1 w Hpre) as [c Hw].
    destruct (life_ok f) as [Hun _]. destruct (life_fate f) as [Huf _].
    pose proof (Hun [] h1 w HI1 (detached_nil h1) Hpre (fun x => x) (fun _ _ _ (x : In root []) => x) h1 eq_refl) as Hu.
    pose proof (Huf [] h1 w c HI1 (detached_nil h1) Hw (fun x => x) (fun _ (x : In root []) => x)) as Hf.
    destruct (unref fixed f w h1) as [u h2| |]; [|contradiction|exact I].
    destruct Hu as [_ [_ Sh]]. destruct Hf as [F1 F2].
    split; [rewrite (sh_nextw h1 h2 Sh); exact Hnw1|].
    split; [intros a Hd; rewrite <- Fw1 in Hd; exact (shrinks_dead h1 h2 a Sh Hd)|].
    intros c0 Hw0. rewrite <- Fw1 in Hw0. rewrite Hw in Hw0. inversion Hw0; subst c0. split.
    + intro Er. destruct (F1 Er) as [Ft Hd]. split; [|exact Hd].
      eapply fate_pre; [exact Ft|]. intros x Hx. rewrite Fw1. destruct (findw h x); auto.
    + intro Er. intro x. pose proof (F2 Er x) as G. rewrite Fw1 in G. exact G.
  - (* OClose *)
    rewrite <- Fw1 in Hpre. destruct (live_some h1 w Hpre) as [cw Hw].
    pose proof (close_spec [] f w cw h1 HI1 Hw (fun _ (x : In root []) => x) h1 eq_refl) as Hc.
    destruct (close fixed f w h1) as [u h2| |]; [|contradiction|exact I].
    destruct Hc as [_ [WK [_ [_ [[cw' [G1 [G2 [_ [_ G5]]]]] Hex]]]]].
    split; [rewrite (wk_nextw h1 h2 WK); exact Hnw1|]. split; [|split].
    + intros a Hd. rewrite <- Fw1 in Hd. exact (wk_dom h1 h2 WK a Hd).
    + intros a c Ha Hfa. rewrite <- Fw1 in Hfa. exact (Hex a c Ha Hfa).
    + exists cw, cw'. rewrite <- Fw1. auto.
  - (* ORestack *)
    destruct Hpre as [Hrs [cw [Hw Hat]]]. rewrite <- Fw1 in Hw.
    assert (Hat1 : w_parent cw = None \/ anc h1 w root) by (destruct Hat; auto).
    pose proof (request_change_spec [] f c w cw h1 HI1 Hw Hat1 Hrs h1 eq_refl) as Hr.
    destruct (request_change f c w h1) as [u h2| |]; [|contradiction|exact I].
    destruct Hr as [_ [Hw2 Hnw2]]. apply Hst. apply same_wins_stable; auto.
  - (* OShow *)
    rewrite <- Fw1 in Hpre. pose proof (window_show_spec [] f w h1 HI1 Hpre h1 eq_refl) as Hs.
    destruct (window_show f w h1); [apply Hst; tauto|contradiction|exact I].
  - (* OHide *)
    rewrite <- Fw1 in Hpre. pose proof (window_hide_spec [] f w h1 HI1 Hpre h1 eq_refl) as Hs.
    destruct (window_hide f w h1); [apply Hst; tauto|contradiction|exact I].
  - (* OSteal *)
    rewrite <- Fw1 in Hpre. destruct (live_some h1 w Hpre) as [cw Hw].
    rewrite (upd_run h1 w _ cw Hw). apply Hst. apply links_upd_stable. intro c. split; [repeat split|reflexivity].
  - (* OExpose *)
    rewrite <- Fw1 in Hpre. pose proof (expose_spec [] f w h1 h1 (conj eq_refl (conj HI1 Hpre))) as He.
    destruct (expose f w h1) as [u h2| |]; [|contradiction|exact I]. apply Hst. apply rx_only_stable. exact He.
  - (* OGetRoot *)
    unfold bind at 1. pose proof (get_root_spec [] f w h1 (conj HI1 (Hanc1 _ _ Hpre))) as Hg.
    destruct (get_root f w h1) as [r h2| |]; [|contradiction|exact I]. destruct Hg as [Eh _]. subst h2. cbn.
    apply Hst. apply stable_refl.
  - (* OBind *)
    rewrite <- Fw1 in Hpre. destruct (live_some h1 w Hpre) as [cw Hw].
    rewrite (upd_run h1 w _ cw Hw). apply Hst. apply links_upd_stable. intro c. split; [repeat split|reflexivity].
  - (* OUnbind *)
    rewrite <- Fw1 in Hpre. destruct (live_some h1 w Hpre) as [cw Hw].
    rewrite (upd_run h1 w _ cw Hw). apply Hst. apply links_upd_stable. intro c. split; [repeat split|reflexivity].
  - (* OTouch *)
    destruct Hpre as [Hpw [Hpj Hpa]]. rewrite <- Fw1 in Hpw. destruct (live_some h1 w Hpw) as [cw Hw].
    unfold bind at 1. rewrite (getw_run h1 w cw Hw). unfold bind at 1.
    assert (Hj : (match j with Some a => getw a ;;; ret tt | None => ret tt end) h1 = Ok tt h1).
    { destruct j as [a|]; [|reflexivity]. pose proof (Hpj a eq_refl) as Hla. rewrite <- Fw1 in Hla.
      destruct (live_some h1 a Hla) as [ca Ha]. unfold bind. rewrite (getw_run h1 a ca Ha). reflexivity. }
    rewrite Hj. destruct walk; [|cbn; apply Hst; apply stable_refl].
    pose proof (scrollrect_spec [] f w h1 h1 (conj eq_refl (conj HI1 (Hanc1 _ _ (Hpa eq_refl))))) as Hs.
    destruct (scrollrect f w h1) as [u h2| |]; [|contradiction|exact I]. apply Hst. apply rx_only_stable. exact Hs.
  - (* ONotify *)
    rewrite <- Fw1 in Hpre. destruct (live_some h1 w Hpre) as [cw Hw].
    rewrite (upd_run h1 w _ cw Hw). apply Hst. apply links_upd_stable. intro c. split; [repeat split|reflexivity].
  - (* ONop *)
    cbn. apply Hst. apply stable_refl.
Qed.

(* ---- ghost state and heap ----------------------------------------------------------------------------------------- *)
Definition addr_of (i : nat) : positive := Pos.of_succ_nat i.

Lemma idx_addr : forall i, idx (addr_of i) = i.
Proof. intro i. unfold idx, addr_of. rewrite SuccNat2Pos.id_succ. reflexivity. Qed.
Lemma addr_idx : forall a, addr_of (idx a) = a.
Proof.
  intro a. unfold idx, addr_of. destruct (Pos2Nat.is_succ a) as [n Hn]. rewrite Hn. cbn.
  apply Pos2Nat.inj. rewrite SuccNat2Pos.id_succ. symmetry. exact Hn.
Qed.
Lemma addr_inj : forall i j, addr_of i = addr_of j -> i = j.
Proof. intros i j H. apply (f_equal idx) in H. rewrite !idx_addr in H. exact H. Qed.
Lemma addr_lt : forall i j, (addr_of i < addr_of j)%positive <-> (i < j)%nat.
Proof. intros i j. unfold addr_of. rewrite Pos2Nat.inj_lt. rewrite !SuccNat2Pos.id_succ. lia. Qed.
Lemma addr_root : addr_of 0 = root.
Proof. reflexivity. Qed.
Lemma addr_succ : forall i, Pos.succ (addr_of i) = addr_of (S i).
Proof. intro i. unfold addr_of. cbn. reflexivity. Qed.

Definition agree_cell (gw : gwin) (oc : option wcell) : Prop :=
  match oc with
  | None => g_cnt gw = 0 /\ g_par gw = None
  | Some c => g_cnt gw = w_ref c /\ option_map addr_of (g_par gw) = w_parent c
  end.

Record agree (g : ghost) (h : heap) : Prop := mk_agree {
  ag_len : nextw h = addr_of (length g);
  ag_cells : forall i gw, nth_error g i = Some gw -> agree_cell gw (findw h (addr_of i))
}.

Lemma agree_init : agree g0 (heap0 fixed).
Proof.
  constructor; [reflexivity|]. intros i gw Hn. destruct i as [|i]; cbn in Hn.
  - inversion Hn; subst gw. cbn. auto.
  - destruct i; discriminate.
Qed.

Section Agree.
Variables (g : ghost) (h : heap).
Hypothesis HI : hinv [] h.
Hypothesis AG : agree g h.

Lemma agree_live_entry : forall a, findw h a <> None -> exists gw, nth_error g (idx a) = Some gw.
Proof.
  intros a Hl. pose proof (hi_nextw [] h HI a Hl) as Hlt. rewrite (ag_len g h AG) in Hlt.
  rewrite <- (addr_idx a) in Hlt. apply addr_lt in Hlt.
  destruct (nth_error g (idx a)) as [gw|] eqn:Hn; [eauto|]. apply nth_error_None in Hn. lia.
Qed.

Lemma agree_held_live : forall i, gheld g i = true -> findw h (addr_of i) <> None.
Proof.
  intros i Hh. unfold gheld, gget in Hh. destruct (nth_error g i) as [gw|] eqn:Hn; [|discriminate].
  pose proof (ag_cells g h AG i gw Hn) as Hc. apply Z.ltb_lt in Hh.
  destruct (findw h (addr_of i)); [congruence|]. destruct Hc as [Hc _]. lia.
Qed.

Lemma agree_live_held : forall a c, findw h a = Some c ->
  exists gw, nth_error g (idx a) = Some gw /\ g_cnt gw = w_ref c /\ option_map addr_of (g_par gw) = w_parent c /\ 0 < g_cnt gw.
Proof.
  intros a c Hf. assert (Hl : findw h a <> None) by congruence.
  destruct (agree_live_entry a Hl) as [gw Hn]. exists gw. split; auto.
  pose proof (ag_cells g h AG (idx a) gw Hn) as Hc. rewrite addr_idx in Hc. rewrite Hf in Hc. destruct Hc as [H1 H2].
  split; auto. split; auto. pose proof (hi_ref [] h HI a c Hf (fun x => x)). lia.
Qed.

Lemma agree_intree : forall fuel i, gintree_n fuel g i = true -> anc h (addr_of i) root.
Proof.
  induction fuel as [|f IH]; intros i H; cbn in H; [discriminate|].
  unfold gget in H. destruct (nth_error g i) as [gw|] eqn:Hn; [|discriminate].
  apply andb_prop in H. destruct H as [Hc Hr]. apply Z.ltb_lt in Hc.
  pose proof (ag_cells g h AG i gw Hn) as Hcell.
  destruct (findw h (addr_of i)) as [c|] eqn:Hf; [|destruct Hcell; lia].
  destruct Hcell as [_ Hp]. destruct i as [|i'].
  - rewrite addr_root. eapply anc_refl. rewrite <- addr_root. exact Hf.
  - destruct (g_par gw) as [p|]; [|discriminate]. cbn in Hp.
    eapply anc_step; [exact Hf|symmetry; exact Hp|]. apply IH. exact Hr.
Qed.

Lemma agree_usable : forall i, gusable g i = true -> anc h (addr_of i) root.
Proof.
  intros i H. unfold gusable in H. apply andb_prop in H. destruct H as [H _].
  apply andb_prop in H. destruct H as [_ H]. unfold gintree in H. eapply agree_intree; eauto.
Qed.

Lemma agree_usable_live : forall i, gusable g i = true -> findw h (addr_of i) <> None.
Proof. intros i H. eapply anc_live_l. apply agree_usable. exact H. Qed.

(* the ghost's walk to the top of a tree ends where the heap's does *)
Lemma agree_top : forall fuel i, (i < fuel)%nat -> findw h (addr_of i) <> None ->
  exists ct, findw h (addr_of (gtop_n fuel g i)) = Some ct /\ w_parent ct = None /\ anc h (addr_of i) (addr_of (gtop_n fuel g i)).
Proof.
  induction fuel as [|f IH]; intros i Hlt Hl; [lia|]. cbn.
  destruct (live_some h _ Hl) as [c Hf].
  destruct (agree_live_held _ c Hf) as [gw [Hn [_ [Hp _]]]]. rewrite idx_addr in Hn.
  unfold gget. rewrite Hn. destruct (g_par gw) as [p|] eqn:Hgp; cbn in Hp.
  - assert (Hpl : (addr_of p < addr_of i)%positive) by (apply (hi_parent_lt [] h HI (addr_of i) c); auto).
    apply addr_lt in Hpl.
    assert (Hlp : findw h (addr_of p) <> None) by (apply (hi_parent [] h HI (addr_of i) c); auto).
    destruct (IH p) as [ct [H1 [H2 H3]]]; [lia|exact Hlp|].
    exists ct. split; auto. split; auto. eapply anc_step; eauto.
  - exists c. split; auto. split; auto. eapply anc_refl; eauto.
Qed.

End Agree.

(* ---- list facts for the ghost updates ---------------------------------------------------------------------------------- *)
Lemma nth_gset : forall (l : ghost) i x j,
  nth_error (gset l i x) j = if Nat.eqb j i then (match nth_error l i with Some _ => Some x | None => None end) else nth_error l j.
Proof.
  induction l as [|y l IH]; intros i x j; cbn.
  - destruct (Nat.eqb j i); destruct j, i; reflexivity.
  - destruct i as [|i]; destruct j as [|j]; cbn; auto.
Qed.

Lemma length_gset : forall (l : ghost) i x, length (gset l i x) = length l.
Proof. induction l as [|y l IH]; intros i x; cbn; auto. destruct i; cbn; auto. Qed.

Lemma length_gdestroy_pass : forall l i w d, length (gdestroy_pass l i w d) = length l.
Proof.
  induction l as [|x l IH]; intros i w d; cbn; auto.
  destruct (Nat.eqb i w); cbn; [rewrite IH; reflexivity|].
  destruct (g_par x); [|cbn; rewrite IH; reflexivity].
  destruct (existsb (Nat.eqb n) d && (0 <? g_cnt x)); [|cbn; rewrite IH; reflexivity].
  destruct (g_cnt x =? 1); cbn; rewrite IH; reflexivity.
Qed.

(* ---- the ghost's one-pass destruction computes the fate the heap's recursion produces ------------------------------------ *)
Lemma gdestroy_pass_agree : forall g h h' w cw,
  hinv [] h -> agree g h -> findw h w = Some cw ->
  fate [w] h h' -> findw h' w = None -> (forall a, findw h a = None -> findw h' a = None) ->
  forall suffix i doomed,
    (forall k gw, nth_error suffix k = Some gw -> nth_error g (i + k) = Some gw) ->
    (forall j, In j doomed <-> ((j < i)%nat /\ gone [w] h h' (addr_of j))) ->
    forall k gw', nth_error (gdestroy_pass suffix i (idx w) doomed) k = Some gw' ->
      agree_cell gw' (findw h' (addr_of (i + k))).
Proof.
  intros g h h' w cw HI AG Hw Hfate Hwd Hdead.
  apply fate_rule in Hfate.
  induction suffix as [|x t IH]; intros i doomed Htail Hdoom k gw' Hn; [destruct k; discriminate|].
  assert (Hx : nth_error g i = Some x) by (rewrite <- (Nat.add_0_r i); apply Htail; reflexivity).
  pose proof (ag_cells g h AG i x Hx) as Hcell.
  assert (Htail' : forall k0 gw0, nth_error t k0 = Some gw0 -> nth_error g (S i + k0) = Some gw0).
  { intros k0 gw0 Hk0. rewrite Nat.add_succ_l, <- Nat.add_succ_r. apply Htail. exact Hk0. }
  assert (Hnotgone_live : forall c', findw h' (addr_of i) = Some c' -> addr_of i <> w -> ~ gone [w] h h' (addr_of i)).
  { intros c' Hc' Hne [[E|[]]|[_ Hd]]; congruence. }
  (* the invariant of the doomed list after this entry, in the two possible ways *)
  assert (Hkeep : ~ gone [w] h h' (addr_of i) ->
            forall j, In j doomed <-> ((j < S i)%nat /\ gone [w] h h' (addr_of j))).
  { intros Hng j. rewrite (Hdoom j). split; intros [H1 H2]; (split; [|exact H2]).
    - lia.
    - destruct (Nat.eq_dec j i) as [E|E]; [subst j; contradiction|lia]. }
  assert (Hadd : gone [w] h h' (addr_of i) ->
            forall j, In j (i :: doomed) <-> ((j < S i)%nat /\ gone [w] h h' (addr_of j))).
  { intros Hg j. cbn. rewrite (Hdoom j). split.
    - intros [E|[H1 H2]]; [subst j; split; [lia|exact Hg]|split; [lia|exact H2]].
    - intros [H1 H2]. destruct (Nat.eq_dec j i) as [E|E]; [left; auto|right; split; [lia|exact H2]]. }
  cbn [gdestroy_pass] in Hn.
  destruct (Nat.eqb i (idx w)) eqn:Eiw.
  - (* the window that is destroyed *)
    apply Nat.eqb_eq in Eiw. assert (Ea : addr_of i = w) by (rewrite Eiw; apply addr_idx).
    destruct k as [|k]; cbn in Hn.
    + inversion Hn; subst gw'. rewrite Nat.add_0_r, Ea, Hwd. cbn. auto.
    + rewrite <- Nat.add_succ_comm. eapply IH; [exact Htail'| |exact Hn].
      apply Hadd. left. left. symmetry. exact Ea.
  - apply Nat.eqb_neq in Eiw. assert (Ea : addr_of i <> w) by (intro E; apply Eiw; rewrite <- E; symmetry; apply idx_addr).
    assert (Hxw : ~ In (addr_of i) [w]) by (apply not_in_single; exact Ea).
    destruct (g_par x) as [p|] eqn:Hgp.
    + (* attached in the ghost: the heap cell exists and its parent is the same window *)
      destruct (findw h (addr_of i)) as [c|] eqn:Hf; [|destruct Hcell as [_ Hcp]; congruence].
      destruct Hcell as [Hcnt Hpar]. rewrite Hgp in Hpar. cbn in Hpar.
      pose proof (hi_ref [] h HI _ c Hf (fun y => y)) as Href.
      assert (Hplt : (p < i)%nat) by (apply addr_lt; exact (hi_parent_lt [] h HI (addr_of i) c (addr_of p) Hf (eq_sym Hpar))).
      assert (Hpos : (0 <? g_cnt x) = true) by (apply Z.ltb_lt; lia).
      pose proof (Hfate _ c Hf Hxw) as R. unfold rule in R.
      rewrite Hpos in Hn. rewrite andb_true_r in Hn.
      destruct (existsb (Nat.eqb p) doomed) eqn:Eex.
      * (* the parent goes *)
        assert (Hg : gone [w] h h' (addr_of p)).
        { apply existsb_exists in Eex. destruct Eex as [j [Hj Ej]]. apply Nat.eqb_eq in Ej. subst j. apply Hdoom in Hj. tauto. }
        destruct (g_cnt x =? 1) eqn:E1.
        -- apply Z.eqb_eq in E1.
           assert (Hd : findw h' (addr_of i) = None).
           { destruct (findw h' (addr_of i)) as [c'|]; auto. destruct R as [R1 _].
             destruct (R1 (addr_of p) (eq_sym Hpar) Hg) as [_ [_ Hne]]. lia. }
           destruct k as [|k]; cbn in Hn.
           ++ inversion Hn; subst gw'. rewrite Nat.add_0_r, Hd. cbn. auto.
           ++ rewrite <- Nat.add_succ_comm. eapply IH; [exact Htail'| |exact Hn].
              apply Hadd. right. split; congruence.
        -- apply Z.eqb_neq in E1.
           destruct (findw h' (addr_of i)) as [c'|] eqn:Hf'.
           ++ destruct R as [R1 _]. destruct (R1 (addr_of p) (eq_sym Hpar) Hg) as [Hr' [Hp' _]].
              destruct k as [|k]; cbn in Hn.
              ** inversion Hn; subst gw'. rewrite Nat.add_0_r, Hf'. cbn. split; [lia|auto].
              ** rewrite <- Nat.add_succ_comm. eapply IH; [exact Htail'| |exact Hn].
                 apply Hkeep. eapply Hnotgone_live; eauto.
           ++ destruct R as [p' [Hp' [_ Hr']]]. lia.
      * (* the parent stays *)
        assert (Hng : ~ gone [w] h h' (addr_of p)).
        { intro Hg. assert (Hin : In p doomed) by (apply Hdoom; split; auto).
          assert (Hex : existsb (Nat.eqb p) doomed = true) by (apply existsb_exists; exists p; split; [exact Hin|apply Nat.eqb_refl]).
          congruence. }
        destruct (findw h' (addr_of i)) as [c'|] eqn:Hf'.
        -- destruct R as [_ R2]. destruct R2 as [Hr' Hp'].
           { intros q Hq Hg. apply Hng. rewrite <- Hpar in Hq. inversion Hq; subst q. exact Hg. }
           destruct k as [|k]; cbn in Hn.
           ++ inversion Hn; subst gw'. rewrite Nat.add_0_r, Hf'. cbn. rewrite Hgp. cbn. split; congruence.
           ++ rewrite <- Nat.add_succ_comm. eapply IH; [exact Htail'| |exact Hn].
              apply Hkeep. eapply Hnotgone_live; eauto.
        -- destruct R as [p' [Hp' [Hg' _]]]. rewrite <- Hpar in Hp'. inversion Hp'; subst p'. contradiction.
    + (* detached in the ghost: untouched *)
      assert (Hng : ~ gone [w] h h' (addr_of i) /\ agree_cell x (findw h' (addr_of i))).
      { destruct (findw h (addr_of i)) as [c|] eqn:Hf.
        - destruct Hcell as [Hcnt Hpar]. rewrite Hgp in Hpar. cbn in Hpar.
          pose proof (Hfate _ c Hf Hxw) as R. unfold rule in R.
          destruct (findw h' (addr_of i)) as [c'|] eqn:Hf'.
          + destruct R as [_ R2]. destruct R2 as [Hr' Hp']; [intros q Hq; congruence|].
            split; [eapply Hnotgone_live; eauto|]. cbn. rewrite Hgp. cbn. split; congruence.
          + destruct R as [p' [Hp' _]]. congruence.
        - rewrite (Hdead _ Hf). split; [|exact Hcell].
          intros [[E|[]]|[Hl _]]; congruence. }
      destruct Hng as [Hng Hcell'].
      destruct k as [|k]; cbn in Hn.
      * inversion Hn; subst gw'. rewrite Nat.add_0_r. exact Hcell'.
      * rewrite <- Nat.add_succ_comm. eapply IH; [exact Htail'| |exact Hn]. apply Hkeep. exact Hng.
Qed.

(* ---- every call keeps ghost and heap in agreement; the discipline implies the calls' preconditions ------------------------ *)
Lemma agree_stable : forall g h h', agree g h -> stable h h' -> agree g h'.
Proof.
  intros g h h' [L C] S. constructor; [rewrite (st_nextw h h' S); exact L|].
  intros i gw Hn. specialize (C i gw Hn). pose proof (st_wins h h' S (addr_of i)) as W.
  destruct (findw h (addr_of i)) as [c|], (findw h' (addr_of i)) as [c'|]; try contradiction; auto.
  destruct W as [W1 [W2 _]]. destruct C as [C1 C2]. cbn. split; congruence.
Qed.

Lemma gusable_entry : forall g i, gusable g i = true -> gheld g i = true.
Proof. intros g i H. unfold gusable in H. apply andb_prop in H. destruct H as [H _]. apply andb_prop in H. tauto. Qed.

Lemma step_agree : forall g h o g',
  hinv [] h -> agree g h -> event_free_op o = true -> gstep g o = Some g' ->
  op_pre h o /\ (forall h', eff o h h' -> agree g' h').
Proof.
  intros g h o g' HI AG Hef Hstep.
  destruct o; cbn in Hef; try discriminate; cbn [gstep] in Hstep; cbn [op_pre eff].
  - (* ONew *)
    destruct (gusable g (idx p)) eqn:Hu; [|discriminate]. inversion Hstep; subst g'. clear Hstep.
    pose proof (agree_usable_live g h AG (idx p) Hu) as Hl. rewrite addr_idx in Hl. split; [exact Hl|].
    intros h' [Hnw [Hold [Hdom [cw [p' [G1 [G2 [G3 G4]]]]]]]].
    set (pi := if rootparent then gtop g (idx p) else idx p).
    assert (Hpi : addr_of pi = p').
    { unfold pi. destruct rootparent; [|rewrite G4; apply addr_idx].
      destruct G4 as [ct [A1 [A2 A3]]].
      assert (Hlt : (idx p < S (length g))%nat).
      { destruct (agree_live_entry g h HI AG p Hl) as [gw Hn].
        assert (Hlen : (idx p < length g)%nat) by (apply nth_error_Some; congruence). lia. }
      assert (Hl' : findw h (addr_of (idx p)) <> None) by (rewrite addr_idx; exact Hl).
      destruct (agree_top g h HI AG (S (length g)) (idx p) Hlt Hl') as [ct' [B1 [B2 B3]]].
      rewrite addr_idx in B3. unfold gtop.
      destruct (anc_linear h p p' A1 _ B3) as [H|H].
      - exact (anc_top h p' _ ct H A2 A3).
      - symmetry. exact (anc_top h _ p' ct' H B1 B2). }
    constructor.
    + rewrite Hnw, (ag_len g h AG), app_length. cbn. rewrite Nat.add_1_r. apply addr_succ.
    + intros i gw Hn. destruct (Nat.lt_ge_cases i (length g)) as [Hlt|Hge].
      * rewrite nth_error_app1 in Hn by exact Hlt. pose proof (ag_cells g h AG i gw Hn) as C.
        destruct (findw h (addr_of i)) as [c|] eqn:Hf.
        -- destruct (Hold _ c Hf) as [c' [H1 [H2 H3]]]. rewrite H1. destruct C as [C1 C2]. cbn. split; congruence.
        -- rewrite Hdom; auto. rewrite (ag_len g h AG). intro E. apply addr_inj in E. lia.
      * rewrite nth_error_app2 in Hn by exact Hge. destruct (i - length g)%nat as [|d] eqn:Ed; cbn in Hn.
        -- inversion Hn; subst gw. assert (i = length g) by lia. subst i. rewrite <- (ag_len g h AG). rewrite G1.
           cbn. split; [congruence|]. fold pi. rewrite Hpi. congruence.
        -- destruct d; discriminate.
  - (* ORef *)
    destruct (gheld g (idx w)) eqn:Hh; [|discriminate]. inversion Hstep; subst g'. clear Hstep.
    pose proof (agree_held_live g h AG (idx w) Hh) as Hl. rewrite addr_idx in Hl. split; [exact Hl|].
    intros h' [Hnw Hx]. unfold gupd.
    destruct (agree_live_entry g h HI AG w Hl) as [gw Hgw]. unfold gget. rewrite Hgw.
    constructor; [rewrite Hnw, length_gset; exact (ag_len g h AG)|].
    intros i gi Hn. rewrite nth_gset in Hn. specialize (Hx (addr_of i)).
    destruct (Nat.eqb i (idx w)) eqn:E.
    + apply Nat.eqb_eq in E. subst i. rewrite Hgw in Hn. inversion Hn; subst gi. rewrite addr_idx in *.
      pose proof (ag_cells g h AG (idx w) gw Hgw) as C. rewrite addr_idx in C.
      destruct (findw h w) as [c|]; [|congruence]. destruct (findw h' w) as [c'|]; [|contradiction].
      rewrite Pos.eqb_refl in Hx. destruct Hx as [X1 X2]. destruct C as [C1 C2]. cbn. split; [lia|congruence].
    + apply Nat.eqb_neq in E. pose proof (ag_cells g h AG i gi Hn) as C.
      assert (Ea : Pos.eqb (addr_of i) w = false).
      { apply Pos.eqb_neq. intro Ea. apply E. rewrite <- Ea. symmetry. apply idx_addr. }
      rewrite Ea in Hx. destruct (findw h (addr_of i)) as [c|], (findw h' (addr_of i)) as [c'|]; try contradiction; auto.
      destruct Hx as [X1 X2]. destruct C as [C1 C2]. cbn. split; congruence.
  - (* OUnref *)
    unfold gget in Hstep. destruct (nth_error g (idx w)) as [x|] eqn:Hgw; [|discriminate].
    destruct (0 <? g_cnt x) eqn:Hpos; [|discriminate]. apply Z.ltb_lt in Hpos.
    pose proof (ag_cells g h AG (idx w) x Hgw) as C. rewrite addr_idx in C.
    destruct (findw h w) as [c|] eqn:Hw; [|destruct C; lia]. destruct C as [C1 C2].
    split; [congruence|]. intros h' [Hnw [Hdead Hx]]. destruct (Hx c Hw) as [X1 X2].
    destruct (g_cnt x =? 1) eqn:E1.
    + apply Z.eqb_eq in E1. inversion Hstep; subst g'. clear Hstep.
      destruct (X1 ltac:(lia)) as [Ft Hwd]. unfold gdestroy.
      constructor; [rewrite Hnw, length_gdestroy_pass; exact (ag_len g h AG)|].
      intros i gi Hn.
      pose proof (gdestroy_pass_agree g h h' w c HI AG Hw Ft Hwd Hdead g 0%nat []) as P.
      apply (P (fun k gw Hk => Hk)); [|exact Hn].
      intro j. split; [intros []|intros [Hlt _]; lia].
    + apply Z.eqb_neq in E1. inversion Hstep; subst g'. clear Hstep.
      assert (Hne : w_ref c <> 1) by lia. specialize (X2 Hne).
      constructor; [rewrite Hnw, length_gset; exact (ag_len g h AG)|].
      intros i gi Hn. rewrite nth_gset in Hn. specialize (X2 (addr_of i)).
      destruct (Nat.eqb i (idx w)) eqn:E.
      * apply Nat.eqb_eq in E. subst i. rewrite Hgw in Hn. inversion Hn; subst gi. rewrite addr_idx in *.
        rewrite Hw in X2. destruct (findw h' w) as [c'|]; [|contradiction].
        rewrite Pos.eqb_refl in X2. destruct X2 as [Y1 Y2]. cbn. split; [lia|congruence].
      * apply Nat.eqb_neq in E. pose proof (ag_cells g h AG i gi Hn) as Ci.
        assert (Ea : Pos.eqb (addr_of i) w = false).
        { apply Pos.eqb_neq. intro Ea. apply E. rewrite <- Ea. symmetry. apply idx_addr. }
        rewrite Ea in X2. destruct (findw h (addr_of i)) as [ci|], (findw h' (addr_of i)) as [ci'|]; try contradiction; auto.
        destruct X2 as [Y1 Y2]. destruct Ci as [D1 D2]. cbn. split; congruence.
  - (* OClose *)
    unfold gget in Hstep. destruct (nth_error g (idx w)) as [x|] eqn:Hgw; [|discriminate].
    destruct ((0 <? g_cnt x) && match g_par x with Some _ => true | None => Nat.eqb (idx w) 0 end) eqn:Hc; [|discriminate].
    inversion Hstep; subst g'. clear Hstep. apply andb_prop in Hc. destruct Hc as [Hpos _]. apply Z.ltb_lt in Hpos.
    pose proof (ag_cells g h AG (idx w) x Hgw) as C. rewrite addr_idx in C.
    destruct (findw h w) as [c|] eqn:Hw; [|destruct C; lia]. split; [congruence|].
    intros h' [Hnw [Hdead [Hoth [cw [cw' [G1 [G2 [G3 G4]]]]]]]]. rewrite Hw in G1. inversion G1; subst cw.
    constructor; [rewrite Hnw, length_gset; exact (ag_len g h AG)|].
    intros i gi Hn. rewrite nth_gset in Hn. destruct (Nat.eqb i (idx w)) eqn:E.
    + apply Nat.eqb_eq in E. subst i. rewrite Hgw in Hn. inversion Hn; subst gi. rewrite addr_idx. rewrite G2.
      destruct C as [C1 C2]. cbn. split; congruence.
    + apply Nat.eqb_neq in E. pose proof (ag_cells g h AG i gi Hn) as Ci.
      assert (Ea : addr_of i <> w) by (intro Ea; apply E; rewrite <- Ea; symmetry; apply idx_addr).
      destruct (findw h (addr_of i)) as [ci|] eqn:Hfi.
      * destruct (Hoth _ ci Ea Hfi) as [ci' [H1 [H2 H3]]]. rewrite H1. destruct Ci as [D1 D2]. cbn. split; congruence.
      * rewrite (Hdead _ Hfi). exact Ci.
  - (* ORestack *)
    destruct (is_restack c && gusable g (idx w)) eqn:Hc; [|discriminate]. inversion Hstep; subst g'.
    apply andb_prop in Hc. destruct Hc as [Hrs Hu].
    pose proof (agree_usable g h AG (idx w) Hu) as Ha. rewrite addr_idx in Ha.
    pose proof (anc_live_l h w root Ha) as Hl. destruct (live_some h w Hl) as [cw Hw].
    split; [split; [exact Hrs|exists cw; auto]|]. intros h' S. eapply agree_stable; eauto.
  - destruct (gusable g (idx w)) eqn:Hu; [|discriminate]. inversion Hstep; subst g'.
    pose proof (agree_usable_live g h AG (idx w) Hu) as Hl. rewrite addr_idx in Hl.
    split; [exact Hl|]. intros h' S. eapply agree_stable; eauto.
  - destruct (gusable g (idx w)) eqn:Hu; [|discriminate]. inversion Hstep; subst g'.
    pose proof (agree_usable_live g h AG (idx w) Hu) as Hl. rewrite addr_idx in Hl.
    split; [exact Hl|]. intros h' S. eapply agree_stable; eauto.
  - destruct (gusable g (idx w)) eqn:Hu; [|discriminate]. inversion Hstep; subst g'.
    pose proof (agree_usable_live g h AG (idx w) Hu) as Hl. rewrite addr_idx in Hl.
    split; [exact Hl|]. intros h' S. eapply agree_stable; eauto.
  - destruct (gusable g (idx w)) eqn:Hu; [|discriminate]. inversion Hstep; subst g'.
    pose proof (agree_usable_live g h AG (idx w) Hu) as Hl. rewrite addr_idx in Hl.
    split; [exact Hl|]. intros h' S. eapply agree_stable; eauto.
  - destruct (gusable g (idx w)) eqn:Hu; [|discriminate]. inversion Hstep; subst g'.
    pose proof (agree_usable g h AG (idx w) Hu) as Ha. rewrite addr_idx in Ha.
    split; [exact Ha|]. intros h' S. eapply agree_stable; eauto.
  - destruct (gusable g (idx w)) eqn:Hu; [|discriminate]. inversion Hstep; subst g'.
    pose proof (agree_usable_live g h AG (idx w) Hu) as Hl. rewrite addr_idx in Hl.
    split; [exact Hl|]. intros h' S. eapply agree_stable; eauto.
  - destruct (gusable g (idx w)) eqn:Hu; [|discriminate]. inversion Hstep; subst g'.
    pose proof (agree_usable_live g h AG (idx w) Hu) as Hl. rewrite addr_idx in Hl.
    split; [exact Hl|]. intros h' S. eapply agree_stable; eauto.
  - destruct (gusable g (idx w) && match j with Some a => gusable g (idx a) | None => true end) eqn:Hc; [|discriminate].
    inversion Hstep; subst g'. apply andb_prop in Hc. destruct Hc as [Hu Hj].
    pose proof (agree_usable_live g h AG (idx w) Hu) as Hl. rewrite addr_idx in Hl.
    split; [split; [exact Hl|split]|intros h' S; eapply agree_stable; eauto].
    + intros a Ea. subst j. pose proof (agree_usable_live g h AG (idx a) Hj) as Hla. rewrite addr_idx in Hla. exact Hla.
    + intros _. pose proof (agree_usable g h AG (idx w) Hu) as Ha. rewrite addr_idx in Ha. exact Ha.
  - destruct (gusable g (idx w)) eqn:Hu; [|discriminate]. inversion Hstep; subst g'.
    pose proof (agree_usable_live g h AG (idx w) Hu) as Hl. rewrite addr_idx in Hl.
    split; [exact Hl|]. intros h' S. eapply agree_stable; eauto.
  - inversion Hstep; subst g'. split; [exact I|]. intros h' S. eapply agree_stable; eauto.
Qed.

(* ---- whole histories ------------------------------------------------------------------------------------------------------- *)
Lemma run_agree : forall fuel l g h k gf,
  hinv [] h -> agree g h -> forallb event_free_op l = true -> gcheck g l = Some gf ->
  match run_script_from fixed fuel l k h with
  | VOk h' => hinv [] h' /\ agree gf h'
  | VFault _ _ _ => False
  | VNoFuel _ => True
  end.
Proof.
  intros fuel l. induction l as [|o l IH]; intros g h k gf HI AG Hef Hg; cbn in *.
  - inversion Hg; subst gf. auto.
  - apply andb_prop in Hef. destruct Hef as [Hef1 Hef2].
    destruct (gstep g o) as [g1|] eqn:Hs; [|discriminate].
    destruct (step_agree g h o g1 HI AG Hef1 Hs) as [Hpre Hag].
    pose proof (run_op_ok fuel o h HI Hef1 Hpre) as Hok.
    pose proof (run_op_eff fuel o h HI Hef1 Hpre) as Heff.
    destruct (run_op fixed fuel o h) as [u h'| |]; [|contradiction|exact I].
    apply (IH g1 h' (S k) gf Hok (Hag h' Heff) Hef2 Hg).
Qed.

(* For every event-free history that the heap-independent discipline accepts, of any length and with
   any fuel, the model never faults. *)
Theorem wf_no_fault : forall fuel l,
  forallb event_free_op l = true -> wf_client l = true -> fault_of (run_script fixed fuel l) = None.
Proof.
  intros fuel l Hef Hwf. unfold wf_client in Hwf. destruct (gcheck g0 l) as [gf|] eqn:Hg; [|discriminate].
  pose proof (run_agree fuel l g0 (heap0 fixed) O gf hinv_heap0 agree_init Hef Hg) as H.
  unfold run_script. destruct (run_script_from fixed fuel l O (heap0 fixed)); cbn; auto. contradiction.
Qed.

(* ... and once the discipline says that every reference has been dropped, nothing is allocated. *)
Theorem wf_all_released : forall fuel l gf h,
  forallb event_free_op l = true -> gcheck g0 l = Some gf -> all_dropped gf = true ->
  run_script fixed fuel l = VOk h -> heap_empty h = true.
Proof.
  intros fuel l gf h Hef Hg Hd Hrun.
  pose proof (run_agree fuel l g0 (heap0 fixed) O gf hinv_heap0 agree_init Hef Hg) as H.
  unfold run_script in Hrun. rewrite Hrun in H. destruct H as [HI AG].
  apply all_released; auto. intros a c Hf. exfalso.
  destruct (agree_live_held gf h HI AG a c Hf) as [gw [Hn [_ [_ Hpos]]]].
  unfold all_dropped in Hd. rewrite forallb_forall in Hd.
  assert (Hin : In gw gf) by (eapply nth_error_In; eauto).
  specialize (Hd gw Hin). apply Z.eqb_eq in Hd. lia.
Qed.
