(* RBDefs.v -- executable model of /repo/src/renderbuffer.c (the drawing part: everything
   except flush, which is in RBFlushDefs.v, and copyrect/moverect/blit, which are in
   RBCopyDefs.v), written function by function after the C.  Definitions only.

   Representation.  The C cell is
       struct { state; union { startcol; cols }; maskdepth; pen; union { text{s,offs}; line{mask}; chr{codepoint} } }
   with state in SKIP TEXT ERASE CONT LINE CHAR.  Only the fields selected by [state] are
   ever read by the C, so the model stores exactly those:
       ck = Cont startcol                      state == CONT
       ck = Start CSkip n                      state == SKIP,  cols == n
       ck = Start (CText pen s offs) n         state == TEXT,  cols == n, v.text = {s, offs}
       ck = Start (CErase pen) n               state == ERASE
       ck = Start (CLine pen mask) n           state == LINE
       ck = Start (CChar pen cp) n             state == CHAR
   plus [cmask] = maskdepth.  A TickitString is immutable and reference counted; the model
   stores its content.  Texts are lists of CODE POINTS (UTF-8 coding is C07's business); the
   width function [cpw] covers only the character classes the harness feeds (see below).
   Pens are a 4-attribute partial map (fg, bg: colour index; b: bool; u: int), enough for
   the three attribute types pen.c distinguishes in copy/equiv.

   Results: [Ok], or [Fault] where the C would index outside an array or call abort(), or
   [NoFuel] for an exhausted loop bound.  Theorems show neither happens. *)
From Coq Require Import ZArith List Bool.
From Tickit Require Gen_Width Utf8Defs Utf8Spec.
From Tickit Require Gen_Colours PenDefs PenSpec PenProofs.
From Tickit Require Import RectDefs.
Import ListNotations.
Local Open Scope Z_scope.

(* ---------------------------------------------------------------------------------- *)
(* result monad *)

Inductive res (A : Type) : Type := Ok (a : A) | Fault | NoFuel.
Arguments Ok {A} a.
Arguments Fault {A}.
Arguments NoFuel {A}.

Definition bind {A B : Type} (r : res A) (f : A -> res B) : res B :=
  match r with Ok a => f a | Fault => Fault | NoFuel => NoFuel end.
Notation "'do' x <- r ; k" := (bind r (fun x => k))
  (at level 200, x name, r at level 100, k at level 200, right associativity).
Notation "'do2' ( x , y ) <- r ; k" := (bind r (fun xy => let '(x, y) := xy in k))
  (at level 200, x name, y name, r at level 100, k at level 200, right associativity).

(* ---------------------------------------------------------------------------------- *)
(* pens.  A pen is the partial map  attribute -> value  that property C19 (PenSpec.lookup)
   assigns to a TickitPen: all ten attributes, colours with their optional RGB8 secondary.
   Merging is PenProofs.copy_entry per attribute, which C19_copy proves to be what
   tickit_pen_copy does to the maps; equivalence is equality of the defaulted reads, which
   C19_equiv_iff proves to be tickit_pen_equiv (RBPenBridge.v states both for the C19 model). *)

Notation pvalue := PenSpec.value.
Notation pattr := PenDefs.attr.

Record pen := mkPen {
  p_fg : option pvalue; p_bg : option pvalue; p_bold : option pvalue; p_under : option pvalue;
  p_italic : option pvalue; p_reverse : option pvalue; p_strike : option pvalue;
  p_altfont : option pvalue; p_blink : option pvalue; p_sizepos : option pvalue }.
Definition pen_empty : pen := mkPen None None None None None None None None None None.

Definition pget (p : pen) (a : pattr) : option pvalue :=
  match a with
  | PenDefs.FG => p_fg p | PenDefs.BG => p_bg p | PenDefs.BOLD => p_bold p | PenDefs.UNDER => p_under p
  | PenDefs.ITALIC => p_italic p | PenDefs.REVERSE => p_reverse p | PenDefs.STRIKE => p_strike p
  | PenDefs.ALTFONT => p_altfont p | PenDefs.BLINK => p_blink p | PenDefs.SIZEPOS => p_sizepos p
  | PenDefs.AOther => None
  end.

Definition pen_build (f : pattr -> option pvalue) : pen :=
  mkPen (f PenDefs.FG) (f PenDefs.BG) (f PenDefs.BOLD) (f PenDefs.UNDER) (f PenDefs.ITALIC) (f PenDefs.REVERSE)
        (f PenDefs.STRIKE) (f PenDefs.ALTFONT) (f PenDefs.BLINK) (f PenDefs.SIZEPOS).

(* tickit_pen_get_*_attr: value or the type's default when the attribute is absent *)
Definition preads (p : pen) (a : pattr) : pvalue :=
  match pget p a with Some v => v | None => PenSpec.default_of a end.

(* tickit_pen_equiv *)
Definition pen_equiv (a b : pen) : bool :=
  forallb (fun at_ => PenSpec.value_eqb (preads a at_) (preads b at_)) PenDefs.all_attrs.

(* tickit_pen_copy(dst, src, overwrite) *)
Definition pen_copy (dst src : pen) (overwrite : bool) : pen :=
  pen_build (fun a => PenProofs.copy_entry (pget dst a) (pget src a) overwrite).

Definition ovalue_eqb (a b : option pvalue) : bool :=
  match a, b with Some x, Some y => PenSpec.value_eqb x y | None, None => true | _, _ => false end.
Definition pen_eqb (a b : pen) : bool :=
  forallb (fun at_ => ovalue_eqb (pget a at_) (pget b at_)) PenDefs.all_attrs.

(* a pen with only a foreground index colour *)
Definition pen_fg (i : Z) : pen :=
  mkPen (Some (PenSpec.VCol i None)) None None None None None None None None None.

(* ---------------------------------------------------------------------------------- *)
(* text: code points and their column width.  The width is the library's own
   tickit_utf8_wcwidth as modelled and specified by property C07 (Utf8Spec.spec_width:
   membership in the width tables re-translated from src/unicode.h and src/fullwidth.inc on
   every run; C07_wcwidth_is_membership proves it equal to the model of the C function).  A
   string is invalid -- tickit_utf8_ncount returns -1 -- when it contains a C0/C1 control or
   DEL (Utf8Spec.bad_cp).  Texts are lists of code points 1..0x1FFFFF, i.e. what UTF-8 of one
   to four bytes encodes; RBUtf8Bridge.v proves that counting over such a list is C07's
   tickit_utf8_ncountmore on its encoding. *)

Definition cpw (c : Z) : Z :=
  if (c <=? 0) || (0x200000 <=? c) || Utf8Spec.bad_cp c then -1 else Utf8Spec.spec_width c.

(* TickitStringPos restricted to what renderbuffer.c uses: code points consumed (stands for
   .bytes/.codepoints), graphemes, columns *)
Record spos := mkPos { sp_cp : Z; sp_gr : Z; sp_col : Z }.
Definition spos0 : spos := mkPos 0 0 0.

(* tickit_utf8_ncountmore on a valid string, with a grapheme limit and a column limit
   (-1 = no limit), started with [rest] = the string from position [here] on.
   [pos] is the last committed position. *)
Fixpoint countmore (rest : list Z) (pos here : spos) (lim_gr lim_col : Z) : spos :=
  match rest with
  | [] => here                                                  (* commit on the final grapheme *)
  | c :: rest' =>
      let w := cpw c in
      let isg := if 0 <? w then 1 else 0 in
      let pos' := if 0 <? w then here else pos in               (* commit on the previous grapheme *)
      if negb (lim_gr =? -1) && (sp_gr here + isg >? lim_gr) then pos'
      else if negb (lim_col =? -1) && (sp_col here + w >? lim_col) then pos'
      else countmore rest' pos' (mkPos (sp_cp here + 1) (sp_gr here + isg) (sp_col here + w)) lim_gr lim_col
  end.

Definition skipz {A} (n : Z) (l : list A) : list A := skipn (Z.to_nat n) l.
Definition firstz {A} (n : Z) (l : list A) : list A := firstn (Z.to_nat n) l.

(* tickit_utf8_count(text, &pos, &limit) *)
Definition count_from0 (s : list Z) (lim_gr lim_col : Z) : spos := countmore s spos0 spos0 lim_gr lim_col.
(* tickit_utf8_countmore(text, &pos, &limit) with pos at a committed position *)
Definition count_on (s : list Z) (pos : spos) (lim_gr lim_col : Z) : spos :=
  countmore (skipz (sp_cp pos) s) pos pos lim_gr lim_col.

(* validity as tickit_utf8_ncount sees it: no control / unknown code point *)
Definition text_valid (s : list Z) : bool := forallb (fun c => 0 <=? cpw c) s.
(* endpos.columns of tickit_utf8_ncount(str, len, &endpos, NULL) *)
Definition text_width (s : list Z) : Z := fold_left (fun a c => a + cpw c) s 0.

(* the slice of [s] that flush / copyrect / get_span_text select for columns
   [offs, offs+cols) *)
Definition slice_start (s : list Z) (offs : Z) : spos := count_from0 s (-1) offs.
Definition slice_end (s : list Z) (start : spos) (lim_col : Z) : spos := count_on s start (-1) lim_col.
Definition slice (s : list Z) (a b : spos) : list Z := firstz (sp_cp b - sp_cp a) (skipz (sp_cp a) s).

(* ---------------------------------------------------------------------------------- *)
(* cells and rows *)

Inductive content :=
| CSkip
| CText (p : pen) (s : list Z) (offs : Z)
| CErase (p : pen)
| CLine (p : pen) (mask : Z)
| CChar (p : pen) (cp : Z).

Inductive cellk := Start (c : content) (n : Z) | Cont (startcol : Z).
Record rbcell := mkCell { ck : cellk; cmask : Z }.

Definition row := list rbcell.
Definition dcell : rbcell := mkCell (Cont 0) (-1).
Definition len (r : row) : Z := Z.of_nat (length r).
Definition get (r : row) (i : Z) : rbcell := nth (Z.to_nat i) r dcell.
Definition inb (r : row) (i : Z) : bool := (0 <=? i) && (i <? len r).
(* a checked array read *)
Definition getr (r : row) (i : Z) : res rbcell := if inb r i then Ok (get r i) else Fault.

Fixpoint mapi_from {A B} (i : Z) (f : Z -> A -> B) (r : list A) : list B :=
  match r with [] => [] | c :: t => f i c :: mapi_from (i + 1) f t end.
Definition mapi {A B} (f : Z -> A -> B) (r : list A) : list B := mapi_from 0 f r.

Definition upd (r : row) (k : Z) (c : rbcell) : row := mapi (fun i old => if i =? k then c else old) r.

(* what make_span's first half stores in the cell at `end`: the remainder of a SKIP / TEXT /
   ERASE span from relative column [k] on; LINE / CHAR: abort() *)
Definition split_content (c : content) (k : Z) : option content :=
  match c with
  | CSkip => Some CSkip
  | CText p s offs => Some (CText p s (offs + k))
  | CErase p => Some (CErase p)
  | CLine _ _ | CChar _ _ => None
  end.

(* writing the anonymous union { startcol; cols } of a cell *)
Definition set_cols (c : rbcell) (v : Z) : rbcell :=
  match ck c with
  | Start x _ => mkCell (Start x v) (cmask c)
  | Cont _ => mkCell (Cont v) (cmask c)
  end.

(* make_span(rb, line, col, cols) followed by the caller's assignments of state / pen /
   payload, which make the cell at [col] a start with content [X] *)
Definition make_span (r : row) (col n : Z) (X : content) : res row :=
  let e := col + n in
  (* If the following cell is a CONT, it needs to become a new start *)
  do r1 <- (if e <? len r then
              do ec <- getr r e;
              match ck ec with
              | Cont spanstart =>
                  do sc <- getr r spanstart;
                  match ck sc with
                  | Start c spanlen =>
                      let spanend := spanstart + spanlen in
                      match split_content c (e - spanstart) with
                      | Some c' =>
                          if spanend <=? len r then
                            Ok (mapi (fun i cell =>
                                        if i =? e then mkCell (Start c' (spanend - e)) (cmask cell)
                                        else if (e <? i) && (i <? spanend) then set_cols cell e
                                        else cell) r)
                          else Fault
                      | None => Fault        (* abort() *)
                      end
                  | Cont _ => Fault          (* abort() *)
                  end
              | Start _ _ => Ok r
              end
            else Ok r);
  (* If the initial cell is a CONT, shorten its start *)
  do cc <- getr r1 col;
  do r2 <- (match ck cc with
            | Cont beforestart =>
                do sc <- getr r1 beforestart;
                match ck sc with
                | Start c _ =>
                    match split_content c 0 with
                    | Some _ => Ok (upd r1 beforestart (mkCell (Start c (col - beforestart)) (cmask sc)))
                    | None => Fault          (* abort() *)
                    end
                | Cont _ => Fault            (* abort() *)
                end
            | Start _ _ => Ok r1
            end);
  (* cont_cell() over [col, end), then cells[col].cols = cols (and the caller's content) *)
  if e <=? len r then
    Ok (mapi (fun i cell =>
                if i =? col then mkCell (Start X n) (-1)
                else if (col <? i) && (i <? e) then mkCell (Cont col) (-1)
                else cell) r2)
  else Fault.

(* while(cols && linecells[col].maskdepth > -1) { col++; cols--; [startcol++;] } *)
Fixpoint skip_masked (k : nat) (r : row) (col cols : Z) : Z * Z :=
  match k with
  | O => (col, cols)
  | S k' =>
      if cols =? 0 then (col, cols)
      else if -1 <? cmask (get r col) then skip_masked k' r (col + 1) (cols - 1)
      else (col, cols)
  end.

(* while(cols && linecells[col + spanlen].maskdepth == -1) { spanlen++; cols--; } *)
Fixpoint span_len (k : nat) (r : row) (col cols spanlen : Z) : Z * Z :=
  match k with
  | O => (spanlen, cols)
  | S k' =>
      if cols =? 0 then (spanlen, cols)
      else if cmask (get r (col + spanlen)) =? -1 then span_len k' r col (cols - 1) (spanlen + 1)
      else (spanlen, cols)
  end.

(* the `while(cols)` loop shared by put_string, skip and erase.  [mk startcol] is the
   content the caller stores in the new span. *)
Fixpoint put_runs (fuel : nat) (mk : Z -> content) (r : row) (col cols startcol : Z) : res row :=
  match fuel with
  | O => if cols =? 0 then Ok r else NoFuel
  | S f =>
      if cols =? 0 then Ok r else
      let '(col1, cols1) := skip_masked (Z.to_nat cols) r col cols in
      let startcol1 := startcol + (col1 - col) in
      if cols1 =? 0 then Ok r else
      let '(spanlen, cols2) := span_len (Z.to_nat cols1) r col1 cols1 0 in
      if spanlen =? 0 then Ok r else
      do r' <- make_span r col1 spanlen (mk startcol1);
      put_runs f mk r' (col1 + spanlen) cols2 (startcol1 + spanlen)
  end.

(* all reads of the loop are at indices in [col, col+cols): one bounds check up front *)
Definition put_row (mk : Z -> content) (r : row) (col cols startcol : Z) : res row :=
  if (0 <=? col) && (col + cols <=? len r) then put_runs (S (Z.to_nat cols)) mk r col cols startcol
  else Fault.

(* ---------------------------------------------------------------------------------- *)
(* the buffer *)

Record frame := mkFrame {
  f_vc_set : bool;      (* present only in the repaired code (fixes/C03-save-vc-pos-set.patch) *)
  f_vc_line : Z; f_vc_col : Z; f_xl : Z; f_xc : Z; f_clip : rect; f_pen : pen; f_pen_only : bool }.

(* everything of struct TickitRenderBuffer except the size and the cells *)
Record auxst := mkAux {
  vc_set : bool; vc_line : Z; vc_col : Z;
  xl : Z; xc : Z;
  clip : rect;
  cur_pen : pen;
  depth : Z;
  stack : list frame }.

Record rb := mkRB { rb_lines : Z; rb_cols : Z; cells : list row; aux : auxst }.

Definition ax_set_vc (a : auxst) (b : bool) (l c : Z) : auxst :=
  mkAux b l c (xl a) (xc a) (clip a) (cur_pen a) (depth a) (stack a).
Definition ax_set_xlate (a : auxst) (l c : Z) : auxst :=
  mkAux (vc_set a) (vc_line a) (vc_col a) l c (clip a) (cur_pen a) (depth a) (stack a).
Definition ax_set_clip (a : auxst) (r : rect) : auxst :=
  mkAux (vc_set a) (vc_line a) (vc_col a) (xl a) (xc a) r (cur_pen a) (depth a) (stack a).
Definition ax_set_pen (a : auxst) (p : pen) : auxst :=
  mkAux (vc_set a) (vc_line a) (vc_col a) (xl a) (xc a) (clip a) p (depth a) (stack a).
Definition ax_set_stack (a : auxst) (d : Z) (st : list frame) : auxst :=
  mkAux (vc_set a) (vc_line a) (vc_col a) (xl a) (xc a) (clip a) (cur_pen a) d st.

Definition set_cells (s : rb) (c : list row) : rb := mkRB (rb_lines s) (rb_cols s) c (aux s).
Definition set_aux (s : rb) (a : auxst) : rb := mkRB (rb_lines s) (rb_cols s) (cells s) a.
Definition set_vc_col (s : rb) (c : Z) : rb :=
  set_aux s (ax_set_vc (aux s) (vc_set (aux s)) (vc_line (aux s)) c).

Definition aux_new (lines cols : Z) : auxst :=
  mkAux false 0 0 0 0 (mkRect 0 0 lines cols) pen_empty 0 [].

(* one line of tickit_renderbuffer_new / _reset *)
Definition blank_row (cols : Z) : row :=
  match Z.to_nat cols with
  | O => []
  | S k => mkCell (Start CSkip cols) (-1) :: repeat (mkCell (Cont 0) (-1)) k
  end.

(* tickit_renderbuffer_new *)
Definition rb_new (lines cols : Z) : rb :=
  mkRB lines cols (repeat (blank_row cols) (Z.to_nat lines)) (aux_new lines cols).

(* rb->cells[line] with f applied; Fault if [line] is outside the array *)
Definition on_row (s : rb) (line : Z) (f : row -> res row) : res rb :=
  if (0 <=? line) && (line <? Z.of_nat (length (cells s))) then
    do r' <- f (nth (Z.to_nat line) (cells s) []);
    Ok (set_cells s (mapi (fun i old => if i =? line then r' else old) (cells s)))
  else Fault.

(* xlate_and_clip: Some (line, col, cols, startcol) or None for `return 0` *)
Definition xlate_and_clip (a : auxst) (line col cols : Z) : option (Z * Z * Z * Z) :=
  let line := line + xl a in
  let col := col + xc a in
  let c := clip a in
  if lines c =? 0 then None else
  if (line <? top c) || (line >=? bottom c) || (col >=? right c) then None else
  let '(col, cols, startcol) :=
    if col <? left c then (left c, cols - (left c - col), left c - col) else (col, cols, 0) in
  if cols <=? 0 then None else
  let cols := if cols >? right c - col then right c - col else cols in
  Some (line, col, cols, startcol).

(* put_substr (introduced by fixes/C13-copyrect-spans.patch; put_string is its special case
   offs = 0): columns [offs, offs+cols) of string [t] at (line, col) *)
Definition put_substr (s : rb) (line col : Z) (t : list Z) (offs cols : Z) : res rb :=
  match xlate_and_clip (aux s) line col cols with
  | None => Ok s
  | Some (l, c, n, sc) =>
      on_row s l (fun r => put_row (fun k => CText (cur_pen (aux s)) t k) r c n (sc + offs))
  end.

(* put_string: (new state, return value) *)
Definition put_string (s : rb) (line col : Z) (t : list Z) : res (rb * Z) :=
  if negb (text_valid t) then Ok (s, -1) else
  let w := text_width t in
  do s' <- put_substr s line col t 0 w;
  Ok (s', w).

(* put_char (repaired code, fixes/C04-char-width.patch): a character that is not exactly one
   column wide goes the way of a one-character text; returns the columns it occupies, or -1 *)
Definition put_char (s : rb) (line col cp : Z) : res (rb * Z) :=
  if negb (text_valid [cp]) then Ok (s, -1) else
  if negb (cpw cp =? 1) then put_string s line col [cp] else
  match xlate_and_clip (aux s) line col 1 with
  | None => Ok (s, 1)
  | Some (l, c, n, _) =>
      do s' <- on_row s l (fun r =>
        do cell <- getr r c;
        if -1 <? cmask cell then Ok r
        else make_span r c n (CChar (cur_pen (aux s)) cp));
      Ok (s', 1)
  end.

(* skip *)
Definition skip (s : rb) (line col cols : Z) : res rb :=
  match xlate_and_clip (aux s) line col cols with
  | None => Ok s
  | Some (l, c, n, _) => on_row s l (fun r => put_row (fun _ => CSkip) r c n 0)
  end.

(* erase *)
Definition erase (s : rb) (line col cols : Z) : res rb :=
  match xlate_and_clip (aux s) line col cols with
  | None => Ok s
  | Some (l, c, n, _) => on_row s l (fun r => put_row (fun _ => CErase (cur_pen (aux s))) r c n 0)
  end.

(* linecell *)
Definition linecell (s : rb) (line col bits : Z) : res rb :=
  match xlate_and_clip (aux s) line col 1 with
  | None => Ok s
  | Some (l, c, n, _) =>
      on_row s l (fun r =>
        do cell <- getr r c;
        if -1 <? cmask cell then Ok r
        else match ck cell with
             | Start (CLine p m) k =>
                 let p' := if negb (pen_equiv p (cur_pen (aux s))) then cur_pen (aux s) else p in
                 Ok (upd r c (mkCell (Start (CLine p' (Z.lor m bits)) k) (cmask cell)))
             | _ => make_span r c n (CLine (cur_pen (aux s)) (Z.lor 0 bits))
             end)
  end.

(* for(i = 0; i < n; i++) f(from + i) *)
Fixpoint iter_res {S} (n : nat) (from : Z) (f : S -> Z -> res S) (s : S) : res S :=
  match n with
  | O => Ok s
  | S k => do s' <- f s from; iter_res k (from + 1) f s'
  end.

Definition NORTH_SHIFT : Z := 0.
Definition EAST_SHIFT : Z := 2.
Definition SOUTH_SHIFT : Z := 4.
Definition WEST_SHIFT : Z := 6.
Definition CAP_START : Z := 1.
Definition CAP_END : Z := 2.
Definition has_cap (caps c : Z) : bool := negb (Z.land caps c =? 0).

(* the three groups of linecell calls of tickit_renderbuffer_hline_at, as (col, bits) *)
Definition hline_bits (startcol endcol style caps : Z) : list (Z * Z) :=
  let east := Z.shiftl style EAST_SHIFT in
  let west := Z.shiftl style WEST_SHIFT in
  (startcol, Z.lor east (if has_cap caps CAP_START then west else 0)) ::
  map (fun k => (startcol + 1 + Z.of_nat k, Z.lor east west)) (seq 0 (Z.to_nat (endcol - 1 - startcol))) ++
  [(endcol, Z.lor (if has_cap caps CAP_END then east else 0) west)].

Definition vline_bits (startline endline style caps : Z) : list (Z * Z) :=
  let north := Z.shiftl style NORTH_SHIFT in
  let south := Z.shiftl style SOUTH_SHIFT in
  (startline, Z.lor south (if has_cap caps CAP_START then north else 0)) ::
  map (fun k => (startline + 1 + Z.of_nat k, Z.lor south north)) (seq 0 (Z.to_nat (endline - 1 - startline))) ++
  [(endline, Z.lor (if has_cap caps CAP_END then south else 0) north)].

Fixpoint fold_res {S X} (f : S -> X -> res S) (l : list X) (s : S) : res S :=
  match l with
  | [] => Ok s
  | x :: t => do s' <- f s x; fold_res f t s'
  end.

(* tickit_renderbuffer_hline_at *)
Definition hline_at (s : rb) (line startcol endcol style caps : Z) : res rb :=
  fold_res (fun st cb => linecell st line (fst cb) (snd cb)) (hline_bits startcol endcol style caps) s.

(* tickit_renderbuffer_vline_at *)
Definition vline_at (s : rb) (startline endline col style caps : Z) : res rb :=
  fold_res (fun st lb => linecell st (fst lb) col (snd lb)) (vline_bits startline endline style caps) s.

(* tickit_renderbuffer_skiprect / _eraserect: for(line = top; line < bottom; line++) *)
Definition skiprect (s : rb) (r : rect) : res rb :=
  iter_res (Z.to_nat (lines r)) (top r) (fun st l => skip st l (left r) (cols r)) s.
Definition eraserect (s : rb) (r : rect) : res rb :=
  iter_res (Z.to_nat (lines r)) (top r) (fun st l => erase st l (left r) (cols r)) s.
(* tickit_renderbuffer_clear *)
Definition clear (s : rb) : res rb :=
  iter_res (Z.to_nat (rb_lines s)) 0 (fun st l => erase st l 0 (rb_cols st)) s.

(* tickit_renderbuffer_translate *)
Definition ax_translate (a : auxst) (down rightw : Z) : auxst := ax_set_xlate a (xl a + down) (xc a + rightw).

(* tickit_renderbuffer_clip *)
Definition ax_clip (a : auxst) (r : rect) : auxst :=
  let other := mkRect (top r + xl a) (left r + xc a) (lines r) (cols r) in
  match r_intersect (clip a) other with
  | Some c => ax_set_clip a c
  | None => ax_set_clip a (mkRect (top (clip a)) (left (clip a)) 0 (cols (clip a)))
  end.

(* the hole of tickit_renderbuffer_mask after translation and the two `< 0` adjustments *)
Definition mask_hole (a : auxst) (m : rect) : rect :=
  let t0 := top m + xl a in
  let l0 := left m + xc a in
  let '(t, h) := if t0 <? 0 then (0, lines m + t0) else (t0, lines m) in
  let '(l, w) := if l0 <? 0 then (0, cols m + l0) else (l0, cols m) in
  mkRect t l h w.

(* tickit_renderbuffer_mask: the two loops stop at rb->lines / rb->cols, so every index is
   inside the arrays *)
Definition mask_op (s : rb) (m : rect) : rb :=
  let hole := mask_hole (aux s) m in
  set_cells s
    (mapi (fun y r =>
       mapi (fun x cell =>
           if cell_inb hole (y, x) && (cmask cell =? -1)
           then mkCell (ck cell) (depth (aux s)) else cell) r) (cells s)).

(* tickit_renderbuffer_setpen *)
Definition ax_setpen (a : auxst) (p : option pen) : auxst :=
  let np := match p with Some q => pen_copy pen_empty q true | None => pen_empty end in
  let np := match stack a with f :: _ => pen_copy np (f_pen f) false | [] => np end in
  ax_set_pen a np.

(* tickit_renderbuffer_save *)
Definition ax_save (a : auxst) : auxst :=
  ax_set_stack a (depth a + 1)
    (mkFrame (vc_set a) (vc_line a) (vc_col a) (xl a) (xc a) (clip a) (cur_pen a) false :: stack a).

(* tickit_renderbuffer_savepen; the other fields of the frame stay uninitialised and are
   never read *)
Definition ax_savepen (a : auxst) : auxst :=
  ax_set_stack a (depth a + 1)
    (mkFrame false 0 0 0 0 (mkRect 0 0 0 0) (cur_pen a) true :: stack a).

(* the auxiliary part of tickit_renderbuffer_restore (stack known to be non-empty) *)
Definition ax_restore (a : auxst) : auxst :=
  match stack a with
  | [] => a
  | f :: rest =>
      let a1 := if f_pen_only f then a
                else ax_set_clip (ax_set_xlate (ax_set_vc a (f_vc_set f) (f_vc_line f) (f_vc_col f)) (f_xl f) (f_xc f)) (f_clip f) in
      ax_set_stack (ax_set_pen a1 (f_pen f)) (depth a - 1) rest
  end.

(* tickit_renderbuffer_restore *)
Definition restore (s : rb) : rb :=
  match stack (aux s) with
  | [] => s
  | _ :: _ =>
      let a := ax_restore (aux s) in
      mkRB (rb_lines s) (rb_cols s)
        (map (map (fun cell => if cmask cell >? depth a then mkCell (ck cell) (-1) else cell)) (cells s)) a
  end.

(* the auxiliary part of tickit_renderbuffer_reset; vc_line / vc_col keep their stale values *)
Definition ax_reset (a : auxst) (lines cols : Z) : auxst :=
  mkAux false (vc_line a) (vc_col a) 0 0 (mkRect 0 0 lines cols) pen_empty 0 [].

(* tickit_renderbuffer_reset *)
Definition reset (s : rb) : rb :=
  mkRB (rb_lines s) (rb_cols s) (repeat (blank_row (rb_cols s)) (Z.to_nat (rb_lines s)))
       (ax_reset (aux s) (rb_lines s) (rb_cols s)).

(* ---------------------------------------------------------------------------------- *)
(* operations as data; the interpreter returns the new state and the values the calls
   return (text ops only) *)

Inductive rbop :=
| OTranslate (dl dc : Z) | OClip (r : rect) | OMask (r : rect) | OSetPen (p : option pen)
| OGoto (l c : Z) | OUngoto | OSave | OSavePen | ORestore | OReset
| OSkipAt (l c n : Z) | OSkip (n : Z) | OSkipTo (c : Z) | OSkipRect (r : rect)
| OTextAt (l c : Z) (t : list Z) | OText (t : list Z)
| OEraseAt (l c n : Z) | OErase (n : Z) | OEraseTo (c : Z) | OEraseRect (r : rect) | OClear
| OCharAt (l c cp : Z) | OChar (cp : Z)
| OHLine (l c1 c2 style caps : Z) | OVLine (l1 l2 c style caps : Z).

Definition upd_aux (s : rb) (f : auxst -> auxst) : rb := set_aux s (f (aux s)).

Definition step (s : rb) (o : rbop) : res (rb * list Z) :=
  let a := aux s in
  match o with
  | OTranslate dl dc => Ok (set_aux s (ax_translate a dl dc), [])
  | OClip r => Ok (set_aux s (ax_clip a r), [])
  | OMask r => Ok (mask_op s r, [])
  | OSetPen p => Ok (set_aux s (ax_setpen a p), [])
  | OGoto l c => Ok (set_aux s (ax_set_vc a true l c), [])
  | OUngoto => Ok (set_aux s (ax_set_vc a false (vc_line a) (vc_col a)), [])
  | OSave => Ok (set_aux s (ax_save a), [])
  | OSavePen => Ok (set_aux s (ax_savepen a), [])
  | ORestore => Ok (restore s, [])
  | OReset => Ok (reset s, [])
  | OSkipAt l c n => do s' <- skip s l c n; Ok (s', [])
  | OSkip n =>
      if negb (vc_set a) then Ok (s, []) else
      do s' <- skip s (vc_line a) (vc_col a) n; Ok (set_vc_col s' (vc_col a + n), [])
  | OSkipTo c =>
      if negb (vc_set a) then Ok (s, []) else
      do s' <- (if vc_col a <? c then skip s (vc_line a) (vc_col a) (c - vc_col a) else Ok s);
      Ok (set_vc_col s' c, [])
  | OSkipRect r => do s' <- skiprect s r; Ok (s', [])
  | OTextAt l c t => do2 (s', v) <- put_string s l c t; Ok (s', [v])
  | OText t =>
      if negb (vc_set a) then Ok (s, [-1]) else
      do2 (s', v) <- put_string s (vc_line a) (vc_col a) t;
      (* repaired code (fixes/C03-text-invalid-cursor.patch): the cursor moves only when the
         text was accepted *)
      Ok ((if v <? 0 then s' else set_vc_col s' (vc_col a + v)), [v])
  | OEraseAt l c n => do s' <- erase s l c n; Ok (s', [])
  | OErase n =>
      if negb (vc_set a) then Ok (s, []) else
      do s' <- erase s (vc_line a) (vc_col a) n; Ok (set_vc_col s' (vc_col a + n), [])
  | OEraseTo c =>
      if negb (vc_set a) then Ok (s, []) else
      do s' <- (if vc_col a <? c then erase s (vc_line a) (vc_col a) (c - vc_col a) else Ok s);
      Ok (set_vc_col s' c, [])
  | OEraseRect r => do s' <- eraserect s r; Ok (s', [])
  | OClear => do s' <- clear s; Ok (s', [])
  | OCharAt l c cp => do2 (s', _) <- put_char s l c cp; Ok (s', [])
  | OChar cp =>
      if negb (vc_set a) then Ok (s, []) else
      do2 (s', v) <- put_char s (vc_line a) (vc_col a) cp;
      Ok ((if v >? 0 then set_vc_col s' (vc_col a + v) else s'), [])
  | OHLine l c1 c2 st caps => do s' <- hline_at s l c1 c2 st caps; Ok (s', [])
  | OVLine l1 l2 c st caps => do s' <- vline_at s l1 l2 c st caps; Ok (s', [])
  end.

Fixpoint run (s : rb) (ops : list rbop) : res (rb * list Z) :=
  match ops with
  | [] => Ok (s, [])
  | o :: rest =>
      do2 (s1, v1) <- step s o;
      do2 (s2, v2) <- run s1 rest;
      Ok (s2, v1 ++ v2)
  end.
