From Coq Require Extraction.
From Coq Require Import ExtrOcamlBasic.
From Tickit Require Import RectDefs RBDefs RBSpec Gen_Linechars RBGlyphs RBFlushDefs RBFlushSpec.
From Tickit Require PenDefs.
Extraction "mC04.ml" rb_new pget pen_build pen_empty PenDefs.attr_type step a_new astep dump_checkb api_of abs_rb wf_rbb ast_eqb aux_eqb
  grapheme_at cpw text_valid text_width
  flush t_init t_run flush_checkb payload_checkb xterm_payload a_reset linemask_to_char table_okb canon_pen.
