(* BindSpec.v -- what property C16 demands, as a reference monitor over traces.

   The monitor knows nothing of tombstones, iteration flags or sweeps.  It replays the
   calls the application made (bind / unbind / emit / destroy brackets, with the ids that
   bind returned) on the simplest possible object -- a plain list of the *live* bindings,
   from which a binding is removed at the moment it is unbound, consumed as a one-shot or
   notified of destruction -- and decides for every handler invocation in the trace
   whether the property allows it, and at the end of every bracket whether an invocation
   the property demands is missing.  The verdict names the clause that is broken:

   ENotLive    a handler was fired that is not live at that moment (never bound, already
               unbound, a one-shot already consumed, destroyed) or is bound to another
               event                                     -- "never after unbind", "a
               one-shot handler runs at most once"
   EOrder      within one occurrence a binding fired twice or out of list order (list
               order: bound FIRST ahead of everything bound before, others in binding
               order), or after a run_event_whilefalse occurrence had been claimed
   ENotServed  a binding live for the event at the start of an occurrence and still live
               at its end was not fired in it (unless the occurrence was claimed)
   EUnbind     an unbind did not produce exactly one UNBIND invocation for a binding that
               asked for it (or produced one for somebody else / with other flags); a
               one-shot was not fired with FIRE|UNBIND
   EDestroy    destruction invoked a binding that is not live or did not ask, or with
               other flags than UNBIND|DESTROY, or while a binding later in the list that
               asked was still waiting (order), or left out one that asked
   EIds        bind returned an id that is not positive or is the id of a live binding
   EProtocol   the trace is not a well-bracketed record of calls (a fault of whoever
               produced the trace, not of the library)

   Reading of "newest first" (statement: "destroying the object notifies the remaining
   handlers that asked, newest first, exactly once"): man/tickit.7 says the handlers "will
   be invoked in reverse order; the newest is run first and the oldest last", and the C
   reverses the list.  Adopted: REVERSE LIST ORDER, i.e. the reverse of the order in which
   an event would fire them; a binding made with TICKIT_BIND_FIRST sits at the head of
   the list and is therefore notified last.  Destruction is read as a walk over the list
   from its newest end: when a binding is told, everything behind it in the list has
   already ceased to exist (those that did not ask, silently) -- which is also what decides
   whether an event emitted by a destroy handler may still fire such a binding: it may
   not.  A binding made by a handler during the destruction is part of the list like any
   other (appended: it is the next to go; bound FIRST: the last).

   What the monitor deliberately does NOT demand (the statement is silent): whether a
   binding made during an occurrence of its own event is fired in that occurrence (in the
   C: yes if appended, no if bound FIRST); return values of run_event_whilefalse; which
   ids bind hands out beyond "positive and not in use".                                *)
From Coq Require Import ZArith List Bool.
From Tickit Require Import BindDefs.
Import ListNotations.
Local Open Scope Z_scope.

Record abind := mkA { a_name : Z; a_ev : Z; a_flags : Z; a_id : Z }.

Inductive frame :=
| FEmit (wf : bool) (ev : Z) (last : option Z) (pending : list Z) (claimed : bool)
| FCall
| FUnbind (pend : option Z)
| FDestroy.

Record mstate := mkM { m_live : list abind; m_n : Z; m_stack : list frame }.
Definition init_mstate : mstate := mkM [] 1 [].

Inductive err := ENotLive | EOrder | ENotServed | EUnbind | EDestroy | EIds | EProtocol.

Definition find_live (name : Z) (l : list abind) : option abind :=
  find (fun a => a_name a =? name) l.
Definition remove_live (name : Z) (l : list abind) : list abind :=
  filter (fun a => negb (a_name a =? name)) l.
Definition remove_name (name : Z) (l : list Z) : list Z :=
  filter (fun n => negb (n =? name)) l.
Definition is_live (l : list abind) (name : Z) : bool :=
  existsb (fun a => a_name a =? name) l.
Definition memZ (x : Z) (l : list Z) : bool := existsb (fun y => y =? x) l.

Definition asked_destroy (a : abind) : bool :=
  (a_ev a =? 0) || has (a_flags a) BIND_UNBIND || has (a_flags a) BIND_DESTROY.

(* may the application issue a call here: at top level or from inside a handler *)
Definition app_context (st : list frame) : bool :=
  match st with [] => true | FCall :: _ => true | _ => false end.

Definition mon_step (m : mstate) (e : tev) : mstate + err :=
  let live := m_live m in
  let st := m_stack m in
  match e with
  | TBind name ev flags hid id =>
      if negb (app_context st) then inr EProtocol else
      if negb (name =? (if has flags BIND_FIRST then - m_n m else m_n m)) then inr EProtocol else
      if negb (0 <? id) || memZ id (map a_id live) then inr EIds else
      let nb := mkA name ev (Z.land flags (BIND_UNBIND + BIND_DESTROY + BIND_ONESHOT)) id in
      inl (mkM (if has flags BIND_FIRST then nb :: live else live ++ [nb]) (m_n m + 1) st)
  | TUnbindB id =>
      if negb (app_context st) then inr EProtocol else
      match find (fun a => a_id a =? id) live with
      | None => inl (mkM live (m_n m) (FUnbind None :: st))
      | Some a =>
          inl (mkM (remove_live (a_name a) live) (m_n m)
                   (FUnbind (if has (a_flags a) BIND_UNBIND then Some (a_name a) else None) :: st))
      end
  | TUnbindE =>
      match st with
      | FUnbind None :: st' => inl (mkM live (m_n m) st')
      | FUnbind (Some _) :: _ => inr EUnbind
      | _ => inr EProtocol
      end
  | TEmitB wf ev =>
      if negb (app_context st) then inr EProtocol else
      inl (mkM live (m_n m)
               (FEmit wf ev None (map a_name (filter (fun a => a_ev a =? ev) live)) false :: st))
  | TEmitE _ =>
      match st with
      | FEmit wf ev last pending claimed :: st' =>
          if claimed || negb (existsb (is_live live) pending)
          then inl (mkM live (m_n m) st') else inr ENotServed
      | _ => inr EProtocol
      end
  | TDestroyB =>
      match st with
      | [] => inl (mkM live (m_n m) [FDestroy])
      | _ => inr EProtocol
      end
  | TDestroyE =>
      match st with
      | FDestroy :: st' =>
          if existsb asked_destroy live then inr EDestroy else inl (mkM [] (m_n m) st')
      | _ => inr EProtocol
      end
  | TCallB name flags =>
      match st with
      | FEmit wf ev last pending claimed :: st' =>
          match find_live name live with
          | None => inr ENotLive
          | Some a =>
              if negb (a_ev a =? ev) then inr ENotLive else
              if claimed then inr EOrder else
              if match last with Some l => name <=? l | None => false end then inr EOrder else
              let oneshot := has (a_flags a) BIND_ONESHOT in
              if negb (flags =? (if oneshot then EV_FIRE + EV_UNBIND else EV_FIRE)) then inr EUnbind else
              inl (mkM (if oneshot then remove_live name live else live) (m_n m)
                       (FCall :: FEmit wf ev (Some name) (remove_name name pending) claimed :: st'))
          end
      | FUnbind (Some n) :: st' =>
          if (name =? n) && (flags =? EV_UNBIND)
          then inl (mkM live (m_n m) (FCall :: FUnbind None :: st'))
          else inr EUnbind
      | FUnbind None :: _ => inr EUnbind
      | FDestroy :: st' =>
          match find_live name live with
          | None => inr EDestroy
          | Some a =>
              if negb (asked_destroy a) then inr EDestroy else
              if negb (flags =? EV_UNBIND + EV_DESTROY) then inr EDestroy else
              if existsb (fun x => (name <? a_name x) && asked_destroy x) live then inr EDestroy else
              inl (mkM (filter (fun x => a_name x <? name) live) (m_n m) (FCall :: FDestroy :: st'))
          end
      | _ => inr EProtocol
      end
  | TCallE ret =>
      match st with
      | FCall :: FEmit true ev last pending claimed :: st' =>
          inl (mkM live (m_n m) (FEmit true ev last pending (claimed || negb (ret =? 0)) :: st'))
      | FCall :: st' => inl (mkM live (m_n m) st')
      | _ => inr EProtocol
      end
  end.

(* oldest event first *)
Fixpoint mon_run (m : mstate) (t : list tev) : mstate + err :=
  match t with
  | [] => inl m
  | e :: r => match mon_step m e with inl m1 => mon_run m1 r | inr x => inr x end
  end.

(* the verdict on a complete trace (oldest first): None = accepted *)
Definition verdict (t : list tev) : option err :=
  match mon_run init_mstate t with
  | inr x => Some x
  | inl m => match m_stack m with [] => None | _ => Some EProtocol end
  end.

(* state clauses, checked on the list as it is between top-level calls *)
(* C16_sweep: no tombstone, no pending sweep, no iteration in progress *)
Definition swept (s : bstate) : bool :=
  forallb (fun b => negb (b_id b =? TOMBSTONE_ID)) (first s) && negb (is_iter s) && negb (needs_del s).

Fixpoint nodupZ (l : list Z) : bool :=
  match l with [] => true | x :: r => negb (memZ x r) && nodupZ r end.

(* C16_ids_unique: ids of live bindings pairwise distinct and positive *)
Definition live_ids (s : bstate) : list Z :=
  map b_id (filter (fun b => negb (b_id b =? TOMBSTONE_ID)) (first s)).
Definition ids_ok (s : bstate) : bool :=
  forallb (fun i => 0 <? i) (live_ids s) && nodupZ (live_ids s).
