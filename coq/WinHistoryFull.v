(* WinHistoryFull.v -- property C01 over histories of the FULL alphabet of WinHist.v (window
   creation, close, show/hide, restack, geometry changes with their exposes, expose, the three
   scrolls for every scroll oracle of the terminal, terminal resize, focus and control
   setters, and the flush): the invariant MInv3 (screen invariant, unique window ids, C05
   invariant of the pending damage) holds initially, every step preserves it, and a flush
   turns it into "every screen cell shows the composition". *)
From Coq Require Import ZArith List Bool Lia ZifyBool.
From Tickit Require Import RectDefs RectProofs WinRectSet WinRectSetProofs WinDefs WinSpec WinHist
  WinExposeProofs WinLogDisjoint WinFlushProofs WinScreenInv WinLocA WinPreserve WinTermResize
  WinHistory WinScrollRegion WinScrollInv.
Import ListNotations.
Local Open Scope Z_scope.
Local Strategy 1000 [rsfuel].

(* the history meets the side conditions of each operation (op_side3: fresh ids for new
   windows, no show/hide/geometry of the root, geometry changes followed by the exposes of
   old and new area, terminal sizes positive, and for the scrolls: every visible window has a
   non-empty rectangle) and no rectangle-set loop runs out of fuel *)
Fixpoint run_ok3 (progs : Z -> list dop) (ops : list op) (m : mstate) : Prop :=
  match ops with
  | [] => True
  | o :: rest =>
    let m' := step no_defects progs o m in
    step_side3 (m_root m) o /\ r_fault (m_root m') = false /\ run_ok3 progs rest m'
  end.

Lemma flush_step3 progs m :
  (forall id, progs id = [DPaint]) -> MInv3 m ->
  r_fault (m_root (step no_defects progs OFlush m)) = false ->
  MInv3 (step no_defects progs OFlush m) /\ all_shown (step no_defects progs OFlush m).
Proof.
  intros Hp (Hs & Hu & Hi) Hf.
  destruct (flush_step progs m Hp (conj Hs Hu) Hf) as [[A B] C].
  split; [|exact C]. split; [exact A|]. split; [exact B|].
  destruct C as [C _]. rewrite C. apply inv_nil.
Qed.

Theorem history_preserves3 progs :
  (forall id, progs id = [DPaint]) ->
  forall ops m, MInv3 m -> run_ok3 progs ops m -> MInv3 (run no_defects progs ops m).
Proof.
  intros Hp. induction ops as [|o rest IH]; intros m Hm Hok; [exact Hm|].
  cbn [run fold_left]. fold (run no_defects progs rest (step no_defects progs o m)).
  destruct Hok as (Hside & Hf & Hrest). apply IH; [|exact Hrest].
  destruct o; try (apply step_preserves3; [exact Hm|exact Hside|exact Hf]).
  apply (flush_step3 progs m Hp Hm Hf).
Qed.

(* after a history that ends with a flush every screen cell shows the composition *)
Theorem history_flushed3 progs :
  (forall id, progs id = [DPaint]) ->
  forall ops m, MInv3 m -> run_ok3 progs (ops ++ [OFlush]) m ->
    all_shown (run no_defects progs (ops ++ [OFlush]) m).
Proof.
  intros Hp ops m Hm Hok.
  assert (Hsplit : forall ops m, run_ok3 progs (ops ++ [OFlush]) m ->
            run_ok3 progs ops m /\
            r_fault (m_root (step no_defects progs OFlush (run no_defects progs ops m))) = false).
  { induction ops0 as [|o rest IH]; intros m0 H.
    - cbn [app run_ok3] in H. cbn [run fold_left run_ok3]. tauto.
    - cbn [app run_ok3] in H. destruct H as (H1 & H2 & H3). destruct (IH _ H3) as [H4 H5].
      cbn [run_ok3]. split; [tauto|]. exact H5. }
  destruct (Hsplit ops m Hok) as [Hok' Hf].
  unfold run. rewrite fold_left_app. cbn [fold_left]. fold (run no_defects progs ops m).
  apply flush_step3; [exact Hp| |exact Hf]. apply history_preserves3; assumption.
Qed.

(* the state right after tickit_window_new_root *)
Theorem init_inv3_f fuel nl nc orc : 0 < nl -> 0 < nc -> r_fault (m_root (m_init_f fuel nl nc orc)) = false ->
  MInv3 (m_init_f fuel nl nc orc).
Proof.
  intros Hl Hc Hf. destruct (init_inv_f fuel nl nc orc Hl Hc Hf) as [A B].
  split; [exact A|]. split; [exact B|].
  unfold m_init_f; cbn [m_root]. apply dinv_expose; [apply inv_nil|].
  intros _ w Hw. assert (Hch : t_chain 0 (r_tree (root_new_f fuel nl nc)) = Some [r_tree (root_new_f fuel nl nc)]) by reflexivity.
  rewrite Hch in Hw. injection Hw as <-. unfold nonempty; cbn. lia.
Qed.

Theorem init_inv3 nl nc orc : 0 < nl -> 0 < nc -> r_fault (m_root (m_init nl nc orc)) = false ->
  MInv3 (m_init nl nc orc).
Proof. exact (init_inv3_f rsfuel nl nc orc). Qed.
