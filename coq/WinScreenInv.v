(* WinScreenInv.v -- the screen invariant of property C01 and what a flush makes of it.

   ScreenInv app st tm: every cell of the screen shows what the composition of the window
   tree puts there, OR lies in the pending damage; the flags that make the flush do its
   work are set whenever there is damage or a queued restack.  C01_flush: with handlers that
   repaint what they are asked, a flush (with no restack queued) ends with empty damage and
   every screen cell showing the composition. *)
From Coq Require Import ZArith List Bool Lia ZifyBool.
From Tickit Require Import RectDefs RectProofs WinRectSet WinRectSetProofs WinDefs WinSpec
  WinExposeProofs WinFlushProofs.
Import ListNotations.
Local Open Scope Z_scope.

(* what the composition shows at screen cell q *)
Definition shows (app : Z -> Z -> Z -> Z) (tree : wtree) (q : cell) : Z :=
  let '(w, pw) := owner_rel tree q in app w (fst pw) (snd pw).

Lemma compose_shows app tree q :
  w_vis (t_info tree) = true -> cell_inb (selfrect (t_info tree)) q = true ->
  compose app tree q = Some (shows app tree q).
Proof.
  intros Hv Hin. unfold compose, owner, shows. rewrite Hv, Hin. cbn [andb].
  destruct (owner_rel tree q) as [w pw]. reflexivity.
Qed.

Record ScreenInv (app : Z -> Z -> Z -> Z) (st : root) (tm : term) : Prop := mkSI {
  si_origin : top (w_rect (t_info (r_tree st))) = 0 /\ left (w_rect (t_info (r_tree st))) = 0;
  si_rootvis : w_vis (t_info (r_tree st)) = true;
  si_size : t_lines tm = lines (w_rect (t_info (r_tree st))) /\ t_cols tm = cols (w_rect (t_info (r_tree st)));
  si_nonempty : all_nonempty (r_damage st);
  si_cells : forall q, cell_inb (root_selfrect st) q = true ->
                       t_grid tm q = shows app (r_tree st) q \/ covered (r_damage st) q;
  si_flags : (r_damage st <> [] -> r_nexp st = true /\ r_later st = true) /\
             (r_queue st <> [] -> r_later st = true) }.

Lemma in_any_iff rs q : in_any rs q = true <-> covered rs q.
Proof.
  unfold in_any. rewrite <- coveredb_iff. unfold coveredb. reflexivity.
Qed.

Lemma flush_rects_covered st q :
  in_any (flush_rects no_defects st) q = true <->
  covered (r_damage st) q /\ cell_in (root_selfrect st) q.
Proof.
  rewrite in_any_iff. unfold flush_rects; cbn [d_flush_noclip no_defects].
  induction (r_damage st) as [|x rest IH]; cbn [flat_map].
  - rewrite !covered_nil. tauto.
  - rewrite covered_app, IH, covered_cons.
    destruct (r_intersect x (root_selfrect st)) as [k|] eqn:E.
    + apply intersect_some in E. destruct E as [_ E].
      rewrite covered_cons, covered_nil, E. tauto.
    + pose proof (intersect_none _ _ E q) as H. rewrite covered_nil. tauto.
Qed.

Theorem flush_establishes app progs st tm st' tm' lg :
  ScreenInv app st tm ->
  r_queue st = [] ->
  (forall id, progs id = [DPaint]) ->
  win_flush no_defects (prog_handler app progs) st tm = (st', tm', lg) ->
  r_damage st' = [] /\ r_tree st' = r_tree st /\
  (forall q, cell_inb (root_selfrect st') q = true -> t_grid tm' q = shows app (r_tree st') q) /\
  ScreenInv app st' tm'.
Proof.
  intros [Ho Hrv Hs Hne Hc [Hf1 Hf2]] Hq Hprogs Hfl.
  assert (Haq : after_queue st = set_flags st (r_nexp st) (r_nrest st) false).
  { unfold after_queue. cbn [r_queue set_flags]. rewrite Hq. cbn [fold_left].
    unfold set_queue, set_flags; cbn. rewrite Hq. reflexivity. }
  (* when nothing is flagged the damage is empty *)
  assert (Hnodmg : r_nexp st = false \/ r_later st = false -> r_damage st = []).
  { intros H. destruct (r_damage st) as [|x rest] eqn:E; [reflexivity|].
    destruct Hf1 as [H1 H2]; [discriminate|]. destruct H; congruence. }
  assert (Hall : r_damage st = [] -> forall q, cell_inb (root_selfrect st) q = true -> t_grid tm q = shows app (r_tree st) q).
  { intros E q Hin. destruct (Hc q Hin) as [H|H]; [exact H|]. rewrite E in H. apply covered_nil in H. tauto. }
  destruct (r_later st) eqn:Hl.
  2:{ unfold win_flush in Hfl. rewrite Hl in Hfl. cbn [negb] in Hfl. injection Hfl as <- <- <-.
      assert (E : r_damage st = []) by (apply Hnodmg; right; reflexivity).
      split; [exact E|]. split; [reflexivity|]. split; [apply Hall; exact E|].
      constructor; try assumption. rewrite Hl. split; assumption. }
  destruct (r_nexp st) eqn:Hn.
  - pose proof (flush_paints no_defects app progs st tm st' tm' lg Hprogs Hfl Hl) as Hp.
    rewrite Haq in Hp. cbn [r_nexp set_flags] in Hp. specialize (Hp eq_refl).
    rewrite (win_flush_unfold _ _ st tm Hl) in Hfl. cbn zeta in Hfl. rewrite Haq in Hfl.
    cbn [r_nexp set_flags] in Hfl. injection Hfl as <- <- <-.
    cbn [r_damage r_tree set_flags set_damage] in *.
    split; [reflexivity|]. split; [reflexivity|].
    assert (Hcells : forall q, cell_inb (root_selfrect st) q = true ->
              t_grid (do_restore (r_tree st) (term_flush_rb (term_set_cvis tm false)
                        (flush_buffer no_defects (prog_handler app progs) (set_flags st true (r_nrest st) false)))) q
              = shows app (r_tree st) q).
    { intros q Hin. rewrite (Hp q).
      change (root_selfrect (set_flags (set_flags (set_damage (set_flags st true (r_nrest st) false) []) false true false) false false false))
        with (root_selfrect st).
      rewrite Hin. cbn [andb].
      destruct (in_any (flush_rects no_defects (set_flags st true (r_nrest st) false)) q) eqn:Ea.
      - unfold shows. reflexivity.
      - destruct (Hc q Hin) as [H|H]; [exact H|]. exfalso.
        assert (Ht : in_any (flush_rects no_defects (set_flags st true (r_nrest st) false)) q = true).
        { apply flush_rects_covered. split; [exact H|apply cell_inb_iff; exact Hin]. }
        congruence. }
    split; [exact Hcells|].
    constructor; cbn [r_damage r_tree r_queue r_nexp r_later set_flags set_damage].
    + exact Ho.
    + exact Hrv.
    + match goal with |- t_lines (do_restore ?a ?b) = _ /\ _ => destruct (do_restore_size a b) as [E1 E2]; rewrite E1, E2 end. exact Hs.
    + constructor.
    + intros q Hin. left. apply Hcells. exact Hin.
    + split; [intros H; congruence|]. rewrite Hq. intros H; congruence.
  - assert (E : r_damage st = []) by (apply Hnodmg; left; reflexivity).
    rewrite (win_flush_unfold _ _ st tm Hl) in Hfl. cbn zeta in Hfl. rewrite Haq in Hfl.
    cbn [r_nexp r_nrest r_tree r_later set_flags] in Hfl.
    destruct (r_nrest st) eqn:Hr; injection Hfl as <- <- <-; cbn [r_damage r_tree set_flags].
    + split; [exact E|]. split; [reflexivity|]. split.
      * intros q Hin. rewrite do_restore_grid. apply Hall; assumption.
      * constructor; cbn [r_damage r_tree r_queue r_nexp r_later set_flags]; try assumption.
        -- match goal with |- t_lines (do_restore ?a ?b) = _ /\ _ => destruct (do_restore_size a b) as [E1 E2]; rewrite E1, E2 end. exact Hs.
        -- intros q Hin. rewrite do_restore_grid. apply Hc. exact Hin.
        -- rewrite E, Hq. split; intros H; congruence.
    + split; [exact E|]. split; [reflexivity|]. split; [apply Hall; exact E|].
      constructor; cbn [r_damage r_tree r_queue r_nexp r_later set_flags]; try assumption.
      rewrite E, Hq. split; intros H; congruence.
Qed.
