(* RBGlyphs.v -- specification side of the line-glyph table: which arms each character of the
   Unicode box-drawing block U+2500..U+257F has.  Hand-written from the Unicode character
   names (part of the trusted specification); dashed, arc and diagonal characters have no
   entry.  An arm is 0 (none), 1 (light / single), 2 (double), 3 (heavy / thick), and a set
   of arms is packed exactly like the render buffer's line mask:
       north | east << 2 | south << 4 | west << 6. *)
From Coq Require Import ZArith List Bool.
Import ListNotations.
Local Open Scope Z_scope.

Definition pack (n e s w : Z) : Z := n + 4 * e + 16 * s + 64 * w.

Definition arm_n (m : Z) : Z := m mod 4.
Definition arm_e (m : Z) : Z := (m / 4) mod 4.
Definition arm_s (m : Z) : Z := (m / 16) mod 4.
Definition arm_w (m : Z) : Z := (m / 64) mod 4.

(* (code point, north, east, south, west) *)
Definition boxchars : list (Z * Z) := [
  (0x2500, pack 0 1 0 1); (0x2501, pack 0 3 0 3); (0x2502, pack 1 0 1 0); (0x2503, pack 3 0 3 0);
  (0x250c, pack 0 1 1 0); (0x250d, pack 0 3 1 0); (0x250e, pack 0 1 3 0); (0x250f, pack 0 3 3 0);
  (0x2510, pack 0 0 1 1); (0x2511, pack 0 0 1 3); (0x2512, pack 0 0 3 1); (0x2513, pack 0 0 3 3);
  (0x2514, pack 1 1 0 0); (0x2515, pack 1 3 0 0); (0x2516, pack 3 1 0 0); (0x2517, pack 3 3 0 0);
  (0x2518, pack 1 0 0 1); (0x2519, pack 1 0 0 3); (0x251a, pack 3 0 0 1); (0x251b, pack 3 0 0 3);
  (0x251c, pack 1 1 1 0); (0x251d, pack 1 3 1 0); (0x251e, pack 3 1 1 0); (0x251f, pack 1 1 3 0);
  (0x2520, pack 3 1 3 0); (0x2521, pack 3 3 1 0); (0x2522, pack 1 3 3 0); (0x2523, pack 3 3 3 0);
  (0x2524, pack 1 0 1 1); (0x2525, pack 1 0 1 3); (0x2526, pack 3 0 1 1); (0x2527, pack 1 0 3 1);
  (0x2528, pack 3 0 3 1); (0x2529, pack 3 0 1 3); (0x252a, pack 1 0 3 3); (0x252b, pack 3 0 3 3);
  (0x252c, pack 0 1 1 1); (0x252d, pack 0 1 1 3); (0x252e, pack 0 3 1 1); (0x252f, pack 0 3 1 3);
  (0x2530, pack 0 1 3 1); (0x2531, pack 0 1 3 3); (0x2532, pack 0 3 3 1); (0x2533, pack 0 3 3 3);
  (0x2534, pack 1 1 0 1); (0x2535, pack 1 1 0 3); (0x2536, pack 1 3 0 1); (0x2537, pack 1 3 0 3);
  (0x2538, pack 3 1 0 1); (0x2539, pack 3 1 0 3); (0x253a, pack 3 3 0 1); (0x253b, pack 3 3 0 3);
  (0x253c, pack 1 1 1 1); (0x253d, pack 1 1 1 3); (0x253e, pack 1 3 1 1); (0x253f, pack 1 3 1 3);
  (0x2540, pack 3 1 1 1); (0x2541, pack 1 1 3 1); (0x2542, pack 3 1 3 1); (0x2543, pack 3 1 1 3);
  (0x2544, pack 3 3 1 1); (0x2545, pack 1 1 3 3); (0x2546, pack 1 3 3 1); (0x2547, pack 3 3 1 3);
  (0x2548, pack 1 3 3 3); (0x2549, pack 3 1 3 3); (0x254a, pack 3 3 3 1); (0x254b, pack 3 3 3 3);
  (0x2550, pack 0 2 0 2); (0x2551, pack 2 0 2 0);
  (0x2552, pack 0 2 1 0); (0x2553, pack 0 1 2 0); (0x2554, pack 0 2 2 0);
  (0x2555, pack 0 0 1 2); (0x2556, pack 0 0 2 1); (0x2557, pack 0 0 2 2);
  (0x2558, pack 1 2 0 0); (0x2559, pack 2 1 0 0); (0x255a, pack 2 2 0 0);
  (0x255b, pack 1 0 0 2); (0x255c, pack 2 0 0 1); (0x255d, pack 2 0 0 2);
  (0x255e, pack 1 2 1 0); (0x255f, pack 2 1 2 0); (0x2560, pack 2 2 2 0);
  (0x2561, pack 1 0 1 2); (0x2562, pack 2 0 2 1); (0x2563, pack 2 0 2 2);
  (0x2564, pack 0 2 1 2); (0x2565, pack 0 1 2 1); (0x2566, pack 0 2 2 2);
  (0x2567, pack 1 2 0 2); (0x2568, pack 2 1 0 1); (0x2569, pack 2 2 0 2);
  (0x256a, pack 1 2 1 2); (0x256b, pack 2 1 2 1); (0x256c, pack 2 2 2 2);
  (0x2574, pack 0 0 0 1); (0x2575, pack 1 0 0 0); (0x2576, pack 0 1 0 0); (0x2577, pack 0 0 1 0);
  (0x2578, pack 0 0 0 3); (0x2579, pack 3 0 0 0); (0x257a, pack 0 3 0 0); (0x257b, pack 0 0 3 0);
  (0x257c, pack 0 3 0 1); (0x257d, pack 1 0 3 0); (0x257e, pack 0 1 0 3); (0x257f, pack 3 0 1 0) ].

(* the arms (packed) of a box-drawing character, None if it is not one with straight arms *)
Definition arms_of_boxchar (cp : Z) : option Z :=
  match find (fun e => fst e =? cp) boxchars with Some e => Some (snd e) | None => None end.

(* is there a character having exactly these arms? *)
Definition exact_glyph (m : Z) : option Z :=
  match find (fun e => snd e =? m) boxchars with Some e => Some (fst e) | None => None end.

Definition nz (x : Z) : bool := negb (x =? 0).
(* same directions *)
Definition same_dirs (a b : Z) : bool :=
  Bool.eqb (nz (arm_n a)) (nz (arm_n b)) && Bool.eqb (nz (arm_e a)) (nz (arm_e b)) &&
  Bool.eqb (nz (arm_s a)) (nz (arm_s b)) && Bool.eqb (nz (arm_w a)) (nz (arm_w b)).

(* the demand on a table entry: the glyph is a box character whose arms point in exactly the
   directions of the mask, and every box character that has exactly the mask's arms and styles
   IS the table's glyph (so the styles are exact whenever Unicode has such a character) *)
Definition glyph_okb (table : list Z) (m : Z) : bool :=
  let g := nth (Z.to_nat m) table 0 in
  match arms_of_boxchar g with
  | None => false
  | Some a =>
      same_dirs a m &&
      forallb (fun e => negb (snd e =? m) || (g =? fst e)) boxchars
  end.

Definition table_okb (table : list Z) : bool :=
  (Z.of_nat (length table) =? 256) &&
  forallb (glyph_okb table) (map (fun k => 1 + Z.of_nat k) (seq 0 255)).

(* Prop form of the same demand *)
Definition glyph_ok (table : list Z) (m : Z) : Prop :=
  exists a, arms_of_boxchar (nth (Z.to_nat m) table 0) = Some a /\
    ((arm_n a = 0 <-> arm_n m = 0) /\ (arm_e a = 0 <-> arm_e m = 0) /\
     (arm_s a = 0 <-> arm_s m = 0) /\ (arm_w a = 0 <-> arm_w m = 0)) /\
    (forall g', arms_of_boxchar g' = Some m -> nth (Z.to_nat m) table 0 = g').
