From Coq Require Extraction.
From Coq Require Import ExtrOcamlBasic.
From Tickit Require Import RectDefs RectSpec RectSetDefs RectSetSpec.
Extraction "mC05.ml" model_run case_checkb.
