(* XtermModeSpec.v -- C12: histories of control settings, pen changes, pause / resume,
   teardown / destruction; the model's interpreter, the abstract bookkeeping ("logical"
   modes = last value successfully set, logical pen) and the oracle's checker on the
   implementation's bytes. *)
From Coq Require Import ZArith List Bool Lia.
From Tickit Require Import Csi VT TermPenDefs TermPenSpec XtermDefs Gen_SgrOnOff.
Import ListNotations.
Local Open Scope Z_scope.

Inductive mop :=
| OSet (c : ctl) (v : Z)
| OGet (c : ctl)
| OSetpen (p : pen)
| OChpen (p : pen)
| OPause
| OResume
| OTeardown
| ODestroy
| OSetup (use_altscreen : bool)    (* tickit.c setupterm: the fixed settings, then clear *)
| OReport (mode value : Z)        (* the terminal's DECRPM reply to a start-up query is read: on_modereport *)
| ODecscusr (value : Z).          (* ... its DECRQSS reply for DECSCUSR: on_decrqss *)

(* setupterm's controls through the driver *)
Fixpoint setup_run (d : xdrv) (cvs : list (ctl * Z)) : xdrv * list token :=
  match cvs with
  | [] => (d, [])
  | (c, v) :: r => let '(d', ts, _) := xt_setctl d c v in
                   let '(d'', ts') := setup_run d' r in (d'', ts ++ ts')
  end.

(* ---- the model: one operation through term.c + driver; the optional Z is the value a
   get returns / the return value of a set *)
Definition mode_step (t : term) (o : mop) : option (term * list token * option Z) :=
  let caps := x_caps (t_drv t) in
  match o with
  | OSet c v => let '(d', ts, ret) := xt_setctl (t_drv t) c v in
                Some (term_with_drv t d', ts, Some (if ret then 1 else 0))
  | OGet c => Some (t, [], xt_getctl (t_drv t) c)
  | OSetpen p =>
      match do_setpen chpen_params_capacity (cap_colon caps) (cap_rgb8 caps) (mkTp (t_pen t) xterm_colors) p with
      | None => None
      | Some (s, ts) => Some (term_with_pen t (tp_pen s), ts, None)
      end
  | OChpen p =>
      match do_chpen chpen_params_capacity (cap_colon caps) (cap_rgb8 caps) (mkTp (t_pen t) xterm_colors) p with
      | None => None
      | Some (s, ts) => Some (term_with_pen t (tp_pen s), ts, None)
      end
  | OPause => Some (t, term_pause t, None)
  | OResume => match term_resume t with None => None | Some ts => Some (t, ts, None) end
  | OTeardown => let '(t', ts) := term_teardown t in Some (t', ts, None)
  | ODestroy => Some (fst (term_teardown t), term_destroy t, None)
  | OSetup alt => let '(d', ts) := setup_run (t_drv t) (setup_controls alt) in
                  Some (term_with_drv t d', ts ++ xt_clear, None)
  | OReport mode value => Some (term_with_drv t (xt_on_modereport (t_drv t) mode value), [], None)
  | ODecscusr value => Some (term_with_drv t (xt_on_decscusr (t_drv t) value), [], None)
  end.

Fixpoint mode_run (t : term) (os : list mop) : option (term * list token) :=
  match os with
  | [] => Some (t, [])
  | o :: r =>
      match mode_step t o with
      | None => None
      | Some (t', ts, _) =>
          match mode_run t' r with
          | None => None
          | Some (t'', ts') => Some (t'', ts ++ ts')
          end
      end
  end.

(* the toplevel: setupterm's fixed sequence, then the application's operations, then
   tickit_destroy = teardown + destruction of the terminal *)
Definition toplevel_ops (use_altscreen : bool) (app : list mop) : list mop :=
  OSetup use_altscreen :: app ++ [OTeardown; ODestroy].

(* ---- the abstract bookkeeping *)
(* the value a control holds once set: booleans are normalised *)
Definition ctl_is_bool (c : ctl) : bool :=
  match c with CtlAltscreen | CtlCursorvis | CtlCursorblink | CtlKeypadApp | CtlCapRgb8 => true | _ => false end.
Definition ctl_norm (c : ctl) (v : Z) : Z := if ctl_is_bool c then (if v =? 0 then 0 else 1) else v.
Definition ctl_index (c : ctl) : nat :=
  match c with
  | CtlAltscreen => 0 | CtlCursorvis => 1 | CtlMouse => 2 | CtlCursorblink => 3 | CtlCursorshape => 4
  | CtlKeypadApp => 5 | CtlColors => 6 | CtlCapRgb8 => 7
  end%nat.
Definition ctl_eqb (a b : ctl) : bool := Nat.eqb (ctl_index a) (ctl_index b).
Definition lastset := ctl -> option Z.
Definition ls_set (l : lastset) (c : ctl) (v : Z) : lastset := fun d => if ctl_eqb c d then Some v else l d.

(* in-range values of the settable controls: a boolean control takes any int, read as C
   truthiness (0 = off, anything else = on; a read then returns 1) *)
Definition ctl_in_rangeb (c : ctl) (v : Z) : bool :=
  match c with
  | CtlAltscreen | CtlCursorvis | CtlCursorblink | CtlKeypadApp => true
  | CtlMouse => (0 <=? v) && (v <=? 3)
  | CtlCursorshape => (1 <=? v) && (v <=? 3)
  | CtlColors | CtlCapRgb8 => false
  end.

(* the four modes of the property's list, as the terminal holds them, plus the rendition *)
Record mstate := mkMs { ms_alt : bool; ms_curvis : bool; ms_mouse : Z; ms_sgrmouse : bool; ms_keypad : bool }.
Definition ms_of_vt (v : vt) : mstate :=
  let m := v_md v in mkMs (md_alt m) (md_curvis m) (md_mouse m) (md_sgrmouse m) (md_keypad m).
Definition ms_eqb (a b : mstate) : bool :=
  Bool.eqb (ms_alt a) (ms_alt b) && Bool.eqb (ms_curvis a) (ms_curvis b) && (ms_mouse a =? ms_mouse b) &&
  Bool.eqb (ms_sgrmouse a) (ms_sgrmouse b) && Bool.eqb (ms_keypad a) (ms_keypad b).
(* the same without the keypad (the part that holds of every history, see C12 notes) *)
Definition ms_eqb_nokp (a b : mstate) : bool :=
  Bool.eqb (ms_alt a) (ms_alt b) && Bool.eqb (ms_curvis a) (ms_curvis b) && (ms_mouse a =? ms_mouse b) &&
  Bool.eqb (ms_sgrmouse a) (ms_sgrmouse b).

(* the logical modes: the last value set, else the initial one *)
Definition logical_ms (init : mstate) (l : lastset) : mstate :=
  mkMs (match l CtlAltscreen with Some v => negb (v =? 0) | None => ms_alt init end)
       (match l CtlCursorvis with Some v => negb (v =? 0) | None => ms_curvis init end)
       (match l CtlMouse with Some v => mode_for_mouse v | None => ms_mouse init end)
       (match l CtlMouse with Some v => negb (v =? 0) | None => ms_sgrmouse init end)
       (match l CtlKeypadApp with Some v => negb (v =? 0) | None => ms_keypad init end).

(* ---- the oracle *)
Record ostate := mkOs {
  os_vt : vt; os_last : lastset; os_pen : pen; os_paused : bool; os_stopped : bool
}.
Inductive mverdict := MOk (checked : nat) | MBadAt (index : nat) (why : nat) | MOutOfRange (index : nat).

Definition is_nil {A} (l : list A) : bool := match l with [] => true | _ => false end.

(* [kp] = also check the keypad mode and the keypad control *)
(* [v'] = the screen after the operation's output, [silent] = it wrote nothing *)
Definition check_op_v (kp : bool) (colon rgb8 cshape : bool) (init : mstate) (s : ostate) (o : mop)
           (v' : vt) (silent : bool) (value : option Z) : option ostate * nat :=
  let eq := if kp then ms_eqb else ms_eqb_nokp in
  match o with
  | OSet c x =>
      if negb (ctl_in_rangeb c x) then (None, 0%nat)
      else
        let l' := match value with Some 1 => ls_set (os_last s) c (ctl_norm c x) | _ => os_last s end in
        let ok_modes := os_paused s || eq (ms_of_vt v') (logical_ms init l') in
        let ok_extra :=
            os_paused s ||
            match c with
            | CtlCursorblink => Bool.eqb (md_blink (v_md v')) (negb (x =? 0))
            | CtlCursorshape => negb cshape || ((md_shape (v_md v') + 1) / 2 =? x)
            | _ => true
            end in
        if ok_modes && ok_extra && attrs_eqb (v_sgr v') (v_sgr (os_vt s))
        then (Some (mkOs v' l' (os_pen s) (os_paused s) (os_stopped s)), 0%nat) else (None, 1%nat)
  | OGet c =>
      let ok := match os_last s c, value with
                | Some x, Some y => if negb kp && ctl_eqb c CtlKeypadApp then true else x =? y
                | None, _ => true
                | Some _, None => false
                end in
      if ok && silent then (Some s, 0%nat) else (None, 2%nat)
  | OSetpen p | OChpen p =>
      if negb (pen_in_rangeb p) then (None, 0%nat)
      else
        let l' := match o with OSetpen _ => logical_set (os_pen s) p | _ => logical_ch (os_pen s) p end in
        if (os_paused s || sgr_matchesb colon rgb8 (cache_of 256 l') (v_sgr v')) &&
           eq (ms_of_vt v') (ms_of_vt (os_vt s))
        then (Some (mkOs v' (os_last s) l' (os_paused s) (os_stopped s)), 0%nat) else (None, 3%nat)
  | OPause =>
      if eq (ms_of_vt v') init && attrs_eqb (v_sgr v') default_attrs
      then (Some (mkOs v' (os_last s) (os_pen s) true (os_stopped s)), 0%nat) else (None, 4%nat)
  | OResume =>
      if eq (ms_of_vt v') (logical_ms init (os_last s)) &&
         sgr_matchesb colon rgb8 (cache_of 256 (os_pen s)) (v_sgr v')
      then (Some (mkOs v' (os_last s) (os_pen s) false (os_stopped s)), 0%nat) else (None, 5%nat)
  | OTeardown | ODestroy =>
      if eq (ms_of_vt v') init && attrs_eqb (v_sgr v') default_attrs
      then (Some (mkOs v' (os_last s) (os_pen s) (os_paused s) true), 0%nat) else (None, 6%nat)
  | OReport mode value =>
      (* a reply tells the state at the time of the start-up query: the cursor was visible (power-on
         state); the blink state is the terminal's unless the application has set it since.
         Reading a reply writes nothing and changes nothing the application asked for *)
      let truthful :=
          if mode =? 25 then value =? 1
          else if mode =? 12 then
            match os_last s CtlCursorblink with
            | Some _ => (value =? 1) || (value =? 2)
            | None => ((value =? 1) && md_blink (v_md (os_vt s))) || ((value =? 2) && negb (md_blink (v_md (os_vt s))))
            end
          else true in
      if negb truthful then (None, 0%nat)
      else if silent then (Some s, 0%nat) else (None, 8%nat)
  | ODecscusr value =>
      let truthful :=
          (0 <=? value) && (value <=? 6) &&
          match os_last s CtlCursorshape with
          | Some _ => true
          | None => md_shape (v_md (os_vt s)) =? value
          end in
      if negb truthful then (None, 0%nat)
      else if silent then (Some s, 0%nat) else (None, 8%nat)
  | OSetup alt =>
      let l' := fold_left (fun l cv => ls_set l (fst cv) (ctl_norm (fst cv) (snd cv))) (setup_controls alt) (os_last s) in
      if (os_paused s || eq (ms_of_vt v') (logical_ms init l')) && attrs_eqb (v_sgr v') (v_sgr (os_vt s))
      then (Some (mkOs v' l' (os_pen s) (os_paused s) (os_stopped s)), 0%nat) else (None, 7%nat)
  end.

Definition check_op (kp : bool) (colon rgb8 cshape : bool) (init : mstate) (s : ostate) (o : mop)
           (bytes : list Z) (value : option Z) : option ostate * nat :=
  check_op_v kp colon rgb8 cshape init s o (vt_run_bytes bytes (os_vt s)) (is_nil bytes) value.

(* histories of the property: settings, pen changes and pause/resume cycles, then teardown
   and/or destruction and nothing after *)
Fixpoint oracle_modes (kp : bool) (colon rgb8 cshape : bool) (init : mstate) (i : nat) (s : ostate)
         (obs : list (mop * list Z * option Z)) : mverdict :=
  match obs with
  | [] => MOk i
  | (o, bytes, value) :: rest =>
      if os_stopped s && negb (match o with ODestroy | OGet _ => true | _ => false end) then MOutOfRange i
      else
        match check_op kp colon rgb8 cshape init s o bytes value with
        | (Some s', _) => oracle_modes kp colon rgb8 cshape init (S i) s' rest
        | (None, O) => MOutOfRange i
        | (None, why) => MBadAt i why
        end
  end.

(* does the history switch the application keypad on?  (trigger class of the known finding) *)
Definition sets_keypad_on (os : list mop) : bool :=
  existsb (fun o => match o with OSet CtlKeypadApp v => negb (v =? 0) | OSetup _ => true | _ => false end) os.

(* the operation's arguments are in range (the test [check_op_v] makes first on a set and on
   a pen), as a function of the operation alone *)
Definition op_in_rangeb (o : mop) : bool :=
  match o with
  | OSet c x => ctl_in_rangeb c x
  | OSetpen p | OChpen p => pen_in_rangeb p
  | _ => true
  end.

(* ---- the same walk with the MODEL producing the output (token level): the statement of the
   C12 theorems is that this never answers MBadAt, whatever the history.  The range test
   comes before the model's step: the model is only defined on in-range arguments (a palette
   index beyond the table makes convert_colour fault) *)
Fixpoint hist_check (kp : bool) (colon rgb8 cshape : bool) (init : mstate) (i : nat) (t : term) (s : ostate)
         (ops : list mop) : mverdict :=
  match ops with
  | [] => MOk i
  | o :: rest =>
      if os_stopped s && negb (match o with ODestroy | OGet _ => true | _ => false end) then MOutOfRange i
      else if negb (op_in_rangeb o) then MOutOfRange i
      else
        match mode_step t o with
        | None => MBadAt i 99
        | Some (t', ts, value) =>
            match check_op_v kp colon rgb8 cshape init s o (vt_run ts (os_vt s)) (is_nil ts) value with
            | (Some s', _) => hist_check kp colon rgb8 cshape init (S i) t' s' rest
            | (None, O) => MOutOfRange i
            | (None, why) => MBadAt i why
            end
        end
  end.
