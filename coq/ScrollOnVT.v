(* ScrollOnVT.v -- the scroll path end to end: tickit_term_scrollrect through term.c and the xterm
   driver, run on the VT screen, is the grid shift the window layer assumes of its terminal.

   XtermProofs.scroll_exact gives the exact cell-wise description of an accepted scroll (every strategy
   of xt_scrollrect).  Here it is stated (a) for the public call AScrollrect with the invariant SInv
   preserved, and (b) as a simulation of the window layer's terminal model (WinDefs.term_scroll, a grid of
   glyphs with an acceptance oracle): with the xterm driver's own acceptance as the oracle, the
   window-layer grid and the VT screen stay related. *)
From Coq Require Import ZArith List Bool Lia ZifyBool.
From Tickit Require Import Csi VT TermPenDefs TermPenSpec XtermDefs XtermSpec XtermProofs
  TermApiDefs TermApiSpec TermApiProofs.
From Tickit Require RectDefs WinDefs.
Import ListNotations.
Local Open Scope Z_scope.

Module RD := Tickit.RectDefs.
Module WD := Tickit.WinDefs.

(* ---- (a) the public call *)

(* the shifted grid: inside the rectangle the cell (d, rt) further on, or a blank in the current
   rendition's background where that is outside the rectangle; everything else as before *)
Definition shifted_grid (v : vt) (r : rect) (d rt : Z) (y x : Z) : cell :=
  if in_rect r y x
  then (if in_rect r (y + d) (x + rt) then v_grid v (y + d) (x + rt) else blank_cell (v_sgr v))
  else v_grid v y x.

Lemma api_scroll_on_vt : forall t v r d rt, vt_ok v -> SInv t v -> in_range (RScroll r d rt) v ->
  exists ok ts,
    xt_scrollrect (cap_slrm (x_caps (t_drv t))) (t_cols t) r d rt = (ok, ts) /\
    api_step t (AScrollrect r d rt) = Some (t, ts, Some (if ok then 1 else 0)) /\
    (if ok
     then let v' := vt_run ts v in
          vt_ok v' /\ SInv t v' /\ v_sgr v' = v_sgr v /\ v_md v' = v_md v /\
          (forall y x, v_grid v' y x = shifted_grid v r d rt y x)
     else ts = []).
Proof.
  intros t v r d rt Hok Hs Hr.
  destruct Hs as (S1 & S2 & S3 & S4 & S5).
  pose proof (scroll_exact v (cap_slrm (x_caps (t_drv t))) r d rt Hok Hr S3) as H.
  pose proof (scroll_ok v (cap_slrm (x_caps (t_drv t))) r d rt Hok Hr S3) as [_ Hok'].
  rewrite <- S2 in H, Hok'.
  cbn [api_step].
  destruct (xt_scrollrect (cap_slrm (x_caps (t_drv t))) (t_cols t) r d rt) as [ok ts].
  cbn [fst snd] in H, Hok'.
  exists ok, ts. split; [reflexivity|]. split; [reflexivity|].
  destruct ok; cbn [scroll_res] in H; [|exact H].
  destruct H as ((F1 & F2 & F3 & F4 & F5) & _ & _ & Hg).
  cbv zeta. refine (conj Hok' (conj _ (conj F4 (conj F5 Hg)))).
  unfold SInv. rewrite F1, F2, F4, F5. exact (conj S1 (conj S2 (conj S3 (conj S4 S5)))).
Qed.

(* the vacated cells: a space whose visible background is the current rendition's background unless
   reverse video is on (ECH-like erasure clears the reverse flag and keeps a_bg) *)
Lemma blank_cell_bg : forall a, c_glyph (blank_cell a) = 32 /\ a_bg (c_attrs (blank_cell a)) = a_bg a /\
  a_reverse (c_attrs (blank_cell a)) = false.
Proof. intros a. cbn. auto. Qed.

(* ---- (b) the window layer's terminal *)

Definition conv (r : RD.rect) : rect := mkRect (RD.top r) (RD.left r) (RD.lines r) (RD.cols r).

(* the xterm driver's acceptance as a scroll oracle of WinDefs.term *)
Definition xt_oracle (slrm : bool) : nat -> Z -> Z -> RD.rect -> Z -> Z -> bool :=
  fun _ _ cols r d rt => fst (xt_scrollrect slrm cols (conv r) d rt).

(* the window layer's glyph grid is the VT screen's *)
Definition glyph_rel (tm : WD.term) (v : vt) : Prop :=
  WD.t_lines tm = v_lines v /\ WD.t_cols tm = v_cols v /\
  forall q, WD.term_inb tm q = true -> WD.t_grid tm q = c_glyph (v_grid v (fst q) (snd q)).

(* what the window layer may ask: a non-empty rectangle on the screen, moved by less than its size *)
Definition scroll_req_ok (tm : WD.term) (r : RD.rect) (d rt : Z) : Prop :=
  0 <= RD.top r /\ 0 <= RD.left r /\ 0 < RD.lines r /\ 0 < RD.cols r /\
  RD.bottom r <= WD.t_lines tm /\ RD.right r <= WD.t_cols tm /\
  Z.abs d < RD.lines r /\ Z.abs rt < RD.cols r.

Lemma clamp_inside : forall tm r d rt, scroll_req_ok tm r d rt ->
  exists k, WD.term_clamp tm r = Some k /\ forall q, RD.cell_inb k q = in_rect (conv r) (fst q) (snd q).
Proof.
  intros tm r d rt (H1 & H2 & H3 & H4 & H5 & H6 & _ & _).
  unfold WD.term_clamp, RD.r_intersect, RD.bottom, RD.right in *. cbn [RD.top RD.left RD.lines RD.cols].
  destruct (Z.max (RD.top r) 0 >=? Z.min (RD.top r + RD.lines r) (0 + WD.t_lines tm)) eqn:E1; [lia|].
  destruct (Z.max (RD.left r) 0 >=? Z.min (RD.left r + RD.cols r) (0 + WD.t_cols tm)) eqn:E2; [lia|].
  eexists. split; [reflexivity|]. intros q.
  unfold RD.cell_inb, RD.init_bounded, RD.bottom, RD.right, in_rect, conv, r_bottom, r_right.
  cbn [RD.top RD.left RD.lines RD.cols r_top r_left r_lines r_cols].
  replace (Z.max (RD.top r) 0) with (RD.top r) by lia.
  replace (Z.max (RD.left r) 0) with (RD.left r) by lia.
  replace (Z.min (RD.top r + RD.lines r) (0 + WD.t_lines tm)) with (RD.top r + RD.lines r) by lia.
  replace (Z.min (RD.left r + RD.cols r) (0 + WD.t_cols tm)) with (RD.left r + RD.cols r) by lia.
  replace (RD.top r + (RD.top r + RD.lines r - RD.top r)) with (RD.top r + RD.lines r) by lia.
  replace (RD.left r + (RD.left r + RD.cols r - RD.left r)) with (RD.left r + RD.cols r) by lia.
  reflexivity.
Qed.

Lemma in_rect_on_screen : forall r v y x, 0 <= r_top r -> 0 <= r_left r ->
  r_bottom r <= v_lines v -> r_right r <= v_cols v -> in_rect r y x = true ->
  0 <= y < v_lines v /\ 0 <= x < v_cols v.
Proof. intros r v y x H1 H2 H3 H4 H. unfold in_rect in H. lia. Qed.

Theorem win_scroll_on_vt : forall t v tm r d rt,
  vt_ok v -> SInv t v -> glyph_rel tm v ->
  WD.t_oracle tm = xt_oracle (cap_slrm (x_caps (t_drv t))) ->
  scroll_req_ok tm r d rt ->
  exists ts,
    api_step t (AScrollrect (conv r) d rt) =
      Some (t, ts, Some (if snd (WD.term_scroll tm r d rt) then 1 else 0)) /\
    (snd (WD.term_scroll tm r d rt) = false -> ts = []) /\
    vt_ok (vt_run ts v) /\ SInv t (vt_run ts v) /\
    v_sgr (vt_run ts v) = v_sgr v /\ v_md (vt_run ts v) = v_md v /\
    glyph_rel (fst (WD.term_scroll tm r d rt)) (vt_run ts v) /\
    WD.t_oracle (fst (WD.term_scroll tm r d rt)) = WD.t_oracle tm /\
    (snd (WD.term_scroll tm r d rt) = true ->
     forall y x, v_grid (vt_run ts v) y x = shifted_grid v (conv r) d rt y x).
Proof.
  intros t v tm r d rt Hok Hs (G1 & G2 & G3) Horc Hreq.
  pose proof Hs as (S1 & S2 & _).
  assert (Hr : in_range (RScroll (conv r) d rt) v).
  { destruct Hreq as (H1 & H2 & H3 & H4 & H5 & H6 & H7 & H8).
    unfold in_range, in_rangeb, conv, r_bottom, r_right. cbn [r_top r_left r_lines r_cols].
    unfold RD.bottom, RD.right in H5, H6. rewrite G1 in H5. rewrite G2 in H6. lia. }
  destruct (api_scroll_on_vt t v (conv r) d rt Hok Hs Hr) as (ok & ts & Hx & Hstep & Hres).
  destruct (clamp_inside tm r d rt Hreq) as (k & Hk & Hin).
  assert (Hacc : snd (WD.term_scroll tm r d rt) = ok).
  { unfold WD.term_scroll. cbn [snd]. rewrite Horc. unfold xt_oracle.
    rewrite G2, <- S2, Hx. reflexivity. }
  assert (Hfst : fst (WD.term_scroll tm r d rt) =
                 WD.mkTerm (WD.t_lines tm) (WD.t_cols tm)
                   (if ok then fun q => if RD.cell_inb k q
                                        then (if RD.cell_inb k (fst q + d, snd q + rt)
                                              then WD.t_grid tm (fst q + d, snd q + rt) else WD.BLANK)
                                        else WD.t_grid tm q
                    else WD.t_grid tm)
                   (WD.t_cvis tm) (WD.t_cline tm) (WD.t_ccol tm) (WD.t_cshape tm) (WD.t_cblink tm)
                   (S (WD.t_nreq tm)) (WD.t_oracle tm)).
  { unfold WD.term_scroll in Hacc |- *. cbn [fst snd] in Hacc |- *. rewrite Hacc, Hk. reflexivity. }
  rewrite Hacc, Hfst. clear Hacc Hfst.
  exists ts. split; [exact Hstep|].
  destruct ok.
  - cbv zeta in Hres. destruct Hres as (Hok' & Hs' & Hsgr & Hmd & Hg).
    assert (Hfr : v_lines (vt_run ts v) = v_lines v /\ v_cols (vt_run ts v) = v_cols v).
    { destruct Hs' as (A1 & A2 & _). split; congruence. }
    destruct Hfr as [Fl Fc].
    refine (conj _ (conj Hok' (conj Hs' (conj Hsgr (conj Hmd (conj _ (conj eq_refl (fun _ => Hg)))))))).
    { discriminate. }
    unfold glyph_rel. cbn [WD.t_lines WD.t_cols WD.t_grid]. rewrite Fl, Fc.
    refine (conj G1 (conj G2 _)). intros q Hq. unfold WD.term_inb in Hq. cbn [WD.t_lines WD.t_cols] in Hq.
    rewrite Hg. unfold shifted_grid. rewrite !Hin. cbn [fst snd].
    destruct (in_rect (conv r) (fst q) (snd q)) eqn:E1.
    + destruct (in_rect (conv r) (fst q + d) (snd q + rt)) eqn:E2; [|reflexivity].
      apply G3. unfold WD.term_inb. cbn [fst snd].
      destruct Hreq as (H1 & H2 & H3 & H4 & H5 & H6 & _ & _).
      unfold RD.bottom, RD.right in H5, H6.
      unfold in_rect, conv, r_bottom, r_right in E2. cbn [r_top r_left r_lines r_cols] in E2. lia.
    + apply G3. unfold WD.term_inb. exact Hq.
  - subst ts. rewrite vt_run_nil.
    refine (conj (fun _ => eq_refl) (conj Hok (conj Hs (conj eq_refl (conj eq_refl (conj _ (conj eq_refl _))))))).
    + unfold glyph_rel. cbn [WD.t_lines WD.t_cols WD.t_grid]. exact (conj G1 (conj G2 G3)).
    + discriminate.
Qed.

(* non-vacuity: a 4x5 window-layer terminal whose oracle is the DECSLRM-capable xterm driver, over the
   start state of the VT; the 2x3 rectangle at (1,1) moved by (1,-1) is accepted, the hypotheses of
   win_scroll_on_vt hold, and the cell (2,1) (its source lies outside the rectangle) becomes a blank *)
Definition slrm_drv : xdrv := with_caps xdrv_new (mkCaps false true false false).
Lemma win_scroll_example :
  let v := vt_run xt_start (vt_init 4 5) in
  let t := mkTerm slrm_drv true empty_pen 4 5 in
  let tm := WD.term_set_grid (WD.term_new 4 5 (xt_oracle (cap_slrm (x_caps slrm_drv))))
                             (fun q => c_glyph (v_grid v (fst q) (snd q))) in
  let r := RD.mkRect 1 1 2 3 in
  vt_ok v /\ SInv t v /\ glyph_rel tm v /\ scroll_req_ok tm r 1 (-1) /\
  snd (WD.term_scroll tm r 1 (-1)) = true /\
  shifted_grid v (conv r) 1 (-1) 2 1 = blank_cell (v_sgr v) /\
  shifted_grid v (conv r) 1 (-1) 1 2 = v_grid v 2 1.
Proof.
  cbv zeta. destruct (start_state_ok 4 5 slrm_drv ltac:(lia) ltac:(lia)) as [Hok Hs].
  refine (conj Hok (conj Hs (conj _ (conj _ (conj _ (conj _ _)))))).
  - unfold glyph_rel. refine (conj eq_refl (conj eq_refl _)). intros q _. reflexivity.
  - unfold scroll_req_ok. cbn. lia.
  - vm_compute. reflexivity.
  - reflexivity.
  - reflexivity.
Qed.
