(* Property C07 -- placeholder while the proofs are being built (theorems follow). *)
From Coq Require Import ZArith List.
From Tickit Require Import Utf8Defs Utf8Spec.
Import ListNotations.
Local Open Scope Z_scope.

Example C07_nonvacuous : u8_count [0x41; 0xcc; 0x81; 0] None = CRet 3 (mkPos 3 2 1 1).
Proof. vm_compute. reflexivity. Qed.
