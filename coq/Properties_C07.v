(* Property C07: UTF-8 counting is grapheme-atomic, limit-respecting, resumable and bounded.
   This file contains nothing but the property theorems, each closed by [exact <lemma>] and
   followed by Print Assumptions.

   Vocabulary (Utf8Defs = model of src/utf8.c + src/unicode.h, Utf8Spec = specification):
   * a call's buffer is  pre ++ s ++ tail : [pre] = the bytes before the starting offset
     pos->bytes, [s] = the EFFECTIVE string (no NUL in it), [tail] = whatever else is readable;
     [tail_ok s tail len'] (len' = len - pos->bytes, None = no length) says: no length and the
     tail starts with the NUL / the length ends exactly at the end of s (tail arbitrary,
     possibly EMPTY: the permitted region ends there) / the length reaches further and the tail
     starts with a NUL.  A read outside the buffer makes the model return CFault.
   * [decode s] = (items, ended_bad): code point, encoded length, width of each well-formed
     sequence, up to the end or the first bad place (C0/C1 control or DEL as decoded value,
     lead byte 0x80..0xBF / 0xF8..0xFF, sequence cut short by the end of s);
     [units] groups items into an optional leading zero-width run and graphemes (a spacing
     item + the zero-width items after it); [take_units] = longest prefix of units within every
     limit; [spec_count] = that prefix, or SErr iff every unit fits and decoding ended bad.
   * [cres_meets c r]: the model's result c (never Fault, never out of fuel) has the return
     value and position r demands; on the error value -1 the position is left open. *)
From Coq Require Import ZArith List.
From Tickit Require Import Gen_Width Utf8Defs Utf8Spec Utf8Tables Utf8Proofs Utf8PutCount.
Import ListNotations.
Local Open Scope Z_scope.

(* Counting from any byte offset returns exactly the specification's count: it advances by
   whole units only and stops exactly before the first unit that would exceed a limit, or at
   the end -- for every buffer (well-formed or not, terminated or bounded), every initial
   position and every limit (or NULL). *)
Theorem C07_count_is_spec : forall pre s tail len pos limit,
  Z.of_nat (length pre) = p_bytes pos -> nonul s ->
  tail_ok s tail (len_sub len (p_bytes pos)) ->
  cres_meets (u8_ncountmore (pre ++ s ++ tail) len pos limit) (spec_count s pos limit).
Proof. exact count_is_spec. Qed.
Print Assumptions C07_count_is_spec.

(* The boolean checker used as oracle on the C's observations accepts exactly what the model
   returns on any call the man page allows ([effective] = the bytes up to NUL / bound). *)
Theorem C07_oracle_sound : forall buf len pos limit ret p,
  valid_call buf len (p_bytes pos) ->
  u8_ncountmore buf len pos limit = CRet ret p ->
  count_checkb buf len pos limit ret p = true.
Proof. exact count_checkb_sound. Qed.
Print Assumptions C07_oracle_sound.

(* Counters are mutually consistent: the call consumed whole units us1; the bytes counted are
   a prefix of the string of exactly that length = the sum of the encoded lengths; code
   points = number of items; graphemes = number of spacing items; columns = sum of widths. *)
Theorem C07_counters_consistent : forall pre s tail len pos limit r p,
  Z.of_nat (length pre) = p_bytes pos -> nonul s -> tail_ok s tail (len_sub len (p_bytes pos)) ->
  u8_ncountmore (pre ++ s ++ tail) len pos limit = CRet r p -> r <> -1 ->
  exists us1 us2 pre' s',
    units (fst (decode s)) = us1 ++ us2 /\
    s = pre' ++ s' /\ Z.of_nat (length pre') = r /\
    r = bytes_of (concat us1) /\
    p = mkPos (p_bytes pos + bytes_of (concat us1))
              (p_cps pos + Z.of_nat (length (concat us1)))
              (p_graphs pos + graphs_of (concat us1))
              (p_cols pos + cols_of (concat us1)).
Proof. exact counters_consistent_model. Qed.
Print Assumptions C07_counters_consistent.

(* Resumption: if counting with limits L1 returned (r1,p1) without error, then continuing
   from p1 with any limits L2 >= L1 (component-wise, -1 = none) ends at the same totals as
   counting with L2 in one go (and the byte counts add up), or both return the error value. *)
Theorem C07_resume : forall pre s tail len pos l1 l2 r1 p1,
  Z.of_nat (length pre) = p_bytes pos -> nonul s -> tail_ok s tail (len_sub len (p_bytes pos)) ->
  limit_le l1 l2 = true ->
  u8_ncountmore (pre ++ s ++ tail) len pos l1 = CRet r1 p1 -> r1 <> -1 ->
  match u8_ncountmore (pre ++ s ++ tail) len pos l2 with
  | CRet r2 p2 =>
      if r2 =? -1 then exists p, u8_ncountmore (pre ++ s ++ tail) len p1 l2 = CRet (-1) p
      else u8_ncountmore (pre ++ s ++ tail) len p1 l2 = CRet (r2 - r1) p2
  | _ => False
  end.
Proof. exact resume. Qed.
Print Assumptions C07_resume.

(* Never reads past the terminator: the bytes behind the NUL do not influence the result, and
   on a buffer that ends AT the NUL (every further read is a Fault) the call returns normally. *)
Theorem C07_no_overread_terminated : forall pre s junk pos limit,
  Z.of_nat (length pre) = p_bytes pos -> nonul s ->
  u8_ncountmore (pre ++ s ++ 0 :: junk) None pos limit = u8_ncountmore (pre ++ s ++ [0]) None pos limit /\
  exists r p, u8_ncountmore (pre ++ s ++ [0]) None pos limit = CRet r p.
Proof. exact no_overread_terminated. Qed.
Print Assumptions C07_no_overread_terminated.

(* Never reads past the given length: x = the bytes inside the bound (any bytes, a NUL among
   them or not, a sequence cut by the bound or not). *)
Theorem C07_no_overread_bounded : forall pre x junk pos limit,
  Z.of_nat (length pre) = p_bytes pos ->
  let len := Some (p_bytes pos + Z.of_nat (length x)) in
  u8_ncountmore (pre ++ x ++ junk) len pos limit = u8_ncountmore (pre ++ x) len pos limit /\
  exists r p, u8_ncountmore (pre ++ x) len pos limit = CRet r p.
Proof. exact no_overread_bounded. Qed.
Print Assumptions C07_no_overread_bounded.

(* The error value is returned exactly when decoding the effective string ends at a bad place
   (control / DEL / invalid lead / truncated sequence) and no limit stops the count before it. *)
Theorem C07_error_exact : forall pre s tail len pos limit,
  Z.of_nat (length pre) = p_bytes pos -> nonul s -> tail_ok s tail (len_sub len (p_bytes pos)) ->
  ((exists p, u8_ncountmore (pre ++ s ++ tail) len pos limit = CRet (-1) p) <->
   (snd (decode s) = true /\ snd (take_units (units (fst (decode s))) pos limit) = true)).
Proof. exact error_exact. Qed.
Print Assumptions C07_error_exact.

(* Encoding then counting round-trips for EVERY code point below 0x200000: put stores seqlen
   bytes; counting them (terminated, and bounded by exactly seqlen) gives 1 code point, the
   width of the code point, 1 grapheme iff the width is positive -- the error value for
   controls and DEL, and the empty count for U+0000 (its encoding is the terminator). *)
Theorem C07_put_count : forall cp junk, 0 <= cp < 0x200000 ->
  Z.of_nat (length (put_bytes cp)) = u8_seqlen cp /\
  u8_put false (u8_seqlen cp) cp = (u8_seqlen cp, Some (put_bytes cp)) /\
  cres_meets (u8_count (put_bytes cp ++ 0 :: junk) None) (roundtrip_expect cp) /\
  cres_meets (u8_ncount (put_bytes cp ++ junk) (u8_seqlen cp) None) (roundtrip_expect cp).
Proof. exact put_count. Qed.
Print Assumptions C07_put_count.

(* Binary search over ANY sorted table of disjoint intervals is membership ... *)
Theorem C07_bisearch : forall c t, sorted_disjoint t = true -> t <> [] ->
  bisearch c t (tbl_max t) = Some (in_table c t) /\
  (in_table c t = true <-> exists iv, In iv t /\ fst iv <= c <= snd iv).
Proof. exact (fun c t H N => conj (bisearch_is_membership c t H N) (in_table_true c t)). Qed.
Print Assumptions C07_bisearch.

(* ... the two tables as re-translated from the library's sources on this run are sorted and
   disjoint, and therefore the model's width function is the membership-based width. *)
Theorem C07_tables_sorted :
  sorted_disjoint combining = true /\ sorted_disjoint fullwidth = true.
Proof. exact (conj combining_sorted fullwidth_sorted). Qed.
Print Assumptions C07_tables_sorted.

Theorem C07_wcwidth_is_membership : forall cp, bad_cp cp = false ->
  u8_wcwidth cp = Some (spec_width cp) /\ 0 <= spec_width cp <= 2.
Proof. exact (fun cp H => conj (wcwidth_spec cp H) (spec_width_range cp)). Qed.
Print Assumptions C07_wcwidth_is_membership.

(* The widths the library documents (man page, test suite, header comment; list in Utf8Spec)
   hold of the tables as translated from the sources on this run. *)
Theorem C07_documented_widths :
  forallb (fun e => spec_width (fst e) =? snd e) documented_widths = true /\
  forallb (fun k => spec_width (0x1160 + Z.of_nat k) =? 0) (seq 0 160) = true.
Proof. exact (conj documented_widths_hold jamo_medial_final_zero_width). Qed.
Print Assumptions C07_documented_widths.

(* For the record (not demanded by the property as read in DESIGN section 6/C07): the decoder
   does not test that continuation bytes are 10xxxxxx, so a C0 control BYTE in continuation
   position is consumed as payload -- C3 0A counts as one code point U+00CA. *)
Theorem C07_note_control_in_continuation :
  u8_count [0xc3; 0x0a; 0] None = CRet 2 (mkPos 2 1 1 1).
Proof. exact note_control_in_continuation. Qed.
Print Assumptions C07_note_control_in_continuation.

Example C07_nonvacuous :
  let s := [0x65; 0xcc; 0x81; 0xef; 0xbc; 0xa1] in
  nonul s /\ tail_ok s [0] (len_sub None 0) /\
  u8_count (s ++ [0]) (Some (limit_columns 2)) = CRet 3 (mkPos 3 2 1 1) /\
  spec_count s pos_zero (Some (limit_columns 2)) = SOk 3 (mkPos 3 2 1 1) /\
  length (units (fst (decode s))) = 2%nat.
Proof. exact nonvacuous. Qed.
