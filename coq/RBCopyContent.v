(* RBCopyContent.v -- the content invariant of C04 (acells_ok: text cells within their valid
   strings, Char cells of width one, line masks 1..255) is preserved by the specification of
   copyrect / moverect / blit (C13), so the flush theorems of C04 apply to buffers built with
   them as well. *)
From Coq Require Import ZArith List Bool Lia.
From Tickit Require Import RectDefs RBDefs RBSpec RBLemmas RBAbsLemmas RBInv RBProofs RBProps RBCopySpec
                           Gen_Linechars RBFlushDefs RBFlushSpec RBFlushProofs RBWidth RBFlushCols RBFlushReach.
Import ListNotations.
Local Open Scope Z_scope.

Lemma acell_at_ok : forall A y x, ashape A -> acells_ok A -> cellc_ok (acell_at (ag A) y x).
Proof.
  intros A y x (H1 & H2) Hc. unfold acell_at, nthz.
  destruct (Z.ltb_spec y 0) as [Hy|Hy].
  { destruct (x <? 0); [exact Logic.I|]. destruct (Z.to_nat x); exact Logic.I. }
  destruct (Z_lt_le_dec y (a_lines A)) as [Hy2|Hy2].
  - destruct (Z.ltb_spec x 0) as [Hx|Hx]; [exact Logic.I|].
    destruct (Z_lt_le_dec x (a_cols A)) as [Hx2|Hx2].
    + apply (Hc y x). split; lia.
    + rewrite nth_overflow; [exact Logic.I|]. specialize (H2 y ltac:(lia)). unfold zlen, zn in H2. lia.
  - rewrite (nth_overflow (ag A)) by (unfold zlen in H1; lia).
    destruct (x <? 0); [exact Logic.I|]. destruct (Z.to_nat x); exact Logic.I.
Qed.

Lemma copy_cell_ok : forall cur cs srcc old, cellc_ok srcc -> cellc_ok old -> cellc_ok (copy_cell cur cs srcc old).
Proof.
  intros cur cs srcc old Hs Ho. destruct srcc; cbn [copy_cell cellc_ok] in *; try assumption.
  - destruct cs; [exact Logic.I|exact Ho].
  - destruct old; cbn [cellc_ok] in *; try (rewrite Z.lor_0_l; exact Hs). apply lor_mask; lia.
Qed.

Theorem a_copy_aok : forall dst src dtop dleft sr cs,
  ashape dst -> acells_ok dst -> ashape src -> acells_ok src ->
  acells_ok (a_copy dst (ag src) dtop dleft sr cs).
Proof.
  intros dst src dtop dleft sr cs Sd Hd Ss Hs. unfold a_copy. cbv zeta.
  destruct (_ || _); [exact Hd|].
  intros y x (Hy & Hx). destruct Sd as (H1 & H2). cbn [set_ag a_lines a_cols ag] in *.
  rewrite gcell_mapi2 by (try rewrite H2 by assumption; lia).
  assert (Old := Hd y x (conj Hy Hx)).
  destruct (_ && _); [|exact Old]. cbn [ac]. apply copy_cell_ok; [apply acell_at_ok; assumption|exact Old].
Qed.

Theorem a_copyrect_aok : forall s dr sr, ashape s -> acells_ok s -> acells_ok (a_copyrect s dr sr).
Proof. intros s dr sr S H. unfold a_copyrect. destruct (_ && _); [exact H|]. apply a_copy_aok; assumption. Qed.

Theorem a_blit_aok : forall dst src, ashape dst -> acells_ok dst -> ashape src -> acells_ok src -> acells_ok (a_blit dst src).
Proof. intros. unfold a_blit. apply a_copy_aok; assumption. Qed.

Lemma a_copy_shape : forall dst g dtop dleft sr cs, ashape dst -> ashape (a_copy dst g dtop dleft sr cs).
Proof.
  intros dst g dtop dleft sr cs S. unfold a_copy. cbv zeta. destruct (_ || _); [exact S|].
  apply (ashape_mapi2 dst). exact S.
Qed.

Theorem a_moverect_aok : forall s dr sr, ashape s -> acells_ok s -> acells_ok (a_moverect s dr sr).
Proof.
  intros s dr sr S H. unfold a_moverect. cbv zeta.
  assert (S1 : ashape (a_copyrect s dr sr)).
  { unfold a_copyrect. destruct (_ && _); [exact S|]. apply a_copy_shape. exact S. }
  assert (H1 := a_copyrect_aok s dr sr S H).
  intros y x (Hy & Hx). destruct S1 as (G1 & G2). cbn [set_ag a_lines a_cols ag] in *.
  rewrite gcell_mapi2 by (try rewrite G2 by assumption; lia).
  assert (Old := H1 y x (conj Hy Hx)).
  destruct (_ && _); [exact Logic.I|exact Old].
Qed.
