(* WinC01Extra.v -- concrete witnesses for property C01 (closed by computation). *)
From Coq Require Import ZArith List Bool.
From Tickit Require Import RectDefs WinRectSet WinDefs WinSpec WinHist.
Import ListNotations.
Local Open Scope Z_scope.

Definition paint_progs : Z -> list dop := fun _ => [DPaint].

(* the screen of a model state agrees with the composition everywhere *)
Definition screen_ok (m : mstate) : bool :=
  c01_checkb (m_app m) (r_tree (m_root m)) (t_lines (m_term m)) (t_cols (m_term m)) (t_grid (m_term m)).

(* defect #18 (repaired): a window that sticks out of the screen is scrolled; the pinned code
   asks the terminal to scroll a rectangle that is not clipped to the root and exposes the
   wrong strip, so a stale cell survives the flush *)
Definition cfg18 := mkDefects true false false false false false false false.
Definition hist18 : list op :=
  [ONew 1 0 (mkRect 1 1 3 3) false false false false; OMove 1 2 3 true; OScroll 1 1 0; OFlush].

Lemma refuted_18 :
  screen_ok (run cfg18 paint_progs hist18 (m_init 4 6 pol_accept)) = false /\
  screen_ok (run no_defects paint_progs hist18 (m_init 4 6 pol_accept)) = true.
Proof. split; vm_compute; reflexivity. Qed.

(* non-vacuity: three windows (overlapping siblings, a nested child sticking out, one
   hidden), restacks, a move with exposes, scrolls on a terminal that refuses every second
   request, a terminal resize, flushes in between: the screen is the composition after
   every flush *)
Definition hist_nv : list op :=
  [OFlush;
   ONew 1 0 (mkRect 0 1 3 3) false false false false;
   ONew 2 0 (mkRect 1 2 2 3) false false false false;
   ONew 3 1 (mkRect (-1) 1 3 4) false false false false;
   OFlush;
   ORestack HRaise 1; OHide 2; OFlush;
   OShow 2; OMove 1 1 0 true; OScroll 0 1 0; OScroll 1 0 1; OFlush;
   OTermResize 5 7; OClose 3; OScrollRect 0 (mkRect 0 0 2 7) 1 0; OFlush].

Fixpoint screens_ok (cfg : defects) (ops : list op) (m : mstate) : bool :=
  match ops with
  | [] => true
  | o :: rest =>
    let m' := step cfg paint_progs o m in
    (match o with OFlush => screen_ok m' | _ => true end) && screens_ok cfg rest m'
  end.

Lemma nonvacuous_c01 :
  screens_ok no_defects hist_nv (m_init 4 6 (pol_script [true; false; true; false])) = true /\
  length (t_kids (r_tree (m_root (run no_defects paint_progs hist_nv (m_init 4 6 pol_accept))))) = 2%nat.
Proof. split; vm_compute; reflexivity. Qed.
