(* RBCopyRefine.v -- content refinement of copyrect: the abstract effect of one span step, the
   partial-copy invariant of the loops, and the cell-wise copy as their composition. *)
From Coq Require Import ZArith List Bool Lia.
From Tickit Require Import RectDefs RBDefs RBSpec RBLemmas RBSpanProofs RBAbsLemmas RBInv RBOpProofs RBProofs RBProps RBRestore
                           RBCopyDefs RBCopySpec RBCopyProofs RBPenLemmas.
Import ListNotations.
Local Open Scope Z_scope.

(* every Char cell holds a code point of width one (put_char stores anything else as text) *)
Definition achar_ok (A : ast) : Prop :=
  forall y x p cp, in_grid A y x -> ac (gcell (ag A) y x) = AChar p cp -> text_valid [cp] = true /\ cpw cp = 1.

(* ---------------------------------------------------------------------------------- *)
(* the pen bracket around one operation, on the abstraction *)

Lemma completed_pen_eq : forall cur q, completed_pen cur q = pen_copy q cur false.
Proof. intros. unfold completed_pen. now rewrite pen_copy_empty. Qed.

(* a_paint depends on the auxiliary state only through translation and clip *)
Lemma a_paint_aux_irrel : forall A A' r F,
  ag A' = ag A -> xl (a_aux A') = xl (a_aux A) -> xc (a_aux A') = xc (a_aux A) -> clip (a_aux A') = clip (a_aux A) ->
  ag (a_paint A' r F) = ag (a_paint A r F).
Proof.
  intros A A' r F Hg Hx Hc Hk. unfold a_paint. cbn [ag set_ag]. rewrite Hg.
  apply agrid_ext.
  - now rewrite !zlen_mapi.
  - intros y Hy. rewrite zlen_mapi in Hy.
    rewrite (zn_mapi _ (ag A) y [] []), (zn_mapi _ (ag A) y [] []) by assumption. now rewrite !zlen_mapi.
  - intros y x Hy Hx'. rewrite zlen_mapi in Hy. unfold gcell in *.
    rewrite (zn_mapi _ (ag A) y [] []) in * by assumption. rewrite zlen_mapi in Hx'.
    rewrite (zn_mapi _ (ag A) y [] []) by assumption.
    rewrite (zn_mapi _ _ x dacell dacell), (zn_mapi _ _ x dacell dacell) by assumption.
    unfold target. now rewrite Hx, Hc, Hk.
Qed.

Lemma ast_eq : forall A B : ast,
  a_lines A = a_lines B -> a_cols A = a_cols B -> ag A = ag B -> a_aux A = a_aux B -> A = B.
Proof. intros [l1 c1 g1 a1] [l2 c2 g2 a2]; cbn; intros; subst; reflexivity. Qed.

(* restore right after a savepen at the same depth changes no mask, provided no mask exceeds
   the depth *)
Lemma restore_bracket_abs : forall s p d2 (R : rect) (F : pen -> Z -> Z -> cellc -> cellc),
  Inv s -> ainv (abs_rb s) ->
  let d1 := set_aux s (ax_setpen (ax_savepen (aux s)) (Some p)) in
  Inv d2 -> aux d2 = aux d1 -> rb_lines d2 = rb_lines s -> rb_cols d2 = rb_cols s ->
  abs_rb d2 = a_paint (abs_rb d1) R (F (cur_pen (aux d1))) ->
  abs_rb (restore d2) = a_paint (abs_rb s) R (F (completed_pen (cur_pen (aux s)) p)).
Proof.
  intros s p d2 R F I A d1 I2 A2 L2 C2 Ab.
  destruct (restore_ok d2 I2) as (_ & Er). rewrite Er.
  assert (Ep : cur_pen (aux d1) = completed_pen (cur_pen (aux s)) p).
  { unfold d1. cbn [set_aux aux ax_setpen ax_savepen ax_set_stack ax_set_pen stack cur_pen f_pen]. reflexivity. }
  rewrite Ep in Ab.
  unfold a_restore. rewrite Ab.
  assert (Ea : a_aux (a_paint (abs_rb d1) R (F (completed_pen (cur_pen (aux s)) p))) = aux d1) by reflexivity.
  rewrite Ea.
  assert (Es : stack (aux d1) = mkFrame false 0 0 0 0 (mkRect 0 0 0 0) (cur_pen (aux s)) true :: stack (aux s))
    by (unfold d1; cbn; reflexivity).
  rewrite Es.
  assert (Er' : ax_restore (aux d1) = aux s).
  { unfold ax_restore. rewrite Es. cbn [f_pen_only f_pen].
    unfold d1. cbn [set_aux aux]. destruct (aux s).
    unfold ax_set_stack, ax_set_pen, ax_setpen, ax_savepen, ax_set_stack, ax_set_pen. cbn. f_equal. lia. }
  rewrite Er'.
  (* the grid: masks are at most depth (aux s), so none is cleared *)
  destruct A as (Hs & Hd & Hm).
  assert (Hg : ag (a_paint (abs_rb d1) R (F (completed_pen (cur_pen (aux s)) p))) =
               ag (a_paint (abs_rb s) R (F (completed_pen (cur_pen (aux s)) p)))).
  { apply a_paint_aux_irrel; reflexivity. }
  apply ast_eq; [reflexivity|reflexivity| |reflexivity]. cbn [ag].
  rewrite Hg.
  destruct (a_paint_shape (abs_rb s) R (F (completed_pen (cur_pen (aux s)) p))) as (S1 & S2 & _).
  destruct Hs as (H1 & H2).
  apply agrid_ext.
  - now rewrite zlen_map.
  - intros y Hy. rewrite zlen_map in Hy. rewrite (zn_map _ _ y [] []) by assumption. now rewrite zlen_map.
  - intros y x Hy Hx. rewrite zlen_map in Hy.
    rewrite (zn_map _ _ y [] []) in Hx by assumption. rewrite zlen_map in Hx.
    rewrite gcell_map2 by assumption.
    rewrite S1 in Hy. rewrite S2 in Hx by assumption.
    rewrite gcell_a_paint by assumption. cbv zeta.
    assert (Hg' : in_grid (abs_rb s) y x).
    { split; [rewrite <- H1; assumption|rewrite <- (H2 y) by (rewrite <- H1; assumption); assumption]. }
    specialize (Hm y x Hg'). cbn [a_aux abs_rb] in Hm.
    destruct (target _ _ _ _ && _); cbn [am];
      (destruct (Z.gtb_spec (am (gcell (ag (abs_rb s)) y x)) (depth (aux s))); [lia|reflexivity]).
Qed.

Lemma a_paint_id : forall A r F, (forall y x old, F y x old = old) -> a_paint A r F = A.
Proof.
  intros A r F H. destruct A as [L C g a]. unfold a_paint, set_ag. cbn [ag a_aux a_lines a_cols]. f_equal.
  apply agrid_ext.
  - now rewrite zlen_mapi.
  - intros y Hy. rewrite zlen_mapi in Hy. rewrite (zn_mapi _ g y [] []) by assumption. now rewrite zlen_mapi.
  - intros y x Hy Hx. rewrite zlen_mapi in Hy. unfold gcell in *.
    rewrite (zn_mapi _ g y [] []) in * by assumption. rewrite zlen_mapi in Hx.
    rewrite (zn_mapi _ _ x dacell dacell) by assumption.
    destruct (_ && _); [|reflexivity]. rewrite H. destruct (zn (zn g y []) x dacell); reflexivity.
Qed.

(* ---------------------------------------------------------------------------------- *)
(* the write half of one span step: what it does to the abstraction *)

Definition span_write (dst : rb) (c : content) (wl wc cols0 k0 : Z) (copy_skip : bool) : res rb :=
  match c with
  | CSkip => if copy_skip then skip dst wl wc cols0 else Ok dst
  | _ =>
      let d1 := set_aux dst (ax_setpen (ax_savepen (aux dst)) (Some (content_pen c))) in
      do d2 <-
        (match c with
         | CText _ t offs => put_substr d1 wl wc t (offs + k0) cols0
         | CErase _ => erase d1 wl wc cols0
         | CLine _ m => linecell d1 wl wc m
         | CChar _ cp => do2 (d, _) <- put_char d1 wl wc cp; Ok d
         | CSkip => Ok d1
         end);
      Ok (restore d2)
  end.

Theorem span_write_abs : forall dst c wl wc cols0 k0 copy_skip,
  Inv dst -> ainv (abs_rb dst) ->
  (single_cell c = true -> cols0 = 1) ->
  (forall p cp, c = CChar p cp -> text_valid [cp] = true /\ cpw cp = 1) ->
  exists dst', span_write dst c wl wc cols0 k0 copy_skip = Ok dst' /\ keeps dst dst' /\
    abs_rb dst' = a_paint (abs_rb dst) (row_rect wl wc cols0)
                    (fun _ x old => copy_cell (cur_pen (aux dst)) copy_skip
                                      (content_at c (k0 + (x - (wc + xc (aux dst))))) old).
Proof.
  intros dst c wl wc cols0 k0 copy_skip I A Hsingle Hchar. unfold span_write.
  destruct c as [|p t offs|p|p m|p cp].
  - (* skip *)
    destruct copy_skip.
    + destruct (skip_ok dst wl wc cols0 I) as (d & E & I' & A1 & L1 & C1 & Ab).
      exists d. split; [assumption|]. split; [unfold keeps; conj_auto|]. rewrite Ab. reflexivity.
    + exists dst. split; [reflexivity|]. split; [apply keeps_refl; assumption|].
      symmetry. apply a_paint_id. reflexivity.
  - (* text *)
    set (d1 := set_aux dst (ax_setpen (ax_savepen (aux dst)) (Some p))).
    destruct (pen_bracket dst p (fun d => put_substr d wl wc t (offs + k0) cols0) I) as (dst' & E & K).
    { intros d Hd. apply put_substr_keeps; assumption. }
    cbn [content_pen]. fold d1 in E. exists dst'. split; [exact E|]. split; [exact K|].
    assert (I1 : Inv d1).
    { destruct (pen_bracket dst p (fun d => Ok d) I) as (x & _ & _); [intros d Hd; exists d; split; [reflexivity|apply keeps_refl; assumption]|].
      unfold d1. apply set_aux_inv; auto; cbn [ax_setpen ax_savepen ax_set_pen ax_set_stack clip stack depth].
      - apply (inv_clip dst I).
      - constructor; [left; reflexivity|apply (inv_stack dst I)].
      - rewrite (inv_depth dst I). unfold zlen. cbn [length]. lia. }
    destruct (put_substr_ok d1 wl wc t (offs + k0) cols0 I1) as (d2 & E2 & I2 & A2 & L2 & C2 & Ab2).
    rewrite E2 in E. cbn [bind] in E. inversion E; subst dst'.
    rewrite (restore_bracket_abs dst p d2 (row_rect wl wc cols0)
               (fun pen _ x _ => AText pen t (offs + k0 + (x - (wc + xc (aux dst))))) I A I2 A2 L2 C2 Ab2).
    apply a_paint_ext. intros y x old. cbn [content_at copy_cell]. f_equal. lia.
  - (* erase *)
    set (d1 := set_aux dst (ax_setpen (ax_savepen (aux dst)) (Some p))).
    destruct (pen_bracket dst p (fun d => erase d wl wc cols0) I) as (dst' & E & K).
    { intros d Hd. apply erase_keeps; assumption. }
    cbn [content_pen]. fold d1 in E. exists dst'. split; [exact E|]. split; [exact K|].
    assert (I1 : Inv d1).
    { unfold d1. apply set_aux_inv; auto; cbn [ax_setpen ax_savepen ax_set_pen ax_set_stack clip stack depth].
      - apply (inv_clip dst I).
      - constructor; [left; reflexivity|apply (inv_stack dst I)].
      - rewrite (inv_depth dst I). unfold zlen. cbn [length]. lia. }
    destruct (erase_ok d1 wl wc cols0 I1) as (d2 & E2 & I2 & A2 & L2 & C2 & Ab2).
    rewrite E2 in E. cbn [bind] in E. inversion E; subst dst'.
    rewrite (restore_bracket_abs dst p d2 (row_rect wl wc cols0) (fun pen _ _ _ => AErase pen) I A I2 A2 L2 C2 Ab2).
    apply a_paint_ext. intros y x old. reflexivity.
  - (* line *)
    specialize (Hsingle eq_refl). subst cols0.
    set (d1 := set_aux dst (ax_setpen (ax_savepen (aux dst)) (Some p))).
    destruct (pen_bracket dst p (fun d => linecell d wl wc m) I) as (dst' & E & K).
    { intros d Hd. apply linecell_keeps; assumption. }
    cbn [content_pen]. fold d1 in E. exists dst'. split; [exact E|]. split; [exact K|].
    assert (I1 : Inv d1).
    { unfold d1. apply set_aux_inv; auto; cbn [ax_setpen ax_savepen ax_set_pen ax_set_stack clip stack depth].
      - apply (inv_clip dst I).
      - constructor; [left; reflexivity|apply (inv_stack dst I)].
      - rewrite (inv_depth dst I). unfold zlen. cbn [length]. lia. }
    destruct (linecell_ok d1 wl wc m I1) as (d2 & E2 & I2 & A2 & L2 & C2 & Ab2).
    rewrite E2 in E. cbn [bind] in E. inversion E; subst dst'.
    rewrite (restore_bracket_abs dst p d2 (row_rect wl wc 1)
               (fun pen _ _ old => match old with
                                   | ALine q m0 => ALine (if pen_equiv q pen then q else pen) (Z.lor m0 m)
                                   | _ => ALine pen (Z.lor 0 m)
                                   end) I A I2 A2 L2 C2 Ab2).
    apply a_paint_ext. intros y x old. reflexivity.
  - (* char *)
    specialize (Hsingle eq_refl). subst cols0.
    destruct (Hchar p cp eq_refl) as (Hv & Hw).
    set (d1 := set_aux dst (ax_setpen (ax_savepen (aux dst)) (Some p))).
    destruct (pen_bracket dst p (fun d => do2 (d0, _) <- put_char d wl wc cp; Ok d0) I) as (dst' & E & K).
    { intros d Hd. apply put_char_keeps; assumption. }
    cbn [content_pen]. fold d1 in E. exists dst'. split; [exact E|]. split; [exact K|].
    assert (I1 : Inv d1).
    { unfold d1. apply set_aux_inv; auto; cbn [ax_setpen ax_savepen ax_set_pen ax_set_stack clip stack depth].
      - apply (inv_clip dst I).
      - constructor; [left; reflexivity|apply (inv_stack dst I)].
      - rewrite (inv_depth dst I). unfold zlen. cbn [length]. lia. }
    destruct (put_char_ok d1 wl wc cp I1) as (d2 & v & E2 & I2 & A2 & L2 & C2 & Ev & Ab2).
    rewrite E2 in E. cbn [bind] in E. inversion E; subst dst'.
    assert (Ab2' : abs_rb d2 = a_paint (abs_rb d1) (row_rect wl wc 1) (fun _ _ _ => AChar (cur_pen (aux d1)) cp)).
    { rewrite Ab2. unfold a_char. rewrite Hv. cbn [negb]. rewrite Hw. cbn [Z.eqb Pos.eqb]. reflexivity. }
    rewrite (restore_bracket_abs dst p d2 (row_rect wl wc 1) (fun pen _ _ _ => AChar pen cp) I A I2 A2 L2 C2 Ab2').
    apply a_paint_ext. intros y x old. reflexivity.
Qed.

(* ---------------------------------------------------------------------------------- *)
(* partial copies: the cells of the source marked by [proc] have been copied *)

Definition pcopy (G0 : ast) (srcg : agrid) (proc : Z -> Z -> bool) (lo co : Z) (copy_skip : bool) : ast :=
  let a := a_aux G0 in
  set_ag G0
    (mapi (fun y row =>
       mapi (fun x cell =>
         let sy := y - xl a - lo in
         let sx := x - xc a - co in
         if proc sy sx && cell_inb (clip a) (y, x) && (am cell =? -1)
         then mkA (copy_cell (cur_pen a) copy_skip (acell_at srcg sy sx) (ac cell)) (am cell)
         else cell) row) (ag G0)).

Lemma pcopy_shape : forall G0 srcg proc lo co sk,
  zlen (ag (pcopy G0 srcg proc lo co sk)) = zlen (ag G0) /\
  (forall y, 0 <= y < zlen (ag G0) -> zlen (zn (ag (pcopy G0 srcg proc lo co sk)) y []) = zlen (zn (ag G0) y [])) /\
  a_aux (pcopy G0 srcg proc lo co sk) = a_aux G0 /\
  a_lines (pcopy G0 srcg proc lo co sk) = a_lines G0 /\ a_cols (pcopy G0 srcg proc lo co sk) = a_cols G0.
Proof.
  intros. unfold pcopy. cbn [ag set_ag a_aux a_lines a_cols]. split; [now rewrite zlen_mapi|].
  split; [|auto]. intros y Hy. rewrite (zn_mapi _ (ag G0) y [] []) by assumption. now rewrite zlen_mapi.
Qed.

Lemma gcell_pcopy : forall G0 srcg proc lo co sk y x,
  0 <= y < zlen (ag G0) -> 0 <= x < zlen (zn (ag G0) y []) ->
  gcell (ag (pcopy G0 srcg proc lo co sk)) y x =
  (let a := a_aux G0 in
   let cell := gcell (ag G0) y x in
   if proc (y - xl a - lo) (x - xc a - co) && cell_inb (clip a) (y, x) && (am cell =? -1)
   then mkA (copy_cell (cur_pen a) sk (acell_at srcg (y - xl a - lo) (x - xc a - co)) (ac cell)) (am cell)
   else cell).
Proof.
  intros G0 srcg proc lo co sk y x Hy Hx. unfold pcopy, gcell. cbn [ag set_ag].
  rewrite (zn_mapi _ (ag G0) y [] []) by assumption.
  rewrite (zn_mapi _ _ x dacell dacell) by assumption. reflexivity.
Qed.

Lemma ast_ext : forall A B : ast,
  a_lines A = a_lines B -> a_cols A = a_cols B -> a_aux A = a_aux B ->
  zlen (ag A) = zlen (ag B) ->
  (forall y, 0 <= y < zlen (ag A) -> zlen (zn (ag A) y []) = zlen (zn (ag B) y [])) ->
  (forall y x, 0 <= y < zlen (ag A) -> 0 <= x < zlen (zn (ag A) y []) -> gcell (ag A) y x = gcell (ag B) y x) ->
  A = B.
Proof. intros A B H1 H2 H3 H4 H5 H6. apply ast_eq; auto. apply agrid_ext; auto. Qed.

Lemma pcopy_ext : forall G0 srcg p1 p2 lo co sk,
  (forall sy sx, p1 sy sx = p2 sy sx) -> pcopy G0 srcg p1 lo co sk = pcopy G0 srcg p2 lo co sk.
Proof.
  intros G0 srcg p1 p2 lo co sk H.
  destruct (pcopy_shape G0 srcg p1 lo co sk) as (S1 & S2 & S3 & S4 & S5).
  destruct (pcopy_shape G0 srcg p2 lo co sk) as (T1 & T2 & T3 & T4 & T5).
  apply ast_ext; try congruence.
  - intros y Hy. rewrite S1 in Hy. rewrite S2, T2 by assumption. reflexivity.
  - intros y x Hy Hx. rewrite S1 in Hy. rewrite S2 in Hx by assumption.
    rewrite !gcell_pcopy by assumption. cbv zeta. now rewrite H.
Qed.

Lemma pcopy_none : forall G0 srcg lo co sk, pcopy G0 srcg (fun _ _ => false) lo co sk = G0.
Proof.
  intros G0 srcg lo co sk.
  destruct (pcopy_shape G0 srcg (fun _ _ => false) lo co sk) as (S1 & S2 & S3 & S4 & S5).
  apply ast_ext; [assumption|assumption|assumption|assumption| |].
  - intros y Hy. rewrite S1 in Hy. now rewrite S2.
  - intros y x Hy Hx. rewrite S1 in Hy. rewrite S2 in Hx by assumption.
    rewrite gcell_pcopy by assumption. reflexivity.
Qed.

(* painting the destination of a fresh piece Q = (row qy, columns [c1, c1+k)) of the source
   with the source's original content extends the partial copy by Q *)
Lemma pcopy_step : forall G0 srcg proc lo co sk qy c1 k (F : Z -> Z -> cellc -> cellc),
  let a := a_aux G0 in
  (forall x, c1 <= x < c1 + k -> proc qy x = false) ->
  (forall x old, c1 <= x - xc a - co < c1 + k ->
      F (qy + lo + xl a) x old = copy_cell (cur_pen a) sk (acell_at srcg qy (x - xc a - co)) old) ->
  a_paint (pcopy G0 srcg proc lo co sk) (row_rect (qy + lo) (c1 + co) k) F =
  pcopy G0 srcg (fun sy sx => proc sy sx || ((sy =? qy) && (c1 <=? sx) && (sx <? c1 + k))) lo co sk.
Proof.
  intros G0 srcg proc lo co sk qy c1 k F a Hfresh HF.
  set (cur := pcopy G0 srcg proc lo co sk).
  destruct (pcopy_shape G0 srcg proc lo co sk) as (S1 & S2 & S3 & S4 & S5). fold cur in S1, S2, S3, S4, S5.
  destruct (a_paint_shape cur (row_rect (qy + lo) (c1 + co) k) F) as (P1 & P2 & P3 & P4 & P5).
  set (proc' := fun sy sx => proc sy sx || ((sy =? qy) && (c1 <=? sx) && (sx <? c1 + k))).
  destruct (pcopy_shape G0 srcg proc' lo co sk) as (T1 & T2 & T3 & T4 & T5).
  apply ast_ext; try congruence.
  - intros y Hy. rewrite P1, S1 in Hy. rewrite P2, S2, T2 by (try rewrite S1; assumption). reflexivity.
  - intros y x Hy Hx. rewrite P1, S1 in Hy. rewrite P2, S2 in Hx by (try rewrite S1; assumption).
    rewrite gcell_a_paint by (try rewrite S1; try rewrite S2 by assumption; assumption).
    rewrite S3. unfold cur. rewrite !gcell_pcopy by assumption. cbv zeta. fold a.
    set (cell := gcell (ag G0) y x).
    set (sy := y - xl a - lo). set (sx := x - xc a - co).
    (* is (y, x) the destination of a cell of Q? *)
    assert (T : target a (row_rect (qy + lo) (c1 + co) k) y x =
                ((sy =? qy) && (c1 <=? sx) && (sx <? c1 + k)) && cell_inb (clip a) (y, x)).
    { apply bool_eq_iff. rewrite target_iff. unfold row_rect. cbn [top left lines cols].
      rewrite !andb_true_iff, cell_inb_iff, Z.eqb_eq, Z.leb_le, Z.ltb_lt. unfold sy, sx. lia. }
    rewrite T. unfold proc'.
    destruct ((sy =? qy) && (c1 <=? sx) && (sx <? c1 + k)) eqn:EQ; cbn [andb orb].
    + (* a cell of Q: not processed before, so the destination still holds G0's cell *)
      apply andb_true_iff in EQ. destruct EQ as (EQ & Q3). apply andb_true_iff in EQ. destruct EQ as (Q1 & Q2).
      apply Z.eqb_eq in Q1. apply Z.leb_le in Q2. apply Z.ltb_lt in Q3.
      rewrite Q1. rewrite (Hfresh sx ltac:(lia)). cbn [andb orb].
      destruct (cell_inb (clip a) (y, x)); cbn [andb]; [|reflexivity].
      destruct (am cell =? -1) eqn:Em; cbn [am ac]; [|reflexivity].
      f_equal. replace y with (qy + lo + xl a) by (unfold sy in Q1; lia).
      rewrite HF by (unfold sx in *; lia).
      replace (qy + lo + xl a - xl a - lo) with qy by lia. reflexivity.
    + rewrite orb_false_r.
      destruct (proc sy sx && cell_inb (clip a) (y, x) && (am cell =? -1)); reflexivity.
Qed.

(* the whole rectangle processed = the cell-wise copy *)
Lemma pcopy_all : forall dst srcg dtop dleft sr sk,
  0 < lines sr -> 0 < cols sr ->
  a_copy dst srcg dtop dleft sr sk =
  pcopy dst srcg (fun sy sx => cell_inb sr (sy, sx)) (dtop - top sr) (dleft - left sr) sk.
Proof.
  intros dst srcg dtop dleft sr sk HL HC. unfold a_copy, pcopy.
  destruct (Z.leb_spec (lines sr) 0); [lia|]. destruct (Z.leb_spec (cols sr) 0); [lia|]. cbn [orb]. reflexivity.
Qed.

(* ---------------------------------------------------------------------------------- *)
(* frame property of a span write: cells left of the write column keep their kind *)
From Tickit Require Import RBFrame.

Lemma keeps_sizes : forall a b, keeps a b -> rb_lines b = rb_lines a /\ rb_cols b = rb_cols a.
Proof. intros a b (_ & _ & L & C). auto. Qed.

Lemma bracket_left : forall s p wl wc (op : rb -> res rb) s',
  Inv s ->
  (forall d, Inv d -> exists d', op d = Ok d' /\ keeps d d') ->
  (forall d d', Inv d -> aux d = ax_setpen (ax_savepen (aux s)) (Some p) -> op d = Ok d' -> buf_left_kept wl wc d d') ->
  (do d2 <- op (set_aux s (ax_setpen (ax_savepen (aux s)) (Some p))); Ok (restore d2)) = Ok s' ->
  buf_left_kept wl wc s s'.
Proof.
  intros s p wl wc op s' I Hop Hleft E.
  set (d1 := set_aux s (ax_setpen (ax_savepen (aux s)) (Some p))) in *.
  assert (I1 : Inv d1).
  { unfold d1. apply set_aux_inv; auto; cbn [ax_setpen ax_savepen ax_set_pen ax_set_stack clip stack depth].
    - apply (inv_clip s I).
    - constructor; [left; reflexivity|apply (inv_stack s I)].
    - rewrite (inv_depth s I). unfold zlen. cbn [length]. lia. }
  destruct (Hop d1 I1) as (d2 & E2 & K2). rewrite E2 in E. cbn [bind] in E. inversion E; subst s'.
  destruct K2 as (I2 & A2 & L2 & C2).
  apply buf_left_kept_trans with (b := d1); [reflexivity|reflexivity|apply set_aux_left|].
  apply buf_left_kept_trans with (b := d2); [assumption|assumption|apply Hleft; auto|].
  apply restore_left; assumption.
Qed.

Lemma span_write_left : forall dst c wl wc cols0 k0 sk dst',
  Inv dst -> xl (aux dst) = 0 -> xc (aux dst) = 0 ->
  span_write dst c wl wc cols0 k0 sk = Ok dst' -> buf_left_kept wl wc dst dst'.
Proof.
  intros dst c wl wc cols0 k0 sk dst' I Hxl Hxc E. unfold span_write in E.
  assert (Hw : wl = wl + xl (aux dst)) by lia.
  destruct c as [|p t offs|p|p m|p cp].
  - destruct sk; [|inversion E; subst; apply buf_left_kept_refl].
    rewrite Hw. apply (run_op_left dst wl wc cols0 (fun _ => CSkip) (fun _ => 0) dst' I); auto.
    + apply shift_inv_const. exact Logic.I. + intros k. reflexivity.
  - apply (bracket_left dst p wl wc (fun d => put_substr d wl wc t (offs + k0) cols0) dst' I); auto.
    + intros d Hd. apply put_substr_keeps; assumption.
    + intros d d' Hd Ha Eo.
      assert (Hxl' : xl (aux d) = 0) by (rewrite Ha; exact Hxl).
      assert (Hxc' : xc (aux d) = 0) by (rewrite Ha; exact Hxc).
      replace wl with (wl + xl (aux d)) at 1 by lia.
      apply (run_op_left d wl wc cols0 (fun k => CText (cur_pen (aux d)) t k) (fun sc => sc + (offs + k0)) d' Hd); auto.
      * apply shift_inv_text. * intros k. reflexivity.
  - apply (bracket_left dst p wl wc (fun d => erase d wl wc cols0) dst' I); auto.
    + intros d Hd. apply erase_keeps; assumption.
    + intros d d' Hd Ha Eo.
      assert (Hxl' : xl (aux d) = 0) by (rewrite Ha; exact Hxl).
      assert (Hxc' : xc (aux d) = 0) by (rewrite Ha; exact Hxc).
      replace wl with (wl + xl (aux d)) at 1 by lia.
      apply (run_op_left d wl wc cols0 (fun _ => CErase (cur_pen (aux d))) (fun _ => 0) d' Hd); auto.
      * apply shift_inv_const. exact Logic.I. * intros k. reflexivity.
  - apply (bracket_left dst p wl wc (fun d => linecell d wl wc m) dst' I); auto.
    + intros d Hd. apply linecell_keeps; assumption.
    + intros d d' Hd Ha Eo.
      assert (Hxl' : xl (aux d) = 0) by (rewrite Ha; exact Hxl).
      assert (Hxc' : xc (aux d) = 0) by (rewrite Ha; exact Hxc).
      replace wl with (wl + xl (aux d)) at 1 by lia.
      eapply linecell_left; eauto.
  - apply (bracket_left dst p wl wc (fun d => do2 (d0, _) <- put_char d wl wc cp; Ok d0) dst' I); auto.
    + intros d Hd. apply put_char_keeps; assumption.
    + intros d d' Hd Ha Eo.
      assert (Hxl' : xl (aux d) = 0) by (rewrite Ha; exact Hxl).
      assert (Hxc' : xc (aux d) = 0) by (rewrite Ha; exact Hxc).
      replace wl with (wl + xl (aux d)) at 1 by lia.
      destruct (put_char d wl wc cp) as [[d0 v]| |] eqn:Ep; cbn [bind] in Eo; try discriminate.
      inversion Eo; subst d'. eapply put_char_left; eauto.
Qed.

(* ---------------------------------------------------------------------------------- *)
(* reading one span portion: what copy_span finds and what it then does *)

Lemma acell_at_gcell : forall g y x, 0 <= y -> 0 <= x -> acell_at g y x = ac (gcell g y x).
Proof.
  intros g y x Hy Hx. unfold acell_at, gcell, nthz, zn.
  destruct (Z.ltb_spec y 0); [lia|]. destruct (Z.ltb_spec x 0); [lia|]. reflexivity.
Qed.

Lemma copy_span_read : forall (samerb : bool) (src dst : rb) line col sr lo co (lw sk : bool),
  Inv dst -> Inv src ->
  let srcb := if samerb then dst else src in
  0 <= line < rb_lines srcb -> 0 <= left sr -> left sr <= col < right sr -> right sr <= rb_cols srcb ->
  let srow := row_at srcb line in
  exists c n sc col1,
    0 <= sc <= col1 /\ col1 <= col /\ left sr <= col1 /\ ck (get srow sc) = Start c n /\ col < sc + n /\
    (lw = false -> col1 = col) /\ (lw = true -> col1 = Z.max sc (left sr)) /\
    sc + n <= rb_cols srcb /\ (single_cell c = true -> n = 1) /\
    (forall x, sc <= x < sc + n -> abs_cell srow x = content_at c (x - sc)) /\
    let spancols := n - (col1 - sc) in
    let cols0 := if col1 + spancols >? left sr + cols sr then left sr + cols sr - col1 else spancols in
    copy_span samerb src dst line col sr lo co lw sk =
      (do dst' <- span_write dst c (line + lo) (col1 + co) cols0 (col1 - sc) sk;
       Ok (dst', if lw then col1 - 1 else col1 + spancols)).
Proof.
  intros samerb src dst line col sr lo co lw sk Id Is srcb Hl Hleft Hc Hr srow.
  assert (Ib : Inv srcb) by (unfold srcb; destruct samerb; assumption).
  assert (Hy : 0 <= line < rb_lines srcb) by assumption.
  destruct (inv_rows srcb Ib line Hy) as (RL & RW & RM). fold (row_at srcb line) in RL, RW, RM. fold srow in RL, RW, RM.
  unfold right in *.
  assert (Habs : forall sc c n, 0 <= sc < len srow -> ck (get srow sc) = Start c n ->
                 forall x, sc <= x < sc + n -> abs_cell srow x = content_at c (x - sc)).
  { intros sc c n Hsc Es x Hx. assert (Ws := RW sc Hsc). unfold wf_cellf in Ws. rewrite Es in Ws.
    destruct Ws as (K1 & K2 & K3 & K4). unfold abs_cell.
    destruct (Z.eq_dec x sc) as [->|Hne]; [rewrite Es, Z.sub_diag; reflexivity|].
    rewrite (K4 x ltac:(lia)). rewrite Es. reflexivity. }
  unfold copy_span. fold srcb. unfold row_of.
  rewrite <- (inv_lines srcb Ib) in Hl. unfold zlen in Hl.
  destruct (Z.leb_spec 0 line); [|lia]. destruct (Z.ltb_spec line (Z.of_nat (length (cells srcb)))); [|lia].
  cbn [andb bind].
  change (nth (Z.to_nat line) (cells srcb) []) with (row_at srcb line). fold srow.
  rewrite getr_ok by lia. cbn [bind].
  destruct (ck (get srow col)) as [c n|sc] eqn:Ec.
  - exists c, n, col, col. assert (W := RW col ltac:(lia)). unfold wf_cellf in W. rewrite Ec in W.
    destruct W as (K1 & K2 & K3 & K4).
    rewrite Z.sub_diag. cbn [bind fst snd]. rewrite Ec.
    split; [lia|]. split; [lia|]. split; [lia|]. split; [first [exact Ec|reflexivity]|]. split; [lia|].
    split; [reflexivity|]. split; [intros _; lia|]. split; [lia|]. split; [exact K3|].
    split; [apply Habs; [lia|exact Ec]|].
    cbv zeta. rewrite Z.sub_0_r. destruct c; reflexivity.
  - assert (W := RW col ltac:(lia)). unfold wf_cellf in W. rewrite Ec in W. destruct W as (K1 & c & n & Hs & K2).
    rewrite getr_ok by lia. cbn [bind].
    assert (Ws := RW sc ltac:(lia)). unfold wf_cellf in Ws. rewrite Hs in Ws. destruct Ws as (N1 & N2 & N3 & N4).
    set (col1 := if lw then (if sc <? left sr then left sr else sc) else col).
    exists c, n, sc, col1.
    assert (B1 : sc <= col1 /\ col1 <= col /\ left sr <= col1).
    { unfold col1. destruct lw; [destruct (Z.ltb_spec sc (left sr))|]; lia. }
    cbn [fst snd]. rewrite Hs.
    split; [lia|]. split; [lia|]. split; [lia|]. split; [first [exact Hs|reflexivity]|]. split; [lia|].
    split; [intros ->; reflexivity|]. split; [intros ->; unfold col1; destruct (Z.ltb_spec sc (left sr)); lia|].
    split; [lia|]. split; [exact N3|]. split; [apply Habs; [lia|exact Hs]|].
    cbv zeta. fold col1. destruct c; reflexivity.
Qed.

(* ---------------------------------------------------------------------------------- *)
(* the loops *)

Section Loop.
  Variables (samerb : bool) (src : rb) (G0 : ast) (srcg : agrid) (sr : rect) (lo co : Z) (sk : bool).
  Hypothesis HG0 : ainv G0.
  Hypothesis Hxl : xl (a_aux G0) = 0.
  Hypothesis Hxc : xc (a_aux G0) = 0.
  Hypothesis Isrc : Inv src.
  Hypothesis Hsr : 0 <= top sr /\ 0 <= left sr /\ 0 <= cols sr.
  (* the rectangle lies inside the buffer that is read *)
  Hypothesis Hsame : samerb = true -> srcg = ag G0 /\ top sr + lines sr <= a_lines G0 /\ right sr <= a_cols G0.
  Hypothesis Hblit : samerb = false -> srcg = ag (abs_rb src) /\ top sr + lines sr <= rb_lines src /\ right sr <= rb_cols src.
  (* Char cells of the source hold width-one code points *)
  Hypothesis Hchar : forall y x p cp, top sr <= y < top sr + lines sr -> left sr <= x < right sr ->
    acell_at srcg y x = AChar p cp -> text_valid [cp] = true /\ cpw cp = 1.

  Definition in_cols (sx : Z) : bool := (left sr <=? sx) && (sx <? right sr).
  Definition procr (pl : Z -> bool) (line : Z) (lw : bool) (col : Z) (sy sx : Z) : bool :=
    in_cols sx && (pl sy || ((sy =? line) && (if lw then col <? sx else sx <? col))).

  Definition cur_is (dst : rb) (proc : Z -> Z -> bool) : Prop :=
    Inv dst /\ abs_rb dst = pcopy G0 srcg proc lo co sk.

  Lemma cur_facts : forall dst proc, cur_is dst proc ->
    aux dst = a_aux G0 /\ rb_lines dst = a_lines G0 /\ rb_cols dst = a_cols G0 /\ ainv (abs_rb dst).
  Proof.
    intros dst proc (I & Ab).
    destruct (pcopy_shape G0 srcg proc lo co sk) as (S1 & S2 & S3 & S4 & S5).
    assert (A1 : aux dst = a_aux G0) by (change (a_aux (abs_rb dst) = a_aux G0); rewrite Ab; exact S3).
    assert (A2 : rb_lines dst = a_lines G0) by (change (a_lines (abs_rb dst) = a_lines G0); rewrite Ab; exact S4).
    assert (A3 : rb_cols dst = a_cols G0) by (change (a_cols (abs_rb dst) = a_cols G0); rewrite Ab; exact S5).
    split; [assumption|]. split; [assumption|]. split; [assumption|].
    rewrite Ab. destruct HG0 as (Hs & Hd & Hm). destruct Hs as (H1 & H2).
    split; [|split].
    - split; [rewrite S1, S4; exact H1|]. intros y Hy. rewrite S4 in Hy. rewrite S2, S5 by lia. apply H2; assumption.
    - rewrite S3. exact Hd.
    - intros y x (Hy & Hx). rewrite S4 in Hy. rewrite S5 in Hx. rewrite S3.
      rewrite gcell_pcopy by (try rewrite H2 by assumption; lia). cbv zeta.
      specialize (Hm y x (conj Hy Hx)).
      destruct (_ && _); cbn [am]; exact Hm.
  Qed.

  (* the source cell (line, x), as the loop reads it now, still holds srcg's content *)
  Lemma source_unmodified : forall dst pl line lw col x,
    cur_is dst (procr pl line lw col) ->
    top sr <= line < top sr + lines sr -> left sr <= x < right sr ->
    (samerb = true -> pl (line - lo) = false /\ (lo = 0 -> if lw then 0 < co /\ x <= col else co < 0 /\ col <= x)) ->
    ac (gcell (ag (abs_rb (if samerb then dst else src))) line x) = acell_at srcg line x.
  Proof.
    intros dst pl line lw col x Hcur Hl Hx Hord.
    destruct Hsr as (T0 & L0 & C0).
    destruct samerb eqn:Esb.
    - destruct (Hsame eq_refl) as (Eg & B1 & B2). destruct (Hord eq_refl) as (O1 & O2).
      destruct Hcur as (I & Ab). rewrite Ab.
      destruct HG0 as ((H1 & H2) & _).
      rewrite gcell_pcopy by (try rewrite H2 by lia; lia). cbv zeta.
      rewrite Hxl, Hxc. rewrite !Z.sub_0_r.
      assert (P : procr pl line lw col (line - lo) (x - co) = false).
      { unfold procr. rewrite O1. cbn [orb].
        destruct (Z.eqb_spec (line - lo) line) as [E|]; cbn [andb]; [|apply andb_false_r].
        assert (lo = 0) by lia. specialize (O2 H).
        destruct lw.
        - destruct (Z.ltb_spec col (x - co)); [lia|apply andb_false_r].
        - destruct (Z.ltb_spec (x - co) col); [lia|apply andb_false_r]. }
      rewrite P. cbn [andb]. rewrite Eg. symmetry. apply acell_at_gcell; lia.
    - destruct (Hblit eq_refl) as (Eg & B1 & B2). rewrite Eg. symmetry. apply acell_at_gcell; lia.
  Qed.

  (* one step of the column loop *)
  Lemma copy_span_refines : forall dst pl line lw col,
    cur_is dst (procr pl line lw col) ->
    top sr <= line < top sr + lines sr -> left sr <= col < right sr ->
    pl line = false ->
    (samerb = true -> pl (line - lo) = false /\ (lo = 0 -> if lw then 0 < co else co < 0)) ->
    (lw = true -> samerb = true /\ lo = 0) ->
    (lw = true -> col + 1 = right sr \/ is_start (row_at dst line) (col + 1) = true) ->
    exists dst' col', copy_span samerb src dst line col sr lo co lw sk = Ok (dst', col') /\
      cur_is dst' (procr pl line lw col') /\
      (if lw then left sr - 1 <= col' < col else col < col') /\
      (lw = true -> left sr <= col' -> is_start (row_at dst' line) (col' + 1) = true).
  Proof.
    intros dst pl line lw col Hcur Hl Hc Hpl Hord Hlw Hstruct.
    destruct (cur_facts dst _ Hcur) as (A1 & A2 & A3 & A4).
    destruct Hcur as (I & Ab). destruct Hsr as (T0 & L0 & C0).
    set (srcb := if samerb then dst else src).
    assert (Ib : Inv srcb) by (unfold srcb; destruct samerb; assumption).
    assert (Hrange : 0 <= line < rb_lines srcb /\ right sr <= rb_cols srcb).
    { unfold srcb. destruct samerb.
      - destruct (Hsame eq_refl) as (_ & B1 & B2). rewrite A2, A3. lia.
      - destruct (Hblit eq_refl) as (_ & B1 & B2). lia. }
    destruct Hrange as (R1 & R2).
    destruct (copy_span_read samerb src dst line col sr lo co lw sk I Isrc R1 L0 Hc R2)
      as (c & n & sc & col1 & G1 & G2 & G3 & Es & G4 & G5 & G6 & G7 & G8 & Gabs & E).
    fold srcb in Es, Gabs. cbv zeta in E.
    set (srow := row_at srcb line) in *.
    set (spancols := n - (col1 - sc)) in *.
    set (cols0 := if col1 + spancols >? left sr + cols sr then left sr + cols sr - col1 else spancols) in *.
    (* the portion Q = [col1, col1 + cols0) *)
    assert (Q0 : 1 <= cols0 /\ col1 + cols0 <= right sr /\ col1 + cols0 <= sc + n).
    { unfold cols0, spancols, right in *. destruct (Z.gtb_spec (col1 + (n - (col1 - sc))) (left sr + cols sr)); lia. }
    assert (Qend : if lw then col1 + cols0 = col + 1 else col1 = col /\ col1 + cols0 = Z.min (sc + n) (right sr)).
    { destruct lw.
      - destruct (Hstruct eq_refl) as [Hr|Hst].
        + unfold cols0, spancols, right in *. destruct (Z.gtb_spec (col1 + (n - (col1 - sc))) (left sr + cols sr)); lia.
        + (* the cell after col is a start: the span of col ends there *)
          destruct (Hlw eq_refl) as (Esb & _).
          assert (Esd : srcb = dst) by (unfold srcb; rewrite Esb; reflexivity).
          rewrite <- Esd in Hst. fold srow in Hst.
          assert (sc + n <= col + 1).
          { destruct (Z_lt_le_dec (col + 1) (sc + n)) as [Hlt|]; [|lia]. exfalso.
            destruct (inv_rows srcb Ib line R1) as (RL & RW & RM).
            fold (row_at srcb line) in RL, RW. fold srow in RL, RW.
            assert (Ws := RW sc ltac:(lia)). unfold wf_cellf in Ws. rewrite Es in Ws.
            destruct Ws as (_ & _ & _ & K4). specialize (K4 (col + 1) ltac:(lia)).
            unfold is_start in Hst. rewrite K4 in Hst. discriminate. }
          unfold cols0, spancols, right in *. destruct (Z.gtb_spec (col1 + (n - (col1 - sc))) (left sr + cols sr)); lia.
      - specialize (G5 eq_refl). split; [assumption|].
        unfold cols0, spancols, right in *. destruct (Z.gtb_spec (col1 + (n - (col1 - sc))) (left sr + cols sr)); lia. }
    (* the source cells of Q are srcg's *)
    assert (Qsrc : forall x, col1 <= x < col1 + cols0 -> content_at c (x - sc) = acell_at srcg line x).
    { intros x Hx. rewrite <- (Gabs x ltac:(lia)).
      assert (Hxr : left sr <= x < right sr) by lia.
      rewrite <- (source_unmodified dst pl line lw col x (conj I Ab) Hl Hxr).
      - unfold srow, row_at. fold srcb.
        assert (Hy' : 0 <= line < zlen (cells srcb)) by (rewrite (inv_lines srcb Ib); assumption).
        unfold gcell. rewrite ag_abs_row by assumption.
        destruct (inv_rows srcb Ib line R1) as (RL & _).
        rewrite zn_abs_row by (rewrite RL; unfold right in *; lia). reflexivity.
      - intros Esb. destruct (Hord Esb) as (O1 & O2). split; [assumption|]. intros Hlo. specialize (O2 Hlo).
        destruct lw; [split; [assumption|lia]|split; [assumption|]]. destruct Qend; lia. }
    (* the write *)
    destruct (span_write_abs dst c (line + lo) (col1 + co) cols0 (col1 - sc) sk I A4) as (dst' & Ew & K & Abw).
    { intros Hs. specialize (G8 Hs). unfold cols0, spancols, right in *.
      destruct (Z.gtb_spec (col1 + (n - (col1 - sc))) (left sr + cols sr)); lia. }
    { intros p cp Ec. subst c. apply (Hchar line col1 p cp Hl ltac:(lia)).
      rewrite <- (Qsrc col1 ltac:(lia)). reflexivity. }
    rewrite Ew in E. cbn [bind] in E.
    exists dst', (if lw then col1 - 1 else col1 + spancols).
    split; [exact E|].
    assert (Hcur' : cur_is dst' (procr pl line lw (if lw then col1 - 1 else col1 + spancols))).
    { split; [apply K|]. rewrite Abw, Ab.
      rewrite A1, Hxc.
      rewrite (pcopy_step G0 srcg (procr pl line lw col) lo co sk line col1 cols0).
      - apply pcopy_ext. intros sy sx. unfold procr, in_cols.
        destruct (Z.leb_spec (left sr) sx); destruct (Z.ltb_spec sx (right sr)); cbn [andb];
          try (destruct (Z.eqb_spec sy line); destruct (Z.leb_spec col1 sx); destruct (Z.ltb_spec sx (col1 + cols0)); cbn [andb orb]; try reflexivity; lia).
        destruct (pl sy) eqn:Epl; cbn [orb]; [reflexivity|].
        destruct (Z.eqb_spec sy line) as [->|]; cbn [andb]; [|reflexivity].
        destruct lw.
        + destruct (Z.ltb_spec col sx); destruct (Z.ltb_spec (col1 - 1) sx);
            destruct (Z.leb_spec col1 sx); destruct (Z.ltb_spec sx (col1 + cols0)); cbn [andb orb]; try reflexivity; lia.
        + destruct Qend as (Q1 & Q2).
          destruct (Z.ltb_spec sx col); destruct (Z.ltb_spec sx (col1 + spancols));
            destruct (Z.leb_spec col1 sx); destruct (Z.ltb_spec sx (col1 + cols0)); cbn [andb orb]; try reflexivity;
            unfold spancols in *; lia.
      - (* fresh *)
        intros x Hx. unfold procr. rewrite Hpl. cbn [orb]. rewrite Z.eqb_refl. cbn [andb].
        destruct lw.
        + destruct (Z.ltb_spec col x); [lia|apply andb_false_r].
        + destruct Qend as (Q1 & _). destruct (Z.ltb_spec x col); [lia|apply andb_false_r].
      - (* the painted content is the source's *)
        intros x old Hx. rewrite Hxc in *. rewrite Z.sub_0_r in Hx.
        rewrite <- (Qsrc (x - 0 - co) ltac:(lia)). f_equal. f_equal. lia. }
    split; [exact Hcur'|]. split.
    - destruct lw; [lia|]. unfold spancols. lia.
    - (* the next entry column is still a span boundary *)
      intros Elw Hge. subst lw. destruct (Hlw eq_refl) as (Esb & Elo).
      specialize (G6 eq_refl).
      assert (Ec1 : col1 = sc) by lia. clear G6. subst col1.
      replace (sc - 1 + 1) with sc by lia.
      assert (Esd : srcb = dst) by (unfold srcb; rewrite Esb; reflexivity).
      assert (Hst : is_start (row_at dst line) sc = true).
      { rewrite <- Esd. fold srow. unfold is_start. now rewrite Es. }
      assert (Hxl' : xl (aux dst) = 0) by (rewrite A1; exact Hxl).
      assert (Hxc' : xc (aux dst) = 0) by (rewrite A1; exact Hxc).
      assert (F := span_write_left dst c (line + lo) (sc + co) cols0 (sc - sc) sk dst' I Hxl' Hxc' Ew).
      assert (Hline : 0 <= line < rb_lines dst) by (rewrite A2; destruct (Hsame Esb) as (_ & B1 & _); lia).
      specialize (F line Hline). rewrite Elo, Z.add_0_r, Z.eqb_refl in F.
      destruct F as (FL & FK). rewrite FK; [exact Hst| |].
      + destruct (Hord Esb) as (_ & O2). specialize (O2 Elo). lia.
      + destruct (inv_rows dst I line Hline) as (RL & _). fold (row_at dst line) in RL. rewrite RL.
        destruct (Hsame Esb) as (_ & _ & B2). rewrite A3. unfold right in *. lia.
  Qed.
End Loop.
