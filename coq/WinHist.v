(* WinHist.v -- the history alphabet of the window-layer properties and its interpreter
   over the model of WinDefs.v.  One [op] is one step of the harness; the steps that the
   property's proviso puts on the APPLICATION (exposing the old and new area after a
   geometry change, shifting its content after a scroll, moving the children after
   scroll_with_children) are part of the step, exactly as the harness performs them. *)
From Coq Require Import ZArith List Bool.
From Tickit Require Import RectDefs WinRectSet WinDefs.
Import ListNotations.
Local Open Scope Z_scope.

Inductive op :=
| ONew (id pid : Z) (r : rect) (hidden lowest rootparent steal : bool)
| OClose (id : Z)
| OShow (id : Z)
| OHide (id : Z)
| ORestack (k : hchange) (id : Z)
| OGeom (id : Z) (r : rect) (exposes : bool)
| OMove (id : Z) (t l : Z) (exposes : bool)
| OResize (id : Z) (nl nc : Z) (exposes : bool)
| OExpose (id : Z) (r : option rect)
| OFlush
| OScroll (id : Z) (down rightw : Z)
| OScrollRect (id : Z) (r : rect) (down rightw : Z)
| OScrollKids (id : Z) (down rightw : Z)
| OTermResize (nl nc : Z)
| OFocus (id : Z)
| OCurPos (id : Z) (l c : Z)
| OCurVis (id : Z) (b : bool)
| OCurShape (id : Z) (s : Z)
| OCurBlink (id : Z) (b : bool)
| ONotify (id : Z) (b : bool)
| OSteal (id : Z) (b : bool).

Definition appfn := Z -> Z -> Z -> Z.

(* what window [id] paints at its own (l, c) before any scrolling: a printable character
   between '0' and 'z' that depends on all three, non-linearly, so that
   two windows (or a window and its shifted self) rarely agree on a cell *)
Definition app_mix (id l c : Z) : Z :=
  id * id * 7 + id * 29 + l * l * 11 + l * 13 + c * c * 3 + c * 17 + l * c * 5 + id * l * 3 + id * c.
Definition app_base : appfn := fun id l c => 48 + (app_mix id l c) mod 75.
Definition app_fresh (gen : Z) : appfn := fun id l c => 48 + (gen * gen * 19 + gen * 41 + 13 + app_mix id l c) mod 75.

(* the application's half of the scrolling contract: inside the scrolled rectangle the
   content moves by (down, right); what scrolls in is new *)
Definition app_scroll (app : appfn) (gen : Z) (id : Z) (rc : rect) (down rightw : Z) : appfn :=
  fun id' l c =>
    if (id' =? id) && cell_inb rc (l, c) then
      (if cell_inb rc (l + down, c + rightw) then app id (l + down) (c + rightw) else app_fresh gen id l c)
    else app id' l c.

Record mstate := mkM {
  m_root : root;
  m_term : term;
  m_app : appfn;
  m_gen : Z;
  m_xlog : list (Z * rect);       (* expose events of the last flush *)
  m_fevs : list fev;              (* focus events of the last take_focus *)
  m_srecs : list (Z * rect * Z * Z * Z) }.   (* scrolls so far, latest first: id, rectangle, down, right, generation *)

Definition m_init (nl nc : Z) (orc : nat -> Z -> Z -> rect -> Z -> Z -> bool) : mstate :=
  (* tickit_window_new_root exposes the whole root *)
  mkM (win_expose (root_new nl nc) 0 None) (term_new nl nc orc) app_base 0 [] [] [].

(* the same with another amount of fuel for the rectangle-set loops *)
Definition m_init_f (fuel : nat) (nl nc : Z) (orc : nat -> Z -> Z -> rect -> Z -> Z -> bool) : mstate :=
  mkM (win_expose (root_new_f fuel nl nc) 0 None) (term_new nl nc orc) app_base 0 [] [] [].

Definition m_set_root (m : mstate) (st : root) : mstate :=
  mkM st (m_term m) (m_app m) (m_gen m) (m_xlog m) (m_fevs m) (m_srecs m).

(* bookkeeping after a scroll: the application's content moves inside [rc] *)
Definition m_scrolled (m : mstate) (st : root) (tm : term) (id : Z) (rc : option rect) (d r : Z) : mstate :=
  let g := m_gen m + 1 in
  match rc with
  | Some k => mkM st tm (app_scroll (m_app m) g id k d r) g (m_xlog m) (m_fevs m) ((id, k, d, r, g) :: m_srecs m)
  | None => mkM st tm (m_app m) g (m_xlog m) (m_fevs m) (m_srecs m)
  end.

Definition win_rect (st : root) (id : Z) : option rect :=
  match t_find id (r_tree st) with Some w => Some (w_rect (t_info w)) | None => None end.

(* expose the old and the new area in the parent, as the proviso of C01 asks *)
Definition geom_exposes (st0 st : root) (id : Z) (exposes : bool) : root :=
  if negb exposes then st else
  match t_parent_id id (r_tree st0), win_rect st0 id, win_rect st id with
  | Some pid, Some old, Some new => win_expose (win_expose st pid (Some old)) pid (Some new)
  | _, _, _ => st
  end.

Definition step (cfg : defects) (progs : Z -> list dop) (o : op) (m : mstate) : mstate :=
  let st := m_root m in
  match o with
  | ONew id pid r hidden lowest rootparent steal =>
    m_set_root m (win_new st id pid r hidden lowest rootparent steal)
  | OClose id => m_set_root m (win_close cfg st id)
  | OShow id => m_set_root m (win_show cfg st id)
  | OHide id => m_set_root m (win_hide cfg st id)
  | ORestack k id => m_set_root m (win_restack st k id)
  | OGeom id r ex => m_set_root m (geom_exposes st (win_set_geometry st id r) id ex)
  | OMove id t l ex => m_set_root m (geom_exposes st (win_reposition st id t l) id ex)
  | OResize id nl nc ex => m_set_root m (geom_exposes st (win_resize st id nl nc) id ex)
  | OExpose id r => m_set_root m (win_expose st id r)
  | OFlush =>
    let '(st', tm', lg) := win_flush cfg (prog_handler (m_app m) progs) st (m_term m) in
    mkM st' tm' (m_app m) (m_gen m) lg (m_fevs m) (m_srecs m)
  | OScroll id d r =>
    let '(st', tm', _) := win_scroll cfg st (m_term m) id None d r true in
    let srec := match win_rect st id with
               | Some rc => Some (mkRect 0 0 (lines rc) (cols rc))
               | None => None
               end in
    m_scrolled m st' tm' id srec d r
  | OScrollRect id rc d r =>
    let '(st', tm', _) := win_scroll cfg st (m_term m) id (Some rc) d r true in
    let srec := match win_rect st id with
               | Some wr => r_intersect (mkRect 0 0 (lines wr) (cols wr)) rc
               | None => None
               end in
    m_scrolled m st' tm' id srec d r
  | OScrollKids id d r =>
    let '(st', tm', _) := win_scroll cfg st (m_term m) id None d r false in
    let srec := match win_rect st id with
               | Some rc => Some (mkRect 0 0 (lines rc) (cols rc))
               | None => None
               end in
    (* the application moves the children along, without exposing anything *)
    let st'' :=
      match t_find id (r_tree st') with
      | Some w =>
        fold_left (fun s c => let cr := w_rect (t_info c) in
                              win_set_geometry s (t_id c) (mkRect (top cr - d) (left cr - r) (lines cr) (cols cr)))
                  (t_kids w) st'
      | None => st'
      end in
    m_scrolled m st'' tm' id srec d r
  | OTermResize nl nc =>
    let '(st', tm') := win_term_resize st (m_term m) nl nc in
    mkM st' tm' (m_app m) (m_gen m) (m_xlog m) (m_fevs m) (m_srecs m)
  | OFocus id =>
    let '(st', ev) := win_take_focus cfg st id in
    mkM st' (m_term m) (m_app m) (m_gen m) (m_xlog m) ev (m_srecs m)
  | OCurPos id l c => m_set_root m (win_setctl st id (fun j => set_cpos j l c) true)
  | OCurVis id b => m_set_root m (win_setctl st id (fun j => set_cvis j b) true)
  | OCurShape id s => m_set_root m (win_setctl st id (fun j => set_cshape j s) true)
  | OCurBlink id b => m_set_root m (win_setctl st id (fun j => set_cblink j (if b then 1 else 0)) true)
  | ONotify id b => m_set_root m (win_setctl st id (fun j => set_notify j b) false)
  | OSteal id b => m_set_root m (win_setctl st id (fun j => set_steal j b) false)
  end.

Definition run (cfg : defects) (progs : Z -> list dop) (ops : list op) (m : mstate) : mstate :=
  fold_left (fun m o => step cfg progs o m) ops m.
