(* TermPenSpec.v -- C10: the abstract meaning of set-pen / change-pen (the logical pen), its
   projection onto a terminal's rendition (palette approximation, RGB by capability), and
   the boolean checkers the oracle runs on the implementation's bytes / pens. *)
From Coq Require Import ZArith List Bool Lia.
From Tickit Require Import Csi VT TermPenDefs Gen_SgrOnOff.
Import ListNotations.
Local Open Scope Z_scope.

(* ---- the logical pen: what the application has asked for so far *)
Definition default_val (a : attr) : aval :=
  match attr_type a with
  | TyBool => VBool false
  | TyInt => VInt 0
  | TyColour => VCol COLOUR_DEFAULT None
  end.
(* set-pen: exactly the given pen, everything else default *)
Definition logical_set (l p : pen) : pen :=
  fun a => Some (match p a with Some v => v | None => default_val a end).
(* change-pen: overlays only the attributes present *)
Definition logical_ch (l p : pen) : pen :=
  fun a => match p a with Some v => Some v | None => l a end.

(* ---- what the terminal can show *)
(* colours beyond the palette are replaced by their approximation; the RGB secondary goes
   with the original index *)
Definition conv_val (colors : Z) (v : aval) : aval :=
  match v with
  | VCol i sec =>
      if colors <=? i then match convert_colour i colors with Some j => VCol j None | None => v end
      else v
  | _ => v
  end.
Definition cache_of (colors : Z) (l : pen) : pen := fun a => option_map (conv_val colors) (l a).

Inductive vval := XCol (c : colour) | XBool (b : bool) | XInt (n : Z).
Definition vval_eqb (x y : vval) : bool :=
  match x, y with
  | XCol c, XCol d => colour_eqb c d
  | XBool b, XBool c => Bool.eqb b c
  | XInt n, XInt m => n =? m
  | _, _ => false
  end.
Definition vt_attr (s : attrs) (a : attr) : vval :=
  match a with
  | AFg => XCol (a_fg s) | ABg => XCol (a_bg s)
  | ABold => XBool (a_bold s) | AUnder => XInt (a_under s) | AItalic => XBool (a_italic s)
  | AReverse => XBool (a_reverse s) | AStrike => XBool (a_strike s) | AAltfont => XInt (a_font s)
  | ABlink => XBool (a_blink s) | ASizepos => XInt (a_sizepos s)
  end.

(* the rendition a (converted) attribute value stands for.  Underline styles other than
   single and double need colon sub-parameters; without them they are approximated by a
   single underline.  Alternate fonts are 1..9 (0 / -1 = primary).  *)
Definition enc (colon rgb8 : bool) (a : attr) (v : aval) : vval :=
  match a, v with
  | (AFg | ABg), VCol i sec =>
      if i <? 0 then XCol CDefault
      else match sec with
           | Some c => if rgb8 then XCol (CRgb (rgb_r c) (rgb_g c) (rgb_b c)) else XCol (CIdx i)
           | None => XCol (CIdx i)
           end
  | AUnder, VInt n => XInt (if colon then n else if (n =? 0) || (n =? 1) || (n =? 2) then n else 1)
  | AAltfont, VInt n => XInt (if (n <? 0) || (10 <=? n) then 0 else n)
  | ASizepos, VInt n => XInt (if n =? 2 then 1 else if n =? 3 then 2 else 0)
  | _, VBool b => XBool b
  | _, _ => vt_attr default_attrs a
  end.

(* the terminal's rendition equals the pen: attributes never set are at their default *)
Definition attr_matchesb (colon rgb8 : bool) (p : pen) (s : attrs) (a : attr) : bool :=
  vval_eqb (vt_attr s a)
           (match p a with Some v => enc colon rgb8 a v | None => vt_attr default_attrs a end).
Definition sgr_matchesb (colon rgb8 : bool) (p : pen) (s : attrs) : bool :=
  forallb (attr_matchesb colon rgb8 p s) all_attrs && negb (a_faint s).
Definition sgr_matches (colon rgb8 : bool) (p : pen) (s : attrs) : Prop :=
  (forall a, vt_attr s a = match p a with Some v => enc colon rgb8 a v | None => vt_attr default_attrs a end)
  /\ a_faint s = false.

(* the invariant of the pen path: the cached pen is the (palette-converted) logical pen and
   the terminal's rendition is what the cached pen stands for *)
Definition PenInv (colors : Z) (colon rgb8 : bool) (l tp : pen) (v : vt) : Prop :=
  pen_in_range l /\ (forall a, tp a = cache_of colors l a) /\ sgr_matches colon rgb8 tp (v_sgr v).

(* histories of pen requests: (is_set, pen) *)
Fixpoint logical_run (l : pen) (ops : list (bool * pen)) : pen :=
  match ops with
  | [] => l
  | (is_set, p) :: r => logical_run (if is_set then logical_set l p else logical_ch l p) r
  end.
Fixpoint pen_run (capacity : Z) (colon rgb8 : bool) (s : tpstate) (ops : list (bool * pen))
  : option (tpstate * list token) :=
  match ops with
  | [] => Some (s, [])
  | (is_set, p) :: r =>
      match (if is_set then do_setpen else do_chpen) capacity colon rgb8 s p with
      | None => None
      | Some (s', ts) =>
          match pen_run capacity colon rgb8 s' r with
          | None => None
          | Some (s'', ts') => Some (s'', ts ++ ts')
          end
      end
  end.

(* ---- equality of pens as values *)
Definition optrgb_eqb (x y : option rgb) : bool :=
  match x, y with
  | None, None => true
  | Some a, Some b => rgb_eqb a b
  | _, _ => false
  end.
Definition aval_eqb (x y : aval) : bool :=
  match x, y with
  | VBool a, VBool b => Bool.eqb a b
  | VInt a, VInt b => a =? b
  | VCol i s, VCol j t => (i =? j) && optrgb_eqb s t
  | _, _ => false
  end.
Definition optaval_eqb (x y : option aval) : bool :=
  match x, y with
  | None, None => true
  | Some a, Some b => aval_eqb a b
  | _, _ => false
  end.
Definition pen_eqb (p q : pen) : bool := forallb (fun a => optaval_eqb (p a) (q a)) all_attrs.
Definition pen_emptyb (p : pen) : bool := forallb (fun a => negb (has_attr p a)) all_attrs.

(* values in range, as a boolean (the generator's malformed stream leaves it) *)
Definition aval_in_rangeb (a : attr) (v : aval) : bool :=
  match attr_type a, v with
  | TyBool, VBool _ => true
  | TyInt, VInt n =>
      match a with
      | AUnder => (0 <=? n) && (n <=? 3)
      | AAltfont => (-1 <=? n) && (n <=? 9)
      | ASizepos => (n =? 0) || (n =? 2) || (n =? 3)
      | _ => false
      end
  | TyColour, VCol i sec =>
      (-1 <=? i) && (i <=? 255) &&
      match sec with
      | None => true
      | Some c => (0 <=? rgb_r c) && (rgb_r c <=? 255) && (0 <=? rgb_g c) && (rgb_g c <=? 255) &&
                  (0 <=? rgb_b c) && (rgb_b c <=? 255)
      end
  | _, _ => false
  end.
Definition pen_in_rangeb (p : pen) : bool :=
  forallb (fun a => match p a with Some v => aval_in_rangeb a v | None => true end) all_attrs.

(* ---- oracle, xterm layer: bytes per request through the VT *)
Inductive pverdict := POk (checked : nat) | PBadAt (index : nat) (why : nat) | POutOfRange (index : nat).

(* [obs]: is_set, the pen, the bytes written *)
Fixpoint oracle_pens (colon rgb8 : bool) (i : nat) (l : pen) (v : vt) (obs : list (bool * pen * list Z)) : pverdict :=
  match obs with
  | [] => POk i
  | (is_set, p, bytes) :: rest =>
      if negb (pen_in_rangeb p) then POutOfRange i
      else
        let l' := if is_set then logical_set l p else logical_ch l p in
        let v' := vt_run_bytes bytes v in
        if negb (sgr_matchesb colon rgb8 (cache_of 256 l') (v_sgr v')) then PBadAt i 1
        else if pen_eqb l l' && negb (match bytes with [] => true | _ => false end) then PBadAt i 2
        else oracle_pens colon rgb8 (S i) l' v' rest
  end.

(* ---- oracle, term.c layer: the delta and final pens handed to a driver with [colors] *)
Definition delta_okb (colors : Z) (l l' delta final : pen) : bool :=
  (* the cached pen is the converted logical pen *)
  pen_eqb final (cache_of colors l') &&
  (* everything whose converted value changed is in the delta, with its new value *)
  forallb (fun a => optaval_eqb (cache_of colors l a) (final a) || optaval_eqb (delta a) (final a)) all_attrs &&
  (* the delta never disagrees with the final pen *)
  forallb (fun a => negb (has_attr delta a) || optaval_eqb (delta a) (final a)) all_attrs &&
  (* nothing changes => nothing is sent *)
  (negb (pen_eqb l l') || pen_emptyb delta).

Fixpoint oracle_deltas (colors : Z) (i : nat) (l : pen) (obs : list (bool * pen * pen * pen)) : pverdict :=
  match obs with
  | [] => POk i
  | (is_set, p, delta, final) :: rest =>
      if negb (pen_in_rangeb p) then POutOfRange i
      else
        let l' := if is_set then logical_set l p else logical_ch l p in
        if delta_okb colors l l' delta final then oracle_deltas colors (S i) l' rest else PBadAt i 3
  end.

(* ---- the three facts about the pen path that the C09 / C12 developments use; proved in
   TermPenProofs.v (stated here so that they can be developed independently) *)
(* the driver's chpen on the VT: the attributes of the delta take their encoded value, the
   others keep theirs; with the reset shortcut everything is default *)
Definition chpen_core_stmt : Prop :=
  forall colon rgb8 (delta final : pen) (v : vt),
    pen_in_range delta -> a_faint (v_sgr v) = false ->
    exists ts, xterm_chpen chpen_params_capacity colon rgb8 delta final = Some ts /\
      let v' := vt_run ts v in
      v' = set_sgr v (v_sgr v') /\ a_faint (v_sgr v') = false /\
      ((forall a, delta a = None) -> ts = []) /\
      (if is_nondefault final || pen_emptyb delta
       then forall a, vt_attr (v_sgr v') a =
                      match delta a with Some x => enc colon rgb8 a x | None => vt_attr (v_sgr v) a end
       else v_sgr v' = default_attrs).
(* a pen without non-default attributes stands for the default rendition *)
Definition nondefault_enc_stmt : Prop :=
  forall colon rgb8 (p : pen) a x, pen_in_range p -> is_nondefault p = false -> p a = Some x ->
    enc colon rgb8 a x = vt_attr default_attrs a.
(* term.c's delta encoder: the new cache is the converted new logical pen, the delta holds
   exactly the new values of what changed (possibly more, never something else), and nothing
   when the logical pen did not change *)
Definition term_pen_stmt : Prop :=
  forall colors (is_set : bool) (l tp p : pen),
    0 <= colors -> pen_in_range l -> pen_in_range p -> (forall a, tp a = cache_of colors l a) ->
    let l' := if is_set then logical_set l p else logical_ch l p in
    exists tp' delta,
      (if is_set then term_setpen else term_chpen) colors tp p = Some (tp', delta) /\
      pen_in_range l' /\ pen_in_range tp' /\ pen_in_range delta /\
      (forall a, tp' a = cache_of colors l' a) /\
      (forall a, delta a = None \/ delta a = tp' a) /\
      (forall a, tp' a <> tp a -> delta a = tp' a) /\
      ((forall a, l' a = l a) -> forall a, delta a = None).
