From Coq Require Extraction.
From Coq Require Import ExtrOcamlBasic.
From Tickit Require Import Gen_Width Utf8Defs Utf8Spec.
Extraction "mC07.ml" combining fullwidth
  u8_seqlen u8_put put_bytes u8_wcwidth u8_ncountmore u8_count u8_mbswidth u8_byte2col u8_col2byte
  pos_zero limit_bytes limit_columns
  spec_width spec_count effective count_checkb resume_checkb roundtrip_checkb width_checkb documented_widths.
