(* Property C11: output buffering is transparent -- same bytes, same order, drained by
   flush.  Nothing but the property theorems, each closed by [exact <lemma>] and followed
   by Print Assumptions.

   Vocabulary (OutBufDefs.v / OutBufSpec.v / OutBufProofs.v):
     run s ops = Ok (s', outs)   the model of term.c executed on a history; outs lists, per
                                 operation, the chunks handed to the output function or
                                 written to the descriptor; [Fault] = a request that reads
                                 outside the caller's string, [OutOfFuel] = loop fuel ran out;
     stream ops                  the unbuffered stream: the requested bytes concatenated;
     sized_when_drained s ops    the buffer is resized only while nothing is pending ("any
                                 buffer size fixed while output is pending");
     inv s                       0 <= cap, cap = 0 -> nothing pending, cap > 0 -> pending < cap;
     chunk_ok cap c              0 < |c| <= cap. *)
From Coq Require Import ZArith List Bool.
From Tickit Require Import OutBufDefs OutBufSpec OutBufProofs.
Import ListNotations.
Local Open Scope Z_scope.

(* nothing lost, duplicated or reordered: for every buffer size and every history,
   delivered chunks followed by what is still pending are exactly the unbuffered stream *)
Theorem C11_stream : forall ops s s' outs, inv s -> has_sink s = true ->
  sized_when_drained s ops -> run s ops = Ok (s', outs) ->
  exists bs, stream ops = Some bs /\ concat (concat outs) ++ pending s' = pending s ++ bs /\ inv s'.
Proof. exact stream_run. Qed.
Print Assumptions C11_stream.

(* ... and identical to what the same history delivers without any buffer *)
Theorem C11_transparent : forall ops func fd s' outs,
  func || fd = true -> sized_when_drained (init func fd) ops ->
  run (init func fd) ops = Ok (s', outs) ->
  exists s0 outs0,
    run (init func fd) (unbuffered ops) = Ok (s0, outs0) /\ pending s0 = [] /\
    concat (concat outs) ++ pending s' = concat (concat outs0) /\
    stream ops = Some (concat (concat outs0)).
Proof. exact transparent. Qed.
Print Assumptions C11_transparent.

(* resizing first or directly after a flush is enough for the hypothesis above *)
Theorem C11_resize_after_flush : forall ops s dr, inv s ->
  (dr = true -> pending s = []) -> resize_after_flush dr ops = true -> sized_when_drained s ops.
Proof. exact resize_after_flush_sound. Qed.
Print Assumptions C11_resize_after_flush.

(* no delivered chunk is larger than the buffer (nor empty) *)
Theorem C11_chunk_bound : forall s o s' d, inv s -> step s o = Ok (s', d) -> 0 < cap s ->
  Forall (chunk_ok (cap s)) d.
Proof. exact chunk_bound. Qed.
Print Assumptions C11_chunk_bound.

Theorem C11_chunk_bound_run : forall ops s s' outs, inv s -> no_resize ops -> 0 < cap s ->
  run s ops = Ok (s', outs) -> Forall (chunk_ok (cap s)) (concat outs).
Proof. exact chunk_bound_run. Qed.
Print Assumptions C11_chunk_bound_run.

(* after a flush nothing remains pending, and what was pending is what was delivered *)
Theorem C11_flush_drains : forall s s' d, step s OFlush = Ok (s', d) ->
  pending s' = [] /\ (has_sink s = true -> concat d = pending s).
Proof. exact flush_drains. Qed.
Print Assumptions C11_flush_drains.

(* every well-formed request is served (no Fault, invariant kept) and the chunk loop never
   runs out of fuel: it consumes at least one byte per iteration *)
Theorem C11_terminates : forall s o, inv s ->
  (asked o <> None -> exists s' d, step s o = Ok (s', d) /\ inv s') /\
  step s o <> OutOfFuel.
Proof. exact terminates. Qed.
Print Assumptions C11_terminates.

Theorem C11_loop_fuel : forall fuel str s out,
  0 < cap s -> zlen (pending s) < cap s -> (length str <= fuel)%nat ->
  exists r, write_loop fuel s out str = Ok r.
Proof. exact loop_fuel_bound. Qed.
Print Assumptions C11_loop_fuel.

(* the oracle: the model's own runs pass the checker, and whatever passes the checker
   (without a resize over outstanding bytes) delivered the unbuffered stream *)
Theorem C11_checker_accepts_model : forall ops func fd s' outs,
  run (init func fd) ops = Ok (s', outs) -> check (func || fd) ops outs = true.
Proof. exact checker_accepts_model. Qed.
Print Assumptions C11_checker_accepts_model.

Theorem C11_checker_sound : forall ops outs k k', check_from k ops outs = Some k' ->
  k_forfeit k' = false ->
  exists bs, stream ops = Some bs /\ k_outst k ++ bs = concat (concat outs) ++ k_outst k'.
Proof. exact checker_sound. Qed.
Print Assumptions C11_checker_sound.

(* non-vacuity: a buffer of 3, writes of 2 (NUL-terminated, len 0) and 5 bytes that
   straddle the buffer end twice, an empty formatted write, a flush; the checker accepts
   the run and rejects the same run with the last chunk dropped *)
Example C11_nonvacuous :
  let ops := [OSetBuf 3; OWrite [97; 98; 0] 0; OWrite [99; 100; 101; 102; 103] 5; OWritef []; OFlush] in
  run (init true false) ops =
    Ok (mkOB 3 [] true false, [[]; []; [[97; 98; 99]; [100; 101; 102]]; []; [[103]]]) /\
  stream ops = Some [97; 98; 99; 100; 101; 102; 103] /\
  sized_when_drained (init true false) ops /\
  check true ops [[]; []; [[97; 98; 99]; [100; 101; 102]]; []; [[103]]] = true /\
  check true ops [[]; []; [[97; 98; 99]; [100; 101; 102]]; []; []] = false.
Proof. exact OutBufProofs.nonvacuous. Qed.
