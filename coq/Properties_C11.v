(* Property C11: output buffering is transparent -- same bytes, same order, drained by
   flush.  Nothing but the property theorems, each closed by [exact <lemma>] and followed
   by Print Assumptions.

   Vocabulary (OutBufDefs.v / OutBufSpec.v / OutBufProofs.v):
     run s ops = Ok (s', outs)   the model of term.c executed on a history; outs lists, per
                                 operation, the chunks delivered, each tagged with the sink that
                                 received it (SFunc = the output function, SFd = the
                                 descriptor); [Fault] = a request that reads outside the
                                 caller's string, [OutOfFuel] = loop fuel ran out;
     active s                    the sink output goes to: the function if one is set, else the
                                 descriptor, else none (a terminal may have both);
     to_sink k d                 the bytes of the chunks of d that went to sink k;
     stream_to k func fd ops     the unbuffered stream of sink k: the bytes of the requests made
                                 while k is the active sink, concatenated;
     pend_to k s                 what is pending, if k is the active sink (else nothing);
     config_when_drained s ops   buffer size and active sink change only while nothing is
                                 pending ("fixed while output is pending");
     inv s                       0 <= cap, cap = 0 -> nothing pending, cap > 0 -> pending < cap;
     chunk_ok cap c              0 < |c| <= cap;   tagged a d: every chunk of d went to a. *)
From Coq Require Import ZArith List Bool.
From Tickit Require Import OutBufDefs OutBufSpec OutBufProofs.
Import ListNotations.
Local Open Scope Z_scope.

(* nothing lost, duplicated, reordered or sent to the other sink: for every buffer size,
   every sink configuration and every history, what each sink was given, followed by what
   is still pending for it, is exactly that sink's unbuffered stream *)
Theorem C11_stream : forall ops s s' outs, inv s ->
  config_when_drained s ops -> run s ops = Ok (s', outs) ->
  inv s' /\ forall k, exists bs, stream_to k (has_func s) (has_fd s) ops = Some bs /\
    to_sink k (concat outs) ++ pend_to k s' = pend_to k s ++ bs.
Proof. exact stream_run. Qed.
Print Assumptions C11_stream.

(* ... and identical, per sink, to what the same history delivers without any buffer *)
Theorem C11_transparent : forall ops func fd s' outs,
  config_when_drained (init func fd) ops ->
  run (init func fd) ops = Ok (s', outs) ->
  exists s0 outs0,
    run (init func fd) (unbuffered ops) = Ok (s0, outs0) /\ pending s0 = [] /\
    forall k, to_sink k (concat outs) ++ pend_to k s' = to_sink k (concat outs0) /\
              stream_to k func fd ops = Some (to_sink k (concat outs0)).
Proof. exact transparent. Qed.
Print Assumptions C11_transparent.

(* reconfiguring first or directly after a flush is enough for the hypothesis above *)
Theorem C11_config_after_flush : forall ops s dr, inv s ->
  (dr = true -> pending s = []) -> config_after_flush dr ops = true -> config_when_drained s ops.
Proof. exact config_after_flush_sound. Qed.
Print Assumptions C11_config_after_flush.

(* no delivered chunk is larger than the buffer (nor empty), and it goes to the active sink *)
Theorem C11_chunk_bound : forall s o s' d, inv s -> step s o = Ok (s', d) -> 0 < cap s ->
  Forall (chunk_ok (cap s)) d /\ tagged (active s) d.
Proof. exact chunk_bound. Qed.
Print Assumptions C11_chunk_bound.

Theorem C11_chunk_bound_run : forall ops s s' outs, inv s -> no_resize ops -> 0 < cap s ->
  run s ops = Ok (s', outs) -> Forall (chunk_ok (cap s)) (concat outs).
Proof. exact chunk_bound_run. Qed.
Print Assumptions C11_chunk_bound_run.

(* after a flush, a teardown, and the destruction of the terminal (is_drain) nothing remains
   pending; what was pending went to the active sink *)
Theorem C11_flush_drains : forall s o s' d, is_drain o = true -> step s o = Ok (s', d) ->
  pending s' = [] /\ tagged (active s) d /\ forall k, to_sink k d = pend_to k s.
Proof. exact flush_drains. Qed.
Print Assumptions C11_flush_drains.

(* every well-formed request is served (no Fault, invariant kept) and the chunk loop never
   runs out of fuel: it consumes at least one byte per iteration *)
Theorem C11_terminates : forall s o, inv s ->
  (asked o <> None -> exists s' d, step s o = Ok (s', d) /\ inv s') /\
  step s o <> OutOfFuel.
Proof. exact terminates. Qed.
Print Assumptions C11_terminates.

Theorem C11_loop_fuel : forall fuel str s out,
  0 < cap s -> zlen (pending s) < cap s -> (length str <= fuel)%nat ->
  exists r, write_loop fuel s out str = Ok r.
Proof. exact loop_fuel_bound. Qed.
Print Assumptions C11_loop_fuel.

(* the oracle: the model's own runs pass the checker, and whatever passes the checker
   (without forfeit) delivered to every sink that sink's unbuffered stream *)
Theorem C11_checker_accepts_model : forall ops func fd s' outs,
  run (init func fd) ops = Ok (s', outs) -> check func fd ops outs = true.
Proof. exact checker_accepts_model. Qed.
Print Assumptions C11_checker_accepts_model.

Theorem C11_checker_sound : forall ops outs k k', check_from k ops outs = Some k' ->
  k_forfeit k' = false ->
  forall snk, exists bs, stream_to snk (k_func k) (k_fd k) ops = Some bs /\
    outst_to snk k ++ bs = to_sink snk (concat outs) ++ outst_to snk k'.
Proof. exact checker_sound. Qed.
Print Assumptions C11_checker_sound.

(* a buffer whose allocation fails is no buffer: the terminal is exactly as after size 0 *)
Theorem C11_failed_alloc_unbuffered : forall s n, 0 <= n ->
  step s (OSetBufFail n) = step s (OSetBuf 0).
Proof. exact failed_alloc_unbuffered. Qed.
Print Assumptions C11_failed_alloc_unbuffered.

(* non-vacuity: function AND descriptor set, a buffer of 3, writes of 2 (NUL-terminated,
   len 0) and 5 bytes that straddle the buffer end twice, an empty formatted write, a flush;
   then the function is removed while nothing is pending and the descriptor takes over; a
   teardown, one more write, the destruction.  The checker accepts the run, rejects it when
   the write after the teardown is never delivered, and rejects it when the first part's
   chunks go to the descriptor instead of the function. *)
Example C11_nonvacuous :
  let ops := [OSetBuf 3; OWrite [97; 98; 0] 0; OWrite [99; 100; 101; 102; 103] 5; OWritef []; OFlush;
              OSetFunc false; OWrite [104; 105] 2; OTeardown; OWrite [106] 1; ODestroy] in
  let good := [[]; []; [(SFunc, [97; 98; 99]); (SFunc, [100; 101; 102])]; []; [(SFunc, [103])];
               []; []; [(SFd, [104; 105])]; []; [(SFd, [106])]] in
  run (init true true) ops = Ok (mkOB 3 [] false true, good) /\
  stream_to SFunc true true ops = Some [97; 98; 99; 100; 101; 102; 103] /\
  stream_to SFd true true ops = Some [104; 105; 106] /\
  config_when_drained (init true true) ops /\
  check true true ops good = true /\
  (* what was written after the teardown is never delivered *)
  check true true ops [[]; []; [(SFunc, [97; 98; 99]); (SFunc, [100; 101; 102])]; []; [(SFunc, [103])];
                       []; []; [(SFd, [104; 105])]; []; []] = false /\
  (* the buffered chunks go to the descriptor instead of the function *)
  check true true ops [[]; []; [(SFd, [97; 98; 99]); (SFd, [100; 101; 102])]; []; [(SFd, [103])];
                       []; []; [(SFd, [104; 105])]; []; [(SFd, [106])]] = false /\
  (* a buffer whose allocation fails leaves the terminal unbuffered *)
  run (init true false) [OSetBufFail 18446744073709551615; OWrite [97; 98] 2; ODestroy]
    = Ok (mkOB 0 [] true false, [[]; [(SFunc, [97; 98])]; []]).
Proof. exact OutBufProofs.nonvacuous. Qed.
