(* LoopNest.v -- two rarely used interactions of the timer / deferred-callback machinery that the
   main model (LoopDefs.v) keeps out by assumption, as an executable model of their own:

   - a NESTED iteration: a callback calls tickit_tick(NOHANG).  tickit_evloop_invoke_timers
     APPENDS the deferred callbacks and the due timers to the running queues, so the nested
     call first finishes what the outer iteration still had waiting (in order), then runs what
     has become due / been deferred since, and the outer loop finds its queues empty.  Every
     watch still runs exactly once.  [assign] = true is the seeded variant (the due prefix
     ASSIGNED to the running queue: the outer iteration's waiting timers are dropped).
   - DESTROY handlers that act: the UNBIND|DESTROY notification of tickit_destroy runs a script
     (denv) that registers or cancels watches of the kinds destroyed LATER (tickit_destroy
     reads each list when its turn comes: io, timers, deferred, signals, processes); such a
     watch is destroyed and notified in its turn, a cancelled one gets its plain UNBIND and
     nothing more.  (Acting on the list under destruction or an earlier one is outside the
     model: destroy_watchlist has taken this->next, the earlier heads are freed.)
     [detach] = true is the seeded variant (all five lists detached up front).

   Everything else -- registration, cancellation, the queues, emit -- is LoopDefs'.
   Fuel: one unit per interpreted action / loop round; None = too little fuel. *)
From Coq Require Import ZArith List Bool.
From Tickit Require Import LoopDefs LoopSpec.
Import ListNotations.
Local Open Scope Z_scope.

Inductive nact := NA (a : action) | NTick.
Inductive nop := NAct (a : nact) | NRun (dt : Z).

Section WithEnv.
Variable assign detach : bool.
Variable env : Z -> list nact.      (* FIRE *)
Variable denv : Z -> list action.   (* UNBIND|DESTROY at tickit_destroy *)

Definition nuenv (_ : Z) : list action := [].
Definition act1 (s : st) (a : action) : st := do_action false nuenv s a.

(* the head of tickit_evloop_invoke_timers: the queues are moved over *)
Definition n_detach (s : st) : st :=
  let s1 := set_laters (set_run_laters s (run_laters s ++ laters s)) [] in
  match timers s1 with
  | [] => s1
  | _ => let (due, rest) := split_due (now s1) (timers s1) in
         set_timers (set_run_timers s1 (if assign then due else run_timers s1 ++ due)) rest
  end.

Fixpoint n_exec (fuel : nat) (s : st) (acts : list nact) {struct fuel} : option st :=
  match fuel with
  | O => None
  | S f =>
      match acts with
      | [] => Some s
      | NA a :: r => n_exec f (act1 s a) r
      | NTick :: r => match n_tick f 0 s with Some s' => n_exec f s' r | None => None end
      end
  end
with n_tick (fuel : nat) (dt : Z) (s : st) {struct fuel} : option st :=
  match fuel with
  | O => None
  | S f =>
      let s1 := set_iter (set_now s (now s + dt)) (iter s + 1) in
      let s2 := set_log s1 (OPoll 0 :: log s1) in
      n_loop f (n_detach s2)
  end
with n_loop (fuel : nat) (s : st) {struct fuel} : option st :=
  match fuel with
  | O => None
  | S f =>
      match run_timers s with
      | w :: r =>
          match n_exec f (emit (set_run_timers s r) w (EV_FIRE + EV_UNBIND)) (env (w_cb w)) with
          | Some s' => n_loop f s'
          | None => None
          end
      | [] =>
          match run_laters s with
          | w :: r =>
              match n_exec f (emit (set_run_laters s r) w (EV_FIRE + EV_UNBIND)) (env (w_cb w)) with
              | Some s' => n_loop f s'
              | None => None
              end
          | [] => Some s
          end
      end
  end.

Definition n_op (fuel : nat) (os : option st) (o : nop) : option st :=
  match os with
  | None => None
  | Some s => match o with NAct a => n_exec fuel s [a] | NRun dt => n_tick fuel dt s end
  end.

(* destroy_watchlist over one list: this->next is taken first, so the walk is over the list as it
   was when its turn came; the handler's script acts on the instance *)
Definition n_destroy_list (s : st) (l : list watch) : st :=
  fold_left (fun s w => if asked w then fold_left act1 (denv (w_cb w)) (emit s w (EV_UNBIND + EV_DESTROY)) else s) l s.

Definition n_destroy (s : st) : st :=
  let s0 := set_iter s (-1) in
  if detach then
    let s' := set_procs (set_sigs (set_laters (set_timers (set_ios s0 []) []) []) []) [] in
    n_destroy_list (n_destroy_list (n_destroy_list (n_destroy_list (n_destroy_list s' (ios s0)) (timers s0)) (laters s0)) (sigs s0)) (procs s0)
  else
    let s1 := n_destroy_list s0 (ios s0) in
    let s1 := set_ios s1 [] in
    let s2 := set_timers (n_destroy_list s1 (timers s1)) [] in
    let s3 := set_laters (n_destroy_list s2 (laters s2)) [] in
    let s4 := set_sigs (n_destroy_list s3 (sigs s3)) [] in
    set_procs (n_destroy_list s4 (procs s4)) [].

(* the log; whether anything is left registered after destruction (a leak) *)
Definition n_run (fuel : nat) (ops : list nop) : option (list obs * bool) :=
  match fold_left (n_op fuel) ops (Some st0) with
  | None => None
  | Some s =>
      let s' := n_destroy s in
      Some (rev (log s'), match ios s', timers s', laters s', sigs s', procs s', run_timers s', run_laters s' with
                          | [], [], [], [], [], [], [] => true | _, _, _, _, _, _, _ => false end)
  end.

Definition n_checkb (fuel : nat) (ops : list nop) (o : list obs) : bool :=
  match n_run fuel ops with Some (l, _) => list_eqb obs_eqb l o | None => false end.

End WithEnv.

(* ---- witnesses (vm_compute) *)

(* nested iteration: timers 0 (callback: tick), 1, both due, and 2 in the future.  Appending: the
   nested call runs 1; assigning: 1 is dropped -- never runs, left on no list *)
Definition nw_env (cb : Z) : list nact := if cb =? 1 then [NTick] else [].
Definition nw_ops : list nop :=
  [NAct (NA (ATimer 0 (mkF false false false) 1)); NAct (NA (ATimer 0 (mkF false false false) 0));
   NAct (NA (ATimer 5000 (mkF false false false) 0)); NRun 0; NRun 10000].
Definition nd_denv (cb : Z) : list action := if cb =? 1 then [ALater (mkF false false true) 0; ACancel 1] else [].
Definition nd_ops : list nop :=
  [NAct (NA (AWatch KIo 0 (mkF false false true) 1)); NAct (NA (ATimer 5000 (mkF false true false) 0))].

Definition E (id : Z) (k : kind) (fl it nw x : Z) : obs := OEv (mkE id k fl it nw x).

Lemma nest_witness :
  n_run false false nw_env (fun _ => []) 100 nw_ops =
    Some ([OPoll 0; E 0 KTimer 3 1 0 0; OPoll 0; E 1 KTimer 3 2 0 0; OPoll 0; E 2 KTimer 3 3 10000 5000], true) /\
  n_run true false nw_env (fun _ => []) 100 nw_ops =
    Some ([OPoll 0; E 0 KTimer 3 1 0 0; OPoll 0; OPoll 0; E 2 KTimer 3 3 10000 5000], true).
Proof. split; vm_compute; reflexivity. Qed.

(* DESTROY handlers that act: the handler of IO watch 0 defers a callback (watch 2, wants DESTROY)
   and cancels timer 1 (wants UNBIND): the timer gets its plain UNBIND and nothing more, the
   deferred callback is destroyed and notified in its turn, nothing is left.  Seeded (lists
   detached up front): the cancel finds nothing -- the timer is called with UNBIND|DESTROY after
   it was cancelled -- and watch 2 is never destroyed (left registered: false) *)
Lemma destroy_handler_witness :
  n_run false false (fun _ => []) nd_denv 100 nd_ops =
    Some ([E 0 KIo 6 (-1) 0 0; E 1 KTimer 2 (-1) 0 5000; E 2 KLater 6 (-1) 0 0], true) /\
  n_run false true (fun _ => []) nd_denv 100 nd_ops =
    Some ([E 0 KIo 6 (-1) 0 0; E 1 KTimer 6 (-1) 0 5000], false).
Proof. split; vm_compute; reflexivity. Qed.

(* without nested iterations and acting DESTROY handlers this model is the main one: a script in
   which the first due callback registers a past-deadline timer *)
Definition na_env (cb : Z) : list action := if cb =? 1 then [ATimer (-10) (mkF false true false) 0; ALater (mkF true false true) 0] else [].
Definition na_ops : list op := [OAct (ATimer 0 (mkF false false false) 1); OAct (ATimer 700 (mkF false false true) 0); ORun 0; ORun 0].
Lemma nest_agrees_on_witness :
  n_run false false (fun cb => map NA (na_env cb)) (fun _ => []) 200
        (map (fun o => match o with OAct a => NAct (NA a) | ORun dt => NRun dt | OOnce => NRun 0 end) na_ops) =
    Some (run false na_env nuenv na_ops, true).
Proof. vm_compute. reflexivity. Qed.
