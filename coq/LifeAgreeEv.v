(* LifeAgreeEv.v -- the discipline with frame references (LifeSpecEv.v) is sound for the model: its ghost
   state (client references, frame references, parents) agrees with the heap along every call, also
   the calls made from inside handlers, and what it accepts meets the calls' preconditions. *)
From Coq Require Import ZArith List Bool PArith FMapPositive Lia.
From Tickit Require Import LifeDefs LifeLemmas LifeChains LifeInv LifePure LifeWalks LifeRelink LifeRemove LifeClose
  LifeQueue LifeDestroy LifeAttach LifeOps LifeFlush LifeFate LifeSpec LifeProofs LifeAgree LifeSpecEv LifeTrace.
Import ListNotations.
Local Open Scope Z_scope.

Definition agreeE_cell (gw : egwin) (oc : option wcell) : Prop :=
  match oc with
  | None => e_cnt gw = 0 /\ e_fr gw = 0 /\ e_par gw = None
  | Some c => w_ref c = e_cnt gw + e_fr gw /\ 0 <= e_cnt gw /\ 0 <= e_fr gw /\
              option_map addr_of (e_par gw) = w_parent c
  end.

Record agreeE (g : eghost) (h : heap) : Prop := mk_agreeE {
  ae_len : nextw h = addr_of (length g);
  ae_cells : forall i gw, nth_error g i = Some gw -> agreeE_cell gw (findw h (addr_of i))
}.

Lemma agreeE_init : agreeE e0 (heap0 fixed).
Proof.
  constructor; [reflexivity|]. intros i gw Hn. destruct i as [|i]; cbn in Hn.
  - inversion Hn; subst gw. cbn. repeat split; lia.
  - destruct i; discriminate.
Qed.

Section AgreeE.
Variables (g : eghost) (h : heap).
Hypothesis HI : hinv [] h.
Hypothesis AG : agreeE g h.

Lemma agreeE_live_entry : forall a, findw h a <> None -> exists gw, nth_error g (idx a) = Some gw.
Proof.
  intros a Hl. pose proof (hi_nextw [] h HI a Hl) as Hlt. rewrite (ae_len g h AG) in Hlt.
  rewrite <- (addr_idx a) in Hlt. apply addr_lt in Hlt.
  destruct (nth_error g (idx a)) as [gw|] eqn:Hn; [eauto|]. apply nth_error_None in Hn. lia.
Qed.

Lemma agreeE_alive_live : forall i, ealive g i = true -> findw h (addr_of i) <> None.
Proof.
  intros i Hh. unfold ealive, eget in Hh. destruct (nth_error g i) as [gw|] eqn:Hn; [|discriminate].
  pose proof (ae_cells g h AG i gw Hn) as Hc. apply Z.ltb_lt in Hh.
  destruct (findw h (addr_of i)); [congruence|]. destruct Hc as [Hc [Hf _]]. lia.
Qed.

Lemma agreeE_held_live : forall i, eheld g i = true -> findw h (addr_of i) <> None.
Proof.
  intros i Hh. apply agreeE_alive_live. unfold eheld, ealive, eget in *. destruct (nth_error g i) as [gw|] eqn:Hn; [|discriminate].
  pose proof (ae_cells g h AG i gw Hn) as Hc. apply Z.ltb_lt in Hh. apply Z.ltb_lt.
  destruct (findw h (addr_of i)) as [c|]; [destruct Hc as (_ & _ & H3 & _); lia|destruct Hc as (H1 & H2 & _); lia].
Qed.

Lemma agreeE_live_cell : forall a c, findw h a = Some c ->
  exists gw, nth_error g (idx a) = Some gw /\ w_ref c = e_cnt gw + e_fr gw /\ 0 <= e_cnt gw /\ 0 <= e_fr gw /\
             option_map addr_of (e_par gw) = w_parent c.
Proof.
  intros a c Hf. assert (Hl : findw h a <> None) by congruence.
  destruct (agreeE_live_entry a Hl) as [gw Hn]. exists gw. split; auto.
  pose proof (ae_cells g h AG (idx a) gw Hn) as Hc. rewrite addr_idx in Hc. rewrite Hf in Hc. exact Hc.
Qed.

Lemma agreeE_intree : forall fuel i, eintree_n fuel g i = true -> anc h (addr_of i) root.
Proof.
  induction fuel as [|f IH]; intros i H; cbn in H; [discriminate|].
  unfold eget in H. destruct (nth_error g i) as [gw|] eqn:Hn; [|discriminate].
  apply andb_prop in H. destruct H as [Hc Hr]. apply Z.ltb_lt in Hc.
  pose proof (ae_cells g h AG i gw Hn) as Hcell.
  destruct (findw h (addr_of i)) as [c|] eqn:Hf; [|destruct Hcell as (H1 & H2 & _); lia].
  destruct Hcell as (_ & _ & _ & Hp). destruct i as [|i'].
  - rewrite addr_root. eapply anc_refl. rewrite <- addr_root. exact Hf.
  - destruct (e_par gw) as [p|]; [|discriminate]. cbn in Hp.
    eapply anc_step; [exact Hf|symmetry; exact Hp|]. apply IH. exact Hr.
Qed.

Lemma agreeE_usable : forall i, eusable g i = true -> anc h (addr_of i) root.
Proof.
  intros i H. unfold eusable in H. apply andb_prop in H. destruct H as [H _].
  apply andb_prop in H. destruct H as [_ H]. unfold eintree in H. eapply agreeE_intree; eauto.
Qed.
Lemma agreeE_usable_live : forall i, eusable g i = true -> findw h (addr_of i) <> None.
Proof. intros i H. eapply anc_live_l. apply agreeE_usable. exact H. Qed.

Lemma agreeE_top : forall fuel i, (i < fuel)%nat -> findw h (addr_of i) <> None ->
  exists ct, findw h (addr_of (etop_n fuel g i)) = Some ct /\ w_parent ct = None /\ anc h (addr_of i) (addr_of (etop_n fuel g i)).
Proof.
  induction fuel as [|f IH]; intros i Hlt Hl; [lia|]. cbn.
  destruct (live_some h _ Hl) as [c Hf].
  destruct (agreeE_live_cell _ c Hf) as (gw & Hn & _ & _ & _ & Hp). rewrite idx_addr in Hn.
  unfold eget. rewrite Hn. destruct (e_par gw) as [p|] eqn:Hgp; cbn in Hp.
  - assert (Hpl : (addr_of p < addr_of i)%positive) by (apply (hi_parent_lt [] h HI (addr_of i) c); auto).
    apply addr_lt in Hpl.
    assert (Hlp : findw h (addr_of p) <> None) by (apply (hi_parent [] h HI (addr_of i) c); auto).
    destruct (IH p) as [ct [H1 [H2 H3]]]; [lia|exact Hlp|].
    exists ct. split; auto. split; auto. eapply anc_step; eauto.
  - exists c. split; auto. split; auto. eapply anc_refl; eauto.
Qed.

End AgreeE.

(* ---- list facts ---- *)
Lemma nth_eset : forall (l : eghost) i x j,
  nth_error (eset l i x) j = if Nat.eqb j i then (match nth_error l i with Some _ => Some x | None => None end) else nth_error l j.
Proof.
  induction l as [|y l IH]; intros i x j; cbn.
  - destruct (Nat.eqb j i); destruct j, i; reflexivity.
  - destruct i as [|i]; destruct j as [|j]; cbn; auto.
Qed.
Lemma length_eset : forall (l : eghost) i x, length (eset l i x) = length l.
Proof. induction l as [|y l IH]; intros i x; cbn; auto. destruct i; cbn; auto. Qed.
Lemma length_edestroy_pass : forall l i w d, length (edestroy_pass l i w d) = length l.
Proof.
  induction l as [|x l IH]; intros i w d; cbn; auto.
  destruct (Nat.eqb i w); cbn; [rewrite IH; reflexivity|].
  destruct (e_par x); [|cbn; rewrite IH; reflexivity].
  destruct (existsb (Nat.eqb n) d && (0 <? e_cnt x)); [|cbn; rewrite IH; reflexivity].
  destruct (e_cnt x - 1 + e_fr x =? 0); cbn; rewrite IH; reflexivity.
Qed.

(* [i] is attached, through the ghost's parents, below [w] *)
Inductive edesc (g : eghost) (w : nat) : nat -> Prop :=
| ed_child : forall i x, nth_error g i = Some x -> e_par x = Some w -> edesc g w i
| ed_step : forall i x p, nth_error g i = Some x -> e_par x = Some p -> edesc g w p -> edesc g w i.

(* whatever goes in the destruction of [w] is [w] or attached below it *)
Lemma gone_desc : forall g h h' w, hinv [] h -> agreeE g h -> fate [w] h h' ->
  forall n j, (j < n)%nat -> gone [w] h h' (addr_of j) -> j = idx w \/ edesc g (idx w) j.
Proof.
  intros g h h' w HI AG Hfate. apply fate_rule in Hfate.
  induction n as [|n IH]; intros j Hlt Hg; [lia|].
  destruct Hg as [[E|[]]|[Hl Hd]]; [left; rewrite E; symmetry; apply idx_addr|].
  destruct (Pos.eq_dec (addr_of j) w) as [E|Ne]; [left; rewrite <- E; symmetry; apply idx_addr|]. right.
  destruct (live_some h _ Hl) as [c Hf].
  pose proof (Hfate _ c Hf (proj2 (not_in_single _ _) Ne)) as R. unfold rule in R. rewrite Hd in R.
  destruct R as (p & Hp & Hgp & _).
  destruct (agreeE_live_cell g h HI AG _ c Hf) as (gw & Hn & _ & _ & _ & Hpar). rewrite idx_addr in Hn.
  rewrite Hp in Hpar. destruct (e_par gw) as [pi|] eqn:Egp; [|discriminate]. cbn in Hpar. inversion Hpar as [Epi]. 
  assert (Hplt : (pi < j)%nat).
  { apply addr_lt. rewrite Epi. exact (hi_parent_lt [] h HI (addr_of j) c p Hf Hp). }
  rewrite <- Epi in Hgp. destruct (IH pi ltac:(lia) Hgp) as [E|Hd'].
  - subst pi. eapply ed_child; eauto.
  - eapply ed_step; eauto.
Qed.

(* ---- the ghost's one-pass destruction computes the fate the heap's recursion produces, provided no frame
        holds a window attached below the one that goes ---- *)
Lemma edestroy_pass_agree : forall g h h' w cw,
  hinv [] h -> agreeE g h -> findw h w = Some cw ->
  fate [w] h h' -> findw h' w = None -> (forall a, findw h a = None -> findw h' a = None) ->
  (forall i x, nth_error g i = Some x -> edesc g (idx w) i -> e_fr x = 0) ->
  forall suffix i doomed,
    (forall k gw, nth_error suffix k = Some gw -> nth_error g (i + k) = Some gw) ->
    (forall j, In j doomed <-> ((j < i)%nat /\ gone [w] h h' (addr_of j))) ->
    forall k gw', nth_error (edestroy_pass suffix i (idx w) doomed) k = Some gw' ->
      agreeE_cell gw' (findw h' (addr_of (i + k))).
Proof.
  intros g h h' w cw HI AG Hw Hfate Hwd Hdead Hnf.
  pose proof (gone_desc g h h' w HI AG Hfate) as Hgd.
  apply fate_rule in Hfate.
  induction suffix as [|x t IH]; intros i doomed Htail Hdoom k gw' Hn; [destruct k; discriminate|].
  assert (Hx : nth_error g i = Some x) by (rewrite <- (Nat.add_0_r i); apply Htail; reflexivity).
  pose proof (ae_cells g h AG i x Hx) as Hcell.
  assert (Htail' : forall k0 gw0, nth_error t k0 = Some gw0 -> nth_error g (S i + k0) = Some gw0).
  { intros k0 gw0 Hk0. rewrite Nat.add_succ_l, <- Nat.add_succ_r. apply Htail. exact Hk0. }
  assert (Hnotgone_live : forall c', findw h' (addr_of i) = Some c' -> addr_of i <> w -> ~ gone [w] h h' (addr_of i)).
  { intros c' Hc' Hne [[E|[]]|[_ Hd]]; congruence. }
  assert (Hkeep : ~ gone [w] h h' (addr_of i) ->
            forall j, In j doomed <-> ((j < S i)%nat /\ gone [w] h h' (addr_of j))).
  { intros Hng j. rewrite (Hdoom j). split; intros [H1 H2]; (split; [|exact H2]).
    - lia.
    - destruct (Nat.eq_dec j i) as [E|E]; [subst j; contradiction|lia]. }
  assert (Hadd : gone [w] h h' (addr_of i) ->
            forall j, In j (i :: doomed) <-> ((j < S i)%nat /\ gone [w] h h' (addr_of j))).
  { intros Hg j. cbn. rewrite (Hdoom j). split.
    - intros [E|[H1 H2]]; [subst j; split; [lia|exact Hg]|split; [lia|exact H2]].
    - intros [H1 H2]. destruct (Nat.eq_dec j i) as [E|E]; [left; auto|right; split; [lia|exact H2]]. }
  cbn [edestroy_pass] in Hn.
  destruct (Nat.eqb i (idx w)) eqn:Eiw.
  - apply Nat.eqb_eq in Eiw. assert (Ea : addr_of i = w) by (rewrite Eiw; apply addr_idx).
    destruct k as [|k]; cbn in Hn.
    + inversion Hn; subst gw'. rewrite Nat.add_0_r, Ea, Hwd. cbn. auto.
    + rewrite <- Nat.add_succ_comm. eapply IH; [exact Htail'| |exact Hn].
      apply Hadd. left. left. symmetry. exact Ea.
  - apply Nat.eqb_neq in Eiw. assert (Ea : addr_of i <> w) by (intro E; apply Eiw; rewrite <- E; symmetry; apply idx_addr).
    assert (Hxw : ~ In (addr_of i) [w]) by (apply not_in_single; exact Ea).
    destruct (e_par x) as [p|] eqn:Hgp.
    + destruct (findw h (addr_of i)) as [c|] eqn:Hf; [|destruct Hcell as (_ & _ & Hcp); congruence].
      destruct Hcell as (Hcnt & Hc0 & Hf0 & Hpar). rewrite Hgp in Hpar. cbn in Hpar.
      pose proof (hi_ref [] h HI _ c Hf (fun y => y)) as Href.
      assert (Hplt : (p < i)%nat) by (apply addr_lt; exact (hi_parent_lt [] h HI (addr_of i) c (addr_of p) Hf (eq_sym Hpar))).
      pose proof (Hfate _ c Hf Hxw) as R. unfold rule in R.
      destruct (existsb (Nat.eqb p) doomed) eqn:Eex.
      * (* the parent goes: no frame holds this window, so the reference consumed is the client's *)
        assert (Hg : gone [w] h h' (addr_of p)).
        { apply existsb_exists in Eex. destruct Eex as [j [Hj Ej]]. apply Nat.eqb_eq in Ej. subst j. apply Hdoom in Hj. tauto. }
        assert (Hfr : e_fr x = 0).
        { apply (Hnf i x Hx). destruct (Hgd (S p) p ltac:(lia) Hg) as [E|Hd'].
          - subst p. eapply ed_child; eauto.
          - eapply ed_step; eauto. }
        assert (Hpos : (0 <? e_cnt x) = true) by (apply Z.ltb_lt; lia).
        rewrite Hpos in Hn. cbn [andb] in Hn.
        destruct (e_cnt x - 1 + e_fr x =? 0) eqn:E1.
        -- apply Z.eqb_eq in E1.
           assert (Hd : findw h' (addr_of i) = None).
           { destruct (findw h' (addr_of i)) as [c'|]; auto. destruct R as [R1 _].
             destruct (R1 (addr_of p) (eq_sym Hpar) Hg) as [_ [_ Hne]]. lia. }
           destruct k as [|k]; cbn in Hn.
           ++ inversion Hn; subst gw'. rewrite Nat.add_0_r, Hd. cbn. auto.
           ++ rewrite <- Nat.add_succ_comm. eapply IH; [exact Htail'| |exact Hn].
              apply Hadd. right. split; congruence.
        -- apply Z.eqb_neq in E1.
           destruct (findw h' (addr_of i)) as [c'|] eqn:Hf'.
           ++ destruct R as [R1 _]. destruct (R1 (addr_of p) (eq_sym Hpar) Hg) as [Hr' [Hp' _]].
              destruct k as [|k]; cbn in Hn.
              ** inversion Hn; subst gw'. rewrite Nat.add_0_r, Hf'. cbn. repeat split; try lia. auto.
              ** rewrite <- Nat.add_succ_comm. eapply IH; [exact Htail'| |exact Hn].
                 apply Hkeep. eapply Hnotgone_live; eauto.
           ++ destruct R as [p' [Hp' [_ Hr']]]. lia.
      * assert (Hng : ~ gone [w] h h' (addr_of p)).
        { intro Hg. assert (Hin : In p doomed) by (apply Hdoom; split; auto).
          assert (Hex : existsb (Nat.eqb p) doomed = true) by (apply existsb_exists; exists p; split; [exact Hin|apply Nat.eqb_refl]).
          congruence. }
        cbn [andb] in Hn.
        destruct (findw h' (addr_of i)) as [c'|] eqn:Hf'.
        -- destruct R as [_ R2]. destruct R2 as [Hr' Hp'].
           { intros q Hq Hg. apply Hng. rewrite <- Hpar in Hq. inversion Hq; subst q. exact Hg. }
           destruct k as [|k]; cbn in Hn.
           ++ inversion Hn; subst gw'. rewrite Nat.add_0_r, Hf'. cbn. rewrite Hgp. cbn. repeat split; try lia; congruence.
           ++ rewrite <- Nat.add_succ_comm. eapply IH; [exact Htail'| |exact Hn].
              apply Hkeep. eapply Hnotgone_live; eauto.
        -- destruct R as [p' [Hp' [Hg' _]]]. rewrite <- Hpar in Hp'. inversion Hp'; subst p'. contradiction.
    + assert (Hng : ~ gone [w] h h' (addr_of i) /\ agreeE_cell x (findw h' (addr_of i))).
      { destruct (findw h (addr_of i)) as [c|] eqn:Hf.
        - destruct Hcell as (Hcnt & Hc0 & Hf0 & Hpar). rewrite Hgp in Hpar. cbn in Hpar.
          pose proof (Hfate _ c Hf Hxw) as R. unfold rule in R.
          destruct (findw h' (addr_of i)) as [c'|] eqn:Hf'.
          + destruct R as [_ R2]. destruct R2 as [Hr' Hp']; [intros q Hq; congruence|].
            split; [eapply Hnotgone_live; eauto|]. cbn. rewrite Hgp. cbn. repeat split; try lia; congruence.
          + destruct R as [p' [Hp' _]]. congruence.
        - rewrite (Hdead _ Hf). split; [|exact Hcell].
          intros [[E|[]]|[Hl _]]; congruence. }
      destruct Hng as [Hng Hcell'].
      destruct k as [|k]; cbn in Hn.
      * inversion Hn; subst gw'. rewrite Nat.add_0_r. exact Hcell'.
      * rewrite <- Nat.add_succ_comm. eapply IH; [exact Htail'| |exact Hn]. apply Hkeep. exact Hng.
Qed.

(* ---- the frame references, as calls ---- *)
Definition is_frame_op (o : op) : bool := match o with OFrameRef _ | OFrameUnref _ => true | _ => false end.
Definition op_preE (h : heap) (o : op) : Prop :=
  match o with OFrameRef w | OFrameUnref w => findw h w <> None | _ => op_pre h o end.
Definition effE (o : op) (h h' : heap) : Prop :=
  match o with OFrameRef w => eff_ref w h h' | OFrameUnref w => eff_unref w h h' | _ => eff o h h' end.

(* what the dispatch functions do for a frame: the event is logged, then the reference is taken / dropped *)
Definition frame_run (f : nat) (o : op) : M unit :=
  match o with
  | OFrameRef w => log_op (OFrameRef w) ;;; window_ref w
  | OFrameUnref w => log_op (OFrameUnref w) ;;; unref fixed f w
  | _ => ret tt
  end.

Lemma run_frame_ok : forall f o h, hinv [] h -> is_frame_op o = true -> op_preE h o ->
  match frame_run f o h with
  | Ok _ h' => hinv [] h' /\ effE o h h' /\ tr h' = o :: tr h
  | Fault _ _ => False
  | NoFuel => True
  end.
Proof.
  intros f o h HI Hfo Hpre.
  set (h1 := mkHeap (wins h) (reqs h) (rx h) (nextw h) (nextq h) (dlog h) (uninit_seen h) (o :: tr h)).
  assert (HI1 : hinv [] h1) by (apply hinv_log; exact HI).
  assert (Fw1 : forall a, findw h1 a = findw h a) by reflexivity.
  assert (Hnw1 : nextw h1 = nextw h) by reflexivity.
  destruct o; try discriminate; cbn [op_preE effE frame_run] in *; unfold bind at 1; unfold log_op; fold h1.
  - (* OFrameRef *)
    unfold window_ref.
    pose proof (upd_links_spec [] w (fun c => set_ref c (w_ref c + 1)) h1 HI1 Hpre) as Hu.
    assert (Hf : forall c, same_links c (set_ref c (w_ref c + 1)) /\ w_ref c <= w_ref (set_ref c (w_ref c + 1))).
    { intro c. split; [repeat split|cbn; lia]. }
    specialize (Hu Hf h1 eq_refl). pose proof (ktr_upd w (fun c => set_ref c (w_ref c + 1)) h1) as Ht.
    destruct (upd w _ h1) as [u h2| |]; [|contradiction|exact I].
    destruct Hu as [HI2 [_ Eh]]. split; [exact HI2|]. split; [|exact Ht]. subst h2. split; [rewrite nextw_upd_cell; exact Hnw1|].
    intro x. rewrite findw_upd_cell. rewrite Pos.eqb_sym. rewrite !Fw1. destruct (Pos.eqb x w) eqn:E.
    + apply Pos.eqb_eq in E. subst x. destruct (findw h w); cbn; auto.
    + destruct (findw h x); auto.
  - (* OFrameUnref *)
    destruct (live_some h1 w Hpre) as [c Hw].
    destruct (life_ok f) as [Hun _]. destruct (life_fate f) as [Huf _].
    pose proof (Hun [] h1 w HI1 (detached_nil h1) Hpre (fun x => x) (fun _ _ _ (x : In root []) => x) h1 eq_refl) as Hu.
    pose proof (Huf [] h1 w c HI1 (detached_nil h1) Hw (fun x => x) (fun _ (x : In root []) => x)) as Hf.
    pose proof (ktr_unref f w h1) as Ht.
    destruct (unref fixed f w h1) as [u h2| |]; [|contradiction|exact I].
    destruct Hu as [HI2 [_ Sh]]. destruct Hf as [F1 F2]. split; [exact HI2|]. split; [|exact Ht].
    split; [rewrite (sh_nextw h1 h2 Sh); exact Hnw1|].
    split; [intros a Hd; exact (shrinks_dead h1 h2 a Sh Hd)|].
    intros c0 Hw0. change (findw h1 w = Some c0) in Hw0. rewrite Hw in Hw0. inversion Hw0; subst c0. split.
    + intro Er. destruct (F1 Er) as [Ft Hd]. split; [|exact Hd].
      eapply fate_pre; [exact Ft|]. intros x Hx. rewrite Fw1. destruct (findw h x); auto.
    + intro Er. intro x. pose proof (F2 Er x) as G. exact G.
Qed.

(* a call that may be made on this ghost state, with what it needs about frames when a window goes:
   no frame holds a window attached below it *)
Definition no_frame_below (g : eghost) (o : op) : Prop :=
  match o with
  | OUnref w | OFrameUnref w =>
    forall xw, nth_error g (idx w) = Some xw -> e_cnt xw + e_fr xw = 1 ->
    forall i x, nth_error g i = Some x -> edesc g (idx w) i -> e_fr x = 0
  | _ => True
  end.

Lemma agreeE_stable : forall g h h', agreeE g h -> stable h h' -> agreeE g h'.
Proof.
  intros g h h' [L C] S. constructor; [rewrite (st_nextw h h' S); exact L|].
  intros i gw Hn. specialize (C i gw Hn). pose proof (st_wins h h' S (addr_of i)) as W.
  destruct (findw h (addr_of i)) as [c|], (findw h' (addr_of i)) as [c'|]; try contradiction; auto.
  destruct W as [W1 [W2 _]]. destruct C as (C1 & C2 & C3 & C4). cbn. repeat split; congruence.
Qed.

(* ref-count changes of one window, everything else as it was *)
Lemma agreeE_eset : forall g h h' w x x' d,
  agreeE g h -> nth_error g (idx w) = Some x -> nextw h' = nextw h ->
  (forall a, match findw h a, findw h' a with
             | Some c, Some c' => w_parent c' = w_parent c /\ w_ref c' = (if Pos.eqb a w then w_ref c + d else w_ref c)
             | None, None => True
             | _, _ => False
             end) ->
  findw h w <> None ->
  e_cnt x' + e_fr x' = e_cnt x + e_fr x + d -> 0 <= e_cnt x' -> 0 <= e_fr x' -> e_par x' = e_par x ->
  agreeE (eset g (idx w) x') h'.
Proof.
  intros g h h' w x x' d AG Hgw Hnw Hx Hl Hsum H0 H1 Hp.
  constructor; [rewrite Hnw, length_eset; exact (ae_len g h AG)|].
  intros i gi Hn. rewrite nth_eset in Hn. specialize (Hx (addr_of i)).
  destruct (Nat.eqb i (idx w)) eqn:E.
  - apply Nat.eqb_eq in E. subst i. rewrite Hgw in Hn. inversion Hn; subst gi. rewrite addr_idx in *.
    pose proof (ae_cells g h AG (idx w) x Hgw) as C. rewrite addr_idx in C.
    destruct (findw h w) as [c|]; [|congruence]. destruct (findw h' w) as [c'|]; [|contradiction].
    rewrite Pos.eqb_refl in Hx. destruct Hx as [X1 X2]. destruct C as (C1 & C2 & C3 & C4). cbn.
    repeat split; try lia. congruence.
  - apply Nat.eqb_neq in E. pose proof (ae_cells g h AG i gi Hn) as C.
    assert (Ea : Pos.eqb (addr_of i) w = false).
    { apply Pos.eqb_neq. intro Ea. apply E. rewrite <- Ea. symmetry. apply idx_addr. }
    rewrite Ea in Hx. destruct (findw h (addr_of i)) as [c|], (findw h' (addr_of i)) as [c'|]; try contradiction; auto.
    destruct Hx as [X1 X2]. destruct C as (C1 & C2 & C3 & C4). cbn. repeat split; congruence.
Qed.

Lemma only_ref_as_delta : forall h h' w, only_ref h h' w ->
  forall a, match findw h a, findw h' a with
            | Some c, Some c' => w_parent c' = w_parent c /\ w_ref c' = (if Pos.eqb a w then w_ref c + (-1) else w_ref c)
            | None, None => True
            | _, _ => False
            end.
Proof.
  intros h h' w H a. specialize (H a). destruct (findw h a), (findw h' a); auto.
Qed.

Lemma step_agreeE : forall g h o g',
  hinv [] h -> agreeE g h -> (event_free_op o = true \/ is_frame_op o = true) -> estep g o = Some g' ->
  no_frame_below g o ->
  op_preE h o /\ (forall h', effE o h h' -> agreeE g' h').
Proof.
  intros g h o g' HI AG Hkind Hstep Hnf.
  destruct o; (destruct Hkind as [Hk|Hk]; cbn in Hk; try discriminate); cbn [estep] in Hstep; cbn [op_preE op_pre effE eff].
  - (* ONew *)
    destruct (eusable g (idx p)) eqn:Hu; [|discriminate]. inversion Hstep; subst g'. clear Hstep.
    pose proof (agreeE_usable_live g h AG (idx p) Hu) as Hl. rewrite addr_idx in Hl. split; [exact Hl|].
    intros h' [Hnw [Hold [Hdom [cw [p' [G1 [G2 [G3 G4]]]]]]]].
    set (pi := if rootparent then etop g (idx p) else idx p).
    assert (Hpi : addr_of pi = p').
    { unfold pi. destruct rootparent; [|rewrite G4; apply addr_idx].
      destruct G4 as [ct [A1 [A2 A3]]].
      assert (Hlt : (idx p < S (length g))%nat).
      { destruct (agreeE_live_entry g h HI AG p Hl) as [gw Hn].
        assert (Hlen : (idx p < length g)%nat) by (apply nth_error_Some; congruence). lia. }
      assert (Hl' : findw h (addr_of (idx p)) <> None) by (rewrite addr_idx; exact Hl).
      destruct (agreeE_top g h HI AG (S (length g)) (idx p) Hlt Hl') as [ct' [B1 [B2 B3]]].
      rewrite addr_idx in B3. unfold etop.
      destruct (anc_linear h p p' A1 _ B3) as [H|H].
      - exact (anc_top h p' _ ct H A2 A3).
      - symmetry. exact (anc_top h _ p' ct' H B1 B2). }
    constructor.
    + rewrite Hnw, (ae_len g h AG), app_length. cbn. rewrite Nat.add_1_r. apply addr_succ.
    + intros i gw Hn. destruct (Nat.lt_ge_cases i (length g)) as [Hlt|Hge].
      * rewrite nth_error_app1 in Hn by exact Hlt. pose proof (ae_cells g h AG i gw Hn) as C.
        destruct (findw h (addr_of i)) as [c|] eqn:Hf.
        -- destruct (Hold _ c Hf) as [c' [H1 [H2 H3]]]. rewrite H1. destruct C as (C1 & C2 & C3 & C4). cbn. repeat split; congruence.
        -- rewrite Hdom; auto. rewrite (ae_len g h AG). intro E. apply addr_inj in E. lia.
      * rewrite nth_error_app2 in Hn by exact Hge. destruct (i - length g)%nat as [|d] eqn:Ed; cbn in Hn.
        -- inversion Hn; subst gw. assert (i = length g) by lia. subst i. rewrite <- (ae_len g h AG). rewrite G1.
           cbn. repeat split; try lia. fold pi. rewrite Hpi. congruence.
        -- destruct d; discriminate.
  - (* ORef *)
    destruct (eheld g (idx w)) eqn:Hh; [|discriminate]. inversion Hstep; subst g'. clear Hstep.
    pose proof (agreeE_held_live g h AG (idx w) Hh) as Hl. rewrite addr_idx in Hl. split; [exact Hl|].
    intros h' [Hnw Hx]. unfold eupd.
    destruct (agreeE_live_entry g h HI AG w Hl) as [gw Hgw]. unfold eget. rewrite Hgw.
    pose proof (ae_cells g h AG (idx w) gw Hgw) as C. rewrite addr_idx in C.
    destruct (findw h w) as [c|] eqn:Hw; [|congruence]. destruct C as (C1 & C2 & C3 & C4).
    eapply (agreeE_eset g h h' w gw _ 1 AG Hgw Hnw); cbn; try lia; auto. rewrite Hw. discriminate.
  - (* OUnref *)
    unfold eget in Hstep. destruct (nth_error g (idx w)) as [x|] eqn:Hgw; [|discriminate].
    destruct (0 <? e_cnt x) eqn:Hpos; [|discriminate]. apply Z.ltb_lt in Hpos.
    pose proof (ae_cells g h AG (idx w) x Hgw) as C. rewrite addr_idx in C.
    destruct (findw h w) as [c|] eqn:Hw; [|destruct C as (C1 & C2 & _); lia]. destruct C as (C1 & C2 & C3 & C4).
    split; [congruence|]. intros h' [Hnw [Hdead Hx]]. destruct (Hx c Hw) as [X1 X2].
    destruct (e_cnt x + e_fr x =? 1) eqn:E1.
    + apply Z.eqb_eq in E1. inversion Hstep; subst g'. clear Hstep.
      destruct (X1 ltac:(lia)) as [Ft Hwd]. unfold edestroy.
      constructor; [rewrite Hnw, length_edestroy_pass; exact (ae_len g h AG)|].
      intros i gi Hn.
      pose proof (edestroy_pass_agree g h h' w c HI AG Hw Ft Hwd Hdead (Hnf x Hgw E1) g 0%nat []) as P.
      apply (P (fun k gw Hk => Hk)); [|exact Hn].
      intro j. split; [intros []|intros [Hlt _]; lia].
    + apply Z.eqb_neq in E1. inversion Hstep; subst g'. clear Hstep.
      assert (Hne : w_ref c <> 1) by lia. specialize (X2 Hne).
      eapply (agreeE_eset g h h' w x _ (-1) AG Hgw Hnw (only_ref_as_delta _ _ _ X2)); cbn; try lia; auto. rewrite Hw. discriminate.
  - (* OClose *)
    unfold eget in Hstep. destruct (nth_error g (idx w)) as [x|] eqn:Hgw; [|discriminate].
    destruct ((0 <? e_cnt x) && match e_par x with Some _ => true | None => Nat.eqb (idx w) 0 end) eqn:Hc; [|discriminate].
    inversion Hstep; subst g'. clear Hstep. apply andb_prop in Hc. destruct Hc as [Hpos _]. apply Z.ltb_lt in Hpos.
    pose proof (ae_cells g h AG (idx w) x Hgw) as C. rewrite addr_idx in C.
    destruct (findw h w) as [c|] eqn:Hw; [|destruct C as (C1 & C2 & _); lia]. split; [congruence|].
    intros h' [Hnw [Hdead [Hoth [cw [cw' [G1 [G2 [G3 G4]]]]]]]]. rewrite Hw in G1. inversion G1; subst cw.
    constructor; [rewrite Hnw, length_eset; exact (ae_len g h AG)|].
    intros i gi Hn. rewrite nth_eset in Hn. destruct (Nat.eqb i (idx w)) eqn:E.
    + apply Nat.eqb_eq in E. subst i. rewrite Hgw in Hn. inversion Hn; subst gi. rewrite addr_idx. rewrite G2.
      destruct C as (C1 & C2 & C3 & C4). cbn. repeat split; try lia; congruence.
    + apply Nat.eqb_neq in E. pose proof (ae_cells g h AG i gi Hn) as Ci.
      assert (Ea : addr_of i <> w) by (intro Ea; apply E; rewrite <- Ea; symmetry; apply idx_addr).
      destruct (findw h (addr_of i)) as [ci|] eqn:Hfi.
      * destruct (Hoth _ ci Ea Hfi) as [ci' [H1 [H2 H3]]]. rewrite H1. destruct Ci as (D1 & D2 & D3 & D4). cbn. repeat split; congruence.
      * rewrite (Hdead _ Hfi). exact Ci.
  - (* ORestack *)
    destruct (is_restack c && eusable g (idx w)) eqn:Hc; [|discriminate]. inversion Hstep; subst g'.
    apply andb_prop in Hc. destruct Hc as [Hrs Hu].
    pose proof (agreeE_usable g h AG (idx w) Hu) as Ha. rewrite addr_idx in Ha.
    pose proof (anc_live_l h w root Ha) as Hl. destruct (live_some h w Hl) as [cw Hw].
    split; [split; [exact Hrs|exists cw; auto]|]. intros h' S. eapply agreeE_stable; eauto.
  - destruct (eusable g (idx w)) eqn:Hu; [|discriminate]. inversion Hstep; subst g'.
    pose proof (agreeE_usable_live g h AG (idx w) Hu) as Hl. rewrite addr_idx in Hl.
    split; [exact Hl|]. intros h' S. eapply agreeE_stable; eauto.
  - destruct (eusable g (idx w)) eqn:Hu; [|discriminate]. inversion Hstep; subst g'.
    pose proof (agreeE_usable_live g h AG (idx w) Hu) as Hl. rewrite addr_idx in Hl.
    split; [exact Hl|]. intros h' S. eapply agreeE_stable; eauto.
  - destruct (eusable g (idx w)) eqn:Hu; [|discriminate]. inversion Hstep; subst g'.
    pose proof (agreeE_usable_live g h AG (idx w) Hu) as Hl. rewrite addr_idx in Hl.
    split; [exact Hl|]. intros h' S. eapply agreeE_stable; eauto.
  - destruct (eusable g (idx w)) eqn:Hu; [|discriminate]. inversion Hstep; subst g'.
    pose proof (agreeE_usable_live g h AG (idx w) Hu) as Hl. rewrite addr_idx in Hl.
    split; [exact Hl|]. intros h' S. eapply agreeE_stable; eauto.
  - destruct (eusable g (idx w)) eqn:Hu; [|discriminate]. inversion Hstep; subst g'.
    pose proof (agreeE_usable g h AG (idx w) Hu) as Ha. rewrite addr_idx in Ha.
    split; [exact Ha|]. intros h' S. eapply agreeE_stable; eauto.
  - destruct (eusable g (idx w)) eqn:Hu; [|discriminate]. inversion Hstep; subst g'.
    pose proof (agreeE_usable_live g h AG (idx w) Hu) as Hl. rewrite addr_idx in Hl.
    split; [exact Hl|]. intros h' S. eapply agreeE_stable; eauto.
  - destruct (eusable g (idx w)) eqn:Hu; [|discriminate]. inversion Hstep; subst g'.
    pose proof (agreeE_usable_live g h AG (idx w) Hu) as Hl. rewrite addr_idx in Hl.
    split; [exact Hl|]. intros h' S. eapply agreeE_stable; eauto.
  - destruct (eusable g (idx w) && match j with Some a => eusable g (idx a) | None => true end) eqn:Hc; [|discriminate].
    inversion Hstep; subst g'. apply andb_prop in Hc. destruct Hc as [Hu Hj].
    pose proof (agreeE_usable_live g h AG (idx w) Hu) as Hl. rewrite addr_idx in Hl.
    split; [split; [exact Hl|split]|intros h' S; eapply agreeE_stable; eauto].
    + intros a Ea. subst j. pose proof (agreeE_usable_live g h AG (idx a) Hj) as Hla. rewrite addr_idx in Hla. exact Hla.
    + intros _. pose proof (agreeE_usable g h AG (idx w) Hu) as Ha. rewrite addr_idx in Ha. exact Ha.
  - destruct (eusable g (idx w)) eqn:Hu; [|discriminate]. inversion Hstep; subst g'.
    pose proof (agreeE_usable_live g h AG (idx w) Hu) as Hl. rewrite addr_idx in Hl.
    split; [exact Hl|]. intros h' S. eapply agreeE_stable; eauto.
  - inversion Hstep; subst g'. split; [exact I|]. intros h' S. eapply agreeE_stable; eauto.
  - (* OFrameRef *)
    destruct (ealive g (idx w)) eqn:Hh; [|discriminate]. inversion Hstep; subst g'. clear Hstep.
    pose proof (agreeE_alive_live g h AG (idx w) Hh) as Hl. rewrite addr_idx in Hl. split; [exact Hl|].
    intros h' [Hnw Hx]. unfold eupd.
    destruct (agreeE_live_entry g h HI AG w Hl) as [gw Hgw]. unfold eget. rewrite Hgw.
    pose proof (ae_cells g h AG (idx w) gw Hgw) as C. rewrite addr_idx in C.
    destruct (findw h w) as [c|] eqn:Hw; [|congruence]. destruct C as (C1 & C2 & C3 & C4).
    eapply (agreeE_eset g h h' w gw _ 1 AG Hgw Hnw); cbn; try lia; auto. rewrite Hw. discriminate.
  - (* OFrameUnref *)
    unfold eget in Hstep. destruct (nth_error g (idx w)) as [x|] eqn:Hgw; [|discriminate].
    destruct (0 <? e_fr x) eqn:Hpos; [|discriminate]. apply Z.ltb_lt in Hpos.
    pose proof (ae_cells g h AG (idx w) x Hgw) as C. rewrite addr_idx in C.
    destruct (findw h w) as [c|] eqn:Hw; [|destruct C as (C1 & C2 & _); lia]. destruct C as (C1 & C2 & C3 & C4).
    split; [congruence|]. intros h' [Hnw [Hdead Hx]]. destruct (Hx c Hw) as [X1 X2].
    destruct (e_cnt x + e_fr x =? 1) eqn:E1.
    + apply Z.eqb_eq in E1. inversion Hstep; subst g'. clear Hstep.
      destruct (X1 ltac:(lia)) as [Ft Hwd]. unfold edestroy.
      constructor; [rewrite Hnw, length_edestroy_pass; exact (ae_len g h AG)|].
      intros i gi Hn.
      pose proof (edestroy_pass_agree g h h' w c HI AG Hw Ft Hwd Hdead (Hnf x Hgw E1) g 0%nat []) as P.
      apply (P (fun k gw Hk => Hk)); [|exact Hn].
      intro j. split; [intros []|intros [Hlt _]; lia].
    + apply Z.eqb_neq in E1. inversion Hstep; subst g'. clear Hstep.
      assert (Hne : w_ref c <> 1) by lia. specialize (X2 Hne).
      eapply (agreeE_eset g h h' w x _ (-1) AG Hgw Hnw (only_ref_as_delta _ _ _ X2)); cbn; try lia; auto. rewrite Hw. discriminate.
Qed.
