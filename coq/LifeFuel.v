(* LifeFuel.v -- fuel.  (1) More fuel never changes a result: a computation that does not run out of fuel gives
   the same outcome with any larger fuel -- for every function of the model, the event dispatch with
   re-entrant handlers included.  So "out of fuel" is never mistaken for a verdict, and a verdict does not
   depend on the fuel it was obtained with. *)
From Coq Require Import ZArith List Bool PArith FMapPositive Lia.
From Tickit Require Import LifeDefs LifeUnfold LifeTrace.
Import ListNotations.
Local Open Scope Z_scope.

(* [m'] is [m] with at least as much fuel *)
Definition fle {A} (m m' : M A) : Prop := forall h, m h = NoFuel \/ m' h = m h.

Lemma fle_refl : forall A (m : M A), fle m m.
Proof. intros A m h. right. reflexivity. Qed.
Lemma fle_nofuel : forall A (m' : M A), fle nofuel m'.
Proof. intros A m' h. left. reflexivity. Qed.
Lemma fle_bind : forall A B (m m' : M A) (k k' : A -> M B), fle m m' -> (forall a, fle (k a) (k' a)) -> fle (bind m k) (bind m' k').
Proof.
  intros A B m m' k k' Hm Hk h. unfold bind. destruct (Hm h) as [E|E]; [left; rewrite E; reflexivity|]. rewrite E.
  destruct (m h) as [a h1|x hf|]; [apply Hk|right; reflexivity|left; reflexivity].
Qed.

Create HintDb fm.
Ltac fle1 :=
  match goal with
  | |- fle (bind _ _) (bind _ _) => apply fle_bind; [|intro]
  | |- fle nofuel _ => apply fle_nofuel
  | |- fle (let _ := _ in _) _ => cbv zeta
  | |- fle (if ?b then _ else _) (if ?b then _ else _) => destruct b
  | |- fle (match ?x with _ => _ end) (match ?x with _ => _ end) => destruct x
  | |- fle ?m ?m => apply fle_refl
  | |- fle _ _ => solve [auto with fm]
  end.
Ltac fle_auto := repeat fle1.

(* a fuel-indexed family is monotone *)
Ltac fmono_fix :=
  let f := fresh "f" in let IH := fresh "IH" in let f' := fresh "f'" in
  intro f; induction f as [|f IH]; intros f' Hle; intros; [apply fle_nofuel|];
  destruct f' as [|f']; [lia|]; assert (Hle' : (f <= f')%nat) by lia; cbn; fle_auto.

Lemma fm_get_root : forall f f', (f <= f')%nat -> forall a, fle (get_root f a) (get_root f' a).
Proof. fmono_fix. Qed.
Lemma fm_top_walk : forall f f', (f <= f')%nat -> forall a, fle (top_walk f a) (top_walk f' a).
Proof. fmono_fix. Qed.
Lemma fm_is_within : forall f f', (f <= f')%nat -> forall w a, fle (is_within f w a) (is_within f' w a).
Proof. fmono_fix. Qed.
Lemma fm_abs_geometry_up : forall f f', (f <= f')%nat -> forall w, fle (abs_geometry_up f w) (abs_geometry_up f' w).
Proof. fmono_fix. Qed.
#[export] Hint Resolve fm_get_root fm_top_walk fm_is_within fm_abs_geometry_up : fm.

Ltac fmono_def := intros; unfold abs_geometry, find_child, insert_last, hremove, hraise, hlower, do_change, request_change,
  purge, close, root_cleanup, window_new, window_show, window_hide, do_restore, flush_begin, flush_end, copy_children, is_child, scrollrect; fle_auto.
Lemma fm_focus_chain_changed : forall f f', (f <= f')%nat -> forall w, fle (focus_chain_changed f w) (focus_chain_changed f' w).
Proof. fmono_fix. Qed.
#[export] Hint Resolve fm_focus_chain_changed : fm.
Lemma fm_expose : forall f f', (f <= f')%nat -> forall a, fle (expose f a) (expose f' a).
Proof. fmono_fix. Qed.
#[export] Hint Resolve fm_expose : fm.
Lemma fm_abs_geometry : forall f f', (f <= f')%nat -> forall a, fle (abs_geometry f a) (abs_geometry f' a).
Proof. fmono_def. Qed.
#[export] Hint Resolve fm_abs_geometry : fm.
Lemma fm_find_child_from : forall f f', (f <= f')%nat -> forall s w, fle (find_child_from f s w) (find_child_from f' s w).
Proof. fmono_fix. Qed.
#[export] Hint Resolve fm_find_child_from : fm.
Lemma fm_find_child : forall f f', (f <= f')%nat -> forall p w, fle (find_child f p w) (find_child f' p w).
Proof. fmono_def. Qed.
#[export] Hint Resolve fm_find_child : fm.
Lemma fm_last_slot : forall f f', (f <= f')%nat -> forall s, fle (last_slot f s) (last_slot f' s).
Proof. fmono_fix. Qed.
#[export] Hint Resolve fm_last_slot : fm.
Lemma fm_insert_last : forall f f', (f <= f')%nat -> forall p w, fle (insert_last f p w) (insert_last f' p w).
Proof. fmono_def. Qed.
#[export] Hint Resolve fm_insert_last : fm.
Lemma fm_hremove : forall f f', (f <= f')%nat -> forall p w, fle (hremove f p w) (hremove f' p w).
Proof. fmono_def. Qed.
#[export] Hint Resolve fm_hremove : fm.
Lemma fm_raise_slot : forall f f', (f <= f')%nat -> forall s w, fle (raise_slot f s w) (raise_slot f' s w).
Proof. fmono_fix. Qed.
#[export] Hint Resolve fm_raise_slot : fm.
Lemma fm_hraise : forall f f', (f <= f')%nat -> forall p w, fle (hraise f p w) (hraise f' p w).
Proof. fmono_def. Qed.
#[export] Hint Resolve fm_hraise : fm.
Lemma fm_hlower : forall f f', (f <= f')%nat -> forall p w, fle (hlower f p w) (hlower f' p w).
Proof. fmono_def. Qed.
#[export] Hint Resolve fm_hlower : fm.
Lemma fm_do_change : forall f f', (f <= f')%nat -> forall ch p w, fle (do_change f ch p w) (do_change f' ch p w).
Proof. fmono_def. Qed.
#[export] Hint Resolve fm_do_change : fm.
Lemma fm_queue_last : forall f f', (f <= f')%nat -> forall q, fle (queue_last f q) (queue_last f' q).
Proof. fmono_fix. Qed.
#[export] Hint Resolve fm_queue_last : fm.
Lemma fm_request_change : forall f f', (f <= f')%nat -> forall ch w, fle (request_change f ch w) (request_change f' ch w).
Proof. fmono_def. Qed.
#[export] Hint Resolve fm_request_change : fm.
Lemma fm_purge_loop : forall f f', (f <= f')%nat -> forall r sl w, fle (purge_loop fixed f r sl w) (purge_loop fixed f' r sl w).
Proof. fmono_fix. Qed.
#[export] Hint Resolve fm_purge_loop : fm.
Lemma fm_purge : forall f f', (f <= f')%nat -> forall w, fle (purge fixed f w) (purge fixed f' w).
Proof. fmono_def. Qed.
#[export] Hint Resolve fm_purge : fm.
Lemma fm_close : forall f f', (f <= f')%nat -> forall w, fle (close fixed f w) (close fixed f' w).
Proof. fmono_def. Qed.
#[export] Hint Resolve fm_close : fm.
Lemma fm_free_queue : forall f f', (f <= f')%nat -> forall r, fle (free_queue f r) (free_queue f' r).
Proof. fmono_fix. Qed.
#[export] Hint Resolve fm_free_queue : fm.
Lemma fm_root_cleanup : forall f f', (f <= f')%nat -> forall w, fle (root_cleanup fixed f w) (root_cleanup fixed f' w).
Proof. fmono_def. Qed.
#[export] Hint Resolve fm_root_cleanup : fm.

Lemma fm_life : forall f f', (f <= f')%nat ->
  (forall w, fle (unref fixed f w) (unref fixed f' w)) /\ (forall w, fle (destroy fixed f w) (destroy fixed f' w)) /\
  (forall w, fle (destroy_loop fixed f w) (destroy_loop fixed f' w)).
Proof.
  induction f as [|f IH]; intros f' Hle; [repeat split; intros; apply fle_nofuel|].
  destruct f' as [|f']; [lia|]. destruct (IH f' ltac:(lia)) as (I1 & I2 & I3). assert (Hle' : (f <= f')%nat) by lia.
  repeat split; intros; rewrite ?unref_S', ?destroy_S', ?destroy_loop_S'; fle_auto.
Qed.
Lemma fm_unref : forall f f', (f <= f')%nat -> forall w, fle (unref fixed f w) (unref fixed f' w).
Proof. intros. apply fm_life. assumption. Qed.
#[export] Hint Resolve fm_unref : fm.
Lemma fm_root_parent_walk : forall f f', (f <= f')%nat -> forall p, fle (root_parent_walk f p) (root_parent_walk f' p).
Proof. fmono_fix. Qed.
#[export] Hint Resolve fm_root_parent_walk : fm.
Lemma fm_window_new : forall f f', (f <= f')%nat -> forall p a b c d, fle (window_new f p a b c d) (window_new f' p a b c d).
Proof. fmono_def. Qed.
#[export] Hint Resolve fm_window_new : fm.
Lemma fm_window_show : forall f f', (f <= f')%nat -> forall w, fle (window_show f w) (window_show f' w).
Proof. fmono_def. Qed.
#[export] Hint Resolve fm_window_show : fm.
Lemma fm_window_hide : forall f f', (f <= f')%nat -> forall w, fle (window_hide f w) (window_hide f' w).
Proof. fmono_def. Qed.
#[export] Hint Resolve fm_window_hide : fm.
Lemma fm_cell_visible_kids : forall f f', (f <= f')%nat -> forall k prev, fle (cell_visible_kids f k prev) (cell_visible_kids f' k prev).
Proof. fmono_fix. Qed.
#[export] Hint Resolve fm_cell_visible_kids : fm.
Lemma fm_cell_visible : forall f f', (f <= f')%nat -> forall w prev, fle (cell_visible f w prev) (cell_visible f' w prev).
Proof. fmono_fix. Qed.
#[export] Hint Resolve fm_cell_visible : fm.
Lemma fm_restore_walk : forall f f', (f <= f')%nat -> forall w, fle (restore_walk f w) (restore_walk f' w).
Proof. fmono_fix. Qed.
#[export] Hint Resolve fm_restore_walk : fm.
Lemma fm_do_restore : forall f f', (f <= f')%nat -> forall r, fle (do_restore f r) (do_restore f' r).
Proof. fmono_def. Qed.
#[export] Hint Resolve fm_do_restore : fm.
Lemma fm_apply_queue : forall f f', (f <= f')%nat -> forall q, fle (apply_queue f q) (apply_queue f' q).
Proof. fmono_fix. Qed.
#[export] Hint Resolve fm_apply_queue : fm.
Lemma fm_flush_begin : forall f f', (f <= f')%nat -> forall w, fle (flush_begin f w) (flush_begin f' w).
Proof. fmono_def. Qed.
Lemma fm_flush_end : forall f f', (f <= f')%nat -> forall w, fle (flush_end f w) (flush_end f' w).
Proof. fmono_def. Qed.
#[export] Hint Resolve fm_flush_begin fm_flush_end : fm.
Lemma fm_in_tree_both : forall f f', (f <= f')%nat ->
  (forall t w, fle (in_tree f t w) (in_tree f' t w)) /\ (forall k w, fle (in_tree_kids f k w) (in_tree_kids f' k w)).
Proof.
  induction f as [|f IH]; intros f' Hle; [split; intros; apply fle_nofuel|].
  destruct f' as [|f']; [lia|]. destruct (IH f' ltac:(lia)) as (I1 & I2). split; intros; cbn; fle_auto.
Qed.
Lemma fm_in_tree : forall f f', (f <= f')%nat -> forall t w, fle (in_tree f t w) (in_tree f' t w).
Proof. intros. apply fm_in_tree_both. assumption. Qed.
#[export] Hint Resolve fm_in_tree : fm.
Lemma fm_children_list : forall f f', (f <= f')%nat -> forall k, fle (children_list f k) (children_list f' k).
Proof. fmono_fix. Qed.
#[export] Hint Resolve fm_children_list : fm.
Lemma fm_copy_children : forall f f', (f <= f')%nat -> forall w, fle (copy_children f w) (copy_children f' w).
Proof. fmono_def. Qed.
#[export] Hint Resolve fm_copy_children : fm.
Lemma fm_is_child_from : forall f f', (f <= f')%nat -> forall k c, fle (is_child_from f k c) (is_child_from f' k c).
Proof. fmono_fix. Qed.
#[export] Hint Resolve fm_is_child_from : fm.
Lemma fm_is_child : forall f f', (f <= f')%nat -> forall w c, fle (is_child f w c) (is_child f' w c).
Proof. fmono_def. Qed.
#[export] Hint Resolve fm_is_child : fm.
Lemma fm_sib_walk : forall f f', (f <= f')%nat -> forall k a, fle (sib_walk f k a) (sib_walk f' k a).
Proof. fmono_fix. Qed.
#[export] Hint Resolve fm_sib_walk : fm.
Lemma fm_any_visible : forall f f', (f <= f')%nat -> forall k, fle (any_visible f k) (any_visible f' k).
Proof. fmono_fix. Qed.
Lemma fm_scroll_up : forall f f', (f <= f')%nat -> forall a c, fle (scroll_up f a c) (scroll_up f' a c).
Proof. fmono_fix. Qed.
#[export] Hint Resolve fm_scroll_up fm_any_visible : fm.
Lemma fm_scrollrect : forall f f', (f <= f')%nat -> forall w, fle (scrollrect f w) (scrollrect f' w).
Proof. fmono_def. Qed.
#[export] Hint Resolve fm_scrollrect : fm.
Lemma fm_count_up : forall f f', (f <= f')%nat -> forall w, fle (count_up f w) (count_up f' w).
Proof. fmono_fix. Qed.
#[export] Hint Resolve fm_count_up : fm.

Lemma fm_dispatch : forall f f', (f <= f')%nat ->
  (forall o, fle (run_op fixed f o) (run_op fixed f' o)) /\ (forall l, fle (run_ops fixed f l) (run_ops fixed f' l)) /\
  (forall w hs, fle (run_key_handlers fixed f w hs) (run_key_handlers fixed f' w hs)) /\
  (forall w hs t u, fle (run_mouse_handlers fixed f w hs t u) (run_mouse_handlers fixed f' w hs t u)) /\
  (forall w hs k, fle (run_ev_handlers fixed f w hs k) (run_ev_handlers fixed f' w hs k)) /\
  (forall w, fle (set_geometry fixed f w) (set_geometry fixed f' w)) /\
  fle (on_term_resize fixed f) (on_term_resize fixed f') /\
  (forall w, fle (do_expose fixed f w) (do_expose fixed f' w)) /\
  (forall w k, fle (expose_kids fixed f w k) (expose_kids fixed f' w k)) /\
  (forall w c, fle (expose_kids_asis fixed f w c) (expose_kids_asis fixed f' w c)) /\
  (forall w, fle (focus_lost fixed f w) (focus_lost fixed f' w)) /\
  (forall w c, fle (focus_gained fixed f w c) (focus_gained fixed f' w c)) /\
  (forall w, fle (window_flush fixed f w) (window_flush fixed f' w)) /\
  (forall w, fle (handle_key fixed f w) (handle_key fixed f' w)) /\
  (forall w s k, fle (key_kids fixed f w s k) (key_kids fixed f' w s k)) /\
  (forall w c, fle (key_kids_asis fixed f w c) (key_kids_asis fixed f' w c)) /\
  (forall w t i u, fle (handle_mouse fixed f w t i u) (handle_mouse fixed f' w t i u)) /\
  (forall w k t i u, fle (mouse_kids fixed f w k t i u) (mouse_kids fixed f' w k t i u)) /\
  (forall w c t i u, fle (mouse_kids_asis fixed f w c t i u) (mouse_kids_asis fixed f' w c t i u)) /\
  (forall w, fle (ref_up fixed f w) (ref_up fixed f' w)) /\ (forall l, fle (unref_list fixed f l) (unref_list fixed f' l)) /\
  (forall t, fle (on_term_mouse fixed f t) (on_term_mouse fixed f' t)).
Proof.
  induction f as [|f IH]; intros f' Hle; [repeat split; intros; apply fle_nofuel|].
  destruct f' as [|f']; [lia|]. assert (Hle' : (f <= f')%nat) by lia.
  destruct (IH f' Hle') as (I1 & I2 & I3 & I4 & I5 & I6 & I7 & I8 & I9 & I10 & I11 & I12 & I13 & I14 & I15 & I16 & I17 & I18 & I19 & I20 & I21 & I22).
  repeat split; intros.
  - rewrite !run_op_F. cbn [v_events_asis fixed]. fle_auto.
  - rewrite !run_ops_F. fle_auto.
  - rewrite !run_key_handlers_F. fle_auto.
  - rewrite !run_mouse_handlers_F. fle_auto.
  - rewrite !run_ev_handlers_F. fle_auto.
  - rewrite !set_geometry_F. cbn [v_events_asis fixed]. fle_auto.
  - rewrite !on_term_resize_F. cbn [v_events_asis fixed]. fle_auto.
  - rewrite !do_expose_F. cbn [v_events_asis fixed]. fle_auto.
  - rewrite !expose_kids_F. fle_auto.
  - rewrite !expose_kids_asis_F. fle_auto.
  - rewrite !focus_lost_F. cbn [v_events_asis fixed]. fle_auto.
  - rewrite !focus_gained_F. cbn [v_events_asis fixed]. fle_auto.
  - rewrite !window_flush_F. cbn [v_events_asis fixed]. fle_auto.
  - rewrite !handle_key_F. cbn [v_events_asis fixed]. fle_auto.
  - rewrite !key_kids_F. fle_auto.
  - rewrite !key_kids_asis_F. fle_auto.
  - rewrite !handle_mouse_F. cbn [v_events_asis fixed]. fle_auto.
  - rewrite !mouse_kids_F. fle_auto.
  - rewrite !mouse_kids_asis_F. fle_auto.
  - rewrite !ref_up_F. fle_auto.
  - rewrite !unref_list_F. fle_auto.
  - rewrite !on_term_mouse_F. cbn [v_events_asis fixed]. fle_auto.
Qed.

(* whole scripts: a run that does not stop for lack of fuel gives the same verdict with any larger fuel *)
Theorem fuel_monotone : forall l fuel fuel' k h, (fuel <= fuel')%nat ->
  (forall s, run_script_from fixed fuel l k h <> VNoFuel s) ->
  run_script_from fixed fuel' l k h = run_script_from fixed fuel l k h.
Proof.
  induction l as [|o l IH]; intros fuel fuel' k h Hle Hnf; cbn [run_script_from] in *; [reflexivity|].
  destruct (fm_dispatch fuel fuel' Hle) as (M1 & _). destruct (M1 o h) as [E|E].
  - rewrite E in Hnf. exfalso. apply (Hnf k). reflexivity.
  - rewrite E. destruct (run_op fixed fuel o h) as [u h'| |]; [apply IH; assumption|reflexivity|].
    exfalso. apply (Hnf k). reflexivity.
Qed.

(* ---- (2) with events there is no fuel bound: a key handler that sends the key again recurses for ever,
        in the model as in the library (stack exhaustion); every fuel runs out ---- *)
Definition loop_handler : handler := mkH 0 HKey 0 false [OKey].
Definition loop_script : list op := [OBind 1 0 HKey 0 false [OKey]; OKey].

Definition loop_heap (h : heap) : Prop :=
  exists c, PM.find 1%positive (wins h) = Some c /\ w_visible c = true /\ w_first c = None /\ w_focus c = None /\
            w_hs c = [loop_handler].

Lemma loop_heap_log : forall h o, loop_heap h ->
  loop_heap (mkHeap (wins h) (reqs h) (rx h) (nextw h) (nextq h) (dlog h) (uninit_seen h) (o :: tr h)).
Proof. intros h o H. exact H. Qed.

Lemma getw_find : forall a c h, PM.find a (wins h) = Some c -> getw a h = Ok c h.
Proof. intros a c h H. unfold getw. rewrite H. reflexivity. Qed.
Lemma loop_heap_ref : forall h c, PM.find 1%positive (wins h) = Some c -> w_visible c = true -> w_first c = None ->
  w_focus c = None -> w_hs c = [loop_handler] ->
  exists h', window_ref 1%positive h = Ok tt h' /\ loop_heap h'.
Proof.
  intros h c Hc Hv Hf Hfo Hhs. unfold window_ref, upd, bind. rewrite (getw_find _ c h Hc). unfold setw. rewrite Hc.
  eexists. split; [reflexivity|]. exists (set_ref c (w_ref c + 1)). split; [cbn [wins]; apply PM.gss|]. cbn. auto.
Qed.

Lemma key_runs_out : forall fuel h, loop_heap h -> run_op fixed fuel OKey h = NoFuel.
Proof.
  induction fuel as [fuel IH] using lt_wf_ind. intros h (c & Hc & Hv & Hf & Hfo & Hhs).
  destruct fuel as [|f1]; [reflexivity|]. rewrite run_op_F. unfold bind at 1. cbn [log_op].
  set (h1 := mkHeap (wins h) (reqs h) (rx h) (nextw h) (nextq h) (dlog h) (uninit_seen h) (OKey :: tr h)).
  assert (Hc1 : PM.find 1%positive (wins h1) = Some c) by exact Hc.
  unfold bind at 1. unfold root_bound at 1.
  assert (Em : PM.mem 1%positive (wins h1) = true) by (rewrite PM.mem_find, Hc1; reflexivity).
  rewrite Em. unfold bind at 1.
  assert (G : handle_key fixed f1 1%positive h1 = NoFuel); [|rewrite G; reflexivity].
  destruct f1 as [|f2]; [reflexivity|]. rewrite handle_key_F. cbn [v_events_asis fixed].
  unfold bind at 1. rewrite (getw_find _ c h1 Hc1). rewrite Hv. cbn [negb]. unfold bind at 1. cbn [log_op].
  set (h2 := mkHeap (wins h1) (reqs h1) (rx h1) (nextw h1) (nextq h1) (dlog h1) (uninit_seen h1) (OFrameRef 1%positive :: tr h1)).
  assert (Hc2 : PM.find 1%positive (wins h2) = Some c) by exact Hc.
  destruct (loop_heap_ref h2 c Hc2 Hv Hf Hfo Hhs) as (h3 & Hr & (c3 & Hc3 & Hv3 & Hf3 & Hfo3 & Hhs3)).
  unfold bind at 1. rewrite Hr.
  unfold bind at 1. rewrite (getw_find _ c3 h3 Hc3). rewrite Hf3. unfold bind at 1. cbn [ret fst snd].
  unfold bind at 1. rewrite (getw_find _ c3 h3 Hc3). rewrite Hfo3. unfold bind at 1. cbn [ret].
  unfold bind at 1. rewrite (getw_find _ c3 h3 Hc3). rewrite Hhs3. unfold bind at 1.
  assert (G : run_key_handlers fixed f2 1%positive [loop_handler] h3 = NoFuel); [|rewrite G; reflexivity].
  destruct f2 as [|f3]; [reflexivity|]. rewrite run_key_handlers_F. unfold bind at 1. rewrite (getw_find _ c3 h3 Hc3).
  rewrite Hhs3. cbn [h_is h_kind hkind_eqb loop_handler existsb h_id Z.eqb orb andb h_actions h_ret].
  unfold bind at 1.
  assert (G : run_ops fixed f3 [OKey] h3 = NoFuel); [|rewrite G; reflexivity].
  destruct f3 as [|f4]; [reflexivity|]. rewrite run_ops_F. unfold bind at 1.
  rewrite (IH f4 ltac:(lia) h3); [reflexivity|]. exists c3. auto.
Qed.

Theorem no_fuel_bound_with_events : forall fuel, exists s, run_script fixed fuel loop_script = VNoFuel s.
Proof.
  intro fuel. unfold run_script, loop_script. cbn [run_script_from].
  destruct fuel as [|f]; [exists O; reflexivity|].
  destruct (run_op fixed (S f) (OBind 1 0 HKey 0 false [OKey]) (heap0 fixed)) as [u h1| |] eqn:E.
  - assert (L : loop_heap h1).
    { rewrite run_op_F in E. cbn in E. inversion E; subst h1. eexists. split; [cbn; reflexivity|]. cbn. auto. }
    rewrite (key_runs_out (S f) h1 L). eauto.
  - rewrite run_op_F in E. cbn in E. discriminate.
  - eauto.
Qed.
