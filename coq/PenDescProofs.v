(* PenDescProofs.v -- tickit_pen_set_colour_attr_desc against the documented grammar (C19). *)
From Coq Require Import ZArith List Bool Lia ZifyBool Arith.
From Tickit Require Import Gen_Colours PenDefs PenSpec.
Import ListNotations.
Local Open Scope Z_scope.
Ltac Zify.zify_post_hook ::= Z.div_mod_to_equations.

(* ---------------- structure of set_desc ---------------- *)

Theorem set_desc_false p a s p' : set_desc p a s = (false, p') -> p' = p /\ parse_desc s = None.
Proof.
  unfold set_desc, set_desc_gen, parse_desc. destruct (parse_desc_gen true s) as [[v o]|].
  - discriminate.
  - intros [= <-]. auto.
Qed.

Theorem set_desc_true p a s p' : set_desc p a s = (true, p') ->
  exists i o, parse_desc s = Some (i, o) /\
    p' = match o with Some c => set_rgb (set_colour p a i) a c | None => set_colour p a i end.
Proof.
  unfold set_desc, set_desc_gen, parse_desc. destruct (parse_desc_gen true s) as [[v o]|].
  - intros [= <-]. exists v, o. auto.
  - discriminate.
Qed.

(* ---------------- "%d" ---------------- *)

Lemma scan_d_number_like s : scan_d s = None <-> number_like s = false.
Proof.
  unfold scan_d, number_like. destruct (skip_ws s) as [|c r].
  - cbn. tauto.
  - destruct (c =? 45) eqn:E1.
    + cbn [orb]. destruct (starts_digit r); split; intros H; try discriminate; reflexivity.
    + destruct (c =? 43) eqn:E2.
      * cbn [orb]. destruct (starts_digit r); split; intros H; try discriminate; reflexivity.
      * cbn [orb starts_digit]. destruct (is_digit c); split; intros H; try discriminate; reflexivity.
Qed.

Lemma scan_digits_app ds rest : forall acc, all_digits ds = true ->
  starts_digit rest = false -> scan_digits (ds ++ rest) acc = dec_value ds acc.
Proof.
  induction ds as [|c r IH]; intros acc Hd Hr.
  - cbn [app dec_value]. destruct rest as [|x t]; [reflexivity|].
    cbn [starts_digit] in Hr. cbn [scan_digits]. rewrite Hr. reflexivity.
  - cbn [all_digits] in Hd. apply andb_prop in Hd. destruct Hd as (Hc & Hd).
    cbn [app scan_digits dec_value]. rewrite Hc. apply IH; assumption.
Qed.

Lemma dec_value_nonneg ds : forall acc, all_digits ds = true -> 0 <= acc -> 0 <= dec_value ds acc.
Proof.
  induction ds as [|c r IH]; intros acc Hd Ha; [exact Ha|].
  cbn [all_digits] in Hd. apply andb_prop in Hd. destruct Hd as (Hc & Hd).
  cbn [dec_value]. apply IH; [exact Hd|]. unfold is_digit in Hc. lia.
Qed.

Lemma digit_not_space c : is_digit c = true -> is_space c = false /\ (c =? 45) = false /\ (c =? 43) = false.
Proof. unfold is_digit, is_space. lia. Qed.

Lemma wrap32_small v : -2147483648 <= v < 2147483648 -> wrap_signed 32 v = v.
Proof. intros H. unfold wrap_signed. change (2 ^ (32 - 1)) with 2147483648. change (2 ^ 32) with 4294967296. lia. Qed.

(* a documented decimal (optional '-', digits) followed by nothing or by a non-digit is
   read by "%d" as its value *)
Lemma scan_d_decimal body rest n : decimal_of body = Some n -> -255 <= n <= 255 ->
  starts_digit rest = false -> scan_d (body ++ rest) = Some n.
Proof.
  unfold decimal_of. intros Hdec Hn Hrest.
  destruct body as [|c r]; [discriminate|].
  destruct (c =? 45) eqn:E45.
  - (* negative *)
    destruct r as [|d r']; [discriminate|].
    destruct (all_digits (d :: r') && Nat.leb (length (d :: r')) 9) eqn:Ed; [|discriminate].
    injection Hdec as <-. apply andb_prop in Ed. destruct Ed as (Ed & _).
    assert (Hc : c = 45) by lia. subst c.
    unfold scan_d. cbn [app skip_ws]. change (is_space 45) with false. cbv iota.
    change (45 =? 45) with true. cbv iota.
    pose proof Ed as Ed'. cbn [all_digits] in Ed'. apply andb_prop in Ed'. destruct Ed' as (Hd & _).
    cbn [starts_digit app]. rewrite Hd.
    change (d :: r' ++ rest) with ((d :: r') ++ rest).
    rewrite scan_digits_app by assumption.
    pose proof (dec_value_nonneg (d :: r') 0 Ed ltac:(lia)) as Hnn.
    change (dec_value r' (d - 48)) with (dec_value (d :: r') 0) in *.
    set (m := dec_value (d :: r') 0) in *.
    unfold LONG_MAX. rewrite Z.max_l by lia. rewrite wrap32_small by lia. reflexivity.
  - destruct (all_digits (c :: r) && Nat.leb (length (c :: r)) 9) eqn:Ed; [|discriminate].
    injection Hdec as <-. apply andb_prop in Ed. destruct Ed as (Ed & _).
    pose proof Ed as Ed'. cbn [all_digits] in Ed'. apply andb_prop in Ed'. destruct Ed' as (Hd & _).
    destruct (digit_not_space c Hd) as (Hs & H45 & H43).
    unfold scan_d. cbn [app skip_ws]. rewrite Hs. cbv iota. rewrite H45, H43.
    cbn [starts_digit]. rewrite Hd.
    change (c :: r ++ rest) with ((c :: r) ++ rest).
    rewrite scan_digits_app by assumption.
    change (dec_value r (c - 48)) with (dec_value (c :: r) 0) in *.
    set (m := dec_value (c :: r) 0) in *.
    unfold LONG_MAX. rewrite Z.min_l by lia. rewrite wrap32_small by lia. reflexivity.
Qed.

(* ---------------- strchr / split at '#', trimming ---------------- *)

Lemma split_hash_strchr s :
  match strchr 35 s with
  | None => split_hash s = (s, None)
  | Some h => split_hash s = (firstn h s, Some (skipn (S h) s)) /\ (h < length s)%nat /\
              s = firstn h s ++ 35 :: skipn (S h) s
  end.
Proof.
  induction s as [|c r IH]; [reflexivity|].
  cbn [strchr split_hash]. destruct (c =? 35) eqn:E.
  - assert (c = 35) by lia. subst c. cbn. repeat split; lia.
  - destruct (strchr 35 r) as [h|]; cbn [option_map].
    + destruct IH as (IH1 & IH2 & IH3). rewrite IH1. cbn [firstn skipn length app].
      repeat split; [lia|]. f_equal. exact IH3.
    + rewrite IH. reflexivity.
Qed.

Lemma strip_trim l : strip_trailing_spaces l = firstn (trim_len l) l /\ (trim_len l <= length l)%nat /\
  Forall (fun c => c = 32) (skipn (trim_len l) l).
Proof.
  induction l as [|b r (IH1 & IH2 & IH3)]; [cbn; auto|].
  cbn [strip_trailing_spaces trim_len]. rewrite IH1.
  destruct (trim_len r) as [|n] eqn:En.
  - cbn [firstn]. destruct (b =? 32) eqn:Eb.
    + cbn [firstn length skipn]. repeat split; [lia|]. constructor; [lia|exact IH3].
    + cbn [firstn length skipn]. repeat split; [lia|exact IH3].
  - destruct r as [|y r']; [cbn in En; discriminate|].
    cbn [firstn length skipn] in *. repeat split; [lia|exact IH3].
Qed.

Lemma firstn_firstn_le {A} (a b : nat) (l : list A) : (a <= b)%nat -> firstn a (firstn b l) = firstn a l.
Proof. intros H. rewrite firstn_firstn. f_equal. lia. Qed.

(* the part of the description the name/number is taken from: the model's [len] leading
   characters are the specification's body *)
Definition model_len (s : str) : nat :=
  match strchr 35 s with
  | Some h => trim_len (firstn h s)
  | None => length s
  end.

Definition spec_body (s : str) : str :=
  let '(head, tail) := split_hash s in
  match tail with Some _ => strip_trailing_spaces head | None => head end.

Lemma body_is_prefix s :
  spec_body s = firstn (model_len s) s /\ (model_len s <= length s)%nat /\
  starts_digit (skipn (model_len s) s) = false.
Proof.
  unfold spec_body, model_len. pose proof (split_hash_strchr s) as H.
  destruct (strchr 35 s) as [h|].
  - destruct H as (H1 & H2 & H3). rewrite H1.
    destruct (strip_trim (firstn h s)) as (T1 & T2 & T3).
    rewrite firstn_length_le in T2 by lia.
    rewrite T1. split; [apply firstn_firstn_le; exact T2|]. split; [lia|].
    set (len := trim_len (firstn h s)) in *.
    rewrite H3 at 1. rewrite skipn_app. rewrite firstn_length_le by lia.
    destruct (skipn len (firstn h s)) as [|x t] eqn:Es.
    + cbn [app]. replace (len - h)%nat with O by lia. reflexivity.
    + inversion T3; subst. reflexivity.
  - rewrite H. split; [symmetry; apply firstn_all|]. split; [lia|]. rewrite skipn_all. reflexivity.
Qed.

(* ---------------- the name table ---------------- *)

Lemma name_match_exact : forall len s name, (len <= length s)%nat ->
  (Nat.eqb (length name) len && strncmp_eq len s name) = str_eqb name (firstn len s).
Proof.
  induction len as [|n IH]; intros s name Hlen.
  - cbn [strncmp_eq firstn]. destruct name; reflexivity.
  - destruct s as [|x s']; [cbn in Hlen; lia|]. cbn [length] in Hlen.
    destruct name as [|y name']; [reflexivity|].
    cbn [length Nat.eqb strncmp_eq firstn str_eqb].
    rewrite <- (IH s' name') by lia. rewrite (Z.eqb_sym y x).
    destruct (Nat.eqb (length name') n), (x =? y); reflexivity.
Qed.

Lemma find_name_lookup tbl s len : (len <= length s)%nat ->
  find_name true tbl s len = lookup_name tbl (firstn len s).
Proof.
  intros Hlen. induction tbl as [|[name col] rest IH]; [reflexivity|].
  cbn [find_name lookup_name]. rewrite name_match_exact by exact Hlen.
  destruct (str_eqb name (firstn len s)); [reflexivity|exact IH].
Qed.

(* ---------------- "%2hhx%2hhx%2hhx" on six hex digits ---------------- *)

Lemma hex_val_range c x : hex_val c = Some x ->
  0 <= x <= 15 /\ is_space c = false /\ (c =? 45) = false /\ (c =? 43) = false /\
  (c =? 120) = false /\ (c =? 88) = false /\ ((c =? 48) = true -> x = 0).
Proof.
  unfold hex_val, is_digit, is_space.
  destruct ((48 <=? c) && (c <=? 57)) eqn:E1.
  - intros [= <-]. lia.
  - destruct ((97 <=? c) && (c <=? 102)) eqn:E2.
    + intros [= <-]. lia.
    + destruct ((65 <=? c) && (c <=? 70)) eqn:E3; [|discriminate]. intros [= <-]. lia.
Qed.

Lemma scan_hhx2_two a b x y rest : hex_val a = Some x -> hex_val b = Some y ->
  scan_hhx2 (a :: b :: rest) = Some (16 * x + y, rest).
Proof.
  intros Ha Hb.
  destruct (hex_val_range a x Ha) as (Hx & Hsa & Ha45 & Ha43 & _ & _ & Ha0).
  destruct (hex_val_range b y Hb) as (Hy & _ & _ & _ & Hb120 & Hb88 & _).
  unfold scan_hhx2. cbn [skip_ws]. rewrite Hsa. cbv iota. rewrite Ha45, Ha43. cbn [orb]. cbv iota beta.
  change (2 >? 0) with true. cbn [andb].
  destruct (a =? 48) eqn:E0.
  - rewrite Hb120, Hb88. cbn [orb]. rewrite andb_false_r. cbv iota beta.
    change (2 - 1 >? 0) with true. cbv iota. rewrite Hb.
    specialize (Ha0 eq_refl). subst x.
    destruct rest as [|d2 r2]; cbv iota beta; change (2 - 1 - 1 >? 0) with false; cbv iota;
      cbn [orb]; cbv iota; f_equal; f_equal; lia.
  - cbv iota beta. change (2 >? 0) with true. cbv iota. rewrite Ha.
    change (2 - 1 >? 0) with true. cbv iota. rewrite Hb. cbv iota beta.
    change (2 >? 0) with true. rewrite orb_true_r. cbv iota. f_equal. f_equal. lia.
Qed.

Lemma scan_rgb_hex6 t c : hex6 t = Some c -> scan_rgb t = Some c.
Proof.
  unfold hex6. destruct t as [|a [|b [|c0 [|d [|e [|f [|g t']]]]]]]; try discriminate.
  destruct (hex_val a) as [xa|] eqn:Ea; [|discriminate].
  destruct (hex_val b) as [xb|] eqn:Eb; [|discriminate].
  destruct (hex_val c0) as [xc|] eqn:Ec; [|discriminate].
  destruct (hex_val d) as [xd|] eqn:Ed; [|discriminate].
  destruct (hex_val e) as [xe|] eqn:Ee; [|discriminate].
  destruct (hex_val f) as [xf|] eqn:Ef; [|discriminate].
  intros [= <-]. unfold scan_rgb.
  rewrite (scan_hhx2_two a b xa xb _ Ea Eb), (scan_hhx2_two c0 d xc xd _ Ec Ed), (scan_hhx2_two e f xe xf _ Ee Ef).
  reflexivity.
Qed.

(* ---------------- the documented grammar ---------------- *)

(* the stripped description, and whether "hi-" was there *)
Definition strip_hi (s0 : str) : str * bool :=
  if starts_with HI s0 then (skipn 3 s0, true) else (s0, false).

Lemma spec_desc_unfold s0 : spec_desc s0 =
  let '(s, hi) := strip_hi s0 in
  let tail := snd (split_hash s) in
  let body := spec_body s in
  if number_like s then
    match decimal_of body with
    | Some n =>
      if hi then Unspecified
      else if (-1 <=? n) && (n <=? 255) then
        match tail with
        | None => MustAccept n None
        | Some t => match hex6 t with Some c => MustAccept n (Some c) | None => Unspecified end
        end
      else Unspecified
    | None => Unspecified
    end
  else
    match lookup_name doc_names body with
    | Some col =>
      let i := if hi then col + 8 else col in
      match tail with
      | None => MustAccept i None
      | Some t => match hex6 t with Some c => MustAccept i (Some c) | None => Unspecified end
      end
    | None =>
      match lookup_name colournames body with
      | Some _ => Unspecified
      | None => MustReject
      end
    end.
Proof.
  unfold spec_desc, strip_hi, spec_body. destruct (starts_with HI s0);
    destruct (split_hash _) as [head tail]; reflexivity.
Qed.

Lemma str_eqb_eq : forall a b, str_eqb a b = true -> a = b.
Proof.
  induction a as [|x a IH]; intros [|y b] H; try discriminate; [reflexivity|].
  cbn [str_eqb] in H. apply andb_prop in H. destruct H as (H1 & H2).
  assert (x = y) by lia. subst y. rewrite (IH b H2). reflexivity.
Qed.

(* the documented names are in colournames[] as it is now, with the documented indexes *)
Lemma doc_in_table s col : lookup_name doc_names s = Some col ->
  lookup_name colournames s = Some col /\ (col <? 8) = true.
Proof.
  unfold doc_names. cbn [lookup_name].
  repeat (match goal with
          | |- (if str_eqb ?n s then _ else _) = _ -> _ =>
            destruct (str_eqb n s) eqn:E;
            [apply str_eqb_eq in E; subst s; intros [= <-]; vm_compute; split; reflexivity|clear E]
          end).
  discriminate.
Qed.

Lemma parse_desc_unfold s0 : parse_desc s0 =
  let '(s, hi) := strip_hi s0 in
  let rgbpart := match strchr 35 s with Some h => scan_rgb (skipn (S h) s) | None => None end in
  match scan_d s with
  | Some val => if hi && (val >? 7) then None else Some (val + (if hi then 8 else 0), rgbpart)
  | None =>
    match find_name true colournames s (model_len s) with
    | Some col => Some (if (col <? 8) && hi then col + 8 else col, rgbpart)
    | None => None
    end
  end.
Proof.
  unfold parse_desc, parse_desc_gen, strip_hi, model_len.
  destruct (starts_with HI s0); cbv iota beta.
  - change (8 >? 0) with true. destruct (scan_d _); [reflexivity|].
    destruct (find_name _ _ _ _); [|reflexivity]. rewrite andb_true_r. reflexivity.
  - change (0 >? 0) with false. cbn [andb]. destruct (scan_d _) as [v|].
    + rewrite Z.add_0_r. reflexivity.
    + destruct (find_name _ _ _ _); [|reflexivity]. rewrite andb_false_r. reflexivity.
Qed.

Lemma rgbpart_of_tail s t c : snd (split_hash s) = Some t -> hex6 t = Some c ->
  match strchr 35 s with Some h => scan_rgb (skipn (S h) s) | None => None end = Some c.
Proof.
  intros Ht Hc. pose proof (split_hash_strchr s) as H. destruct (strchr 35 s) as [h|].
  - destruct H as (H1 & _). rewrite H1 in Ht. cbn [snd] in Ht. injection Ht as <-.
    apply scan_rgb_hex6; exact Hc.
  - rewrite H in Ht. discriminate.
Qed.

Lemma rgbpart_none s : snd (split_hash s) = None ->
  match strchr 35 s with Some h => scan_rgb (skipn (S h) s) | None => None end = None.
Proof.
  intros Ht. pose proof (split_hash_strchr s) as H. destruct (strchr 35 s) as [h|]; [|reflexivity].
  destruct H as (H1 & _). rewrite H1 in Ht. discriminate.
Qed.

(* every string of the documented grammar is accepted with the documented meaning *)
Theorem spec_accept s0 i c : spec_desc s0 = MustAccept i c -> parse_desc s0 = Some (i, c).
Proof.
  rewrite spec_desc_unfold, parse_desc_unfold. destruct (strip_hi s0) as [s hi]. cbv zeta.
  destruct (body_is_prefix s) as (Hbody & Hlen & Hrest).
  destruct (number_like s) eqn:Enl.
  - destruct (decimal_of (spec_body s)) as [n|] eqn:Edec; [|discriminate].
    destruct hi; [discriminate|].
    destruct ((-1 <=? n) && (n <=? 255)) eqn:Ern; [|discriminate].
    assert (Hscan : scan_d s = Some n).
    { rewrite <- (firstn_skipn (model_len s) s). rewrite <- Hbody.
      apply scan_d_decimal; [exact Edec|lia|exact Hrest]. }
    rewrite Hscan. cbn [andb]. rewrite Z.add_0_r.
    destruct (snd (split_hash s)) as [t|] eqn:Et.
    + destruct (hex6 t) as [c'|] eqn:Eh; [|discriminate]. intros [= <- <-].
      rewrite (rgbpart_of_tail s t c' Et Eh). reflexivity.
    + intros [= <- <-]. rewrite (rgbpart_none s Et). reflexivity.
  - assert (Hscan : scan_d s = None) by (apply scan_d_number_like; exact Enl).
    rewrite Hscan. rewrite find_name_lookup by exact Hlen. rewrite <- Hbody.
    destruct (lookup_name doc_names (spec_body s)) as [col|] eqn:Edoc.
    2:{ destruct (lookup_name colournames (spec_body s)); discriminate. }
    destruct (doc_in_table _ _ Edoc) as (Htab & Hlt). rewrite Htab, Hlt. cbn [andb].
    destruct (snd (split_hash s)) as [t|] eqn:Et.
    + destruct (hex6 t) as [c'|] eqn:Eh; [|discriminate]. intros [= <- <-].
      rewrite (rgbpart_of_tail s t c' Et Eh). reflexivity.
    + intros [= <- <-]. rewrite (rgbpart_none s Et). reflexivity.
Qed.

(* a string that is neither number-like nor a colour name is rejected (this is what the
   pinned code violated: see desc_unfixed_refuted) *)
Theorem spec_reject s0 : spec_desc s0 = MustReject -> parse_desc s0 = None.
Proof.
  rewrite spec_desc_unfold, parse_desc_unfold. destruct (strip_hi s0) as [s hi]. cbv zeta.
  destruct (body_is_prefix s) as (Hbody & Hlen & Hrest).
  destruct (number_like s) eqn:Enl.
  - destruct (decimal_of (spec_body s)) as [n|]; [|discriminate].
    destruct hi; [discriminate|]. destruct ((-1 <=? n) && (n <=? 255)); [|discriminate].
    destruct (snd (split_hash s)) as [t|]; [|discriminate]. destruct (hex6 t); discriminate.
  - assert (Hscan : scan_d s = None) by (apply scan_d_number_like; exact Enl).
    rewrite Hscan. rewrite find_name_lookup by exact Hlen. rewrite <- Hbody.
    destruct (lookup_name doc_names (spec_body s)) as [col|].
    + destruct (snd (split_hash s)) as [t|]; [|discriminate]. destruct (hex6 t); discriminate.
    + destruct (lookup_name colournames (spec_body s)); [discriminate|reflexivity].
Qed.

(* the pinned code (prefix match): "b" must be rejected, but is taken for black *)
Theorem desc_unfixed_refuted :
  exists s, spec_desc s = MustReject /\ parse_desc_gen false s = Some (0, None).
Proof. exists [98]. vm_compute. split; reflexivity. Qed.

(* the table as translated now: the eight documented names, with and without "hi-" *)
Example documented_names :
  map (fun n => parse_desc n)
      [[98;108;97;99;107]; [114;101;100]; [103;114;101;101;110]; [121;101;108;108;111;119];
       [98;108;117;101]; [109;97;103;101;110;116;97]; [99;121;97;110]; [119;104;105;116;101]]
  = map (fun i => Some (i, None)) [0; 1; 2; 3; 4; 5; 6; 7] /\
  map (fun n => parse_desc (HI ++ n))
      [[98;108;97;99;107]; [114;101;100]; [103;114;101;101;110]; [121;101;108;108;111;119];
       [98;108;117;101]; [109;97;103;101;110;116;97]; [99;121;97;110]; [119;104;105;116;101]]
  = map (fun i => Some (i, None)) [8; 9; 10; 11; 12; 13; 14; 15] /\
  (* "red #FF1515" of the man page *)
  parse_desc [114;101;100;32;35;70;70;49;53;49;53] = Some (1, Some (mkRgb 255 21 21)) /\
  spec_desc [114;101;100;32;35;70;70;49;53;49;53] = MustAccept 1 (Some (mkRgb 255 21 21)).
Proof. vm_compute. repeat split; reflexivity. Qed.

Theorem desc_grammar s :
  (forall i c, spec_desc s = MustAccept i c -> parse_desc s = Some (i, c)) /\
  (spec_desc s = MustReject -> parse_desc s = None).
Proof. split; [intros i c; exact (spec_accept s i c)|exact (spec_reject s)]. Qed.
