(* The pen stack of a render buffer: model of the reference counting in src/renderbuffer.c *)
From Coq Require Import ZArith List Bool FMapPositive Lia.
From Tickit Require Import LifeDefs.
Import ListNotations.
Local Open Scope Z_scope.

(* ======================================================================================
   The pen stack of a render buffer (src/renderbuffer.c): the current pen, the save /
   savepen frames and the drawn cells all hold counted references to pens; TEXT cells hold
   one to a string as well.  Draw calls cover a whole line, so that a line is one span.
   ====================================================================================== *)
Inductive rcell := RcSkip | RcText (pen str : positive) | RcErase (pen : positive).
Record rbuf := mkRB {
  rb_pens : PM.t Z;          (* live pens, with their counts *)
  rb_strs : PM.t Z;          (* live strings, with their counts *)
  rb_cur : positive;         (* rb->pen *)
  rb_stack : list positive;  (* stack->pen of each frame, innermost first *)
  rb_cells : list rcell;     (* first cell of every line *)
  rb_next : positive }.
Inductive rop :=
| RSave | RSavePen | RRestore
| RSetPen (given : bool)
| RText (line : nat) | RErase (line : nat) | RClear
| RReset | RFlush.

(* tickit_pen_ref / tickit_string_ref, tickit_pen_unref / tickit_string_unref; None: the object is gone *)
Definition rc_ref (p : positive) (m : PM.t Z) : option (PM.t Z) :=
  match PM.find p m with
  | Some n => Some (PM.add p (n + 1) m)
  | None => None
  end.
Definition rc_unref (p : positive) (m : PM.t Z) : option (PM.t Z) :=
  match PM.find p m with
  | Some n => if n - 1 =? 0 then Some (PM.remove p m) else Some (PM.add p (n - 1) m)
  | None => None
  end.

(* cont_cell / the switch of tickit_renderbuffer_destroy *)
Definition rb_release (c : rcell) (ps : PM.t Z * PM.t Z) : option (PM.t Z * PM.t Z) :=
  match c with
  | RcSkip => Some ps
  | RcText p s =>
    match rc_unref s (snd ps) with
    | Some strs' =>
      match rc_unref p (fst ps) with
      | Some pens' => Some (pens', strs')
      | None => None
      end
    | None => None
    end
  | RcErase p =>
    match rc_unref p (fst ps) with
    | Some pens' => Some (pens', snd ps)
    | None => None
    end
  end.
Fixpoint rb_release_all (l : list rcell) (ps : PM.t Z * PM.t Z) : option (PM.t Z * PM.t Z) :=
  match l with
  | [] => Some ps
  | c :: l' => match rb_release c ps with Some ps' => rb_release_all l' ps' | None => None end
  end.
(* free_stack *)
Fixpoint rb_free_stack (st : list positive) (pens : PM.t Z) : option (PM.t Z) :=
  match st with
  | [] => Some pens
  | p :: st' => match rc_unref p pens with Some pens' => rb_free_stack st' pens' | None => None end
  end.

Fixpoint set_nth {A} (n : nat) (x : A) (l : list A) : list A :=
  match l, n with
  | [], _ => []
  | _ :: l', O => x :: l'
  | y :: l', S n' => y :: set_nth n' x l'
  end.

(* erase(rb, line, 0, cols) *)
Definition rb_erase (line : nat) (r : rbuf) : option rbuf :=
  match nth_error (rb_cells r) line with
  | None => Some r                                               (* xlate_and_clip fails *)
  | Some old =>
    match rb_release old (rb_pens r, rb_strs r) with             (* make_span: cont_cell *)
    | Some (pens1, strs1) =>
      match rc_ref (rb_cur r) pens1 with                         (* cell->pen = tickit_pen_ref(rb->pen) *)
      | Some pens2 =>
        Some (mkRB pens2 strs1 (rb_cur r) (rb_stack r) (set_nth line (RcErase (rb_cur r)) (rb_cells r)) (rb_next r))
      | None => None
      end
    | None => None
    end
  end.
Fixpoint rb_erase_lines (n : nat) (line : nat) (r : rbuf) : option rbuf :=
  match n with
  | O => Some r
  | S n' => match rb_erase line r with Some r' => rb_erase_lines n' (S line) r' | None => None end
  end.

(* put_text: tickit_string_new, put_string, tickit_string_unref *)
Definition rb_text (line : nat) (r : rbuf) : option rbuf :=
  let s := rb_next r in
  let strs0 := PM.add s 1 (rb_strs r) in
  match nth_error (rb_cells r) line with
  | None =>
    match rc_unref s strs0 with
    | Some strs' => Some (mkRB (rb_pens r) strs' (rb_cur r) (rb_stack r) (rb_cells r) (Pos.succ s))
    | None => None
    end
  | Some old =>
    match rb_release old (rb_pens r, strs0) with
    | Some (pens1, strs1) =>
      match rc_ref (rb_cur r) pens1 with
      | Some pens2 =>
        match rc_ref s strs1 with
        | Some strs2 =>
          match rc_unref s strs2 with
          | Some strs3 =>
            Some (mkRB pens2 strs3 (rb_cur r) (rb_stack r) (set_nth line (RcText (rb_cur r) s) (rb_cells r)) (Pos.succ s))
          | None => None
          end
        | None => None
        end
      | None => None
      end
    | None => None
    end
  end.

(* tickit_renderbuffer_reset *)
Definition rb_reset (r : rbuf) : option rbuf :=
  match rb_release_all (rb_cells r) (rb_pens r, rb_strs r) with
  | Some (pens1, strs1) =>
    match rc_unref (rb_cur r) pens1 with
    | Some pens2 =>
      let p := rb_next r in
      match rb_free_stack (rb_stack r) (PM.add p 1 pens2) with
      | Some pens3 => Some (mkRB pens3 strs1 p [] (map (fun _ => RcSkip) (rb_cells r)) (Pos.succ p))
      | None => None
      end
    | None => None
    end
  | None => None
  end.

(* what tickit_renderbuffer_flush_to_term reads before it resets the buffer *)
Definition rb_cell_live (r : rbuf) (c : rcell) : bool :=
  match c with
  | RcSkip => true
  | RcText p s => PM.mem p (rb_pens r) && PM.mem s (rb_strs r)
  | RcErase p => PM.mem p (rb_pens r)
  end.

Definition rb_step (o : rop) (r : rbuf) : option rbuf :=
  match o with
  | RSave | RSavePen =>
    match rc_ref (rb_cur r) (rb_pens r) with                      (* stack->pen = tickit_pen_ref(rb->pen) *)
    | Some pens' => Some (mkRB pens' (rb_strs r) (rb_cur r) (rb_cur r :: rb_stack r) (rb_cells r) (rb_next r))
    | None => None
    end
  | RRestore =>
    match rb_stack r with
    | [] => Some r
    | top :: st =>
      match rc_unref (rb_cur r) (rb_pens r) with                  (* tickit_pen_unref(rb->pen); rb->pen = stack->pen *)
      | Some pens' => Some (mkRB pens' (rb_strs r) top st (rb_cells r) (rb_next r))
      | None => None
      end
    end
  | RSetPen _ =>
    let p := rb_next r in
    let pens0 := PM.add p 1 (rb_pens r) in                        (* newpen = tickit_pen_new() *)
    if match rb_stack r with [] => true | top :: _ => PM.mem top pens0 end   (* tickit_pen_copy(newpen, prevpen, 0) *)
    then
      match rc_unref (rb_cur r) pens0 with
      | Some pens' => Some (mkRB pens' (rb_strs r) p (rb_stack r) (rb_cells r) (Pos.succ p))
      | None => None
      end
    else None
  | RText line => rb_text line r
  | RErase line => rb_erase line r
  | RClear => rb_erase_lines (length (rb_cells r)) O r
  | RReset => rb_reset r
  | RFlush => if forallb (rb_cell_live r) (rb_cells r) then rb_reset r else None
  end.

(* tickit_renderbuffer_destroy: what is left alive afterwards *)
Definition rb_drop (r : rbuf) : option (PM.t Z * PM.t Z) :=
  match rb_release_all (rb_cells r) (rb_pens r, rb_strs r) with
  | Some (pens1, strs1) =>
    match rc_unref (rb_cur r) pens1 with
    | Some pens2 =>
      match rb_free_stack (rb_stack r) pens2 with
      | Some pens3 => Some (pens3, strs1)
      | None => None
      end
    | None => None
    end
  | None => None
  end.

(* tickit_renderbuffer_new *)
Definition rb_new (lines : nat) : rbuf :=
  mkRB (PM.add 1%positive 1 (PM.empty Z)) (PM.empty Z) 1%positive [] (repeat RcSkip lines) 2%positive.

(* observation: after every call the numbers of live pens, strings and stack frames; then what
   the final unref leaves behind *)
Definition rb_counts (r : rbuf) : Z * Z * Z :=
  (Z.of_nat (PM.cardinal (rb_pens r)), Z.of_nat (PM.cardinal (rb_strs r)), Z.of_nat (length (rb_stack r))).
Inductive rverdict := RVOk (obs : list (Z * Z * Z)) (left_pens left_strs : Z) | RVFault (step : nat).
Fixpoint rb_run_from (l : list rop) (step : nat) (r : rbuf) (acc : list (Z * Z * Z)) : rverdict :=
  match l with
  | [] =>
    match rb_drop r with
    | Some (pens, strs) => RVOk (rev acc) (Z.of_nat (PM.cardinal pens)) (Z.of_nat (PM.cardinal strs))
    | None => RVFault step
    end
  | o :: l' =>
    match rb_step o r with
    | Some r' => rb_run_from l' (S step) r' (rb_counts r' :: acc)
    | None => RVFault step
    end
  end.
Definition rb_run (lines : nat) (l : list rop) : rverdict := rb_run_from l O (rb_new lines) [].

(* the calls of a program, without the final unref *)
Fixpoint rb_exec (l : list rop) (r : rbuf) : option rbuf :=
  match l with
  | [] => Some r
  | o :: l' => match rb_step o r with Some r' => rb_exec l' r' | None => None end
  end.

(* ---- specification: who holds what ---- *)
Definition cnt (H : list positive) (p : positive) : nat := count_occ Pos.eq_dec H p.
Definition pens_of (c : rcell) : list positive :=
  match c with RcSkip => [] | RcText p _ => [p] | RcErase p => [p] end.
Definition strs_of (c : rcell) : list positive :=
  match c with RcText _ s => [s] | _ => [] end.
Definition cell_pens (l : list rcell) : list positive := flat_map pens_of l.
Definition cell_strs (l : list rcell) : list positive := flat_map strs_of l.
Definition pen_holders (r : rbuf) : list positive := rb_cur r :: rb_stack r ++ cell_pens (rb_cells r).
Definition str_holders (r : rbuf) : list positive := cell_strs (rb_cells r).

