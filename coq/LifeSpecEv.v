(* LifeSpecEv.v -- property C08: the client's discipline for histories WITH events.
   While the library dispatches an event it holds references of its own (one per dispatch frame) on
   the windows it is working on; a window whose last client reference is dropped inside a handler
   lives on until the frame lets go, and only then are its children released.  The ghost state
   therefore keeps two counts per window: the references the client holds (the creation reference
   included, until the window's parent is destroyed) and the references held by dispatch frames.
   The frame references are in the model's trace (OFrameRef / OFrameUnref), so this checker still
   never looks at the heap: it reads the client's calls and the library's frame events.
   For a trace without frame events it is the checker of LifeSpec.v. *)
From Coq Require Import ZArith List Bool PArith Lia.
From Tickit Require Import LifeDefs LifeSpec.
Import ListNotations.
Local Open Scope Z_scope.

Record egwin := mkE { e_cnt : Z; e_fr : Z; e_par : option nat; e_closed : bool }.
Definition eghost := list egwin.
Definition e0 : eghost := [mkE 1 0 None false].

Definition eget (g : eghost) (i : nat) : option egwin := nth_error g i.
Definition eheld (g : eghost) (i : nat) : bool :=
  match eget g i with Some w => 0 <? e_cnt w | None => false end.
Definition ealive (g : eghost) (i : nat) : bool :=
  match eget g i with Some w => 0 <? e_cnt w + e_fr w | None => false end.

(* attached, through windows that exist, to the root *)
Fixpoint eintree_n (fuel : nat) (g : eghost) (i : nat) : bool :=
  match fuel with
  | O => false
  | S f =>
    match eget g i with
    | None => false
    | Some w =>
      (0 <? e_cnt w + e_fr w) &&
      match i, e_par w with
      | O, _ => true
      | S _, Some p => eintree_n f g p
      | S _, None => false
      end
    end
  end.
Definition eintree (g : eghost) (i : nat) : bool := eintree_n (S (length g)) g i.
Definition eusable (g : eghost) (i : nat) : bool :=
  eheld g i && eintree g i && match eget g i with Some w => negb (e_closed w) | None => false end.

Fixpoint etop_n (fuel : nat) (g : eghost) (i : nat) : nat :=
  match fuel with
  | O => i
  | S f => match eget g i with
           | Some w => match e_par w with Some p => etop_n f g p | None => i end
           | None => i
           end
  end.
Definition etop (g : eghost) (i : nat) : nat := etop_n (S (length g)) g i.

Fixpoint eset (g : eghost) (i : nat) (w : egwin) : eghost :=
  match g, i with
  | [], _ => []
  | _ :: t, O => w :: t
  | x :: t, S i' => x :: eset t i' w
  end.

(* the destruction of window [w], when its last reference of either kind goes: one pass in creation
   order.  A window attached to a doomed one loses its creation reference and its parent; if no
   reference of either kind is left it is doomed too. *)
Fixpoint edestroy_pass (g : eghost) (i : nat) (w : nat) (doomed : list nat) : eghost :=
  match g with
  | [] => []
  | x :: t =>
    if Nat.eqb i w then mkE 0 0 None (e_closed x) :: edestroy_pass t (S i) w (i :: doomed)
    else
      match e_par x with
      | Some p =>
        if existsb (Nat.eqb p) doomed && (0 <? e_cnt x) then
          if e_cnt x - 1 + e_fr x =? 0 then mkE 0 0 None (e_closed x) :: edestroy_pass t (S i) w (i :: doomed)
          else mkE (e_cnt x - 1) (e_fr x) None (e_closed x) :: edestroy_pass t (S i) w doomed
        else x :: edestroy_pass t (S i) w doomed
      | None => x :: edestroy_pass t (S i) w doomed
      end
  end.
Definition edestroy (g : eghost) (w : nat) : eghost := edestroy_pass g O w [].

Definition eupd (g : eghost) (i : nat) (f : egwin -> egwin) : eghost :=
  match eget g i with Some w => eset g i (f w) | None => g end.

Definition estep (g : eghost) (o : op) : option eghost :=
  match o with
  | ONew p _ _ rootparent _ =>
    if eusable g (idx p)
    then Some (g ++ [mkE 1 0 (Some (if rootparent then etop g (idx p) else idx p)) false])
    else None
  | ORef w => if eheld g (idx w) then Some (eupd g (idx w) (fun x => mkE (e_cnt x + 1) (e_fr x) (e_par x) (e_closed x))) else None
  | OUnref w =>
    match eget g (idx w) with
    | Some x =>
      if 0 <? e_cnt x then
        if e_cnt x + e_fr x =? 1 then Some (edestroy g (idx w))
        else Some (eset g (idx w) (mkE (e_cnt x - 1) (e_fr x) (e_par x) (e_closed x)))
      else None
    | None => None
    end
  | OClose w =>
    match eget g (idx w) with
    | Some x =>
      if (0 <? e_cnt x) && (match e_par x with Some _ => true | None => Nat.eqb (idx w) O end)
      then Some (eset g (idx w) (mkE (e_cnt x) (e_fr x) None true))
      else None
    | None => None
    end
  | ORestack c w => if is_restack c && eusable g (idx w) then Some g else None
  | OShow w | OHide w | OFocus w | OSteal w _ | ONotify w _ | OExpose w | OGetRoot w | OBind w _ _ _ _ _ | OUnbind w _ | OGeom w | OMove w =>
    if eusable g (idx w) then Some g else None
  | OFlush w => if Nat.eqb (idx w) O && eusable g O then Some g else None
  | OTouch w j _ => if eusable g (idx w) && (match j with Some a => eusable g (idx a) | None => true end) then Some g else None
  | OKey | OMouse _ | OResize | ONop => Some g
  (* the library's frames (written into the trace by the dispatch functions only: in a script these two do nothing
     and are not recorded) *)
  | OFrameRef w =>
    if ealive g (idx w) then Some (eupd g (idx w) (fun x => mkE (e_cnt x) (e_fr x + 1) (e_par x) (e_closed x))) else None
  | OFrameUnref w =>
    match eget g (idx w) with
    | Some x =>
      if 0 <? e_fr x then
        if e_cnt x + e_fr x =? 1 then Some (edestroy g (idx w))
        else Some (eset g (idx w) (mkE (e_cnt x) (e_fr x - 1) (e_par x) (e_closed x)))
      else None
    | None => None
    end
  end.

Fixpoint echeck (g : eghost) (l : list op) : option eghost :=
  match l with
  | [] => Some g
  | o :: l' => match estep g o with Some g' => echeck g' l' | None => None end
  end.

(* the trace of a run (newest call first, as the model records it) is one a well-behaved client
   could have produced *)
Definition wf_trace (tr : list op) : bool :=
  match echeck e0 (rev tr) with Some _ => true | None => false end.
Definition all_dropped_e (g : eghost) : bool := forallb (fun x => (e_cnt x =? 0) && (e_fr x =? 0)) g.

