(* RBGlyphProofs.v -- the regenerated line-glyph table meets its specification: a complete
   enumeration of the finite domain 1..255, by vm_compute on the boolean checker, plus the
   (general) link between the boolean checker and the Prop statement. *)
From Coq Require Import ZArith List Bool Lia.
From Tickit Require Import Gen_Linechars RBGlyphs.
Import ListNotations.
Local Open Scope Z_scope.

Lemma nz_false_iff : forall x, nz x = false <-> x = 0.
Proof. intros x. unfold nz. rewrite negb_false_iff. apply Z.eqb_eq. Qed.

Lemma eqb_nz : forall a b, Bool.eqb (nz a) (nz b) = true -> (a = 0 <-> b = 0).
Proof.
  intros a b H. apply Bool.eqb_prop in H. rewrite <- !nz_false_iff. rewrite H. tauto.
Qed.

Lemma arms_find : forall g m, arms_of_boxchar g = Some m -> In (g, m) boxchars.
Proof.
  intros g m H. unfold arms_of_boxchar in H.
  destruct (find (fun e => fst e =? g) boxchars) as [e|] eqn:E; [|discriminate].
  apply find_some in E. destruct E as (Hin & Heq). apply Z.eqb_eq in Heq.
  inversion H; subst. destruct e; cbn [fst snd] in *. exact Hin.
Qed.

Theorem glyph_okb_sound : forall table m, glyph_okb table m = true -> glyph_ok table m.
Proof.
  intros table m H. unfold glyph_okb in H.
  destruct (arms_of_boxchar (nth (Z.to_nat m) table 0)) as [a|] eqn:Ea; [|discriminate].
  apply andb_true_iff in H. destruct H as (Hd & Hx).
  exists a. split; [exact Ea|]. split.
  - unfold same_dirs in Hd. repeat (apply andb_true_iff in Hd; destruct Hd as (Hd & ?)).
    split; [|split; [|split]]; apply eqb_nz; assumption.
  - intros g' Hg'. apply arms_find in Hg'.
    rewrite forallb_forall in Hx. specialize (Hx (g', m) Hg'). cbn [fst snd] in Hx.
    rewrite Z.eqb_refl in Hx. cbn [negb orb] in Hx. now apply Z.eqb_eq in Hx.
Qed.

Theorem table_ok : table_okb linemask_to_char = true.
Proof. vm_compute. reflexivity. Qed.

Theorem glyphs_ok : forall m, 1 <= m <= 255 -> glyph_ok linemask_to_char m.
Proof.
  intros m Hm. apply glyph_okb_sound.
  pose proof table_ok as T. unfold table_okb in T. apply andb_true_iff in T. destruct T as (_ & T).
  rewrite forallb_forall in T. apply T.
  apply in_map_iff. exists (Z.to_nat (m - 1)). split; [lia|].
  apply in_seq. lia.
Qed.
