(* LoopHeapProofs.v -- the heap-level twin (LoopHeap.v) never faults and never leaks.

   Representation invariant [Rep X h s]: the heap state h represents the logical state s of
   LoopDefs.v -- every queue of h is the list of addresses of the corresponding list of s,
   every listed node is allocated and holds exactly the watch the list holds, nodes are in at
   most one queue and at most once, the harness believes live exactly the listed ones, and
   every allocated node is listed or is one of the DETACHED nodes X (unlinked, being run or
   notified, not yet freed).  Every function of LoopHeap.v, started in a represented state,
   returns Some (no access to a freed node) a state that represents the result of the
   function of LoopDefs.v.  Hence: h_run = Some (run, true) for every script. *)
From Coq Require Import ZArith List Bool Lia.
From Tickit Require Import LoopDefs LoopHeap LoopProofs.
Import ListNotations.
Local Open Scope Z_scope.

(* ------------------------------------------------------------------ the heap *)

Lemma rd_setq : forall h n v a, rd (setq h n v) a = rd h a. Proof. reflexivity. Qed.
Lemma rd_set_hlive : forall h v a, rd (set_hlive h v) a = rd h a. Proof. reflexivity. Qed.
Lemma rd_set_hlog : forall h v a, rd (set_hlog h v) a = rd h a. Proof. reflexivity. Qed.
Lemma rd_hemit : forall h w f a, rd (hemit h w f) a = rd h a.
Proof. intros. unfold hemit. destruct (Z.testbit f 1 || Z.testbit f 2); reflexivity. Qed.

Lemma rd_some_lt : forall h a w, rd h a = Some w -> 0 <= a < Z.of_nat (length (hp h)).
Proof.
  intros h a w H. unfold rd in H. destruct (a <? 0) eqn:E; [discriminate|]. apply Z.ltb_ge in E.
  destruct (nth_error (hp h) (Z.to_nat a)) eqn:En; [|discriminate].
  assert (Hl : (Z.to_nat a < length (hp h))%nat) by (apply nth_error_Some; rewrite En; discriminate). lia.
Qed.

Lemma rd_alloc : forall h mk a,
  rd (fst (halloc h mk)) a =
  if a =? Z.of_nat (length (hp h)) then Some (mk (Z.of_nat (length (hp h)))) else rd h a.
Proof.
  intros h mk a. unfold halloc, rd. cbn [fst hp set_hp].
  destruct (a <? 0) eqn:E0.
  - apply Z.ltb_lt in E0. destruct (a =? Z.of_nat (length (hp h))) eqn:E; [apply Z.eqb_eq in E; lia|reflexivity].
  - apply Z.ltb_ge in E0. destruct (a =? Z.of_nat (length (hp h))) eqn:E.
    + apply Z.eqb_eq in E. subst a. rewrite Nat2Z.id, nth_error_app2 by lia. rewrite Nat.sub_diag. reflexivity.
    + apply Z.eqb_neq in E. destruct (Nat.lt_ge_cases (Z.to_nat a) (length (hp h))) as [Hlt|Hge].
      * rewrite nth_error_app1 by exact Hlt. reflexivity.
      * assert (Hgt : (length (hp h) < Z.to_nat a)%nat) by lia.
        rewrite nth_error_app2 by lia.
        destruct (Z.to_nat a - length (hp h))%nat as [|k] eqn:Ek; [lia|]. cbn [nth_error].
        assert (E1 : nth_error (hp h) (Z.to_nat a) = None) by (apply nth_error_None; lia).
        rewrite E1. destruct k; reflexivity.
Qed.

Lemma nth_error_upd : forall {A} (l : list A) i j v,
  nth_error (upd l i v) j = if Nat.eqb i j then (if Nat.ltb i (length l) then Some v else None) else nth_error l j.
Proof.
  induction l as [|h t IH]; intros i j v.
  - cbn [upd length]. destruct (Nat.eqb i j) eqn:E; [|reflexivity]. destruct j; reflexivity.
  - destruct i as [|i]; destruct j as [|j]; cbn [upd nth_error Nat.eqb length]; try reflexivity.
    rewrite IH. destruct (Nat.eqb i j); [|reflexivity].
    change (Nat.ltb (S i) (S (length t))) with (Nat.ltb i (length t)). reflexivity.
Qed.

Lemma upd_length : forall {A} (l : list A) i v, length (upd l i v) = length l.
Proof. induction l as [|h t IH]; intros i v; [reflexivity|]. destruct i; cbn [upd length]; [reflexivity|]. rewrite IH. reflexivity. Qed.

Lemma hfree_spec : forall h a w, rd h a = Some w ->
  exists h', hfree h a = Some h' /\ hq h' = hq h /\ hlive h' = hlive h /\ hnow h' = hnow h /\ hiter h' = hiter h /\
             hlog h' = hlog h /\ length (hp h') = length (hp h) /\
             forall b, rd h' b = if b =? a then None else rd h b.
Proof.
  intros h a w H. unfold hfree. rewrite H. eexists. split; [reflexivity|]. cbn.
  repeat split; [apply upd_length|].
  intros b. unfold rd. cbn [hp set_hp]. destruct (b <? 0) eqn:E0.
  - destruct (b =? a); reflexivity.
  - apply Z.ltb_ge in E0. pose proof (rd_some_lt h a w H) as Ha. rewrite nth_error_upd.
    destruct (b =? a) eqn:E.
    + apply Z.eqb_eq in E. subst b. rewrite Nat.eqb_refl.
      assert (Hl : Nat.ltb (Z.to_nat a) (length (hp h)) = true) by (apply Nat.ltb_lt; lia). rewrite Hl. reflexivity.
    + apply Z.eqb_neq in E. assert (En : Nat.eqb (Z.to_nat a) (Z.to_nat b) = false) by (apply Nat.eqb_neq; lia).
      rewrite En. reflexivity.
Qed.

Lemma hfree_drop : forall h a h', hfree h a = Some h' -> hdrop h' = hdrop h.
Proof. intros h a h' H. unfold hfree in H. destruct (rd h a); [|discriminate]. inversion H. reflexivity. Qed.
Lemma hdrop_hemit : forall h w f, hdrop (hemit h w f) = hdrop h.
Proof. intros. unfold hemit. destruct (Z.testbit f 1 || Z.testbit f 2); reflexivity. Qed.

(* ------------------------------------------------------------------ the queues of the logical state, by name *)

Definition lget (s : st) (n : qn) : list watch :=
  match n with QI => ios s | QT => timers s | QRT => run_timers s | QL => laters s | QRL => run_laters s
             | QS => sigs s | QP => procs s end.
Definition lset (s : st) (n : qn) (v : list watch) : st :=
  match n with QI => set_ios s v | QT => set_timers s v | QRT => set_run_timers s v | QL => set_laters s v
             | QRL => set_run_laters s v | QS => set_sigs s v | QP => set_procs s v end.
Definition qk (n : qn) : kind :=
  match n with QI => KIo | QT => KTimer | QRT => KTimer | QL => KLater | QRL => KLater | QS => KSig | QP => KProc end.

Lemma qn_eqb_eq : forall a b, qn_eqb a b = true <-> a = b.
Proof. intros a b; destruct a; destruct b; cbn; split; intros H; try reflexivity; try discriminate. Qed.
Lemma qn_eqb_refl : forall a, qn_eqb a a = true.
Proof. intros a. apply qn_eqb_eq. reflexivity. Qed.
Lemma qn_eqb_neq : forall a b, a <> b -> qn_eqb a b = false.
Proof. intros a b H. destruct (qn_eqb a b) eqn:E; [apply qn_eqb_eq in E; contradiction|reflexivity]. Qed.

Lemma lget_lset : forall s n v m, lget (lset s n v) m = if qn_eqb n m then v else lget s m.
Proof. intros s n v m. destruct n; destruct m; reflexivity. Qed.
Lemma hq_setq : forall h n v m, hq (setq h n v) m = if qn_eqb n m then v else hq h m.
Proof. reflexivity. Qed.

Lemma lset_scalars : forall s n v, next_id (lset s n v) = next_id s /\ now (lset s n v) = now s /\
  iter (lset s n v) = iter s /\ log (lset s n v) = log s.
Proof. intros s n v. destruct n; repeat split. Qed.

(* ------------------------------------------------------------------ the representation invariant *)

Record Rep0 (X : list watch) (h : hst) (s : st) : Prop := mkRep {
  r_q : forall n, hq h n = map w_id (lget s n);
  r_rd : forall n w, In w (lget s n) -> rd h (w_id w) = Some w /\ w_kind w = qk n;
  r_X : forall w, In w X -> rd h (w_id w) = Some w;
  r_nd : forall n, NoDup (hq h n);
  r_dj : forall n m a, In a (hq h n) -> In a (hq h m) -> n = m;
  r_Xdj : forall w n, In w X -> ~ In (w_id w) (hq h n);
  r_Xnd : NoDup (map w_id X);
  r_live : forall a w, rd h a = Some w -> (exists n, In a (hq h n)) \/ In a (map w_id X);
  r_len : Z.of_nat (length (hp h)) = next_id s;
  r_now : hnow h = now s;
  r_iter : hiter h = iter s;
  r_log : hlog h = log s;
  r_drop : hdrop h = dropped s }.

(* ... and the harness believes live exactly the listed watches *)
Definition Rep (X : list watch) (h : hst) (s : st) : Prop :=
  Rep0 X h s /\ forall a, In a (hlive h) <-> exists n, In a (hq h n).

Lemma in_queue_lt : forall X h s n a, Rep0 X h s -> In a (hq h n) -> 0 <= a < next_id s.
Proof.
  intros X h s n a HR Hin. rewrite (r_q X h s HR) in Hin. apply in_map_iff in Hin. destruct Hin as [w [E Hw]]. subst a.
  destruct (r_rd X h s HR n w Hw) as [Hrd _]. rewrite <- (r_len X h s HR). eapply rd_some_lt. exact Hrd.
Qed.

Lemma in_X_lt : forall X h s w, Rep0 X h s -> In w X -> 0 <= w_id w < next_id s.
Proof. intros X h s w HR Hin. rewrite <- (r_len X h s HR). eapply rd_some_lt. exact (r_X X h s HR w Hin). Qed.

Lemma all_live_ids : forall h l, (forall w, In w l -> rd h (w_id w) = Some w) -> all_live h (map w_id l) = true.
Proof.
  intros h l H. unfold all_live. apply forallb_forall. intros a Ha. apply in_map_iff in Ha. destruct Ha as [w [E Hw]]. subst a.
  rewrite (H w Hw). reflexivity.
Qed.

Lemma inz_in : forall x l, inz x l = true <-> In x l.
Proof.
  intros x l. unfold inz. rewrite existsb_exists. split.
  - intros [y [Hy E]]. apply Z.eqb_eq in E. subst. exact Hy.
  - intros H. exists x. split; [exact H|apply Z.eqb_refl].
Qed.
Lemma remz_in : forall x l y, In y (remz x l) <-> In y l /\ y <> x.
Proof.
  intros x l y. unfold remz. rewrite filter_In. split; intros [A B]; (split; [exact A|]).
  - apply negb_true_iff in B. apply Z.eqb_neq. exact B.
  - apply negb_true_iff. apply Z.eqb_neq. exact B.
Qed.

(* ------------------------------------------------------------------ registration *)

Lemma lget_set_next : forall s x m, lget (set_next s x) m = lget s m.
Proof. intros s x m. destruct m; reflexivity. Qed.

Lemma nodup_snoc : forall (l : list Z) x, NoDup l -> ~ In x l -> NoDup (l ++ [x]).
Proof.
  induction l as [|h t IH]; intros x Hnd Hx; [constructor; [intros []|constructor]|].
  inversion Hnd as [|? ? Hh Ht]; subst. cbn [app]. constructor.
  - intros Hin. apply in_app_or in Hin. destruct Hin as [Hin|[Hin|[]]]; [contradiction|]. subst. apply Hx. left. reflexivity.
  - apply IH; [exact Ht|]. intros Hin. apply Hx. right. exact Hin.
Qed.

Lemma timer_insert_in : forall l w x, In x (timer_insert l w) <-> x = w \/ In x l.
Proof.
  induction l as [|h t IH]; intros w x; cbn [timer_insert].
  - cbn. intuition.
  - destruct (w_x h <=? w_x w); cbn [In]; [rewrite IH|]; intuition.
Qed.

Lemma timer_insert_nodup : forall l w, NoDup (map w_id l) -> ~ In (w_id w) (map w_id l) -> NoDup (map w_id (timer_insert l w)).
Proof.
  induction l as [|h t IH]; intros w Hnd Hn; cbn [timer_insert].
  - cbn. constructor; [intros []|constructor].
  - cbn [map] in Hnd, Hn. inversion Hnd as [|? ? Hh Ht]; subst. destruct (w_x h <=? w_x w); cbn [map].
    + constructor.
      * intros Hin. apply in_map_iff in Hin. destruct Hin as [v [Ev Hv]]. apply timer_insert_in in Hv. destruct Hv as [Hv|Hv].
        -- subst v. apply Hn. left. symmetry. exact Ev.
        -- apply Hh. rewrite <- Ev. apply in_map. exact Hv.
      * apply IH; [exact Ht|]. intros Hin. apply Hn. right. exact Hin.
    + constructor; [exact Hn|]. constructor; assumption.
Qed.

Lemma h_timer_insert_ok : forall h l w, (forall v, In v l -> rd h (w_id v) = Some v) ->
  h_timer_insert h (map w_id l) (w_id w) (w_x w) = Some (map w_id (timer_insert l w)).
Proof.
  induction l as [|b t IH]; intros w H; [reflexivity|]. cbn [map h_timer_insert timer_insert].
  rewrite (H b (or_introl eq_refl)). destruct (w_x b <=? w_x w); [|reflexivity].
  rewrite IH; [reflexivity|]. intros v Hv. apply H. right. exact Hv.
Qed.

Lemma insert_watch_in : forall first l w x, In x (insert_watch first l w) <-> x = w \/ In x l.
Proof.
  intros first l w x. unfold insert_watch. destruct first; cbn [In]; [intuition|].
  rewrite in_app_iff. cbn. intuition.
Qed.
Lemma insert_watch_nodup : forall first l w, NoDup (map w_id l) -> ~ In (w_id w) (map w_id l) ->
  NoDup (map w_id (insert_watch first l w)).
Proof.
  intros first l w Hnd Hn. unfold insert_watch. destruct first; cbn [map].
  - constructor; assumption.
  - rewrite map_app. cbn [map]. apply nodup_snoc; assumption.
Qed.
Lemma h_insert_ok : forall h first l w, (forall v, In v l -> rd h (w_id v) = Some v) ->
  h_insert h first (map w_id l) (w_id w) = Some (map w_id (insert_watch first l w)).
Proof.
  intros h first l w H. unfold h_insert, insert_watch. destruct first; [reflexivity|].
  rewrite (all_live_ids h l H), map_app. reflexivity.
Qed.

(* a freshly allocated node linked into queue n *)
Lemma Rep_link : forall X h s n mk l',
  Rep X h s ->
  let a := Z.of_nat (length (hp h)) in
  w_id (mk a) = a -> w_kind (mk a) = qk n ->
  (forall x, In x l' <-> x = mk a \/ In x (lget s n)) -> NoDup (map w_id l') ->
  Rep X (set_hlive (setq (fst (halloc h mk)) n (map w_id l')) (a :: hlive h)) (set_next (lset s n l') (next_id s + 1)).
Proof.
  intros X h s n mk l' [HR HL] a Hid Hk Hin Hnd.
  set (h1 := fst (halloc h mk)).
  set (h' := set_hlive (setq h1 n (map w_id l')) (a :: hlive h)).
  set (s' := set_next (lset s n l') (next_id s + 1)).
  assert (Ea : a = next_id s) by (unfold a; apply (r_len X h s HR)).
  assert (Hrd' : forall b, rd h' b = if b =? a then Some (mk a) else rd h b) by (intros b; apply rd_alloc).
  assert (Hlg : forall m, lget s' m = if qn_eqb n m then l' else lget s m).
  { intros m. unfold s'. rewrite lget_set_next. apply lget_lset. }
  assert (Hhq : forall m, hq h' m = if qn_eqb n m then map w_id l' else hq h m) by reflexivity.
  assert (Hfresh : forall m, ~ In a (hq h m)).
  { intros m Hm. pose proof (in_queue_lt X h s m a HR Hm). lia. }
  assert (Hq' : forall b m, In b (hq h' m) <-> (m = n /\ b = a) \/ In b (hq h m)).
  { intros b m. rewrite Hhq. destruct (qn_eqb n m) eqn:E.
    - apply qn_eqb_eq in E. subst m. rewrite (r_q X h s HR n). split.
      + intros Hb. apply in_map_iff in Hb. destruct Hb as [v [Ev Hv]]. apply Hin in Hv. destruct Hv as [Hv|Hv].
        * left. split; [reflexivity|]. subst v. rewrite <- Ev. exact Hid.
        * right. rewrite <- Ev. apply in_map. exact Hv.
      + intros [[_ Hb]|Hb].
        * subst b. rewrite <- Hid. apply in_map. apply Hin. left. reflexivity.
        * apply in_map_iff in Hb. destruct Hb as [v [Ev Hv]]. rewrite <- Ev. apply in_map. apply Hin. right. exact Hv.
    - split; [intros Hb; right; exact Hb|]. intros [[Em _]|Hb]; [|exact Hb]. subst m. rewrite qn_eqb_refl in E. discriminate. }
  split.
  - apply mkRep.
    + intros m. rewrite Hhq, Hlg. destruct (qn_eqb n m); [reflexivity|apply (r_q X h s HR)].
    + intros m w Hw. rewrite Hlg in Hw. rewrite Hrd'.
      assert (Hold : forall m0, In w (lget s m0) -> (if w_id w =? a then Some (mk a) else rd h (w_id w)) = Some w /\ w_kind w = qk m0).
      { intros m0 Hw0. destruct (r_rd X h s HR m0 w Hw0) as [A B].
        assert (w_id w <> a) by (pose proof (rd_some_lt h _ _ A); unfold a; lia).
        destruct (w_id w =? a) eqn:E; [apply Z.eqb_eq in E; contradiction|]. split; assumption. }
      destruct (qn_eqb n m) eqn:E; [|apply Hold; exact Hw].
      apply qn_eqb_eq in E. subst m. apply Hin in Hw. destruct Hw as [Hw|Hw]; [|apply Hold; exact Hw].
      subst w. rewrite Hid, Z.eqb_refl. split; [reflexivity|exact Hk].
    + intros w Hw. rewrite Hrd'. pose proof (r_X X h s HR w Hw) as A.
      assert (w_id w <> a) by (pose proof (rd_some_lt h _ _ A); unfold a; lia).
      destruct (w_id w =? a) eqn:E; [apply Z.eqb_eq in E; contradiction|exact A].
    + intros m. rewrite Hhq. destruct (qn_eqb n m); [exact Hnd|apply (r_nd X h s HR)].
    + intros m1 m2 b H1 H2. apply Hq' in H1. apply Hq' in H2.
      destruct H1 as [[E1 Eb1]|H1]; destruct H2 as [[E2 Eb2]|H2].
      * congruence.
      * subst b. exfalso. exact (Hfresh m2 H2).
      * subst b. exfalso. exact (Hfresh m1 H1).
      * exact (r_dj X h s HR m1 m2 b H1 H2).
    + intros w m Hw Hm. apply Hq' in Hm. destruct Hm as [[_ Eb]|Hm].
      * pose proof (in_X_lt X h s w HR Hw). lia.
      * exact (r_Xdj X h s HR w m Hw Hm).
    + apply (r_Xnd X h s HR).
    + intros b w Hb. rewrite Hrd' in Hb. destruct (b =? a) eqn:E.
      * apply Z.eqb_eq in E. left. exists n. apply Hq'. left. split; [reflexivity|exact E].
      * destruct (r_live X h s HR b w Hb) as [[m Hm]|Hx]; [left; exists m; apply Hq'; right; exact Hm|right; exact Hx].
    + unfold h', h1, halloc. cbn. rewrite app_length. cbn [length]. unfold s'. cbn.
      destruct (lset_scalars s n l') as [E1 _]. destruct n; cbn; rewrite <- (r_len X h s HR); lia.
    + destruct (lset_scalars s n l') as [_ [E2 _]]. unfold s'. destruct n; cbn; apply (r_now X h s HR).
    + unfold s'. destruct n; cbn; apply (r_iter X h s HR).
    + unfold s'. destruct n; cbn; apply (r_log X h s HR).
    + unfold s'. destruct n; cbn; apply (r_drop X h s HR).
  - intros b. cbn [hlive h' set_hlive In]. split.
    + intros [Eb|Hb].
      * exists n. apply Hq'. left. split; [reflexivity|symmetry; exact Eb].
      * apply HL in Hb. destruct Hb as [m Hm]. exists m. apply Hq'. right. exact Hm.
    + intros [m Hm]. apply Hq' in Hm. destruct Hm as [[_ Eb]|Hm]; [left; symmetry; exact Eb|right; apply HL; exists m; exact Hm].
Qed.

Lemma reads_after_alloc : forall X h s mk n v, Rep0 X h s -> In v (lget s n) -> rd (fst (halloc h mk)) (w_id v) = Some v.
Proof.
  intros X h s mk n v HR Hv. rewrite rd_alloc. destruct (r_rd X h s HR n v Hv) as [A _].
  pose proof (rd_some_lt h _ _ A). destruct (w_id v =? Z.of_nat (length (hp h))) eqn:E; [apply Z.eqb_eq in E; lia|exact A].
Qed.

Lemma fresh_not_in : forall X h s n, Rep0 X h s -> ~ In (Z.of_nat (length (hp h))) (map w_id (lget s n)).
Proof.
  intros X h s n HR Hin. rewrite <- (r_q X h s HR) in Hin. pose proof (in_queue_lt X h s n _ HR Hin).
  rewrite (r_len X h s HR) in H. lia.
Qed.

Lemma nodup_ids : forall X h s n, Rep0 X h s -> NoDup (map w_id (lget s n)).
Proof. intros X h s n HR. rewrite <- (r_q X h s HR). apply (r_nd X h s HR). Qed.

(* insert_watch into queue n *)
Lemma sim_link_insert : forall X h s n mk first,
  Rep X h s -> w_id (mk (Z.of_nat (length (hp h)))) = Z.of_nat (length (hp h)) -> w_kind (mk (Z.of_nat (length (hp h)))) = qk n ->
  exists h', (let (h1, p) := halloc h mk in
              match h_insert h1 first (hq h1 n) p with
              | Some q => Some (set_hlive (setq h1 n q) (p :: hlive h1))
              | None => None end) = Some h' /\
             Rep X h' (set_next (lset s n (insert_watch first (lget s n) (mk (next_id s)))) (next_id s + 1)).
Proof.
  intros X h s n mk first HR Hid Hk. destruct HR as [HR0 HL].
  set (a := Z.of_nat (length (hp h))) in *.
  assert (Ea : a = next_id s) by apply (r_len X h s HR0).
  replace (mk (next_id s)) with (mk a) by (rewrite Ea; reflexivity).
  unfold halloc. fold a.
  change (set_hp h (hp h ++ [Live (mk a)])) with (fst (halloc h mk)).
  assert (Hq : hq (fst (halloc h mk)) n = map w_id (lget s n)) by apply (r_q X h s HR0).
  rewrite Hq.
  replace (h_insert (fst (halloc h mk)) first (map w_id (lget s n)) a)
    with (h_insert (fst (halloc h mk)) first (map w_id (lget s n)) (w_id (mk a))) by (rewrite Hid; reflexivity).
  rewrite h_insert_ok by (intros v Hv; eapply reads_after_alloc; eassumption).
  eexists. split; [reflexivity|].
  apply (Rep_link X h s n mk); [split; assumption|exact Hid|exact Hk| |].
  - intros x. apply insert_watch_in.
  - apply insert_watch_nodup; [eapply nodup_ids; exact HR0|]. fold a. rewrite Hid. eapply fresh_not_in. exact HR0.
Qed.

Lemma sim_reg : forall X h s a, Rep X h s -> exists h', h_reg h a = Some h' /\ Rep X h' (do_reg false s a).
Proof.
  intros X h s a HR. pose proof HR as [HR0 HL].
  destruct a as [d fl cb|fl cb|k x fl cb|id| |]; try (exists h; split; [reflexivity|exact HR]).
  - (* timer: sorted insert *)
    cbn [h_reg do_reg]. rewrite (r_now X h s HR0).
    set (mk := fun p => mkW p KTimer (f_unbind fl) (f_destroy fl) cb (now s + d)).
    set (a := Z.of_nat (length (hp h))).
    assert (Ea : a = next_id s) by apply (r_len X h s HR0).
    change (mkW (next_id s) KTimer (f_unbind fl) (f_destroy fl) cb (now s + d)) with (mk (next_id s)).
    replace (mk (next_id s)) with (mk a) by (rewrite Ea; reflexivity).
    unfold halloc. fold a. change (set_hp h (hp h ++ [Live (mk a)])) with (fst (halloc h mk)).
    assert (Hq : hq (fst (halloc h mk)) QT = map w_id (timers s)) by apply (r_q X h s HR0 QT).
    rewrite Hq.
    change (h_timer_insert (fst (halloc h mk)) (map w_id (timers s)) a (now s + d))
      with (h_timer_insert (fst (halloc h mk)) (map w_id (timers s)) (w_id (mk a)) (w_x (mk a))).
    rewrite h_timer_insert_ok by (intros v Hv; apply (reads_after_alloc X h s mk QT v HR0 Hv)).
    eexists. split; [reflexivity|].
    apply (Rep_link X h s QT mk (timer_insert (timers s) (mk a)) HR); [reflexivity|reflexivity| |].
    + intros v. apply timer_insert_in.
    + apply timer_insert_nodup; [apply (nodup_ids X h s QT HR0)|]. apply (fresh_not_in X h s QT HR0).
  - apply (sim_link_insert X h s QL (fun p => mkW p KLater (f_unbind fl) (f_destroy fl) cb 0) (f_first fl) HR); reflexivity.
  - destruct k; try (exists h; split; [reflexivity|exact HR]).
    + apply (sim_link_insert X h s QI (fun p => mkW p KIo (f_unbind fl) (f_destroy fl) cb 0) (f_first fl) HR); reflexivity.
    + apply (sim_link_insert X h s QS (fun p => mkW p KSig (f_unbind fl) (f_destroy fl) cb x) (f_first fl) HR); reflexivity.
    + apply (sim_link_insert X h s QP (fun p => mkW p KProc (f_unbind fl) (f_destroy fl) cb 0) (f_first fl) HR); reflexivity.
  - eexists. split; [reflexivity|]. split; [|exact HL].
    destruct HR0 as [a b c d e f g i j k l m dd]. apply mkRep; try assumption. reflexivity.
Qed.

Lemma sim_regs : forall l X h s, Rep X h s -> exists h', h_regs h l = Some h' /\ Rep X h' (do_regs false s l).
Proof.
  induction l as [|a r IH]; intros X h s HR; [exists h; split; [reflexivity|exact HR]|].
  unfold h_regs, do_regs. cbn [fold_left]. destruct (sim_reg X h s a HR) as [h1 [E1 HR1]]. rewrite E1.
  apply IH. exact HR1.
Qed.

(* ------------------------------------------------------------------ detaching, notifying, freeing *)

Lemma hemit_fields : forall h w f,
  hp (hemit h w f) = hp h /\ hq (hemit h w f) = hq h /\ hnow (hemit h w f) = hnow h /\ hiter (hemit h w f) = hiter h /\
  hlog (hemit h w f) = OEv (mkE (w_id w) (w_kind w) f (hiter h) (hnow h) (w_x w)) :: hlog h /\
  hlive (hemit h w f) = if Z.testbit f 1 || Z.testbit f 2 then remz (w_id w) (hlive h) else hlive h.
Proof. intros h w f. unfold hemit. destruct (Z.testbit f 1 || Z.testbit f 2); repeat split. Qed.

Lemma Rep0_emit : forall X h s w f, Rep0 X h s -> Rep0 X (hemit h w f) (emit s w f).
Proof.
  intros X h s w f HR. destruct (hemit_fields h w f) as [E1 [E2 [E3 [E4 [E5 E6]]]]].
  assert (Hrd : forall a, rd (hemit h w f) a = rd h a) by (intros; apply rd_hemit).
  destruct HR as [a b c d e f0 g i j k l m dd]. apply mkRep.
  - intros n. rewrite E2. apply a.
  - intros n v Hv. rewrite Hrd. apply b. exact Hv.
  - intros v Hv. rewrite Hrd. apply c. exact Hv.
  - intros n. rewrite E2. apply d.
  - intros n1 n2 a0. rewrite E2. apply e.
  - intros v n. rewrite E2. apply f0.
  - exact g.
  - intros a0 v Hv. rewrite Hrd in Hv. rewrite E2. apply (i a0 v Hv).
  - rewrite E1. exact j.
  - rewrite E3. exact k.
  - rewrite E4. exact l.
  - rewrite E5. unfold emit. cbn. rewrite k, l, m. reflexivity.
  - rewrite hdrop_hemit. exact dd.
Qed.

(* the callback of a detached watch: the harness flag it clears is already clear *)
Lemma Rep_emit_X : forall X h s w f, Rep X h s -> In w X -> Rep X (hemit h w f) (emit s w f).
Proof.
  intros X h s w f [HR HL] Hw. split; [apply Rep0_emit; exact HR|].
  destruct (hemit_fields h w f) as [_ [E2 [_ [_ [_ E6]]]]]. rewrite E2, E6. intros a.
  destruct (Z.testbit f 1 || Z.testbit f 2); [|apply HL]. rewrite remz_in, HL. split; [intros [A _]; exact A|].
  intros [n Hn]. split; [exists n; exact Hn|]. intros E. subst a. exact (r_Xdj X h s HR w n Hw Hn).
Qed.

Lemma Rep_free : forall X h s w, Rep (w :: X) h s -> exists h', hfree h (w_id w) = Some h' /\ Rep X h' s.
Proof.
  intros X h s w [HR HL]. pose proof (r_X _ h s HR w (or_introl eq_refl)) as Hw.
  destruct (hfree_spec h (w_id w) w Hw) as [h' [Ef [E1 [E2 [E3 [E4 [E5 [E6 Hrd]]]]]]]].
  exists h'. split; [exact Ef|]. pose proof (r_Xnd _ h s HR) as Hnd. cbn [map] in Hnd. inversion Hnd as [|? ? Hnw HndX]; subst.
  split.
  - apply mkRep.
    + intros n. rewrite E1. apply (r_q _ h s HR).
    + intros n v Hv. destruct (r_rd _ h s HR n v Hv) as [A B]. split; [|exact B]. rewrite Hrd.
      destruct (w_id v =? w_id w) eqn:E; [|exact A]. exfalso. apply Z.eqb_eq in E.
      apply (r_Xdj _ h s HR w n (or_introl eq_refl)). rewrite <- E, (r_q _ h s HR). apply in_map. exact Hv.
    + intros v Hv. rewrite Hrd. destruct (w_id v =? w_id w) eqn:E; [|apply (r_X _ h s HR); right; exact Hv].
      exfalso. apply Z.eqb_eq in E. apply Hnw. rewrite <- E. apply in_map. exact Hv.
    + intros n. rewrite E1. apply (r_nd _ h s HR).
    + intros n m a. rewrite E1. apply (r_dj _ h s HR).
    + intros v n Hv. rewrite E1. apply (r_Xdj _ h s HR). right. exact Hv.
    + exact HndX.
    + intros a v Ha. rewrite Hrd in Ha. destruct (a =? w_id w) eqn:E; [discriminate|]. apply Z.eqb_neq in E.
      rewrite E1. destruct (r_live _ h s HR a v Ha) as [A|[A|A]]; [left; exact A|congruence|right; exact A].
    + rewrite E6. apply (r_len _ h s HR).
    + rewrite E3. apply (r_now _ h s HR).
    + rewrite E4. apply (r_iter _ h s HR).
    + rewrite E5. apply (r_log _ h s HR).
    + rewrite (hfree_drop _ _ _ Ef). apply (r_drop _ h s HR).
  - intros a. rewrite E1, E2. apply HL.
Qed.

(* unlinking w from queue n (and clearing the harness flag): w becomes a detached node *)
Lemma Rep_detach : forall X h s n l1 w l2, Rep X h s -> lget s n = l1 ++ w :: l2 ->
  Rep (w :: X) (set_hlive (setq h n (map w_id (l1 ++ l2))) (remz (w_id w) (hlive h))) (lset s n (l1 ++ l2)).
Proof.
  intros X h s n l1 w l2 [HR HL] El.
  set (a := w_id w). set (h' := set_hlive (setq h n (map w_id (l1 ++ l2))) (remz a (hlive h))).
  assert (Hqn : hq h n = map w_id l1 ++ a :: map w_id l2) by (rewrite (r_q X h s HR), El, map_app; reflexivity).
  pose proof (r_nd X h s HR n) as Hnd. rewrite Hqn in Hnd.
  assert (Hna : ~ In a (map w_id (l1 ++ l2))) by (rewrite map_app; apply NoDup_remove_2; exact Hnd).
  assert (Hnd' : NoDup (map w_id (l1 ++ l2))) by (rewrite map_app; eapply NoDup_remove_1; exact Hnd).
  assert (Hwin : In w (lget s n)) by (rewrite El; apply in_or_app; right; left; reflexivity).
  assert (Hain : In a (hq h n)) by (rewrite Hqn; apply in_or_app; right; left; reflexivity).
  assert (Hq' : forall b m, In b (hq h' m) <-> In b (hq h m) /\ b <> a).
  { intros b m. unfold h'. cbn [hq set_hlive]. rewrite hq_setq. destruct (qn_eqb n m) eqn:E.
    - apply qn_eqb_eq in E. subst m. rewrite Hqn, map_app, !in_app_iff. cbn [In]. split.
      + intros Hb. split; [tauto|]. intros Eb. subst b. apply Hna. rewrite map_app, in_app_iff. exact Hb.
      + intros [[Hb|[Hb|Hb]] Hne]; [left; exact Hb|congruence|right; exact Hb].
    - split; [|intros [A _]; exact A]. intros Hb. split; [exact Hb|]. intros Eb. subst b.
      assert (m = n) by (eapply (r_dj X h s HR); eassumption). subst m. rewrite qn_eqb_refl in E. discriminate. }
  split.
  - apply mkRep.
    + intros m. unfold h'. cbn [hq set_hlive]. rewrite hq_setq, lget_lset. destruct (qn_eqb n m); [reflexivity|apply (r_q X h s HR)].
    + intros m v Hv. rewrite lget_lset in Hv. change (rd h' (w_id v)) with (rd h (w_id v)).
      destruct (qn_eqb n m) eqn:E; [|apply (r_rd X h s HR); exact Hv].
      apply qn_eqb_eq in E. subst m. apply (r_rd X h s HR). rewrite El. apply in_app_or in Hv. apply in_or_app.
      destruct Hv as [Hv|Hv]; [left; exact Hv|right; right; exact Hv].
    + intros v [Hv|Hv]; change (rd h' (w_id v)) with (rd h (w_id v)).
      * subst v. apply (r_rd X h s HR n w Hwin).
      * apply (r_X X h s HR v Hv).
    + intros m. unfold h'. cbn [hq set_hlive]. rewrite hq_setq. destruct (qn_eqb n m); [exact Hnd'|apply (r_nd X h s HR)].
    + intros m1 m2 b H1 H2. apply Hq' in H1. apply Hq' in H2. eapply (r_dj X h s HR); [apply H1|apply H2].
    + intros v m [Hv|Hv] Hm; apply Hq' in Hm; destruct Hm as [Hm Hne].
      * subst v. apply Hne. reflexivity.
      * exact (r_Xdj X h s HR v m Hv Hm).
    + cbn [map]. constructor; [|apply (r_Xnd X h s HR)]. intros Hin. apply in_map_iff in Hin. destruct Hin as [v [Ev Hv]].
      apply (r_Xdj X h s HR v n Hv). rewrite Ev. exact Hain.
    + intros b v Hb. change (rd h' b) with (rd h b) in Hb. destruct (Z.eq_dec b a) as [Eb|Eb]; [right; left; symmetry; exact Eb|].
      destruct (r_live X h s HR b v Hb) as [[m Hm]|Hx]; [left; exists m; apply Hq'; split; assumption|right; right; exact Hx].
    + destruct (lset_scalars s n (l1 ++ l2)) as [E1 _]. rewrite E1. apply (r_len X h s HR).
    + destruct (lset_scalars s n (l1 ++ l2)) as [_ [E2 _]]. rewrite E2. apply (r_now X h s HR).
    + destruct (lset_scalars s n (l1 ++ l2)) as [_ [_ [E3 _]]]. rewrite E3. apply (r_iter X h s HR).
    + destruct (lset_scalars s n (l1 ++ l2)) as [_ [_ [_ E4]]]. rewrite E4. apply (r_log X h s HR).
    + destruct n; cbn; apply (r_drop X h s HR).
  - intros b. change (hlive h') with (remz a (hlive h)). rewrite remz_in, HL. split.
    + intros [[m Hm] Hne]. exists m. apply Hq'. split; assumption.
    + intros [m Hm]. apply Hq' in Hm. destruct Hm as [Hm Hne]. split; [exists m; exact Hm|exact Hne].
Qed.

(* ------------------------------------------------------------------ tickit_watch_cancel *)

Lemma fr_split : forall id l w l', find_remove id l = Some (w, l') ->
  exists l1 l2, l = l1 ++ w :: l2 /\ l' = l1 ++ l2 /\ w_id w = id.
Proof.
  induction l as [|h t IH]; intros w l' H; [discriminate|]. cbn [find_remove] in H. destruct (w_id h =? id) eqn:E.
  - inversion H; subst. exists [], l'. repeat split. apply Z.eqb_eq. exact E.
  - destruct (find_remove id t) as [[w1 t1]|] eqn:Ef; [|discriminate]. inversion H; subst.
    destruct (IH w t1 eq_refl) as [l1 [l2 [A [B C]]]]. exists (h :: l1), l2. subst. repeat split.
Qed.
Lemma fr_none : forall id l, ~ In id (map w_id l) -> find_remove id l = None.
Proof.
  induction l as [|h t IH]; intros H; [reflexivity|]. cbn [find_remove]. destruct (w_id h =? id) eqn:E.
  - exfalso. apply H. left. apply Z.eqb_eq. exact E.
  - rewrite IH; [reflexivity|]. intros Hin. apply H. right. exact Hin.
Qed.
Lemma fr_found : forall id l, In id (map w_id l) -> exists w l', find_remove id l = Some (w, l').
Proof.
  induction l as [|h t IH]; intros H; [destruct H|]. cbn [find_remove]. destruct (w_id h =? id) eqn:E; [eexists; eexists; reflexivity|].
  destruct H as [H|H]; [apply Z.eqb_neq in E; contradiction|]. destruct (IH H) as [w [l' Ef]]. rewrite Ef. eexists; eexists; reflexivity.
Qed.

Lemma h_unlink_ok : forall h id l, (forall v, In v l -> rd h (w_id v) = Some v) ->
  h_unlink h id (map w_id l) = Some (match find_remove id l with Some (_, l') => Some (map w_id l') | None => None end).
Proof.
  induction l as [|b t IH]; intros H; [reflexivity|]. cbn [map h_unlink find_remove]. rewrite (H b (or_introl eq_refl)).
  destruct (w_id b =? id); [reflexivity|]. rewrite IH by (intros v Hv; apply H; right; exact Hv).
  destruct (find_remove id t) as [[w1 t1]|]; reflexivity.
Qed.

Lemma watch_cancel_at : forall uenv s id n w l', find_remove id (lget s n) = Some (w, l') ->
  (forall m, m <> n -> find_remove id (lget s m) = None) ->
  watch_cancel false uenv s id = notify_unbind false uenv (lset s n l') w.
Proof.
  intros uenv s id n w l' Hf Hn. unfold watch_cancel.
  destruct n; cbn [lget] in Hf;
    repeat match goal with
    | |- context [find_remove id (?f s)] =>
        first [ rewrite Hf
              | let m := match f with ios => constr:(QI) | timers => constr:(QT) | run_timers => constr:(QRT)
                                     | laters => constr:(QL) | run_laters => constr:(QRL) | sigs => constr:(QS) | procs => constr:(QP) end in
                rewrite (Hn m ltac:(discriminate) : find_remove id (f s) = None) ]
    end; reflexivity.
Qed.

Lemma watch_cancel_none : forall uenv s id, (forall m, find_remove id (lget s m) = None) -> watch_cancel false uenv s id = s.
Proof.
  intros uenv s id Hn. unfold watch_cancel.
  rewrite (Hn QI : find_remove id (ios s) = None), (Hn QT : find_remove id (timers s) = None),
          (Hn QRT : find_remove id (run_timers s) = None), (Hn QL : find_remove id (laters s) = None),
          (Hn QRL : find_remove id (run_laters s) = None), (Hn QS : find_remove id (sigs s) = None),
          (Hn QP : find_remove id (procs s) = None). reflexivity.
Qed.

Section Sim.
Variable env : Z -> list action.
Variable uenv : Z -> list action.

Lemma cancel_in_notfound : forall X h s n id v, Rep0 X h s -> ~ In id (hq h n) ->
  h_cancel_in false uenv (set_hlive h v) n id = Some None.
Proof.
  intros X h s n id v HR Hn. unfold h_cancel_in. change (hq (set_hlive h v) n) with (hq h n). rewrite (r_q X h s HR) in *.
  rewrite h_unlink_ok by (intros w Hw; apply (r_rd X h s HR n w Hw)). rewrite fr_none by exact Hn. reflexivity.
Qed.

Lemma cancel_in_found : forall X h s n id w l', Rep X h s -> find_remove id (lget s n) = Some (w, l') ->
  exists h', h_cancel_in false uenv (set_hlive h (remz id (hlive h))) n id = Some (Some h') /\
             Rep X h' (notify_unbind false uenv (lset s n l') w).
Proof.
  intros X h s n id w l' HR Hf. pose proof HR as [HR0 HL].
  destruct (fr_split id _ w l' Hf) as [l1 [l2 [El [El' Eid]]]]. subst l'.
  unfold h_cancel_in. change (hq (set_hlive h (remz id (hlive h))) n) with (hq h n). rewrite (r_q X h s HR0).
  rewrite h_unlink_ok by (intros v Hv; apply (r_rd X h s HR0 n v Hv)). rewrite Hf.
  pose proof (Rep_detach X h s n l1 w l2 HR El) as HD. rewrite Eid in HD.
  set (h1 := setq (set_hlive h (remz id (hlive h))) n (map w_id (l1 ++ l2))).
  change (set_hlive (setq h n (map w_id (l1 ++ l2))) (remz id (hlive h))) with h1 in HD.
  assert (Hrd1 : rd h1 id = Some w) by (rewrite <- Eid; apply (r_X _ h1 _ (proj1 HD) w (or_introl eq_refl))).
  unfold h_finish_cancel, notify_unbind. rewrite Hrd1. destruct (w_unbind w).
  - pose proof (Rep_emit_X _ h1 _ w EV_UNBIND HD (or_introl eq_refl)) as HE.
    destruct (sim_regs (uenv (w_cb w)) _ _ _ HE) as [h2 [E2 HR2]]. rewrite E2.
    pose proof (r_X _ h2 _ (proj1 HR2) w (or_introl eq_refl)) as Hrd2. rewrite Eid in Hrd2. rewrite Hrd2.
    destruct (Rep_free X h2 _ w HR2) as [h3 [E3 HR3]]. rewrite Eid in E3. rewrite E3. exists h3. split; [reflexivity|exact HR3].
  - rewrite Hrd1. destruct (Rep_free X h1 _ w HD) as [h3 [E3 HR3]]. rewrite Eid in E3. rewrite E3. exists h3. split; [reflexivity|exact HR3].
Qed.

Lemma sim_cancel : forall X h s id, Rep X h s -> In id (hlive h) ->
  exists h', h_cancel false uenv (set_hlive h (remz id (hlive h))) id = Some h' /\ Rep X h' (watch_cancel false uenv s id).
Proof.
  intros X h s id HR Hl. pose proof HR as [HR0 HL]. apply HL in Hl. destruct Hl as [n0 Hn0].
  pose proof Hn0 as Hin. rewrite (r_q X h s HR0) in Hin. destruct (fr_found id _ Hin) as [w [l' Hf]].
  destruct (fr_split id _ w l' Hf) as [l1 [l2 [El [_ Eid]]]].
  assert (Hw : In w (lget s n0)) by (rewrite El; apply in_or_app; right; left; reflexivity).
  destruct (r_rd X h s HR0 n0 w Hw) as [Hrd Hk]. rewrite Eid in Hrd.
  assert (Hother : forall m, m <> n0 -> ~ In id (hq h m)).
  { intros m Hm Hi. apply Hm. eapply (r_dj X h s HR0); eassumption. }
  rewrite (watch_cancel_at uenv s id n0 w l' Hf)
    by (intros m Hm; apply fr_none; rewrite <- (r_q X h s HR0); apply Hother; exact Hm).
  destruct (cancel_in_found X h s n0 id w l' HR Hf) as [h' [Ec HR']].
  exists h'. split; [|exact HR'].
  unfold h_cancel. change (rd (set_hlive h (remz id (hlive h))) id) with (rd h id). rewrite Hrd, Hk.
  destruct n0; cbn [qk qkind]; rewrite ?Ec; try reflexivity.
  - rewrite (cancel_in_notfound X h s QT id _ HR0 (Hother QT ltac:(discriminate))). reflexivity.
  - rewrite (cancel_in_notfound X h s QL id _ HR0 (Hother QL ltac:(discriminate))). reflexivity.
Qed.

Lemma sim_action : forall X h s a, Rep X h s -> exists h', h_action false uenv h a = Some h' /\ Rep X h' (do_action false uenv s a).
Proof.
  intros X h s a HR. destruct a as [d fl cb|fl cb|k x fl cb|id| |];
    try (exact (sim_reg X h s _ HR)).
  cbn [h_action do_action]. destruct (inz id (hlive h)) eqn:E.
  - apply inz_in in E. apply sim_cancel; assumption.
  - exists h. split; [reflexivity|]. rewrite watch_cancel_none; [exact HR|].
    intros m. apply fr_none. destruct HR as [HR0 HL]. rewrite <- (r_q X h s HR0). intros Hin.
    assert (In id (hlive h)) by (apply HL; exists m; exact Hin). apply inz_in in H. congruence.
Qed.

Lemma sim_actions : forall l X h s, Rep X h s -> exists h', h_actions false uenv h l = Some h' /\ Rep X h' (do_actions false uenv s l).
Proof.
  induction l as [|a r IH]; intros X h s HR; [exists h; split; [reflexivity|exact HR]|].
  unfold h_actions, do_actions. cbn [fold_left]. destruct (sim_action X h s a HR) as [h1 [E1 HR1]]. rewrite E1.
  apply IH. exact HR1.
Qed.

End Sim.

(* ------------------------------------------------------------------ distinctness, by counting *)

Definition cq (h : hst) (a : Z) (n : qn) : nat := count_occ Z.eq_dec (hq h n) a.
Definition allcnt (h : hst) (a : Z) : nat :=
  (cq h a QI + cq h a QT + cq h a QRT + cq h a QL + cq h a QRL + cq h a QS + cq h a QP)%nat.

Lemma classic_in_some : forall h a, (exists n, In a (hq h n)) \/ (forall n, cq h a n = O).
Proof.
  intros h a.
  assert (D : forall n, In a (hq h n) \/ cq h a n = O).
  { intros n. destruct (in_dec Z.eq_dec a (hq h n)) as [Hi|Hn]; [left; exact Hi|right; apply count_occ_not_In; exact Hn]. }
  destruct (D QI) as [H|H1]; [left; exists QI; exact H|]. destruct (D QT) as [H|H2]; [left; exists QT; exact H|].
  destruct (D QRT) as [H|H3]; [left; exists QRT; exact H|]. destruct (D QL) as [H|H4]; [left; exists QL; exact H|].
  destruct (D QRL) as [H|H5]; [left; exists QRL; exact H|]. destruct (D QS) as [H|H6]; [left; exists QS; exact H|].
  destruct (D QP) as [H|H7]; [left; exists QP; exact H|]. right. intros n. destruct n; assumption.
Qed.

Lemma dist_counts : forall h, (forall n, NoDup (hq h n)) -> (forall n m a, In a (hq h n) -> In a (hq h m) -> n = m) ->
  forall a, (allcnt h a <= 1)%nat.
Proof.
  intros h Hnd Hdj a.
  assert (Hle : forall n, (cq h a n <= 1)%nat) by (intros n; apply (proj1 (NoDup_count_occ Z.eq_dec (hq h n)) (Hnd n))).
  destruct (classic_in_some h a) as [[n Hn]|Hno].
  - assert (Hz : forall m, m <> n -> cq h a m = O).
    { intros m Hm. apply count_occ_not_In. intros Hin. apply Hm. eapply Hdj; eassumption. }
    pose proof (Hle n). unfold allcnt.
    destruct n;
      repeat match goal with
      | |- context [cq h a ?m] =>
          lazymatch goal with
          | H : cq h a m = O |- _ => fail
          | _ => first [ assert (cq h a m = O) by (apply Hz; discriminate) | fail 1 ]
          end
      end; lia.
  - unfold allcnt. rewrite !(Hno _). lia.
Qed.

Lemma counts_dist : forall h, (forall a, (allcnt h a <= 1)%nat) ->
  (forall n, NoDup (hq h n)) /\ (forall n m a, In a (hq h n) -> In a (hq h m) -> n = m).
Proof.
  intros h H. split.
  - intros n. apply (NoDup_count_occ Z.eq_dec). intros a. specialize (H a). unfold allcnt in H.
    change (count_occ Z.eq_dec (hq h n) a) with (cq h a n). destruct n; lia.
  - intros n m a Hn Hm. specialize (H a). unfold allcnt in H.
    apply (count_occ_In Z.eq_dec) in Hn. apply (count_occ_In Z.eq_dec) in Hm.
    change (count_occ Z.eq_dec (hq h n) a) with (cq h a n) in Hn. change (count_occ Z.eq_dec (hq h m) a) with (cq h a m) in Hm.
    destruct n; destruct m; try reflexivity; exfalso; lia.
Qed.

(* ------------------------------------------------------------------ moving a prefix of queue m to the end of queue n *)

Lemma Rep_move : forall X h s n m d r, Rep X h s -> n <> m -> qk n = qk m -> lget s m = d ++ r ->
  Rep X (setq (setq h n (hq h n ++ map w_id d)) m (map w_id r)) (lset (lset s n (lget s n ++ d)) m r).
Proof.
  intros X h s n m d r [HR HL] Hnm Hk El.
  set (h' := setq (setq h n (hq h n ++ map w_id d)) m (map w_id r)).
  assert (Hm : hq h m = map w_id d ++ map w_id r) by (rewrite (r_q X h s HR), El, map_app; reflexivity).
  assert (Hq' : forall k, hq h' k = if qn_eqb m k then map w_id r else if qn_eqb n k then hq h n ++ map w_id d else hq h k) by reflexivity.
  assert (Hlg : forall k, lget (lset (lset s n (lget s n ++ d)) m r) k =
                          if qn_eqb m k then r else if qn_eqb n k then lget s n ++ d else lget s k).
  { intros k. rewrite !lget_lset. reflexivity. }
  assert (Hn2o : forall b k, In b (hq h' k) -> exists k', In b (hq h k')).
  { intros b k Hb. rewrite Hq' in Hb. destruct (qn_eqb m k).
    - exists m. rewrite Hm. apply in_or_app. right. exact Hb.
    - destruct (qn_eqb n k); [|exists k; exact Hb]. apply in_app_or in Hb. destruct Hb as [Hb|Hb]; [exists n; exact Hb|].
      exists m. rewrite Hm. apply in_or_app. left. exact Hb. }
  assert (Ho2n : forall b k, In b (hq h k) -> exists k', In b (hq h' k')).
  { intros b k Hb. destruct (qn_eqb m k) eqn:E1.
    - apply qn_eqb_eq in E1. subst k. rewrite Hm in Hb. apply in_app_or in Hb. destruct Hb as [Hb|Hb].
      + exists n. rewrite Hq'. rewrite (qn_eqb_neq m n) by congruence. rewrite qn_eqb_refl. apply in_or_app. right. exact Hb.
      + exists m. rewrite Hq', qn_eqb_refl. exact Hb.
    - exists k. rewrite Hq', E1. destruct (qn_eqb n k) eqn:E2; [|exact Hb].
      apply qn_eqb_eq in E2. subst k. apply in_or_app. left. exact Hb. }
  assert (Hcnt : forall a, allcnt h' a = allcnt h a).
  { intros a. unfold allcnt, cq. rewrite !Hq'.
    assert (Cm : count_occ Z.eq_dec (hq h m) a = (count_occ Z.eq_dec (map w_id d) a + count_occ Z.eq_dec (map w_id r) a)%nat)
      by (rewrite Hm; apply count_occ_app).
    destruct n; destruct m; try contradiction; cbn [qn_eqb]; rewrite ?count_occ_app; lia. }
  destruct (counts_dist h') as [Hnd' Hdj'].
  { intros a. rewrite Hcnt. apply dist_counts; [apply (r_nd X h s HR)|apply (r_dj X h s HR)]. }
  split.
  - apply mkRep.
    + intros k. rewrite Hq', Hlg. destruct (qn_eqb m k); [reflexivity|]. destruct (qn_eqb n k); [|apply (r_q X h s HR)].
      rewrite map_app, (r_q X h s HR). reflexivity.
    + intros k v Hv. rewrite Hlg in Hv. change (rd h' (w_id v)) with (rd h (w_id v)).
      destruct (qn_eqb m k) eqn:E1.
      * apply qn_eqb_eq in E1. subst k. apply (r_rd X h s HR). rewrite El. apply in_or_app. right. exact Hv.
      * destruct (qn_eqb n k) eqn:E2; [|apply (r_rd X h s HR); exact Hv].
        apply qn_eqb_eq in E2. subst k. apply in_app_or in Hv. destruct Hv as [Hv|Hv]; [apply (r_rd X h s HR); exact Hv|].
        destruct (r_rd X h s HR m v) as [A B]; [rewrite El; apply in_or_app; left; exact Hv|]. split; [exact A|congruence].
    + intros v Hv. apply (r_X X h s HR v Hv).
    + exact Hnd'.
    + exact Hdj'.
    + intros v k Hv Hvk. destruct (Hn2o _ _ Hvk) as [k' Hk']. exact (r_Xdj X h s HR v k' Hv Hk').
    + apply (r_Xnd X h s HR).
    + intros b v Hb. change (rd h' b) with (rd h b) in Hb. destruct (r_live X h s HR b v Hb) as [[k Hbk]|Hx]; [left; eapply Ho2n; exact Hbk|right; exact Hx].
    + destruct (lset_scalars (lset s n (lget s n ++ d)) m r) as [E1 _]. destruct (lset_scalars s n (lget s n ++ d)) as [E1' _].
      rewrite E1, E1'. apply (r_len X h s HR).
    + destruct (lset_scalars (lset s n (lget s n ++ d)) m r) as [_ [E2 _]]. destruct (lset_scalars s n (lget s n ++ d)) as [_ [E2' _]].
      rewrite E2, E2'. apply (r_now X h s HR).
    + destruct (lset_scalars (lset s n (lget s n ++ d)) m r) as [_ [_ [E3 _]]]. destruct (lset_scalars s n (lget s n ++ d)) as [_ [_ [E3' _]]].
      rewrite E3, E3'. apply (r_iter X h s HR).
    + destruct (lset_scalars (lset s n (lget s n ++ d)) m r) as [_ [_ [_ E4]]]. destruct (lset_scalars s n (lget s n ++ d)) as [_ [_ [_ E4']]].
      rewrite E4, E4'. apply (r_log X h s HR).
    + destruct n; destruct m; cbn; apply (r_drop X h s HR).
  - intros b. change (hlive h') with (hlive h). rewrite HL. split; intros [k Hbk]; [eapply Ho2n|eapply Hn2o]; exact Hbk.
Qed.

(* ------------------------------------------------------------------ the running queues *)

Lemma Rep_hlive_ext : forall X h s v, Rep X h s -> (forall b, In b v <-> In b (hlive h)) -> Rep X (set_hlive h v) s.
Proof.
  intros X h s v [HR HL] Hv. split.
  - destruct HR as [a b c d e f g i j k l m dd]. apply mkRep; assumption.
  - intros b. cbn [hlive set_hlive]. rewrite Hv. apply HL.
Qed.

(* popping the head of a queue and invoking it with a flag set that includes UNBIND *)
Lemma Rep_pop : forall X h s q w r f, Rep X h s -> lget s q = w :: r -> Z.testbit f 1 || Z.testbit f 2 = true ->
  Rep (w :: X) (hemit (setq h q (map w_id r)) w f) (emit (lset s q r) w f).
Proof.
  intros X h s q w r f HR El Hf.
  pose proof (Rep_detach X h s q [] w r HR El) as HD. cbn [app] in HD.
  pose proof (Rep_emit_X _ _ _ w f HD (or_introl eq_refl)) as HE.
  assert (E : hemit (setq h q (map w_id r)) w f =
              set_hlive (hemit (set_hlive (setq h q (map w_id r)) (remz (w_id w) (hlive h))) w f) (remz (w_id w) (hlive h))).
  { unfold hemit. rewrite Hf. reflexivity. }
  rewrite E. apply Rep_hlive_ext; [exact HE|].
  intros b. destruct (hemit_fields (set_hlive (setq h q (map w_id r)) (remz (w_id w) (hlive h))) w f) as [_ [_ [_ [_ [_ E6]]]]].
  rewrite E6, Hf. cbn [hlive set_hlive]. rewrite !remz_in. tauto.
Qed.

Section Loops.
Variable env : Z -> list action.
Variable uenv : Z -> list action.

Fixpoint gloop (q : qn) (n : nat) (s : st) : st :=
  match n with
  | O => s
  | S n' => match lget s q with
            | [] => s
            | w :: r => gloop q n' (do_actions false uenv (emit (lset s q r) w (EV_FIRE + EV_UNBIND)) (env (w_cb w)))
            end
  end.

Lemma gloop_timers : forall n s, run_timers_loop false env uenv n s = gloop QRT n s.
Proof. induction n as [|n IH]; intros s; [reflexivity|]. cbn [run_timers_loop gloop lget]. destruct (run_timers s); [reflexivity|apply IH]. Qed.
Lemma gloop_laters : forall n s, run_laters_loop false env uenv n s = gloop QRL n s.
Proof. induction n as [|n IH]; intros s; [reflexivity|]. cbn [run_laters_loop gloop lget]. destruct (run_laters s); [reflexivity|apply IH]. Qed.

Lemma sim_gloop : forall q n X h s, Rep X h s ->
  exists h', h_run_loop false env uenv q n h = Some h' /\ Rep X h' (gloop q n s).
Proof.
  induction n as [|n IH]; intros X h s HR; [exists h; split; [reflexivity|exact HR]|].
  cbn [h_run_loop gloop]. pose proof HR as [HR0 _]. rewrite (r_q X h s HR0).
  destruct (lget s q) as [|w r] eqn:El; [exists h; split; [reflexivity|exact HR]|]. cbn [map].
  destruct (r_rd X h s HR0 q w) as [Hrd _]; [rewrite El; left; reflexivity|]. rewrite Hrd.
  pose proof (Rep_pop X h s q w r (EV_FIRE + EV_UNBIND) HR El eq_refl) as HP.
  destruct (sim_actions uenv (env (w_cb w)) _ _ _ HP) as [h2 [E2 HR2]]. rewrite E2.
  destruct (Rep_free X h2 _ w HR2) as [h3 [E3 HR3]]. rewrite E3. apply IH. exact HR3.
Qed.

Lemma h_split_due_ok : forall h nw l, (forall v, In v l -> rd h (w_id v) = Some v) ->
  h_split_due h nw (map w_id l) = Some (map w_id (fst (split_due nw l)), map w_id (snd (split_due nw l))).
Proof.
  induction l as [|b t IH]; intros H; [reflexivity|]. cbn [map h_split_due split_due]. rewrite (H b (or_introl eq_refl)).
  destruct (w_x b <=? nw); [|reflexivity]. rewrite IH by (intros v Hv; apply H; right; exact Hv).
  destruct (split_due nw t) as [d r]. reflexivity.
Qed.

Lemma sim_invoke_timers : forall h s, Rep [] h s ->
  exists h', h_invoke_timers false env uenv h = Some h' /\ Rep [] h' (invoke_timers false env uenv s).
Proof.
  intros h s HR. pose proof HR as [HR0 _]. unfold h_invoke_timers, invoke_timers.
  assert (Ha : all_live h (hq h QRL) = true)
    by (rewrite (r_q [] h s HR0 QRL); apply all_live_ids; intros v Hv; apply (r_rd [] h s HR0 QRL v Hv)).
  rewrite Ha. cbn [negb].
  (* the deferred callbacks move to the running queue *)
  assert (HR1 : Rep [] (setq (setq h QRL (hq h QRL ++ hq h QL)) QL [])
                        (set_laters (set_run_laters s (run_laters s ++ laters s)) [])).
  { rewrite (r_q [] h s HR0 QL). apply (Rep_move [] h s QRL QL (laters s) [] HR); [discriminate|reflexivity|].
    cbn [lget]. rewrite app_nil_r. reflexivity. }
  set (h1 := setq (setq h QRL (hq h QRL ++ hq h QL)) QL []) in *.
  set (s1 := set_laters (set_run_laters s (run_laters s ++ laters s)) []) in *.
  pose proof HR1 as [HR10 _].
  (* the due timers *)
  assert (H2 : exists h2, (match hq h1 QT with
                           | [] => Some h1
                           | _ => match h_split_due h1 (hnow h1) (hq h1 QT) with
                                  | None => None
                                  | Some (due, rest) =>
                                      if negb (all_live h1 (hq h1 QRT)) then None
                                      else Some (setq (setq h1 QRT (hq h1 QRT ++ due)) QT rest)
                                  end
                           end) = Some h2 /\
                          Rep [] h2 (match timers s1 with
                                     | [] => s1
                                     | _ => let (due, rest) := split_due (now s1) (timers s1) in
                                            set_timers (set_run_timers s1 (run_timers s1 ++ due)) rest
                                     end)).
  { rewrite (r_q [] h1 s1 HR10 QT). change (lget s1 QT) with (timers s1).
    destruct (timers s1) as [|t0 tr] eqn:Et; [exists h1; split; [reflexivity|exact HR1]|].
    cbn [map]. change (w_id t0 :: map w_id tr) with (map w_id (t0 :: tr)). rewrite <- Et.
    rewrite (r_now [] h1 s1 HR10).
    rewrite h_split_due_ok by (intros v Hv; apply (r_rd [] h1 s1 HR10 QT v Hv)).
    assert (Ha1 : all_live h1 (hq h1 QRT) = true)
      by (rewrite (r_q [] h1 s1 HR10 QRT); apply all_live_ids; intros v Hv; apply (r_rd [] h1 s1 HR10 QRT v Hv)).
    rewrite Ha1. cbn [negb].
    destruct (split_due (now s1) (timers s1)) as [due rest] eqn:Es. cbn [fst snd].
    eexists. split; [reflexivity|].
    destruct (split_due_spec _ _ _ _ Es) as [Eapp _].
    apply (Rep_move [] h1 s1 QRT QT due rest HR1); [discriminate|reflexivity|exact Eapp]. }
  destruct H2 as [h2 [E2 HR2]]. rewrite E2.
  set (s2 := match timers s1 with [] => s1 | _ => let (due, rest) := split_due (now s1) (timers s1) in
                                                  set_timers (set_run_timers s1 (run_timers s1 ++ due)) rest end) in *.
  pose proof HR2 as [HR20 _].
  assert (L2 : length (hq h2 QRT) = length (run_timers s2)) by (rewrite (r_q [] h2 s2 HR20 QRT), map_length; reflexivity).
  rewrite L2, gloop_timers.
  destruct (sim_gloop QRT (length (run_timers s2)) [] h2 s2 HR2) as [h3 [E3 HR3]]. rewrite E3.
  pose proof HR3 as [HR30 _].
  assert (L3 : length (hq h3 QRL) = length (run_laters (gloop QRT (length (run_timers s2)) s2)))
    by (rewrite (r_q [] h3 _ HR30 QRL), map_length; reflexivity).
  rewrite L3, gloop_laters. apply sim_gloop. exact HR3.
Qed.

Lemma sim_tick : forall sleep dt h s, Rep [] h s ->
  exists h', h_tick false env uenv sleep dt h = Some h' /\ Rep [] h' (tick false env uenv sleep dt s).
Proof.
  intros sleep dt h s HR. pose proof HR as [HR0 _]. unfold h_tick, tick.
  rewrite (r_now [] h s HR0), (r_iter [] h s HR0).
  set (h1 := set_hiter (set_hnow h (now s + dt)) (iter s + 1)).
  set (s1 := set_iter (set_now s (now s + dt)) (iter s + 1)).
  assert (HR1 : Rep [] h1 s1).
  { destruct HR as [HRa HL]. split; [|exact HL]. destruct HRa as [a b c d e f g i j k l m dd]. apply mkRep; try assumption; reflexivity. }
  pose proof HR1 as [HR10 _].
  assert (Hm : (if sleep then h_next_msec h1 else Some 0) = Some (if sleep then next_timer_msec s1 else 0)).
  { destruct sleep; [|reflexivity]. unfold h_next_msec, next_timer_msec.
    rewrite (r_q [] h1 s1 HR10 QL), (r_q [] h1 s1 HR10 QT). cbn [lget].
    destruct (laters s1) as [|l0 lr]; [|reflexivity]. cbn [map].
    destruct (timers s1) as [|t0 tr] eqn:Et; [reflexivity|]. cbn [map].
    destruct (r_rd [] h1 s1 HR10 QT t0) as [Hrd _]; [cbn [lget]; rewrite Et; left; reflexivity|].
    rewrite Hrd, (r_now [] h1 s1 HR10). reflexivity. }
  rewrite Hm. set (msec := if sleep then next_timer_msec s1 else 0).
  rewrite (r_log [] h1 s1 HR10).
  set (h2 := set_hlog h1 (OPoll msec :: log s1)). set (s2 := set_log s1 (OPoll msec :: log s1)).
  assert (HR2 : Rep [] h2 s2).
  { destruct HR1 as [HRa HL]. split; [|exact HL]. destruct HRa as [a b c d e f g i j k l m dd]. apply mkRep; try assumption; reflexivity. }
  pose proof HR2 as [HR20 _]. rewrite (r_now [] h2 s2 HR20).
  apply sim_invoke_timers. destruct (sleep && (0 <? msec)); [|exact HR2].
  destruct HR2 as [HRa HL]. split; [|exact HL]. destruct HRa as [a b c d e f g i j k l m dd]. apply mkRep; try assumption; reflexivity.
Qed.

End Loops.

(* ------------------------------------------------------------------ destruction *)

Lemma Rep0_free : forall X h s w, Rep0 (w :: X) h s ->
  exists h', hfree h (w_id w) = Some h' /\ Rep0 X h' s /\ hq h' = hq h.
Proof.
  intros X h s w HR. pose proof (r_X _ h s HR w (or_introl eq_refl)) as Hw.
  destruct (hfree_spec h (w_id w) w Hw) as [h' [Ef [E1 [E2 [E3 [E4 [E5 [E6 Hrd]]]]]]]].
  exists h'. split; [exact Ef|]. split; [|exact E1].
  pose proof (r_Xnd _ h s HR) as Hnd. cbn [map] in Hnd. inversion Hnd as [|? ? Hnw HndX]; subst.
  apply mkRep.
  - intros n. rewrite E1. apply (r_q _ h s HR).
  - intros n v Hv. destruct (r_rd _ h s HR n v Hv) as [A B]. split; [|exact B]. rewrite Hrd.
    destruct (w_id v =? w_id w) eqn:E; [|exact A]. exfalso. apply Z.eqb_eq in E.
    apply (r_Xdj _ h s HR w n (or_introl eq_refl)). rewrite <- E, (r_q _ h s HR). apply in_map. exact Hv.
  - intros v Hv. rewrite Hrd. destruct (w_id v =? w_id w) eqn:E; [|apply (r_X _ h s HR); right; exact Hv].
    exfalso. apply Z.eqb_eq in E. apply Hnw. rewrite <- E. apply in_map. exact Hv.
  - intros n. rewrite E1. apply (r_nd _ h s HR).
  - intros n m a. rewrite E1. apply (r_dj _ h s HR).
  - intros v n Hv. rewrite E1. apply (r_Xdj _ h s HR). right. exact Hv.
  - exact HndX.
  - intros a v Ha. rewrite Hrd in Ha. destruct (a =? w_id w) eqn:E; [discriminate|]. apply Z.eqb_neq in E.
    rewrite E1. destruct (r_live _ h s HR a v Ha) as [A|[A|A]]; [left; exact A|congruence|right; exact A].
  - rewrite E6. apply (r_len _ h s HR).
  - rewrite E3. apply (r_now _ h s HR).
  - rewrite E4. apply (r_iter _ h s HR).
  - rewrite E5. apply (r_log _ h s HR).
  - rewrite (hfree_drop _ _ _ Ef). apply (r_drop _ h s HR).
Qed.

Definition dfun (oh : option hst) (a : Z) : option hst :=
  match oh with
  | None => None
  | Some h => match rd h a with
              | None => None
              | Some w => hfree (if asked w then hemit h w (EV_UNBIND + EV_DESTROY) else h) a
              end
  end.

Lemma dfun_none : forall l, fold_left dfun l None = None.
Proof. induction l as [|a r IH]; [reflexivity|exact IH]. Qed.

Lemma dfun_setq : forall l h n v, fold_left dfun l (Some (setq h n v)) =
  match fold_left dfun l (Some h) with Some h' => Some (setq h' n v) | None => None end.
Proof.
  induction l as [|a r IH]; intros h n v; [reflexivity|]. cbn [fold_left dfun]. rewrite rd_setq.
  destruct (rd h a) as [w|]; [|rewrite dfun_none; reflexivity].
  assert (E : hfree (if asked w then hemit (setq h n v) w (EV_UNBIND + EV_DESTROY) else setq h n v) a =
              match hfree (if asked w then hemit h w (EV_UNBIND + EV_DESTROY) else h) a with Some x => Some (setq x n v) | None => None end).
  { unfold hfree. destruct (asked w).
    - rewrite !rd_hemit, rd_setq. destruct (rd h a); reflexivity.
    - rewrite rd_setq. destruct (rd h a); reflexivity. }
  rewrite E. destruct (hfree (if asked w then hemit h w (EV_UNBIND + EV_DESTROY) else h) a) as [x|]; [apply IH|rewrite dfun_none; reflexivity].
Qed.

Lemma destroy_fold : forall l X h s, Rep0 (l ++ X) h s ->
  exists h', fold_left dfun (map w_id l) (Some h) = Some h' /\ Rep0 X h' (destroy_list s l) /\ hq h' = hq h.
Proof.
  induction l as [|w r IH]; intros X h s HR; [exists h; split; [reflexivity|split; [exact HR|reflexivity]]|].
  cbn [map fold_left dfun app] in *. rewrite (r_X _ h s HR w (or_introl eq_refl)).
  unfold destroy_list. cbn [fold_left]. fold (destroy_list (if asked w then emit s w (EV_UNBIND + EV_DESTROY) else s) r).
  assert (HR1 : Rep0 (w :: r ++ X) (if asked w then hemit h w (EV_UNBIND + EV_DESTROY) else h)
                     (if asked w then emit s w (EV_UNBIND + EV_DESTROY) else s)).
  { destruct (asked w); [apply Rep0_emit|]; exact HR. }
  destruct (Rep0_free _ _ _ w HR1) as [h1 [E1 [HR2 Eq1]]]. rewrite E1.
  destruct (IH X h1 _ HR2) as [h' [E' [HR' Eq']]]. exists h'. split; [exact E'|]. split; [exact HR'|].
  rewrite Eq', Eq1. destruct (asked w); [|reflexivity]. destruct (hemit_fields h w (EV_UNBIND + EV_DESTROY)) as [_ [E2 _]]. exact E2.
Qed.

Lemma nodup_app_intro : forall (a b : list Z), NoDup a -> NoDup b -> (forall x, In x a -> ~ In x b) -> NoDup (a ++ b).
Proof.
  induction a as [|h t IH]; intros b Ha Hb Hd; [exact Hb|]. inversion Ha as [|? ? Hh Ht]; subst. cbn [app]. constructor.
  - intros Hin. apply in_app_or in Hin. destruct Hin as [Hin|Hin]; [contradiction|]. exact (Hd h (or_introl eq_refl) Hin).
  - apply IH; [exact Ht|exact Hb|]. intros x Hx. apply Hd. right. exact Hx.
Qed.

(* the whole queue n, detached at once *)
Lemma Rep0_detach_all : forall X h s n, Rep0 X h s -> Rep0 (lget s n ++ X) (setq h n []) (lset s n []).
Proof.
  intros X h s n HR.
  assert (Hq' : forall b m, In b (hq (setq h n []) m) <-> In b (hq h m) /\ m <> n).
  { intros b m. rewrite hq_setq. destruct (qn_eqb n m) eqn:E.
    - apply qn_eqb_eq in E. subst m. cbn. tauto.
    - split; [|tauto]. intros Hb. split; [exact Hb|]. intros Em. subst m. rewrite qn_eqb_refl in E. discriminate. }
  apply mkRep.
  - intros m. rewrite hq_setq, lget_lset. destruct (qn_eqb n m); [reflexivity|apply (r_q X h s HR)].
  - intros m v Hv. rewrite lget_lset in Hv. rewrite rd_setq. destruct (qn_eqb n m); [destruct Hv|apply (r_rd X h s HR); exact Hv].
  - intros v Hv. rewrite rd_setq. apply in_app_or in Hv. destruct Hv as [Hv|Hv]; [apply (r_rd X h s HR n v Hv)|apply (r_X X h s HR v Hv)].
  - intros m. rewrite hq_setq. destruct (qn_eqb n m); [constructor|apply (r_nd X h s HR)].
  - intros m1 m2 b H1 H2. apply Hq' in H1. apply Hq' in H2. eapply (r_dj X h s HR); [apply H1|apply H2].
  - intros v m Hv Hm. apply Hq' in Hm. destruct Hm as [Hm Hne]. apply in_app_or in Hv. destruct Hv as [Hv|Hv].
    + apply Hne. eapply (r_dj X h s HR); [exact Hm|]. rewrite (r_q X h s HR). apply in_map. exact Hv.
    + exact (r_Xdj X h s HR v m Hv Hm).
  - rewrite map_app. apply nodup_app_intro; [rewrite <- (r_q X h s HR); apply (r_nd X h s HR)|apply (r_Xnd X h s HR)|].
    intros x Hx Hx2. apply in_map_iff in Hx2. destruct Hx2 as [v [Ev Hv]]. apply (r_Xdj X h s HR v n Hv). rewrite Ev, (r_q X h s HR). exact Hx.
  - intros b v Hb. rewrite rd_setq in Hb. destruct (r_live X h s HR b v Hb) as [[m Hm]|Hx].
    + destruct (qn_eqb n m) eqn:E.
      * apply qn_eqb_eq in E. subst m. right. rewrite map_app. apply in_or_app. left. rewrite <- (r_q X h s HR). exact Hm.
      * left. exists m. apply Hq'. split; [exact Hm|]. intros Em. subst m. rewrite qn_eqb_refl in E. discriminate.
    + right. rewrite map_app. apply in_or_app. right. exact Hx.
  - destruct (lset_scalars s n []) as [E1 _]. rewrite E1. apply (r_len X h s HR).
  - destruct (lset_scalars s n []) as [_ [E2 _]]. rewrite E2. apply (r_now X h s HR).
  - destruct (lset_scalars s n []) as [_ [_ [E3 _]]]. rewrite E3. apply (r_iter X h s HR).
  - destruct (lset_scalars s n []) as [_ [_ [_ E4]]]. rewrite E4. apply (r_log X h s HR).
  - destruct n; cbn; apply (r_drop X h s HR).
Qed.

Definition dstep (s : st) (n : qn) : st := destroy_list (lset s n []) (lget s n).

Lemma sim_destroy_list : forall X h s n, Rep0 X h s ->
  exists h', h_destroy_list h n = Some h' /\ Rep0 X h' (dstep s n).
Proof.
  intros X h s n HR. unfold h_destroy_list. fold dfun.
  pose proof (dfun_setq (hq h n) h n []) as Hc.
  destruct (destroy_fold (lget s n) X (setq h n []) (lset s n []) (Rep0_detach_all X h s n HR)) as [h' [E' [HR' _]]].
  rewrite <- (r_q X h s HR) in E'. rewrite E' in Hc.
  destruct (fold_left dfun (hq h n) (Some h)) as [h1|]; [|discriminate]. inversion Hc; subst. eexists. split; [reflexivity|exact HR'].
Qed.

Lemma destroy_list_frame : forall l s, (forall m, lget (destroy_list s l) m = lget s m) /\ next_id (destroy_list s l) = next_id s /\
  now (destroy_list s l) = now s /\ iter (destroy_list s l) = iter s.
Proof.
  induction l as [|w r IH]; intros s; [repeat split|]. unfold destroy_list. cbn [fold_left].
  fold (destroy_list (if asked w then emit s w (EV_UNBIND + EV_DESTROY) else s) r).
  destruct (IH (if asked w then emit s w (EV_UNBIND + EV_DESTROY) else s)) as [A [B [C D]]].
  split; [intros m; rewrite A; destruct (asked w); destruct m; reflexivity|].
  rewrite B, C, D. destruct (asked w); repeat split.
Qed.

Lemma destroy_list_log : forall l s s', now s = now s' -> iter s = iter s' -> log s = log s' ->
  log (destroy_list s l) = log (destroy_list s' l).
Proof.
  induction l as [|w r IH]; intros s s' H1 H2 H3; [exact H3|]. unfold destroy_list. cbn [fold_left].
  fold (destroy_list (if asked w then emit s w (EV_UNBIND + EV_DESTROY) else s) r).
  fold (destroy_list (if asked w then emit s' w (EV_UNBIND + EV_DESTROY) else s') r).
  apply IH; destruct (asked w); try assumption; unfold emit; cbn; congruence.
Qed.

Lemma no_live_of : forall h, (forall a, rd h a = None) -> no_live h = true.
Proof.
  intros h H. unfold no_live. apply forallb_forall. intros c Hc. destruct c as [w|]; [|reflexivity].
  destruct (In_nth_error _ _ Hc) as [i Hi]. specialize (H (Z.of_nat i)). unfold rd in H.
  assert (E : (Z.of_nat i <? 0) = false) by (apply Z.ltb_ge; lia). rewrite E, Nat2Z.id, Hi in H. discriminate.
Qed.

(* ------------------------------------------------------------------ whole scripts *)

Section Run.
Variable env : Z -> list action.
Variable uenv : Z -> list action.

Lemma Rep_init : Rep [] hst0 st0.
Proof.
  split.
  - apply mkRep; try reflexivity.
    + intros n. destruct n; reflexivity.
    + intros n w Hw. destruct n; destruct Hw.
    + intros w [].
    + intros n. constructor.
    + intros n m a [].
    + intros w n [].
    + constructor.
    + intros a w H. unfold rd in H. cbn in H. destruct (a <? 0); [discriminate|]. destruct (Z.to_nat a); discriminate.
  - intros a. cbn. split; [intros []|intros [n []]].
Qed.

Lemma sim_ops : forall ops h s, Rep [] h s ->
  exists h', fold_left (h_op false env uenv) ops (Some h) = Some h' /\ Rep [] h' (fold_left (do_op false env uenv) ops s).
Proof.
  induction ops as [|o r IH]; intros h s HR; [exists h; split; [reflexivity|exact HR]|]. cbn [fold_left h_op do_op].
  destruct o as [a|dt|].
  - destruct (sim_action uenv [] h s a HR) as [h1 [E1 HR1]]. rewrite E1. apply IH. exact HR1.
  - destruct (sim_tick env uenv false dt h s HR) as [h1 [E1 HR1]]. rewrite E1. apply IH. exact HR1.
  - destruct (sim_tick env uenv true 0 h s HR) as [h1 [E1 HR1]]. rewrite E1. apply IH. exact HR1.
Qed.

(* tickit_destroy from a state with empty running queues: every node is freed, the log is the
   list model's *)
Lemma destroy_now_safe : forall h s0, Rep0 [] h s0 -> run_timers s0 = [] -> run_laters s0 = [] ->
  exists h', h_destroy_now h = Some h' /\ hlog h' = log (destroy_now s0) /\ no_live h' = true.
Proof.
  intros h s0 HRi Qrt Qrl. unfold h_destroy_now.
  destruct (sim_destroy_list [] _ s0 QI HRi) as [h1 [E1 HR1]]. rewrite E1.
  destruct (sim_destroy_list [] _ _ QT HR1) as [h2 [E2 HR2]]. rewrite E2.
  destruct (sim_destroy_list [] _ _ QL HR2) as [h3 [E3 HR3]]. rewrite E3.
  destruct (sim_destroy_list [] _ _ QS HR3) as [h4 [E4 HR4]]. rewrite E4.
  destruct (sim_destroy_list [] _ _ QP HR4) as [h5 [E5 HR5]]. rewrite E5.
  set (s1 := dstep s0 QI) in *. set (s2 := dstep s1 QT) in *. set (s3 := dstep s2 QL) in *.
  set (s4 := dstep s3 QS) in *. set (s5 := dstep s4 QP) in *.
  assert (Hlg : forall t n m, lget (dstep t n) m = if qn_eqb n m then [] else lget t m).
  { intros t n m. unfold dstep. destruct (destroy_list_frame (lget t n) (lset t n [])) as [A _]. rewrite A. apply lget_lset. }
  assert (Hsc : forall t n, now (dstep t n) = now t /\ iter (dstep t n) = iter t).
  { intros t n. unfold dstep. destruct (destroy_list_frame (lget t n) (lset t n [])) as [_ [_ [C D]]].
    destruct (lset_scalars t n []) as [_ [C' [D' _]]]. rewrite C, D, C', D'. split; reflexivity. }
  assert (Hlog : forall t t' n, now t = now t' -> iter t = iter t' -> log t = log t' ->
                               log (dstep t n) = log (destroy_list t' (lget t n))).
  { intros t t' n H1 H2 H3. unfold dstep. apply destroy_list_log; destruct (lset_scalars t n []) as [_ [C' [D' E']]]; congruence. }
  exists h5. split; [reflexivity|]. split.
  - rewrite (r_log [] h5 s5 HR5). unfold destroy_now. cbn [log set_procs set_sigs set_laters set_timers set_ios].
    unfold s5, s4, s3, s2, s1.
    set (d1 := destroy_list s0 (ios s0)). set (d2 := destroy_list d1 (timers s0)). set (d3 := destroy_list d2 (laters s0)).
    set (d4 := destroy_list d3 (sigs s0)).
    assert (F1 : now s1 = now d1 /\ iter s1 = iter d1 /\ log s1 = log d1).
    { destruct (Hsc s0 QI) as [A B]. destruct (destroy_list_frame (ios s0) s0) as [_ [_ [C D]]]. fold d1 in C, D. fold s1 in A, B.
      split; [congruence|split; [congruence|]]. apply (Hlog s0 s0 QI); reflexivity. }
    assert (L1 : lget s1 QT = timers s0) by (unfold s1; rewrite Hlg; reflexivity).
    assert (F2 : now s2 = now d2 /\ iter s2 = iter d2 /\ log s2 = log d2).
    { destruct F1 as [A1 [B1 C1]]. destruct (Hsc s1 QT) as [A B]. destruct (destroy_list_frame (timers s0) d1) as [_ [_ [C D]]]. fold d2 in C, D. fold s2 in A, B.
      split; [congruence|split; [congruence|]]. unfold s2. rewrite (Hlog s1 d1 QT A1 B1 C1), L1. reflexivity. }
    assert (L2 : lget s2 QL = laters s0) by (unfold s2, s1; rewrite !Hlg; reflexivity).
    assert (F3 : now s3 = now d3 /\ iter s3 = iter d3 /\ log s3 = log d3).
    { destruct F2 as [A1 [B1 C1]]. destruct (Hsc s2 QL) as [A B]. destruct (destroy_list_frame (laters s0) d2) as [_ [_ [C D]]]. fold d3 in C, D. fold s3 in A, B.
      split; [congruence|split; [congruence|]]. unfold s3. rewrite (Hlog s2 d2 QL A1 B1 C1), L2. reflexivity. }
    assert (L3 : lget s3 QS = sigs s0) by (unfold s3, s2, s1; rewrite !Hlg; reflexivity).
    assert (F4 : now s4 = now d4 /\ iter s4 = iter d4 /\ log s4 = log d4).
    { destruct F3 as [A1 [B1 C1]]. destruct (Hsc s3 QS) as [A B]. destruct (destroy_list_frame (sigs s0) d3) as [_ [_ [C D]]]. fold d4 in C, D. fold s4 in A, B.
      split; [congruence|split; [congruence|]]. unfold s4. rewrite (Hlog s3 d3 QS A1 B1 C1), L3. reflexivity. }
    assert (L4 : lget s4 QP = procs s0) by (unfold s4, s3, s2, s1; rewrite !Hlg; reflexivity).
    destruct F4 as [A1 [B1 C1]]. fold s1 s2 s3 s4. change (dstep s4 QP) with s5. unfold s5.
    rewrite (Hlog s4 d4 QP A1 B1 C1), L4. reflexivity.
  - apply no_live_of. intros a. destruct (rd h5 a) as [w|] eqn:Erd; [|reflexivity]. exfalso.
    destruct (r_live [] h5 s5 HR5 a w Erd) as [[n Hn]|[]].
    rewrite (r_q [] h5 s5 HR5) in Hn.
    assert (Hall : lget s5 n = []).
    { unfold s5, s4, s3, s2, s1. rewrite !Hlg. destruct n; cbn [qn_eqb]; try reflexivity; [exact Qrt|exact Qrl]. }
    rewrite Hall in Hn. destruct Hn.
Qed.

(* the heap-level twin never touches a freed node, frees every node it allocated, and logs
   what the list model logs -- for every script and every pair of callback environments *)
Theorem heap_safe : forall ops, h_run false env uenv ops = Some (run false env uenv ops, true).
Proof.
  intros ops. unfold h_run, h_run_ops, run.
  destruct (sim_ops ops hst0 st0 Rep_init) as [h [E HR]]. rewrite E.
  set (s := run_ops false env uenv ops) in *. change (fold_left (do_op false env uenv) ops st0) with s in HR.
  destruct (Quiet_run_ops false env uenv ops) as [_ [Qrt Qrl]]. fold s in Qrt, Qrl.
  destruct HR as [HR0 _].
  assert (HRi : Rep0 [] (set_hiter h (-1)) (set_iter s (-1))).
  { destruct HR0 as [a b c d e f g i j k l m dd]. apply mkRep; try assumption; reflexivity. }
  destruct (destroy_now_safe _ _ HRi Qrt Qrl) as [h' [Ed [El En]]].
  change (h_destroy h) with (h_destroy_now (set_hiter h (-1))). rewrite Ed.
  change (destroy s) with (destroy_now (set_iter s (-1))). rewrite El, En. reflexivity.
Qed.

(* ... and with the application dropping its reference from a callback or between iterations
   (tickit_tick holds its own, fixes/C18-tick-holds-reference.patch): the instance is destroyed when
   the running tick returns -- the running queues are empty then, so nothing is read after it is
   freed and nothing leaks *)
Lemma sim_opsx : forall ops h s, Rep [] h s -> Quiet s ->
  exists h', h_run_opsx false env uenv ops h = Some (h', snd (run_opsx false env uenv ops s)) /\
             Rep [] h' (fst (run_opsx false env uenv ops s)) /\ Quiet (fst (run_opsx false env uenv ops s)).
Proof.
  induction ops as [|o r IH]; intros h s HR HQ; [exists h; split; [reflexivity|split; assumption]|].
  cbn [h_run_opsx run_opsx].
  assert (Hop : exists h1, h_op false env uenv (Some h) o = Some h1 /\ Rep [] h1 (do_op false env uenv s o)).
  { destruct o as [a|dt|]; cbn [h_op do_op].
    - exact (sim_action uenv [] h s a HR).
    - exact (sim_tick env uenv false dt h s HR).
    - exact (sim_tick env uenv true 0 h s HR). }
  destruct Hop as [h1 [E1 HR1]]. rewrite E1.
  assert (HQ1 : Quiet (do_op false env uenv s o)).
  { destruct o as [a|dt|]; cbn [do_op]; [apply Quiet_action|apply Quiet_tick|apply Quiet_tick]; exact HQ. }
  rewrite (r_drop [] h1 _ (proj1 HR1)).
  destruct (dropped (do_op false env uenv s o)); [exists h1; split; [reflexivity|split; assumption]|].
  apply IH; assumption.
Qed.

Theorem heap_safe_x : forall ops, h_runx false env uenv ops = Some (runx false env uenv ops, true).
Proof.
  intros ops. unfold h_runx, runx.
  destruct (sim_opsx ops hst0 st0 Rep_init (Quiet_st0)) as [h [E [HR [_ [Qrt Qrl]]]]]. rewrite E.
  destruct (run_opsx false env uenv ops st0) as [s early]. cbn [fst snd] in *.
  destruct HR as [HR0 _]. destruct early.
  - destruct (destroy_now_safe _ _ HR0 Qrt Qrl) as [h' [Ed [El En]]]. rewrite Ed, El, En. reflexivity.
  - assert (HRi : Rep0 [] (set_hiter h (-1)) (set_iter s (-1))).
    { destruct HR0 as [a b c d e f g i j k l m dd]. apply mkRep; try assumption; reflexivity. }
    destruct (destroy_now_safe _ _ HRi Qrt Qrl) as [h' [Ed [El En]]].
    change (h_destroy h) with (h_destroy_now (set_hiter h (-1))). rewrite Ed.
    change (destroy s) with (destroy_now (set_iter s (-1))). rewrite El, En. reflexivity.
Qed.

End Run.

(* ------------------------------------------------------------------ the model is not blind *)

(* With the seeded order of cancel_watch_in (late_unlink = true, seeded-ports/C17-3.diff) the
   same heap model LEAKS on the script the implementation leaks on: a deferred callback is
   cancelled; its UNBIND notification registers another one with TICKIT_BIND_FIRST, in front
   of it; the late  *thisp = this->next  then drops the new node: never run, never freed.
   (Harness, seeded library:  "ub0=l1:9 l2:0 c0 r0"  =>  "e0:1:2:0:0:0 p0 LEAK".) *)
Definition hw_env (cb : Z) : list action := [].
Definition hw_uenv (cb : Z) : list action := if cb =? 0 then [ALater (mkF true false false) 9] else [].
Definition hw_ops : list op := [OAct (ALater (mkF false true false) 0); OAct (ACancel 0); ORun 0].

Lemma heap_seeded_leaks :
  h_run true hw_env hw_uenv hw_ops = Some ([OEv (mkE 0 KLater EV_UNBIND 0 0 0); OPoll 0], false) /\
  h_run false hw_env hw_uenv hw_ops =
    Some ([OEv (mkE 0 KLater EV_UNBIND 0 0 0); OPoll 0; OEv (mkE 1 KLater (EV_FIRE + EV_UNBIND) 1 0 0)], true).
Proof. split; vm_compute; reflexivity. Qed.
