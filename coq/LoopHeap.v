(* LoopHeap.v -- heap-level twin of LoopDefs.v: the same functions of /repo/src/tickit.c (as
   repaired) over a heap of TickitWatch nodes instead of lists of values.

     - a node lives at an address; malloc never hands an address out twice (addresses are
       given out in increasing order, as under AddressSanitizer's quarantine), free marks the
       cell Freed;
     - EVERY access the C makes to a node -- this->next, this->flags, this->type, this->fn,
       ( *endp)->timer.at, watch->type in tickit_watch_cancel, free itself -- is a checked
       read [rd]: the result is None (Fault) if the cell is Freed or was never allocated;
     - the seven queues of struct Tickit (iowatches, timers, running_timers, laters,
       running_laters, signals, processes) are chains of addresses: [hq h n] is the sequence
       of nodes reachable from the queue head by following next; the next pointers themselves
       are not stored separately -- following one is the checked read of the node it is in;
     - the harness's table of watches (ws[id].watch, ws[id].live) is part of the state: a
       cancel is issued only for a watch the harness believes live, with the pointer it got
       at registration; the model shows that belief is never wrong.
   Comparisons of pointers (this == watch, t->next_sigwatch == this) touch no node.
   The two watches tickit_build registers for itself (terminal input, SIGWINCH) are left out,
   as in LoopDefs.v; they are never cancelled and are freed by destroy_watchlist.
   Definitions only; LoopHeapProofs.v relates this model to LoopDefs.v. *)
From Coq Require Import ZArith List Bool.
From Tickit Require Import LoopDefs.
Import ListNotations.
Local Open Scope Z_scope.

Inductive cell := Live (w : watch) | Freed.
Inductive qn := QI | QT | QRT | QL | QRL | QS | QP.

Definition qn_eqb (a b : qn) : bool :=
  match a, b with
  | QI, QI | QT, QT | QRT, QRT | QL, QL | QRL, QRL | QS, QS | QP, QP => true
  | _, _ => false
  end.

Record hst := mkH {
  hp : list cell;          (* the heap: address a is cell number a *)
  hq : qn -> list Z;       (* the queues *)
  hlive : list Z;          (* harness: watches it believes live *)
  hnow : Z; hiter : Z; hlog : list obs;
  hdrop : bool             (* the application has dropped its reference *) }.

Definition hst0 : hst := mkH [] (fun _ => []) [] 0 0 [] false.

Definition set_hp (h : hst) (v : list cell) : hst := mkH v (hq h) (hlive h) (hnow h) (hiter h) (hlog h) (hdrop h).
Definition setq (h : hst) (n : qn) (v : list Z) : hst :=
  mkH (hp h) (fun m => if qn_eqb n m then v else hq h m) (hlive h) (hnow h) (hiter h) (hlog h) (hdrop h).
Definition set_hlive (h : hst) (v : list Z) : hst := mkH (hp h) (hq h) v (hnow h) (hiter h) (hlog h) (hdrop h).
Definition set_hnow (h : hst) (v : Z) : hst := mkH (hp h) (hq h) (hlive h) v (hiter h) (hlog h) (hdrop h).
Definition set_hiter (h : hst) (v : Z) : hst := mkH (hp h) (hq h) (hlive h) (hnow h) v (hlog h) (hdrop h).
Definition set_hlog (h : hst) (v : list obs) : hst := mkH (hp h) (hq h) (hlive h) (hnow h) (hiter h) v (hdrop h).
Definition set_hdrop (h : hst) (v : bool) : hst := mkH (hp h) (hq h) (hlive h) (hnow h) (hiter h) (hlog h) v.

(* a checked read of the node at address a *)
Definition rd (h : hst) (a : Z) : option watch :=
  if a <? 0 then None else
  match nth_error (hp h) (Z.to_nat a) with Some (Live w) => Some w | _ => None end.

Fixpoint upd {A} (l : list A) (i : nat) (v : A) : list A :=
  match l, i with
  | [], _ => []
  | _ :: t, O => v :: t
  | x :: t, S i' => x :: upd t i' v
  end.

(* free(a): a double free or a free of a wild pointer is a Fault as well *)
Definition hfree (h : hst) (a : Z) : option hst :=
  match rd h a with
  | Some _ => Some (set_hp h (upd (hp h) (Z.to_nat a) Freed))
  | None => None
  end.

(* malloc + initialisation; the address is the next unused one *)
Definition halloc (h : hst) (mk : Z -> watch) : hst * Z :=
  let a := Z.of_nat (length (hp h)) in (set_hp h (hp h ++ [Live (mk a)]), a).

Definition remz (x : Z) (l : list Z) : list Z := filter (fun y => negb (y =? x)) l.
Definition inz (x : Z) (l : list Z) : bool := existsb (Z.eqb x) l.

(* the callback as the harness sees it: it logs, and clears its live flag on UNBIND/DESTROY *)
Definition hemit (h : hst) (w : watch) (flags : Z) : hst :=
  let h1 := set_hlog h (OEv (mkE (w_id w) (w_kind w) flags (hiter h) (hnow h) (w_x w)) :: hlog h) in
  if Z.testbit flags 1 || Z.testbit flags 2 then set_hlive h1 (remz (w_id w) (hlive h1)) else h1.

(* walking a chain to its end reads every node of it:  while( *p) p = &( *p)->next; *)
Definition all_live (h : hst) (q : list Z) : bool :=
  forallb (fun a => match rd h a with Some _ => true | None => false end) q.

(* insert_watch *)
Definition h_insert (h : hst) (first : bool) (q : list Z) (a : Z) : option (list Z) :=
  if first then Some (a :: q) else if all_live h q then Some (q ++ [a]) else None.

(* while( *prevp && !timercmp(&( *prevp)->timer.at, at, >)) prevp = &( *prevp)->next; *)
Fixpoint h_timer_insert (h : hst) (q : list Z) (a x : Z) : option (list Z) :=
  match q with
  | [] => Some [a]
  | b :: t =>
      match rd h b with
      | None => None
      | Some wb => if w_x wb <=? x
                   then match h_timer_insert h t a x with Some t' => Some (b :: t') | None => None end
                   else Some (a :: q)
      end
  end.

(* cancel_watch_in's walk: Some None = not in this chain; Some (Some q') = unlinked *)
Fixpoint h_unlink (h : hst) (a : Z) (q : list Z) : option (option (list Z)) :=
  match q with
  | [] => Some None
  | b :: t =>
      match rd h b with              (* this->next is read in either branch *)
      | None => None
      | Some _ =>
          if b =? a then Some (Some t)
          else match h_unlink h a t with
               | Some (Some t') => Some (Some (b :: t'))
               | Some None => Some None
               | None => None
               end
      end
  end.

(* the due prefix:  while( *endp && !timercmp(&( *endp)->timer.at, &now, >)) endp = &( *endp)->next; *)
Fixpoint h_split_due (h : hst) (nw : Z) (q : list Z) : option (list Z * list Z) :=
  match q with
  | [] => Some ([], [])
  | b :: t =>
      match rd h b with
      | None => None
      | Some wb => if w_x wb <=? nw
                   then match h_split_due h nw t with Some (d, r) => Some (b :: d, r) | None => None end
                   else Some ([], q)
      end
  end.

Definition qkind (k : kind) : qn := match k with KTimer => QT | KLater => QL | KIo => QI | KSig => QS | KProc => QP end.

(* for the seeded variant of cancel_watch_in (below): the part of a chain after node a, and the
   part up to and including node p *)
Fixpoint after_node (a : Z) (q : list Z) : list Z :=
  match q with [] => [] | b :: t => if b =? a then t else after_node a t end.
Fixpoint upto_node (p : Z) (q : list Z) : list Z :=
  match q with [] => [] | b :: t => if b =? p then [b] else b :: upto_node p t end.
(* the node before a in the chain (None: a is the head, thisp = &t->queue) *)
Fixpoint pred_node (a : Z) (prev : option Z) (q : list Z) : option Z :=
  match q with [] => prev | b :: t => if b =? a then prev else pred_node a (Some b) t end.

Section WithEnv.
(* [late_unlink] = true models the seeded change that moves  *thisp = this->next  of
   cancel_watch_in behind the UNBIND notification (seeded-ports/C17-3.diff): whatever the
   callback links in front of the node at that slot is dropped.  false = the code as repaired. *)
Variable late_unlink : bool.
Variable env : Z -> list action.
Variable uenv : Z -> list action.

(* the registering API calls: malloc, fill in, link *)
Definition h_reg (h : hst) (a : action) : option hst :=
  match a with
  | ATimer d fl cb =>
      let (h1, p) := halloc h (fun p => mkW p KTimer (f_unbind fl) (f_destroy fl) cb (hnow h + d)) in
      match h_timer_insert h1 (hq h1 QT) p (hnow h + d) with
      | Some q => Some (set_hlive (setq h1 QT q) (p :: hlive h1))
      | None => None
      end
  | ALater fl cb =>
      let (h1, p) := halloc h (fun p => mkW p KLater (f_unbind fl) (f_destroy fl) cb 0) in
      match h_insert h1 (f_first fl) (hq h1 QL) p with
      | Some q => Some (set_hlive (setq h1 QL q) (p :: hlive h1))
      | None => None
      end
  | AWatch KIo _ fl cb =>
      let (h1, p) := halloc h (fun p => mkW p KIo (f_unbind fl) (f_destroy fl) cb 0) in
      match h_insert h1 (f_first fl) (hq h1 QI) p with
      | Some q => Some (set_hlive (setq h1 QI q) (p :: hlive h1))
      | None => None
      end
  | AWatch KSig x fl cb =>
      let (h1, p) := halloc h (fun p => mkW p KSig (f_unbind fl) (f_destroy fl) cb x) in
      match h_insert h1 (f_first fl) (hq h1 QS) p with
      | Some q => Some (set_hlive (setq h1 QS q) (p :: hlive h1))
      | None => None
      end
  | AWatch KProc _ fl cb =>
      let (h1, p) := halloc h (fun p => mkW p KProc (f_unbind fl) (f_destroy fl) cb 0) in
      match h_insert h1 (f_first fl) (hq h1 QP) p with
      | Some q => Some (set_hlive (setq h1 QP q) (p :: hlive h1))
      | None => None
      end
  | AWatch _ _ _ _ => Some h
  | ACancel _ => Some h
  | ANop => Some h
  | ADrop => Some (set_hdrop h true)
  end.

Definition h_regs (h : hst) (l : list action) : option hst :=
  fold_left (fun oh a => match oh with Some h => h_reg h a | None => None end) l (Some h).

(* cancel_watch_in, after the unlinking: this->flags, the UNBIND notification (the node is
   unlinked but not yet freed while the callback registers what it likes), this->type, free *)
Definition h_finish_cancel (h : hst) (a : Z) : option hst :=
  match rd h a with
  | None => None
  | Some w =>
      match (if w_unbind w then h_regs (hemit h w EV_UNBIND) (uenv (w_cb w)) else Some h) with
      | None => None
      | Some h1 => match rd h1 a with None => None | Some _ => hfree h1 a end
      end
  end.

(* the seeded order: notify while the node is still linked, then  *thisp = this->next  through
   the slot found BEFORE the notification (the head of the queue, or the next field of the
   node that preceded it then), then free *)
Definition h_finish_cancel_late (h : hst) (n : qn) (a : Z) (slot : option Z) : option hst :=
  match rd h a with
  | None => None
  | Some w =>
      match (if w_unbind w then h_regs (hemit h w EV_UNBIND) (uenv (w_cb w)) else Some h) with
      | None => None
      | Some h1 =>
          match rd h1 a with               (* this->next *)
          | None => None
          | Some _ =>
              match (match slot with
                     | None => Some (after_node a (hq h1 n))
                     | Some p => match rd h1 p with        (* the write goes into node p *)
                                 | None => None
                                 | Some _ => Some (upto_node p (hq h1 n) ++ after_node a (hq h1 n))
                                 end
                     end) with
              | None => None
              | Some q => hfree (setq h1 n q) a
              end
          end
      end
  end.

Definition h_cancel_in (h : hst) (n : qn) (a : Z) : option (option hst) :=
  match h_unlink h a (hq h n) with
  | None => None
  | Some None => Some None
  | Some (Some q) =>
      if late_unlink
      then match h_finish_cancel_late h n a (pred_node a None (hq h n)) with Some h' => Some (Some h') | None => None end
      else match h_finish_cancel (setq h n q) a with Some h' => Some (Some h') | None => None end
  end.

(* tickit_watch_cancel(t, watch): watch->type selects the queue(s) *)
Definition h_cancel (h : hst) (a : Z) : option hst :=
  match rd h a with
  | None => None
  | Some w =>
      match w_kind w with
      | KTimer =>
          match h_cancel_in h QT a with
          | None => None
          | Some (Some h') => Some h'
          | Some None => match h_cancel_in h QRT a with None => None | Some (Some h') => Some h' | Some None => Some h end
          end
      | KLater =>
          match h_cancel_in h QL a with
          | None => None
          | Some (Some h') => Some h'
          | Some None => match h_cancel_in h QRL a with None => None | Some (Some h') => Some h' | Some None => Some h end
          end
      | k => match h_cancel_in h (qkind k) a with None => None | Some (Some h') => Some h' | Some None => Some h end
      end
  end.

(* the harness: c<id> calls tickit_watch_cancel(T, ws[id].watch) if ws[id].live, clearing the flag *)
Definition h_action (h : hst) (a : action) : option hst :=
  match a with
  | ACancel id => if inz id (hlive h) then h_cancel (set_hlive h (remz id (hlive h))) id else Some h
  | _ => h_reg h a
  end.

Definition h_actions (h : hst) (l : list action) : option hst :=
  fold_left (fun oh a => match oh with Some h => h_action h a | None => None end) l (Some h).

(* while(t->running_X) { this = head; t->running_X = this->next; call; free(this); } *)
Fixpoint h_run_loop (q : qn) (n : nat) (h : hst) : option hst :=
  match n with
  | O => Some h
  | S n' =>
      match hq h q with
      | [] => Some h
      | a :: r =>
          match rd h a with
          | None => None
          | Some w =>
              let h1 := hemit (setq h q r) w (EV_FIRE + EV_UNBIND) in
              match h_actions h1 (env (w_cb w)) with
              | None => None
              | Some h2 => match hfree h2 a with None => None | Some h3 => h_run_loop q n' h3 end
              end
          end
      end
  end.

(* tickit_evloop_invoke_timers *)
Definition h_invoke_timers (h : hst) : option hst :=
  (* append_watches(&t->running_laters, t->laters); t->laters = NULL *)
  if negb (all_live h (hq h QRL)) then None else
  let h1 := setq (setq h QRL (hq h QRL ++ hq h QL)) QL [] in
  match (match hq h1 QT with
         | [] => Some h1
         | _ => match h_split_due h1 (hnow h1) (hq h1 QT) with
                | None => None
                | Some (due, rest) =>
                    if negb (all_live h1 (hq h1 QRT)) then None
                    else Some (setq (setq h1 QRT (hq h1 QRT ++ due)) QT rest)
                end
         end) with
  | None => None
  | Some h2 =>
      match h_run_loop QRT (length (hq h2 QRT)) h2 with
      | None => None
      | Some h3 => h_run_loop QRL (length (hq h3 QRL)) h3
      end
  end.

(* tickit_evloop_next_timer_msec: reads t->timers->timer.at *)
Definition h_next_msec (h : hst) : option Z :=
  match hq h QL with
  | _ :: _ => Some 0
  | [] => match hq h QT with
          | [] => Some (-1)
          | a :: _ => match rd h a with Some w => Some (Z.max 0 ((w_x w - hnow h) / 1000)) | None => None end
          end
  end.

Definition h_tick (sleep : bool) (dt : Z) (h : hst) : option hst :=
  let h1 := set_hiter (set_hnow h (hnow h + dt)) (hiter h + 1) in
  match (if sleep then h_next_msec h1 else Some 0) with
  | None => None
  | Some msec =>
      let h2 := set_hlog h1 (OPoll msec :: hlog h1) in
      let h3 := if sleep && (0 <? msec) then set_hnow h2 (hnow h2 + msec * 1000) else h2 in
      h_invoke_timers h3
  end.

(* destroy_watchlist: next = this->next; this->flags; call; free(this) *)
Definition h_destroy_list (h : hst) (n : qn) : option hst :=
  match fold_left (fun oh a =>
          match oh with
          | None => None
          | Some h =>
              match rd h a with
              | None => None
              | Some w => hfree (if asked w then hemit h w (EV_UNBIND + EV_DESTROY) else h) a
              end
          end) (hq h n) (Some h) with
  | Some h' => Some (setq h' n [])
  | None => None
  end.

Definition h_destroy (h : hst) : option hst :=
  match h_destroy_list (set_hiter h (-1)) QI with None => None | Some h1 =>
  match h_destroy_list h1 QT with None => None | Some h2 =>
  match h_destroy_list h2 QL with None => None | Some h3 =>
  match h_destroy_list h3 QS with None => None | Some h4 =>
  h_destroy_list h4 QP end end end end.

Definition h_op (oh : option hst) (o : op) : option hst :=
  match oh with
  | None => None
  | Some h =>
      match o with
      | OAct a => h_action h a
      | ORun dt => h_tick false dt h
      | OOnce => h_tick true 0 h
      end
  end.

Definition h_run_ops (ops : list op) : option hst := fold_left h_op ops (Some hst0).

(* the script until the application's reference is gone (see LoopDefs.run_opsx) *)
Fixpoint h_run_opsx (ops : list op) (h : hst) : option (hst * bool) :=
  match ops with
  | [] => Some (h, false)
  | o :: r => match h_op (Some h) o with
              | None => None
              | Some h' => if hdrop h' then Some (h', true) else h_run_opsx r h'
              end
  end.

(* tickit_destroy when tickit_tick's own unref (or the application's, between ticks) frees the instance *)
Definition h_destroy_now (h : hst) : option hst :=
  match h_destroy_list h QI with None => None | Some h1 =>
  match h_destroy_list h1 QT with None => None | Some h2 =>
  match h_destroy_list h2 QL with None => None | Some h3 =>
  match h_destroy_list h3 QS with None => None | Some h4 =>
  h_destroy_list h4 QP end end end end.

Definition no_live (h : hst) : bool := forallb (fun c => match c with Freed => true | Live _ => false end) (hp h).

(* the verdict of a whole case: None = Fault (a freed or wild node was touched);
   Some (log, leakfree) *)
Definition h_run (ops : list op) : option (list obs * bool) :=
  match h_run_ops ops with
  | None => None
  | Some h => match h_destroy h with
              | None => None
              | Some h' => Some (rev (hlog h'), no_live h')
              end
  end.

Definition h_runx (ops : list op) : option (list obs * bool) :=
  match h_run_opsx ops hst0 with
  | None => None
  | Some (h, early) =>
      match (if early then h_destroy_now h else h_destroy h) with
      | None => None
      | Some h' => Some (rev (hlog h'), no_live h')
      end
  end.

End WithEnv.
