(* RectSetQueries.v -- C05, part 2: tickit_rectset_intersects and tickit_rectset_contains
   answer exactly "some cell of the query is covered" / "every cell of the query is
   covered" on every array that satisfies the invariant, and the recursion of
   tickit_rectset_contains terminates (fuel lines(q)+1 suffices). *)
From Coq Require Import ZArith List Bool Lia ZifyBool.
From Tickit Require Import RectDefs RectProofs RectSetDefs RectSetSpec RectSetProofs.
Import ListNotations.
Local Open Scope Z_scope.

(* ------------------------------------------------------------------ *)
(* intersects                                                          *)

Theorem rs_intersects_ok s q : Forall nonempty s -> nonempty q ->
  (rs_intersects s q = true <-> exists p, cell_in q p /\ covered s p).
Proof.
  intros Hs Hq. unfold rs_intersects. rewrite existsb_exists. rewrite Forall_forall in Hs. split.
  - intros [x [Hx Hi]]. apply intersects_iff in Hi; auto.
    destruct Hi as [p [Hp1 Hp2]]. exists p. split; [exact Hp2|]. exists x; auto.
  - intros [p [Hp [x [Hx Hc]]]]. exists x. split; [exact Hx|].
    apply intersects_iff; auto. exists p; auto.
Qed.

(* ------------------------------------------------------------------ *)
(* contains                                                            *)

Lemma intersects_false_no_common x q : nonempty x -> nonempty q ->
  r_intersects x q = false -> forall p, cell_in x p -> cell_in q p -> False.
Proof.
  intros Hx Hq Hf p H1 H2.
  assert (r_intersects x q = true) by (apply intersects_iff; auto; exists p; auto).
  congruence.
Qed.

(* a rectangle u lying in the rows of x and starting inside x's columns cannot be entirely
   covered unless it ends inside x's columns: the cell right of x in u's first row would
   have to belong to a member that touches x horizontally in a common row *)
Lemma right_edge all x u : Inv all -> In x all -> nonempty u ->
  top x <= top u -> bottom u <= bottom x -> left x <= left u -> left u < right x ->
  (forall p, cell_in u p -> covered all p) -> right u <= right x.
Proof.
  intros Hinv Hx Hu H1 H2 H3 H4 Hcov.
  destruct (Z_le_gt_dec (right u) (right x)) as [Hle|Hgt]; [exact Hle|exfalso].
  unfold nonempty, bottom, right in *.
  destruct (Hcov (top u, left x + cols x)) as [w [Hw Hwc]].
  { unfold cell_in, bottom, right; cbn [fst snd]. lia. }
  destruct Hinv as [Hne [Hsep _]].
  destruct (pairwise_In sepx all sepx_sym Hsep x w Hx Hw) as [->|[Hs _]].
  - unfold cell_in, bottom, right in Hwc; cbn [fst snd] in Hwc. lia.
  - rewrite Forall_forall in Hne. pose proof (Hne x Hx) as Hxn.
    unfold sep, cell_in, nonempty, bottom, right in *; cbn [fst snd] in *. lia.
Qed.

Definition rec_ok (all : rectset) (rec : rect -> option bool) : Prop :=
  forall q' ans, nonempty q' -> rec q' = Some ans ->
    (ans = true <-> forall p, cell_in q' p -> covered all p).

Lemma rs_contains_scan_ok all q rec :
  Inv all -> nonempty q -> rec_ok all rec ->
  forall s pre, all = pre ++ s -> Forall (fun y => r_intersects y q = false) pre ->
  forall ans, rs_contains_scan rec s q = Some ans ->
    (ans = true <-> forall p, cell_in q p -> covered all p).
Proof.
  intros Hinv Hq Hrec.
  assert (Hne : forall y, In y all -> nonempty y) by (intros y; apply Inv_In_nonempty; exact Hinv).
  induction s as [|x rest IH]; intros pre Eall Hpre ans; cbn [rs_contains_scan].
  - (* nothing intersects q: its first cell is not covered *)
    intros [= <-]. split; [discriminate|]. intros Hcov. exfalso.
    rewrite app_nil_r in Eall. subst pre.
    destruct (Hcov (top q, left q)) as [y [Hy Hyc]].
    { unfold nonempty in Hq. unfold cell_in, bottom, right; cbn [fst snd]. lia. }
    rewrite Forall_forall in Hpre.
    apply (intersects_false_no_common y q (Hne y Hy) Hq (Hpre y Hy) (top q, left q) Hyc).
    unfold nonempty in Hq. unfold cell_in, bottom, right; cbn [fst snd]. lia.
  - destruct (r_intersects x q) eqn:Eint; cbn [negb].
    2:{ apply (IH (pre ++ [x])).
        - rewrite <- app_assoc. exact Eall.
        - rewrite Forall_app. split; [exact Hpre|]. constructor; [exact Eint|constructor]. }
    assert (Hxin : In x all) by (rewrite Eall; apply in_or_app; right; left; reflexivity).
    assert (Hxn := Hne x Hxin).
    (* every member that has a cell in q is x or sorts after x, and is separated from x *)
    assert (Hfirst : forall z p, In z all -> cell_in z p -> cell_in q p ->
              z = x \/ (key_le x z /\ sep x z)).
    { intros z p Hz Hzp Hqp.
      destruct Hinv as [_ [Hsep Hso]].
      destruct (pairwise_In sepx all sepx_sym Hsep x z Hxin Hz) as [->|[Hs _]]; [left; reflexivity|].
      right. split; [|exact Hs].
      rewrite Eall in Hz. apply in_app_or in Hz. destruct Hz as [Hz|[Hz|Hz]].
      - exfalso. rewrite Forall_forall in Hpre.
        apply (intersects_false_no_common z q (Hne z ltac:(rewrite Eall; apply in_or_app; left; exact Hz))
                 Hq (Hpre z Hz) p Hzp Hqp).
      - subst z. unfold key_le. lia.
      - unfold sorted in Hso. rewrite Eall in Hso.
        apply pairwise_mid in Hso. destruct Hso as [_ Hso]. apply Hso. exact Hz. }
    unfold r_intersects in Eint.
    unfold nonempty in Hq, Hxn.
    destruct ((top q <? top x) || (left q <? left x)) eqn:Eabove.
    { (* part of q lies above or left of the first member that meets it *)
      intros [= <-]. split; [discriminate|]. intros Hcov. exfalso.
      destruct (Hcov (top q, left q)) as [z [Hz Hzc]].
      { unfold cell_in, bottom, right; cbn [fst snd]. lia. }
      assert (Hqc : cell_in q (top q, left q)) by (unfold cell_in, bottom, right; cbn [fst snd]; lia).
      destruct (Hfirst z _ Hz Hzc Hqc) as [->|[Hk Hs]].
      { unfold cell_in, bottom, right in Hzc; cbn [fst snd] in Hzc. lia. }
      pose proof (Hne z Hz) as Hzn. unfold nonempty in Hzn.
      unfold key_le in Hk. unfold sep in Hs.
      unfold cell_in, bottom, right in *; cbn [fst snd] in *.
      destruct (top q <? top x) eqn:Etop; [lia|].
      (* z covers the first cell and lies left of x with a free column between them *)
      assert (Hgap : left z + cols z < left x) by lia.
      destruct (Hcov (top q, left z + cols z)) as [w [Hw Hwc]]; [cbn [fst snd]; lia|].
      unfold cell_in, bottom, right in Hwc; cbn [fst snd] in Hwc.
      destruct Hinv as [_ [Hsep _]].
      destruct (pairwise_In sepx all sepx_sym Hsep z w Hz Hw) as [->|[Hs2 _]]; [lia|].
      pose proof (Hne w Hw) as Hwn. unfold nonempty in Hwn.
      unfold sep, bottom, right in Hs2. lia. }
    destruct ((top q <? bottom x) && (bottom x <? bottom q)) eqn:Elower.
    { (* q reaches below x: lower part by recursion, upper part must be inside x *)
      set (lower := init_bounded (bottom x) (left q) (bottom q) (right q)).
      assert (Hlow : nonempty lower).
      { unfold nonempty, lower, init_bounded, bottom, right in *; cbn [lines cols]. lia. }
      destruct (rec lower) as [a|] eqn:Erec; [|discriminate].
      pose proof (Hrec lower a Hlow Erec) as Hlo.
      destruct a.
      - intros [= <-].
        set (upper := mkRect (top q) (left q) (bottom x - top q) (cols q)).
        split.
        + intros Hc p Hp.
          destruct (Z_lt_ge_dec (fst p) (bottom x)) as [Hup|Hdn].
          * exists x. split; [exact Hxin|].
            assert (Hun : nonempty upper) by (unfold nonempty, upper, bottom in *; cbn [lines cols]; lia).
            apply (proj1 (contains_iff x upper Hun) Hc).
            destruct p as [py px]. unfold cell_in, upper, bottom, right in *; cbn [top left lines cols fst snd] in *. lia.
          * apply (proj1 Hlo eq_refl).
            destruct p as [py px]. unfold cell_in, lower, init_bounded, bottom, right in *;
              cbn [top left lines cols fst snd] in *. lia.
        + intros Hcov.
          assert (Hun : nonempty upper) by (unfold nonempty, upper, bottom in *; cbn [lines cols]; lia).
          assert (Hr : right upper <= right x).
          { apply (right_edge all x upper Hinv Hxin Hun);
              try (unfold upper, bottom, right in *; cbn [top left lines cols]; lia).
            intros p Hp. apply Hcov. destruct p as [py px].
            unfold cell_in, upper, bottom, right in *; cbn [top left lines cols fst snd] in *. lia. }
          unfold r_contains, upper, bottom, right in *; cbn [top left lines cols] in *. lia.
      - intros [= <-]. split; [discriminate|]. intros Hcov.
        assert (false = true); [|discriminate]. apply Hlo. intros p Hp. apply Hcov.
        destruct p as [py px]. unfold cell_in, lower, init_bounded, bottom, right in *;
          cbn [top left lines cols fst snd] in *. lia. }
    (* q ends within x's rows *)
    intros [= <-]. split.
    + intros Hc p Hp. exists x. split; [exact Hxin|].
      assert (Hqn : nonempty q) by (unfold nonempty; lia).
      exact (proj1 (contains_iff x q Hqn) Hc p Hp).
    + intros Hcov.
      assert (Hr : right q <= right x).
      { apply (right_edge all x q Hinv Hxin); try (unfold nonempty, bottom, right in *; lia). exact Hcov. }
      unfold r_contains, bottom, right in *. lia.
Qed.

Theorem rs_contains_ok all : Inv all ->
  forall fuel q ans, nonempty q -> rs_contains fuel all q = Some ans ->
    (ans = true <-> forall p, cell_in q p -> covered all p).
Proof.
  intros Hinv. induction fuel as [|f IH]; intros q ans Hq; cbn [rs_contains]; [discriminate|].
  intros Hscan.
  assert (Hrec : rec_ok all (rs_contains f all)).
  { intros q' a Hq' Ha. exact (IH q' a Hq' Ha). }
  exact (rs_contains_scan_ok all q (rs_contains f all) Hinv Hq Hrec all [] eq_refl (Forall_nil _) ans Hscan).
Qed.

(* termination: the recursion is on a rectangle with strictly fewer lines *)
Lemma rs_contains_scan_some rec q : nonempty q ->
  (forall q', nonempty q' -> lines q' < lines q -> rec q' <> None) ->
  forall s, rs_contains_scan rec s q <> None.
Proof.
  intros Hq Hrec. induction s as [|x rest IH]; cbn [rs_contains_scan]; [discriminate|].
  destruct (negb (r_intersects x q)); [exact IH|].
  destruct ((top q <? top x) || (left q <? left x)); [discriminate|].
  destruct ((top q <? bottom x) && (bottom x <? bottom q)) eqn:E; [|discriminate].
  set (lower := init_bounded (bottom x) (left q) (bottom q) (right q)).
  assert (Hl : rec lower <> None).
  { unfold nonempty in Hq.
    apply Hrec; unfold nonempty, lower, init_bounded, bottom, right in *; cbn [lines cols]; lia. }
  destruct (rec lower) as [[|]|]; [discriminate|discriminate|congruence].
Qed.

Theorem rs_contains_terminates all : forall fuel q, nonempty q ->
  (Z.to_nat (lines q) < fuel)%nat -> rs_contains fuel all q <> None.
Proof.
  induction fuel as [|f IH]; intros q Hq Hf; [lia|]. cbn [rs_contains].
  apply rs_contains_scan_some; [exact Hq|].
  intros q' Hq' Hlt. apply IH; [exact Hq'|]. unfold nonempty in *. lia.
Qed.
