(* RBTermSim.v -- the terminal model (after src/mockterm.c) executed on a list of operations,
   described cell by cell: [paint] computes, without a grid, which cell receives what; [t_run]
   on a well-shaped terminal produces exactly that overlay.  Printing is treated for every valid
   string that begins with a base character: the grapheme loop of mtd_print lays it out as
   [lay] says. *)
From Coq Require Import ZArith List Bool Lia.
From Tickit Require Import RectDefs RBDefs RBSpec RBLemmas RBAbsLemmas Gen_Linechars RBFlushDefs RBFlushSpec RBWidth.
Import ListNotations.
Local Open Scope Z_scope.

Definition tcellat (t : term) (y x : Z) : tcell := zn (zn (tg t) y []) x dtc.

Definition term_ok (t : term) : Prop :=
  zlen (tg t) = t_lines t /\ 0 <= t_cols t /\ forall y, 0 <= y < t_lines t -> zlen (zn (tg t) y []) = t_cols t.

Definition narrow (u : list Z) : Prop := forall c, In c u -> cpw c = 1.

Lemma narrowb_narrow : forall u, narrowb u = true <-> narrow u.
Proof.
  intros u. unfold narrowb, narrow. rewrite forallb_forall. split; intros H c Hc; specialize (H c Hc); lia.
Qed.

(* same shape and same everything but the grid and the cursor *)
Definition same_frame (t t' : term) : Prop :=
  t_lines t' = t_lines t /\ t_cols t' = t_cols t /\ t_maybe t' = t_maybe t.

(* ---------------------------------------------------------------------------------- *)
(* t_set_cells, pointwise *)

Lemma set_cells_ok : forall t line f, term_ok t -> term_ok (t_set_cells t line f).
Proof.
  intros t line f (H1 & H2 & H3). unfold term_ok, t_set_cells. cbn [tg t_lines t_cols].
  rewrite zlen_mapi. split; [assumption|]. split; [assumption|]. intros y Hy.
  rewrite (zn_mapi _ (tg t) y [] []) by lia.
  destruct (y =? line); [rewrite zlen_mapi|]; apply H3; assumption.
Qed.

Lemma set_cells_at : forall t line f y x, term_ok t -> 0 <= y < t_lines t -> 0 <= x < t_cols t ->
  tcellat (t_set_cells t line f) y x = if y =? line then f x (tcellat t y x) else tcellat t y x.
Proof.
  intros t line f y x (H1 & H2 & H3) Hy Hx. unfold tcellat, t_set_cells. cbn [tg].
  rewrite (zn_mapi _ (tg t) y [] []) by lia.
  destruct (y =? line); [|reflexivity].
  rewrite (zn_mapi _ _ x dtc dtc) by (rewrite H3 by assumption; lia). reflexivity.
Qed.

(* ---------------------------------------------------------------------------------- *)
(* printing: the mock terminal's grapheme loop lays a string out as [lay] says -- each base
   character together with the zero-width characters that follow it in the cell of its first
   column, an empty continuation cell for the second column of a double-width character *)

Fixpoint lay_aux (u : list Z) : list Z * list (list Z) :=
  match u with
  | [] => ([], [])
  | c :: r =>
      let '(pc, cells) := lay_aux r in
      if 0 <? cpw c then ([], (c :: pc) :: repeat [] (Z.to_nat (cpw c - 1)) ++ cells)
      else (c :: pc, cells)
  end.
Definition lay (u : list Z) : list (list Z) := snd (lay_aux u).

Definition zerow (l : list Z) : Prop := forall c, In c l -> cpw c = 0.
Definition starts_base (u : list Z) : Prop := match u with [] => True | c :: _ => 0 < cpw c end.
Definition starts_baseb (u : list Z) : bool := match u with [] => true | c :: _ => 0 <? cpw c end.

Lemma starts_baseb_iff : forall u, starts_baseb u = true <-> starts_base u.
Proof. intros [|c u]; cbn; [tauto|]. apply Z.ltb_lt. Qed.

Lemma lay_aux_zerow : forall combs r, zerow combs ->
  lay_aux (combs ++ r) = (combs ++ fst (lay_aux r), snd (lay_aux r)).
Proof.
  induction combs as [|c combs IH]; intros r Z0; cbn [app lay_aux]; [destruct (lay_aux r); reflexivity|].
  rewrite IH by (intros x Hx; apply Z0; right; exact Hx).
  rewrite (Z0 c (or_introl eq_refl)). cbn. reflexivity.
Qed.

Lemma lay_aux_base : forall r, starts_base r -> fst (lay_aux r) = [].
Proof.
  intros [|c r] H; cbn [lay_aux]; [reflexivity|]. cbn [starts_base] in H.
  destruct (lay_aux r). destruct (Z.ltb_spec 0 (cpw c)); [reflexivity|lia].
Qed.

Lemma lay_grapheme : forall b combs rest,
  0 < cpw b -> zerow combs -> starts_base rest ->
  lay (b :: combs ++ rest) = (b :: combs) :: repeat [] (Z.to_nat (cpw b - 1)) ++ lay rest.
Proof.
  intros b combs rest Hb Z0 Sb. unfold lay. cbn [lay_aux]. rewrite lay_aux_zerow by exact Z0.
  rewrite (lay_aux_base rest Sb), app_nil_r.
  destruct (Z.ltb_spec 0 (cpw b)); [|lia]. reflexivity.
Qed.

Lemma split_grapheme : forall r, valid r ->
  exists combs rest, r = combs ++ rest /\ zerow combs /\ starts_base rest.
Proof.
  induction r as [|c r IH]; intros V.
  - exists [], []. split; [reflexivity|]. split; [intros x []|exact Logic.I].
  - assert (Hc : 0 <= cpw c) by (apply V; left; reflexivity).
    destruct (Z.eq_dec (cpw c) 0) as [E0|Ne].
    + destruct IH as (combs & rest & -> & Z0 & Sb); [intros x Hx; apply V; right; exact Hx|].
      exists (c :: combs), rest. split; [reflexivity|]. split; [|exact Sb].
      intros x [<-|Hx]; [exact E0|apply Z0; exact Hx].
    + exists [], (c :: r). split; [reflexivity|]. split; [intros x []|]. cbn [starts_base]. lia.
Qed.

Lemma tw_zerow : forall l, zerow l -> tw l = 0.
Proof.
  induction l as [|c l IH]; intros Z0; [reflexivity|]. cbn [tw]. rewrite (Z0 c (or_introl eq_refl)).
  rewrite IH; [lia|]. intros x Hx. apply Z0. right. exact Hx.
Qed.

Lemma lay_length : forall u, valid u -> starts_base u -> zlen (lay u) = tw u.
Proof.
  intros u. remember (length u) as m eqn:Em. revert u Em.
  induction m as [m IHm] using (well_founded_induction lt_wf). intros u Em V Sb.
  destruct u as [|b r]; [reflexivity|]. cbn [starts_base] in Sb.
  destruct (split_grapheme r) as (combs & rest & -> & Z0 & Sr); [intros x Hx; apply V; right; exact Hx|].
  rewrite lay_grapheme by assumption. unfold zlen. cbn [length tw]. rewrite app_length, repeat_length, tw_app, (tw_zerow combs Z0).
  assert (Vr : valid rest) by (intros x Hx; apply V; right; apply in_or_app; right; exact Hx).
  pose proof (IHm (length rest) ltac:(subst m; cbn [length]; rewrite app_length; lia) rest eq_refl Vr Sr) as IH.
  unfold zlen in IH. lia.
Qed.

(* the counter on one grapheme *)
Lemma countmore_base_fit : forall b r pos here lc,
  0 < cpw b -> sp_col here + cpw b <= lc ->
  countmore (b :: r) pos here (-1) lc =
  countmore r here (mkPos (sp_cp here + 1) (sp_gr here + 1) (sp_col here + cpw b)) (-1) lc.
Proof.
  intros b r pos here lc W H. cbn [countmore].
  change (-1 =? -1) with true. cbn [negb andb].
  destruct (Z.ltb_spec 0 (cpw b)); [|lia].
  destruct (Z.gtb_spec (sp_col here + cpw b) lc); [lia|]. rewrite andb_false_r. reflexivity.
Qed.

Lemma countmore_base_nofit : forall b r pos here lc,
  0 < cpw b -> sp_col here + cpw b > lc -> lc <> -1 ->
  countmore (b :: r) pos here (-1) lc = here.
Proof.
  intros b r pos here lc W H Hn. cbn [countmore].
  change (-1 =? -1) with true. cbn [negb andb].
  destruct (Z.ltb_spec 0 (cpw b)); [|lia].
  destruct (Z.gtb_spec (sp_col here + cpw b) lc); [|lia].
  destruct (Z.eqb_spec lc (-1)); [lia|]. reflexivity.
Qed.

Lemma countmore_zerow : forall combs rest pos here lc,
  zerow combs -> sp_col here <= lc -> lc <> -1 ->
  (rest = [] \/ exists b' r', rest = b' :: r' /\ 0 < cpw b' /\ sp_col here + cpw b' > lc) ->
  countmore (combs ++ rest) pos here (-1) lc =
  mkPos (sp_cp here + zlen combs) (sp_gr here) (sp_col here).
Proof.
  induction combs as [|c combs IH]; intros rest pos here lc Z0 Hle Hn Hr; cbn [app].
  - unfold zlen. cbn [length Z.of_nat]. rewrite Z.add_0_r.
    destruct Hr as [->|(b' & r' & -> & Hb1 & Hb2)].
    + cbn [countmore]. destruct here; reflexivity.
    + rewrite countmore_base_nofit by assumption. destruct here; reflexivity.
  - cbn [countmore]. rewrite (Z0 c (or_introl eq_refl)).
    change (-1 =? -1) with true. change (0 <? 0) with false. cbn [negb andb].
    rewrite Z.add_0_r. destruct (Z.gtb_spec (sp_col here) lc); [lia|]. rewrite andb_false_r.
    rewrite IH; try assumption.
    + cbn [sp_cp sp_gr sp_col]. unfold zlen. cbn [length]. rewrite Nat2Z.inj_succ. f_equal; lia.
    + intros x Hx. apply Z0. right. exact Hx.
Qed.

Lemma skipz_app_len : forall (a b : list Z), skipz (zlen a) (a ++ b) = b.
Proof.
  intros a b. unfold skipz, zlen. rewrite Nat2Z.id. rewrite skipn_app, skipn_all, Nat.sub_diag. reflexivity.
Qed.

Lemma slice_grapheme : forall (done g rest : list Z) a1 a2 b1 b2,
  slice (done ++ g ++ rest) (mkPos (zlen done) a1 a2) (mkPos (zlen done + zlen g) b1 b2) = g.
Proof.
  intros. unfold slice. cbn [sp_cp]. rewrite skipz_app_len. unfold firstz.
  replace (zlen done + zlen g - zlen done) with (zlen g) by lia. unfold zlen. rewrite Nat2Z.id.
  rewrite firstn_app, firstn_all, Nat.sub_diag. cbn [firstn]. apply app_nil_r.
Qed.

(* one grapheme of the loop *)
Lemma count_on_grapheme : forall done b combs rest g col lim,
  0 < cpw b -> zerow combs -> starts_base rest -> valid rest ->
  col + cpw b <= lim -> lim < col + cpw b + 1 -> 0 <= lim ->
  count_on (done ++ (b :: combs) ++ rest) (mkPos (zlen done) g col) (-1) lim =
  mkPos (zlen done + zlen (b :: combs)) (g + 1) (col + cpw b).
Proof.
  intros done b combs rest g col lim Hb Z0 Sb Vr H1 H2 H0.
  unfold count_on. cbn [sp_cp]. rewrite skipz_app_len. cbn [app].
  rewrite countmore_base_fit by (cbn [sp_col]; assumption). cbn [sp_cp sp_gr sp_col].
  rewrite countmore_zerow; try assumption; cbn [sp_cp sp_gr sp_col]; try lia.
  - unfold zlen. cbn [length]. rewrite Nat2Z.inj_succ. f_equal. lia.
  - destruct rest as [|b' r']; [left; reflexivity|right]. cbn [starts_base] in Sb.
    exists b', r'. split; [reflexivity|]. split; [exact Sb|]. lia.
Qed.

Lemma count_on_nofit : forall done b r g col lim,
  0 < cpw b -> col + cpw b > lim -> 0 <= lim ->
  count_on (done ++ b :: r) (mkPos (zlen done) g col) (-1) lim = mkPos (zlen done) g col.
Proof.
  intros done b r g col lim Hb H1 H0. unfold count_on. cbn [sp_cp]. rewrite skipz_app_len.
  apply countmore_base_nofit; cbn [sp_col]; try assumption. lia.
Qed.

(* one round of the loop that makes progress / makes none *)
Lemma loop_progress : forall f t done b combs rest g col limp,
  0 < cpw b -> zerow combs -> starts_base rest -> valid rest ->
  limp + 1 = col + cpw b -> 0 <= col -> col + cpw b <= t_cols t ->
  t_print_loop (S f) t (done ++ (b :: combs) ++ rest) (mkPos (zlen done) g col) limp =
  t_print_loop f
    (t_set_cells t (t_line t)
       (fun x c => if x =? col then mkT (b :: combs) (t_cur t)
                   else if (col <? x) && (x <? col + cpw b) then mkT [] (t_cur t) else c))
    (done ++ (b :: combs) ++ rest) (mkPos (zlen done + zlen (b :: combs)) (g + 1) (col + cpw b)) (col + cpw b).
Proof.
  intros f t done b combs rest g col limp Hb Z0 Sb Vr Hl Hc Hr.
  cbn [t_print_loop sp_cp].
  destruct (Z.leb_spec (Z.of_nat (length (done ++ (b :: combs) ++ rest))) (zlen done)) as [Hle|_].
  { rewrite !app_length in Hle. unfold zlen in Hle. cbn [length] in Hle. lia. }
  rewrite Hl.
  rewrite (count_on_grapheme done b combs rest g col (col + cpw b)) by (assumption || lia).
  cbn [sp_col].
  destruct (Z.eqb_spec (col + cpw b) col); [lia|].
  destruct (Z.geb_spec col (t_cols t)); [lia|].
  rewrite slice_grapheme. reflexivity.
Qed.

Lemma loop_noprogress : forall f t done b r g col limp,
  0 < cpw b -> limp + 1 < col + cpw b -> 0 <= limp + 1 ->
  t_print_loop (S f) t (done ++ b :: r) (mkPos (zlen done) g col) limp =
  t_print_loop f t (done ++ b :: r) (mkPos (zlen done) g col) (limp + 1).
Proof.
  intros f t done b r g col limp Hb Hl H0.
  cbn [t_print_loop sp_cp].
  destruct (Z.leb_spec (Z.of_nat (length (done ++ b :: r))) (zlen done)) as [Hle|_].
  { rewrite !app_length in Hle. unfold zlen in Hle. cbn [length] in Hle. lia. }
  rewrite (count_on_nofit done b r g col (limp + 1)) by (assumption || lia).
  cbn [sp_col]. rewrite Z.eqb_refl. reflexivity.
Qed.

Lemma print_loop_lay : forall m fuel done remaining t g col,
  (length remaining <= m)%nat -> (2 * m < fuel)%nat ->
  valid remaining -> starts_base remaining -> term_ok t ->
  0 <= t_line t < t_lines t -> 0 <= col -> col + tw remaining <= t_cols t ->
  exists t', t_print_loop fuel t (done ++ remaining) (mkPos (zlen done) g col) col = Ok t' /\
    term_ok t' /\ same_frame t t' /\ t_cur t' = t_cur t /\ t_line t' = t_line t /\ t_col t' = col + tw remaining /\
    forall y x, 0 <= y < t_lines t -> 0 <= x < t_cols t ->
      tcellat t' y x = if (y =? t_line t) && (col <=? x) && (x <? col + tw remaining)
                       then mkT (nth (Z.to_nat (x - col)) (lay remaining) []) (t_cur t) else tcellat t y x.
Proof.
  induction m as [|m IH]; intros fuel done remaining t g col Hm Hf V Sb T Hl Hc Hr.
  - destruct remaining; [|cbn [length] in Hm; lia]. rewrite app_nil_r.
    destruct fuel as [|f]; [lia|]. cbn [t_print_loop sp_cp]. unfold zlen.
    destruct (Z.leb_spec (Z.of_nat (length done)) (Z.of_nat (length done))); [|lia].
    eexists. split; [reflexivity|]. unfold t_move. cbn [t_lines t_cols tg t_line t_col t_cur t_maybe sp_col tw].
    split; [exact T|]. split; [repeat split|]. split; [reflexivity|]. split; [reflexivity|]. split; [lia|].
    intros y x Hy Hx. unfold tcellat. cbn [tg].
    destruct (Z.leb_spec col x); destruct (Z.ltb_spec x (col + 0)); try lia; rewrite ?andb_false_r; reflexivity.
  - destruct remaining as [|b r0].
    { (* as above *)
      rewrite app_nil_r. destruct fuel as [|f]; [lia|]. cbn [t_print_loop sp_cp]. unfold zlen.
      destruct (Z.leb_spec (Z.of_nat (length done)) (Z.of_nat (length done))); [|lia].
      eexists. split; [reflexivity|]. unfold t_move. cbn [t_lines t_cols tg t_line t_col t_cur t_maybe sp_col tw].
      split; [exact T|]. split; [repeat split|]. split; [reflexivity|]. split; [reflexivity|]. split; [lia|].
      intros y x Hy Hx. unfold tcellat. cbn [tg].
      destruct (Z.leb_spec col x); destruct (Z.ltb_spec x (col + 0)); try lia; rewrite ?andb_false_r; reflexivity. }
    cbn [starts_base] in Sb.
    assert (Vr0 : valid r0) by (intros x Hx; apply V; right; exact Hx).
    destruct (split_grapheme r0 Vr0) as (combs & rest & -> & Z0 & Sr).
    assert (Vr : valid rest) by (intros x Hx; apply Vr0; apply in_or_app; right; exact Hx).
    assert (Hw2 := cpw_le2 b).
    assert (Etw : tw (b :: combs ++ rest) = cpw b + tw rest) by (cbn [tw]; rewrite tw_app, (tw_zerow combs Z0); lia).
    assert (Htr : 0 <= tw rest) by (apply tw_nonneg; exact Vr).
    rewrite Etw in *.
    cbn [length] in Hm. rewrite app_length in Hm.
    change (b :: combs ++ rest) with ((b :: combs) ++ rest).
    (* reach the round that makes progress *)
    assert (Step : exists f, (2 * m < f)%nat /\
      t_print_loop fuel t (done ++ (b :: combs) ++ rest) (mkPos (zlen done) g col) col =
      t_print_loop f
        (t_set_cells t (t_line t)
           (fun x c => if x =? col then mkT (b :: combs) (t_cur t)
                       else if (col <? x) && (x <? col + cpw b) then mkT [] (t_cur t) else c))
        (done ++ (b :: combs) ++ rest) (mkPos (zlen done + zlen (b :: combs)) (g + 1) (col + cpw b)) (col + cpw b)).
    { destruct (Z.eq_dec (cpw b) 1) as [W1|W1].
      - destruct fuel as [|f]; [lia|]. exists f. split; [lia|].
        apply loop_progress; try assumption; lia.
      - assert (cpw b = 2) by lia.
        destruct fuel as [|[|f]]; try lia. exists f. split; [lia|].
        change ((b :: combs) ++ rest) with (b :: combs ++ rest).
        rewrite loop_noprogress by lia.
        change (b :: combs ++ rest) with ((b :: combs) ++ rest).
        apply loop_progress; try assumption; lia. }
    destruct Step as (f & Hf' & ->).
    set (t1 := t_set_cells t (t_line t) _).
    assert (T1 : term_ok t1) by (apply set_cells_ok; exact T).
    rewrite app_assoc.
    replace (zlen done + zlen (b :: combs)) with (zlen (done ++ b :: combs)) by (unfold zlen; rewrite app_length; lia).
    destruct (IH f (done ++ b :: combs) rest t1 (g + 1) (col + cpw b)) as (t' & Et & T' & F' & P' & L' & C' & G'); try assumption; try lia.
    all: try (unfold t1; cbn [t_set_cells t_line t_lines t_cols]; first [assumption | lia]).
    exists t'. split; [exact Et|]. split; [exact T'|].
    split; [destruct F' as (F1 & F2 & F3); unfold t1 in *; cbn [t_set_cells t_lines t_cols t_maybe] in *; repeat split; assumption|].
    split; [rewrite P'; reflexivity|]. split; [rewrite L'; reflexivity|]. split; [rewrite C'; lia|].
    intros y x Hy Hx. rewrite (G' y x) by (unfold t1; cbn [t_set_cells t_lines t_cols]; assumption).
    unfold t1 at 1 2. cbn [t_set_cells t_line t_cur].
    unfold t1. rewrite set_cells_at by assumption.
    change ((b :: combs) ++ rest) with (b :: combs ++ rest). rewrite lay_grapheme by assumption.
    destruct (Z.eqb_spec y (t_line t)) as [->|Hy']; cbn [andb]; [|reflexivity].
    destruct (Z.leb_spec (col + cpw b) x); cbn [andb].
    + (* right of this grapheme *)
      destruct (Z.leb_spec col x); [|lia]. cbn [andb].
      destruct (Z.eqb_spec x col); [lia|].
      destruct (Z.ltb_spec x (col + cpw b)); [lia|]. rewrite andb_false_r.
      destruct (Z.ltb_spec x (col + cpw b + tw rest)); destruct (Z.ltb_spec x (col + (cpw b + tw rest))); try lia; [|reflexivity].
      f_equal. replace (Z.to_nat (x - col)) with (S (Z.to_nat (cpw b - 1) + Z.to_nat (x - (col + cpw b))))%nat by lia.
      cbn [nth]. rewrite app_nth2 by (rewrite repeat_length; lia). rewrite repeat_length. f_equal. lia.
    + destruct (Z.eqb_spec x col) as [->|Hx'].
      * destruct (Z.leb_spec col col); [|lia]. destruct (Z.ltb_spec col (col + (cpw b + tw rest))); [|lia]. cbn [andb].
        rewrite Z.sub_diag. reflexivity.
      * destruct (Z.ltb_spec col x); cbn [andb].
        -- destruct (Z.ltb_spec x (col + cpw b)); [|lia].
           destruct (Z.leb_spec col x); [|lia]. destruct (Z.ltb_spec x (col + (cpw b + tw rest))); [|lia]. cbn [andb].
           f_equal. replace (Z.to_nat (x - col)) with (S (Z.to_nat (x - col - 1))) by lia. cbn [nth].
           rewrite app_nth1 by (rewrite repeat_length; lia).
           assert (Hin : In (nth (Z.to_nat (x - col - 1)) (repeat (@nil Z) (Z.to_nat (cpw b - 1))) []) (repeat [] (Z.to_nat (cpw b - 1)))).
           { apply nth_In. rewrite repeat_length. lia. }
           apply repeat_spec in Hin. symmetry. exact Hin.
        -- destruct (Z.leb_spec col x); [lia|]. reflexivity.
Qed.

(* printing a valid string that begins with a base character *)
Lemma print_lay : forall u t,
  valid u -> starts_base u -> term_ok t -> 0 <= t_line t < t_lines t -> 0 <= t_col t -> t_col t + tw u <= t_cols t ->
  exists t', t_apply t (TPrint u) = Ok t' /\
    term_ok t' /\ same_frame t t' /\ t_cur t' = t_cur t /\ t_line t' = t_line t /\ t_col t' = t_col t + tw u /\
    forall y x, 0 <= y < t_lines t -> 0 <= x < t_cols t ->
      tcellat t' y x = if (y =? t_line t) && (t_col t <=? x) && (x <? t_col t + tw u)
                       then mkT (nth (Z.to_nat (x - t_col t)) (lay u) []) (t_cur t) else tcellat t y x.
Proof.
  intros u t V Sb T Hl Hc Hr. cbn [t_apply].
  destruct (Z.leb_spec 0 (t_line t)); [|lia]. destruct (Z.ltb_spec (t_line t) (t_lines t)); [|lia].
  destruct (Z.leb_spec 0 (t_col t)); [|lia]. cbn [andb].
  destruct (print_loop_lay (length u) (2 * length u + 2) [] u t 0 (t_col t)) as (t' & E & R); try assumption; try lia.
  cbn [app] in E. change (zlen (@nil Z)) with 0 in E. exists t'. split; [exact E|exact R].
Qed.

(* ---------------------------------------------------------------------------------- *)
(* erasing *)

Lemma erase_at : forall t n mv,
  term_ok t -> 0 <= t_line t < t_lines t -> 0 <= t_col t -> 0 <= n -> t_col t + n <= t_cols t ->
  exists t', t_apply t (TErase n mv) = Ok t' /\
    term_ok t' /\ same_frame t t' /\ t_cur t' = t_cur t /\ t_line t' = t_line t /\
    (mv = true -> t_col t' = t_col t + n) /\ 0 <= t_col t' /\
    forall y x, 0 <= y < t_lines t -> 0 <= x < t_cols t ->
      tcellat t' y x = if (y =? t_line t) && (t_col t <=? x) && (x <? t_col t + n)
                       then mkT [32] (t_cur t) else tcellat t y x.
Proof.
  intros t n mv T Hl Hc Hn Hr. cbn [t_apply].
  destruct (Z.leb_spec 0 (t_line t)); [|lia]. destruct (Z.ltb_spec (t_line t) (t_lines t)); [|lia].
  destruct (Z.leb_spec 0 (t_col t)); [|lia]. cbn [andb].
  assert (B : bound (t_col t + n) 0 (t_cols t) = t_col t + n).
  { unfold bound. destruct (Z.ltb_spec (t_col t + n) 0); [lia|]. destruct (Z.gtb_spec (t_col t + n) (t_cols t)); lia. }
  rewrite B. eexists. split; [reflexivity|].
  unfold t_move. cbn [t_lines t_cols tg t_line t_col t_cur t_maybe].
  split; [apply (set_cells_ok t (t_line t) _ T)|]. split; [repeat split|]. split; [reflexivity|]. split; [reflexivity|].
  split; [intros ->; reflexivity|]. split; [destruct (mv || t_maybe t); lia|].
  intros y x Hy Hx. unfold tcellat at 1. cbn [tg].
  change (zn (zn (tg (t_set_cells t (t_line t) (fun x0 c => if (t_col t <=? x0) && (x0 <? t_col t + n) then mkT [32] (t_cur t) else c))) y []) x dtc)
    with (tcellat (t_set_cells t (t_line t) (fun x0 c => if (t_col t <=? x0) && (x0 <? t_col t + n) then mkT [32] (t_cur t) else c)) y x).
  rewrite set_cells_at by assumption.
  destruct (y =? t_line t); cbn [andb]; reflexivity.
Qed.

(* ---------------------------------------------------------------------------------- *)
(* which cell receives what: the operations executed without a grid *)

Definition writes := list (tpos * tcell).

(* last writer wins *)
Definition look (w : writes) (pos : tpos) (d : tcell) : tcell :=
  fold_left (fun acc pc => if tpos_eqb (fst pc) pos then snd pc else acc) w d.

Fixpoint rw (l c : Z) (cells : list tcell) : writes :=
  match cells with
  | [] => []
  | x :: r => ((l, c), x) :: rw l (c + 1) r
  end.

Fixpoint paint (L C : Z) (cur : option tpos) (pn : pen) (ops : list termop) : option (writes * option tpos * pen) :=
  match ops with
  | [] => Some ([], cur, pn)
  | TGoto l c :: r =>
      if (0 <=? l) && (l <? L) && (0 <=? c) && (c <? C) then paint L C (Some (l, c)) pn r else None
  | TSetPen p :: r => paint L C cur (canon_pen p) r
  | TPrint u :: r =>
      match cur with
      | None => None
      | Some (l, c) =>
          if text_valid u && starts_baseb u && (c + text_width u <=? C) then
            match paint L C (Some (l, c + text_width u)) pn r with
            | None => None
            | Some (w, e, q) => Some (rw l c (map (fun txt => mkT txt pn) (lay u)) ++ w, e, q)
            end
          else None
      end
  | TErase n mv :: r =>
      match cur with
      | None => None
      | Some (l, c) =>
          if (0 <=? n) && (c + n <=? C) then
            match paint L C (if mv then Some (l, c + n) else None) pn r with
            | None => None
            | Some (w, e, q) => Some (rw l c (repeat (mkT [32] pn) (Z.to_nat n)) ++ w, e, q)
            end
          else None
      end
  end.

Lemma look_app : forall a b pos d, look (a ++ b) pos d = look b pos (look a pos d).
Proof. intros. unfold look. apply fold_left_app. Qed.

Lemma look_rw : forall cells l c y x d,
  look (rw l c cells) (y, x) d =
  if (y =? l) && (c <=? x) && (x <? c + zlen cells) then nth (Z.to_nat (x - c)) cells d else d.
Proof.
  induction cells as [|x0 cells IH]; intros l c y x d; cbn [rw].
  - unfold look, zlen. cbn [fold_left length Z.of_nat].
    destruct (Z.leb_spec c x); destruct (Z.ltb_spec x (c + 0)); try lia; rewrite ?andb_false_r; reflexivity.
  - unfold look in *. cbn [fold_left fst snd]. rewrite IH. unfold tpos_eqb. cbn [fst snd].
    unfold zlen. cbn [length]. rewrite Nat2Z.inj_succ.
    destruct (Z.eqb_spec y l) as [->|Hy]; [|rewrite (proj2 (Z.eqb_neq l y)) by lia; reflexivity].
    rewrite Z.eqb_refl. cbn [andb].
    destruct (Z.eqb_spec c x) as [->|Hx].
    + destruct (Z.leb_spec (x + 1) x); [lia|]. cbn [andb].
      destruct (Z.leb_spec x x); [|lia]. destruct (Z.ltb_spec x (x + Z.succ (Z.of_nat (length cells)))); [|lia].
      cbn [andb]. rewrite Z.sub_diag. reflexivity.
    + destruct (Z.leb_spec (c + 1) x); destruct (Z.leb_spec c x); try lia; cbn [andb]; [|reflexivity].
      destruct (Z.ltb_spec x (c + 1 + Z.of_nat (length cells)));
        destruct (Z.ltb_spec x (c + Z.succ (Z.of_nat (length cells)))); try lia; [|reflexivity].
      replace (Z.to_nat (x - c)) with (S (Z.to_nat (x - (c + 1)))) by lia. reflexivity.
Qed.

Lemma paint_app : forall L C a b cur pn,
  paint L C cur pn (a ++ b) =
  match paint L C cur pn a with
  | None => None
  | Some (w1, c1, p1) =>
      match paint L C c1 p1 b with None => None | Some (w2, c2, p2) => Some (w1 ++ w2, c2, p2) end
  end.
Proof.
  induction a as [|o a IH]; intros b cur pn; cbn [app paint].
  - destruct (paint L C cur pn b) as [[[w2 c2] p2]|]; reflexivity.
  - destruct o.
    + destruct (_ && _); [apply IH|reflexivity].
    + apply IH.
    + destruct cur as [[l c]|]; [|reflexivity]. destruct (_ && _); [|reflexivity]. rewrite IH.
      destruct (paint L C (Some (l, c + text_width s)) pn a) as [[[w1 c1] p1]|]; [|reflexivity].
      destruct (paint L C c1 p1 b) as [[[w2 c2] p2]|]; [|reflexivity]. now rewrite app_assoc.
    + destruct cur as [[l c]|]; [|reflexivity]. destruct (_ && _); [|reflexivity]. rewrite IH.
      destruct (paint L C (if moveend then Some (l, c + n) else None) pn a) as [[[w1 c1] p1]|]; [|reflexivity].
      destruct (paint L C c1 p1 b) as [[[w2 c2] p2]|]; [|reflexivity]. now rewrite app_assoc.
Qed.

Definition cur_match (t : term) (cur : option tpos) : Prop :=
  match cur with
  | None => True
  | Some (l, c) => t_line t = l /\ t_col t = c /\ 0 <= l < t_lines t /\ 0 <= c
  end.

(* the terminal executes the operations as [paint] says *)
Theorem t_run_paint : forall ops t cur w cur' pen',
  term_ok t -> cur_match t cur ->
  paint (t_lines t) (t_cols t) cur (t_cur t) ops = Some (w, cur', pen') ->
  exists t', t_run t ops = Ok t' /\ term_ok t' /\ same_frame t t' /\ t_cur t' = pen' /\ cur_match t' cur' /\
    forall y x, 0 <= y < t_lines t -> 0 <= x < t_cols t -> tcellat t' y x = look w (y, x) (tcellat t y x).
Proof.
  induction ops as [|o ops IH]; intros t cur w cur' pen' T M P; cbn [paint] in P.
  - inversion P; subst. exists t. cbn [t_run]. repeat split; auto; try apply T.
  - destruct o as [l c|p|u|n mv].
    + (* goto *)
      destruct (Z.leb_spec 0 l); cbn [andb] in P; [|discriminate].
      destruct (Z.ltb_spec l (t_lines t)); cbn [andb] in P; [|discriminate].
      destruct (Z.leb_spec 0 c); cbn [andb] in P; [|discriminate].
      destruct (Z.ltb_spec c (t_cols t)); cbn [andb] in P; [|discriminate].
      cbn [t_run t_apply bind].
      assert (B1 : bound l 0 (t_lines t - 1) = l).
      { unfold bound. destruct (Z.ltb_spec l 0); [lia|]. destruct (Z.gtb_spec l (t_lines t - 1)); lia. }
      assert (B2 : bound c 0 (t_cols t - 1) = c).
      { unfold bound. destruct (Z.ltb_spec c 0); [lia|]. destruct (Z.gtb_spec c (t_cols t - 1)); lia. }
      rewrite B1, B2.
      destruct (IH (t_move t l c) (Some (l, c)) w cur' pen') as (t' & E & R); [exact T| |exact P|].
      { cbn [cur_match t_move t_line t_col t_lines]. repeat split; lia. }
      exists t'. split; [exact E|exact R].
    + (* setpen *)
      cbn [t_run t_apply bind].
      set (t1 := mkTerm (t_lines t) (t_cols t) (tg t) (t_line t) (t_col t) (canon_pen p) (t_maybe t)).
      destruct (IH t1 cur w cur' pen') as (t' & E & R); [exact T| |exact P|].
      { destruct cur as [[l c]|]; [|exact Logic.I]. exact M. }
      exists t'. split; [exact E|exact R].
    + (* print *)
      destruct cur as [[l c]|]; [|discriminate]. destruct M as (M1 & M2 & M3 & M4).
      destruct (text_valid u) eqn:Vu; cbn [andb] in P; [|discriminate].
      destruct (starts_baseb u) eqn:Su; cbn [andb] in P; [|discriminate].
      destruct (Z.leb_spec (c + text_width u) (t_cols t)); [|discriminate].
      destruct (paint (t_lines t) (t_cols t) (Some (l, c + text_width u)) (t_cur t) ops) as [[[w2 e2] q2]|] eqn:P2; [|discriminate].
      inversion P; subst w cur' pen'. clear P.
      apply text_valid_valid in Vu. apply starts_baseb_iff in Su. rewrite text_width_tw in *.
      assert (Htw : 0 <= tw u) by (apply tw_nonneg; exact Vu).
      destruct (print_lay u t Vu Su T) as (t1 & E1 & T1 & (F1 & F2 & F3) & C1 & L1 & K1 & G1); try lia.
      cbn [t_run]. rewrite E1. cbn [bind].
      destruct (IH t1 (Some (l, c + tw u)) w2 e2 q2 T1) as (t' & E & T' & (F1' & F2' & F3') & C' & M' & G').
      { cbn [cur_match]. rewrite L1, K1, F1. repeat split; lia. }
      { rewrite F1, F2, C1. exact P2. }
      exists t'. split; [exact E|]. split; [exact T'|]. split; [repeat split; congruence|]. split; [exact C'|]. split; [exact M'|].
      intros y x Hy Hx. rewrite G' by (rewrite ?F1, ?F2; assumption). rewrite G1 by assumption.
      rewrite look_app. f_equal. rewrite look_rw. rewrite M1, M2.
      assert (Ll : zlen (map (fun txt => mkT txt (t_cur t)) (lay u)) = tw u).
      { unfold zlen. rewrite map_length. apply (lay_length u Vu Su). }
      rewrite Ll.
      destruct ((y =? l) && (c <=? x) && (x <? c + tw u)) eqn:Ein; [|reflexivity].
      apply andb_true_iff in Ein. destruct Ein as (Ein & E3). apply andb_true_iff in Ein. destruct Ein as (E1' & E2).
      apply Z.leb_le in E2. apply Z.ltb_lt in E3.
      rewrite (nth_indep _ _ (mkT [] (t_cur t))) by (unfold zlen in Ll; lia).
      rewrite (map_nth (fun txt => mkT txt (t_cur t)) (lay u) []). reflexivity.
    + (* erase *)
      destruct cur as [[l c]|]; [|discriminate]. destruct M as (M1 & M2 & M3 & M4).
      destruct (Z.leb_spec 0 n); cbn [andb] in P; [|discriminate].
      destruct (Z.leb_spec (c + n) (t_cols t)); [|discriminate].
      destruct (paint (t_lines t) (t_cols t) (if mv then Some (l, c + n) else None) (t_cur t) ops) as [[[w2 e2] q2]|] eqn:P2; [|discriminate].
      inversion P; subst w cur' pen'. clear P.
      destruct (erase_at t n mv T) as (t1 & E1 & T1 & (F1 & F2 & F3) & C1 & L1 & K1 & K0 & G1); try lia.
      cbn [t_run]. rewrite E1. cbn [bind].
      destruct (IH t1 (if mv then Some (l, c + n) else None) w2 e2 q2 T1) as (t' & E & T' & (F1' & F2' & F3') & C' & M' & G').
      { destruct mv; [|exact Logic.I]. cbn [cur_match]. rewrite L1, (K1 eq_refl), F1. repeat split; lia. }
      { rewrite F1, F2, C1. exact P2. }
      exists t'. split; [exact E|]. split; [exact T'|]. split; [repeat split; congruence|]. split; [exact C'|]. split; [exact M'|].
      intros y x Hy Hx. rewrite G' by (rewrite ?F1, ?F2; assumption). rewrite G1 by assumption.
      rewrite look_app. f_equal. rewrite look_rw. rewrite M1, M2.
      rewrite zlen_repeat. rewrite Z2Nat.id by lia.
      destruct ((y =? l) && (c <=? x) && (x <? c + n)) eqn:Ein; [|reflexivity].
      apply andb_true_iff in Ein. destruct Ein as (Ein & E3). apply andb_true_iff in Ein. destruct Ein as (E1' & E2).
      apply Z.leb_le in E2. apply Z.ltb_lt in E3.
      assert (Hin : In (nth (Z.to_nat (x - c)) (repeat (mkT [32] (t_cur t)) (Z.to_nat n)) (tcellat t y x))
                       (repeat (mkT [32] (t_cur t)) (Z.to_nat n))).
      { apply nth_In. rewrite repeat_length. lia. }
      apply repeat_spec in Hin. rewrite Hin. reflexivity.
Qed.
