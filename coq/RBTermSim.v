(* RBTermSim.v -- the terminal model (after src/mockterm.c) executed on a list of operations,
   described cell by cell: [paint] computes, without a grid, which cell receives what; [t_run]
   on a well-shaped terminal produces exactly that overlay.  Printing is treated for strings of
   width-one characters (each code point lands in its own cell). *)
From Coq Require Import ZArith List Bool Lia.
From Tickit Require Import RectDefs RBDefs RBSpec RBLemmas RBAbsLemmas Gen_Linechars RBFlushDefs RBFlushSpec RBWidth.
Import ListNotations.
Local Open Scope Z_scope.

Definition tcellat (t : term) (y x : Z) : tcell := zn (zn (tg t) y []) x dtc.

Definition term_ok (t : term) : Prop :=
  zlen (tg t) = t_lines t /\ 0 <= t_cols t /\ forall y, 0 <= y < t_lines t -> zlen (zn (tg t) y []) = t_cols t.

Definition narrow (u : list Z) : Prop := forall c, In c u -> cpw c = 1.

Lemma narrowb_narrow : forall u, narrowb u = true <-> narrow u.
Proof.
  intros u. unfold narrowb, narrow. rewrite forallb_forall. split; intros H c Hc; specialize (H c Hc); lia.
Qed.

(* same shape and same everything but the grid and the cursor *)
Definition same_frame (t t' : term) : Prop :=
  t_lines t' = t_lines t /\ t_cols t' = t_cols t /\ t_maybe t' = t_maybe t.

(* ---------------------------------------------------------------------------------- *)
(* t_set_cells, pointwise *)

Lemma set_cells_ok : forall t line f, term_ok t -> term_ok (t_set_cells t line f).
Proof.
  intros t line f (H1 & H2 & H3). unfold term_ok, t_set_cells. cbn [tg t_lines t_cols].
  rewrite zlen_mapi. split; [assumption|]. split; [assumption|]. intros y Hy.
  rewrite (zn_mapi _ (tg t) y [] []) by lia.
  destruct (y =? line); [rewrite zlen_mapi|]; apply H3; assumption.
Qed.

Lemma set_cells_at : forall t line f y x, term_ok t -> 0 <= y < t_lines t -> 0 <= x < t_cols t ->
  tcellat (t_set_cells t line f) y x = if y =? line then f x (tcellat t y x) else tcellat t y x.
Proof.
  intros t line f y x (H1 & H2 & H3) Hy Hx. unfold tcellat, t_set_cells. cbn [tg].
  rewrite (zn_mapi _ (tg t) y [] []) by lia.
  destruct (y =? line); [|reflexivity].
  rewrite (zn_mapi _ _ x dtc dtc) by (rewrite H3 by assumption; lia). reflexivity.
Qed.

(* ---------------------------------------------------------------------------------- *)
(* printing a string of width-one characters *)

Lemma countmore_fit : forall c rest pos here lc,
  cpw c = 1 -> sp_col here + 1 <= lc ->
  countmore (c :: rest) pos here (-1) lc =
  countmore rest here (mkPos (sp_cp here + 1) (sp_gr here + 1) (sp_col here + 1)) (-1) lc.
Proof.
  intros c rest pos here lc W H. cbn [countmore]. rewrite W.
  change (-1 =? -1) with true. change (0 <? 1) with true. cbn [negb andb].
  destruct (Z.gtb_spec (sp_col here + 1) lc); [lia|]. rewrite andb_false_r. reflexivity.
Qed.

Lemma countmore_nofit : forall c rest pos here lc,
  cpw c = 1 -> sp_col here + 1 > lc -> lc <> -1 ->
  countmore (c :: rest) pos here (-1) lc = here.
Proof.
  intros c rest pos here lc W H Hn. cbn [countmore]. rewrite W.
  change (-1 =? -1) with true. change (0 <? 1) with true. cbn [negb andb].
  destruct (Z.gtb_spec (sp_col here + 1) lc); [|lia].
  destruct (Z.eqb_spec lc (-1)); [lia|]. reflexivity.
Qed.

Lemma count_on_narrow_step : forall u k g c0 c,
  narrow u -> nth_error u k = Some c -> 0 <= c0 ->
  count_on u (mkPos (Z.of_nat k) g (c0 + Z.of_nat k)) (-1) (c0 + Z.of_nat k + 1) =
  mkPos (Z.of_nat k + 1) (g + 1) (c0 + Z.of_nat k + 1).
Proof.
  intros u k g c0 c N E H0. unfold count_on, skipz. cbn [sp_cp]. rewrite Nat2Z.id.
  assert (S : exists rest, skipn k u = c :: rest /\ narrow rest).
  { clear - N E. revert u N E. induction k as [|k IH]; intros u N E.
    - destruct u as [|x u]; cbn in E; [discriminate|]. inversion E; subst. exists u. split; [reflexivity|].
      intros y Hy. apply N. right. exact Hy.
    - destruct u as [|x u]; cbn in E; [discriminate|]. cbn [skipn]. apply IH; [|exact E].
      intros y Hy. apply N. right. exact Hy. }
  destruct S as (rest & -> & Nr).
  assert (Wc : cpw c = 1) by (apply N; eapply nth_error_In; exact E).
  rewrite countmore_fit by (cbn [sp_col]; assumption || lia). cbn [sp_cp sp_gr sp_col].
  destruct rest as [|c' rest]; [reflexivity|].
  assert (Wc' : cpw c' = 1) by (apply Nr; left; reflexivity).
  rewrite countmore_nofit by (cbn [sp_col]; assumption || lia). reflexivity.
Qed.

Lemma slice_one : forall u k g g' a b c, nth_error u k = Some c ->
  slice u (mkPos (Z.of_nat k) g a) (mkPos (Z.of_nat k + 1) g' b) = [c].
Proof.
  intros u k g g' a b c E. unfold slice, firstz, skipz. cbn [sp_cp].
  replace (Z.of_nat k + 1 - Z.of_nat k) with 1 by lia. rewrite Nat2Z.id. change (Z.to_nat 1) with 1%nat.
  revert u E. induction k as [|k IH]; intros u E; destruct u as [|x u]; cbn in E; try discriminate.
  - inversion E; subst. reflexivity.
  - cbn [skipn]. apply IH. exact E.
Qed.

Lemma print_loop_narrow : forall m fuel u t k g c0,
  narrow u -> term_ok t -> (length u - k = m)%nat -> (k <= length u)%nat -> (m < fuel)%nat ->
  0 <= t_line t < t_lines t -> 0 <= c0 -> c0 + zlen u <= t_cols t ->
  exists t', t_print_loop fuel t u (mkPos (Z.of_nat k) g (c0 + Z.of_nat k)) (c0 + Z.of_nat k) = Ok t' /\
    term_ok t' /\ same_frame t t' /\ t_cur t' = t_cur t /\ t_line t' = t_line t /\ t_col t' = c0 + zlen u /\
    forall y x, 0 <= y < t_lines t -> 0 <= x < t_cols t ->
      tcellat t' y x = if (y =? t_line t) && (c0 + Z.of_nat k <=? x) && (x <? c0 + zlen u)
                       then mkT [nth (Z.to_nat (x - c0)) u 0] (t_cur t) else tcellat t y x.
Proof.
  induction m as [|m IH]; intros fuel u t k g c0 N T Hm Hk Hf Hl Hc0 Hr.
  - (* at the end of the string *)
    assert (k = length u) by lia. subst k.
    destruct fuel as [|f]; [lia|]. cbn [t_print_loop sp_cp].
    destruct (Z.leb_spec (Z.of_nat (length u)) (Z.of_nat (length u))); [|lia].
    eexists. split; [reflexivity|]. unfold t_move. cbn [t_lines t_cols tg t_line t_col t_cur t_maybe sp_col].
    split; [exact T|]. split; [repeat split|]. split; [reflexivity|]. split; [reflexivity|]. split; [unfold zlen; lia|].
    intros y x Hy Hx. unfold tcellat. cbn [tg].
    destruct (Z.leb_spec (c0 + Z.of_nat (length u)) x); destruct (Z.ltb_spec x (c0 + zlen u)); unfold zlen in *;
      try lia; rewrite ?andb_false_r; reflexivity.
  - destruct fuel as [|f]; [lia|]. cbn [t_print_loop sp_cp].
    destruct (Z.leb_spec (Z.of_nat (length u)) (Z.of_nat k)); [lia|].
    assert (E : exists c, nth_error u k = Some c).
    { destruct (nth_error u k) eqn:E; [eauto|]. apply nth_error_None in E. lia. }
    destruct E as (c & E).
    replace (c0 + Z.of_nat k + 1) with (c0 + Z.of_nat k + 1) by lia.
    rewrite (count_on_narrow_step u k g c0 c N E Hc0). cbn [sp_col].
    destruct (Z.eqb_spec (c0 + Z.of_nat k + 1) (c0 + Z.of_nat k)); [lia|].
    unfold zlen in Hr.
    destruct (Z.geb_spec (c0 + Z.of_nat k) (t_cols t)); [lia|].
    destruct (Z.gtb_spec (c0 + Z.of_nat k + 1) (t_cols t)); [lia|]. cbn [orb].
    rewrite (slice_one u k g (g + 1) _ _ c E).
    set (t1 := t_set_cells t (t_line t) _).
    assert (T1 : term_ok t1) by (apply set_cells_ok; exact T).
    destruct (IH f u t1 (S k) (g + 1) c0 N T1) as (t' & Et & T' & F' & P' & L' & C' & G'); try lia.
    { unfold t1. cbn [t_set_cells t_line t_lines]. exact Hl. }
    { unfold t1. cbn [t_set_cells t_cols]. unfold zlen. lia. }
    replace (c0 + Z.of_nat (S k)) with (c0 + Z.of_nat k + 1) in Et, G' by lia.
    replace (Z.of_nat (S k)) with (Z.of_nat k + 1) in Et by lia.
    exists t'. split; [exact Et|]. split; [exact T'|].
    split; [destruct F' as (F1 & F2 & F3); unfold t1 in *; cbn [t_set_cells t_lines t_cols t_maybe] in *; repeat split; assumption|].
    split; [rewrite P'; reflexivity|]. split; [rewrite L'; reflexivity|]. split; [exact C'|].
    intros y x Hy Hx. rewrite (G' y x) by (unfold t1; cbn [t_set_cells t_lines t_cols]; assumption).
    unfold t1 at 1 2. cbn [t_set_cells t_line t_cur].
    unfold t1. rewrite set_cells_at by assumption.
    destruct (Z.eqb_spec y (t_line t)) as [->|Hy']; cbn [andb]; [|reflexivity].
    destruct (Z.eqb_spec x (c0 + Z.of_nat k)) as [->|Hx'].
    + destruct (Z.leb_spec (c0 + Z.of_nat k + 1) (c0 + Z.of_nat k)); [lia|]. cbn [andb].
      destruct (Z.leb_spec (c0 + Z.of_nat k) (c0 + Z.of_nat k)); [|lia].
      destruct (Z.ltb_spec (c0 + Z.of_nat k) (c0 + zlen u)); [|unfold zlen in *; lia]. cbn [andb].
      replace (c0 + Z.of_nat k - c0) with (Z.of_nat k) by lia. rewrite Nat2Z.id.
      rewrite (nth_error_nth u k 0 E). reflexivity.
    + destruct (Z.ltb_spec (c0 + Z.of_nat k) x); cbn [andb].
      * destruct (Z.ltb_spec x (c0 + Z.of_nat k + 1)); [lia|].
        destruct (Z.leb_spec (c0 + Z.of_nat k + 1) x); [|lia].
        destruct (Z.leb_spec (c0 + Z.of_nat k) x); [|lia]. reflexivity.
      * destruct (Z.leb_spec (c0 + Z.of_nat k + 1) x); [lia|].
        destruct (Z.leb_spec (c0 + Z.of_nat k) x); [lia|]. reflexivity.
Qed.

Lemma print_narrow : forall u t,
  narrow u -> term_ok t -> 0 <= t_line t < t_lines t -> 0 <= t_col t -> t_col t + zlen u <= t_cols t ->
  exists t', t_apply t (TPrint u) = Ok t' /\
    term_ok t' /\ same_frame t t' /\ t_cur t' = t_cur t /\ t_line t' = t_line t /\ t_col t' = t_col t + zlen u /\
    forall y x, 0 <= y < t_lines t -> 0 <= x < t_cols t ->
      tcellat t' y x = if (y =? t_line t) && (t_col t <=? x) && (x <? t_col t + zlen u)
                       then mkT [nth (Z.to_nat (x - t_col t)) u 0] (t_cur t) else tcellat t y x.
Proof.
  intros u t N T Hl Hc Hr. cbn [t_apply].
  destruct (Z.leb_spec 0 (t_line t)); [|lia]. destruct (Z.ltb_spec (t_line t) (t_lines t)); [|lia].
  destruct (Z.leb_spec 0 (t_col t)); [|lia]. cbn [andb].
  destruct (print_loop_narrow (length u) (2 * length u + 2) u t 0 0 (t_col t) N T) as (t' & E & R); try lia.
  cbn [Z.of_nat] in E, R. rewrite Z.add_0_r in E, R. exists t'. split; [exact E|exact R].
Qed.

(* ---------------------------------------------------------------------------------- *)
(* erasing *)

Lemma erase_at : forall t n mv,
  term_ok t -> 0 <= t_line t < t_lines t -> 0 <= t_col t -> 0 <= n -> t_col t + n <= t_cols t ->
  exists t', t_apply t (TErase n mv) = Ok t' /\
    term_ok t' /\ same_frame t t' /\ t_cur t' = t_cur t /\ t_line t' = t_line t /\
    (mv = true -> t_col t' = t_col t + n) /\ 0 <= t_col t' /\
    forall y x, 0 <= y < t_lines t -> 0 <= x < t_cols t ->
      tcellat t' y x = if (y =? t_line t) && (t_col t <=? x) && (x <? t_col t + n)
                       then mkT [32] (t_cur t) else tcellat t y x.
Proof.
  intros t n mv T Hl Hc Hn Hr. cbn [t_apply].
  destruct (Z.leb_spec 0 (t_line t)); [|lia]. destruct (Z.ltb_spec (t_line t) (t_lines t)); [|lia].
  destruct (Z.leb_spec 0 (t_col t)); [|lia]. cbn [andb].
  assert (B : bound (t_col t + n) 0 (t_cols t) = t_col t + n).
  { unfold bound. destruct (Z.ltb_spec (t_col t + n) 0); [lia|]. destruct (Z.gtb_spec (t_col t + n) (t_cols t)); lia. }
  rewrite B. eexists. split; [reflexivity|].
  unfold t_move. cbn [t_lines t_cols tg t_line t_col t_cur t_maybe].
  split; [apply (set_cells_ok t (t_line t) _ T)|]. split; [repeat split|]. split; [reflexivity|]. split; [reflexivity|].
  split; [intros ->; reflexivity|]. split; [destruct (mv || t_maybe t); lia|].
  intros y x Hy Hx. unfold tcellat at 1. cbn [tg].
  change (zn (zn (tg (t_set_cells t (t_line t) (fun x0 c => if (t_col t <=? x0) && (x0 <? t_col t + n) then mkT [32] (t_cur t) else c))) y []) x dtc)
    with (tcellat (t_set_cells t (t_line t) (fun x0 c => if (t_col t <=? x0) && (x0 <? t_col t + n) then mkT [32] (t_cur t) else c)) y x).
  rewrite set_cells_at by assumption.
  destruct (y =? t_line t); cbn [andb]; reflexivity.
Qed.

(* ---------------------------------------------------------------------------------- *)
(* which cell receives what: the operations executed without a grid *)

Definition writes := list (tpos * tcell).

(* last writer wins *)
Definition look (w : writes) (pos : tpos) (d : tcell) : tcell :=
  fold_left (fun acc pc => if tpos_eqb (fst pc) pos then snd pc else acc) w d.

Fixpoint rw (l c : Z) (cells : list tcell) : writes :=
  match cells with
  | [] => []
  | x :: r => ((l, c), x) :: rw l (c + 1) r
  end.

Fixpoint paint (L C : Z) (cur : option tpos) (pn : pen) (ops : list termop) : option (writes * option tpos * pen) :=
  match ops with
  | [] => Some ([], cur, pn)
  | TGoto l c :: r =>
      if (0 <=? l) && (l <? L) && (0 <=? c) && (c <? C) then paint L C (Some (l, c)) pn r else None
  | TSetPen p :: r => paint L C cur (canon_pen p) r
  | TPrint u :: r =>
      match cur with
      | None => None
      | Some (l, c) =>
          if narrowb u && (c + zlen u <=? C) then
            match paint L C (Some (l, c + zlen u)) pn r with
            | None => None
            | Some (w, e, q) => Some (rw l c (map (fun ch => mkT [ch] pn) u) ++ w, e, q)
            end
          else None
      end
  | TErase n mv :: r =>
      match cur with
      | None => None
      | Some (l, c) =>
          if (0 <=? n) && (c + n <=? C) then
            match paint L C (if mv then Some (l, c + n) else None) pn r with
            | None => None
            | Some (w, e, q) => Some (rw l c (repeat (mkT [32] pn) (Z.to_nat n)) ++ w, e, q)
            end
          else None
      end
  end.

Lemma look_app : forall a b pos d, look (a ++ b) pos d = look b pos (look a pos d).
Proof. intros. unfold look. apply fold_left_app. Qed.

Lemma look_rw : forall cells l c y x d,
  look (rw l c cells) (y, x) d =
  if (y =? l) && (c <=? x) && (x <? c + zlen cells) then nth (Z.to_nat (x - c)) cells d else d.
Proof.
  induction cells as [|x0 cells IH]; intros l c y x d; cbn [rw].
  - unfold look, zlen. cbn [fold_left length Z.of_nat].
    destruct (Z.leb_spec c x); destruct (Z.ltb_spec x (c + 0)); try lia; rewrite ?andb_false_r; reflexivity.
  - unfold look in *. cbn [fold_left fst snd]. rewrite IH. unfold tpos_eqb. cbn [fst snd].
    unfold zlen. cbn [length]. rewrite Nat2Z.inj_succ.
    destruct (Z.eqb_spec y l) as [->|Hy]; [|rewrite (proj2 (Z.eqb_neq l y)) by lia; reflexivity].
    rewrite Z.eqb_refl. cbn [andb].
    destruct (Z.eqb_spec c x) as [->|Hx].
    + destruct (Z.leb_spec (x + 1) x); [lia|]. cbn [andb].
      destruct (Z.leb_spec x x); [|lia]. destruct (Z.ltb_spec x (x + Z.succ (Z.of_nat (length cells)))); [|lia].
      cbn [andb]. rewrite Z.sub_diag. reflexivity.
    + destruct (Z.leb_spec (c + 1) x); destruct (Z.leb_spec c x); try lia; cbn [andb]; [|reflexivity].
      destruct (Z.ltb_spec x (c + 1 + Z.of_nat (length cells)));
        destruct (Z.ltb_spec x (c + Z.succ (Z.of_nat (length cells)))); try lia; [|reflexivity].
      replace (Z.to_nat (x - c)) with (S (Z.to_nat (x - (c + 1)))) by lia. reflexivity.
Qed.

Lemma paint_app : forall L C a b cur pn,
  paint L C cur pn (a ++ b) =
  match paint L C cur pn a with
  | None => None
  | Some (w1, c1, p1) =>
      match paint L C c1 p1 b with None => None | Some (w2, c2, p2) => Some (w1 ++ w2, c2, p2) end
  end.
Proof.
  induction a as [|o a IH]; intros b cur pn; cbn [app paint].
  - destruct (paint L C cur pn b) as [[[w2 c2] p2]|]; reflexivity.
  - destruct o.
    + destruct (_ && _); [apply IH|reflexivity].
    + apply IH.
    + destruct cur as [[l c]|]; [|reflexivity]. destruct (_ && _); [|reflexivity]. rewrite IH.
      destruct (paint L C (Some (l, c + zlen s)) pn a) as [[[w1 c1] p1]|]; [|reflexivity].
      destruct (paint L C c1 p1 b) as [[[w2 c2] p2]|]; [|reflexivity]. now rewrite app_assoc.
    + destruct cur as [[l c]|]; [|reflexivity]. destruct (_ && _); [|reflexivity]. rewrite IH.
      destruct (paint L C (if moveend then Some (l, c + n) else None) pn a) as [[[w1 c1] p1]|]; [|reflexivity].
      destruct (paint L C c1 p1 b) as [[[w2 c2] p2]|]; [|reflexivity]. now rewrite app_assoc.
Qed.

Definition cur_match (t : term) (cur : option tpos) : Prop :=
  match cur with
  | None => True
  | Some (l, c) => t_line t = l /\ t_col t = c /\ 0 <= l < t_lines t /\ 0 <= c
  end.

(* the terminal executes the operations as [paint] says *)
Theorem t_run_paint : forall ops t cur w cur' pen',
  term_ok t -> cur_match t cur ->
  paint (t_lines t) (t_cols t) cur (t_cur t) ops = Some (w, cur', pen') ->
  exists t', t_run t ops = Ok t' /\ term_ok t' /\ same_frame t t' /\ t_cur t' = pen' /\ cur_match t' cur' /\
    forall y x, 0 <= y < t_lines t -> 0 <= x < t_cols t -> tcellat t' y x = look w (y, x) (tcellat t y x).
Proof.
  induction ops as [|o ops IH]; intros t cur w cur' pen' T M P; cbn [paint] in P.
  - inversion P; subst. exists t. cbn [t_run]. repeat split; auto; try apply T.
  - destruct o as [l c|p|u|n mv].
    + (* goto *)
      destruct (Z.leb_spec 0 l); cbn [andb] in P; [|discriminate].
      destruct (Z.ltb_spec l (t_lines t)); cbn [andb] in P; [|discriminate].
      destruct (Z.leb_spec 0 c); cbn [andb] in P; [|discriminate].
      destruct (Z.ltb_spec c (t_cols t)); cbn [andb] in P; [|discriminate].
      cbn [t_run t_apply bind].
      assert (B1 : bound l 0 (t_lines t - 1) = l).
      { unfold bound. destruct (Z.ltb_spec l 0); [lia|]. destruct (Z.gtb_spec l (t_lines t - 1)); lia. }
      assert (B2 : bound c 0 (t_cols t - 1) = c).
      { unfold bound. destruct (Z.ltb_spec c 0); [lia|]. destruct (Z.gtb_spec c (t_cols t - 1)); lia. }
      rewrite B1, B2.
      destruct (IH (t_move t l c) (Some (l, c)) w cur' pen') as (t' & E & R); [exact T| |exact P|].
      { cbn [cur_match t_move t_line t_col t_lines]. repeat split; lia. }
      exists t'. split; [exact E|exact R].
    + (* setpen *)
      cbn [t_run t_apply bind].
      set (t1 := mkTerm (t_lines t) (t_cols t) (tg t) (t_line t) (t_col t) (canon_pen p) (t_maybe t)).
      destruct (IH t1 cur w cur' pen') as (t' & E & R); [exact T| |exact P|].
      { destruct cur as [[l c]|]; [|exact Logic.I]. exact M. }
      exists t'. split; [exact E|exact R].
    + (* print *)
      destruct cur as [[l c]|]; [|discriminate]. destruct M as (M1 & M2 & M3 & M4).
      destruct (narrowb u) eqn:Nu; cbn [andb] in P; [|discriminate].
      destruct (Z.leb_spec (c + zlen u) (t_cols t)); [|discriminate].
      destruct (paint (t_lines t) (t_cols t) (Some (l, c + zlen u)) (t_cur t) ops) as [[[w2 e2] q2]|] eqn:P2; [|discriminate].
      inversion P; subst w cur' pen'. clear P.
      apply narrowb_narrow in Nu.
      destruct (print_narrow u t Nu T) as (t1 & E1 & T1 & (F1 & F2 & F3) & C1 & L1 & K1 & G1); try lia.
      cbn [t_run]. rewrite E1. cbn [bind].
      destruct (IH t1 (Some (l, c + zlen u)) w2 e2 q2 T1) as (t' & E & T' & (F1' & F2' & F3') & C' & M' & G').
      { cbn [cur_match]. rewrite L1, K1, F1. pose proof (zlen_nonneg u). repeat split; lia. }
      { rewrite F1, F2, C1. exact P2. }
      exists t'. split; [exact E|]. split; [exact T'|]. split; [repeat split; congruence|]. split; [exact C'|]. split; [exact M'|].
      intros y x Hy Hx. rewrite G' by (rewrite ?F1, ?F2; assumption). rewrite G1 by assumption.
      rewrite look_app. f_equal. rewrite look_rw. rewrite M1, M2.
      unfold zlen. rewrite map_length.
      destruct ((y =? l) && (c <=? x) && (x <? c + Z.of_nat (length u))) eqn:Ein; [|reflexivity].
      apply andb_true_iff in Ein. destruct Ein as (Ein & E3). apply andb_true_iff in Ein. destruct Ein as (E1' & E2).
      apply Z.leb_le in E2. apply Z.ltb_lt in E3.
      rewrite (nth_indep _ _ (mkT [0] (t_cur t))) by (rewrite map_length; lia).
      rewrite (map_nth (fun ch => mkT [ch] (t_cur t)) u 0). reflexivity.
    + (* erase *)
      destruct cur as [[l c]|]; [|discriminate]. destruct M as (M1 & M2 & M3 & M4).
      destruct (Z.leb_spec 0 n); cbn [andb] in P; [|discriminate].
      destruct (Z.leb_spec (c + n) (t_cols t)); [|discriminate].
      destruct (paint (t_lines t) (t_cols t) (if mv then Some (l, c + n) else None) (t_cur t) ops) as [[[w2 e2] q2]|] eqn:P2; [|discriminate].
      inversion P; subst w cur' pen'. clear P.
      destruct (erase_at t n mv T) as (t1 & E1 & T1 & (F1 & F2 & F3) & C1 & L1 & K1 & K0 & G1); try lia.
      cbn [t_run]. rewrite E1. cbn [bind].
      destruct (IH t1 (if mv then Some (l, c + n) else None) w2 e2 q2 T1) as (t' & E & T' & (F1' & F2' & F3') & C' & M' & G').
      { destruct mv; [|exact Logic.I]. cbn [cur_match]. rewrite L1, (K1 eq_refl), F1. repeat split; lia. }
      { rewrite F1, F2, C1. exact P2. }
      exists t'. split; [exact E|]. split; [exact T'|]. split; [repeat split; congruence|]. split; [exact C'|]. split; [exact M'|].
      intros y x Hy Hx. rewrite G' by (rewrite ?F1, ?F2; assumption). rewrite G1 by assumption.
      rewrite look_app. f_equal. rewrite look_rw. rewrite M1, M2.
      rewrite zlen_repeat. rewrite Z2Nat.id by lia.
      destruct ((y =? l) && (c <=? x) && (x <? c + n)) eqn:Ein; [|reflexivity].
      apply andb_true_iff in Ein. destruct Ein as (Ein & E3). apply andb_true_iff in Ein. destruct Ein as (E1' & E2).
      apply Z.leb_le in E2. apply Z.ltb_lt in E3.
      assert (Hin : In (nth (Z.to_nat (x - c)) (repeat (mkT [32] (t_cur t)) (Z.to_nat n)) (tcellat t y x))
                       (repeat (mkT [32] (t_cur t)) (Z.to_nat n))).
      { apply nth_In. rewrite repeat_length. lia. }
      apply repeat_spec in Hin. rewrite Hin. reflexivity.
Qed.
