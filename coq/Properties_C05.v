(* Property C05: a rectangle set is exactly the union of what was added minus what was
   subtracted.  "After any sequence of add, subtract, translate and clear, the cells
   covered by the set's rectangles are exactly those of the reference region; the stored
   rectangles are non-empty, pairwise disjoint and reported sorted by top then left; and
   the containment and intersection queries answer exactly 'every cell of the query is
   covered' and 'some cell of the query is covered'."

   Model: RectSetDefs.v (src/rectset.c, repaired by fixes/C05-stale-rect.patch: stale =
   false; stale = true is the pinned code).  [Inv] = members non-empty, pairwise [sepx]
   (row ranges do not overlap or a free column lies between; never stacked with the same
   column range), sorted by (top, left).  [region_spec ops] folds union / difference /
   shift / empty over the history.  Every theorem is for ANY fuel for which the model
   returns [Some]; [None] (fuel exhausted) is never a normal result.

   This file contains nothing but the property theorems, each closed by [exact <lemma>]
   and followed by Print Assumptions.

   Termination (DESIGN.md's stretch goal) is proved as existence of sufficient fuel:
   C05_add_terminates, C05_subtract_terminates, C05_run_terminates, and C05_total combines
   it with C05_history into a total-correctness statement. *)
From Coq Require Import ZArith List.
From Tickit Require Import RectDefs RectSetDefs RectSetSpec RectSetProofs RectSetQueries
  RectSetSubtract RectSetHistory RectSetTerm RectSetTermSub RectSetOracle.
Import ListNotations.
Local Open Scope Z_scope.

(* the invariant gives what the property text demands of the stored rectangles *)
Theorem C05_invariant : forall s, Inv s ->
  Forall nonempty s /\ pairwise_disjoint s /\ sorted s.
Proof. exact inv_demands. Qed.
Print Assumptions C05_invariant.

Theorem C05_add : forall fuel s r s', Inv s -> nonempty r ->
  rs_add fuel false s r = Some s' ->
  Inv s' /\ forall p, covered s' p <-> covered s p \/ cell_in r p.
Proof. exact rs_add_ok. Qed.
Print Assumptions C05_add.

Theorem C05_subtract : forall fuel s r s', Inv s -> nonempty r ->
  rs_subtract fuel false s r = Some s' ->
  Inv s' /\ forall p, covered s' p <-> covered s p /\ ~ cell_in r p.
Proof. exact rs_subtract_ok. Qed.
Print Assumptions C05_subtract.

Theorem C05_translate : forall s d rw, Inv s ->
  Inv (rs_translate s d rw) /\
  forall p, covered (rs_translate s d rw) p <-> covered s (fst p - d, snd p - rw).
Proof. exact rs_translate_ok. Qed.
Print Assumptions C05_translate.

Theorem C05_clear : forall s, Inv (rs_clear s) /\ forall p, ~ covered (rs_clear s) p.
Proof. exact rs_clear_ok. Qed.
Print Assumptions C05_clear.

Theorem C05_intersects : forall s q, Forall nonempty s -> nonempty q ->
  (rs_intersects s q = true <-> exists p, cell_in q p /\ covered s p).
Proof. exact rs_intersects_ok. Qed.
Print Assumptions C05_intersects.

Theorem C05_contains : forall s, Inv s -> forall fuel q ans, nonempty q ->
  rs_contains fuel s q = Some ans ->
  (ans = true <-> forall p, cell_in q p -> covered s p).
Proof. exact rs_contains_ok. Qed.
Print Assumptions C05_contains.

Theorem C05_contains_terminates : forall s fuel q, nonempty q ->
  (Z.to_nat (lines q) < fuel)%nat -> rs_contains fuel s q <> None.
Proof. exact rs_contains_terminates. Qed.
Print Assumptions C05_contains_terminates.

(* any history from any state that satisfies the invariant *)
Theorem C05_run : forall fuel ops s s' (R : region),
  Inv s -> (forall p, covered s p <-> R p) -> Forall op_ok ops ->
  rs_run fuel false s ops = Some s' ->
  Inv s' /\ forall p, covered s' p <-> region_from R ops p.
Proof. exact rs_run_ok. Qed.
Print Assumptions C05_run.

(* the property: every history from the empty set, every query *)
Theorem C05_history : forall fuel ops s,
  Forall op_ok ops -> rs_run fuel false [] ops = Some s ->
  Forall nonempty s /\ pairwise_disjoint s /\ sorted s /\
  (forall p, covered s p <-> region_spec ops p) /\
  (forall q, nonempty q ->
     (rs_intersects s q = true <-> exists p, cell_in q p /\ region_spec ops p) /\
     (forall qfuel ans, rs_contains qfuel s q = Some ans ->
        (ans = true <-> forall p, cell_in q p -> region_spec ops p)) /\
     (forall qfuel, (Z.to_nat (lines q) < qfuel)%nat -> rs_contains qfuel s q <> None)).
Proof. exact history_ok. Qed.
Print Assumptions C05_history.

(* termination: on every array satisfying the invariant some amount of fuel suffices
   (measure for add: rows of the current rectangle x members touching it in that row,
   then the length of the array; for the subtract loop: members meeting the hole, then
   length - index) *)
Theorem C05_add_terminates : forall s r, Inv s -> nonempty r ->
  exists fuel s', rs_add fuel false s r = Some s'.
Proof. exact rs_add_terminates. Qed.
Print Assumptions C05_add_terminates.

Theorem C05_subtract_terminates : forall s r, Inv s -> nonempty r ->
  exists fuel s', rs_subtract fuel false s r = Some s'.
Proof. exact rs_subtract_terminates. Qed.
Print Assumptions C05_subtract_terminates.

Theorem C05_run_terminates : forall ops s, Inv s -> Forall op_ok ops ->
  exists fuel s', rs_run fuel false s ops = Some s'.
Proof. exact rs_run_terminates. Qed.
Print Assumptions C05_run_terminates.

(* total correctness of every history from the empty set *)
Theorem C05_total : forall ops, Forall op_ok ops ->
  exists fuel s, rs_run fuel false [] ops = Some s /\
    Forall nonempty s /\ pairwise_disjoint s /\ sorted s /\
    (forall p, covered s p <-> region_spec ops p).
Proof. exact history_total. Qed.
Print Assumptions C05_total.

(* the oracle's executable region is the reference region; its order test is [sorted] *)
Theorem C05_oracle_region : forall ops p, regionb ops p = true <-> region_spec ops p.
Proof. exact regionb_iff. Qed.
Print Assumptions C05_oracle_region.

Theorem C05_oracle_sorted : forall s, sortedb s = true <-> sorted s.
Proof. exact sortedb_iff. Qed.
Print Assumptions C05_oracle_sorted.

(* the oracle is sound: if the extracted checker accepts the observations of a case, then
   every reported array is non-empty / pairwise disjoint / sorted and covers exactly the
   region of the history so far -- for all cells of the plane -- and every query answer is
   exact ([history_okP] threads [regionb_step] through the commands; [state_ok], [query_ok]
   are the Prop statements) *)
Theorem C05_oracle_sound : forall cs os,
  case_checkb cs os = true -> history_okP (fun _ => false) cs os.
Proof. exact case_checkb_sound. Qed.
Print Assumptions C05_oracle_sound.

(* the pinned code (before fixes/C05-stale-rect.patch) violates the property: three adds
   after which cell (0,0) of the reference region is not covered *)
Theorem C05_refuted_stale_rect :
  Forall op_ok stale_witness /\
  exists s, rs_run 10 true [] stale_witness = Some s /\
            region_spec stale_witness (0, 0) /\ ~ covered s (0, 0).
Proof. exact stale_refuted. Qed.
Print Assumptions C05_refuted_stale_rect.

(* non-vacuity: a five-operation history (merge, split, four-piece subtraction, translation)
   satisfies the hypotheses of C05_history, runs, and leaves several members *)
Example C05_nonvacuous :
  Forall op_ok demo_history /\
  exists s, rs_run 20 false [] demo_history = Some s /\ (length s >= 4)%nat /\
            rs_contains 10 s (mkRect (-1) 7 2 2) = Some true /\
            rs_contains 10 s (mkRect (-2) 5 2 2) = Some false /\
            rs_intersects s (mkRect (-2) 5 2 2) = true.
Proof. exact RectSetHistory.nonvacuous. Qed.
