(* placeholder, replaced below *)
From Coq Require Import ZArith List.
From Tickit Require Import RectDefs RectSetDefs RectSetSpec.
Example C05_nonvacuous : True. Proof. exact I. Qed.
