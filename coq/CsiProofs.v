(* CsiProofs.v -- the ECMA-48 lexer of Csi.v reads back exactly the tokens that were rendered:
     lex (render ts) = ts   for well-formed ts. *)
From Coq Require Import ZArith List Bool Lia.
From Tickit Require Import Csi.
Import ListNotations.
Local Open Scope Z_scope.

(* ---- small tactics *)

(* decide every Z comparison in the goal whose outcome follows from the context *)
Ltac zb :=
  repeat (match goal with
          | |- context [Z.leb ?a ?b] =>
              let H := fresh "Hzb" in
              destruct (Z.leb_spec a b) as [H|H]; try (exfalso; lia)
          | |- context [Z.eqb ?a ?b] =>
              let H := fresh "Hzb" in
              destruct (Z.eqb_spec a b) as [H|H]; try (exfalso; lia)
          end; cbn [andb orb]).

Lemma lex_go_step : forall st b r st' out,
  lex_step st b = (st', out) -> lex_go st (b :: r) = out ++ lex_go st' r.
Proof.
  intros st b r st' out Hstep. cbn [lex_go]. rewrite Hstep. reflexivity.
Qed.

(* consume one byte, the step being justified by [tac] *)
Ltac step tac := erewrite lex_go_step; [| solve [tac]]; cbn [app].

Lemma rev_cons' : forall (A : Type) (x : A) (l : list A), rev (x :: l) = rev l ++ [x].
Proof. reflexivity. Qed.

(* ---- 1. decimal numerals *)

Definition is_digit (b : Z) : Prop := 48 <= b <= 57.

(* what the CSI state does to its accumulator on a digit *)
Definition dstep (cur : option Z) (b : Z) : option Z :=
  Some (10 * (match cur with Some c => c | None => 0 end) + (b - 48)).

Lemma dec_go_spec : forall fuel n acc,
  0 <= n < 2 ^ Z.of_nat fuel -> fuel <> O ->
  exists ds, dec_go fuel n acc = ds ++ acc /\ ds <> [] /\ Forall is_digit ds /\
             fold_left dstep ds None = Some n.
Proof.
  induction fuel as [|f IH]; intros n acc Hn Hf; [congruence|].
  cbn [dec_go]. destruct (n <? 10) eqn:E.
  - apply Z.ltb_lt in E. exists [48 + n mod 10].
    split; [reflexivity|]. split; [discriminate|]. split.
    + constructor; [|constructor]. unfold is_digit.
      pose proof (Z.mod_pos_bound n 10 ltac:(lia)) as Hm. lia.
    + cbn [fold_left]. unfold dstep. f_equal.
      rewrite (Z.mod_small n 10) by lia. lia.
  - apply Z.ltb_ge in E.
    assert (Hq : 0 <= n / 10 < 2 ^ Z.of_nat f).
    { rewrite Nat2Z.inj_succ, Z.pow_succ_r in Hn by lia.
      set (p := 2 ^ Z.of_nat f) in *. clearbody p.
      split.
      - apply Z.div_pos; lia.
      - apply Z.div_lt_upper_bound; lia. }
    assert (Hf0 : f <> O).
    { intros Hf0. subst f. change (2 ^ Z.of_nat 0) with 1 in Hq.
      assert (Hge : 1 <= n / 10) by (apply Z.div_le_lower_bound; lia). lia. }
    destruct (IH (n / 10) ((48 + n mod 10) :: acc) Hq Hf0) as (ds & Hds & Hne & Hdig & Hval).
    exists (ds ++ [48 + n mod 10]).
    split; [rewrite Hds, <- app_assoc; reflexivity|].
    split; [intros Hnil; apply app_eq_nil in Hnil; destruct Hnil as [_ Hnil]; discriminate|].
    split.
    + apply Forall_app; split; [assumption|]. constructor; [|constructor].
      unfold is_digit. pose proof (Z.mod_pos_bound n 10 ltac:(lia)) as Hm. lia.
    + rewrite fold_left_app, Hval. cbn [fold_left]. unfold dstep. f_equal.
      pose proof (Z.div_mod n 10 ltac:(lia)) as Hdm. lia.
Qed.

Lemma dec_spec : forall n, 0 <= n ->
  dec n <> [] /\ Forall is_digit (dec n) /\ fold_left dstep (dec n) None = Some n.
Proof.
  intros n Hn. unfold dec.
  destruct (n <? 0) eqn:E; [apply Z.ltb_lt in E; lia|].
  assert (Hb : 0 <= n < 2 ^ Z.of_nat (S (Z.to_nat (Z.log2 n)))).
  { rewrite Nat2Z.inj_succ, Z2Nat.id by apply Z.log2_nonneg.
    destruct (Z.eq_dec n 0) as [Hz|Hnz].
    - subst n. change (Z.log2 0) with 0. change (2 ^ Z.succ 0) with 2. lia.
    - pose proof (Z.log2_spec n ltac:(lia)) as Hl. lia. }
  destruct (dec_go_spec _ n [] Hb ltac:(discriminate)) as (ds & Hds & Hne & Hdig & Hval).
  rewrite Hds, app_nil_r. auto.
Qed.

(* ---- 2. single steps of the lexer *)

Lemma ground_esc : lex_step SGround 27 = (SEsc [], []).
Proof. reflexivity. Qed.

Lemma ground_char : forall b, 32 <= b -> lex_step SGround b = (SGround, [TChar b]).
Proof. intros b Hb. unfold lex_step. zb. reflexivity. Qed.

Lemma ground_ctl : forall b, b < 32 -> b <> 27 -> lex_step SGround b = (SGround, [TCtl b]).
Proof. intros b Hb Hne. unfold lex_step. zb. reflexivity. Qed.

Lemma esc_csi : lex_step (SEsc []) 91 = (SCsi None [] [] None true, []).
Proof. reflexivity. Qed.

Lemma esc_strkind : forall k, is_strkind k = true -> lex_step (SEsc []) k = (SStr k [], []).
Proof.
  intros k Hk. unfold lex_step.
  destruct (Z.eqb_spec k 91) as [He|Hne].
  - subst k. cbv in Hk. discriminate Hk.
  - rewrite Hk. reflexivity.
Qed.

Lemma esc_final0 : forall b, 48 <= b <= 126 -> b <> 91 -> is_strkind b = false ->
  lex_step (SEsc []) b = (SGround, [TEsc [] b]).
Proof. intros b Hb Hne Hk. unfold lex_step. rewrite Hk. zb. reflexivity. Qed.

Lemma esc_inter0 : forall b, 32 <= b <= 47 -> lex_step (SEsc []) b = (SEsc [b], []).
Proof. intros b Hb. unfold lex_step, is_strkind. zb. reflexivity. Qed.

Lemma esc_inter : forall i acc b, 32 <= b <= 47 ->
  lex_step (SEsc (i :: acc)) b = (SEsc (b :: i :: acc), []).
Proof. intros i acc b Hb. unfold lex_step. zb. reflexivity. Qed.

Lemma esc_final : forall i acc b, 48 <= b <= 126 ->
  lex_step (SEsc (i :: acc)) b = (SGround, [TEsc (rev (i :: acc)) b]).
Proof. intros i acc b Hb. unfold lex_step. zb. reflexivity. Qed.

Lemma csi_digit : forall p G g c e b, is_digit b ->
  lex_step (SCsi p G g c e) b = (SCsi p G g (dstep c b) false, []).
Proof. unfold is_digit. intros p G g c e b Hb. unfold lex_step. zb. reflexivity. Qed.

Lemma csi_colon : forall p G g c e,
  lex_step (SCsi p G g c e) 58 = (SCsi p G (c :: g) None false, []).
Proof. reflexivity. Qed.

Lemma csi_semi : forall p G g c e,
  lex_step (SCsi p G g c e) 59 = (SCsi p (rev (c :: g) :: G) [] None false, []).
Proof. reflexivity. Qed.

Lemma csi_priv : forall G g c b, 60 <= b <= 63 ->
  lex_step (SCsi None G g c true) b = (SCsi (Some b) G g c true, []).
Proof. intros G g c b Hb. unfold lex_step. zb. reflexivity. Qed.

Lemma csi_inter : forall p G g c e b, 32 <= b <= 47 ->
  lex_step (SCsi p G g c e) b = (SCsiInter p (finish_params G g c e) [b], []).
Proof. intros p G g c e b Hb. unfold lex_step. zb. reflexivity. Qed.

Lemma csi_final : forall p G g c e b, 64 <= b <= 126 ->
  lex_step (SCsi p G g c e) b = (SGround, [TCsi p (finish_params G g c e) [] b]).
Proof. intros p G g c e b Hb. unfold lex_step. zb. reflexivity. Qed.

Lemma csiinter_inter : forall p ps acc b, 32 <= b <= 47 ->
  lex_step (SCsiInter p ps acc) b = (SCsiInter p ps (b :: acc), []).
Proof. intros p ps acc b Hb. unfold lex_step. zb. reflexivity. Qed.

Lemma csiinter_final : forall p ps acc b, 64 <= b <= 126 ->
  lex_step (SCsiInter p ps acc) b = (SGround, [TCsi p ps (rev acc) b]).
Proof. intros p ps acc b Hb. unfold lex_step. zb. reflexivity. Qed.

Lemma str_byte : forall k acc b, b <> 27 -> lex_step (SStr k acc) b = (SStr k (b :: acc), []).
Proof. intros k acc b Hb. unfold lex_step. zb. reflexivity. Qed.

Lemma str_esc : forall k acc, lex_step (SStr k acc) 27 = (SStrEsc k acc, []).
Proof. reflexivity. Qed.

Lemma stresc_st : forall k acc, lex_step (SStrEsc k acc) 92 = (SGround, [TStr k (rev acc)]).
Proof. reflexivity. Qed.

(* ---- 3. CSI parameters *)

Lemma lex_digits : forall ds, Forall is_digit ds -> forall p G g c rest,
  lex_go (SCsi p G g c false) (ds ++ rest) =
  lex_go (SCsi p G g (fold_left dstep ds c) false) rest.
Proof.
  intros ds Hds. induction Hds as [|d ds Hd Hds IH]; intros p G g c rest.
  - reflexivity.
  - cbn [app fold_left]. step ltac:(apply csi_digit; exact Hd). apply IH.
Qed.

Lemma lex_digits1 : forall ds, ds <> [] -> Forall is_digit ds -> forall p G g c e rest,
  lex_go (SCsi p G g c e) (ds ++ rest) =
  lex_go (SCsi p G g (fold_left dstep ds c) false) rest.
Proof.
  intros ds Hne Hds p G g c e rest. destruct ds as [|d ds]; [congruence|].
  inversion Hds as [|d' ds' Hd Hds']; subst d' ds'.
  cbn [app fold_left]. step ltac:(apply csi_digit; exact Hd). apply lex_digits. exact Hds'.
Qed.

Lemma lex_opt : forall o, wf_param o -> forall p G g e rest,
  lex_go (SCsi p G g None e) (render_opt o ++ rest) =
  lex_go (SCsi p G g o (match o with None => e | Some _ => false end)) rest.
Proof.
  intros o Hwf p G g e rest. destruct o as [n|]; cbn [render_opt wf_param] in *.
  - destruct (dec_spec n Hwf) as (Hne & Hdig & Hval).
    rewrite (lex_digits1 _ Hne Hdig), Hval. reflexivity.
  - reflexivity.
Qed.

Lemma render_group_1 : forall o, render_group [o] = render_opt o.
Proof. reflexivity. Qed.
Lemma render_group_cons2 : forall o o2 r,
  render_group (o :: o2 :: r) = render_opt o ++ 58 :: render_group (o2 :: r).
Proof. reflexivity. Qed.
Lemma render_params_1 : forall g, render_params [g] = render_group g.
Proof. reflexivity. Qed.
Lemma render_params_cons2 : forall g g2 r,
  render_params (g :: g2 :: r) = render_group g ++ 59 :: render_params (g2 :: r).
Proof. reflexivity. Qed.

(* one group: from (G, g, None, e) we reach (G, g', c', e') where c' :: g' is the reversal
   of what was accumulated before followed by the group just read *)
Lemma lex_group : forall gr, gr <> [] -> Forall wf_param gr -> forall p G g e rest,
  exists g' c' e',
    lex_go (SCsi p G g None e) (render_group gr ++ rest) = lex_go (SCsi p G g' c' e') rest /\
    rev (c' :: g') = rev g ++ gr /\
    (e = false \/ gr <> [None] -> e' = false).
Proof.
  induction gr as [|o r IH]; intros Hne Hwf p G g e rest; [congruence|].
  inversion Hwf as [|o' r' Ho Hr]; subst o' r'.
  destruct r as [|o2 r2].
  - rewrite render_group_1, (lex_opt o Ho).
    exists g, o, (match o with None => e | Some _ => false end).
    split; [reflexivity|]. split; [reflexivity|].
    intros [He|Hg].
    + subst e. destruct o; reflexivity.
    + destruct o as [n|]; [reflexivity|congruence].
  - rewrite render_group_cons2, <- app_assoc, (lex_opt o Ho). cbn [app].
    step ltac:(apply csi_colon).
    destruct (IH ltac:(discriminate) Hr p G (o :: g) false rest)
      as (g' & c' & e' & Hlex & Hrev & He').
    exists g', c', e'. split; [exact Hlex|]. split.
    + rewrite Hrev, (rev_cons' _ o g), <- app_assoc. reflexivity.
    + intros _. apply He'. left. reflexivity.
Qed.

Lemma lex_params : forall ps, ps <> [] ->
  Forall (fun g => g <> [] /\ Forall wf_param g) ps -> forall p G e rest,
  exists G' g' c' e',
    lex_go (SCsi p G [] None e) (render_params ps ++ rest) = lex_go (SCsi p G' g' c' e') rest /\
    rev (rev (c' :: g') :: G') = rev G ++ ps /\
    (e = false \/ ps <> [[None]] -> e' = false).
Proof.
  induction ps as [|gr r IH]; intros Hne Hwf p G e rest; [congruence|].
  inversion Hwf as [|gr' r' [Hgne Hgwf] Hr]; subst gr' r'.
  destruct r as [|gr2 r2].
  - rewrite render_params_1.
    destruct (lex_group gr Hgne Hgwf p G [] e rest) as (g' & c' & e' & Hlex & Hrev & He').
    exists G, g', c', e'. split; [exact Hlex|]. split.
    + rewrite Hrev. reflexivity.
    + intros [He|Hp]; apply He'; [left; exact He|right; congruence].
  - rewrite render_params_cons2, <- app_assoc.
    destruct (lex_group gr Hgne Hgwf p G [] e ((59 :: render_params (gr2 :: r2)) ++ rest))
      as (g' & c' & e' & Hlex & Hrev & He').
    rewrite Hlex. cbn [app]. step ltac:(apply csi_semi). rewrite Hrev. change (rev [] ++ gr) with gr.
    destruct (IH ltac:(discriminate) Hr p (gr :: G) false rest)
      as (G'' & g'' & c'' & e'' & Hlex2 & Hrev2 & He'').
    exists G'', g'', c'', e''. split; [exact Hlex2|]. split.
    + rewrite Hrev2, (rev_cons' _ gr G), <- app_assoc. reflexivity.
    + intros _. apply He''. left. reflexivity.
Qed.

(* ---- 4. intermediates and final byte of a CSI *)

Lemma lex_csiinter : forall r, wf_byte_range 32 47 r -> forall p ps acc fin rest,
  64 <= fin <= 126 ->
  lex_go (SCsiInter p ps acc) (r ++ fin :: rest) =
  TCsi p ps (rev acc ++ r) fin :: lex_go SGround rest.
Proof.
  intros r Hr. induction Hr as [|i r Hi Hr IH]; intros p ps acc fin rest Hfin.
  - cbn [app]. step ltac:(apply csiinter_final; exact Hfin). rewrite app_nil_r. reflexivity.
  - cbn [app]. step ltac:(apply csiinter_inter; exact Hi).
    rewrite (IH p ps (i :: acc) fin rest Hfin), (rev_cons' _ i acc), <- app_assoc. reflexivity.
Qed.

Lemma lex_csi_tail : forall inter, wf_byte_range 32 47 inter -> forall p G g c e fin rest,
  64 <= fin <= 126 ->
  lex_go (SCsi p G g c e) (inter ++ fin :: rest) =
  TCsi p (finish_params G g c e) inter fin :: lex_go SGround rest.
Proof.
  intros inter Hin p G g c e fin rest Hfin.
  destruct Hin as [|i r Hi Hr].
  - cbn [app]. step ltac:(apply csi_final; exact Hfin). reflexivity.
  - cbn [app]. step ltac:(apply csi_inter; exact Hi).
    rewrite (lex_csiinter r Hr _ _ [i] fin rest Hfin). reflexivity.
Qed.

Lemma lex_csi_body : forall p ps inter fin rest,
  wf_params ps -> wf_byte_range 32 47 inter -> 64 <= fin <= 126 ->
  lex_go (SCsi p [] [] None true) ((render_params ps ++ inter ++ [fin]) ++ rest) =
  TCsi p ps inter fin :: lex_go SGround rest.
Proof.
  intros p ps inter fin rest [Hps Hne1] Hin Hfin.
  rewrite <- !app_assoc. cbn [app].
  destruct ps as [|g0 r0].
  - change (render_params []) with (@nil Z). cbn [app].
    rewrite (lex_csi_tail inter Hin _ _ _ _ _ fin rest Hfin). reflexivity.
  - destruct (lex_params (g0 :: r0) ltac:(discriminate) Hps p [] true (inter ++ fin :: rest))
      as (G' & g' & c' & e' & Hlex & Hrev & He').
    rewrite Hlex, (lex_csi_tail inter Hin _ _ _ _ _ fin rest Hfin).
    rewrite (He' (or_intror Hne1)). unfold finish_params. rewrite Hrev. reflexivity.
Qed.

(* ---- 5. escape sequences and control strings *)

Lemma lex_esc_inter : forall r, wf_byte_range 32 47 r -> forall i acc fin rest,
  48 <= fin <= 126 ->
  lex_go (SEsc (i :: acc)) (r ++ fin :: rest) =
  TEsc (rev (i :: acc) ++ r) fin :: lex_go SGround rest.
Proof.
  intros r Hr. induction Hr as [|j r Hj Hr IH]; intros i acc fin rest Hfin.
  - cbn [app]. step ltac:(apply esc_final; exact Hfin). rewrite app_nil_r. reflexivity.
  - cbn [app]. step ltac:(apply esc_inter; exact Hj).
    rewrite (IH j (i :: acc) fin rest Hfin), (rev_cons' _ j (i :: acc)), <- app_assoc.
    reflexivity.
Qed.

Lemma lex_str_body : forall body, Forall (fun b => b <> 27) body -> forall k acc rest,
  lex_go (SStr k acc) (body ++ 27 :: 92 :: rest) =
  TStr k (rev acc ++ body) :: lex_go SGround rest.
Proof.
  intros body Hb. induction Hb as [|b body Hb Hbody IH]; intros k acc rest.
  - cbn [app]. step ltac:(apply str_esc). step ltac:(apply stresc_st).
    rewrite app_nil_r. reflexivity.
  - cbn [app]. step ltac:(apply str_byte; exact Hb).
    rewrite (IH k (b :: acc) rest), (rev_cons' _ b acc), <- app_assoc. reflexivity.
Qed.

(* ---- 6. one token, then all of them *)

Lemma lex_tok : forall t rest, wf_token t ->
  lex_go SGround (render_tok t ++ rest) = t :: lex_go SGround rest.
Proof.
  intros t rest Hwf. destruct t as [b|b|priv ps inter fin|inter fin|k body|w];
    cbn [render_tok wf_token] in *.
  - (* TChar *)
    cbn [app]. step ltac:(apply ground_char; exact Hwf). reflexivity.
  - (* TCtl *)
    destruct Hwf as [Hlt Hne].
    cbn [app]. step ltac:(apply ground_ctl; assumption). reflexivity.
  - (* TCsi *)
    destruct Hwf as (Hpriv & Hps & Hin & Hfin).
    cbn [app]. step ltac:(apply ground_esc). step ltac:(apply esc_csi).
    destruct priv as [pb|].
    + cbn [app]. step ltac:(apply csi_priv; exact Hpriv).
      apply lex_csi_body; assumption.
    + cbn [app]. apply lex_csi_body; assumption.
  - (* TEsc *)
    destruct Hwf as (Hin & Hfin & Hspecial).
    cbn [app]. step ltac:(apply ground_esc).
    destruct Hin as [|i r Hi Hr].
    + destruct (Hspecial eq_refl) as [Hne Hk].
      cbn [app]. step ltac:(apply esc_final0; assumption). reflexivity.
    + rewrite <- app_assoc. cbn [app]. step ltac:(apply esc_inter0; exact Hi).
      rewrite (lex_esc_inter r Hr i [] fin rest Hfin). reflexivity.
  - (* TStr *)
    destruct Hwf as [Hk Hbody].
    cbn [app]. step ltac:(apply ground_esc). step ltac:(apply esc_strkind; exact Hk).
    rewrite <- app_assoc. cbn [app].
    rewrite (lex_str_body body Hbody k [] rest). reflexivity.
  - (* TBad *)
    contradiction.
Qed.

Lemma lex_go_render : forall ts, Forall wf_token ts -> lex_go SGround (render ts) = ts.
Proof.
  intros ts Hts. unfold render. induction Hts as [|t ts Ht Hts IH].
  - reflexivity.
  - cbn [flat_map]. rewrite (lex_tok t _ Ht), IH. reflexivity.
Qed.

Theorem lex_render : forall ts, Forall wf_token ts -> lex (render ts) = ts.
Proof. intros ts Hts. unfold lex. apply lex_go_render. exact Hts. Qed.

Corollary lex_render_app : forall ts1 ts2,
  Forall wf_token ts1 -> Forall wf_token ts2 ->
  lex (render ts1 ++ render ts2) = ts1 ++ ts2.
Proof.
  intros ts1 ts2 H1 H2. unfold render. rewrite <- flat_map_app.
  apply lex_render. apply Forall_app. split; assumption.
Qed.
