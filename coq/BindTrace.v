(* BindTrace.v -- consequences of acceptance by the monitor, in plain terms of traces.
   Pure specification-level reasoning: nothing here mentions the model of the C. *)
From Coq Require Import ZArith List Bool Lia.
From Tickit Require Import BindDefs BindSpec.
Import ListNotations.
Local Open Scope Z_scope.

Definition pend_of (f : frame) : list Z := match f with FUnbind (Some k) => [k] | _ => [] end.
Definition pend_names (st : list frame) : list Z := flat_map pend_of st.

(* well-formedness of monitor states: names known to the monitor are below m_n in absolute
   value; a binding whose UNBIND notification is outstanding is no longer live, and there
   is at most one outstanding notification per binding *)
Record G (m : mstate) : Prop := mkG {
  g_range : forall a, In a (m_live m) -> - m_n m < a_name a < m_n m;
  g_pend : forall k, In k (pend_names (m_stack m)) -> - m_n m < k < m_n m /\ forall a, In a (m_live m) -> a_name a <> k;
  g_nodup : NoDup (pend_names (m_stack m));
  g_pos : 0 < m_n m }.

(* the binding [n] has been unbound / consumed / destroyed and nobody owes it a notification *)
Record Dead (n : Z) (m : mstate) : Prop := mkDead {
  d_live : forall a, In a (m_live m) -> a_name a <> n;
  d_range : - m_n m < n < m_n m;
  d_pend : ~ In n (pend_names (m_stack m)) }.

(* ------------------------------------------------------------ the shape of an accepted step *)
Definition call_facts (m m' : mstate) (e : tev) : Prop :=
  forall nm fl, e = TCallB nm fl ->
    (In nm (map a_name (m_live m)) /\ (has fl EV_UNBIND = true -> forall a, In a (m_live m') -> a_name a <> nm)) \/
    (pend_names (m_stack m) = nm :: pend_names (m_stack m')).

Definition shrink_step (m m' : mstate) (e : tev) : Prop :=
  m_n m' = m_n m /\ incl (m_live m') (m_live m) /\
  (pend_names (m_stack m') = pend_names (m_stack m) \/
   exists k, pend_names (m_stack m) = k :: pend_names (m_stack m')) /\
  call_facts m m' e.

Definition bind_step (m m' : mstate) (e : tev) : Prop :=
  exists nb, (a_name nb = m_n m \/ a_name nb = - m_n m) /\ m_n m' = m_n m + 1 /\
    (m_live m' = nb :: m_live m \/ m_live m' = m_live m ++ [nb]) /\
    m_stack m' = m_stack m /\ (forall nm fl, e <> TCallB nm fl).

Definition unbind_step (m m' : mstate) (e : tev) : Prop :=
  exists a, In a (m_live m) /\ m_live m' = remove_live (a_name a) (m_live m) /\ m_n m' = m_n m /\
    (pend_names (m_stack m') = pend_names (m_stack m) \/
     pend_names (m_stack m') = a_name a :: pend_names (m_stack m)) /\
    (forall nm fl, e <> TCallB nm fl).

Lemma remove_live_incl : forall d l, incl (remove_live d l) l.
Proof. intros d l a H; unfold remove_live in H; apply filter_In in H; tauto. Qed.

Lemma remove_live_not : forall d l a, In a (remove_live d l) -> a_name a <> d.
Proof.
  intros d l a H; unfold remove_live in H; apply filter_In in H; destruct H as (_ & E).
  apply negb_true_iff in E; apply Z.eqb_neq in E; exact E.
Qed.

Lemma find_live_name : forall d l a, find_live d l = Some a -> In a l /\ a_name a = d.
Proof. unfold find_live; intros d l a H; apply find_some in H; destruct H as (H & E); apply Z.eqb_eq in E; auto. Qed.

Ltac shrink_norm :=
  left; unfold shrink_step, call_facts;
  repeat match goal with E : m_stack _ = _ |- _ => rewrite E end;
  cbn [m_n m_live m_stack pend_names flat_map pend_of app].

Lemma step_shape : forall m e m', mon_step m e = inl m' ->
  shrink_step m m' e \/ bind_step m m' e \/ unbind_step m m' e.
Proof.
  intros m e m' H. unfold mon_step in H. destruct e as [name ev flags hid id|id| |wf ev|ret| | |name flags|ret].
  - (* TBind *)
    destruct (negb (app_context (m_stack m))); [discriminate|].
    destruct (negb (name =? (if has flags BIND_FIRST then - m_n m else m_n m))) eqn:En; [discriminate|].
    destruct (negb (0 <? id) || memZ id (map a_id (m_live m))); [discriminate|].
    injection H as <-. right; left.
    apply negb_false_iff, Z.eqb_eq in En.
    exists (mkA name ev (Z.land flags (BIND_UNBIND + BIND_DESTROY + BIND_ONESHOT)) id).
    split; [|split; [reflexivity|split; [|split; [reflexivity|discriminate]]]].
    + cbn [a_name]. destruct (has flags BIND_FIRST); auto.
    + cbn [m_live]. destruct (has flags BIND_FIRST); auto.
  - (* TUnbindB *)
    destruct (negb (app_context (m_stack m))); [discriminate|].
    destruct (find (fun a => a_id a =? id) (m_live m)) as [a|] eqn:Ef.
    + injection H as <-. right; right. apply find_some in Ef; destruct Ef as (Hin & _).
      exists a. split; [exact Hin|]. split; [reflexivity|]. split; [reflexivity|]. split; [|discriminate].
      cbn [m_stack pend_names flat_map]. destruct (has (a_flags a) BIND_UNBIND); cbn [pend_of app]; auto.
    + injection H as <-. shrink_norm. split; [reflexivity|]. split; [apply incl_refl|]. split; [left; reflexivity|].
      intros nm fl Hc; discriminate.
  - (* TUnbindE *)
    destruct (m_stack m) as [|[| |[k|]|] st'] eqn:Est; try discriminate.
    injection H as <-. shrink_norm. split; [reflexivity|]. split; [apply incl_refl|]. split; [left; reflexivity|].
    intros nm fl Hc; discriminate.
  - (* TEmitB *)
    destruct (negb (app_context (m_stack m))); [discriminate|].
    injection H as <-. shrink_norm. split; [reflexivity|]. split; [apply incl_refl|]. split; [left; reflexivity|].
    intros nm fl Hc; discriminate.
  - (* TEmitE *)
    destruct (m_stack m) as [|[wf ev last pending claimed| | |] st'] eqn:Est; try discriminate.
    destruct (claimed || negb (existsb (is_live (m_live m)) pending)); [|discriminate].
    injection H as <-. shrink_norm. split; [reflexivity|]. split; [apply incl_refl|]. split; [left; reflexivity|].
    intros nm fl Hc; discriminate.
  - (* TDestroyB *)
    destruct (m_stack m) as [|fr st'] eqn:Est; [|discriminate].
    injection H as <-. shrink_norm. split; [reflexivity|]. split; [apply incl_refl|]. split; [left; reflexivity|].
    intros nm fl Hc; discriminate.
  - (* TDestroyE *)
    destruct (m_stack m) as [|[| | |] st'] eqn:Est; try discriminate.
    destruct (existsb asked_destroy (m_live m)); [discriminate|].
    injection H as <-. shrink_norm. split; [reflexivity|]. split; [intros a []|]. split; [left; reflexivity|].
    intros nm fl Hc; discriminate.
  - (* TCallB *)
    destruct (m_stack m) as [|[wf ev last pending claimed| |[k|]|] st'] eqn:Est; try discriminate.
    + (* inside an occurrence *)
      destruct (find_live name (m_live m)) as [a|] eqn:Ef; [|discriminate].
      destruct (negb (a_ev a =? ev)); [discriminate|].
      destruct claimed; [discriminate|].
      destruct (match last with Some l => name <=? l | None => false end); [discriminate|].
      destruct (negb (flags =? (if has (a_flags a) BIND_ONESHOT then EV_FIRE + EV_UNBIND else EV_FIRE))) eqn:Efl; [discriminate|].
      injection H as <-. apply negb_false_iff, Z.eqb_eq in Efl.
      destruct (find_live_name _ _ _ Ef) as (Hin & Hnm).
      shrink_norm. split; [reflexivity|]. split; [|split; [left; reflexivity|]].
      * cbn [m_live]. destruct (has (a_flags a) BIND_ONESHOT); [apply remove_live_incl|apply incl_refl].
      * intros nm fl Hc. injection Hc as <- <-. left. split; [rewrite <- Hnm; apply in_map; exact Hin|].
        intros Hu. cbn [m_live]. destruct (has (a_flags a) BIND_ONESHOT).
        -- intros x Hx; eapply remove_live_not; exact Hx.
        -- subst flags. discriminate Hu.
    + (* the outstanding UNBIND notification *)
      destruct ((name =? k) && (flags =? EV_UNBIND)) eqn:Ek; [|discriminate].
      injection H as <-. apply andb_true_iff in Ek; destruct Ek as (Ek & _). apply Z.eqb_eq in Ek; subst k.
      shrink_norm. split; [reflexivity|]. split; [apply incl_refl|]. split.
      * right. exists name. reflexivity.
      * intros nm fl Hc. injection Hc as <- <-. right. reflexivity.
    + (* destruction *)
      destruct (find_live name (m_live m)) as [a|] eqn:Ef; [|discriminate].
      destruct (negb (asked_destroy a)); [discriminate|].
      destruct (negb (flags =? EV_UNBIND + EV_DESTROY)); [discriminate|].
      destruct (existsb (fun x => (name <? a_name x) && asked_destroy x) (m_live m)); [discriminate|].
      injection H as <-. destruct (find_live_name _ _ _ Ef) as (Hin & Hnm).
      shrink_norm. split; [reflexivity|]. split; [|split; [left; reflexivity|]].
      * cbn [m_live]. intros x Hx. apply filter_In in Hx; tauto.
      * intros nm fl Hc. injection Hc as <- <-. left. split; [rewrite <- Hnm; apply in_map; exact Hin|].
        intros _. cbn [m_live]. intros x Hx. apply filter_In in Hx. destruct Hx as (_ & Hlt). apply Z.ltb_lt in Hlt. lia.
  - (* TCallE *)
    destruct (m_stack m) as [|[| | |] st'] eqn:Est; try discriminate.
    destruct st' as [|[[] ev last pending claimed| | |] st'']; injection H as <-;
      (shrink_norm; split; [reflexivity|]; split; [apply incl_refl|]; split; [left; reflexivity|];
       intros nm fl Hc; discriminate).
Qed.

(* ------------------------------------------------------------ G is an invariant of accepted runs *)
Lemma G_init : G init_mstate.
Proof. constructor; cbn; try tauto; try lia. constructor. Qed.

Lemma G_step : forall m e m', G m -> mon_step m e = inl m' -> G m'.
Proof.
  intros m e m' [Hr Hp Hnd Hpos] H. destruct (step_shape _ _ _ H) as [Hs|[Hb|Hu]].
  - destruct Hs as (Hn & Hincl & Hpend & _). constructor; rewrite ?Hn; auto.
    + intros k Hk. assert (Hk' : In k (pend_names (m_stack m))).
      { destruct Hpend as [E|(k0 & E)]; [rewrite <- E; exact Hk|rewrite E; right; exact Hk]. }
      destruct (Hp _ Hk') as (Hrk & Hnl). split; auto.
    + destruct Hpend as [E|(k0 & Hk0)]; [rewrite E; exact Hnd|]. rewrite Hk0 in Hnd. inversion Hnd; auto.
  - destruct Hb as (nb & Hname & Hn & Hlive & Hst & _). constructor; rewrite ?Hn, ?Hst; try lia; auto.
    + intros a Ha. assert (Hc : a = nb \/ In a (m_live m)).
      { destruct Hlive as [E|E]; rewrite E in Ha; [destruct Ha; auto|].
        apply in_app_or in Ha; destruct Ha as [Ha|[Ha|[]]]; auto. }
      destruct Hc as [->|Ha']; [lia|]. specialize (Hr _ Ha'); lia.
    + intros k Hk. destruct (Hp _ Hk) as (Hrk & Hnl). split; [lia|]. intros a Ha.
      assert (Hc : a = nb \/ In a (m_live m)).
      { destruct Hlive as [E|E]; rewrite E in Ha; [destruct Ha; auto|].
        apply in_app_or in Ha; destruct Ha as [Ha|[Ha|[]]]; auto. }
      destruct Hc as [->|Ha']; [lia|auto].
  - destruct Hu as (a & Ha & Hlive & Hn & Hpend & _). constructor; rewrite ?Hn; auto.
    + intros x Hx. rewrite Hlive in Hx. apply Hr. eapply remove_live_incl; exact Hx.
    + intros k Hk. assert (Hc : k = a_name a \/ In k (pend_names (m_stack m))).
      { destruct Hpend as [E|E]; rewrite E in Hk; [auto|destruct Hk; auto]. }
      destruct Hc as [->|Hk'].
      * split; [apply Hr; exact Ha|]. intros x Hx. rewrite Hlive in Hx. eapply remove_live_not; exact Hx.
      * destruct (Hp _ Hk') as (Hrk & Hnl). split; auto. intros x Hx. rewrite Hlive in Hx.
        apply Hnl. eapply remove_live_incl; exact Hx.
    + destruct Hpend as [E|E]; rewrite E; [exact Hnd|]. constructor; [|exact Hnd].
      intros Hin. destruct (Hp _ Hin) as (_ & Hnl). exact (Hnl a Ha eq_refl).
Qed.

(* ------------------------------------------------------------ once dead, never invoked again *)
Lemma Dead_step : forall n m e m', G m -> Dead n m -> mon_step m e = inl m' ->
  Dead n m' /\ forall fl, e <> TCallB n fl.
Proof.
  intros n m e m' HG [Dl Dr Dp] H. destruct (step_shape _ _ _ H) as [Hs|[Hb|Hu]].
  - destruct Hs as (Hn & Hincl & Hpend & Hcall). split.
    + constructor; rewrite ?Hn; auto.
      intros Hin. apply Dp. destruct Hpend as [E|(k0 & E)]; [rewrite <- E; exact Hin|rewrite E; right; exact Hin].
    + intros fl He. destruct (Hcall _ _ He) as [(Hwas & _)|Hpd].
      * apply in_map_iff in Hwas. destruct Hwas as (a & Hna & Ha). exact (Dl a Ha Hna).
      * apply Dp. rewrite Hpd. left; reflexivity.
  - destruct Hb as (nb & Hname & Hn & Hlive & Hst & Hne). split; [|intros fl; apply Hne].
    constructor; rewrite ?Hn, ?Hst; try lia; auto.
    intros a Ha. assert (Hc : a = nb \/ In a (m_live m)).
    { destruct Hlive as [E|E]; rewrite E in Ha; [destruct Ha; auto|].
      apply in_app_or in Ha; destruct Ha as [Ha|[Ha|[]]]; auto. }
    destruct Hc as [->|Ha']; [lia|auto].
  - destruct Hu as (a & Ha & Hlive & Hn & Hpend & Hne). split; [|intros fl; apply Hne].
    constructor; rewrite ?Hn; auto.
    + intros x Hx. rewrite Hlive in Hx. apply Dl. eapply remove_live_incl; exact Hx.
    + intros Hin. destruct Hpend as [E|E]; rewrite E in Hin; [auto|].
      destruct Hin as [Hin|Hin]; [|auto]. exact (Dl a Ha Hin).
Qed.

Lemma Dead_intro : forall n fl m m', G m -> mon_step m (TCallB n fl) = inl m' ->
  has fl EV_UNBIND = true -> Dead n m'.
Proof.
  intros n fl m m' HG H Hu. pose proof (G_step _ _ _ HG H) as HG'. destruct HG as [Hr Hp Hnd Hpos].
  destruct (step_shape _ _ _ H) as [Hs|[Hb|Hub]].
  - destruct Hs as (Hn & Hincl & Hpend & Hcall). destruct (Hcall _ _ eq_refl) as [(Hwas & Hgone)|Hpd].
    + apply in_map_iff in Hwas. destruct Hwas as (a & Hna & Ha). constructor; rewrite ?Hn.
      * exact (Hgone Hu).
      * rewrite <- Hna. apply Hr; exact Ha.
      * intros Hin. assert (Hin' : In n (pend_names (m_stack m))).
        { destruct Hpend as [E|(k0 & E)]; [rewrite <- E; exact Hin|rewrite E; right; exact Hin]. }
        destruct (Hp _ Hin') as (_ & Hnl). exact (Hnl a Ha Hna).
    + assert (Hin : In n (pend_names (m_stack m))) by (rewrite Hpd; left; reflexivity).
      destruct (Hp _ Hin) as (Hrn & Hnl). constructor; rewrite ?Hn; auto.
      rewrite Hpd in Hnd. inversion Hnd; auto.
  - destruct Hb as (nb & _ & _ & _ & _ & Hne). exfalso; eapply Hne; reflexivity.
  - destruct Hub as (a & _ & _ & _ & _ & Hne). exfalso; eapply Hne; reflexivity.
Qed.

Lemma dead_run : forall n t m mf, G m -> Dead n m -> mon_run m t = inl mf ->
  forall fl, ~ In (TCallB n fl) t.
Proof.
  intros n; induction t as [|e t IH]; intros m mf HG HD Hrun fl Hin; [destruct Hin|].
  cbn [mon_run] in Hrun. destruct (mon_step m e) as [m1|] eqn:Es; [|discriminate].
  destruct (Dead_step _ _ _ _ HG HD Es) as (HD1 & Hne). pose proof (G_step _ _ _ HG Es) as HG1.
  destruct Hin as [->|Hin]; [exact (Hne fl eq_refl)|]. exact (IH _ _ HG1 HD1 Hrun fl Hin).
Qed.

Lemma run_unbind_is_last : forall t1 m mf name flags t2, G m ->
  mon_run m (t1 ++ TCallB name flags :: t2) = inl mf -> has flags EV_UNBIND = true ->
  forall flags', ~ In (TCallB name flags') t2.
Proof.
  induction t1 as [|e t1 IH]; intros m mf name flags t2 HG Hrun Hu; cbn [app mon_run] in Hrun.
  - destruct (mon_step m (TCallB name flags)) as [m1|] eqn:Es; [|discriminate].
    eapply dead_run; [exact (G_step _ _ _ HG Es)|exact (Dead_intro _ _ _ _ HG Es Hu)|exact Hrun].
  - destruct (mon_step m e) as [m1|] eqn:Es; [|discriminate].
    eapply IH; [exact (G_step _ _ _ HG Es)|exact Hrun|exact Hu].
Qed.

(* In an accepted trace an invocation that carries the UNBIND flag is the last invocation
   of that binding. *)
Theorem accepted_unbind_is_last : forall t, verdict t = None ->
  forall t1 name flags t2, t = t1 ++ TCallB name flags :: t2 -> has flags EV_UNBIND = true ->
  forall flags', ~ In (TCallB name flags') t2.
Proof.
  intros t Hv t1 name flags t2 -> Hu. unfold verdict in Hv.
  destruct (mon_run init_mstate (t1 ++ TCallB name flags :: t2)) as [mf|] eqn:Hrun; [|discriminate].
  eapply run_unbind_is_last; [exact G_init|exact Hrun|exact Hu].
Qed.
