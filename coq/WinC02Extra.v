(* WinC02Extra.v -- concrete witnesses for property C02 (closed by computation). *)
From Coq Require Import ZArith List Bool.
From Tickit Require Import RectDefs WinRectSet WinDefs WinSpec WinHist WinLogDisjoint.
Import ListNotations.
Local Open Scope Z_scope.

(* defect #27 (repaired): the whole 4x4 root is damaged, the terminal shrinks to 4x2, and the
   pinned flush hands the root's handler the rectangle (0,0,4,4) *)
Definition cfg27 := mkDefects false false false true false false false false.
Definition st27 := fst (win_term_resize (win_expose (root_new 4 4) 0 None) (term_new 4 4 pol_accept) 4 2).
Definition tm27 := snd (win_term_resize (win_expose (root_new 4 4) 0 None) (term_new 4 4 pol_accept) 4 2).

Lemma refuted_27 : exists cfg hnd st tm,
  d_flush_noclip cfg = true /\
  let '(st', _, lg) := win_flush cfg hnd st tm in
  exists r, In (0, r) lg /\ r_contains (root_selfrect st') r = false.
Proof.
  exists cfg27, (paint_handler app_base), st27, tm27. split; [reflexivity|].
  assert (H : (let '(st', _, lg) := win_flush cfg27 (paint_handler app_base) st27 tm27 in (lg, root_selfrect st'))
              = ([(0, mkRect 0 0 4 4)], mkRect 0 0 4 2)) by (vm_compute; reflexivity).
  destruct (win_flush cfg27 (paint_handler app_base) st27 tm27) as [[st' tm'] lg].
  pose proof (f_equal fst H) as H1. pose proof (f_equal snd H) as H2. cbn [fst snd] in H1, H2.
  rewrite H1, H2. exists (mkRect 0 0 4 4). split; [left; reflexivity|reflexivity].
Qed.

(* non-vacuity: a root with a child; the handlers run a hostile program (text at negative
   coordinates, nine cells long) and then repaint; the flush hands out two rectangles and
   changes the screen *)
Definition stnv := win_new (win_expose (root_new 3 4) 0 None) 1 0 (mkRect 1 1 1 2) false false false false.

Lemma nonvacuous_c02 :
  exists st tm, let '(_, tm', lg) := win_flush no_defects (prog_handler app_base (fun _ => [DText (-1) (-2) 9; DPaint])) st tm in
  length lg = 2%nat /\ t_grid tm' (1, 1) <> t_grid tm (1, 1).
Proof.
  exists stnv, (term_new 3 4 pol_accept).
  assert (H : (let '(_, tm', lg) := win_flush no_defects (prog_handler app_base (fun _ => [DText (-1) (-2) 9; DPaint])) stnv (term_new 3 4 pol_accept) in
               (length lg, t_grid tm' (1, 1))) = (2%nat, 84)) by (vm_compute; reflexivity).
  destruct (win_flush no_defects (prog_handler app_base (fun _ => [DText (-1) (-2) 9; DPaint])) stnv (term_new 3 4 pol_accept)) as [[st' tm'] lg].
  pose proof (f_equal fst H) as H1. pose proof (f_equal snd H) as H2. cbn [fst snd] in H1, H2.
  rewrite H1, H2. split; [reflexivity|]. cbn. discriminate.
Qed.
