(* WinRBExpose.v -- the simulation between the window layer's ABSTRACT render buffer and the
   per-cell specification of the CONCRETE render buffer (RBSpec.v, property C03), lifted from
   single buffer calls to whole expose handlers, to _do_expose and to the render loop of
   tickit_window_flush.

   The per-call simulation lemmas (one per buffer call the window layer makes, and one for a
   drawing program) are SECTION HYPOTHESES here; WinRBSim.v proves them.

     hsim hnd hp        the abstract handler [hnd] and the concrete call list [hp] correspond
     hsim_prog          ... which they do for drawing programs
     Rrb_expose         do_expose          ~  expose_ops
     Rrb_flush_rb       flush_rb           ~  flush_ops
     flush_ops_op_ok / flush_ops_op_narrow   the side conditions C04 puts on a program

   Names that exist on both sides mean the render-buffer group's here; the window layer's are
   written WinDefs.xxx. *)
From Coq Require Import ZArith List Bool Lia.
From Tickit Require Import RectDefs WinRectSet WinDefs WinSpec WinExposeProofs.
From Tickit Require Import RBDefs RBSpec RBAbsLemmas RBProps Gen_Linechars RBFlushDefs RBFlushSpec RBTermSim
                           RBFlushReach RBFlushGrid.
From Tickit Require Import WinRBView.
Import ListNotations.
Local Open Scope Z_scope.

(* ------------------------------------------------------------------------------------ *)
(* running a concatenated program of the specification *)

Lemma arun_cons_fst : forall A o p, fst (arun A (o :: p)) = fst (arun (fst (astep A o)) p).
Proof.
  intros A o p. cbn [arun]. destruct (astep A o) as [s1 v1]. cbn [fst].
  destruct (arun s1 p) as [s2 v2]. reflexivity.
Qed.

Lemma arun_nil_fst : forall A, fst (arun A []) = A.
Proof. reflexivity. Qed.

Lemma arun_app : forall A p q, fst (arun A (p ++ q)) = fst (arun (fst (arun A p)) q).
Proof.
  intros A p. revert A. induction p as [|o p IH]; intros A q; [reflexivity|].
  cbn [app]. rewrite !arun_cons_fst. apply IH.
Qed.

(* ------------------------------------------------------------------------------------ *)
(* the loop of expose_ops as a top-level function (as WinExposeProofs.expose_kids is the loop
   of do_expose) *)

Fixpoint kids_ops (hp : chandler) (r : rect) (l : list wtree) : list rbop :=
  match l with
  | [] => []
  | c :: rest =>
    let ci := t_info c in
    if negb (w_vis ci) then kids_ops hp r rest else
    (match r_intersect r (w_rect ci) with
     | Some ex =>
       [OSave; OClip ex; OTranslate (top (w_rect ci)) (left (w_rect ci))] ++
       expose_ops hp c (r_translate ex (- top (w_rect ci)) (- left (w_rect ci))) ++ [ORestore]
     | None => []
     end) ++ [OMask (w_rect ci)] ++ kids_ops hp r rest
  end.

Lemma expose_ops_unfold hp i ch r :
  expose_ops hp (Node i ch) r = kids_ops hp r ch ++ hp (w_id i) r.
Proof.
  cbn [expose_ops]. f_equal.
  induction ch as [|c rest IH]; [reflexivity|].
  cbn [kids_ops]. destruct (negb (w_vis (t_info c))); [exact IH|]. rewrite IH. reflexivity.
Qed.

(* the calls the window layer itself makes on the buffer *)
Definition frame_op (o : rbop) : Prop :=
  match o with
  | OSave | OClip _ | OTranslate _ _ | ORestore | OMask _ => True
  | _ => False
  end.

(* a property of operations that holds of the window layer's own calls and of every call a
   handler makes holds of the whole program *)
Section ops_forall.
  Variable P : rbop -> Prop.
  Hypothesis Pframe : forall o, frame_op o -> P o.
  Variable hp : chandler.
  Hypothesis Php : forall id r, Forall P (hp id r).

  Lemma expose_ops_Forall : forall t r, Forall P (expose_ops hp t r).
  Proof.
    apply (wtree_ind2 (fun t => forall r, Forall P (expose_ops hp t r))).
    intros i ch Hch r. rewrite expose_ops_unfold. apply Forall_app. split; [|apply Php].
    induction Hch as [|c rest Hc _ IH]; [constructor|].
    cbn [kids_ops]. destruct (negb (w_vis (t_info c))); [exact IH|].
    apply Forall_app. split.
    - destruct (r_intersect r (w_rect (t_info c))) as [ex|]; [|constructor].
      cbn [app]. repeat (constructor; [apply Pframe; exact I|]).
      apply Forall_app. split; [apply Hc|]. constructor; [apply Pframe; exact I|constructor].
    - cbn [app]. constructor; [apply Pframe; exact I|exact IH].
  Qed.

  Lemma flush_ops_Forall : forall tree rects, Forall P (flush_ops hp tree rects).
  Proof.
    intros tree rects. unfold flush_ops. induction rects as [|r rest IH]; cbn [flat_map]; [constructor|].
    apply Forall_app. split; [|exact IH].
    cbn [app]. repeat (constructor; [apply Pframe; exact I|]).
    apply Forall_app. split; [apply expose_ops_Forall|]. constructor; [apply Pframe; exact I|constructor].
  Qed.
End ops_forall.

Lemma frame_op_ok : forall o, frame_op o -> op_ok o.
Proof. intros o H. destruct o; try contradiction; exact I. Qed.

Lemma frame_op_narrow : forall o, frame_op o -> op_narrow o.
Proof. intros o H. destruct o; try contradiction; exact I. Qed.

(* ------------------------------------------------------------------------------------ *)
Section sim.

Hypothesis Rrb_save : forall b A, Rrb b A -> Rrb (rb_save b) (fst (astep A OSave)).
Hypothesis Rrb_clip : forall b A r, Rrb b A -> Rrb (rb_clip_to b r) (fst (astep A (OClip r))).
Hypothesis Rrb_translate : forall b A dl dc, Rrb b A -> Rrb (rb_translate b dl dc) (fst (astep A (OTranslate dl dc))).
Hypothesis Rrb_mask : forall b A r, Rrb b A -> Rrb (rb_mask_rect b r) (fst (astep A (OMask r))).
Hypothesis Rrb_restore : forall b A, Rrb b A -> Rrb (rb_restore b) (fst (astep A ORestore)).
Hypothesis Rrb_prog : forall app prog id handed b A, app_ok app -> Rrb b A ->
  Rrb (run_prog app prog id handed b) (fst (arun A (c_prog app prog id handed))).

(* (1) handlers *)
Definition hsim (hnd : handler) (hp : chandler) : Prop :=
  forall id r b A, Rrb b A -> Rrb (hnd id r b) (fst (arun A (hp id r))).

Lemma hsim_prog : forall app progs, app_ok app -> hsim (prog_handler app progs) (c_hp app progs).
Proof.
  intros app progs Happ id r b A H. unfold prog_handler, c_hp. apply Rrb_prog; assumption.
Qed.

(* (2) _do_expose *)
Lemma Rrb_expose : forall hnd hp, hsim hnd hp ->
  forall t r b A, Rrb b A -> Rrb (do_expose hnd t r b) (fst (arun A (expose_ops hp t r))).
Proof.
  intros hnd hp Hs.
  apply (wtree_ind2 (fun t => forall r b A, Rrb b A ->
                                Rrb (do_expose hnd t r b) (fst (arun A (expose_ops hp t r))))).
  intros i ch Hch r b A HR. rewrite do_expose_unfold, expose_ops_unfold, arun_app. apply Hs.
  revert b A HR. induction Hch as [|c rest Hc _ IH]; intros b A HR; [exact HR|].
  cbn [expose_kids kids_ops]. destruct (negb (w_vis (t_info c))); [apply IH; exact HR|].
  rewrite arun_app. cbn [app]. rewrite arun_cons_fst. apply IH. apply Rrb_mask.
  destruct (r_intersect r (w_rect (t_info c))) as [ex|]; [|exact HR].
  cbn [app]. rewrite !arun_cons_fst, arun_app, arun_cons_fst, arun_nil_fst.
  apply Rrb_restore. apply Hc. apply Rrb_translate. apply Rrb_clip. apply Rrb_save. exact HR.
Qed.

(* (3) the render loop *)
Lemma Rrb_flush_rb : forall hnd hp, hsim hnd hp ->
  forall tree rects b A, Rrb b A ->
    Rrb (flush_rb hnd tree rects b) (fst (arun A (flush_ops hp tree rects))).
Proof.
  intros hnd hp Hs tree rects. unfold flush_rb, flush_ops.
  induction rects as [|r rest IH]; intros b A HR; [exact HR|].
  cbn [fold_left flat_map]. rewrite arun_app. apply IH.
  cbn [app]. rewrite !arun_cons_fst, arun_app, arun_cons_fst, arun_nil_fst.
  apply Rrb_restore. apply (Rrb_expose hnd hp Hs). apply Rrb_clip. apply Rrb_save. exact HR.
Qed.

(* (4) the side conditions of the composed program *)
Hypothesis c_prog_op_ok : forall app prog id handed, Forall op_ok (c_prog app prog id handed).
Hypothesis c_prog_op_narrow : forall app prog id handed, app_ok app -> Forall op_narrow (c_prog app prog id handed).

Lemma expose_ops_op_ok : forall app progs t r, Forall op_ok (expose_ops (c_hp app progs) t r).
Proof.
  intros app progs. apply expose_ops_Forall; [exact frame_op_ok|].
  intros id r. unfold c_hp. apply c_prog_op_ok.
Qed.

Lemma flush_ops_op_ok : forall app progs tree rects, Forall op_ok (flush_ops (c_hp app progs) tree rects).
Proof.
  intros app progs. apply flush_ops_Forall; [exact frame_op_ok|].
  intros id r. unfold c_hp. apply c_prog_op_ok.
Qed.

Lemma expose_ops_op_narrow : forall app progs t r, app_ok app -> Forall op_narrow (expose_ops (c_hp app progs) t r).
Proof.
  intros app progs t r Happ. apply expose_ops_Forall; [exact frame_op_narrow|].
  intros id r'. unfold c_hp. apply c_prog_op_narrow. exact Happ.
Qed.

Lemma flush_ops_op_narrow : forall app progs tree rects,
  app_ok app -> Forall op_narrow (flush_ops (c_hp app progs) tree rects).
Proof.
  intros app progs tree rects Happ. apply flush_ops_Forall; [exact frame_op_narrow|].
  intros id r. unfold c_hp. apply c_prog_op_narrow. exact Happ.
Qed.

End sim.
