(* RBProofs.v -- every operation of the render buffer refines its per-cell specification and
   keeps the invariant; by induction, so does every program.  Then the further statements of
   property C03: confinement, save/restore, clip monotonicity, cursor advance. *)
From Coq Require Import ZArith List Bool Lia.
From Tickit Require Import RectDefs RectProofs RBDefs RBSpec RBLemmas RBSpanProofs RBAbsLemmas RBInv RBOpProofs.
Import ListNotations.
Local Open Scope Z_scope.

(* ---------------------------------------------------------------------------------- *)
(* rows whose cells keep their kind: mask and restore *)

Lemma WF_ck_ext : forall r r',
  len r' = len r -> (forall i, 0 <= i < len r -> ck (get r' i) = ck (get r i)) -> WF r -> WF r'.
Proof.
  intros r r' HL H W. unfold WF. rewrite HL. intros i Hi. specialize (W i Hi).
  unfold wf_cellf in *. rewrite H by assumption.
  destruct (ck (get r i)) as [c k|sc] eqn:Ei.
  - destruct W as (K1 & K2 & K3 & K4). repeat split; auto. intros j Hj. rewrite H by lia. apply K4; assumption.
  - destruct W as (K1 & c & k & Hs & K2). split; [assumption|]. exists c, k. rewrite H by lia. auto.
Qed.

Lemma abs_cell_ck_ext : forall r r' i,
  (forall j, 0 <= j < len r -> ck (get r' j) = ck (get r j)) -> WF r -> 0 <= i < len r ->
  abs_cell r' i = abs_cell r i.
Proof.
  intros r r' i H W Hi. unfold abs_cell. rewrite H by assumption.
  destruct (ck (get r i)) as [c k|sc] eqn:Ei; [reflexivity|].
  specialize (W i Hi). unfold wf_cellf in W. rewrite Ei in W. destruct W as (K1 & _).
  rewrite H by lia. reflexivity.
Qed.

(* changing only mask depths, cell by cell *)
Definition remask (q : Z -> Z -> Z) (r : row) : row := mapi (fun x cell => mkCell (ck cell) (q x (cmask cell))) r.
Definition a_remask (q : Z -> Z -> Z) (r : list acell) : list acell := mapi (fun x a => mkA (ac a) (q x (am a))) r.

Lemma remask_ok : forall q r C,
  row_ok C r -> (forall x m, -1 <= m -> -1 <= q x m) ->
  row_ok C (remask q r) /\ abs_row (remask q r) = a_remask q (abs_row r).
Proof.
  intros q r C (HL & W & M) Hq.
  assert (L' : len (remask q r) = len r) by (unfold remask; apply len_mapi).
  assert (G : forall x, 0 <= x < len r -> get (remask q r) x = mkCell (ck (get r x)) (q x (cmask (get r x))))
    by (intros; unfold remask; now rewrite get_mapi).
  assert (CK : forall x, 0 <= x < len r -> ck (get (remask q r) x) = ck (get r x)) by (intros; now rewrite G).
  split.
  - split; [lia|]. split; [eapply WF_ck_ext; eauto|].
    intros x Hx. rewrite L' in Hx. rewrite G by assumption. cbn [cmask]. apply Hq. apply M. assumption.
  - apply abs_row_ext.
    + unfold a_remask. now rewrite zlen_mapi, zlen_abs_row.
    + intros x Hx. rewrite L' in Hx. unfold a_remask.
      rewrite (zn_mapi _ (abs_row r) x dacell dacell) by (rewrite zlen_abs_row; assumption).
      rewrite zn_abs_row by assumption. cbn [ac am].
      rewrite (abs_cell_ck_ext r (remask q r) x CK W Hx). rewrite G by assumption. reflexivity.
Qed.

(* a buffer whose rows are all re-masked *)
Lemma remask_all_inv : forall s (q : Z -> Z -> Z -> Z) a',
  Inv s -> (forall y x m, -1 <= m -> -1 <= q y x m) ->
  clip_in (rb_lines s) (rb_cols s) (clip a') ->
  Forall (fun f => f_pen_only f = true \/ clip_in (rb_lines s) (rb_cols s) (f_clip f)) (stack a') ->
  depth a' = zlen (stack a') ->
  let s' := mkRB (rb_lines s) (rb_cols s) (mapi (fun y r => remask (q y) r) (cells s)) a' in
  Inv s' /\ ag (abs_rb s') = mapi (fun y r => a_remask (q y) r) (ag (abs_rb s)).
Proof.
  intros s q a' I Hq Hc Hs Hd s'. destruct I as [I1 I2 I3 I4 I5 I6].
  split.
  - constructor; cbn [s' cells rb_lines rb_cols aux]; auto.
    + now rewrite zlen_mapi.
    + intros y Hy. rewrite (@zn_mapi row row _ (cells s) y [] []) by lia.
      apply remask_ok; auto.
  - unfold abs_rb. cbn [ag s' cells].
    apply (list_ext_zn _ _ []).
    + now rewrite zlen_map, !zlen_mapi, zlen_map.
    + intros y Hy. rewrite zlen_map, zlen_mapi in Hy.
      rewrite (zn_map abs_row _ y [] []) by (rewrite zlen_mapi; assumption).
      rewrite (@zn_mapi row row _ (cells s) y [] []) by assumption.
      rewrite (zn_mapi _ (map abs_row (cells s)) y [] []) by (rewrite zlen_map; assumption).
      rewrite (zn_map abs_row _ y [] []) by assumption.
      apply remask_ok with (C := rb_cols s); auto. apply I3. lia.
Qed.

(* ---------------------------------------------------------------------------------- *)
(* mask *)

Theorem mask_ok : forall s m,
  Inv s -> Inv (mask_op s m) /\ abs_rb (mask_op s m) = a_mask (abs_rb s) m.
Proof.
  intros s m I.
  set (hole := mask_hole (aux s) m).
  set (q := fun y x mm => if cell_inb hole (y, x) && (mm =? -1) then depth (aux s) else mm).
  assert (Hd : 0 <= depth (aux s)) by (rewrite (inv_depth s I); apply zlen_nonneg).
  destruct (remask_all_inv s q (aux s) I) as (I' & Ab).
  { intros y x mm Hm. unfold q. destruct (cell_inb hole (y, x) && (mm =? -1)); lia. }
  { apply (inv_clip s I). } { apply (inv_stack s I). } { apply (inv_depth s I). }
  assert (E : mask_op s m = mkRB (rb_lines s) (rb_cols s) (mapi (fun y r => remask (q y) r) (cells s)) (aux s)).
  { unfold mask_op, set_cells. fold hole. f_equal.
    apply (list_ext_zn _ _ []); [now rewrite !zlen_mapi|].
    intros y Hy. rewrite zlen_mapi in Hy.
    rewrite (@zn_mapi row row _ (cells s) y [] []), (@zn_mapi row row _ (cells s) y [] []) by assumption.
    unfold remask. apply (list_ext_zn _ _ dcell); [now rewrite !zlen_mapi|].
    intros x Hx. rewrite zlen_mapi in Hx.
    rewrite (zn_mapi _ _ x dcell dcell), (zn_mapi _ _ x dcell dcell) by assumption.
    unfold q. destruct (zn (zn (cells s) y []) x dcell) as [k mm]. cbn [ck cmask].
    destruct (cell_inb hole (y, x) && (mm =? -1)); reflexivity. }
  rewrite E. split; [assumption|].
  unfold a_mask. unfold abs_rb at 1. unfold set_ag. cbn [a_lines a_cols a_aux rb_lines rb_cols aux].
  f_equal. change (ag (abs_rb (mkRB (rb_lines s) (rb_cols s) (mapi (fun y r => remask (q y) r) (cells s)) (aux s))) =
                   mapi (fun y row => mapi (fun x cell =>
                      if cell_inb (mask_hole (a_aux (abs_rb s)) m) (y, x) && (am cell =? -1)
                      then mkA (ac cell) (depth (a_aux (abs_rb s))) else cell) row) (ag (abs_rb s))).
  rewrite Ab. apply (list_ext_zn _ _ []); [now rewrite !zlen_mapi|].
  intros y Hy. rewrite zlen_mapi in Hy.
  rewrite (zn_mapi _ (ag (abs_rb s)) y [] []), (zn_mapi _ (ag (abs_rb s)) y [] []) by assumption.
  unfold a_remask. apply (list_ext_zn _ _ dacell); [now rewrite !zlen_mapi|].
  intros x Hx. rewrite zlen_mapi in Hx.
  rewrite (zn_mapi _ _ x dacell dacell), (zn_mapi _ _ x dacell dacell) by assumption.
  unfold q. cbn [a_aux abs_rb]. fold hole.
  destruct (zn (zn (ag (abs_rb s)) y []) x dacell) as [k mm]. cbn [ac am].
  destruct (cell_inb hole (y, x) && (mm =? -1)); reflexivity.
Qed.

(* ---------------------------------------------------------------------------------- *)
(* restore *)

Lemma ax_restore_inv : forall L C a,
  clip_in L C (clip a) ->
  Forall (fun f => f_pen_only f = true \/ clip_in L C (f_clip f)) (stack a) ->
  depth a = zlen (stack a) ->
  clip_in L C (clip (ax_restore a)) /\
  Forall (fun f => f_pen_only f = true \/ clip_in L C (f_clip f)) (stack (ax_restore a)) /\
  depth (ax_restore a) = zlen (stack (ax_restore a)).
Proof.
  intros L C a Hc Hs Hd. unfold ax_restore.
  destruct (stack a) as [|f rest] eqn:Es; [rewrite Es; auto|].
  inversion Hs as [|f0 r0 Hf Hr]; subst.
  cbn [ax_set_stack ax_set_pen clip stack depth].
  split.
  - destruct (f_pen_only f) eqn:Ep; cbn [clip ax_set_clip ax_set_xlate ax_set_vc]; [assumption|].
    destruct Hf as [Hf|Hf]; [congruence|assumption].
  - split; [assumption|]. unfold zlen in *. cbn [length] in Hd. lia.
Qed.

Theorem restore_ok : forall s,
  Inv s -> Inv (restore s) /\ abs_rb (restore s) = a_restore (abs_rb s).
Proof.
  intros s I. unfold restore, a_restore. cbn [a_aux abs_rb].
  destruct (stack (aux s)) as [|f rest] eqn:Es; [split; [assumption|reflexivity]|].
  set (a' := ax_restore (aux s)).
  set (q := fun (y x mm : Z) => if mm >? depth a' then -1 else mm).
  destruct (ax_restore_inv (rb_lines s) (rb_cols s) (aux s) (inv_clip s I) (inv_stack s I) (inv_depth s I))
    as (Hc & Hs & Hd). fold a' in Hc, Hs, Hd.
  destruct (remask_all_inv s q a' I) as (I' & Ab); auto.
  { intros y x mm Hm. unfold q. destruct (mm >? depth a'); lia. }
  assert (E : mkRB (rb_lines s) (rb_cols s)
                (map (map (fun cell => if cmask cell >? depth a' then mkCell (ck cell) (-1) else cell)) (cells s)) a'
              = mkRB (rb_lines s) (rb_cols s) (mapi (fun y r => remask (q y) r) (cells s)) a').
  { f_equal. apply (list_ext_zn _ _ []); [now rewrite zlen_map, zlen_mapi|].
    intros y Hy. rewrite zlen_map in Hy.
    rewrite (zn_map _ (cells s) y [] []), (@zn_mapi row row _ (cells s) y [] []) by assumption.
    unfold remask. apply (list_ext_zn _ _ dcell); [now rewrite zlen_map, zlen_mapi|].
    intros x Hx. rewrite zlen_map in Hx.
    rewrite (zn_map _ _ x dcell dcell), (zn_mapi _ _ x dcell dcell) by assumption.
    unfold q. destruct (zn (zn (cells s) y []) x dcell) as [k mm]. cbn [ck cmask].
    destruct (mm >? depth a'); reflexivity. }
  rewrite E. split; [assumption|].
  unfold abs_rb at 1. cbn [a_lines a_cols a_aux rb_lines rb_cols aux].
  f_equal.
  change (ag (abs_rb (mkRB (rb_lines s) (rb_cols s) (mapi (fun y r => remask (q y) r) (cells s)) a')) =
          map (map (fun cell => if am cell >? depth a' then mkA (ac cell) (-1) else cell)) (ag (abs_rb s))).
  rewrite Ab. apply (list_ext_zn _ _ []); [now rewrite zlen_mapi, zlen_map|].
  intros y Hy. rewrite zlen_mapi in Hy.
  rewrite (zn_mapi _ (ag (abs_rb s)) y [] []), (zn_map _ (ag (abs_rb s)) y [] []) by assumption.
  unfold a_remask. apply (list_ext_zn _ _ dacell); [now rewrite zlen_mapi, zlen_map|].
  intros x Hx. rewrite zlen_mapi in Hx.
  rewrite (zn_mapi _ _ x dacell dacell), (zn_map _ _ x dacell dacell) by assumption.
  unfold q. destruct (zn (zn (ag (abs_rb s)) y []) x dacell) as [k mm]. cbn [ac am].
  destruct (mm >? depth a'); reflexivity.
Qed.

(* ---------------------------------------------------------------------------------- *)
(* blank rows: new and reset *)

Lemma blank_row_get : forall C i, 0 <= i < C ->
  get (blank_row C) i = if i =? 0 then mkCell (Start CSkip C) (-1) else mkCell (Cont 0) (-1).
Proof.
  intros C i Hi. unfold blank_row, get.
  destruct (Z.to_nat C) as [|k] eqn:Ek; [lia|].
  destruct (Z.eqb_spec i 0) as [->|Hne]; [reflexivity|].
  destruct (Z.to_nat i) as [|j] eqn:Ej; [lia|]. cbn [nth].
  assert (In (nth j (repeat (mkCell (Cont 0) (-1)) k) dcell) (repeat (mkCell (Cont 0) (-1)) k)).
  { apply nth_In. rewrite repeat_length. lia. }
  now apply repeat_spec in H.
Qed.

Lemma blank_row_len : forall C, 0 <= C -> len (blank_row C) = C.
Proof.
  intros C HC. unfold blank_row, len. destruct (Z.to_nat C) as [|k] eqn:Ek; cbn [length]; [lia|].
  rewrite repeat_length. lia.
Qed.

Lemma blank_row_ok : forall C, 0 <= C -> row_ok C (blank_row C) /\ abs_row (blank_row C) = repeat (mkA ASkip (-1)) (Z.to_nat C).
Proof.
  intros C HC. assert (L := blank_row_len C HC).
  split.
  - split; [assumption|]. split.
    + unfold WF. rewrite L. intros i Hi. unfold wf_cellf. rewrite blank_row_get by assumption.
      destruct (Z.eqb_spec i 0) as [->|Hne]; cbn [ck].
      * repeat split; try lia. { cbn. discriminate. }
        intros j Hj. rewrite blank_row_get by lia. destruct (Z.eqb_spec j 0); [lia|reflexivity].
      * split; [lia|]. exists CSkip, C. rewrite blank_row_get by lia. cbn. split; [reflexivity|lia].
    + intros i Hi. rewrite L in Hi. rewrite blank_row_get by assumption. destruct (i =? 0); cbn; lia.
  - apply abs_row_ext.
    + rewrite zlen_repeat, L. lia.
    + intros x Hx. rewrite L in Hx. rewrite zn_repeat by lia.
      unfold abs_cell. rewrite blank_row_get by assumption.
      destruct (Z.eqb_spec x 0) as [->|Hne]; cbn [ck cmask content_at]; [reflexivity|].
      rewrite blank_row_get by lia. cbn. reflexivity.
Qed.

Lemma map_repeat' : forall {A B} (f : A -> B) x n, map f (repeat x n) = repeat (f x) n.
Proof. induction n as [|n IH]; cbn [repeat map]; [reflexivity|now rewrite IH]. Qed.

Lemma blank_buffer : forall L C a,
  0 <= L -> 0 <= C ->
  clip_in L C (clip a) -> stack a = [] -> depth a = 0 ->
  let s := mkRB L C (repeat (blank_row C) (Z.to_nat L)) a in
  Inv s /\ abs_rb s = mkAst L C (repeat (repeat (mkA ASkip (-1)) (Z.to_nat C)) (Z.to_nat L)) a.
Proof.
  intros L C a HL HC Hc Hs Hd s.
  destruct (blank_row_ok C HC) as (RO & RA).
  split.
  - constructor; cbn [s cells rb_lines rb_cols aux]; auto.
    + rewrite zlen_repeat. lia.
    + intros y Hy. rewrite zn_repeat by lia. assumption.
    + rewrite Hs. constructor.
    + rewrite Hs, Hd. reflexivity.
  - unfold abs_rb. cbn [s cells rb_lines rb_cols aux]. f_equal.
    rewrite map_repeat'. now rewrite RA.
Qed.

Theorem reset_ok : forall s, Inv s -> Inv (reset s) /\ abs_rb (reset s) = a_reset (abs_rb s).
Proof.
  intros s I. unfold reset, a_reset.
  assert (HL : 0 <= rb_lines s) by (rewrite <- (inv_lines s I); apply zlen_nonneg).
  destruct (blank_buffer (rb_lines s) (rb_cols s) (ax_reset (aux s) (rb_lines s) (rb_cols s)) HL (inv_cols s I))
    as (I' & Ab); try reflexivity.
  { right. cbn. pose proof (inv_cols s I). lia. }
  split; [assumption|]. rewrite Ab. reflexivity.
Qed.

Theorem new_ok : forall L C, 0 <= L -> 0 <= C -> Inv (rb_new L C) /\ abs_rb (rb_new L C) = a_new L C.
Proof.
  intros L C HL HC. unfold rb_new, a_new.
  destruct (blank_buffer L C (aux_new L C) HL HC) as (I' & Ab); try reflexivity.
  { right. cbn. lia. }
  split; assumption.
Qed.

(* ---------------------------------------------------------------------------------- *)
(* operations that touch only the auxiliary state *)

Lemma set_aux_inv : forall s a,
  Inv s -> clip_in (rb_lines s) (rb_cols s) (clip a) ->
  Forall (fun f => f_pen_only f = true \/ clip_in (rb_lines s) (rb_cols s) (f_clip f)) (stack a) ->
  depth a = zlen (stack a) ->
  Inv (set_aux s a).
Proof. intros s a [I1 I2 I3 I4 I5 I6] Hc Hs Hd. constructor; cbn [set_aux cells rb_lines rb_cols aux]; auto. Qed.

Lemma ax_clip_in : forall L C a r, clip_in L C (clip a) -> clip_in L C (clip (ax_clip a r)).
Proof.
  intros L C a r H. unfold ax_clip.
  destruct (r_intersect (clip a) _) as [c|] eqn:E; cbn [clip ax_set_clip].
  - destruct H as [Hz|H].
    + (* an empty clip intersects nothing *)
      unfold r_intersect, bottom in E. cbn [top left lines cols] in E. rewrite Hz in E.
      destruct (Z.geb_spec (Z.max (top (clip a)) (top r + xl a)) (Z.min (top (clip a) + 0) (top r + xl a + lines r)));
        [discriminate|lia].
    + right. unfold r_intersect, bottom, right, init_bounded in E. cbn [top left lines cols] in E.
      destruct (Z.geb_spec (Z.max (top (clip a)) (top r + xl a)) (Z.min (top (clip a) + lines (clip a)) (top r + xl a + lines r)));
        [discriminate|].
      destruct (Z.geb_spec (Z.max (left (clip a)) (left r + xc a)) (Z.min (left (clip a) + cols (clip a)) (left r + xc a + cols r)));
        [discriminate|].
      inversion E; subst; cbn [top left lines cols]. lia.
  - left. reflexivity.
Qed.

(* ---------------------------------------------------------------------------------- *)
(* loops over lines and over line cells *)

Lemma gcell_a_paint : forall s r F y x,
  0 <= y < zlen (ag s) -> 0 <= x < zlen (zn (ag s) y []) ->
  gcell (ag (a_paint s r F)) y x =
  (let cell := gcell (ag s) y x in
   if target (a_aux s) r y x && (am cell =? -1) then mkA (F y x (ac cell)) (am cell) else cell).
Proof.
  intros s r F y x Hy Hx. unfold a_paint, gcell. cbn [ag set_ag].
  rewrite (zn_mapi _ (ag s) y [] []) by assumption.
  rewrite (zn_mapi _ _ x dacell dacell) by assumption. reflexivity.
Qed.

Lemma a_paint_shape : forall s r F,
  zlen (ag (a_paint s r F)) = zlen (ag s) /\
  (forall y, 0 <= y < zlen (ag s) -> zlen (zn (ag (a_paint s r F)) y []) = zlen (zn (ag s) y [])) /\
  a_aux (a_paint s r F) = a_aux s /\ a_lines (a_paint s r F) = a_lines s /\ a_cols (a_paint s r F) = a_cols s.
Proof.
  intros s r F. unfold a_paint. cbn [ag set_ag a_aux a_lines a_cols]. split; [now rewrite zlen_mapi|].
  split; [|auto]. intros y Hy. rewrite (zn_mapi _ (ag s) y [] []) by assumption. now rewrite zlen_mapi.
Qed.

(* painting the first row of a rectangle, then the rest, is painting the rectangle *)
Lemma a_paint_split_rows : forall A t l k c F,
  0 <= k ->
  a_paint (a_paint A (mkRect t l 1 c) F) (mkRect (t + 1) l k c) F = a_paint A (mkRect t l (k + 1) c) F.
Proof.
  intros A t l k c F Hk.
  pose (r1 := mkRect t l 1 c). pose (r2 := mkRect (t + 1) l k c). pose (r3 := mkRect t l (k + 1) c).
  fold r1 r2 r3.
  destruct (a_paint_shape A r1 F) as (S1 & S2 & S3 & S4 & S5).
  destruct (a_paint_shape (a_paint A r1 F) r2 F) as (T1 & T2 & T3 & T4 & T5).
  destruct (a_paint_shape A r3 F) as (U1 & U2 & U3 & U4 & U5).
  assert (E : ag (a_paint (a_paint A r1 F) r2 F) = ag (a_paint A r3 F)).
  { apply agrid_ext.
    - lia.
    - intros y Hy. rewrite T1, S1 in Hy. rewrite T2, S2, U2 by lia. reflexivity.
    - intros y x Hy Hx. rewrite T1, S1 in Hy. rewrite T2, S2 in Hx by lia.
      rewrite (gcell_a_paint (a_paint A r1 F) r2 F y x) by (rewrite ?S1, ?S2 by lia; lia).
      rewrite S3.
      rewrite (gcell_a_paint A r1 F y x) by lia.
      rewrite (gcell_a_paint A r3 F y x) by lia.
      cbv zeta.
      set (cell := gcell (ag A) y x).
      assert (T : target (a_aux A) r3 y x = target (a_aux A) r1 y x || target (a_aux A) r2 y x).
      { apply bool_eq_iff. rewrite orb_true_iff, !target_iff. unfold r1, r2, r3. cbn [top left lines cols]. lia. }
      assert (D : target (a_aux A) r1 y x = true -> target (a_aux A) r2 y x = false).
      { intros H1. destruct (target (a_aux A) r2 y x) eqn:H2; [|reflexivity]. exfalso.
        apply target_iff in H1. apply target_iff in H2. unfold r1, r2 in *. cbn [top left lines cols] in *. lia. }
      rewrite T.
      destruct (target (a_aux A) r1 y x) eqn:T1'; cbn [orb andb].
      + rewrite (D eq_refl). destruct (am cell =? -1) eqn:Em; cbn [andb am ac]; reflexivity.
      + destruct (target (a_aux A) r2 y x); cbn [andb]; reflexivity. }
  unfold a_paint in *. cbn [ag set_ag a_aux a_lines a_cols] in *. unfold set_ag. cbn [a_lines a_cols a_aux ag].
  f_equal. exact E.
Qed.

Lemma a_paint_nothing : forall A r F, lines r <= 0 \/ cols r <= 0 -> a_paint A r F = A.
Proof.
  intros A r F Hr. destruct A as [L C g a]. unfold a_paint, set_ag. cbn [ag a_aux a_lines a_cols]. f_equal.
  apply agrid_ext.
  - now rewrite zlen_mapi.
  - intros y Hy. rewrite zlen_mapi in Hy. rewrite (zn_mapi _ g y [] []) by assumption. now rewrite zlen_mapi.
  - intros y x Hy Hx. rewrite zlen_mapi in Hy. unfold gcell in *.
    rewrite (zn_mapi _ g y [] []) in * by assumption. rewrite zlen_mapi in Hx.
    rewrite (zn_mapi _ _ x dacell dacell) by assumption.
    destruct (target a r y x) eqn:T; [|reflexivity].
    apply target_iff in T. lia.
Qed.

Lemma a_paint_empty : forall A t l c F, a_paint A (mkRect t l 0 c) F = A.
Proof. intros. apply a_paint_nothing. left. cbn. lia. Qed.

(* the shape shared by skiprect / eraserect / clear *)
Theorem iter_rows_ok : forall (rowop : rb -> Z -> res rb) (F : auxst -> Z -> Z -> cellc -> cellc) l c n t s0 s,
  (forall st y, Inv st -> rb_lines st = rb_lines s0 -> rb_cols st = rb_cols s0 ->
      exists st', rowop st y = Ok st' /\ Inv st' /\
      aux st' = aux st /\ rb_lines st' = rb_lines st /\ rb_cols st' = rb_cols st /\
      abs_rb st' = a_paint (abs_rb st) (mkRect y l 1 c) (F (aux st))) ->
  Inv s -> rb_lines s = rb_lines s0 -> rb_cols s = rb_cols s0 ->
  exists s', iter_res n t rowop s = Ok s' /\ Inv s' /\
    aux s' = aux s /\ rb_lines s' = rb_lines s /\ rb_cols s' = rb_cols s /\
    abs_rb s' = a_paint (abs_rb s) (mkRect t l (Z.of_nat n) c) (F (aux s)).
Proof.
  intros rowop F l c n. induction n as [|n IH]; intros t s0 s Hop I HL HC.
  - exists s. cbn [iter_res]. conj_auto. cbn [Z.of_nat]. now rewrite a_paint_empty.
  - cbn [iter_res]. destruct (Hop s t I HL HC) as (s1 & E1 & I1 & A1 & L1 & C1 & Ab1).
    rewrite E1. cbn [bind].
    destruct (IH (t + 1) s0 s1 Hop I1 ltac:(congruence) ltac:(congruence)) as (s2 & E2 & I2 & A2 & L2 & C2 & Ab2).
    exists s2. split; [assumption|]. split; [assumption|].
    split; [congruence|]. split; [congruence|]. split; [congruence|].
    rewrite Ab2, Ab1, A1. rewrite Nat2Z.inj_succ. unfold Z.succ.
    apply a_paint_split_rows. lia.
Qed.

Lemma rect_of_nat_lines : forall A r F,
  a_paint A (mkRect (top r) (left r) (Z.of_nat (Z.to_nat (lines r))) (cols r)) F = a_paint A r F.
Proof.
  intros A r F. destruct (Z_le_gt_dec 0 (lines r)) as [Hpos|Hneg].
  - rewrite Z2Nat.id by assumption. destruct r; reflexivity.
  - replace (Z.of_nat (Z.to_nat (lines r))) with 0 by lia. rewrite a_paint_empty.
    symmetry. apply a_paint_nothing. left. lia.
Qed.

Theorem skiprect_ok : forall s r,
  Inv s -> exists s', skiprect s r = Ok s' /\ Inv s' /\
    aux s' = aux s /\ rb_lines s' = rb_lines s /\ rb_cols s' = rb_cols s /\
    abs_rb s' = a_skip (abs_rb s) r.
Proof.
  intros s r I. unfold skiprect, a_skip.
  destruct (iter_rows_ok (fun st y => skip st y (left r) (cols r)) (fun _ _ _ _ => ASkip)
              (left r) (cols r) (Z.to_nat (lines r)) (top r) s s) as (s' & E & I' & A1 & A2 & A3 & Ab); auto.
  { intros st y Ist _ _. apply skip_ok. assumption. }
  exists s'. conj_auto. rewrite Ab. apply rect_of_nat_lines.
Qed.

Theorem eraserect_ok : forall s r,
  Inv s -> exists s', eraserect s r = Ok s' /\ Inv s' /\
    aux s' = aux s /\ rb_lines s' = rb_lines s /\ rb_cols s' = rb_cols s /\
    abs_rb s' = a_erase (abs_rb s) r.
Proof.
  intros s r I. unfold eraserect, a_erase.
  destruct (iter_rows_ok (fun st y => erase st y (left r) (cols r)) (fun a _ _ _ => AErase (cur_pen a))
              (left r) (cols r) (Z.to_nat (lines r)) (top r) s s) as (s' & E & I' & A1 & A2 & A3 & Ab); auto.
  { intros st y Ist _ _. apply erase_ok. assumption. }
  exists s'. conj_auto. rewrite Ab. apply rect_of_nat_lines.
Qed.

Theorem clear_ok : forall s,
  Inv s -> exists s', clear s = Ok s' /\ Inv s' /\
    aux s' = aux s /\ rb_lines s' = rb_lines s /\ rb_cols s' = rb_cols s /\
    abs_rb s' = a_erase (abs_rb s) (mkRect 0 0 (rb_lines s) (rb_cols s)).
Proof.
  intros s I. unfold clear, a_erase.
  destruct (iter_rows_ok (fun st y => erase st y 0 (rb_cols st)) (fun a _ _ _ => AErase (cur_pen a))
              0 (rb_cols s) (Z.to_nat (rb_lines s)) 0 s s) as (s' & E & I' & A1 & A2 & A3 & Ab); auto.
  { intros st y Ist _ HC. destruct (erase_ok st y 0 (rb_cols st) Ist) as (st' & E1 & I1 & B1 & B2 & B3 & B4).
    exists st'. conj_auto. rewrite B4, HC. reflexivity. }
  exists s'. conj_auto. rewrite Ab.
  assert (HL : 0 <= rb_lines s) by (rewrite <- (inv_lines s I); apply zlen_nonneg).
  rewrite Z2Nat.id by assumption. reflexivity.
Qed.

(* hline / vline: a list of linecell calls *)
Theorem fold_linecells_ok : forall (pos : Z * Z -> Z * Z) l s,
  Inv s ->
  exists s', fold_res (fun st cb => linecell st (fst (pos cb)) (snd (pos cb)) (snd cb)) l s = Ok s' /\ Inv s' /\
    aux s' = aux s /\ rb_lines s' = rb_lines s /\ rb_cols s' = rb_cols s /\
    abs_rb s' = fold_left (fun acc cb => a_linecell acc (fst (pos cb)) (snd (pos cb)) (snd cb)) l (abs_rb s).
Proof.
  intros pos l. induction l as [|cb l IH]; intros s I.
  - exists s. cbn [fold_res fold_left]. conj_auto.
  - cbn [fold_res fold_left].
    destruct (linecell_ok s (fst (pos cb)) (snd (pos cb)) (snd cb) I) as (s1 & E1 & I1 & A1 & L1 & C1 & Ab1).
    rewrite E1. cbn [bind].
    destruct (IH s1 I1) as (s2 & E2 & I2 & A2 & L2 & C2 & Ab2).
    exists s2. split; [assumption|]. split; [assumption|].
    split; [congruence|]. split; [congruence|]. split; [congruence|].
    rewrite Ab2, Ab1. reflexivity.
Qed.

(* ---------------------------------------------------------------------------------- *)
(* every operation refines its specification *)

Lemma text_width_nonneg : forall t, text_valid t = true -> 0 <= text_width t.
Proof.
  intros t. unfold text_valid, text_width.
  assert (G : forall a, 0 <= a -> forallb (fun c => 0 <=? cpw c) t = true -> 0 <= fold_left (fun a c => a + cpw c) t a).
  { induction t as [|c t IH]; intros a Ha H; cbn [fold_left forallb] in *; [assumption|].
    apply andb_true_iff in H. destruct H as (H1 & H2). apply Z.leb_le in H1. apply IH; [lia|assumption]. }
  apply G. lia.
Qed.

Lemma set_vc_col_ok : forall s c, Inv s -> Inv (set_vc_col s c) /\ abs_rb (set_vc_col s c) = a_set_vc_col (abs_rb s) c.
Proof.
  intros s c I. split; [|reflexivity].
  unfold set_vc_col. apply set_aux_inv; auto; cbn [ax_set_vc clip stack depth].
  - apply (inv_clip s I). - apply (inv_stack s I). - apply (inv_depth s I).
Qed.

Ltac aux_only I :=
  eexists; eexists; split; [reflexivity|]; split;
  [apply set_aux_inv; [exact I| | | ]; cbn [ax_translate ax_set_xlate ax_setpen ax_set_pen ax_set_vc clip stack depth];
   first [apply (inv_clip _ I) | apply (inv_stack _ I) | apply (inv_depth _ I) | idtac]
  |split; reflexivity].

Theorem step_refines : forall s o,
  Inv s -> exists s' v, step s o = Ok (s', v) /\ Inv s' /\
    abs_rb s' = fst (astep (abs_rb s) o) /\ v = snd (astep (abs_rb s) o).
Proof.
  intros s o I. destruct o; cbn [step astep]; change (a_aux (abs_rb s)) with (aux s).
  - (* translate *) aux_only I.
  - (* clip *)
    eexists; eexists; split; [reflexivity|]. split; [|split; reflexivity].
    apply set_aux_inv; auto.
    + apply ax_clip_in. apply (inv_clip s I).
    + unfold ax_clip. destruct (r_intersect _ _); apply (inv_stack s I).
    + unfold ax_clip. destruct (r_intersect _ _); apply (inv_depth s I).
  - (* mask *) destruct (mask_ok s r I) as (I' & Ab). eexists; eexists; split; [reflexivity|]. rewrite Ab. auto.
  - (* setpen *) aux_only I.
  - (* goto *) aux_only I.
  - (* ungoto *) aux_only I.
  - (* save *)
    eexists; eexists; split; [reflexivity|]. split; [|split; reflexivity].
    apply set_aux_inv; auto; cbn [ax_save ax_set_stack clip stack depth].
    + apply (inv_clip s I).
    + constructor; [right; apply (inv_clip s I)|apply (inv_stack s I)].
    + rewrite (inv_depth s I). unfold zlen. cbn [length]. lia.
  - (* savepen *)
    eexists; eexists; split; [reflexivity|]. split; [|split; reflexivity].
    apply set_aux_inv; auto; cbn [ax_savepen ax_set_stack clip stack depth].
    + apply (inv_clip s I).
    + constructor; [left; reflexivity|apply (inv_stack s I)].
    + rewrite (inv_depth s I). unfold zlen. cbn [length]. lia.
  - (* restore *) destruct (restore_ok s I) as (I' & Ab). eexists; eexists; split; [reflexivity|]. rewrite Ab. auto.
  - (* reset *) destruct (reset_ok s I) as (I' & Ab). eexists; eexists; split; [reflexivity|]. rewrite Ab. auto.
  - (* skip_at *)
    destruct (skip_ok s l c n I) as (s' & E & I' & A1 & A2 & A3 & Ab). rewrite E. cbn [bind].
    eexists; eexists; split; [reflexivity|]. rewrite Ab. auto.
  - (* skip *)
    destruct (vc_set (aux s)); cbn [negb]; [|eexists; eexists; split; [reflexivity|]; auto].
    destruct (skip_ok s (vc_line (aux s)) (vc_col (aux s)) n I) as (s' & E & I' & A1 & A2 & A3 & Ab). rewrite E. cbn [bind].
    destruct (set_vc_col_ok s' (vc_col (aux s) + n) I') as (I'' & Ab'').
    eexists; eexists; split; [reflexivity|]. rewrite Ab'', Ab. auto.
  - (* skip_to *)
    destruct (vc_set (aux s)); cbn [negb]; [|eexists; eexists; split; [reflexivity|]; auto].
    destruct (Z.ltb_spec (vc_col (aux s)) c).
    + destruct (skip_ok s (vc_line (aux s)) (vc_col (aux s)) (c - vc_col (aux s)) I) as (s' & E & I' & A1 & A2 & A3 & Ab).
      rewrite E. cbn [bind].
      destruct (set_vc_col_ok s' c I') as (I'' & Ab'').
      eexists; eexists; split; [reflexivity|]. rewrite Ab'', Ab. auto.
    + cbn [bind]. destruct (set_vc_col_ok s c I) as (I'' & Ab'').
      eexists; eexists; split; [reflexivity|]. rewrite Ab''. split; [assumption|]. split; [|reflexivity].
      cbn [fst]. f_equal. symmetry. apply a_paint_nothing. right. cbn. lia.
  - (* skiprect *)
    destruct (skiprect_ok s r I) as (s' & E & I' & A1 & A2 & A3 & Ab). rewrite E. cbn [bind].
    eexists; eexists; split; [reflexivity|]. rewrite Ab. auto.
  - (* text_at *)
    destruct (put_string_ok s l c t I) as (s' & v & E & I' & A1 & A2 & A3 & Ev & Ab). rewrite E. cbn [bind].
    eexists; eexists; split; [reflexivity|]. split; [assumption|].
    rewrite Ab, Ev. destruct (text_valid t); cbn [negb fst snd]; auto.
  - (* text *)
    destruct (vc_set (aux s)); cbn [negb]; [|eexists; eexists; split; [reflexivity|]; auto].
    destruct (put_string_ok s (vc_line (aux s)) (vc_col (aux s)) t I) as (s' & v & E & I' & A1 & A2 & A3 & Ev & Ab).
    rewrite E. cbn [bind].
    destruct (text_valid t) eqn:EV; cbn [negb].
    + pose proof (text_width_nonneg t EV). subst v.
      destruct (Z.ltb_spec (text_width t) 0); [lia|].
      destruct (set_vc_col_ok s' (vc_col (aux s) + text_width t) I') as (I'' & Ab'').
      eexists; eexists; split; [reflexivity|]. rewrite Ab'', Ab. auto.
    + subst v. cbn [Z.ltb Z.compare]. eexists; eexists; split; [reflexivity|]. rewrite Ab. auto.
  - (* erase_at *)
    destruct (erase_ok s l c n I) as (s' & E & I' & A1 & A2 & A3 & Ab). rewrite E. cbn [bind].
    eexists; eexists; split; [reflexivity|]. rewrite Ab. auto.
  - (* erase *)
    destruct (vc_set (aux s)); cbn [negb]; [|eexists; eexists; split; [reflexivity|]; auto].
    destruct (erase_ok s (vc_line (aux s)) (vc_col (aux s)) n I) as (s' & E & I' & A1 & A2 & A3 & Ab). rewrite E. cbn [bind].
    destruct (set_vc_col_ok s' (vc_col (aux s) + n) I') as (I'' & Ab'').
    eexists; eexists; split; [reflexivity|]. rewrite Ab'', Ab. auto.
  - (* erase_to *)
    destruct (vc_set (aux s)); cbn [negb]; [|eexists; eexists; split; [reflexivity|]; auto].
    destruct (Z.ltb_spec (vc_col (aux s)) c).
    + destruct (erase_ok s (vc_line (aux s)) (vc_col (aux s)) (c - vc_col (aux s)) I) as (s' & E & I' & A1 & A2 & A3 & Ab).
      rewrite E. cbn [bind].
      destruct (set_vc_col_ok s' c I') as (I'' & Ab'').
      eexists; eexists; split; [reflexivity|]. rewrite Ab'', Ab. auto.
    + cbn [bind]. destruct (set_vc_col_ok s c I) as (I'' & Ab'').
      eexists; eexists; split; [reflexivity|]. rewrite Ab''. split; [assumption|]. split; [|reflexivity].
      cbn [fst]. f_equal. symmetry. apply a_paint_nothing. right. cbn. lia.
  - (* eraserect *)
    destruct (eraserect_ok s r I) as (s' & E & I' & A1 & A2 & A3 & Ab). rewrite E. cbn [bind].
    eexists; eexists; split; [reflexivity|]. rewrite Ab. auto.
  - (* clear *)
    destruct (clear_ok s I) as (s' & E & I' & A1 & A2 & A3 & Ab). rewrite E. cbn [bind].
    eexists; eexists; split; [reflexivity|]. rewrite Ab. auto.
  - (* char_at *)
    destruct (put_char_ok s l c cp I) as (s' & v & E & I' & A1 & A2 & A3 & Ev & Ab). rewrite E. cbn [bind].
    eexists; eexists; split; [reflexivity|]. rewrite Ab. auto.
  - (* char *)
    destruct (vc_set (aux s)); cbn [negb]; [|eexists; eexists; split; [reflexivity|]; auto].
    destruct (put_char_ok s (vc_line (aux s)) (vc_col (aux s)) cp I) as (s' & v & E & I' & A1 & A2 & A3 & Ev & Ab).
    rewrite E. cbn [bind].
    destruct (text_valid [cp]) eqn:EV; cbn [andb].
    + subst v. destruct (Z.gtb_spec (cpw cp) 0) as [Hp|Hz].
      * destruct (Z.ltb_spec 0 (cpw cp)); [|lia].
        destruct (set_vc_col_ok s' (vc_col (aux s) + cpw cp) I') as (I'' & Ab'').
        eexists; eexists; split; [reflexivity|]. rewrite Ab'', Ab. auto.
      * destruct (Z.ltb_spec 0 (cpw cp)); [lia|].
        eexists; eexists; split; [reflexivity|]. split; [assumption|]. split; [|reflexivity].
        cbn [fst]. rewrite Ab. unfold a_char. rewrite EV. cbn [negb].
        assert (Hw : 0 <= cpw cp).
        { unfold text_valid in EV. cbn [forallb] in EV. apply andb_true_iff in EV. destruct EV as (H1 & _). now apply Z.leb_le in H1. }
        destruct (Z.eqb_spec (cpw cp) 1); [lia|].
        unfold a_text. apply a_paint_nothing. right. unfold row_rect, text_width. cbn [cols fold_left]. lia.
    + subst v. cbn [Z.gtb Z.compare]. eexists; eexists; split; [reflexivity|]. split; [assumption|]. split; [|reflexivity].
      cbn [fst]. rewrite Ab. unfold a_char. rewrite EV. reflexivity.
  - (* hline *)
    unfold hline_at.
    destruct (fold_linecells_ok (fun cb => (l, fst cb)) (hline_bits c1 c2 style caps) s I) as (s' & E & I' & A1 & A2 & A3 & Ab).
    cbn [fst snd] in E, Ab. rewrite E. cbn [bind].
    eexists; eexists; split; [reflexivity|]. rewrite Ab. auto.
  - (* vline *)
    unfold vline_at.
    destruct (fold_linecells_ok (fun lb => (fst lb, c)) (vline_bits l1 l2 style caps) s I) as (s' & E & I' & A1 & A2 & A3 & Ab).
    cbn [fst snd] in E, Ab. rewrite E. cbn [bind].
    eexists; eexists; split; [reflexivity|]. rewrite Ab. auto.
Qed.

(* ... and so does every program *)
Theorem run_refines : forall ops s,
  Inv s -> exists s' v, run s ops = Ok (s', v) /\ Inv s' /\
    abs_rb s' = fst (arun (abs_rb s) ops) /\ v = snd (arun (abs_rb s) ops).
Proof.
  induction ops as [|o ops IH]; intros s I; cbn [run arun].
  - exists s, []. auto.
  - destruct (step_refines s o I) as (s1 & v1 & E1 & I1 & Ab1 & Ev1). rewrite E1. cbn [bind].
    destruct (IH s1 I1) as (s2 & v2 & E2 & I2 & Ab2 & Ev2). rewrite E2. cbn [bind].
    exists s2, (v1 ++ v2). split; [reflexivity|]. split; [assumption|].
    destruct (astep (abs_rb s) o) as [a1 w1]. cbn [fst snd] in *. subst a1 w1.
    destruct (arun (abs_rb s1) ops) as [a2 w2]. cbn [fst snd] in *. subst. auto.
Qed.
