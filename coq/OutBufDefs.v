(* OutBufDefs.v -- executable model of the output path of /repo/src/term.c:
   tickit_term_flush (895-907), write_str (909-933), tickit_termdrv_write_str,
   write_vstrf / tickit_termdrv_write_strf (940-972), tickit_term_set_output_buffer
   (553-563), tickit_term_set_output_func, tickit_term_set_output_fd.
   Definitions only (proofs are in OutBufProofs.v).

   State of the model = the fields of TickitTerm the output path reads and writes:
     cap      = outbuffer_len; outbuffer != NULL iff cap > 0 (set_output_buffer: `len ?
                malloc(len) : NULL`, malloc assumed not to fail);
     pending  = outbuffer[0 .. outbuffer_cur);
     has_func = (outfunc != NULL);   has_fd = (outfd != -1).
   Bytes are Z in 0..255.  What is *delivered* is a list of chunks, each tagged with the
   sink that received it: one per call of the output function, or one per write(2) on the
   descriptor. *)
From Coq Require Import ZArith List Bool.
Import ListNotations.
Local Open Scope Z_scope.

Definition byte := Z.
Definition chunk := list byte.

(* where a chunk goes *)
Inductive sink := SFunc | SFd.
Definition tchunk := (sink * chunk)%type.

Record obuf := mkOB { cap : Z; pending : list byte; has_func : bool; has_fd : bool }.

Definition with_pending (s : obuf) (p : list byte) : obuf :=
  mkOB (cap s) p (has_func s) (has_fd s).

(* results of totalised functions: a read outside the caller's string is a Fault, fuel
   exhaustion is OutOfFuel -- neither looks like a normal value *)
Inductive result (A : Type) : Type :=
| Ok (a : A)
| Fault
| OutOfFuel.
Arguments Ok {A} a.
Arguments Fault {A}.
Arguments OutOfFuel {A}.

Definition zlen {A} (l : list A) : Z := Z.of_nat (length l).

(* `if(tt->outfunc) call outfunc(tt, p, n, user); else if(tt->outfd != -1) write(tt->outfd, p, n);`
   This preference -- the function over the descriptor -- is written out at TWO places in
   term.c: in tickit_term_flush and in the unbuffered branch of write_str; both are modelled
   by this one definition (a terminal may have both an output function and a descriptor).
   A write(2) of zero bytes transfers nothing, so it is no chunk. *)
Definition deliver (s : obuf) (c : chunk) : list tchunk :=
  if has_func s then [(SFunc, c)]
  else if has_fd s then (match c with [] => [] | _ :: _ => [(SFd, c)] end)
  else [].

(* the sink that output goes to in the present configuration *)
Definition active (s : obuf) : option sink :=
  if has_func s then Some SFunc else if has_fd s then Some SFd else None.

(* tickit_term_flush *)
Definition flush (s : obuf) : obuf * list tchunk :=
  match pending s with
  | [] => (s, [])                                       (* if(outbuffer_cur == 0) return; *)
  | _ :: _ => (with_pending s [], deliver s (pending s))   (* deliver; outbuffer_cur = 0 *)
  end.

(* strlen: index of the first NUL; None = no NUL inside the caller's memory *)
Fixpoint c_strlen (mem : list byte) : option nat :=
  match mem with
  | [] => None
  | b :: r => if b =? 0 then Some O else option_map S (c_strlen r)
  end.

(* the `while(len > 0)` loop of write_str, buffered branch.  [str] is exactly the
   remaining len bytes; [out] is the list of chunks delivered so far in REVERSE order. *)
Fixpoint write_loop (fuel : nat) (s : obuf) (out : list tchunk) (str : list byte)
  : result (obuf * list tchunk) :=
  match str with
  | [] => Ok (s, out)
  | _ :: _ =>
    match fuel with
    | O => OutOfFuel
    | S fuel' =>
      let len := zlen str in
      let space := cap s - zlen (pending s) in      (* size_t space = outbuffer_len - outbuffer_cur *)
      if space <? 0 then Fault else                  (* would wrap: memcpy past the buffer *)
      let space := if len <? space then len else space in
      let n := Z.to_nat space in
      let s1 := with_pending s (pending s ++ firstn n str) in    (* memcpy; outbuffer_cur += space *)
      let str' := skipn n str in                                  (* str += space; len -= space *)
      if zlen (pending s1) >=? cap s
      then let '(s2, d) := flush s1 in write_loop fuel' s2 (rev_append d out) str'
      else write_loop fuel' s1 out str'
    end
  end.

(* the bytes a call write_str(str, len) asks for: `if(len == 0) len = strlen(str);`.
   [mem] is the caller's memory from [str] on.  None = the request reads outside it
   (or len is not a size_t). *)
Definition req_bytes (mem : list byte) (len : Z) : option (list byte) :=
  if len =? 0 then
    match c_strlen mem with Some n => Some (firstn n mem) | None => None end
  else if (0 <? len) && (len <=? zlen mem) then Some (firstn (Z.to_nat len) mem)
  else None.

(* write_str *)
Definition write_str (s : obuf) (mem : list byte) (len : Z) : result (obuf * list tchunk) :=
  match req_bytes mem len with
  | None => Fault
  | Some data =>
    if 0 <? cap s                                        (* if(tt->outbuffer) *)
    then match write_loop (S (length data)) s [] data with
         | Ok (s', out) => Ok (s', rev out)
         | Fault => Fault
         | OutOfFuel => OutOfFuel
         end
    else Ok (s, deliver s data)                          (* one call with the whole string *)
  end.

(* write_vstrf: [fmted] is what vsnprintf produces (formatting itself is not modelled);
   both the 64-byte stack buffer and the tmpbuffer are NUL-terminated after it, and
   write_str is called with len = strlen-independent return value of vsnprintf. *)
Definition write_strf (s : obuf) (fmted : list byte) : result (obuf * list tchunk) :=
  write_str s (fmted ++ [0]) (zlen fmted).

(* tickit_term_set_output_buffer: whatever is pending is discarded *)
Definition set_output_buffer (s : obuf) (len : Z) : obuf :=
  mkOB len [] (has_func s) (has_fd s).

(* tickit_term_set_output_buffer(tt, len) whose malloc(len) FAILS (len too large): the C
   stores outbuffer = NULL, outbuffer_len = len, outbuffer_cur = 0.  write_str tests the
   pointer, so the terminal is unbuffered; outbuffer_len is read only inside the buffered
   branch and by nobody while the pointer is NULL.  In this model cap stands for "outbuffer_len
   of an existing buffer" (outbuffer != NULL iff cap > 0), hence cap = 0. *)
Definition set_output_buffer_failed (s : obuf) (len : Z) : obuf :=
  mkOB 0 [] (has_func s) (has_fd s).

(* tickit_term_teardown: `if(driver && state != UNSTARTED) { driver->stop; state = UNSTARTED; }
   if(termkey) termkey_stop; tickit_term_flush(tt);`.  The UNSTARTED/STARTING state only decides
   whether the driver's optional start/stop hooks are called; the harness' driver has neither and
   there is no termkey instance, so what remains is the flush -- which must happen whatever the
   state is. *)
Definition teardown (s : obuf) : obuf * list tchunk := flush s.

(* tickit_term_destroy (the last tickit_term_unref): tickit_term_teardown, the driver's destroy,
   then its own tickit_term_flush; the output function's final call with bytes == NULL is not a
   chunk *)
Definition destroy (s : obuf) : obuf * list tchunk :=
  let '(s1, d1) := teardown s in
  let '(s2, d2) := flush s1 in
  (s2, d1 ++ d2).

(* tickit_term_set_output_func: [b] = a function is given (false: NULL, the function is
   removed).  The old function gets one call with bytes == NULL, which is not a chunk;
   pending bytes stay in the buffer. *)
Definition set_output_func (s : obuf) (b : bool) : obuf := mkOB (cap s) (pending s) b (has_fd s).
(* tickit_term_set_output_fd: [b] = a valid descriptor is given (false: -1) *)
Definition set_output_fd (s : obuf) (b : bool) : obuf := mkOB (cap s) (pending s) (has_func s) b.

Inductive op :=
| OWrite (mem : list byte) (len : Z)   (* tickit_termdrv_write_str(ttd, mem, len) *)
| OWritef (fmted : list byte)          (* tickit_termdrv_write_strf(ttd, fmt, ...) producing fmted *)
| OFlush
| OTeardown                            (* tickit_term_teardown *)
| ODestroy                             (* the last tickit_term_unref *)
| OSetBuf (n : Z)
| OSetBufFail (n : Z)                  (* tickit_term_set_output_buffer(tt, n), malloc(n) fails *)
| OSetFunc (b : bool)
| OSetFd (b : bool).

Definition step (s : obuf) (o : op) : result (obuf * list tchunk) :=
  match o with
  | OWrite mem len => write_str s mem len
  | OWritef f => write_strf s f
  | OFlush => Ok (flush s)
  | OTeardown => Ok (teardown s)
  | ODestroy => Ok (destroy s)
  | OSetBuf n => if n <? 0 then Fault else Ok (set_output_buffer s n, [])
  | OSetBufFail n => if n <? 0 then Fault else Ok (set_output_buffer_failed s n, [])
  | OSetFunc b => Ok (set_output_func s b, [])
  | OSetFd b => Ok (set_output_fd s b, [])
  end.

(* a whole history; the result lists the chunks delivered by each operation *)
Fixpoint run (s : obuf) (ops : list op) : result (obuf * list (list tchunk)) :=
  match ops with
  | [] => Ok (s, [])
  | o :: r =>
    match step s o with
    | Ok (s1, d) =>
      match run s1 r with
      | Ok (s2, ds) => Ok (s2, d :: ds)
      | Fault => Fault
      | OutOfFuel => OutOfFuel
      end
    | Fault => Fault
    | OutOfFuel => OutOfFuel
    end
  end.

(* a freshly built terminal: no buffer, nothing pending *)
Definition init (func fd : bool) : obuf := mkOB 0 [] func fd.
