(* WinFuelTotalScroll.v -- progress for the three scroll operations: with enough fuel the
   rectangle-set loops of win_scroll do not fault; with it the totality theorems of
   WinFuelTotal.v hold for histories over the WHOLE alphabet (no hypothesis fuel_alpha). *)
From Coq Require Import ZArith List Bool Lia ZifyBool.
From Tickit Require Import RectDefs RectProofs WinRectSet WinRectSetProofs WinDefs WinSpec WinHist
  WinExposeProofs WinLogDisjoint WinFlushProofs WinScreenInv WinLocA WinLocTree WinPreserve WinTermResize
  WinHistory WinScrollRegion WinScrollInv WinHistoryFull WinScrollFold WinScrollOps
  WinFuelMono WinFuelTotal WinFuelScroll.
From Tickit Require RectSetDefs RectSetTerm RectSetTermSub RectSetQueries.
Import ListNotations.
Local Open Scope Z_scope.

(* ------------------------------------------------------------------------------------ *)
(* STEP 1: the rectangle-set loops terminate                                             *)

Lemma rs_add_ev (s : rectset) q : Inv s -> nonempty q ->
  exists f0 (s' : rectset), Inv s' /\ forall f', (f0 <= f')%nat -> rs_add f' s q = Some s'.
Proof.
  intros Hi Hq. destruct (RectSetTerm.rs_add_terminates s q Hi Hq) as [f0 [s' E]].
  assert (E' : rs_add f0 s q = Some s') by exact E.
  exists f0, s'. split.
  - exact (proj1 (rs_add_inv _ _ _ _ Hi Hq E')).
  - intros f' Hle. exact (rs_add_mono _ _ _ _ _ E' Hle).
Qed.

Lemma rs_subtract_ev (s : rectset) hole : Inv s -> nonempty hole ->
  exists f0 (s' : rectset), Inv s' /\ forall f', (f0 <= f')%nat -> rs_subtract f' s hole = Some s'.
Proof.
  intros Hi Hq. destruct (RectSetTermSub.rs_subtract_terminates s hole Hi Hq) as [f0 [s' E]].
  assert (E' : rs_subtract f0 s hole = Some s') by exact E.
  exists f0, s'. split.
  - exact (proj1 (rs_subtract_exact _ _ _ _ Hi Hq E')).
  - intros f' Hle. exact (rs_subtract_mono _ _ _ _ _ E' Hle).
Qed.

Lemma rs_add_list_ev (s : rectset) l : Inv s -> Forall nonempty l ->
  exists f0 (s' : rectset), Inv s' /\ forall f', (f0 <= f')%nat -> rs_add_list f' s l = Some s'.
Proof.
  intros Hi Hl. destruct (RectSetTermSub.add_list_terminates l s Hi Hl) as [f0 [s' E]].
  assert (E' : rs_add_list f0 s l = Some s') by exact E.
  exists f0, s'. split.
  - exact (proj1 (rs_add_list_inv _ _ _ _ Hi Hl E')).
  - intros f' Hle. exact (rs_add_list_mono _ _ _ _ _ E' Hle).
Qed.

(* a visible child has a non-empty rectangle *)
Definition kid_ok (c : wtree) : Prop := w_vis (t_info c) = true -> nonempty (w_rect (t_info c)).

Lemma rs_sub_vis_cons f s c l :
  rs_sub_vis f (Some s) (c :: l) =
  rs_sub_vis f (if w_vis (t_info c) then rs_subtract f s (w_rect (t_info c)) else Some s) l.
Proof. reflexivity. Qed.

Lemma rs_sub_vis_ev : forall l (s : rectset), Inv s -> Forall kid_ok l ->
  exists f0 (s' : rectset), Inv s' /\ forall f', (f0 <= f')%nat -> rs_sub_vis f' (Some s) l = Some s'.
Proof.
  induction l as [|c l IH]; intros s Hi Hl.
  - exists 0%nat, s. split; [exact Hi|]. intros f' _. reflexivity.
  - inversion Hl as [|c0 l0 Hc Hl']; subst.
    destruct (w_vis (t_info c)) eqn:Ev.
    + destruct (rs_subtract_ev s (w_rect (t_info c)) Hi (Hc Ev)) as [f1 [s1 [Hi1 H1]]].
      destruct (IH s1 Hi1 Hl') as [f2 [s2 [Hi2 H2]]].
      exists (Nat.max f1 f2), s2. split; [exact Hi2|]. intros f' Hle.
      rewrite rs_sub_vis_cons, Ev. rewrite (H1 f') by lia. apply H2. lia.
    + destruct (IH s Hi Hl') as [f2 [s2 [Hi2 H2]]].
      exists f2, s2. split; [exact Hi2|]. intros f' Hle.
      rewrite rs_sub_vis_cons, Ev. apply H2. exact Hle.
Qed.

Definition clip_step (f : nat) (bounds : rect) (acc : option rectset) (x : rect) : option rectset :=
  match acc with
  | None => None
  | Some s' => match r_intersect x bounds with
               | Some y => rs_add f s' y
               | None => Some s'
               end
  end.

Lemma rs_clip_unfold f s bounds : rs_clip f s bounds = fold_left (clip_step f bounds) s (Some []).
Proof. reflexivity. Qed.

Lemma clip_fold_ev bounds : forall s (a : rectset), Inv a ->
  exists f0 (s' : rectset), forall f', (f0 <= f')%nat -> fold_left (clip_step f' bounds) s (Some a) = Some s'.
Proof.
  induction s as [|x s IH]; intros a Hi.
  - exists 0%nat, a. intros f' _. reflexivity.
  - destruct (r_intersect x bounds) as [y|] eqn:Ey.
    + destruct (rs_add_ev a y Hi (proj1 (intersect_some _ _ _ Ey))) as [f1 [a1 [Hi1 H1]]].
      destruct (IH a1 Hi1) as [f2 [s2 H2]].
      exists (Nat.max f1 f2), s2. intros f' Hle. cbn [fold_left]. unfold clip_step at 2.
      rewrite Ey. rewrite (H1 f') by lia. apply H2. lia.
    + destruct (IH a Hi) as [f2 [s2 H2]].
      exists f2, s2. intros f' Hle. cbn [fold_left]. unfold clip_step at 2.
      rewrite Ey. apply H2. exact Hle.
Qed.

Lemma rs_clip_ev (s : rectset) bounds :
  exists f0 (s' : rectset), Inv s' /\ forall f', (f0 <= f')%nat -> rs_clip f' s bounds = Some s'.
Proof.
  destruct (clip_fold_ev bounds s [] inv_nil) as [f0 [s' H]].
  exists f0, s'. split.
  - pose proof (H f0 (le_n _)) as E. rewrite <- rs_clip_unfold in E.
    exact (proj1 (rs_clip_inv_any _ _ _ E)).
  - intros f' Hle. rewrite rs_clip_unfold. apply H. exact Hle.
Qed.

Lemma kids_before_forall (P : wtree -> Prop) id : forall l, Forall P l -> Forall P (kids_before id l).
Proof.
  induction l as [|c l IH]; intros H; [constructor|]. cbn [kids_before].
  inversion H; subst. destruct (t_id c =? id); [constructor|]. constructor; [assumption|apply IH; assumption].
Qed.

Lemma scroll_region_cons2 cfg f w p rest v a b :
  scroll_region cfg f (w :: p :: rest) v a b =
  if negb (w_vis (t_info w)) then SInvisible else
  match rs_sub_vis f (Some (rs_translate v (top (w_rect (t_info w))) (left (w_rect (t_info w)))))
                   (kids_before (w_id (t_info w)) (t_kids p)) with
  | None => SFault
  | Some v2 =>
    match (if d_scroll_noclip cfg then Some v2 else rs_clip f v2 (selfrect (t_info p))) with
    | None => SFault
    | Some v3 => scroll_region cfg f (p :: rest) v3 (a + top (w_rect (t_info w))) (b + left (w_rect (t_info w)))
    end
  end.
Proof. reflexivity. Qed.

(* the upward loop: with enough fuel it has a result, the same for every larger amount, and
   the region it returns satisfies the invariant *)
Lemma scroll_region_ev cfg : forall chain (v : rectset) a b,
  Inv v -> Forall (fun p => Forall kid_ok (t_kids p)) chain ->
  exists f0 R, R <> SFault /\ (forall V x y, R = SRegion V x y -> Inv V) /\
    forall f', (f0 <= f')%nat -> scroll_region cfg f' chain v a b = R.
Proof.
  induction chain as [|w rest IH]; intros v a b Hi Hk.
  - exists 0%nat, (SRegion v a b). split; [discriminate|]. split; [|intros; reflexivity].
    intros V x y E. injection E as <- _ _. exact Hi.
  - destruct rest as [|p rest'].
    + cbn [scroll_region]. destruct (negb (w_vis (t_info w))).
      * exists 0%nat, SInvisible. split; [discriminate|]. split; [discriminate|reflexivity].
      * exists 0%nat, (SRegion v a b). split; [discriminate|]. split; [|intros; reflexivity].
        intros V x y E. injection E as <- _ _. exact Hi.
    + inversion Hk as [|w0 r0 Hw Hrest]; subst.
      destruct (negb (w_vis (t_info w))) eqn:Ev.
      * exists 0%nat, SInvisible. split; [discriminate|]. split; [discriminate|].
        intros f' _. rewrite scroll_region_cons2, Ev. reflexivity.
      * inversion Hrest as [|p0 r1 Hp Hrest']; subst.
        destruct (rs_sub_vis_ev (kids_before (w_id (t_info w)) (t_kids p))
                    (rs_translate v (top (w_rect (t_info w))) (left (w_rect (t_info w))))
                    (rs_translate_inv _ _ _ Hi) (kids_before_forall _ _ _ Hp)) as [f1 [v2 [Hi2 H2]]].
        destruct (d_scroll_noclip cfg) eqn:Ec.
        -- destruct (IH v2 (a + top (w_rect (t_info w))) (b + left (w_rect (t_info w))) Hi2 Hrest)
             as [f3 [R [HR [HRi H3]]]].
           exists (Nat.max f1 f3), R. split; [exact HR|]. split; [exact HRi|].
           intros f' Hle. rewrite scroll_region_cons2, Ev, Ec. rewrite (H2 f') by lia. apply H3. lia.
        -- destruct (rs_clip_ev v2 (selfrect (t_info p))) as [f2 [v3 [Hi3 H3c]]].
           destruct (IH v3 (a + top (w_rect (t_info w))) (b + left (w_rect (t_info w))) Hi3 Hrest)
             as [f3 [R [HR [HRi H3]]]].
           exists (Nat.max f1 (Nat.max f2 f3)), R. split; [exact HR|]. split; [exact HRi|].
           intros f' Hle. rewrite scroll_region_cons2, Ev, Ec. rewrite (H2 f') by lia.
           rewrite (H3c f') by lia. apply H3. lia.
Qed.

Definition sh_step (f : nat) (rc : rect) (down rightw : Z) (acc : option rectset) (x : rect)
  : option rectset :=
  match acc with
  | None => None
  | Some s =>
    if (bottom x <? top rc) || (top x >? bottom rc) || (right x <? left rc) || (left x >? right rc)
    then rs_add f s x
    else
      match rs_add_list f s (r_subtract x rc) with
      | None => None
      | Some s1 =>
        match r_intersect x rc with
        | None => Some s1
        | Some ins =>
          match r_intersect (r_translate ins (- down) (- rightw)) rc with
          | None => Some s1
          | Some y => rs_add f s1 y
          end
        end
      end
  end.

Lemma shift_damage_unfold_f f dmg rc d r :
  shift_damage f dmg rc d r = fold_left (sh_step f rc d r) dmg (Some []).
Proof. reflexivity. Qed.

Lemma sh_step_ev rc d r (a : rectset) x : Inv a -> nonempty x -> nonempty rc ->
  exists f0 (a' : rectset), Inv a' /\ forall f', (f0 <= f')%nat -> sh_step f' rc d r (Some a) x = Some a'.
Proof.
  intros Hi Hx Hrc. unfold sh_step.
  destruct ((bottom x <? top rc) || (top x >? bottom rc) || (right x <? left rc) || (left x >? right rc)).
  - exact (rs_add_ev a x Hi Hx).
  - destruct (subtract_ok x rc Hx Hrc) as [_ [HneL _]].
    destruct (rs_add_list_ev a (r_subtract x rc) Hi HneL) as [f1 [a1 [Hi1 H1]]].
    destruct (r_intersect x rc) as [ins|] eqn:Eins.
    2:{ exists f1, a1. split; [exact Hi1|]. intros f' Hle. rewrite (H1 f' Hle). reflexivity. }
    destruct (r_intersect (r_translate ins (- d) (- r)) rc) as [y|] eqn:Ey.
    2:{ exists f1, a1. split; [exact Hi1|]. intros f' Hle. rewrite (H1 f' Hle). reflexivity. }
    destruct (rs_add_ev a1 y Hi1 (proj1 (intersect_some _ _ _ Ey))) as [f2 [a2 [Hi2 H2]]].
    exists (Nat.max f1 f2), a2. split; [exact Hi2|]. intros f' Hle.
    rewrite (H1 f') by lia. apply H2. lia.
Qed.

Lemma sh_fold_ev rc d r : nonempty rc -> forall dmg (a : rectset), Inv a -> all_nonempty dmg ->
  exists f0 (s' : rectset), forall f', (f0 <= f')%nat -> fold_left (sh_step f' rc d r) dmg (Some a) = Some s'.
Proof.
  intros Hrc. induction dmg as [|x dmg IH]; intros a Hi Hne.
  - exists 0%nat, a. intros f' _. reflexivity.
  - inversion Hne as [|x0 l0 Hx Hne']; subst.
    destruct (sh_step_ev rc d r a x Hi Hx Hrc) as [f1 [a1 [Hi1 H1]]].
    destruct (IH a1 Hi1 Hne') as [f2 [s2 H2]].
    exists (Nat.max f1 f2), s2. intros f' Hle. cbn [fold_left].
    rewrite (H1 f') by lia. apply H2. lia.
Qed.

Lemma shift_damage_ev (dmg : rectset) rc d r : all_nonempty dmg -> nonempty rc ->
  exists f0 (s' : rectset), Inv s' /\ forall f', (f0 <= f')%nat -> shift_damage f' dmg rc d r = Some s'.
Proof.
  intros Hne Hrc. destruct (sh_fold_ev rc d r Hrc dmg [] inv_nil Hne) as [f0 [s' H]].
  exists f0, s'. split.
  - pose proof (H f0 (le_n _)) as E. rewrite <- shift_damage_unfold_f in E.
    exact (proj1 (shift_damage_inv _ _ _ _ _ Hne Hrc E)).
  - intros f' Hle. rewrite shift_damage_unfold_f. apply H. exact Hle.
Qed.

(* ------------------------------------------------------------------------------------ *)
(* STEP 2: one scrolled rectangle, the loop over the region, win_scroll                  *)

Lemma two_exposes_ev st y1 r1 y2 r2 :
  Inv (r_damage st) -> r_fault st = false ->
  exists f0, forall f', (f0 <= f')%nat ->
    r_fault (win_expose (win_expose (with_fuel f' st) y1 (Some r1)) y2 (Some r2)) = false.
Proof.
  intros Hi Hf. destruct (two_exposes_ex st y1 r1 y2 r2 Hi Hf) as [f0 H].
  exists f0. intros f' Hle.
  change (with_fuel f' st) with (with_fuel f' (with_fuel f0 st)).
  rewrite (two_exposes_wf (with_fuel f0 st) _ _ _ _ f' H Hle). exact H.
Qed.

Definition scroll_tail (id : Z) (orig rc : rect) (down rightw : Z) (st1 : root) (tm1 : term) (ret : bool)
  : root * term * bool * bool :=
  let '(tm2, acc') := term_scroll tm1 rc down rightw in
  if acc' then
    let st2 :=
      if down >? 0 then win_expose st1 id (Some (mkRect (bottom orig - down) (left orig) down (cols rc)))
      else if down <? 0 then win_expose st1 id (Some (mkRect (top orig) (left orig) (- down) (cols rc)))
      else st1 in
    let st3 :=
      if rightw >? 0 then win_expose st2 id (Some (mkRect (top orig) (right orig - rightw) (lines rc) rightw))
      else if rightw <? 0 then win_expose st2 id (Some (mkRect (top orig) (left orig) (lines rc) (- rightw)))
      else st2 in
    (st3, tm2, ret, true)
  else (win_expose st1 id (Some orig), tm2, false, true).

Lemma scroll_one_unfold id abs_t abs_l down rightw st tm ret dp rc :
  scroll_one id abs_t abs_l down rightw (st, tm, ret, dp) rc =
  if (Z.abs down >=? lines rc) || (Z.abs rightw >=? cols rc) then
    (win_expose st id (Some (r_translate rc (- abs_t) (- abs_l))), tm, ret, dp)
  else
    match shift_damage (r_fuel st) (r_damage st) rc down rightw with
    | None => (set_fault st, tm, ret, dp)
    | Some dmg => scroll_tail id (r_translate rc (- abs_t) (- abs_l)) rc down rightw (set_damage st dmg)
                    (if dp then tm else term_set_cvis tm false) ret
    end.
Proof. reflexivity. Qed.

Lemma scroll_tail_ev id orig rc d r st1 tm1 ret :
  Inv (r_damage st1) -> r_fault st1 = false ->
  exists f0, forall f', (f0 <= f')%nat ->
    r_fault (acc_st (scroll_tail id orig rc d r (with_fuel f' st1) tm1 ret)) = false.
Proof.
  intros Hi Hf. unfold scroll_tail.
  destruct (term_scroll tm1 rc d r) as [tm2 acc']. unfold acc_st.
  destruct acc'; cbn [fst].
  - destruct (d >? 0); [|destruct (d <? 0)]; (destruct (r >? 0); [|destruct (r <? 0)]);
      first [ apply two_exposes_ev; assumption
            | apply expose_ev; [exact Hi|exact Hf|intros HH; discriminate HH]
            | exists 0%nat; intros; exact Hf ].
  - apply expose_ev; [exact Hi|exact Hf|intros HH; discriminate HH].
Qed.

Lemma scroll_one_ex id a b d r st tm ret dp rc :
  Inv (r_damage st) -> r_fault st = false -> nonempty rc ->
  exists f0, r_fault (acc_st (scroll_one id a b d r (with_fuel f0 st, tm, ret, dp) rc)) = false.
Proof.
  intros Hi Hf Hrc.
  destruct ((Z.abs d >=? lines rc) || (Z.abs r >=? cols rc)) eqn:Ebig.
  - destruct (expose_ev st id (Some (r_translate rc (- a) (- b))) Hi Hf ltac:(intros HH; discriminate HH))
      as [f0 H0].
    exists f0. rewrite scroll_one_unfold, Ebig. unfold acc_st. cbn [fst]. exact (H0 f0 (le_n _)).
  - destruct (shift_damage_ev (r_damage st) rc d r (inv_all_nonempty _ Hi) Hrc) as [f1 [dmg [Hid H1]]].
    destruct (scroll_tail_ev id (r_translate rc (- a) (- b)) rc d r (set_damage st dmg)
                (if dp then tm else term_set_cvis tm false) ret Hid Hf) as [f2 H2].
    exists (Nat.max f1 f2). rewrite scroll_one_unfold, Ebig. cbn [r_fuel r_damage with_fuel].
    rewrite (H1 (Nat.max f1 f2)) by lia.
    change (set_damage (with_fuel (Nat.max f1 f2) st) dmg) with (with_fuel (Nat.max f1 f2) (set_damage st dmg)).
    apply H2. lia.
Qed.

Lemma scroll_fold_ex id a b d r : forall V acc,
  all_nonempty V -> Inv (r_damage (acc_st acc)) -> r_fault (acc_st acc) = false ->
  exists f0, r_fault (acc_st (fold_left (scroll_one id a b d r) V (wf_acc f0 acc))) = false.
Proof.
  induction V as [|rc V IH]; intros acc Hne Hi Hf.
  - exists 0%nat. destruct acc as [[[s tm] ret] dp]. exact Hf.
  - inversion Hne as [|x0 l0 Hrc Hne']; subst. destruct acc as [[[s tm] ret] dp].
    unfold acc_st in Hi, Hf. cbn [fst] in Hi, Hf.
    destruct (scroll_one_ex id a b d r s tm ret dp rc Hi Hf Hrc) as [f1 H1].
    set (acc1 := scroll_one id a b d r (with_fuel f1 s, tm, ret, dp) rc) in *.
    assert (Hi1 : Inv (r_damage (acc_st acc1))) by (apply dinv_scroll_one; [exact Hrc|exact Hi]).
    destruct (IH acc1 Hne' Hi1 H1) as [f2 H2].
    exists (Nat.max f1 f2). cbn [fold_left].
    change (wf_acc (Nat.max f1 f2) (s, tm, ret, dp)) with (wf_acc (Nat.max f1 f2) (with_fuel f1 s, tm, ret, dp)).
    rewrite (scroll_one_wf id a b d r (with_fuel f1 s, tm, ret, dp) rc (Nat.max f1 f2) H1 (Nat.le_max_l _ _)).
    fold acc1.
    assert (E : wf_acc (Nat.max f1 f2) acc1 = wf_acc (Nat.max f1 f2) (wf_acc f2 acc1))
      by (destruct acc1 as [[[s1 tm1] ret1] dp1]; reflexivity).
    rewrite E. rewrite scroll_fold_wf; [|exact H2|].
    + destruct (fold_left (scroll_one id a b d r) V (wf_acc f2 acc1)) as [[[s3 tm3] ret3] dp3]. exact H2.
    + destruct acc1 as [[[s1 tm1] ret1] dp1]. cbn. apply Nat.le_max_r.
Qed.

Lemma chain_kids_ok id T chain : vis_nonempty T -> t_chain id T = Some chain ->
  Forall (fun p => Forall kid_ok (t_kids p)) chain.
Proof.
  intros Hvn Hc. unfold t_chain in Hc. destruct (t_path id T) as [p|] eqn:Ep; [|discriminate].
  injection Hc as <-. destruct (path_spec _ _ _ Ep) as [_ [Hall _]].
  apply Forall_rev. rewrite Forall_forall in *. intros x Hx. rewrite Forall_forall. intros c Hc Hv.
  apply Hvn; [|exact Hv]. eapply subtree_trans; [apply subtree_kid; exact Hc|apply Hall; exact Hx].
Qed.

Lemma win_scroll_ex_cfg cfg st tm id orig down rightw mask :
  Inv (r_damage st) -> r_fault st = false -> vis_nonempty (r_tree st) ->
  exists f0, r_fault (fst (fst (win_scroll cfg (with_fuel f0 st) tm id orig down rightw mask))) = false.
Proof.
  intros Hi Hf Hvn. unfold win_scroll. cbn [r_tree r_fuel with_fuel].
  destruct (t_chain id (r_tree st)) as [chain|] eqn:Ech; [|exists 0%nat; exact Hf].
  pose proof (chain_kids_ok id _ chain Hvn Ech) as Hck.
  destruct chain as [|w rest]; [exists 0%nat; exact Hf|].
  destruct (match orig with
            | Some o => r_intersect (selfrect (t_info w)) o
            | None => r_intersect (selfrect (t_info w)) (selfrect (t_info w))
            end) as [rc|] eqn:Erc; [|exists 0%nat; exact Hf].
  assert (Hrcne : nonempty rc).
  { destruct orig as [o|]; apply intersect_some in Erc; tauto. }
  destruct (rs_add_ev [] rc inv_nil Hrcne) as [f1 [v0 [Hi0 H1]]].
  assert (Hm : exists f2 (v1 : rectset), Inv v1 /\ forall f', (f2 <= f')%nat ->
             (if mask then rs_sub_vis f' (Some v0) (t_kids w) else Some v0) = Some v1).
  { destruct mask.
    - inversion Hck as [|w0 r0 Hw Hr]; subst. exact (rs_sub_vis_ev (t_kids w) v0 Hi0 Hw).
    - exists 0%nat, v0. split; [exact Hi0|]. intros; reflexivity. }
  destruct Hm as [f2 [v1 [Hi1 H2]]].
  destruct (scroll_region_ev cfg (w :: rest) v1 0 0 Hi1 Hck) as [f3 [R [HR [HRi H3]]]].
  destruct R as [| |V a b]; [congruence| |].
  - exists (Nat.max f1 (Nat.max f2 f3)).
    rewrite (H1 (Nat.max f1 (Nat.max f2 f3))) by lia. rewrite (H2 (Nat.max f1 (Nat.max f2 f3))) by lia.
    rewrite (H3 (Nat.max f1 (Nat.max f2 f3))) by lia. exact Hf.
  - pose proof (inv_all_nonempty _ (HRi V a b eq_refl)) as HneV.
    destruct (scroll_fold_ex id a b down rightw V (st, tm, true, false) HneV Hi Hf) as [f4 H4].
    set (F := Nat.max (Nat.max f1 f4) (Nat.max f2 f3)).
    exists F. rewrite (H1 F) by lia. rewrite (H2 F) by lia. rewrite (H3 F) by lia.
    change (with_fuel F st, tm, true, false) with (wf_acc F (wf_acc f4 (st, tm, true, false))).
    rewrite scroll_fold_wf; [|exact H4|cbn; lia].
    destruct (fold_left (scroll_one id a b down rightw) V (wf_acc f4 (st, tm, true, false)))
      as [[[s1 tm1] ret1] dp1].
    unfold acc_st in H4. cbn [fst wf_acc] in *. destruct dp1; exact H4.
Qed.

(* with enough fuel win_scroll does not fault (the hypothesis on the tree -- visible windows
   have non-empty rectangles -- is the side condition op_side3 of the scroll operations) *)
Lemma win_scroll_ex st tm id orig down rightw mask :
  Inv (r_damage st) -> r_fault st = false -> vis_nonempty (r_tree st) ->
  exists f0, r_fault (fst (fst (win_scroll no_defects (with_fuel f0 st) tm id orig down rightw mask))) = false.
Proof. apply win_scroll_ex_cfg. Qed.

(* ------------------------------------------------------------------------------------ *)
(* STEP 3: progress for every operation                                                  *)

Lemma move_fold_fault_eq d r : forall l s, r_fault (fold_left (move_step d r) l s) = r_fault s.
Proof. induction l as [|c l IH]; intros s; [reflexivity|]. cbn [fold_left]. rewrite IH. reflexivity. Qed.

Lemma step_ex_all progs o m :
  Inv (r_damage (m_root m)) -> r_fault (m_root m) = false -> step_side3 (m_root m) o ->
  exists f0, r_fault (m_root (step no_defects progs o (m_with_fuel f0 m))) = false.
Proof.
  intros Hi Hf Hside. destruct (fuel_alpha o) eqn:Ha; [apply step_ex; assumption|].
  destruct m as [st tm app gen xl fe sr]. unfold m_with_fuel.
  destruct o; try discriminate Ha;
    cbn [step m_root m_term m_app m_gen m_xlog m_fevs m_srecs m_set_root step_side3 op_side3] in *.
  - destruct (win_scroll_ex st tm id None down rightw true Hi Hf Hside) as [f0 H]. exists f0.
    destruct (win_scroll no_defects (with_fuel f0 st) tm id None down rightw true) as [[a b] c].
    rewrite m_scrolled_root. exact H.
  - destruct (win_scroll_ex st tm id (Some r) down rightw true Hi Hf Hside) as [f0 H]. exists f0.
    destruct (win_scroll no_defects (with_fuel f0 st) tm id (Some r) down rightw true) as [[a b] c].
    rewrite m_scrolled_root. exact H.
  - destruct (win_scroll_ex st tm id None down rightw false Hi Hf Hside) as [f0 H]. exists f0.
    destruct (win_scroll no_defects (with_fuel f0 st) tm id None down rightw false) as [[a b] c].
    rewrite m_scrolled_root. cbn [fst] in H. fold (move_step down rightw).
    destruct (t_find id (r_tree a)); [rewrite move_fold_fault_eq|]; exact H.
Qed.

(* ------------------------------------------------------------------------------------ *)
(* STEP 4: the theorems of WinFuelTotal.v for the whole alphabet                          *)

Theorem history_total_ev_all progs nl nc orc :
  (forall id, progs id = [DPaint]) -> 0 < nl -> 0 < nc ->
  forall ops, sides_along progs ops nl nc orc ->
  exists f0, forall f, (f0 <= f)%nat ->
    r_fault (m_root (run no_defects progs ops (m_init_f f nl nc orc))) = false /\
    MInv3 (run no_defects progs ops (m_init_f f nl nc orc)) /\
    run no_defects progs ops (m_init_f f nl nc orc) =
    m_with_fuel f (run no_defects progs ops (m_init_f f0 nl nc orc)).
Proof.
  intros Hp Hl Hc. induction ops as [|o ops IH] using rev_ind; intros Hs.
  - destruct (init_ev nl nc orc Hl Hc) as [f0 H]. exists f0. intros f Hle.
    destruct (H f Hle) as [A B]. cbn [run fold_left]. split; [exact A|]. split; [|exact B].
    apply init_inv3_f; assumption.
  - assert (Hs' : sides_along progs ops nl nc orc).
    { intros fuel pre o' post E. apply (Hs fuel pre o' (post ++ [o])).
      rewrite E, <- app_assoc. reflexivity. }
    destruct (IH Hs') as [f0 H0].
    set (m0 := run no_defects progs ops (m_init_f f0 nl nc orc)) in *.
    destruct (H0 f0 (le_n _)) as (Hf0 & Hm0 & _).
    assert (Hside0 : step_side3 (m_root m0) o) by (apply (Hs f0 ops o []); [reflexivity|exact Hf0]).
    destruct (step_ex_all progs o m0 (proj2 (proj2 Hm0)) Hf0 Hside0) as [f1 H1].
    set (S1 := step no_defects progs o (m_with_fuel f1 m0)) in *.
    assert (K : forall f, (Nat.max f0 f1 <= f)%nat ->
              run no_defects progs (ops ++ [o]) (m_init_f f nl nc orc) = m_with_fuel f S1).
    { intros f Hle. rewrite run_snoc. destruct (H0 f) as (_ & _ & E); [lia|]. rewrite E.
      change (m_with_fuel f m0) with (m_with_fuel f (m_with_fuel f1 m0)).
      apply step_wf_all; [exact H1|]. cbn. lia. }
    exists (Nat.max f0 f1). intros f Hle. rewrite (K f Hle).
    rewrite (K (Nat.max f0 f1) (le_n _)).
    split; [exact H1|]. split; [|reflexivity].
    rewrite <- (K f Hle). rewrite run_snoc.
    destruct (H0 f) as (Hff & Hmf & _); [lia|].
    assert (Hsidef : step_side3 (m_root (run no_defects progs ops (m_init_f f nl nc orc))) o)
      by (apply (Hs f ops o []); [reflexivity|exact Hff]).
    assert (Hfs : r_fault (m_root (step no_defects progs o (run no_defects progs ops (m_init_f f nl nc orc)))) = false).
    { rewrite <- run_snoc. rewrite (K f Hle). exact H1. }
    destruct o; try (apply step_preserves3; [exact Hmf|exact Hsidef|exact Hfs]).
    apply (flush_step3 progs _ Hp Hmf Hfs).
Qed.

(* for EVERY history whose operations meet their side conditions there is an amount of fuel
   with which it does not fault *)
Theorem history_total_all progs ops nl nc orc :
  (forall id, progs id = [DPaint]) -> 0 < nl -> 0 < nc ->
  sides_along progs ops nl nc orc ->
  exists fuel, r_fault (m_root (run no_defects progs ops (m_init_f fuel nl nc orc))) = false.
Proof.
  intros Hp Hl Hc Hs. destruct (history_total_ev_all progs nl nc orc Hp Hl Hc ops Hs) as [f0 H].
  exists f0. exact (proj1 (H f0 (le_n _))).
Qed.

(* ... and with it (and with every larger amount) the invariant of C01 holds at the end *)
Theorem history_total_c01_all progs ops nl nc orc :
  (forall id, progs id = [DPaint]) -> 0 < nl -> 0 < nc ->
  sides_along progs ops nl nc orc ->
  exists fuel, forall f, (fuel <= f)%nat ->
    r_fault (m_root (run no_defects progs ops (m_init_f f nl nc orc))) = false /\
    MInv3 (run no_defects progs ops (m_init_f f nl nc orc)).
Proof.
  intros Hp Hl Hc Hs. destruct (history_total_ev_all progs nl nc orc Hp Hl Hc ops Hs) as [f0 H].
  exists f0. intros f Hle. destruct (H f Hle) as (A & B & _). split; assumption.
Qed.

(* a history that ends with a flush: every screen cell shows the composition *)
Theorem history_total_flushed_all progs ops nl nc orc :
  (forall id, progs id = [DPaint]) -> 0 < nl -> 0 < nc ->
  sides_along progs (ops ++ [OFlush]) nl nc orc ->
  exists fuel, forall f, (fuel <= f)%nat ->
    r_fault (m_root (run no_defects progs (ops ++ [OFlush]) (m_init_f f nl nc orc))) = false /\
    all_shown (run no_defects progs (ops ++ [OFlush]) (m_init_f f nl nc orc)).
Proof.
  intros Hp Hl Hc Hs.
  assert (Hs' : sides_along progs ops nl nc orc).
  { intros fuel pre o' post E. apply (Hs fuel pre o' (post ++ [OFlush])).
    rewrite E, <- app_assoc. reflexivity. }
  destruct (history_total_ev_all progs nl nc orc Hp Hl Hc _ Hs) as [f1 H1].
  destruct (history_total_ev_all progs nl nc orc Hp Hl Hc _ Hs') as [f0 H0].
  exists (Nat.max f0 f1). intros f Hle.
  destruct (H1 f) as (A & _ & _); [lia|]. destruct (H0 f) as (_ & B & _); [lia|].
  split; [exact A|]. rewrite run_snoc in *. apply (flush_step3 progs _ Hp B A).
Qed.

Print Assumptions win_scroll_ex.
Print Assumptions step_ex_all.
Print Assumptions history_total_ev_all.
Print Assumptions history_total_all.
Print Assumptions history_total_c01_all.
Print Assumptions history_total_flushed_all.
